/- C02: error propagation for forms compiled in TAIL position (`ErrAtT`, `tf_errT_gen`; the tail-position `if` is a parameter) and
   for function bodies (`fnBody_err`).  A leading sub-form raises (non-tail `ErrAt`, the rest of the compile — in tail position —
   only appends: `tf_shapeT_at` / `tf_maxT_at`), or the last one does (`ErrAtT` by induction); a call in tail position: an operand
   raises or the application raises at the JOP_TAILCALL (`err_tailcall_core`). -/
import JanetModel.Compile.SeqErrTailCall
namespace JanetModel.Compile
open JanetModel.Emit JanetModel.Lang JanetModel.Bytecode.Exec JanetModel.Gen.Bytecode

/-- one form compiled in tail position, as an append-only step -/
theorem tf_appT (G : String → Prop) (b : Bool) (fuel : Nat) (e : Expr) (opts : Fopts) (c c' : CState) (slot : JSlot) (sc : Scope) (rs : List Scope)
    (pool : List KConst) (ps : List (List KConst))
    (ht : opts.tail = true) (hh : opts.hint = none) (hs : c.scopes = sc :: rs) (hp : c.pools = pool :: ps) (htop : sc.top = false)
    (hm : c.map.length = c.buf.length) (hT : TF G b e) (hL : LkL G c.scopes) (hc : cValue fuel opts e c = some (slot, c')) :
    App c c' rs ps := by
  obtain ⟨S, _⟩ := tf_shapeT_at G fuel b e opts c c' slot sc rs pool ps ht hh hs hp htop hm hT hL hc
  exact S.app hs hp (tf_maxT_at G fuel b e opts c c' slot sc rs pool ps ht hh hs hp htop hm hT hL hc)

section
variable (p : Program) (f0 : Frame) (rest : List Frame) (V : Array Value) (P : List KConst)

/-- the error statement for tail-position compiles at compile fuel `fuel` -/
def ErrAtT (G : String → Prop) (b : Bool) (fuel : Nat) : Prop :=
  ∀ (e : Expr) (opts : Fopts) (c c' : CState) (slot : JSlot) (sc : Scope) (rs : List Scope) (pool : List KConst) (ps : List (List KConst))
    (n : Nat) (cur : Pos) (env : Env) (s s' : SS) (ev : Value) (epos : Pos),
    opts.tail = true → opts.hint = none → c.scopes = sc :: rs → c.pools = pool :: ps → c.lim ≤ 240 → sc.top = false →
    c.map.length = c.buf.length → c.cur = cur → TF G b e → cValue fuel opts e c = some (slot, c') →
    eval n cur env e s = .err ev epos s' → EnvS G c.scopes env s.boxes.size sc.ra →
    ErrOK p f0 rest V P c c' rs ps env s s' ev epos

/-- `janetc_return` after the failing form: never reached -/
theorem finT_err (G : String → Prop) (q : Pos) (ret slot : JSlot) (c c1 c' : CState) (sc : Scope) (rs : List Scope) (pool : List KConst)
    (ps : List (List KConst)) (env : Env) (s s' : SS) (ev : Value) (epos : Pos)
    (hE : ErrOK p f0 rest V P { c with cur := q } c1 rs ps env s s' ev epos) (hS : Shp G { c with cur := q } c1 sc rs pool ps)
    (h : finT c.cur (some (ret, c1)) = some (slot, c')) : ErrOK p f0 rest V P c c' rs ps env s s' ev epos := by
  simp only [finT, Option.bind_eq_some_iff, Option.some.injEq, Prod.mk.injEq, Prod.exists] at h
  obtain ⟨s2, c2, hcr, _, hc'⟩ := h
  subst hc'
  obtain ⟨sc1, pool1, hs1, hp1, _, _, _⟩ := hS.out
  have A2 : App c1 c2 rs ps := (cReturn_stepR c1 c2 ret s2 sc1 rs pool1 ps hs1 hp1 hcr).1.app hs1 hp1 (cReturn_maxR c1 c2 ret s2 sc1 rs pool1 ps hs1 hp1 hcr)
  obtain ⟨ra', ns, more, seg, segm, hc1, _⟩ := hS
  exact ErrOK.recur p f0 rest V P (hE.extend seg segm (by rw [hc1]) (by rw [hc1]) A2)

/-- body of `do` / `upscope` in tail position -/
theorem doBody_errT (G : String → Prop) (b w : Bool) (fuel : Nat) (CN : CorrectAt p f0 rest V P G (TF G b) w fuel)
    (EN : ErrAt p f0 rest V P G b fuel) (IHT : ErrAtT p f0 rest V P G b fuel) : ∀ (body : List Expr), (∀ e, e ∈ body → TF G b e) →
    ∀ (opts : Fopts) (c c' : CState) (slot : JSlot) (sc : Scope) (rs : List Scope) (pool : List KConst) (ps : List (List KConst))
      (n : Nat) (cur : Pos) (env : Env) (s s' : SS) (ev : Value) (epos : Pos),
      opts.tail = true → opts.hint = none → c.scopes = sc :: rs → c.pools = pool :: ps → c.lim ≤ 240 → sc.top = false →
      c.map.length = c.buf.length → c.cur = cur →
      doBody (cValue fuel) opts body c = some (slot, c') → evalSeq n cur env body s = .err ev epos s' →
      EnvS G c.scopes env s.boxes.size sc.ra → ErrOK p f0 rest V P c c' rs ps env s s' ev epos := by
  intro body
  induction body with
  | nil =>
    intro _ opts c c' slot sc rs pool ps n cur env s s' ev epos _ _ _ _ _ _ _ _ _ hsem
    exact absurd hsem (evalSeq_nil_err n cur env s s' ev epos)
  | cons x t ih =>
    intro hT opts c c' slot sc rs pool ps n cur env s s' ev epos ht hh hs hp hl htop hm hcur hc hsem hE
    have hTx := hT x (by simp)
    cases t with
    | nil =>
      simp only [doBody] at hc
      obtain ⟨n2, hn, he⟩ := evalSeq_one_err_inv n cur env x s s' ev epos hsem
      exact IHT x opts c c' slot sc rs pool ps n2 cur env s s' ev epos ht hh hs hp hl htop hm hcur hTx hc he hE
    | cons y r =>
      simp only [doBody, Option.bind_eq_bind, Option.bind_eq_some_iff, Prod.exists] at hc
      obtain ⟨sl1, c1, hx, c1f, hf, hrest⟩ := hc
      obtain ⟨S1, _⟩ := tf_shapeM_at G fuel b x { drop := true } c c1 sl1 sc rs pool ps rfl rfl hs hp htop hm hTx hE.lkl hx
      obtain ⟨sc1, pool1, hs1, hp1, ht1, hL1, _⟩ := S1.out
      have hm1 := S1.mapLen hm
      have Rf := freeslot_stepR c1 c1f sl1 sc1 rs pool1 ps hs1 hp1 hf
      have Mf := freeslot_maxR c1 c1f sl1 sc1 rs hs1 hf
      have Sf := Rf.shp hs1 hL1
      obtain ⟨sc2, pool2, hs2, hp2, ht2, hL2, _⟩ := Sf.out
      have hm2 := Sf.mapLen hm1
      have htop2 : sc2.top = false := by rw [ht2, ht1]; exact htop
      have hTr : ∀ e, e ∈ y :: r → TF G b e := fun e he => hT e (by simp [he])
      have SR := doBody_shapeT G fuel (tf_shapeT_at G fuel) b (y :: r) hTr opts c1f c' slot sc2 rs pool2 ps ht hh hs2 hp2 htop2 hm2 hL2 hrest
      have MR := doBody_maxT G fuel (tf_maxT_at G fuel) b (y :: r) hTr opts c1f c' slot sc2 rs pool2 ps ht hh hs2 hp2 htop2 hm2 hL2 hrest
      have AR : App c1f c' rs ps := SR.app hs2 hp2 MR
      obtain ⟨n2, hn, hcase⟩ := evalSeq_cons_err_inv n cur env x y r s s' ev epos hsem
      rcases hcase with he | ⟨v1, env1, s1, he1, he2⟩
      · have E1 := EN x { drop := true } c c1 sl1 sc rs pool ps n2 cur env s s' ev epos rfl rfl hs hp hl htop hm hcur hTx hx he hE
        obtain ⟨ra', ns, more, seg, segm, hc1, _⟩ := S1
        exact E1.extend seg segm (by rw [hc1]) (by rw [hc1]) ((Rf.app hs1 hp1 Mf).trans AR)
      · have H := CN x { drop := true } c c1 sl1 sc rs pool ps n2 cur env env1 s s1 v1 rfl rfl hs hp hl htop (fun _ => hm) hTx hx he1 hE
        have H2 := H
        obtain ⟨ra1, ns1, more1, seg1, segm1, hc1, pv1, mono1, max1, sok1, bx1, es1, nf1, vm1⟩ := H2
        have hs1' : c1.scopes = { sc with ra := ra1, syms := sc.syms ++ ns1 } :: rs := by rw [hc1]
        obtain ⟨raf, hcf, hmaxf, hkeep⟩ := freeslot_ok c1 c1f sl1 sc { sc with ra := ra1, syms := sc.syms ++ ns1 } rs hs1' sok1 hf
        have hsf : c1f.scopes = { sc with ra := raf, syms := sc.syms ++ ns1 } :: rs := by rw [hcf]
        have hpf : c1f.pools = (pool ++ more1) :: ps := by rw [hcf, hc1]
        have hlkf : ∀ z, lk c1f.scopes z = lk c1.scopes z := by intro z; rw [hsf, hs1']; rfl
        have esf : EnvS G c1f.scopes env1 s1.boxes.size raf :=
          es1.of_lk hlkf (Nat.le_refl _) (fun z slot u l r hx hk hr => hkeep r hr (Or.inr ⟨z, slot, u, l, hx, hk⟩))
        have E2 := ih hTr opts c1f c' slot _ rs _ ps n2 cur env1 s1 s' ev epos ht hh hsf hpf (by rw [hcf, hc1]; exact hl) htop
          hm2 (by rw [hcf, hc1]; exact hcur) hrest he2 esf
        exact ErrOK.after H hm hm1 (by rw [hcf]) (by rw [hcf]) (by rw [hcf]) (by rw [hcf]) hlkf Mf AR E2

/-- a call in tail position: an operand raises, or the application does (at the TAILCALL) -/
theorem call_errT (hP : P.length < 65536)
    (hK : ∀ i, i < P.length → (p.defs.getD f0.defIdx default).consts.getD i .nil = litOf V (P.getD i .nil))
    (FF : FloatFacts) (G : String → Prop) (b w : Bool) (fuel : Nat) (CN : CorrectAt p f0 rest V P G (TF G b) w fuel)
    (EN : ErrAt p f0 rest V P G b fuel) (opts : Fopts) (ht : opts.tail = true)
    (f : String) (args : List Expr) (pp : Pos) (hf : specials.contains f = false) (hna : f ≠ "apply") (hG : G f) (hTa : ∀ a, a ∈ args → TF G b a)
    (c cq : CState) (slot0 : JSlot) (sc : Scope) (rs : List Scope) (pool : List KConst) (ps : List (List KConst))
    (n : Nat) (cur : Pos) (env : Env) (s s' : SS) (ev : Value) (epos : Pos)
    (hs : c.scopes = sc :: rs) (hp : c.pools = pool :: ps) (hl : c.lim ≤ 240) (htop : sc.top = false) (hm : c.map.length = c.buf.length)
    (hcur : c.cur = posOf cur pp)
    (hcc : cCall (cValue fuel) opts (.sym f) args c = some (slot0, cq))
    (hsem : eval n cur env (.form (.sym f :: args) pp) s = .err ev epos s')
    (hE : EnvS G c.scopes env s.boxes.size sc.ra) : ErrOK p f0 rest V P c cq rs ps env s s' ev epos := by
  have hgl : lookupEnv env f = none := by
    rcases hE.2 f with ⟨_, h⟩ | ⟨sl, r, a', u, h, _⟩
    · exact h
    · rw [hE.1 f hG] at h; exact absurd h (by simp)
  obtain ⟨n2, hn, hcase⟩ := eval_callN_err_inv n cur env f args pp s s' ev epos hf hgl hsem
  rcases hcase with hargs | ⟨vs, env_a, s_a, hargs, happ⟩
  · obtain ⟨head, c1, slots, c2, c3, h1, h2, h3, hrest⟩ := cCallT_inv (cValue fuel) opts ht f args c cq slot0 hcc
    have hsh : eval (n2 + 1) (posOf cur pp) env (.sym f) s = .ok (.cfun f, env) s := eval_sym_global n2 _ env f s hgl
    have H := CN (.sym f) {} c c1 head sc rs pool ps (n2 + 1) (posOf cur pp) env env s s (.cfun f) rfl rfl hs hp hl htop (fun _ => hm) (.sym f) h1 hsh hE
    have H2 := H
    obtain ⟨ra1, ns1, more1, seg1, segm1, hc1, pv1, mono1, max1, sok1, bx1, es1, nf1, vm1⟩ := H2
    have hs1 : c1.scopes = { sc with ra := ra1, syms := sc.syms ++ ns1 } :: rs := by rw [hc1]
    have hp1 : c1.pools = (pool ++ more1) :: ps := by rw [hc1]
    obtain ⟨_, hm1, _⟩ := tf_app G b fuel (.sym f) {} c c1 head sc rs pool ps rfl rfl hs hp htop hm (.sym f) hE.lkl h1
    have E2 := toSlots_err p f0 rest V P G b w fuel CN EN args hTa c1 c2 slots _ rs _ ps (n2 + 1) (posOf cur pp) env s s' ev epos hs1 hp1
      (by rw [hc1]; exact hl) htop hm1 (by rw [hc1]; exact hcur) h2 hargs es1
    have S2 := toSlots_shapeM G fuel (tf_shapeM_at G fuel) b args hTa c1 c2 slots _ rs _ ps hs1 hp1 htop hm1 es1.lkl h2
    have M2 := toSlots_maxR G fuel (tf_maxM_at G fuel) b args hTa c1 c2 slots _ rs _ ps hs1 hp1 htop hm1 es1.lkl h2
    obtain ⟨sc2, pool2, hs2, hp2, ht2, _, _⟩ := S2.out
    have A2 : App c1 c2 rs ps := S2.app hs1 hp1 M2
    have A3 : App c2 cq rs ps := by
      have R3 := pushSlots_stepR slots c2 c3 sc2 rs pool2 ps hs2 hp2 h3
      obtain ⟨sc3, pool3, hs3, hp3, ht3, _⟩ := R3.out
      have hct : curTop c3 = false := by simp [curTop, hs3, ht3, ht2, htop]
      obtain ⟨c4, c5, hem, _, hf1, hf2⟩ := hrest hct
      have R4 := emitS_stepR c3 c4 _ head false sc3 rs pool3 ps hs3 hp3 hem
      obtain ⟨sc4, pool4, hs4, hp4, _, _⟩ := R4.out
      have R5 := freeslots_stepR slots c4 c5 sc4 rs pool4 ps hs4 hp4 hf1
      obtain ⟨sc5, pool5, hs5, hp5, _, _⟩ := R5.out
      have R6 := freeslot_stepR c5 cq head sc5 rs pool5 ps hs5 hp5 hf2
      exact (R3.app hs2 hp2 (pushSlots_maxR slots c2 c3 sc2 rs pool2 ps hs2 hp2 h3)).trans
        ((R4.app hs3 hp3 (emitW_maxR c3 c4 _ sc3 rs pool3 ps hs3 hp3 (fun e => W_emitS_max e _ _ _) hem)).trans
          ((R5.app hs4 hp4 (freeslots_maxR slots c4 c5 sc4 rs pool4 ps hs4 hp4 hf1)).trans
            (R6.app hs5 hp5 (freeslot_maxR c5 cq head sc5 rs hs5 hf2))))
    obtain ⟨ra', ns, more, seg, segm, hc2, _⟩ := S2
    have E3 := E2.extend seg segm (by rw [hc2]) (by rw [hc2]) A3
    exact ErrOK.after H hm hm1 rfl rfl rfl rfl (fun _ => rfl) (MaxR.refl c1 rs) (A2.trans A3) E3
  · rw [← hcur] at hargs happ
    obtain ⟨hpos, hst, mx, more, seg, segm, e1, e2, e3, e4, ⟨sc0, e5, e6⟩, vm⟩ :=
      err_tailcall_core p f0 rest V P hP hK FF G b w fuel CN opts ht f args hna hG hTa c cq slot0 sc rs pool ps n2 env env_a s s_a s' vs ev epos
        hs hp hl htop hm hcc hargs happ hE
    intro sc' pool' seg' segm' a1 a2 a3 a4 k b1 b2 b3 b4 b5 b6 b7 b8
    rw [e5] at a1
    rw [e3] at a2
    have x1 : sc0 = sc' := (List.cons.inj a1).1
    have x2 : pool ++ more = pool' := (List.cons.inj a2).1
    have x3 : seg = seg' := by rw [e1] at a3; exact List.append_cancel_left a3
    have x4 : segm = segm' := by rw [e2] at a4; exact List.append_cancel_left a4
    subst x1 x2 x3 x4
    exact vm k b1 b2 b3 b4 b5 b6 b7 (by rw [← e6]; exact b8)

/-- what the tail-position `if` case has to deliver -/
def ErrIfCaseT (G : String → Prop) (b : Bool) (fuel : Nat) : Prop :=
  ∀ (cnd tb : Expr) (els : List Expr) (pp : Pos), CondOK cnd → els.length ≤ 1 → TF G b cnd → TF G b tb → (∀ e, e ∈ els → TF G b e) →
  ∀ (opts : Fopts) (c c' : CState) (slot : JSlot) (sc : Scope) (rs : List Scope) (pool : List KConst) (ps : List (List KConst))
    (n : Nat) (cur : Pos) (env : Env) (s s' : SS) (ev : Value) (epos : Pos),
    opts.tail = true → opts.hint = none → c.scopes = sc :: rs → c.pools = pool :: ps → c.lim ≤ 240 → sc.top = false →
    c.map.length = c.buf.length → c.cur = cur →
    cValue (fuel + 1) opts (.form (.sym "if" :: cnd :: tb :: els) pp) c = some (slot, c') →
    eval n cur env (.form (.sym "if" :: cnd :: tb :: els) pp) s = .err ev epos s' → EnvS G c.scopes env s.boxes.size sc.ra →
    ErrOK p f0 rest V P c c' rs ps env s s' ev epos

theorem tf_errT_gen (hP : P.length < 65536)
    (hK : ∀ i, i < P.length → (p.defs.getD f0.defIdx default).consts.getD i .nil = litOf V (P.getD i .nil))
    (FF : FloatFacts) (G : String → Prop) (b w : Bool) (CN : ∀ fuel, CorrectAt p f0 rest V P G (TF G b) w fuel)
    (EN : ∀ fuel, ErrAt p f0 rest V P G b fuel)
    (IFT : b = true → ∀ fuel, ErrAtT p f0 rest V P G b fuel → ErrIfCaseT p f0 rest V P G b fuel) :
    ∀ fuel, ErrAtT p f0 rest V P G b fuel := by
  intro fuel
  induction fuel with
  | zero =>
    intro e opts c c' slot sc rs pool ps n cur env s s' ev epos _ _ _ _ _ _ _ _ _ hc
    simp [cValue] at hc
  | succ fuel ih =>
    intro e opts c c' slot sc rs pool ps n cur env s s' ev epos ht hh hs hp hl htop hm hcur hT hc hsem hE
    cases hT with
    | lit w' hw =>
      cases n with
      | zero => simp [eval] at hsem
      | succ n => rw [eval_lit] at hsem; exact absurd hsem (by simp)
    | sym x =>
      cases n with
      | zero => simp [eval] at hsem
      | succ n =>
        cases hl' : lookupEnv env x with
        | none => rw [eval_sym_global n cur env x s hl'] at hsem; exact absurd hsem (by simp)
        | some a => rw [eval_sym_local n cur env x s a hl'] at hsem; exact absurd hsem (by simp)
    | call f args pp hf hna hG hTa =>
      rw [cValue_call_t fuel opts ht hh f args pp c hf] at hc
      have hq := posOf_curAt c cur pp hcur
      cases hcc : cCall (cValue fuel) opts (.sym f) args (curAt c pp) with
      | none => rw [hcc] at hc; simp [finT] at hc
      | some res =>
        obtain ⟨slot0, cq⟩ := res
        rw [hcc] at hc
        rw [hq] at hcc
        have E := call_errT p f0 rest V P hP hK FF G b w fuel (CN fuel) (EN fuel) opts ht f args pp hf hna hG hTa { c with cur := posOf cur pp } cq slot0
          sc rs pool ps n cur env s s' ev epos hs hp hl htop hm rfl hcc hsem hE
        obtain ⟨S, _⟩ := cCall_shapeT G fuel b f args hTa opts ht { c with cur := posOf cur pp } cq slot0 sc rs pool ps hs hp htop hm hE.lkl hcc
        exact finT_err p f0 rest V P G (posOf cur pp) _ slot c cq c' sc rs pool ps env s s' ev epos E S hc
    | doo body pp hTb =>
      rw [cValue_do_t fuel opts ht hh body pp c] at hc
      have hq := posOf_curAt c cur pp hcur
      cases hcc : cDo (cValue fuel) opts body (curAt c pp) with
      | none => rw [hcc] at hc; simp [finT] at hc
      | some res =>
        obtain ⟨slot0, cq⟩ := res
        rw [hcc] at hc
        rw [hq] at hcc
        obtain ⟨n2, hn, hseq⟩ := eval_do_err_inv n cur env body pp s s' ev epos hsem
        have S := do_shapeT G fuel (tf_shapeT_at G fuel) b body hTb opts ht hh { c with cur := posOf cur pp } cq slot0 sc rs pool ps hs hp hm hE.lkl hcc
        obtain ⟨c0, hc0⟩ : ∃ c0 : CState, c0 = { c with cur := posOf cur pp } := ⟨_, rfl⟩
        rw [← hc0] at hcc
        have hs0 : c0.scopes = sc :: rs := by rw [hc0]; exact hs
        have hp0 : c0.pools = pool :: ps := by rw [hc0]; exact hp
        have hl0 : c0.lim ≤ 240 := by rw [hc0]; exact hl
        have hm0 : c0.map.length = c0.buf.length := by rw [hc0]; exact hm
        have hcur0 : c0.cur = posOf cur pp := by rw [hc0]
        have hE0 : EnvS G c0.scopes env s.boxes.size sc.ra := by rw [hc0]; exact hE
        have key : ErrOK p f0 rest V P c0 cq rs ps env s s' ev epos := by
          simp only [cDo, Option.bind_eq_bind, Option.bind_eq_some_iff, Prod.exists, Option.pure_def, Option.some.injEq, Prod.mk.injEq] at hcc
          obtain ⟨r, c2, hbody, c3, hpop, _, hc3⟩ := hcc
          rw [← hc3]
          rw [pushScope_blk c0 sc rs false hs0] at hbody
          have hlk1 : ∀ y, lk (blk c0 sc false :: sc :: rs) y = lk c0.scopes y := by
            intro y; rw [hs0]; exact lk_push _ _ rfl rfl rfl y
          have hE1 : EnvS G (blk c0 sc false :: sc :: rs) env s.boxes.size (blk c0 sc false).ra :=
            hE0.of_lk hlk1 (Nat.le_refl _) (fun _ _ _ _ _ _ _ h => h)
          have E1 := doBody_errT p f0 rest V P G b w fuel (CN fuel) (EN fuel) ih body hTb opts
            { c0 with scopes := blk c0 sc false :: sc :: rs } c2 r
            (blk c0 sc false) (sc :: rs) pool ps n2 (posOf cur pp) env s s' ev epos ht hh rfl hp0 hl0 rfl hm0 hcur0 hbody hseq hE1
          have S1 := doBody_shapeT G fuel (tf_shapeT_at G fuel) b body hTb opts
            { c0 with scopes := blk c0 sc false :: sc :: rs } c2 r
            (blk c0 sc false) (sc :: rs) pool ps ht hh rfl hp0 rfl hm0 hE1.lkl hbody
          obtain ⟨ra2, ns2, more2, seg2, segm2, hc2, _⟩ := S1
          have hs2 : c2.scopes = { blk c0 sc false with ra := ra2, syms := (blk c0 sc false).syms ++ ns2 } :: sc :: rs := by rw [hc2]
          obtain ⟨raX, hc3', hmaxX, _, _⟩ := popScopeKeep_block c2 c3 r _ sc rs hs2 rfl rfl rfl hpop
          have hmaxX' : raX.max = (if sc.ra.max < ra2.max then ra2.max else sc.ra.max) := hmaxX
          refine ErrOK.block hs0 hs2 E1 ?_ (by rw [hc3']) (by rw [hc3']) (by rw [hc3']) (by rw [hc3'])
          intro sc3 h3
          rw [hc3'] at h3
          rw [← (List.cons.inj h3).1]
          show ra2.max ≤ raX.max
          rw [hmaxX']; split <;> omega
        rw [hc0] at key
        exact finT_err p f0 rest V P G (posOf cur pp) _ slot c cq c' sc rs pool ps env s s' ev epos key S hc
    | ups body pp hTb =>
      rw [cValue_upscope_t fuel opts ht hh body pp c] at hc
      have hq := posOf_curAt c cur pp hcur
      cases hcc : doBody (cValue fuel) opts body (curAt c pp) with
      | none => rw [hcc] at hc; simp [finT] at hc
      | some res =>
        obtain ⟨slot0, cq⟩ := res
        rw [hcc] at hc
        rw [hq] at hcc
        cases n with
        | zero => simp [eval] at hsem
        | succ n2 =>
          rw [eval_upscope] at hsem
          have E := doBody_errT p f0 rest V P G b w fuel (CN fuel) (EN fuel) ih body hTb opts { c with cur := posOf cur pp } cq slot0
            sc rs pool ps n2 (posOf cur pp) env s s' ev epos ht hh hs hp hl htop hm rfl hcc hsem hE
          have S := doBody_shapeT G fuel (tf_shapeT_at G fuel) b body hTb opts { c with cur := posOf cur pp } cq slot0 sc rs pool ps
            ht hh hs hp htop hm hE.lkl hcc
          exact finT_err p f0 rest V P G (posOf cur pp) _ slot c cq c' sc rs pool ps env s s' ev epos E S hc
    | deff x ve pp hGx hTv =>
      rw [cValue_def_t fuel opts ht hh x ve pp c] at hc
      have hq := posOf_curAt c cur pp hcur
      cases hcc : cDef (cValue fuel) x ve (curAt c pp) with
      | none => rw [hcc] at hc; simp [finT] at hc
      | some res =>
        obtain ⟨slot0, cq⟩ := res
        rw [hcc] at hc
        rw [hq] at hcc
        obtain ⟨n2, hn, hev⟩ := eval_def_err_inv n cur env x ve pp s s' ev epos hsem
        have S := def_shapeT G fuel b x ve hGx hTv { c with cur := posOf cur pp } cq slot0 sc rs pool ps hs hp htop hm hE.lkl hcc
        obtain ⟨c0, hc0⟩ : ∃ c0 : CState, c0 = { c with cur := posOf cur pp } := ⟨_, rfl⟩
        rw [← hc0] at hcc
        have hs0 : c0.scopes = sc :: rs := by rw [hc0]; exact hs
        have hp0 : c0.pools = pool :: ps := by rw [hc0]; exact hp
        have hl0 : c0.lim ≤ 240 := by rw [hc0]; exact hl
        have hm0 : c0.map.length = c0.buf.length := by rw [hc0]; exact hm
        have hcur0 : c0.cur = posOf cur pp := by rw [hc0]
        have hE0 : EnvS G c0.scopes env s.boxes.size sc.ra := by rw [hc0]; exact hE
        have key : ErrOK p f0 rest V P c0 cq rs ps env s s' ev epos := by
          have hct : curTop c0 = false := by simp [curTop, hs0, htop]
          simp only [cDef, hct, Bool.false_eq_true, if_false, Option.bind_eq_bind, Option.bind_eq_some_iff, Prod.exists, Option.pure_def,
            Option.some.injEq, Prod.mk.injEq] at hcc
          obtain ⟨r, c1, hv, c2, hnl, _, hc2⟩ := hcc
          rw [← hc2]
          have E1 := EN fuel ve {} c0 c1 r sc rs pool ps n2 (posOf cur pp) env s s' ev epos rfl rfl hs0 hp0 hl0 htop hm0 hcur0 hTv hv hev hE0
          obtain ⟨S1, hsl⟩ := tf_shapeM_at G fuel b ve {} c0 c1 r sc rs pool ps rfl rfl hs0 hp0 htop hm0 hTv hE0.lkl hv
          obtain ⟨sc1, pool1, hs1, hp1, _, hL1, _⟩ := S1.out
          have S2 := namelocal_shape G c1 c2 x r sc1 rs pool1 ps hs1 hp1 hL1 hGx hsl hnl
          have M2 := namelocal_maxR c1 c2 x r sc1 rs pool1 ps hs1 hp1 hsl hnl
          obtain ⟨ra', ns, more, seg, segm, hc1, _⟩ := S1
          exact E1.extend seg segm (by rw [hc1]) (by rw [hc1]) (S2.app hs1 hp1 M2)
        rw [hc0] at key
        exact finT_err p f0 rest V P G (posOf cur pp) _ slot c cq c' sc rs pool ps env s s' ev epos key S hc
    | iff cnd tb els pp hb hok hlen hTc hTt hTe =>
      exact IFT hb fuel ih cnd tb els pp hok hlen hTc hTt hTe opts c c' slot sc rs pool ps n cur env s s' ev epos ht hh hs hp hl htop hm hcur hc hsem hE

/-- a function body that ends by raising: every form but the last dropped (not freed), the last in tail position -/
theorem fnBody_app (G : String → Prop) (b : Bool) (fuel : Nat) : ∀ (body : List Expr), (∀ e, e ∈ body → TF G b e) →
    ∀ (c c' : CState) (sc : Scope) (rs : List Scope) (pool : List KConst) (ps : List (List KConst)),
      c.scopes = sc :: rs → c.pools = pool :: ps → sc.top = false → c.map.length = c.buf.length → LkL G c.scopes →
      fnBody (cValue fuel) body c = some c' → App c c' rs ps := by
  intro body
  induction body with
  | nil =>
    intro _ c c' sc rs pool ps hs hp _ _ _ h
    simp only [fnBody, Option.some.injEq] at h
    rw [← h]; exact App.refl c sc rs pool ps hs hp
  | cons x t ih =>
    intro hT c c' sc rs pool ps hs hp htop hm hL h
    cases t with
    | nil =>
      simp only [fnBody, Option.bind_eq_bind, Option.bind_eq_some_iff, Prod.exists, Option.pure_def, Option.some.injEq] at h
      obtain ⟨slot, c1, hx, hc1⟩ := h
      rw [← hc1]
      exact tf_appT G b fuel x { tail := true } c c1 slot sc rs pool ps rfl rfl hs hp htop hm (hT x (by simp)) hL hx
    | cons y r =>
      simp only [fnBody, Option.bind_eq_bind, Option.bind_eq_some_iff, Prod.exists] at h
      obtain ⟨sl1, c1, hx, hrest⟩ := h
      obtain ⟨S1, _⟩ := tf_shapeM_at G fuel b x { drop := true } c c1 sl1 sc rs pool ps rfl rfl hs hp htop hm (hT x (by simp)) hL hx
      obtain ⟨sc1, pool1, hs1, hp1, ht1, hL1, _⟩ := S1.out
      have A1 := (tf_app G b fuel x { drop := true } c c1 sl1 sc rs pool ps rfl rfl hs hp htop hm (hT x (by simp)) hL hx).1
      exact A1.trans (ih (fun e he => hT e (by simp [he])) c1 c' sc1 rs pool1 ps hs1 hp1 (by rw [ht1]; exact htop) (S1.mapLen hm) hL1 hrest)

theorem fnBody_err (G : String → Prop) (b w : Bool) (fuel : Nat) (CN : CorrectAt p f0 rest V P G (TF G b) w fuel)
    (EN : ErrAt p f0 rest V P G b fuel) (ET : ErrAtT p f0 rest V P G b fuel) : ∀ (body : List Expr), (∀ e, e ∈ body → TF G b e) →
    ∀ (c c' : CState) (sc : Scope) (rs : List Scope) (pool : List KConst) (ps : List (List KConst))
      (n : Nat) (cur : Pos) (env : Env) (s s' : SS) (ev : Value) (epos : Pos),
      c.scopes = sc :: rs → c.pools = pool :: ps → c.lim ≤ 240 → sc.top = false → c.map.length = c.buf.length → c.cur = cur →
      fnBody (cValue fuel) body c = some c' → evalSeq n cur env body s = .err ev epos s' →
      EnvS G c.scopes env s.boxes.size sc.ra → ErrOK p f0 rest V P c c' rs ps env s s' ev epos := by
  intro body
  induction body with
  | nil =>
    intro _ c c' sc rs pool ps n cur env s s' ev epos _ _ _ _ _ _ _ hsem
    exact absurd hsem (evalSeq_nil_err n cur env s s' ev epos)
  | cons x t ih =>
    intro hT c c' sc rs pool ps n cur env s s' ev epos hs hp hl htop hm hcur hc hsem hE
    have hTx := hT x (by simp)
    cases t with
    | nil =>
      simp only [fnBody, Option.bind_eq_bind, Option.bind_eq_some_iff, Prod.exists, Option.pure_def, Option.some.injEq] at hc
      obtain ⟨slot, c1, hx, hc1⟩ := hc
      rw [← hc1]
      obtain ⟨n2, hn, he⟩ := evalSeq_one_err_inv n cur env x s s' ev epos hsem
      exact ET x { tail := true } c c1 slot sc rs pool ps n2 cur env s s' ev epos rfl rfl hs hp hl htop hm hcur hTx hx he hE
    | cons y r =>
      simp only [fnBody, Option.bind_eq_bind, Option.bind_eq_some_iff, Prod.exists] at hc
      obtain ⟨sl1, c1, hx, hrest⟩ := hc
      obtain ⟨S1, _⟩ := tf_shapeM_at G fuel b x { drop := true } c c1 sl1 sc rs pool ps rfl rfl hs hp htop hm hTx hE.lkl hx
      obtain ⟨sc1, pool1, hs1, hp1, ht1, hL1, _⟩ := S1.out
      have hm1 := S1.mapLen hm
      have htop1 : sc1.top = false := by rw [ht1]; exact htop
      have hTr : ∀ e, e ∈ y :: r → TF G b e := fun e he => hT e (by simp [he])
      have AR : App c1 c' rs ps := fnBody_app G b fuel (y :: r) hTr c1 c' sc1 rs pool1 ps hs1 hp1 htop1 hm1 hL1 hrest
      obtain ⟨n2, hn, hcase⟩ := evalSeq_cons_err_inv n cur env x y r s s' ev epos hsem
      rcases hcase with he | ⟨v1, env1, s1, he1, he2⟩
      · have E1 := EN x { drop := true } c c1 sl1 sc rs pool ps n2 cur env s s' ev epos rfl rfl hs hp hl htop hm hcur hTx hx he hE
        obtain ⟨ra', ns, more, seg, segm, hc1, _⟩ := S1
        exact E1.extend seg segm (by rw [hc1]) (by rw [hc1]) AR
      · have H := CN x { drop := true } c c1 sl1 sc rs pool ps n2 cur env env1 s s1 v1 rfl rfl hs hp hl htop (fun _ => hm) hTx hx he1 hE
        have H2 := H
        obtain ⟨ra1, ns1, more1, seg1, segm1, hc1, pv1, mono1, max1, sok1, bx1, es1, nf1, vm1⟩ := H2
        have hs1' : c1.scopes = { sc with ra := ra1, syms := sc.syms ++ ns1 } :: rs := by rw [hc1]
        have hp1' : c1.pools = (pool ++ more1) :: ps := by rw [hc1]
        have E2 := ih hTr c1 c' _ rs _ ps n2 cur env1 s1 s' ev epos hs1' hp1' (by rw [hc1]; exact hl) htop hm1 (by rw [hc1]; exact hcur) hrest he2 es1
        exact ErrOK.after H hm hm1 rfl rfl rfl rfl (fun _ => rfl) (MaxR.refl c1 rs) AR E2

end

end JanetModel.Compile
