/- C02: compiles with a HINT slot (`opts.hint = some h`, not tail): `janetc_value` ends with `janetc_copy(hint, slot)` and hands back
   the hint.  Unfoldings `cValue_*_h` (`finH`), the copy into the hint register (`copyHint`: constant source `LDK`, other local
   `MOVN`, the hint itself: nothing), and `HintOK.of_copy`: a form that is correct in the un-hinted sense followed by that copy. -/
import JanetModel.Compile.SeqHintDef
import JanetModel.Compile.SeqShapeMaxR
namespace JanetModel.Compile
open JanetModel.Emit JanetModel.Lang JanetModel.Bytecode.Exec JanetModel.Gen.Bytecode

/-- the end of `janetc_value` with a hint (not tail): copy into the hint, mapping cursor restored -/
def finH (last : Pos) (h : JSlot) : Option (JSlot × CState) → Option (JSlot × CState)
  | none => none
  | some (ret, c1) => (copySlot c1 h ret).bind (fun c' => some (h, { c' with cur := last }))

theorem cValue_lit_h (fuel : Nat) (opts : Fopts) (ht : opts.tail = false) (h : JSlot) (hh : opts.hint = some h) (v : Value) (hv : SimpleLit v) (c : CState) :
    cValue (fuel + 1) opts (.lit v) c = finH c.cur h (some (constSlot c v)) := by
  cases v <;> first
    | (simp only [cValue, ht, hh]
       generalize constSlot c _ = a
       obtain ⟨ret, c1⟩ := a
       simp only [finH, Bool.false_eq_true, if_false, Option.pure_def, Option.bind_eq_bind, Option.bind_some]
       done)
    | (simp [SimpleLit] at hv)

theorem cValue_sym_h (fuel : Nat) (opts : Fopts) (ht : opts.tail = false) (h : JSlot) (hh : opts.hint = some h) (x : String) (c : CState) :
    cValue (fuel + 1) opts (.sym x) c = finH c.cur h (resolve c x) := by
  simp only [cValue, ht, hh]
  cases resolve c x with
  | none => rfl
  | some a =>
    obtain ⟨ret, c1⟩ := a
    simp only [finH, Bool.false_eq_true, if_false, Option.pure_def, Option.bind_eq_bind, Option.bind_some]

theorem finH_split (last : Pos) (h : JSlot) (X : Option (JSlot × CState)) (Y : Option (JSlot × CState))
    (hXY : (match X with
      | none => none
      | some (ret, c1) => (copySlot c1 h ret).bind (fun c' => some (h, { c' with cur := last }))) = Y) : finH last h X = Y := by
  cases X with
  | none => exact hXY
  | some a => obtain ⟨ret, c1⟩ := a; exact hXY

theorem cValue_def_h (fuel : Nat) (opts : Fopts) (ht : opts.tail = false) (h : JSlot) (hh : opts.hint = some h) (name : String) (v : Expr) (p : Pos) (c : CState) :
    cValue (fuel + 1) opts (.form [.sym "def", .sym name, v] p) c = finH c.cur h (cDef (cValue fuel) name v (curAt c p)) := by
  simp only [cValue, ht, hh]
  split
  · rename_i hx; exact (congrArg (finH c.cur h) hx).symm
  · rename_i r c1 hx
    refine Eq.trans ?_ (congrArg (finH c.cur h) hx).symm
    simp only [finH, Bool.false_eq_true, if_false, Option.pure_def, Option.bind_eq_bind, Option.bind_some]

theorem cValue_do_h (fuel : Nat) (opts : Fopts) (ht : opts.tail = false) (h : JSlot) (hh : opts.hint = some h) (body : List Expr) (p : Pos) (c : CState) :
    cValue (fuel + 1) opts (.form (.sym "do" :: body) p) c = finH c.cur h (cDo (cValue fuel) opts body (curAt c p)) := by
  simp only [cValue, ht, hh]
  split
  · rename_i hx; exact (congrArg (finH c.cur h) hx).symm
  · rename_i r c1 hx
    refine Eq.trans ?_ (congrArg (finH c.cur h) hx).symm
    simp only [finH, Bool.false_eq_true, if_false, Option.pure_def, Option.bind_eq_bind, Option.bind_some]

theorem cValue_upscope_h (fuel : Nat) (opts : Fopts) (ht : opts.tail = false) (h : JSlot) (hh : opts.hint = some h) (body : List Expr) (p : Pos) (c : CState) :
    cValue (fuel + 1) opts (.form (.sym "upscope" :: body) p) c = finH c.cur h (doBody (cValue fuel) opts body (curAt c p)) := by
  simp only [cValue, ht, hh]
  split
  · rename_i hx; exact (congrArg (finH c.cur h) hx).symm
  · rename_i r c1 hx
    refine Eq.trans ?_ (congrArg (finH c.cur h) hx).symm
    simp only [finH, Bool.false_eq_true, if_false, Option.pure_def, Option.bind_eq_bind, Option.bind_some]

section
variable (p : Program) (f0 : Frame) (rest : List Frame) (V : Array Value) (P : List KConst)

/-- `janetc_copy` into the hint register: from a constant (LDK), another near local (MOVN), or the hint's own register (nothing) -/
theorem copyHint (hP : P.length < 65536)
    (hK : ∀ i, i < P.length → (p.defs.getD f0.defIdx default).consts.getD i .nil = litOf V (P.getD i .nil))
    (c cb : CState) (h src : JSlot) (rh : Nat) (hk : h.k = .loc rh) (hcf : h.cflag = false) (hr : rh < 240)
    (sc : Scope) (rs : List Scope) (pool : List KConst) (ps : List (List KConst))
    (hs : c.scopes = sc :: rs) (hp : c.pools = pool :: ps) (hsk : SK src) (hcp : copySlot c h src = some cb) :
    ∃ (more : List KConst) (seg : List CI) (segm : List Pos),
      cb = { c with scopes := sc :: rs, pools := (pool ++ more) :: ps, buf := c.buf ++ seg, map := c.map ++ segm } ∧ segm.length = seg.length ∧
      ∀ (k : Cfg), CodeAt (p.defs.getD f0.defIdx default).code k.pc seg → PrefL (pool ++ more) P → rh < k.regs.size →
        ∃ regs', Reach p (inj f0 rest k) (inj f0 rest { regs := regs', pc := k.pc + seg.length, args := k.args, w := k.w }) ∧
          regs'.size = k.regs.size ∧ (∀ r, r ≠ rh → regs'.getD r .nil = k.regs.getD r .nil) ∧ regs'.getD rh .nil = slotVal V k.regs src := by
  by_cases hsame : src.k = .loc rh
  · have hnl : (Slot.loc rh).nearLocal = true := by simp [Slot.nearLocal]; omega
    have hcp' := hcp
    simp only [copySlot, hcf, Bool.false_eq_true, if_false, hk, hnl, Bool.not_true, Bool.and_false] at hcp'
    obtain ⟨_, hcb⟩ := emitW_spec c cb _ sc rs pool ps hs hp hcp'
    have hX : W.copy { ra := sc.ra, buf := [], consts := pool } (.loc rh) src.k = { ra := sc.ra, buf := [], consts := pool } := by
      rw [hsame]; simp [W.copy]
    rw [hX] at hcb
    refine ⟨[], [], [], by rw [hcb]; simp, rfl, ?_⟩
    intro k _ _ _
    exact ⟨k.regs, Reach.refl _ _, rfl, fun _ _ => rfl, by simp [slotVal, hsame]⟩
  · obtain ⟨more, seg, segm, hcb, vm⟩ := copyFresh p f0 rest V P hP hK c cb h src rh hk hcf sc rs pool ps hs hp hr hsk
      (fun r hkr e => hsame (by rw [hkr, e])) hcp
    obtain ⟨ra', more', seg', segm', hcb', hl'⟩ := copySlot_stepR c cb h src sc rs pool ps hs hp hcp
    have e1 : seg = seg' := by
      have a : cb.buf = c.buf ++ seg := by rw [hcb]
      have b : cb.buf = c.buf ++ seg' := by rw [hcb']
      rw [a] at b; exact List.append_cancel_left b
    have e2 : segm = segm' := by
      have a : cb.map = c.map ++ segm := by rw [hcb]
      have b : cb.map = c.map ++ segm' := by rw [hcb']
      rw [a] at b; exact List.append_cancel_left b
    refine ⟨more, seg, segm, hcb, by rw [e1, e2]; exact hl', ?_⟩
    intro k hcode hpre hsz
    refine ⟨k.regs.setIfInBounds rh (slotVal V k.regs src), vm k hcode hpre hsz, by simp, fun r hne => getD_set_ne _ _ _ _ hne, getD_set_eq _ _ _ hsz⟩

variable {p f0 rest V P}

/-- the mapping cursor does not matter -/
theorem HintOK.recur {G : String → Prop} {c c1 : CState} {q : Pos} {rh : Nat} {sc : Scope} {rs : List Scope} {pool : List KConst}
    {ps : List (List KConst)} {env env' : Env} {s s' : SS} {v : Value}
    (h : HintOK p f0 rest V P G { c with cur := q } c1 rh sc rs pool ps env env' s s' v) :
    HintOK p f0 rest V P G c { c1 with cur := c.cur } rh sc rs pool ps env env' s s' v := by
  obtain ⟨ra', nsyms, more, seg, segm, hc, h2⟩ := h
  refine ⟨ra', nsyms, more, seg, segm, ?_, h2⟩
  conv => lhs; rw [hc]

variable (p f0 rest V P)

/-- a form that is correct in the un-hinted sense, followed by the copy of its slot into the hint -/
theorem HintOK.of_copy (hP : P.length < 65536)
    (hK : ∀ i, i < P.length → (p.defs.getD f0.defIdx default).consts.getD i .nil = litOf V (P.getD i .nil))
    (G : String → Prop) (c c1 c2 : CState) (ret h : JSlot) (rh : Nat) (sc : Scope) (rs : List Scope) (pool : List KConst) (ps : List (List KConst))
    (env env' : Env) (s s' : SS) (v : Value)
    (hk : h.k = .loc rh) (hcf : h.cflag = false) (hr : rh < 240) (hal : sc.ra.alloc rh = true)
    (hm : c.map.length = c.buf.length) (hm1 : c1.map.length = c1.buf.length)
    (H : Correct2 p f0 rest V P G false c c1 ret sc rs pool ps env env' s s' v)
    (hcp : copySlot c1 h ret = some c2) (hrm : rh ≤ sc.ra.max) :
    HintOK p f0 rest V P G c c2 rh sc rs pool ps env env' s s' v := by
  obtain ⟨ra1, ns1, more1, seg1, segm1, hc1, pv1, mono1, max1, sok1, bx1, es1, nf1, vm1⟩ := H
  have hs1 : c1.scopes = { sc with ra := ra1, syms := sc.syms ++ ns1 } :: rs := by rw [hc1]
  have hp1 : c1.pools = (pool ++ more1) :: ps := by rw [hc1]
  have hlen1 : segm1.length = seg1.length := by
    have hb : c1.buf = c.buf ++ seg1 := by rw [hc1]
    have hmm : c1.map = c.map ++ segm1 := by rw [hc1]
    rw [hb, hmm] at hm1
    simp only [List.length_append] at hm1
    omega
  obtain ⟨more2, seg2, segm2, hc2, hlen2, vm2⟩ := copyHint p f0 rest V P hP hK c1 c2 h ret rh hk hcf hr _ rs (pool ++ more1) ps hs1 hp1 sok1.sk hcp
  have hsc2 : c2.scopes = c1.scopes := by rw [hc2, hs1]
  have hv2 : c2.vals = c1.vals := by rw [hc2]
  refine ⟨ra1, ns1, more1 ++ more2, seg1 ++ seg2, segm1 ++ segm2, ?_, by rw [hv2]; exact pv1, mono1, max1, bx1, by rw [hsc2]; exact es1,
    by simp [hlen1, hlen2], ?_⟩
  · rw [hc2, hc1]; simp [List.append_assoc]
  · intro k hkw hka hD hcode hpre hV hsz
    rw [hv2] at hV
    obtain ⟨regs1, rch1, sz1, pr1, sv1, ed1⟩ := vm1 k hkw hka hD hcode.left (PrefL.trans ⟨more2, by simp [List.append_assoc]⟩ hpre) hV hsz
    have hrsz : rh < regs1.size := by rw [sz1]; omega
    obtain ⟨regs2, rch2, sz2, pr2, hv2'⟩ := vm2 { regs := regs1, pc := k.pc + seg1.length, args := #[], w := s'.st.world } hcode.right
      (by rw [List.append_assoc]; exact hpre) hrsz
    have sz2' : regs2.size = regs1.size := sz2
    refine ⟨regs2, ?_, by omega, ?_, ?_, ?_⟩
    · have e : k.pc + (seg1 ++ seg2).length = k.pc + seg1.length + seg2.length := by
        simp [List.length_append]; omega
      rw [e]
      exact Reach.trans rch1 rch2
    · intro r hra hne
      rw [pr2 r hne, pr1 r hra]
    · rw [hv2']; exact sv1 rfl
    · intro x slot u l r a hx hkk hne he
      rw [hsc2] at hx
      rw [pr2 r hne]
      exact ed1 x slot u l r a hx hkk he

end

end JanetModel.Compile
