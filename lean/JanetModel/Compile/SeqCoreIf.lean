/- C02: the compile-correctness induction for the core fragment WITH `if` (`TF G true`): `tf_correct` (Compile/SeqCore.lean) with
   its `if` case discharged by `if_coreM` (Compile/SeqIfM.lean: jump path and constant-condition folding). -/
import JanetModel.Compile.SeqCore
import JanetModel.Compile.SeqIfM
namespace JanetModel.Compile
open JanetModel.Emit JanetModel.Lang JanetModel.Bytecode.Exec JanetModel.Gen.Bytecode

section
variable (p : Program) (f0 : Frame) (rest : List Frame) (V : Array Value) (P : List KConst)

theorem tf_correct_if (hP : P.length < 65536)
    (hK : ∀ i, i < P.length → (p.defs.getD f0.defIdx default).consts.getD i .nil = litOf V (P.getD i .nil))
    (FF : FloatFacts) (G : String → Prop) : ∀ fuel, CorrectAt p f0 rest V P G (TF G true) true fuel :=
  tf_correct p f0 rest V P hP hK FF G true true (fun _ => ⟨rfl, fun fuel IH cnd tb els pp hic hlen hTc hTt hTe
      opts c c' slot sc rs pool ps n cur env env' s s' v ht hh hs hp hl htop hm hc hsem hE =>
    if_coreM p f0 rest V P hP hK G true true fuel IH cnd tb els pp hic hlen hTc hTt hTe opts c c' slot sc rs pool ps n cur env env' s s' v
      ht hh hs hp hl htop hm hc hsem hE⟩)

/-- both fragments at once: `TF G b` with the dropped-value switch `w = b` -/
theorem tf_correct_b (hP : P.length < 65536)
    (hK : ∀ i, i < P.length → (p.defs.getD f0.defIdx default).consts.getD i .nil = litOf V (P.getD i .nil))
    (FF : FloatFacts) (G : String → Prop) (b : Bool) : ∀ fuel, CorrectAt p f0 rest V P G (TF G b) b fuel :=
  tf_correct p f0 rest V P hP hK FF G b b (fun hb => ⟨hb, fun fuel IH cnd tb els pp hic hlen hTc hTt hTe
      opts c c' slot sc rs pool ps n cur env env' s s' v ht hh hs hp hl htop hm hc hsem hE =>
    if_coreM p f0 rest V P hP hK G b b fuel IH cnd tb els pp hic hlen hTc hTt hTe opts c c' slot sc rs pool ps n cur env env' s s' v
      ht hh hs hp hl htop hm hc hsem hE⟩)

end

end JanetModel.Compile
