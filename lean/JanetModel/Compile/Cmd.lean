/- C02: line protocol of the compiler model (driver jm_c02):
     glob <hexname> c | f <min> <max> <tag> | m | v | x     -> "ok"      (what the real core environment binds, from compser.c)
     comp <id> <tokens of the expanded form>                 -> "<N|F|-> <canonical funcdef tree>"  or  "OUT"
   N: also compiles with the register limit 0xF0 of the correctness theorem, with the same result; F: only with 0x10000.
   The funcdef text is the one harness/C02/compser.c prints for the real compiler (`ser_def`). -/
import JanetModel.Compile.Model
import JanetModel.Emit.Cmd
namespace JanetModel.Compile
open JanetModel.Emit JanetModel.Lang JanetModel.Bytecode.Exec

def hexS (s : String) : String := String.join (s.toList.map (fun ch => String.ofList [hexd (ch.toNat / 16 % 16), hexd (ch.toNat % 16)]))

def hex16 (n : Nat) : String := String.ofList ((List.range 16).reverse.map (fun i => hexd (n / 16 ^ i % 16)))

partial def serConst : Value → String
  | .nil => " N"
  | .bool true => " T"
  | .bool false => " F"
  | .num x => " n" ++ hex16 x.toBits.toNat
  | .str s => " s" ++ hexS s
  | .sym s => " y" ++ hexS s
  | .kw s => " k" ++ hexS s
  | .tuple xs b => s!" {if b then "b" else "t"}{xs.length}" ++ String.join (xs.map serConst)
  | .cfun s => " c" ++ hexS s
  | _ => " U"

partial def serDef (vals : Array Value) : FDef → String
  | .mk a mn mx sl va sa code smap consts envs bs defs =>
    s!" \{ {a} {mn} {mx} {sl} {if va then 1 else 0} {if sa then 1 else 0} code"
      ++ String.join (code.map (fun i => " " ++ toHex (i.word % 4294967296)))
      ++ " consts" ++ String.join (consts.map (fun k => serConst (litOf vals k)))
      ++ " envs" ++ String.join (envs.map (fun e => s!" {e}"))
      ++ " smap" ++ String.join (smap.map (fun p => s!" {p.line}:{p.col}"))
      ++ " bitset " ++ (match bs with
          | none => "-"
          | some b => if b.isEmpty then "e" else String.ofList (b.map (fun x => if x then '1' else '0')))
      ++ " defs" ++ String.join (defs.map (serDef vals)) ++ " }"

partial def FDef.allNear : FDef → Bool
  | .mk _ _ _ sl _ _ _ _ _ _ _ defs => sl ≤ 240 && defs.all FDef.allNear

def compCmd (globs : String → Option Glob) (x : Expr) : String :=
  match compileTop 100000 65536 globs x with
  | none => "OUT"
  | some (d, vals) =>
    let far := serDef vals d
    if !d.allNear then "F" ++ far else
    match compileTop 100000 240 globs x with
    | some (d', vals') => if serDef vals' d' == far then "N" ++ far else "-" ++ far
    | none => "F" ++ far

end JanetModel.Compile
