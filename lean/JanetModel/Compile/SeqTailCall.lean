/- C02: compile correctness, tail position: the tail call of a global core function in the form the tail induction uses
   (`TailOK`, Compile/SeqTailRet.lean). -/
import JanetModel.Compile.SeqTailRet
namespace JanetModel.Compile
open JanetModel.Emit JanetModel.Lang JanetModel.Bytecode.Exec JanetModel.Gen.Bytecode

section
variable (p : Program) (f0 : Frame) (rest : List Frame) (V : Array Value) (P : List KConst)

/-- a call of a global core function in tail position (`tail_call_core` of Compile/SeqTail.lean with the compile-side shape
    and the allocator facts exported: the statement `TailOK`) -/
theorem tail_call_ok (hP : P.length < 65536)
    (hK : ∀ i, i < P.length → (p.defs.getD f0.defIdx default).consts.getD i .nil = litOf V (P.getD i .nil))
    (FF : FloatFacts) (G : String → Prop) (T : Expr → Prop) (w : Bool) (fuel : Nat) (IH : CorrectAt p f0 rest V P G T w fuel)
    (ML : MLAt G T w fuel) (hns : ∀ a, T a → isSplice a = none)
    (opts : Fopts) (htl : opts.tail = true)
    (f : String) (args : List Expr) (hna : f ≠ "apply") (hG : G f) (hTa : ∀ a, a ∈ args → T a)
    (c cq : CState) (slot0 : JSlot) (sc : Scope) (rs : List Scope) (pool : List KConst) (ps : List (List KConst))
    (n2 : Nat) (pos : Pos) (env env_a : Env) (s s_a s' : SS) (vs : List Value) (v : Value)
    (hs : c.scopes = sc :: rs) (hp : c.pools = pool :: ps) (hl : c.lim ≤ 240) (htop : sc.top = false)
    (hm : w = true → c.map.length = c.buf.length)
    (hcc : cCall (cValue fuel) opts (.sym f) args c = some (slot0, cq))
    (hsa : evalArgs (n2 + 1) pos env args s = .ok (vs, env_a) s_a) (happ : applyFn (n2 + 1) pos (.cfun f) vs s_a = .ok v s')
    (hE : EnvS G c.scopes env s.boxes.size sc.ra) :
    TailOK p f0 rest V P G c cq slot0 sc rs pool ps env s s' v := by
  obtain ⟨head, c1, slots, c2, c3, h1, h2, h3, hrest⟩ := cCallT_inv (cValue fuel) opts htl f args c cq slot0 hcc
  cases fuel with
  | zero => simp [cValue] at h1
  | succ fuel' =>
  have hg0 : lookupSlot c f = none := by rw [lookupSlot_lk]; exact hE.1 f hG
  rw [cValue_sym, resolve_global _ f hg0] at h1
  have hgs : globalSlot c f = some (constSlot c (.cfun f)) := by
    unfold globalSlot at h1 ⊢
    split at h1 <;> simp_all [fin]
  rw [hgs] at h1
  simp only [fin, Option.some.injEq, Prod.mk.injEq] at h1
  obtain ⟨hh, hc1⟩ := h1
  obtain ⟨vals1, kf, k1, k2, k3, k4⟩ := kOf_spec' FF c (.cfun f) trivial
  have cs : constSlot c (.cfun f) = (cslot kf, { c with vals := vals1 }) := by
    unfold constSlot; rw [k1]
  rw [cs] at hh hc1
  have hhead : head = cslot kf := hh.symm
  have hc1eq : c1 = { c with vals := vals1 } := hc1.symm
  subst hhead hc1eq
  have hs1 : ({ c with vals := vals1 } : CState).scopes = sc :: rs := hs
  have hp1 : ({ c with vals := vals1 } : CState).pools = pool :: ps := hp
  obtain ⟨ra2, ns2, more2, seg2, segm2, hc2, pv2, r1a, r3a, sok2, bx2, es2, nf2, vm2⟩ :=
    toSlots_correct p f0 rest V P G T w (fuel' + 1) IH ML hns args hTa _ c2 slots sc rs pool ps (n2 + 1) pos env env_a s s_a vs hs1 hp1 hl htop hm h2 hsa hE
  have hs2 : c2.scopes = { sc with ra := ra2, syms := sc.syms ++ ns2 } :: rs := by rw [hc2]
  have hp2 : c2.pools = (pool ++ more2) :: ps := by rw [hc2]
  have hl2 : c2.lim ≤ 240 := by rw [hc2]; exact hl
  have hsk : ∀ sl, sl ∈ slots → SK sl := fun sl h => (sok2 sl h).sk
  have hal2 : ∀ sl r, sl ∈ slots → sl.k = .loc r → ra2.alloc r = true := by
    intro sl r hsl hk
    rcases sok2 sl hsl with ⟨_, kc, hk', _⟩ | ⟨_, _, r', hk', a4, _⟩ | ⟨_, _, d', hk', _, a5, _, _⟩
    · rw [hk] at hk'; exact absurd hk' (by simp)
    · rw [hk] at hk'; injection hk' with e; subst e; exact a4
    · rw [hk] at hk'; injection hk' with e; subst e; exact a5
  obtain ⟨ra3, more3, seg3, segm3, hc3, e3, m3, vm3⟩ :=
    pushN p f0 rest V P hP hK slots c2 c3 { sc with ra := ra2, syms := sc.syms ++ ns2 } rs (pool ++ more2) ps hs2 hp2 hl2 hsk hal2 h3
  have hs3 : c3.scopes = { sc with ra := ra3, syms := sc.syms ++ ns2 } :: rs := by rw [hc3]
  have hp3 : c3.pools = ((pool ++ more2) ++ more3) :: ps := by rw [hc3]
  have hl3 : c3.lim ≤ 240 := by rw [hc3]; exact hl2
  have hct : curTop c3 = false := by simp [curTop, hs3, htop]
  obtain ⟨c4, c5, hem, hsl, hf1, hf2⟩ := hrest hct
  obtain ⟨t, ra4, a1, a2, a3, a4, a5, a6, hc4⟩ :=
    emitS_const c3 c4 .tailcall (cslot kf) kf rfl { sc with ra := ra3, syms := sc.syms ++ ns2 } rs ((pool ++ more2) ++ more3) ps hs3 hp3 hl3 hem
  obtain ⟨m4, hm4⟩ : PrefL ((pool ++ more2) ++ more3) (if kf.pooled then W.intern ((pool ++ more2) ++ more3) kf else (pool ++ more2) ++ more3) := by
    split
    · exact intern_pref _ kf
    · exact PrefL.refl _
  have hs4 : c4.scopes = { sc with ra := ra4, syms := sc.syms ++ ns2 } :: rs := by rw [hc4]
  -- freeing the operand slots and the head changes only the allocator
  obtain ⟨ra5, hc5, hmax5, hkeep5⟩ := freeslots_keep (fun r => sc.ra.alloc r = true) slots c4 c5 { sc with ra := ra4, syms := sc.syms ++ ns2 } rs hs4
    (by
      intro sl hsl
      rcases sok2 sl hsl with ⟨hcf, _⟩ | ⟨_, hnm, _⟩ | ⟨hcf, hnm, da, hka', hda1, _⟩
      · exact Or.inl hcf
      · exact Or.inr (Or.inl hnm)
      · exact Or.inr (Or.inr ⟨hcf, hnm, da, hka', fun h => by rw [hda1] at h; exact Bool.noConfusion h⟩)) hf1
  rw [freeslot_const c5 (cslot kf) rfl] at hf2
  have hcq : c5 = cq := Option.some.inj hf2
  subst hcq
  have e3' : ∀ j, ra3.alloc j = ra2.alloc j := e3
  have m3' : ra2.max ≤ ra3.max := m3
  have a4' : ra3.max ≤ ra4.max := a4
  have a1' : ra3.alloc t = false := a1
  have a6' : ∀ j, ra4.alloc j = ra3.alloc j := a6
  have hmax5' : ra5.max = ra4.max := hmax5
  have r3a' : sc.ra.max ≤ ra2.max := r3a
  refine ⟨by rw [hsl], ra5, ns2, more2 ++ more3 ++ m4, seg2 ++ seg3 ++
      [CI.mi (MI.ldk t kf (W.poolIdx (if kf.pooled = true then W.intern ((pool ++ more2) ++ more3) kf else (pool ++ more2) ++ more3) kf)),
       CI.mi (MI.pay Op.tailcall.toNat Shape.s false [t] 0)], segm2 ++ segm3 ++ [c3.cur, c3.cur], ?_, ?_, ?_, by omega, ?_⟩
  · rw [hc5, hc4, hm4, hc3, hc2]; simp [List.append_assoc]
  · rw [hc5, hc4, hc3]; exact PrefA.trans k2 pv2
  · intro r hr
    exact hkeep5 r (by show ra4.alloc r = true; rw [a6' r, e3' r]; exact r1a r hr) hr
  · intro k hkw hka hD hcode hpre hV hsz
    have hsz : ra4.max < k.regs.size := by omega
    have hvals : c5.vals = c2.vals := by rw [hc5, hc4, hc3]
    rw [hvals] at hV
    have hcodeA : CodeAt (p.defs.getD f0.defIdx default).code k.pc seg2 := by
      rw [List.append_assoc] at hcode; exact hcode.left
    have hcodeB : CodeAt (p.defs.getD f0.defIdx default).code (k.pc + seg2.length) seg3 := by
      rw [List.append_assoc] at hcode; exact hcode.right.left
    have hcodeC := by
      rw [List.append_assoc] at hcode; exact hcode.right.right
    have hpreC : PrefL (if kf.pooled then W.intern ((pool ++ more2) ++ more3) kf else (pool ++ more2) ++ more3) P := by
      rw [hm4]; refine PrefL.trans ⟨[], ?_⟩ hpre; simp [List.append_assoc]
    have hpreA : PrefL (pool ++ more2) P := PrefL.trans ⟨more3 ++ m4, by simp [List.append_assoc]⟩ hpre
    have hpreB : PrefL (pool ++ more2 ++ more3) P := PrefL.trans ⟨m4, by simp [List.append_assoc]⟩ hpre
    obtain ⟨regs2, rch2, sz2, pr2, sv2, ed2⟩ := vm2 k hkw hka hD hcodeA hpreA hV (by omega)
    obtain ⟨regs3, A, rch3, hA, sz3, pr3⟩ := vm3 { regs := regs2, pc := k.pc + seg2.length, args := #[], w := s_a.st.world } hcodeB hpreB
      (by show ra3.max < regs2.size; omega)
    have sz3' : regs3.size = regs2.size := sz3
    have hlit : litOf V kf = .cfun f := by
      rw [litOf_pref (PrefA.trans pv2 hV) kf k3]; exact k4
    have hargs : A.toList = vs := by
      rw [hA, ← sv2]; simp
    let k3 : Cfg := { regs := regs3, pc := k.pc + seg2.length + seg3.length, args := A, w := s_a.st.world }
    have hidx : W.poolIdx (if kf.pooled then W.intern ((pool ++ more2) ++ more3) kf else (pool ++ more2) ++ more3) kf < 65536 := by
      have := poolIdx_le (if kf.pooled then W.intern ((pool ++ more2) ++ more3) kf else (pool ++ more2) ++ more3) kf
      have := hpreC.length
      omega
    have hconst : kf.pooled = true → (p.defs.getD f0.defIdx default).consts.getD
        (W.poolIdx (if kf.pooled then W.intern ((pool ++ more2) ++ more3) kf else (pool ++ more2) ++ more3) kf) .nil = litOf V kf := by
      intro hpl
      obtain ⟨h1, h2⟩ := pooled_const_at P ((pool ++ more2) ++ more3) kf hpreC hpl
      rw [hK _ h1, h2]
    have s1 := run_ldk p f0 rest k3 t kf _ V (by omega) hidx hcodeC.head hconst
    let k4 : Cfg := { k3 with regs := k3.regs.setIfInBounds t (litOf V kf), pc := k3.pc + 1 }
    have hcode2 : (p.defs.getD f0.defIdx default).code[k4.pc]? = some (CI.tailcall t).word := by
      rw [← tailcall_word]; exact hcodeC.tail.head
    have hreg : (inj f0 rest k4).getReg t = .cfun f := by
      rw [inj_getReg]
      show (regs3.setIfInBounds t (litOf V kf)).getD t .nil = .cfun f
      rw [getD_set_eq _ _ _ (by omega), hlit]
    have s2 := step_tailcall p (inj f0 rest k4) t (by omega) (by rw [inj_curDef, inj_pc]; exact hcode2)
    rw [hreg, doTailcall_cfun] at s2
    have hw1 : (inj f0 rest k4).world = s_a.st.world := rfl
    have ha1 : (inj f0 rest k4).args = A := rfl
    rw [hw1, ha1, hargs] at s2
    rw [applyFn_cfun n2 pos f hna vs s_a] at happ
    cases hcp : callPrimW f vs s_a.st.world with
    | rt => rw [hcp] at happ; exact absurd happ (by simp)
    | user e => rw [hcp] at happ; exact absurd happ (by simp)
    | unsup why => rw [hcp] at happ; exact absurd happ (by simp)
    | ok a =>
      obtain ⟨v', w'⟩ := a
      rw [hcp] at happ s2
      simp only [R.ok.injEq] at happ
      obtain ⟨hv, hs'⟩ := happ
      subst hv
      have hw' : s'.st.world = w' := by rw [← hs']; rfl
      refine ⟨regs3.setIfInBounds t (litOf V kf), A, k.pc + seg2.length + seg3.length + 1, s_a.st.world, ?_, by simp; omega, ?_⟩
      · exact Reach.trans rch2 (Reach.trans rch3 (Reach.head s1 (Reach.refl _ _)))
      · rw [hw']; exact s2

end

end JanetModel.Compile
