/- C02: compile correctness, statement fragment: sequencing of statements (dropped value freed), `janetc_do` body,
   block scope push / pop (`janetc_scope`, `janetc_popscope_keepslot`). -/
import JanetModel.Compile.SeqCall
namespace JanetModel.Compile
open JanetModel.Emit JanetModel.Lang JanetModel.Bytecode.Exec JanetModel.Gen.Bytecode

theorem cstate_scopes_eta (c : CState) (sc : Scope) (rs : List Scope) (hs : c.scopes = sc :: rs) :
    c = { c with scopes := { sc with ra := sc.ra } :: rs } := by
  cases c; simp_all

/-- `janetc_freeslot` on the slot of a compiled form: only an unnamed temporary is released; registers allocated before the
    form and registers of names stay allocated -/
theorem freeslot_ok (c cf : CState) (sl : JSlot) (sc0 sc1 : Scope) (rs : List Scope) (hs : c.scopes = sc1 :: rs)
    (hok : SlotOK2 sc0 sc1.ra c.scopes c.vals sl) (hf : freeslot c sl = some cf) :
    ∃ raf, cf = { c with scopes := { sc1 with ra := raf } :: rs } ∧ raf.max = sc1.ra.max ∧
      (∀ r, sc1.ra.alloc r = true →
        (sc0.ra.alloc r = true ∨ ∃ x slot u l, lk c.scopes x = some (slot, u, l) ∧ slot.k = .loc r) → raf.alloc r = true) := by
  rcases hok with ⟨hcf, _⟩ | ⟨_, hnm, _⟩ | ⟨hcf, hnm, da, hka, hda1, hda2, _, hnn⟩
  · rw [freeslot_const c sl hcf] at hf
    exact ⟨sc1.ra, by rw [← Option.some.inj hf]; exact cstate_scopes_eta c sc1 rs hs, rfl, fun r h _ => h⟩
  · rw [freeslot_named c sl hnm] at hf
    exact ⟨sc1.ra, by rw [← Option.some.inj hf]; exact cstate_scopes_eta c sc1 rs hs, rfl, fun r h _ => h⟩
  · rw [freeslot_loc c sl da sc1 rs hs hcf hnm hka] at hf
    refine ⟨sc1.ra.unmark da, by rw [← Option.some.inj hf], rfl, ?_⟩
    intro r hr why
    have hne : r ≠ da := by
      rcases why with h | ⟨x, slot, u, l, hx, hk⟩
      · intro e; rw [e] at h; rw [h] at hda1; exact Bool.noConfusion hda1
      · intro e; rw [e] at hk; exact hnn x slot u l hx hk
    simp only [RA.unmark, hne, if_false]; exact hr

section
variable (p : Program) (f0 : Frame) (rest : List Frame) (V : Array Value) (P : List KConst)

/-- two statements in sequence: the first one's slot is freed, the second starts from the state the first left -/
theorem Correct2_seq (G : String → Prop) (dr1 dr : Bool) (c c1 c1f c' : CState) (sl1 slot : JSlot) (sc : Scope) (rs : List Scope) (pool : List KConst)
    (ps : List (List KConst)) (env env1 env' : Env) (s s1 s' : SS) (v1 v : Value)
    (h1 : Correct2 p f0 rest V P G dr1 c c1 sl1 sc rs pool ps env env1 s s1 v1)
    (hf : freeslot c1 sl1 = some c1f)
    (h2 : ∀ sc1 pool1, c1f.scopes = sc1 :: rs → c1f.pools = pool1 :: ps → sc1.top = sc.top → c1f.lim = c.lim →
          EnvS G c1f.scopes env1 s1.boxes.size sc1.ra → Correct2 p f0 rest V P G dr c1f c' slot sc1 rs pool1 ps env1 env' s1 s' v) :
    Correct2 p f0 rest V P G dr c c' slot sc rs pool ps env env' s s' v := by
  obtain ⟨ra1, ns1, more1, seg1, segm1, hc1, pv1, mono1, max1, sok1, bx1, es1, nf1, vm1⟩ := h1
  have hs1 : c1.scopes = { sc with ra := ra1, syms := sc.syms ++ ns1 } :: rs := by rw [hc1]
  obtain ⟨raf, hcf, hmaxf, hkeep⟩ := freeslot_ok c1 c1f sl1 sc { sc with ra := ra1, syms := sc.syms ++ ns1 } rs hs1 sok1 hf
  have hsf : c1f.scopes = { sc with ra := raf, syms := sc.syms ++ ns1 } :: rs := by rw [hcf]
  have hpf : c1f.pools = (pool ++ more1) :: ps := by rw [hcf, hc1]
  have hlkf : ∀ x, lk c1f.scopes x = lk c1.scopes x := by intro x; rw [hsf, hs1]; rfl
  have esf : EnvS G c1f.scopes env1 s1.boxes.size raf :=
    es1.of_lk hlkf (Nat.le_refl _) (fun x slot u l r hx hk hr => hkeep r hr (Or.inr ⟨x, slot, u, l, hx, hk⟩))
  obtain ⟨ra', ns2, more2, seg2, segm2, hc', pv2, mono2, max2, sok2, bx2, es2, nf2, vm2⟩ := h2 _ _ hsf hpf rfl (by rw [hcf, hc1]) esf
  have hvf : c1f.vals = c1.vals := by rw [hcf]
  have hmaxf' : raf.max = ra1.max := hmaxf
  have max2' : raf.max ≤ ra'.max := max2
  have mono2' : ∀ r, raf.alloc r = true → ra'.alloc r = true := mono2
  have keep0 : ∀ r, sc.ra.alloc r = true → raf.alloc r = true := fun r hr => hkeep r (mono1 r hr) (Or.inl hr)
  have nfA : ∀ d, sc.ra.alloc d = true → NoName c.scopes d → NoName c'.scopes d := fun d hd hno =>
    nf2.1 d (keep0 d hd) ((nf1.1 d hd hno).of_lk hlkf)
  refine ⟨ra', ns1 ++ ns2, more1 ++ more2, seg1 ++ seg2, segm1 ++ segm2, ?_, ?_, ?_, ?_, ?_, PrefA.trans bx1 bx2, es2,
    ⟨nfA, fun r hnm hk hr hno => nf2.2 r hnm hk (keep0 r hr) ((nf1.1 r hr hno).of_lk hlkf)⟩, ?_⟩
  · rw [hc', hcf, hc1]
    simp [List.append_assoc]
  · rw [hvf] at pv2; exact PrefA.trans pv1 pv2
  · intro r hr; exact mono2' r (keep0 r hr)
  · omega
  · rcases sok2 with h | h | ⟨a1, a2, d, a3, a4, a5, a6, a7⟩
    · exact Or.inl h
    · exact Or.inr (Or.inl h)
    · refine Or.inr (Or.inr ⟨a1, a2, d, a3, ?_, a5, a6, a7⟩)
      cases hh : sc.ra.alloc d with
      | false => rfl
      | true =>
        have := keep0 d hh
        have a4' : raf.alloc d = false := a4
        rw [a4'] at this
        exact Bool.noConfusion this
  · intro k hkw hka hD hcode hpre hV hsz
    have hV1 : PrefA c1.vals V := by rw [← hvf]; exact PrefA.trans pv2 hV
    obtain ⟨regs1, rch1, sz1, pr1, sv1, ed1⟩ :=
      vm1 k hkw hka hD hcode.left (PrefL.trans ⟨more2, by simp [List.append_assoc]⟩ hpre) hV1 (by omega)
    obtain ⟨regs2, rch2, sz2, pr2, sv2, ed2⟩ :=
      vm2 { regs := regs1, pc := k.pc + seg1.length, args := #[], w := s1.st.world } rfl rfl (ed1.of_lk hlkf) hcode.right
        (by rw [List.append_assoc]; exact hpre) hV (by show ra'.max < regs1.size; omega)
    have sz2' : regs2.size = regs1.size := sz2
    refine ⟨regs2, ?_, by omega, ?_, sv2, ed2⟩
    · have e : k.pc + (seg1 ++ seg2).length = k.pc + seg1.length + seg2.length := by
        simp [List.length_append]; omega
      rw [e]
      exact Reach.trans rch1 rch2
    · intro r hr
      rw [pr2 r (keep0 r hr), pr1 r hr]

/-- the empty body: constant nil -/
theorem atom_nil2 (G : String → Prop) (c : CState) (sc : Scope) (rs : List Scope)
    (pool : List KConst) (ps : List (List KConst)) (hs : c.scopes = sc :: rs) (hp : c.pools = pool :: ps) (env : Env) (s : SS)
    (hE : EnvS G c.scopes env s.boxes.size sc.ra) :
    Correct2 p f0 rest V P G false c c (cslot .nil) sc rs pool ps env env s s .nil := by
  refine ⟨sc.ra, [], [], [], [], ?_, PrefA.refl _, fun _ h => h, Nat.le_refl _, Or.inl ⟨rfl, .nil, rfl, trivial⟩, PrefA.refl _, hE,
    NameFrame.of_lk (fun _ => rfl) rfl, ?_⟩
  · simp [hs, hp]
    cases c; simp_all
  · intro k hkw hka hD _ _ _ _
    refine ⟨k.regs, ?_, rfl, fun _ _ => rfl, fun _ => rfl, hD⟩
    rw [cfg_eta k _ hkw hka]; exact Reach.refl _ _

/-- `janetc_do` body: all statements but the last dropped and freed -/
theorem doBody_correct (G : String → Prop) (T : Expr → Prop) (w : Bool) (fuel : Nat) (IH : CorrectAt p f0 rest V P G T w fuel)
    (ML : MLAt G T w fuel) :
    ∀ (b : List Expr), (∀ e, e ∈ b → T e) →
    ∀ (opts : Fopts) (c c' : CState) (slot : JSlot) (sc : Scope) (rs : List Scope) (pool : List KConst) (ps : List (List KConst))
      (n : Nat) (cur : Pos) (env env' : Env) (s s' : SS) (v : Value),
      opts.tail = false → opts.hint = none → c.scopes = sc :: rs → c.pools = pool :: ps → c.lim ≤ 240 → sc.top = false →
      (w = true → c.map.length = c.buf.length) →
      doBody (cValue fuel) opts b c = some (slot, c') → evalSeq n cur env b s = .ok (v, env') s' → EnvS G c.scopes env s.boxes.size sc.ra →
      Correct2 p f0 rest V P G (opts.drop && w) c c' slot sc rs pool ps env env' s s' v := by
  intro b
  induction b with
  | nil =>
    intro _ opts c c' slot sc rs pool ps n cur env env' s s' v _ _ hs hp _ _ _ hc hsem hE
    simp only [doBody, Option.some.injEq, Prod.mk.injEq] at hc
    obtain ⟨h1, h2⟩ := hc
    obtain ⟨e1, e2, e3⟩ := evalSeq_nil_inv n cur env env' s s' v hsem
    subst h1 h2 e1 e2 e3
    exact Correct2.weaken p f0 rest V P _ (atom_nil2 p f0 rest V P G _ sc rs pool ps hs hp _ _ hE)
  | cons x t ih =>
    intro hT opts c c' slot sc rs pool ps n cur env env' s s' v ht hh hs hp hl htop hm hc hsem hE
    cases t with
    | nil =>
      simp only [doBody] at hc
      obtain ⟨n2, hn, he⟩ := evalSeq_one_inv n cur env env' x s s' v hsem
      exact IH x opts c c' slot sc rs pool ps n2 cur env env' s s' v ht hh hs hp hl htop hm (hT x (by simp)) hc he hE
    | cons y r =>
      simp only [doBody, Option.bind_eq_bind, Option.bind_eq_some_iff, Prod.exists] at hc
      obtain ⟨sl1, c1, hx, c1f, hf, hrest⟩ := hc
      obtain ⟨n2, v1, env1, s1, hn, he1, he2⟩ := evalSeq_cons_inv n cur env env' x y r s s' v hsem
      have h1 := IH x { drop := true } c c1 sl1 sc rs pool ps n2 cur env env1 s s1 v1 rfl rfl hs hp hl htop hm (hT x (by simp)) hx he1 hE
      have hm1 : w = true → c1f.map.length = c1f.buf.length := by
        intro hw
        obtain ⟨e1, e2⟩ := freeslot_bufmap c1 c1f sl1 hf
        rw [e1, e2]
        exact ML hw x { drop := true } c c1 sl1 sc rs pool ps env s.boxes.size rfl rfl hs hp htop (hT x (by simp)) hE hx (hm hw)
      refine Correct2_seq p f0 rest V P G (true && w) (opts.drop && w) c c1 c1f c' sl1 slot sc rs pool ps env env1 env' s s1 s' v1 v h1 hf ?_
      intro sc1 pool1 hs1 hp1 htop1 hl1 hE1
      exact ih (fun e he => hT e (by simp [he])) opts c1f c' slot sc1 rs pool1 ps n2 cur env1 env' s1 s' v ht hh hs1 hp1
        (by rw [hl1]; exact hl) (by rw [htop1]; exact htop) hm1 hrest he2 hE1

/-! ### block scopes -/

theorem foldl_keep_mono (F : RA → SymPair → RA)
    (hF : ∀ ra q, (F ra q).max = ra.max ∧ ∀ j, ra.alloc j = true → (F ra q).alloc j = true) :
    ∀ (kept : List SymPair) (ra : RA), (kept.foldl F ra).max = ra.max ∧ ∀ j, ra.alloc j = true → (kept.foldl F ra).alloc j = true
  | [], ra => ⟨rfl, fun _ h => h⟩
  | q :: ks, ra => by
    obtain ⟨a1, a2⟩ := foldl_keep_mono F hF ks (F ra q)
    obtain ⟨b1, b2⟩ := hF ra q
    exact ⟨by rw [List.foldl_cons, a1, b1], fun j hj => a2 j (b2 j hj)⟩

/-- `janetc_popscope` of a block scope without closures -/
theorem popScope_block (c2 : CState) (old sc : Scope) (rs : List Scope) (hs : c2.scopes = old :: sc :: rs)
    (hfn : old.fn = false) (hun : old.unused = false) (hcl : old.closure = false) :
    ∃ raX, popScope c2 = some { c2 with scopes := { sc with ra := raX, syms := sc.syms ++ old.syms.map (fun q => { q with visible := false }) } :: rs } ∧
      raX.max = (if sc.ra.max < old.ra.max then old.ra.max else sc.ra.max) ∧ (∀ j, sc.ra.alloc j = true → raX.alloc j = true) := by
  unfold popScope
  rw [hs]
  simp only [hfn, hun, hcl, Bool.or_false, Bool.false_eq_true, if_false]
  refine ⟨_, rfl, ?_, ?_⟩
  · refine (foldl_keep_mono _ ?_ _ _).1
    intro ra q
    split
    · split
      · exact ⟨rfl, fun j hj => by simp [RA.mark, hj]⟩
      · exact ⟨rfl, fun _ h => h⟩
    · exact ⟨rfl, fun _ h => h⟩
  · intro j hj
    refine (foldl_keep_mono _ ?_ _ _).2 j hj
    intro ra q
    split
    · split
      · exact ⟨rfl, fun j hj => by simp [RA.mark, hj]⟩
      · exact ⟨rfl, fun _ h => h⟩
    · exact ⟨rfl, fun _ h => h⟩

/-- `janetc_popscope_keepslot` -/
theorem popScopeKeep_block (c2 c3 : CState) (r : JSlot) (old sc : Scope) (rs : List Scope) (hs : c2.scopes = old :: sc :: rs)
    (hfn : old.fn = false) (hun : old.unused = false) (hcl : old.closure = false) (h : popScopeKeep c2 r = some c3) :
    ∃ raX, c3 = { c2 with scopes := { sc with ra := raX, syms := sc.syms ++ old.syms.map (fun q => { q with visible := false }) } :: rs } ∧
      raX.max = (if sc.ra.max < old.ra.max then old.ra.max else sc.ra.max) ∧ (∀ j, sc.ra.alloc j = true → raX.alloc j = true) ∧
      (∀ i, r.k = .loc i → raX.alloc i = true) := by
  obtain ⟨raX, hpop, hmax, hmono⟩ := popScope_block c2 old sc rs hs hfn hun hcl
  simp only [popScopeKeep, hpop, Option.bind_eq_bind, Option.bind_some] at h
  cases hk : r.k with
  | loc i =>
    rw [hk] at h
    simp only [Option.pure_def, Option.some.injEq] at h
    refine ⟨raX.mark i, h.symm, hmax, fun j hj => by simp [RA.mark, hmono j hj], fun i' hi' => ?_⟩
    injection hi' with e
    subst e
    simp [RA.mark]
  | const kc =>
    rw [hk] at h
    simp only [Option.pure_def, Option.some.injEq] at h
    exact ⟨raX, h.symm, hmax, hmono, fun i hi => by simp at hi⟩
  | up e i =>
    rw [hk] at h
    simp only [Option.pure_def, Option.some.injEq] at h
    exact ⟨raX, h.symm, hmax, hmono, fun i hi => by simp at hi⟩
  | ref id =>
    rw [hk] at h
    simp only [Option.pure_def, Option.some.injEq] at h
    exact ⟨raX, h.symm, hmax, hmono, fun i hi => by simp at hi⟩

/-- `janetc_do`: block scope around the body -/
theorem do_core (G : String → Prop) (T : Expr → Prop) (w : Bool) (fuel : Nat) (IH : CorrectAt p f0 rest V P G T w fuel) (ML : MLAt G T w fuel)
    (body : List Expr) (hT : ∀ e, e ∈ body → T e)
    (opts : Fopts) (c c' : CState) (slot : JSlot) (sc : Scope) (rs : List Scope) (pool : List KConst) (ps : List (List KConst))
    (n : Nat) (cur : Pos) (env envb : Env) (s s' : SS) (v : Value)
    (ht : opts.tail = false) (hh : opts.hint = none) (hs : c.scopes = sc :: rs) (hp : c.pools = pool :: ps) (hl : c.lim ≤ 240)
    (hm : w = true → c.map.length = c.buf.length)
    (hc : cDo (cValue fuel) opts body c = some (slot, c')) (hsem : evalSeq n cur env body s = .ok (v, envb) s')
    (hE : EnvS G c.scopes env s.boxes.size sc.ra) :
    Correct2 p f0 rest V P G (opts.drop && w) c c' slot sc rs pool ps env env s s' v := by
  simp only [cDo, Option.bind_eq_bind, Option.bind_eq_some_iff, Prod.exists, Option.pure_def, Option.some.injEq, Prod.mk.injEq] at hc
  obtain ⟨r, c2, hbody, c3, hpop, hslot, hc3⟩ := hc
  subst hslot hc3
  let nw : Scope := { ra := { alloc := sc.ra.alloc, max := sc.ra.max }, start := c.buf.length }
  have hc1 : pushScope c false false false false = { c with scopes := nw :: sc :: rs } := by
    simp [pushScope, hs, nw]
  rw [hc1] at hbody
  have hlk1 : ∀ x, lk (nw :: sc :: rs) x = lk c.scopes x := by
    intro x; rw [hs]; exact lk_push nw (sc :: rs) rfl rfl rfl x
  have hE1 : EnvS G ({ c with scopes := nw :: sc :: rs } : CState).scopes env s.boxes.size nw.ra :=
    hE.of_lk hlk1 (Nat.le_refl _) (fun _ _ _ _ _ _ _ h => h)
  obtain ⟨ra2, ns2, more2, seg2, segm2, hc2, pv2, mono2, max2, sok2, bx2, es2, nf2, vm2⟩ :=
    doBody_correct p f0 rest V P G T w fuel IH ML body hT opts { c with scopes := nw :: sc :: rs } c2 r nw (sc :: rs) pool ps n cur env envb s s' v
      ht hh rfl hp hl rfl hm hbody hsem hE1
  have hs2 : c2.scopes = { nw with ra := ra2, syms := nw.syms ++ ns2 } :: sc :: rs := by rw [hc2]
  obtain ⟨raX, hc3, hmaxX, hmonoX, hkeepX⟩ :=
    popScopeKeep_block c2 c3 r { nw with ra := ra2, syms := nw.syms ++ ns2 } sc rs hs2 rfl rfl rfl hpop
  have hs3 : c3.scopes = { sc with ra := raX, syms := sc.syms ++ (nw.syms ++ ns2).map (fun q => { q with visible := false }) } :: rs := by rw [hc3]
  have hinv : ∀ q, q ∈ (nw.syms ++ ns2).map (fun q : SymPair => { q with visible := false }) → q.visible = false := by
    intro q hq
    simp only [List.mem_map] at hq
    obtain ⟨q0, _, rfl⟩ := hq
    rfl
  have hlk3 : ∀ x, lk c3.scopes x = lk c.scopes x := by
    intro x
    rw [hs3, hs]
    have := lk_append_invisible { sc with ra := raX } rs _ hinv x
    exact this.trans (lk_ra sc rs raX x)
  have max2' : sc.ra.max ≤ ra2.max := max2
  have hmaxX' : raX.max = (if sc.ra.max < ra2.max then ra2.max else sc.ra.max) := hmaxX
  have mono2' : ∀ j, sc.ra.alloc j = true → ra2.alloc j = true := mono2
  refine ⟨raX, (nw.syms ++ ns2).map (fun q => { q with visible := false }), more2, seg2, segm2, ?_, ?_, hmonoX, ?_, ?_, bx2, ?_, ?_, ?_⟩
  · rw [hc3, hc2]
  · rw [hc3]; exact pv2
  · rw [hmaxX']; split <;> omega
  · have hv3 : c3.vals = c2.vals := by rw [hc3]
    rcases sok2 with ⟨a1, kc, a2, a3⟩ | ⟨a1, a2, r0, a3, a4, a5⟩ | ⟨a1, a2, d, a3, a4, a5, a6, a7⟩
    · exact Or.inl ⟨a1, kc, a2, by rw [hv3]; exact a3⟩
    · exact Or.inr (Or.inl ⟨a1, a2, r0, a3, hkeepX r0 a3, a5⟩)
    · refine Or.inr (Or.inr ⟨a1, a2, d, a3, a4, hkeepX d a3, a6, ?_⟩)
      intro x sl u l hx hk
      rw [hlk3] at hx
      obtain ⟨_, _, _, r', _, hk', _, _, hal, _⟩ := hE.found hx
      rw [hk'] at hk
      have : r' = d := by injection hk
      rw [this] at hal
      have a4' : sc.ra.alloc d = false := a4
      rw [a4'] at hal
      exact Bool.noConfusion hal
  · exact hE.of_lk hlk3 bx2.1 (fun _ _ _ _ r _ _ h => hmonoX r h)
  · refine ⟨fun d _ hno => hno.of_lk hlk3, fun r0 hnm hk hr hno => ?_⟩
    exact nf2.2 r0 hnm hk hr (hno.of_lk hlk1)
  · intro k hkw hka hD hcode hpre hV hsz
    have hv3 : c3.vals = c2.vals := by rw [hc3]
    rw [hv3] at hV
    obtain ⟨regs2, rch2, sz2, pr2, sv2, _⟩ :=
      vm2 k hkw hka (hD.of_lk hlk1) hcode hpre hV (by rw [hmaxX'] at hsz; split at hsz <;> omega)
    refine ⟨regs2, rch2, sz2, pr2, sv2, ?_⟩
    intro x sl u l r' a hx hk he
    rw [hlk3] at hx
    obtain ⟨_, _, _, r'', a'', hk', he', ha, hal, _⟩ := hE.found hx
    have e1 : r'' = r' := by rw [hk'] at hk; injection hk
    have e2 : a'' = a := by rw [he] at he'; exact (Option.some.inj he').symm
    subst e1 e2
    rw [pr2 r'' hal, hD x sl u l r'' a'' hx hk he]
    exact (readBox_pref bx2 a'' ha).symm

end

end JanetModel.Compile
