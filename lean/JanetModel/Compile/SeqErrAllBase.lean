/- C02: error propagation through the forms of the core fragment, infrastructure: `ErrOK` (the VM, started at a form's code,
   reaches a configuration in the world `Lang/Sem` has when the error is raised, whose next step raises the same error at the
   same position), stated against the FINAL compiler state of the form; `App` (the rest of a compile only appends code / map /
   pool, extends the value table, never decreases the allocator's `max`); the combinators `ErrOK.extend` (the failing sub-form
   first, then more compile), `ErrOK.after` (sub-forms that ran, then the failing part), `ErrOK.block` (block scope); the
   inversions of `Lang/Sem` on an error outcome. -/
import JanetModel.Compile.SeqErr
import JanetModel.Compile.SeqShapeMaxR
namespace JanetModel.Compile
open JanetModel.Emit JanetModel.Lang JanetModel.Bytecode.Exec JanetModel.Gen.Bytecode

theorem MapAt.left {smap : Array (Int × Int)} {pc : Nat} {a b : List Pos} (h : MapAt smap pc (a ++ b)) : MapAt smap pc a := by
  intro i x hx
  exact h i x (by rw [List.getElem?_append_left (by exact (List.getElem?_eq_some_iff.mp hx).1)]; exact hx)

theorem MapAt.right {smap : Array (Int × Int)} {pc : Nat} {a b : List Pos} (h : MapAt smap pc (a ++ b)) : MapAt smap (pc + a.length) b := by
  intro i x hx
  have := h (a.length + i) x (by rw [List.getElem?_append_right (by omega)]; simpa using hx)
  have e : pc + a.length + i = pc + (a.length + i) := by omega
  rw [e]; exact this

/-- append-only step of the compiler state (innermost scope's `max` monotone) -/
def App (c c' : CState) (rs : List Scope) (ps : List (List KConst)) : Prop :=
  ∃ (sc sc' : Scope) (pool more : List KConst) (seg : List CI) (segm : List Pos),
    c.scopes = sc :: rs ∧ c'.scopes = sc' :: rs ∧ sc.ra.max ≤ sc'.ra.max ∧ c.pools = pool :: ps ∧ c'.pools = (pool ++ more) :: ps ∧
    c'.buf = c.buf ++ seg ∧ c'.map = c.map ++ segm ∧ PrefA c.vals c'.vals

theorem App.refl (c : CState) (sc : Scope) (rs : List Scope) (pool : List KConst) (ps : List (List KConst))
    (hs : c.scopes = sc :: rs) (hp : c.pools = pool :: ps) : App c c rs ps :=
  ⟨sc, sc, pool, [], [], [], hs, hs, Nat.le_refl _, hp, by simp [hp], by simp, by simp, PrefA.refl _⟩

theorem App.trans {c c1 c2 : CState} {rs : List Scope} {ps : List (List KConst)} (h1 : App c c1 rs ps) (h2 : App c1 c2 rs ps) : App c c2 rs ps := by
  obtain ⟨sc, sc1, pool, more1, seg1, segm1, a1, a2, a3, a4, a5, a6, a7, a8⟩ := h1
  obtain ⟨sc1', sc2, pool1, more2, seg2, segm2, b1, b2, b3, b4, b5, b6, b7, b8⟩ := h2
  rw [a2] at b1
  rw [a5] at b4
  have e1 : sc1 = sc1' := (List.cons.inj b1).1
  have e2 : pool ++ more1 = pool1 := (List.cons.inj b4).1
  subst e1 e2
  exact ⟨sc, sc2, pool, more1 ++ more2, seg1 ++ seg2, segm1 ++ segm2, a1, b2, Nat.le_trans a3 b3, a4, by rw [b5]; simp, by rw [b6, a6]; simp,
    by rw [b7, a7]; simp, PrefA.trans a8 b8⟩

theorem Shp.app {G : String → Prop} {c c' : CState} {sc : Scope} {rs : List Scope} {pool : List KConst} {ps : List (List KConst)}
    (hs : c.scopes = sc :: rs) (hp : c.pools = pool :: ps) (h : Shp G c c' sc rs pool ps) (hM : MaxR c c' rs) : App c c' rs ps := by
  obtain ⟨ra', ns, more, seg, segm, hc, pv, _, _⟩ := h
  have hs' : c'.scopes = { sc with ra := ra', syms := sc.syms ++ ns } :: rs := by rw [hc]
  exact ⟨sc, _, pool, more, seg, segm, hs, hs', hM sc _ hs hs', hp, by rw [hc], by rw [hc], by rw [hc], pv⟩

theorem StepR.app {c c' : CState} {sc : Scope} {rs : List Scope} {pool : List KConst} {ps : List (List KConst)}
    (hs : c.scopes = sc :: rs) (hp : c.pools = pool :: ps) (h : StepR c c' sc rs pool ps) (hM : MaxR c c' rs) : App c c' rs ps := by
  obtain ⟨ra', more, seg, segm, hc, _⟩ := h
  have hs' : c'.scopes = { sc with ra := ra' } :: rs := by rw [hc]
  exact ⟨sc, _, pool, more, seg, segm, hs, hs', hM sc _ hs hs', hp, by rw [hc], by rw [hc], by rw [hc], by rw [hc]; exact PrefA.refl _⟩

section
variable (p : Program) (f0 : Frame) (rest : List Frame) (V : Array Value) (P : List KConst)

/-- the error outcome of a form, against the final compiler state `c'` of the form -/
def ErrOK (c c' : CState) (rs : List Scope) (ps : List (List KConst)) (env : Env) (s s' : SS) (ev : Value) (epos : Pos) : Prop :=
  ∀ (sc' : Scope) (pool' : List KConst) (seg : List CI) (segm : List Pos),
    c'.scopes = sc' :: rs → c'.pools = pool' :: ps → c'.buf = c.buf ++ seg → c'.map = c.map ++ segm →
    ∀ (k : Cfg), k.w = s.st.world → k.args = #[] → EnvD c.scopes env s k.regs →
      CodeAt (p.defs.getD f0.defIdx default).code k.pc seg → MapAt (p.defs.getD f0.defIdx default).smap k.pc segm →
      PrefL pool' P → PrefA c'.vals V → sc'.ra.max < k.regs.size →
      ∃ (regs' A : Array Value) (pc' : Nat),
        Reach p (inj f0 rest k) (inj f0 rest { regs := regs', pc := pc', args := A, w := s'.st.world }) ∧ regs'.size = k.regs.size ∧
        step p (inj f0 rest { regs := regs', pc := pc', args := A, w := s'.st.world }) =
          .err ev epos (inj f0 rest { regs := regs', pc := pc', args := A, w := s'.st.world })

variable {p f0 rest V P}

/-- the states at the two ends may be replaced by states with the same scopes (up to `lk`), code, map, pool, values -/
theorem ErrOK.congr {c c' d d' : CState} {rs : List Scope} {ps : List (List KConst)} {env : Env} {s s' : SS} {ev : Value} {epos : Pos}
    (h : ErrOK p f0 rest V P c c' rs ps env s s' ev epos)
    (hlk : ∀ x, lk c.scopes x = lk d.scopes x) (hb : d.buf = c.buf) (hm : d.map = c.map)
    (hs' : d'.scopes = c'.scopes) (hp' : d'.pools = c'.pools) (hb' : d'.buf = c'.buf) (hm' : d'.map = c'.map) (hv' : d'.vals = c'.vals) :
    ErrOK p f0 rest V P d d' rs ps env s s' ev epos := by
  intro sc' pool' seg segm a1 a2 a3 a4 k b1 b2 b3 b4 b5 b6 b7 b8
  rw [hs'] at a1
  rw [hp'] at a2
  rw [hb', hb] at a3
  rw [hm', hm] at a4
  rw [hv'] at b7
  exact h sc' pool' seg segm a1 a2 a3 a4 k b1 b2 (b3.of_lk hlk) b4 b5 b6 b7 b8

/-- the failing part first, then more compile -/
theorem ErrOK.extend {c c1 c' : CState} {rs : List Scope} {ps : List (List KConst)} {env : Env} {s s' : SS} {ev : Value} {epos : Pos}
    (h : ErrOK p f0 rest V P c c1 rs ps env s s' ev epos) (seg1 : List CI) (segm1 : List Pos) (hb1 : c1.buf = c.buf ++ seg1)
    (hm1 : c1.map = c.map ++ segm1) (hA : App c1 c' rs ps) : ErrOK p f0 rest V P c c' rs ps env s s' ev epos := by
  obtain ⟨sc1, sc2, pool1, more2, seg2, segm2, a1, a2, a3, a4, a5, a6, a7, a8⟩ := hA
  intro sc' pool' seg segm hs' hp' hb' hm' k hkw hka hD hcode hmap hpre hV hsz
  rw [a2] at hs'
  rw [a5] at hp'
  have e1 : sc2 = sc' := (List.cons.inj hs').1
  have e2 : pool1 ++ more2 = pool' := (List.cons.inj hp').1
  subst e1 e2
  have e3 : seg = seg1 ++ seg2 := by
    rw [a6, hb1, List.append_assoc] at hb'
    exact (List.append_cancel_left hb').symm
  have e4 : segm = segm1 ++ segm2 := by
    rw [a7, hm1, List.append_assoc] at hm'
    exact (List.append_cancel_left hm').symm
  subst e3 e4
  exact h sc1 pool1 seg1 segm1 a1 a4 hb1 hm1 k hkw hka hD hcode.left hmap.left (PrefL.trans ⟨more2, rfl⟩ hpre) (PrefA.trans a8 hV) (by omega)

/-- sub-forms that ran (a `Correct2`), then — from a state that differs only in the head allocator — the failing part -/
theorem ErrOK.after {G : String → Prop} {dr : Bool} {c c1 c1f c' : CState} {slot : JSlot} {sc : Scope} {rs : List Scope} {pool : List KConst}
    {ps : List (List KConst)} {env env1 : Env} {s s1 s' : SS} {v ev : Value} {epos : Pos}
    (H : Correct2 p f0 rest V P G dr c c1 slot sc rs pool ps env env1 s s1 v)
    (hm : c.map.length = c.buf.length) (hm1 : c1.map.length = c1.buf.length)
    (hbf : c1f.buf = c1.buf) (hmf : c1f.map = c1.map) (hpf : c1f.pools = c1.pools) (hvf : c1f.vals = c1.vals)
    (hlkf : ∀ x, lk c1f.scopes x = lk c1.scopes x) (hMf : MaxR c1 c1f rs)
    (hA : App c1f c' rs ps) (hE : ErrOK p f0 rest V P c1f c' rs ps env1 s1 s' ev epos) :
    ErrOK p f0 rest V P c c' rs ps env s s' ev epos := by
  obtain ⟨ra1, ns1, more1, seg1, segm1, hc1, pv1, mono1, max1, sok1, bx1, es1, nf1, vm1⟩ := H
  have hs1 : c1.scopes = { sc with ra := ra1, syms := sc.syms ++ ns1 } :: rs := by rw [hc1]
  have hp1 : c1.pools = (pool ++ more1) :: ps := by rw [hc1]
  have hb1 : c1.buf = c.buf ++ seg1 := by rw [hc1]
  have hmm1 : c1.map = c.map ++ segm1 := by rw [hc1]
  have hlen1 : segm1.length = seg1.length := by
    rw [hb1, hmm1] at hm1
    simp only [List.length_append] at hm1
    omega
  obtain ⟨scf, sc2, poolf, more2, seg2, segm2, a1, a2, a3, a4, a5, a6, a7, a8⟩ := hA
  rw [hpf, hp1] at a4
  have e0 : pool ++ more1 = poolf := (List.cons.inj a4).1
  subst e0
  intro sc' pool' seg segm hs' hp' hb' hm' k hkw hka hD hcode hmap hpre hV hsz
  rw [a2] at hs'
  rw [a5] at hp'
  have e1 : sc2 = sc' := (List.cons.inj hs').1
  have e2 : pool ++ more1 ++ more2 = pool' := (List.cons.inj hp').1
  subst e1 e2
  have e3 : seg = seg1 ++ seg2 := by
    rw [a6, hbf, hb1, List.append_assoc] at hb'
    exact (List.append_cancel_left hb').symm
  have e4 : segm = segm1 ++ segm2 := by
    rw [a7, hmf, hmm1, List.append_assoc] at hm'
    exact (List.append_cancel_left hm').symm
  subst e3 e4
  have hmaxf : ra1.max ≤ scf.ra.max := hMf _ scf hs1 a1
  have hV1 : PrefA c1.vals V := by rw [← hvf]; exact PrefA.trans a8 hV
  obtain ⟨regs1, rch1, sz1, _, _, ed1⟩ := vm1 k hkw hka hD hcode.left (PrefL.trans ⟨more2, rfl⟩ hpre) hV1 (by omega)
  have hmapR := hmap.right
  rw [hlen1] at hmapR
  obtain ⟨regs', A, pc', rch2, sz2, hst⟩ := hE sc2 _ seg2 segm2 a2 a5 a6 a7
    { regs := regs1, pc := k.pc + seg1.length, args := #[], w := s1.st.world } rfl rfl (ed1.of_lk hlkf) hcode.right hmapR hpre hV
    (by show sc2.ra.max < regs1.size; omega)
  exact ⟨regs', A, pc', Reach.trans rch1 rch2, by rw [sz2]; exact sz1, hst⟩

/-- a block scope around the failing part: `janetc_scope` … `janetc_popscope[_keepslot]` -/
theorem ErrOK.block {c c2 c3 : CState} {sc old : Scope} {rs : List Scope} {ps : List (List KConst)} {env : Env} {s s' : SS} {ev : Value} {epos : Pos}
    (hs : c.scopes = sc :: rs) (hs2 : c2.scopes = old :: sc :: rs)
    (h : ErrOK p f0 rest V P { c with scopes := blk c sc false :: sc :: rs } c2 (sc :: rs) ps env s s' ev epos)
    (hs3 : ∀ sc3, c3.scopes = sc3 :: rs → old.ra.max ≤ sc3.ra.max)
    (hp3 : c3.pools = c2.pools) (hb3 : c3.buf = c2.buf) (hm3 : c3.map = c2.map) (hv3 : c3.vals = c2.vals) :
    ErrOK p f0 rest V P c c3 rs ps env s s' ev epos := by
  intro sc' pool' seg segm a1 a2 a3 a4 k b1 b2 b3 b4 b5 b6 b7 b8
  have hlk1 : ∀ y, lk (blk c sc false :: sc :: rs) y = lk c.scopes y := by
    intro y; rw [hs]; exact lk_push _ _ rfl rfl rfl y
  rw [hp3] at a2
  rw [hb3] at a3
  rw [hm3] at a4
  rw [hv3] at b7
  have := hs3 sc' a1
  exact h old pool' seg segm hs2 a2 a3 a4 k b1 b2 (b3.of_lk hlk1) b4 b5 b6 b7 (by omega)

end

/-! ### `Lang/Sem` on an error outcome -/

theorem posOf_curAt (c : CState) (cur pp : Pos) (h : c.cur = cur) : curAt c pp = { c with cur := posOf cur pp } := by
  unfold curAt posOf
  split
  · rfl
  · rw [← h]

theorem evalArgs_cons_err_inv (n : Nat) (cur : Pos) (env : Env) (a : Expr) (as : List Expr) (s s' : SS) (ev : Value) (epos : Pos)
    (hsp : isSplice a = none) (h : evalArgs n cur env (a :: as) s = .err ev epos s') :
    ∃ n2, n = n2 + 1 ∧ (eval n2 cur env a s = .err ev epos s' ∨
      ∃ v1 env1 s1, eval n2 cur env a s = .ok (v1, env1) s1 ∧ evalArgs n2 cur env1 as s1 = .err ev epos s') := by
  cases n with
  | zero => simp [evalArgs] at h
  | succ n =>
    refine ⟨n, rfl, ?_⟩
    simp only [evalArgs, hsp] at h
    cases he : eval n cur env a s with
    | ok r s1 =>
      obtain ⟨v1, env1⟩ := r
      rw [he] at h
      simp only at h
      refine Or.inr ⟨v1, env1, s1, rfl, ?_⟩
      cases hr : evalArgs n cur env1 as s1 with
      | ok r2 s2 => rw [hr] at h; exact absurd h (by simp)
      | err e2 p2 s2 => rw [hr] at h; exact h
      | brk _ _ => rw [hr] at h; exact absurd h (by simp)
      | stop _ => rw [hr] at h; exact absurd h (by simp)
    | err e2 p2 s2 =>
      rw [he] at h
      simp only [R.err.injEq] at h
      obtain ⟨h1, h2, h3⟩ := h
      subst h1 h2 h3
      exact Or.inl rfl
    | brk _ _ => rw [he] at h; exact absurd h (by simp)
    | stop _ => rw [he] at h; exact absurd h (by simp)

theorem evalArgs_nil_err (n : Nat) (cur : Pos) (env : Env) (s s' : SS) (ev : Value) (epos : Pos) : evalArgs n cur env [] s ≠ .err ev epos s' := by
  cases n <;> simp [evalArgs]

theorem evalSeq_nil_err (n : Nat) (cur : Pos) (env : Env) (s s' : SS) (ev : Value) (epos : Pos) : evalSeq n cur env [] s ≠ .err ev epos s' := by
  cases n <;> simp [evalSeq]

theorem evalSeq_one_err_inv (n : Nat) (cur : Pos) (env : Env) (e : Expr) (s s' : SS) (ev : Value) (epos : Pos)
    (h : evalSeq n cur env [e] s = .err ev epos s') : ∃ n2, n = n2 + 1 ∧ eval n2 cur env e s = .err ev epos s' := by
  cases n with
  | zero => simp [evalSeq] at h
  | succ n => exact ⟨n, rfl, by simpa only [evalSeq] using h⟩

theorem evalSeq_cons_err_inv (n : Nat) (cur : Pos) (env : Env) (e y : Expr) (r : List Expr) (s s' : SS) (ev : Value) (epos : Pos)
    (h : evalSeq n cur env (e :: y :: r) s = .err ev epos s') :
    ∃ n2, n = n2 + 1 ∧ (eval n2 cur env e s = .err ev epos s' ∨
      ∃ v1 env1 s1, eval n2 cur env e s = .ok (v1, env1) s1 ∧ evalSeq n2 cur env1 (y :: r) s1 = .err ev epos s') := by
  cases n with
  | zero => simp [evalSeq] at h
  | succ n =>
    refine ⟨n, rfl, ?_⟩
    simp only [evalSeq] at h
    cases he : eval n cur env e s with
    | ok r1 s1 =>
      obtain ⟨v1, env1⟩ := r1
      rw [he] at h
      exact Or.inr ⟨v1, env1, s1, rfl, h⟩
    | err e2 p2 s2 => rw [he] at h; exact Or.inl h
    | brk _ _ => rw [he] at h; exact absurd h (by simp)
    | stop _ => rw [he] at h; exact absurd h (by simp)

theorem eval_do_err_inv (n : Nat) (cur : Pos) (env : Env) (body : List Expr) (p : Pos) (s s' : SS) (ev : Value) (epos : Pos)
    (h : eval n cur env (.form (.sym "do" :: body) p) s = .err ev epos s') :
    ∃ n2, n = n2 + 1 ∧ evalSeq n2 (posOf cur p) env body s = .err ev epos s' := by
  cases n with
  | zero => simp [eval] at h
  | succ n2 =>
    rw [eval_do] at h
    cases he : evalSeq n2 (posOf cur p) env body s with
    | ok r s1 => obtain ⟨v1, envb⟩ := r; rw [he] at h; exact absurd h (by simp)
    | err e2 p2 s2 => rw [he] at h; simp only at h; exact ⟨n2, rfl, by rw [he]; exact h⟩
    | brk _ _ => rw [he] at h; exact absurd h (by simp)
    | stop _ => rw [he] at h; exact absurd h (by simp)

theorem eval_def_err_inv (n : Nat) (cur : Pos) (env : Env) (x : String) (ve : Expr) (p : Pos) (s s' : SS) (ev : Value) (epos : Pos)
    (h : eval n cur env (.form [.sym "def", .sym x, ve] p) s = .err ev epos s') :
    ∃ n2, n = n2 + 1 ∧ eval n2 (posOf cur p) env ve s = .err ev epos s' := by
  cases n with
  | zero => simp [eval] at h
  | succ n2 =>
    rw [eval_def] at h
    cases he : eval n2 (posOf cur p) env ve s with
    | ok r s1 =>
      obtain ⟨v1, env1⟩ := r
      rw [he] at h
      cases n2 with
      | zero => simp [eval] at he
      | succ n3 => simp [destructure, Lang.bind] at h
    | err e2 p2 s2 => rw [he] at h; simp only at h; exact ⟨n2, rfl, by rw [he]; exact h⟩
    | brk _ _ => rw [he] at h; exact absurd h (by simp)
    | stop _ => rw [he] at h; exact absurd h (by simp)

end JanetModel.Compile
