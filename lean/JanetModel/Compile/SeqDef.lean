/- C02: compile correctness, statement fragment: `janetc_def` with a symbol pattern in a local scope (`namelocal`: alias of a
   named immutable local, otherwise a fresh register and a copy), against `Lang/Sem`'s fresh box. -/
import JanetModel.Compile.SeqDo
namespace JanetModel.Compile
open JanetModel.Emit JanetModel.Lang JanetModel.Bytecode.Exec JanetModel.Gen.Bytecode

theorem namelocal_alias (c : CState) (x : String) (r : JSlot) (hnm : r.named = true) (hmut : r.mutable = false) (r0 : Nat) (hk : r.k = .loc r0) :
    namelocal c x false r = some (nameslot c x { r with mutable := false }) := by
  obtain ⟨k, cf, nm, mu, ret⟩ := r
  simp only at hnm hmut hk
  subst hnm hmut hk
  simp [namelocal]

theorem namelocal_copy (c c2 : CState) (x : String) (r : JSlot) (hsk : SK r)
    (hna : ¬ (r.named = true ∧ r.mutable = false ∧ ∃ r0, r.k = .loc r0)) (h : namelocal c x false r = some c2) :
    ∃ ls c1a c1b, farslot c = some (ls, c1a) ∧ copySlot c1a ls r = some c1b ∧ c2 = nameslot c1b x { ls with mutable := false } := by
  obtain ⟨k, cf, nm, mu, ret⟩ := r
  have hX : namelocal c x false { k := k, cflag := cf, named := nm, mutable := mu, returned := ret } =
      (do let (ls, c1) ← farslot c
          let c2 ← copySlot c1 ls { k := k, cflag := cf, named := nm, mutable := mu, returned := ret }
          pure (nameslot c2 x { ls with mutable := false })) := by
    rcases hsk with ⟨kc, hk⟩ | ⟨r0, hk, _⟩
    · simp only at hk; subst hk
      simp [namelocal]
    · simp only at hk; subst hk
      cases nm <;> cases mu <;> simp_all [namelocal]
  rw [hX] at h
  simp only [Option.bind_eq_bind, Option.bind_eq_some_iff, Prod.exists, Option.pure_def, Option.some.injEq] at h
  obtain ⟨ls, c1a, h1, c1b, h2, h3⟩ := h
  exact ⟨ls, c1a, c1b, h1, h2, h3.symm⟩
theorem lk_def (sc1 : Scope) (rs : List Scope) (raT : RA) (pair : SymPair) (hv : pair.visible = true) (y : String) :
    lk ({ sc1 with ra := raT, syms := sc1.syms ++ [pair] } :: rs) y =
      if (pair.name == y) = true then some (pair.slot, sc1.unused, true) else lk (sc1 :: rs) y :=
  lk_snoc { sc1 with ra := raT } rs pair hv y

theorem lookupEnv_cons (x : String) (a : Nat) (env : Env) (y : String) :
    lookupEnv ((x, a) :: env) y = if (x == y) = true then some a else lookupEnv env y := by
  simp only [lookupEnv]

/-- the compile-time invariant after a new name was bound to an allocated near register -/
theorem def_envS (G : String → Prop) (sc1 : Scope) (rs : List Scope) (env1 : Env) (nb : Nat) (ra1 raT : RA) (pair : SymPair) (d' : Nat)
    (hE : EnvS G (sc1 :: rs) env1 nb ra1) (hG : ¬ G pair.name) (hv : pair.visible = true) (hk : pair.slot.k = .loc d')
    (hn : pair.slot.named = true) (hc : pair.slot.cflag = false) (hsup : ∀ r, ra1.alloc r = true → raT.alloc r = true)
    (hd : raT.alloc d' = true) (hd240 : d' < 240) :
    EnvS G ({ sc1 with ra := raT, syms := sc1.syms ++ [pair] } :: rs) ((pair.name, nb) :: env1) (nb + 1) raT := by
  refine ⟨fun f hf => ?_, fun y => ?_⟩
  · rw [lk_def sc1 rs raT pair hv f]
    have hne : (pair.name == f) = false := by
      cases hb : (pair.name == f) with
      | false => rfl
      | true => exact absurd (by rw [← (beq_iff_eq.mp hb)] at hf; exact hf) hG
    simp only [hne, Bool.false_eq_true, if_false]
    exact hE.1 f hf
  · rw [lk_def sc1 rs raT pair hv y, lookupEnv_cons]
    cases hb : (pair.name == y) with
    | true =>
      simp only [if_true]
      exact Or.inr ⟨pair.slot, d', nb, sc1.unused, rfl, hk, hn, hc, rfl, by omega, hd, hd240⟩
    | false =>
      simp only [Bool.false_eq_true, if_false]
      rcases hE.2 y with ⟨h1, h2⟩ | ⟨slot, r, a, u, h1, hk1, hn1, hc1, he, ha, hal, hr⟩
      · exact Or.inl ⟨h1, h2⟩
      · exact Or.inr ⟨slot, r, a, u, h1, hk1, hn1, hc1, he, by omega, hsup r hal, hr⟩

/-- the run-time invariant after the bind: the new register holds the content of the new box, old names keep theirs -/
theorem def_envD (G : String → Prop) (sc1 : Scope) (rs : List Scope) (env1 : Env) (s1 : SS) (ra1 raT : RA) (pair : SymPair) (d' : Nat)
    (regs1 regsT : Array Value) (v : Value)
    (hE : EnvS G (sc1 :: rs) env1 s1.boxes.size ra1) (hD : EnvD (sc1 :: rs) env1 s1 regs1) (hv : pair.visible = true)
    (hk : pair.slot.k = .loc d') (hsame : ∀ r, ra1.alloc r = true → regsT.getD r .nil = regs1.getD r .nil) (hval : regsT.getD d' .nil = v) :
    EnvD ({ sc1 with ra := raT, syms := sc1.syms ++ [pair] } :: rs) ((pair.name, s1.boxes.size) :: env1)
      { s1 with boxes := s1.boxes.push v } regsT := by
  intro y slot u l r a hx hsk he
  rw [lk_def sc1 rs raT pair hv y] at hx
  rw [lookupEnv_cons] at he
  cases hb : (pair.name == y) with
  | true =>
    rw [hb] at hx he
    simp only [if_true, Option.some.injEq, Prod.mk.injEq] at hx he
    obtain ⟨e1, _, _⟩ := hx
    subst e1 he
    rw [hk] at hsk
    have : d' = r := by injection hsk
    subst this
    rw [hval]
    simp [readBox]
  | false =>
    rw [hb] at hx he
    simp only [Bool.false_eq_true, if_false] at hx he
    obtain ⟨_, _, _, r', a', hk', he', ha, hal, _⟩ := hE.found hx
    have e1 : r' = r := by rw [hk'] at hsk; injection hsk
    have e2 : a' = a := by rw [he] at he'; exact (Option.some.inj he').symm
    subst e1 e2
    rw [hsame r' hal, hD y slot u l r' a' hx hsk he]
    have : a' < s1.boxes.size := ha
    simp [readBox, Array.getD, Array.getElem_push_lt, this, Nat.lt_succ_of_lt this]

section
variable (p : Program) (f0 : Frame) (rest : List Frame) (V : Array Value) (P : List KConst)

/-- `janetc_copy` of a constant or a near local into a (different) near register: code, pool, VM run -/
theorem copyFresh (hP : P.length < 65536)
    (hK : ∀ i, i < P.length → (p.defs.getD f0.defIdx default).consts.getD i .nil = litOf V (P.getD i .nil))
    (c cb : CState) (dest src : JSlot) (d' : Nat) (hdk : dest.k = .loc d') (hdc : dest.cflag = false)
    (sc : Scope) (rs : List Scope) (pool : List KConst) (ps : List (List KConst))
    (hs : c.scopes = sc :: rs) (hp : c.pools = pool :: ps) (hd' : d' < 240) (hsk : SK src) (hne : ∀ r, src.k = .loc r → r ≠ d')
    (h : copySlot c dest src = some cb) :
    ∃ (more : List KConst) (seg : List CI) (segm : List Pos),
      cb = { c with scopes := sc :: rs, pools := (pool ++ more) :: ps, buf := c.buf ++ seg, map := c.map ++ segm } ∧
      ∀ (k : Cfg), CodeAt (p.defs.getD f0.defIdx default).code k.pc seg → PrefL (pool ++ more) P → d' < k.regs.size →
        Reach p (inj f0 rest k)
          (inj f0 rest { regs := k.regs.setIfInBounds d' (slotVal V k.regs src), pc := k.pc + seg.length, args := k.args, w := k.w }) := by
  rcases hsk with ⟨kc, hk⟩ | ⟨r, hk, hr⟩
  · obtain ⟨_, hcb⟩ := copy_loc_const c cb dest src d' kc hdk (by omega) hdc hk sc rs pool ps hs hp h
    obtain ⟨m, hm⟩ : PrefL pool (if kc.pooled then W.intern pool kc else pool) := by
      split
      · exact intern_pref pool kc
      · exact PrefL.refl _
    refine ⟨m, [CI.mi (MI.ldk d' kc (W.poolIdx (if kc.pooled = true then W.intern pool kc else pool) kc))], [c.cur], by rw [hcb, hm], ?_⟩
    intro k hcode hpre hsz
    rw [← hm] at hpre
    have hidx : W.poolIdx (if kc.pooled then W.intern pool kc else pool) kc < 65536 := by
      have := poolIdx_le (if kc.pooled then W.intern pool kc else pool) kc
      have := hpre.length
      omega
    have hconst : kc.pooled = true → (p.defs.getD f0.defIdx default).consts.getD (W.poolIdx (if kc.pooled then W.intern pool kc else pool) kc) .nil = litOf V kc := by
      intro hpl
      obtain ⟨h1, h2⟩ := pooled_const_at P pool kc hpre hpl
      rw [hK _ h1, h2]
    have s1 := run_ldk p f0 rest k d' kc _ V (by omega) hidx hcode.head hconst
    refine Reach.head s1 ?_
    have e : slotVal V k.regs src = litOf V kc := by simp [slotVal, hk]
    rw [e]
    exact Reach.refl _ _
  · obtain ⟨_, hcb⟩ := copy_loc_loc c cb dest src d' r hdk (by omega) hdc hk (hne r hk) sc rs pool ps hs hp h
    refine ⟨[], [CI.mi (.movn d' r)], [c.cur], by rw [hcb]; simp, ?_⟩
    intro k hcode _ _
    have s1 := run_movn p f0 rest k d' r (by omega) (by omega) hcode.head
    refine Reach.head s1 ?_
    have e : slotVal V k.regs src = k.regs.getD r .nil := by simp [slotVal, hk]
    rw [e]
    exact Reach.refl _ _

theorem farslot_eq (c : CState) : farslot c = getTarget c {} := rfl

/-- `janetc_def` -/
theorem def_core (hP : P.length < 65536)
    (hK : ∀ i, i < P.length → (p.defs.getD f0.defIdx default).consts.getD i .nil = litOf V (P.getD i .nil))
    (G : String → Prop) (T : Expr → Prop) (w : Bool) (fuel : Nat) (IH : CorrectAt p f0 rest V P G T w fuel) (x : String) (ve : Expr) (hGx : ¬ G x) (hTv : T ve)
    (c c' : CState) (slot : JSlot) (sc : Scope) (rs : List Scope) (pool : List KConst) (ps : List (List KConst))
    (n2 : Nat) (pos : Pos) (env env1 : Env) (s s1 : SS) (v : Value)
    (hs : c.scopes = sc :: rs) (hp : c.pools = pool :: ps) (hl : c.lim ≤ 240) (htop : sc.top = false)
    (hm : w = true → c.map.length = c.buf.length)
    (hc : cDef (cValue fuel) x ve c = some (slot, c')) (hsem : eval n2 pos env ve s = .ok (v, env1) s1)
    (hE : EnvS G c.scopes env s.boxes.size sc.ra) :
    Correct2 p f0 rest V P G false c c' slot sc rs pool ps env ((x, s1.boxes.size) :: env1) s { s1 with boxes := s1.boxes.push v } v := by
  have hct : curTop c = false := by simp [curTop, hs, htop]
  simp only [cDef, hct, Bool.false_eq_true, if_false, Option.bind_eq_bind, Option.bind_eq_some_iff, Prod.exists, Option.pure_def,
    Option.some.injEq, Prod.mk.injEq] at hc
  obtain ⟨r, c1, hv, c2, hnl, hslot, hc2⟩ := hc
  subst hslot hc2
  obtain ⟨ra1, ns1, more1, seg1, segm1, hc1, pv1, mono1, max1, sok1, bx1, es1, nf1, vm1⟩ :=
    IH ve {} c c1 r sc rs pool ps n2 pos env env1 s s1 v rfl rfl hs hp hl htop hm hTv hv hsem hE
  have hs1 : c1.scopes = { sc with ra := ra1, syms := sc.syms ++ ns1 } :: rs := by rw [hc1]
  have hp1 : c1.pools = (pool ++ more1) :: ps := by rw [hc1]
  have hl1 : c1.lim ≤ 240 := by rw [hc1]; exact hl
  rw [hs1] at es1
  have hbx : PrefA s.boxes ({ s1 with boxes := s1.boxes.push v } : SS).boxes := PrefA.trans bx1 (PrefA.push _ _)
  -- alias or copy?
  by_cases hal : r.named = true ∧ r.mutable = false ∧ ∃ r0, r.k = .loc r0
  · -- alias: the new name shares the register of the named immutable local
    obtain ⟨hnm, hmut, r0, hk0⟩ := hal
    have hcf : r.cflag = false ∧ ra1.alloc r0 = true ∧ r0 < 240 := by
      rcases sok1 with ⟨_, kc, hk, _⟩ | ⟨a1, _, r', hk, a3, a4⟩ | ⟨_, a2, _⟩
      · rw [hk0] at hk; exact absurd hk (by simp)
      · rw [hk0] at hk; injection hk with e; subst e; exact ⟨a1, a3, a4⟩
      · rw [hnm] at a2; exact absurd a2 (by simp)
    obtain ⟨hcf0, hal0, hr0⟩ := hcf
    have hc2 : c2 = nameslot c1 x { r with mutable := false } := by
      rw [namelocal_alias c1 x r hnm hmut r0 hk0] at hnl
      exact (Option.some.inj hnl).symm
    let pair : SymPair := { name := x, slot := { ({ r with mutable := false } : JSlot) with named := true } }
    have hs2 : c2.scopes = { sc with ra := ra1, syms := (sc.syms ++ ns1) ++ [pair] } :: rs := by
      rw [hc2]; simp only [nameslot, hs1] <;> rfl
    have hsc2 : c2.scopes = ({ ({ sc with syms := sc.syms ++ ns1 } : Scope) with ra := ra1, syms := ({ sc with syms := sc.syms ++ ns1 } : Scope).syms ++ [pair] } :: rs) := hs2
    have hpk : pair.slot.k = .loc r0 := hk0
    have nfA : NameFrame sc c.scopes c2.scopes r := by
      refine ⟨fun d hd hno y sl u l hy hk => ?_, nf1.2⟩
      rw [hsc2, lk_def _ rs ra1 pair rfl y] at hy
      cases hb : (pair.name == y) with
      | true =>
        rw [hb] at hy
        simp only [if_true, Option.some.injEq, Prod.mk.injEq] at hy
        obtain ⟨e1, _, _⟩ := hy
        subst e1
        rw [hpk] at hk
        injection hk with e
        subst e
        exact nf1.2 r0 hnm hk0 hd hno
      | false =>
        rw [hb] at hy
        simp only [Bool.false_eq_true, if_false] at hy
        have := nf1.1 d hd hno
        rw [hs1] at this
        exact this y sl u l hy hk
    refine ⟨ra1, ns1 ++ [pair], more1, seg1, segm1, ?_, ?_, mono1, max1, ?_, hbx, ?_, nfA, ?_⟩
    · rw [hc2]; simp only [nameslot, hs1]
      rw [hc1]; simp [List.append_assoc, pair]
    · have hv2 : c2.vals = c1.vals := by rw [hc2]; simp only [nameslot, hs1]
      rw [hv2]; exact pv1
    · have hv2 : c2.vals = c1.vals := by rw [hc2]; simp only [nameslot, hs1]
      rw [hv2]
      exact Or.inr (Or.inl ⟨hcf0, hnm, r0, hk0, hal0, hr0⟩)
    · rw [hsc2]
      have := def_envS G { sc with syms := sc.syms ++ ns1 } rs env1 s1.boxes.size ra1 ra1 pair r0 es1 hGx rfl hpk rfl hcf0 (fun _ h => h) hal0 hr0
      simpa using this
    · intro k hkw hka hD hcode hpre hV hsz
      have hv2 : c2.vals = c1.vals := by rw [hc2]; simp only [nameslot, hs1]
      rw [hv2] at hV
      obtain ⟨regs1, rch1, sz1, pr1, sv1, ed1⟩ := vm1 k hkw hka hD hcode hpre hV hsz
      refine ⟨regs1, rch1, sz1, pr1, fun _ => sv1 rfl, ?_⟩
      rw [hsc2]
      rw [hs1] at ed1
      have hval : regs1.getD r0 .nil = v := by
        have := sv1 rfl
        simp only [slotVal, hk0] at this
        exact this
      exact def_envD G { sc with syms := sc.syms ++ ns1 } rs env1 s1 ra1 ra1 pair r0 regs1 regs1 v es1 ed1 rfl hpk (fun _ _ => rfl) hval
  · -- a fresh register and a copy
    have hsk : SK r := sok1.sk
    have hcopy := namelocal_copy c1 c2 x r hsk hal hnl
    obtain ⟨ls, c1a, c1b, hfar, hcp, hc2⟩ := hcopy
    rw [farslot_eq] at hfar
    obtain ⟨d', raT, hls, b1, b2, b3, b4, b5, hc1a⟩ := getTarget_spec c1 c1a ls { sc with ra := ra1, syms := sc.syms ++ ns1 } rs hs1 hl1 hfar
    have b1' : ra1.alloc d' = false := b1
    have b4' : ra1.max ≤ raT.max := b4
    have b5' : ∀ j, raT.alloc j = (if j = d' then true else ra1.alloc j) := b5
    have hd240 : d' < 240 := by omega
    have hs1a : c1a.scopes = { sc with ra := raT, syms := sc.syms ++ ns1 } :: rs := by rw [hc1a]
    have hp1a : c1a.pools = (pool ++ more1) :: ps := by rw [hc1a]; exact hp1
    have hne : ∀ r0, r.k = .loc r0 → r0 ≠ d' := by
      intro r0 hk0 e
      subst e
      rcases sok1 with ⟨_, kc, hk, _⟩ | ⟨_, _, r', hk, a3, _⟩ | ⟨_, _, d, hk, _, a5, _⟩
      · rw [hk0] at hk; exact absurd hk (by simp)
      · rw [hk0] at hk; injection hk with e; subst e; rw [b1'] at a3; exact Bool.noConfusion a3
      · rw [hk0] at hk; injection hk with e; subst e; rw [b1'] at a5; exact Bool.noConfusion a5
    obtain ⟨moreC, segC, segmC, hc1b, vmC⟩ :=
      copyFresh p f0 rest V P hP hK c1a c1b ls r d' (by rw [hls]) (by rw [hls]) _ rs (pool ++ more1) ps hs1a hp1a hd240 hsk hne hcp
    have hs1b : c1b.scopes = { sc with ra := raT, syms := sc.syms ++ ns1 } :: rs := by rw [hc1b]
    let pair : SymPair := { name := x, slot := { ({ ls with mutable := false } : JSlot) with named := true } }
    have hs2 : c2.scopes = { sc with ra := raT, syms := (sc.syms ++ ns1) ++ [pair] } :: rs := by
      rw [hc2]; simp only [nameslot, hs1b] <;> rfl
    have hsc2 : c2.scopes = ({ ({ sc with syms := sc.syms ++ ns1 } : Scope) with ra := raT, syms := ({ sc with syms := sc.syms ++ ns1 } : Scope).syms ++ [pair] } :: rs) := hs2
    have hpk : pair.slot.k = .loc d' := by show ls.k = _; rw [hls]
    have hpc : pair.slot.cflag = false := by show ls.cflag = _; rw [hls]
    have hsupT : ∀ r0, ra1.alloc r0 = true → raT.alloc r0 = true := by
      intro r0 h0; rw [b5' r0]; split
      · rfl
      · exact h0
    have hdT : raT.alloc d' = true := by rw [b5' d']; simp
    have hv2 : c2.vals = c1.vals := by rw [hc2]; simp only [nameslot, hs1b]; rw [hc1b, hc1a]
    have nfC : NameFrame sc c.scopes c2.scopes r := by
      refine ⟨fun d hd hno y sl u l hy hk => ?_, nf1.2⟩
      rw [hsc2, lk_def _ rs raT pair rfl y] at hy
      cases hb : (pair.name == y) with
      | true =>
        rw [hb] at hy
        simp only [if_true, Option.some.injEq, Prod.mk.injEq] at hy
        obtain ⟨e1, _, _⟩ := hy
        subst e1
        rw [hpk] at hk
        injection hk with e
        subst e
        have := mono1 d' hd
        rw [b1'] at this
        exact Bool.noConfusion this
      | false =>
        rw [hb] at hy
        simp only [Bool.false_eq_true, if_false] at hy
        have := nf1.1 d hd hno
        rw [hs1] at this
        exact this y sl u l hy hk
    refine ⟨raT, ns1 ++ [pair], more1 ++ moreC, seg1 ++ segC, segm1 ++ segmC, ?_, ?_, fun r0 h0 => hsupT r0 (mono1 r0 h0), by omega, ?_, hbx, ?_, nfC, ?_⟩
    · rw [hc2]; simp only [nameslot, hs1b]
      rw [hc1b, hc1a, hc1]; simp [List.append_assoc, pair]
    · rw [hv2]; exact pv1
    · rw [hv2]
      rcases sok1 with h | ⟨a1, a2, r', a3, a4, a5⟩ | ⟨a1, a2, d, a3, a4, a5, a6, a7⟩
      · exact Or.inl h
      · exact Or.inr (Or.inl ⟨a1, a2, r', a3, hsupT r' a4, a5⟩)
      · refine Or.inr (Or.inr ⟨a1, a2, d, a3, a4, hsupT d a5, a6, ?_⟩)
        intro y sl u l hy hk
        rw [hsc2, lk_def _ rs raT pair rfl y] at hy
        cases hb : (pair.name == y) with
        | true =>
          rw [hb] at hy
          simp only [if_true, Option.some.injEq, Prod.mk.injEq] at hy
          obtain ⟨e1, _, _⟩ := hy
          subst e1
          rw [hpk] at hk
          injection hk with e
          subst e
          rw [b1'] at a5
          exact Bool.noConfusion a5
        | false =>
          rw [hb] at hy
          simp only [Bool.false_eq_true, if_false] at hy
          rw [hs1] at a7
          exact a7 y sl u l hy hk
    · rw [hsc2]
      have := def_envS G { sc with syms := sc.syms ++ ns1 } rs env1 s1.boxes.size ra1 raT pair d' es1 hGx rfl hpk rfl hpc hsupT hdT hd240
      simpa using this
    · intro k hkw hka hD hcode hpre hV hsz
      rw [hv2] at hV
      obtain ⟨regs1, rch1, sz1, pr1, sv1, ed1⟩ :=
        vm1 k hkw hka hD hcode.left (PrefL.trans ⟨moreC, by simp [List.append_assoc]⟩ hpre) hV (by omega)
      have rchC := vmC { regs := regs1, pc := k.pc + seg1.length, args := #[], w := s1.st.world } hcode.right
        (by rw [List.append_assoc]; exact hpre) (by show d' < regs1.size; omega)
      rw [hs1] at ed1
      have hsame : ∀ r0, ra1.alloc r0 = true → (regs1.setIfInBounds d' (slotVal V regs1 r)).getD r0 .nil = regs1.getD r0 .nil := by
        intro r0 h0
        exact getD_set_ne _ _ _ _ (by intro e; rw [e] at h0; rw [b1'] at h0; exact Bool.noConfusion h0)
      have hval : (regs1.setIfInBounds d' (slotVal V regs1 r)).getD d' .nil = v := by
        rw [getD_set_eq _ _ _ (by omega)]; exact sv1 rfl
      refine ⟨regs1.setIfInBounds d' (slotVal V regs1 r), ?_, by simp [sz1], ?_, ?_, ?_⟩
      · have e : k.pc + (seg1 ++ segC).length = k.pc + seg1.length + segC.length := by
          simp [List.length_append]; omega
        rw [e]
        exact Reach.trans rch1 rchC
      · intro r0 h0
        rw [hsame r0 (mono1 r0 h0), pr1 r0 h0]
      · intro _
        rcases hsk with ⟨kc, hk⟩ | ⟨r0, hk, _⟩
        · have := sv1 rfl
          simp only [slotVal, hk] at this ⊢
          exact this
        · have := sv1 rfl
          simp only [slotVal, hk] at this ⊢
          rw [getD_set_ne _ _ _ _ (hne r0 hk)]
          exact this
      · rw [hsc2]
        exact def_envD G { sc with syms := sc.syms ++ ns1 } rs env1 s1 ra1 raT pair d' regs1 _ v es1 ed1 rfl hpk hsame hval

end

end JanetModel.Compile
