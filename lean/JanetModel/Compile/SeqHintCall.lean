/- C02: a call of a global core function compiled with a hint slot (`(set x (f a …))`): `janetc_gettarget` returns the near hint
   itself (no allocation), the call is `LDK t f; CALL rh t`, the final `janetc_copy(hint, hint)` emits nothing.  The operands may
   read the hint register: they run before the CALL writes it. -/
import JanetModel.Compile.SeqHint
namespace JanetModel.Compile
open JanetModel.Emit JanetModel.Lang JanetModel.Bytecode.Exec JanetModel.Gen.Bytecode

theorem cValue_call_h (fuel : Nat) (opts : Fopts) (ht : opts.tail = false) (h : JSlot) (hh : opts.hint = some h) (f : String) (args : List Expr) (p : Pos)
    (c : CState) (hf : specials.contains f = false) :
    cValue (fuel + 1) opts (.form (.sym f :: args) p) c = finH c.cur h (cCall (cValue fuel) opts (.sym f) args (curAt c p)) := by
  have hf' := hf
  simp only [specials, List.contains_cons, List.contains_nil, Bool.or_false, Bool.or_eq_false_iff, beq_eq_false_iff_ne, ne_eq] at hf'
  obtain ⟨h1, h2, h3, h4, h5, h6, h7, h8, h9, h10, h11, h12, h13⟩ := hf'
  rw [cValue] <;> first | (intros; simp_all; done) | skip
  simp only [hf, curAt, ht, hh]
  cases cCall (cValue fuel) opts (.sym f) args (if p.line ≥ 0 then { c with cur := p } else c) with
  | none => rfl
  | some a =>
    obtain ⟨ret, c1⟩ := a
    simp only [finH, Bool.false_eq_true, if_false, Option.bind_eq_bind, Option.pure_def, Option.bind_some]

/-- `cCall` with a near hint: the target is the hint -/
theorem cCallH_inv (rec' : Fopts → Expr → CState → Option (JSlot × CState)) (opts : Fopts) (ht : opts.tail = false) (h : JSlot) (rh : Nat)
    (hh : opts.hint = some h) (hk : h.k = .loc rh) (hr : rh ≤ 0xFF)
    (f : String) (args : List Expr) (c0 cq : CState) (slot : JSlot)
    (hc : cCall rec' opts (.sym f) args c0 = some (slot, cq)) :
    ∃ head c1 slots c2 c3 c4 c5, rec' {} (.sym f) c0 = some (head, c1) ∧ toSlots rec' args c1 = some (slots, c2) ∧
      pushSlots c2 slots = some c3 ∧ emitSS c3 .call h head true = some c4 ∧
      freeslots c4 slots = some c5 ∧ freeslot c5 head = some cq ∧ slot = h := by
  unfold cCall at hc
  simp only [Option.bind_eq_bind, Option.pure_def, ht, Bool.false_and, Bool.false_eq_true, if_false, Option.bind_eq_some_iff, Prod.exists] at hc
  obtain ⟨head, c1, h1, slots, c2, h2, hc⟩ := hc
  simp only [Option.ite_none_left_eq_some] at hc
  obtain ⟨_, hc⟩ := hc
  simp only [getTarget, hh, hk, hr, if_true, Option.bind_eq_bind, Option.bind_eq_some_iff, Prod.exists, Option.some.injEq, Prod.mk.injEq,
    Option.pure_def] at hc
  obtain ⟨c3, h3, t, cT, ⟨e1, e2⟩, c4, hE, t2, c42, ⟨e3, e4⟩, c5, hf1, c6, hf2, e5, e6⟩ := hc
  subst_vars
  exact ⟨head, c1, slots, c2, _, _, c5, h1, h2, h3, hE, hf1, hf2, rfl⟩

theorem copySlot_same (c c2 : CState) (h : JSlot) (rh : Nat) (hk : h.k = .loc rh) (hcf : h.cflag = false) (hr : rh < 240)
    (sc : Scope) (rs : List Scope) (pool : List KConst) (ps : List (List KConst))
    (hs : c.scopes = sc :: rs) (hp : c.pools = pool :: ps) (hcp : copySlot c h h = some c2) : c2 = c := by
  have hnl : (Slot.loc rh).nearLocal = true := by simp [Slot.nearLocal]; omega
  simp only [copySlot, hcf, Bool.false_eq_true, if_false, hk, hnl, Bool.not_true, Bool.and_false] at hcp
  obtain ⟨_, hcb⟩ := emitW_spec c c2 _ sc rs pool ps hs hp hcp
  have hX : W.copy { ra := sc.ra, buf := [], consts := pool } (.loc rh) (.loc rh) = { ra := sc.ra, buf := [], consts := pool } := by
    simp [W.copy]
  rw [hX] at hcb
  rw [hcb]
  simp only [List.map_nil, List.append_nil, ← hs, ← hp]

section
variable (p : Program) (f0 : Frame) (rest : List Frame) (V : Array Value) (P : List KConst)

/-- `JOP_CALL` of a constant core function INTO the (allocated) hint register -/
theorem callEmitH (hP : P.length < 65536)
    (hK : ∀ i, i < P.length → (p.defs.getD f0.defIdx default).consts.getD i .nil = litOf V (P.getD i .nil))
    (c c4 : CState) (h head : JSlot) (rh : Nat) (kf : KConst) (f : String) (hna : f ≠ "apply")
    (sc : Scope) (rs : List Scope) (pool : List KConst) (ps : List (List KConst))
    (hs : c.scopes = sc :: rs) (hp : c.pools = pool :: ps) (hl : c.lim ≤ 240)
    (hk : h.k = .loc rh) (hr : rh < 240) (hal : sc.ra.alloc rh = true) (hhead : head.k = .const kf)
    (hE : emitSS c .call h head true = some c4) :
    ∃ (ra4 : RA) (more : List KConst) (seg : List CI) (segm : List Pos),
      c4 = { c with scopes := { sc with ra := ra4 } :: rs, pools := (pool ++ more) :: ps, buf := c.buf ++ seg, map := c.map ++ segm } ∧
      (∀ j, ra4.alloc j = sc.ra.alloc j) ∧ sc.ra.max ≤ ra4.max ∧ segm.length = seg.length ∧
      ∀ (k : Cfg) (s s' : SS) (n : Nat) (pos : Pos) (v : Value),
        CodeAt (p.defs.getD f0.defIdx default).code k.pc seg → PrefL (pool ++ more) P → ra4.max < k.regs.size → rh < k.regs.size → k.w = s.st.world →
        litOf V kf = .cfun f →
        applyFn (n + 1) pos (.cfun f) k.args.toList s = .ok v s' →
        ∃ regs', Reach p (inj f0 rest k) (inj f0 rest { regs := regs', pc := k.pc + seg.length, args := #[], w := s'.st.world }) ∧
          regs'.size = k.regs.size ∧ regs'.getD rh .nil = v ∧ ∀ r, sc.ra.alloc r = true → r ≠ rh → regs'.getD r .nil = k.regs.getD r .nil := by
  obtain ⟨t', ra', a1, a2, a3, a4, a5, a6, hc4⟩ :=
    emitSS_loc_const c c4 .call h head rh kf hk (by omega) hhead sc rs pool ps hs hp hl hE
  obtain ⟨m, hm⟩ : PrefL pool (if kf.pooled then W.intern pool kf else pool) := by
    split
    · exact intern_pref pool kf
    · exact PrefL.refl _
  refine ⟨ra', m, [CI.mi (MI.ldk t' kf (W.poolIdx (if kf.pooled = true then W.intern pool kf else pool) kf)),
      CI.mi (MI.pay Op.call.toNat Shape.ss true [rh, t'] 0)], [c.cur, c.cur], ?_, a6, a4, rfl, ?_⟩
  · rw [hc4, hm]
  · intro k s s' n pos v hcode hpre hsz hrsz hw hlit happ
    rw [← hm] at hpre
    have hidx : W.poolIdx (if kf.pooled then W.intern pool kf else pool) kf < 65536 := by
      have := poolIdx_le (if kf.pooled then W.intern pool kf else pool) kf
      have := hpre.length
      omega
    have hconst : kf.pooled = true → (p.defs.getD f0.defIdx default).consts.getD (W.poolIdx (if kf.pooled then W.intern pool kf else pool) kf) .nil = litOf V kf := by
      intro hpl
      obtain ⟨h1, h2⟩ := pooled_const_at P pool kf hpre hpl
      rw [hK _ h1, h2]
    have ht'd : t' ≠ rh := by
      intro e
      rw [e] at a1
      rw [hal] at a1
      exact Bool.noConfusion a1
    have s1 := run_ldk p f0 rest k t' kf _ V (by omega) hidx hcode.head hconst
    have hcode2 : (p.defs.getD f0.defIdx default).code[k.pc + 1]? = some (CI.call rh t').word := by
      rw [← call_word]; exact hcode.tail.head
    have happ' := applyFn_cfun n pos f hna k.args.toList s
    rw [happ'] at happ
    cases hcp : callPrimW f k.args.toList s.st.world with
    | rt => rw [hcp] at happ; exact absurd happ (by simp)
    | user e => rw [hcp] at happ; exact absurd happ (by simp)
    | unsup why => rw [hcp] at happ; exact absurd happ (by simp)
    | ok a =>
      obtain ⟨v', w'⟩ := a
      rw [hcp] at happ
      simp only [R.ok.injEq] at happ
      obtain ⟨hv, hs'⟩ := happ
      subst hv
      let k1 : Cfg := { k with regs := k.regs.setIfInBounds t' (litOf V kf), pc := k.pc + 1 }
      have hreg : (inj f0 rest k1).getReg t' = .cfun f := by
        rw [inj_getReg]
        show (k.regs.setIfInBounds t' (litOf V kf)).getD t' .nil = .cfun f
        rw [getD_set_eq _ _ _ (by omega), hlit]
      have s2 := step_call p (inj f0 rest k1) rh t' (by omega) (by omega) (by rw [inj_curDef, inj_pc]; exact hcode2)
      rw [hreg, doCall_cfun] at s2
      have hw1 : (inj f0 rest k1).world = s.st.world := by rw [inj_world]; exact hw
      have ha1 : (inj f0 rest k1).args = k.args := rfl
      rw [hw1, ha1, hcp] at s2
      refine ⟨(k.regs.setIfInBounds t' (litOf V kf)).setIfInBounds rh v', ?_, by simp, ?_, ?_⟩
      · refine Reach.head s1 (Reach.head s2 ?_)
        have : s'.st.world = w' := by rw [← hs']; rfl
        rw [this]
        exact Reach.refl _ _
      · exact getD_set_eq _ _ _ (by simp; omega)
      · intro r hra hne
        have hrt : r ≠ t' := by
          intro e
          rw [e] at hra
          rw [hra] at a1
          exact Bool.noConfusion a1
        rw [getD_set_ne _ _ _ _ hne, getD_set_ne _ _ _ _ hrt]

/-- a call of a global core function compiled with the hint as target -/
theorem hint_call_core (hP : P.length < 65536)
    (hK : ∀ i, i < P.length → (p.defs.getD f0.defIdx default).consts.getD i .nil = litOf V (P.getD i .nil))
    (FF : FloatFacts) (G : String → Prop) (b w : Bool) (fuel : Nat) (IH : CorrectAt p f0 rest V P G (TF G b) w fuel)
    (opts : Fopts) (ht : opts.tail = false) (h : JSlot) (rh : Nat) (hh : opts.hint = some h) (sc : Scope)
    (hk : h.k = .loc rh) (hr : rh < 240) (hal : sc.ra.alloc rh = true) (hrm : rh ≤ sc.ra.max)
    (f : String) (args : List Expr) (hna : f ≠ "apply") (hG : G f) (hTa : ∀ a, a ∈ args → TF G b a)
    (c cq : CState) (slot0 : JSlot) (rs : List Scope) (pool : List KConst) (ps : List (List KConst))
    (n2 : Nat) (pos : Pos) (env env_a : Env) (s s_a s' : SS) (vs : List Value) (v : Value)
    (hs : c.scopes = sc :: rs) (hp : c.pools = pool :: ps) (hl : c.lim ≤ 240) (htop : sc.top = false)
    (hm : c.map.length = c.buf.length)
    (hcc : cCall (cValue fuel) opts (.sym f) args c = some (slot0, cq))
    (hsa : evalArgs (n2 + 1) pos env args s = .ok (vs, env_a) s_a) (happ : applyFn (n2 + 1) pos (.cfun f) vs s_a = .ok v s')
    (hE : EnvS G c.scopes env s.boxes.size sc.ra) :
    slot0 = h ∧ HintOK p f0 rest V P G c cq rh sc rs pool ps env env_a s s' v := by
  obtain ⟨head, c1, slots, c2, c3, c4, c5, h1, h2, h3, hEm, hf1, hf2, hslot⟩ :=
    cCallH_inv (cValue fuel) opts ht h rh hh hk (by omega) f args c cq slot0 hcc
  refine ⟨hslot, ?_⟩
  cases fuel with
  | zero => simp [cValue] at h1
  | succ fuel' =>
  have hg0 : lookupSlot c f = none := by rw [lookupSlot_lk]; exact hE.1 f hG
  rw [cValue_sym, resolve_global _ f hg0] at h1
  have hgs : globalSlot c f = some (constSlot c (.cfun f)) := by
    unfold globalSlot at h1 ⊢
    split at h1 <;> simp_all [fin]
  rw [hgs] at h1
  simp only [fin, Option.some.injEq, Prod.mk.injEq] at h1
  obtain ⟨hhd, hc1⟩ := h1
  obtain ⟨vals1, kf, k1, k2, k3, k4⟩ := kOf_spec' FF c (.cfun f) trivial
  have cs : constSlot c (.cfun f) = (cslot kf, { c with vals := vals1 }) := by
    unfold constSlot; rw [k1]
  rw [cs] at hhd hc1
  have hhead : head = cslot kf := hhd.symm
  have hc1eq : c1 = { c with vals := vals1 } := hc1.symm
  subst hhead hc1eq
  have hs1 : ({ c with vals := vals1 } : CState).scopes = sc :: rs := hs
  have hp1 : ({ c with vals := vals1 } : CState).pools = pool :: ps := hp
  obtain ⟨ra2, ns2, more2, seg2, segm2, hc2, pv2, r1a, r3a, sok2, bx2, es2, nf2, vm2⟩ :=
    toSlots_correct p f0 rest V P G (TF G b) w (fuel' + 1) IH (tf_ML G b w (fuel' + 1)) (fun a h => h.notSplice) args hTa _ c2 slots sc rs pool ps
      (n2 + 1) pos env env_a s s_a vs hs1 hp1 hl htop (fun _ => hm) h2 hsa hE
  have hlen2 : segm2.length = seg2.length := by
    obtain ⟨ra', ns', more', seg', segm', hc2', _, _, hl'⟩ :=
      toSlots_shapeM G (fuel' + 1) (tf_shapeM_at G (fuel' + 1)) b args hTa _ c2 slots sc rs pool ps hs1 hp1 htop hm hE.lkl h2
    have eb : ({ c with vals := vals1 } : CState).buf ++ seg2 = ({ c with vals := vals1 } : CState).buf ++ seg' := by
      have e1 : c2.buf = ({ c with vals := vals1 } : CState).buf ++ seg2 := by rw [hc2]
      have e2 : c2.buf = ({ c with vals := vals1 } : CState).buf ++ seg' := by rw [hc2']
      rw [← e1, e2]
    have em : ({ c with vals := vals1 } : CState).map ++ segm2 = ({ c with vals := vals1 } : CState).map ++ segm' := by
      have e1 : c2.map = ({ c with vals := vals1 } : CState).map ++ segm2 := by rw [hc2]
      have e2 : c2.map = ({ c with vals := vals1 } : CState).map ++ segm' := by rw [hc2']
      rw [← e1, e2]
    rw [List.append_cancel_left eb, List.append_cancel_left em]; exact hl'
  have hs2 : c2.scopes = { sc with ra := ra2, syms := sc.syms ++ ns2 } :: rs := by rw [hc2]
  have hp2 : c2.pools = (pool ++ more2) :: ps := by rw [hc2]
  have hl2 : c2.lim ≤ 240 := by rw [hc2]; exact hl
  have hsk : ∀ sl, sl ∈ slots → SK sl := fun sl h => (sok2 sl h).sk
  have hal2 : ∀ sl r, sl ∈ slots → sl.k = .loc r → ra2.alloc r = true := by
    intro sl r hsl hk
    rcases sok2 sl hsl with ⟨_, kc, hk', _⟩ | ⟨_, _, r', hk', a4, _⟩ | ⟨_, _, d', hk', _, a5, _, _⟩
    · rw [hk] at hk'; exact absurd hk' (by simp)
    · rw [hk] at hk'; injection hk' with e; subst e; exact a4
    · rw [hk] at hk'; injection hk' with e; subst e; exact a5
  obtain ⟨ra3, more3, seg3, segm3, hc3, e3, m3, vm3⟩ :=
    pushN p f0 rest V P hP hK slots c2 c3 { sc with ra := ra2, syms := sc.syms ++ ns2 } rs (pool ++ more2) ps hs2 hp2 hl2 hsk hal2 h3
  have hlen3 : segm3.length = seg3.length := by
    obtain ⟨ra', more', seg', segm', hc3', hl'⟩ := pushSlots_stepR slots c2 c3 _ rs (pool ++ more2) ps hs2 hp2 h3
    have eb : c2.buf ++ seg3 = c2.buf ++ seg' := by
      have e1 : c3.buf = c2.buf ++ seg3 := by rw [hc3]
      have e2 : c3.buf = c2.buf ++ seg' := by rw [hc3']
      rw [← e1, e2]
    have em : c2.map ++ segm3 = c2.map ++ segm' := by
      have e1 : c3.map = c2.map ++ segm3 := by rw [hc3]
      have e2 : c3.map = c2.map ++ segm' := by rw [hc3']
      rw [← e1, e2]
    rw [List.append_cancel_left eb, List.append_cancel_left em]; exact hl'
  have hs3 : c3.scopes = { sc with ra := ra3, syms := sc.syms ++ ns2 } :: rs := by rw [hc3]
  have hp3 : c3.pools = ((pool ++ more2) ++ more3) :: ps := by rw [hc3]
  have hl3 : c3.lim ≤ 240 := by rw [hc3]; exact hl2
  have e3' : ∀ j, ra3.alloc j = ra2.alloc j := e3
  have m3' : ra2.max ≤ ra3.max := m3
  have hal3 : ra3.alloc rh = true := by rw [e3']; exact r1a rh hal
  obtain ⟨ra4, more4, seg4, segm4, hc4, d2, d4, hlen4, vm4⟩ :=
    callEmitH p f0 rest V P hP hK c3 c4 h (cslot kf) rh kf f hna { sc with ra := ra3, syms := sc.syms ++ ns2 } rs ((pool ++ more2) ++ more3) ps
      hs3 hp3 hl3 hk hr hal3 rfl hEm
  have hs4 : c4.scopes = { sc with ra := ra4, syms := sc.syms ++ ns2 } :: rs := by rw [hc4]
  rw [freeslot_const c5 (cslot kf) rfl] at hf2
  have hcq : c5 = cq := Option.some.inj hf2
  subst hcq
  have d2' : ∀ j, ra4.alloc j = ra3.alloc j := d2
  have d4' : ra3.max ≤ ra4.max := d4
  have hlk2 : ∀ ra x, lk ({ sc with ra := ra, syms := sc.syms ++ ns2 } :: rs) x = lk c2.scopes x := by
    intro ra x; rw [hs2]; rfl
  let Keep : Nat → Prop := fun r => sc.ra.alloc r = true ∨ ∃ x slot u l, lk c2.scopes x = some (slot, u, l) ∧ slot.k = .loc r
  have hfree : ∀ sl, sl ∈ slots → sl.cflag = true ∨ sl.named = true ∨ (sl.cflag = false ∧ sl.named = false ∧ ∃ da, sl.k = .loc da ∧ ¬ Keep da) := by
    intro sl hsl
    rcases sok2 sl hsl with ⟨hcf, _⟩ | ⟨_, hnm, _⟩ | ⟨hcf, hnm, da, hka', hda1, hda2, _, hnn⟩
    · exact Or.inl hcf
    · exact Or.inr (Or.inl hnm)
    · refine Or.inr (Or.inr ⟨hcf, hnm, da, hka', ?_⟩)
      rintro (h' | ⟨x, slot, u, l, hx, hk'⟩)
      · rw [h'] at hda1; exact Bool.noConfusion hda1
      · exact hnn x slot u l hx hk'
  obtain ⟨ra5, hc5, hmax5, r15⟩ := freeslots_keep Keep slots c4 c5 { sc with ra := ra4, syms := sc.syms ++ ns2 } rs hs4 hfree hf1
  have hmax5' : ra5.max = ra4.max := hmax5
  have r15' : ∀ r, ra4.alloc r = true → Keep r → ra5.alloc r = true := r15
  have hs5 : c5.scopes = { sc with ra := ra5, syms := sc.syms ++ ns2 } :: rs := by rw [hc5]
  have h24 : ∀ r, ra2.alloc r = true → ra4.alloc r = true := by
    intro r hr'; rw [d2' r, e3' r]; exact hr'
  have hbx : s'.boxes = s_a.boxes := applyFn_cfun_boxes n2 pos f hna vs s_a s' v happ
  have hnames : ∀ x slot u l r, lk c2.scopes x = some (slot, u, l) → slot.k = .loc r → ra2.alloc r = true → ra5.alloc r = true :=
    fun x slot u l r hx hk' hr' => r15' r (h24 r hr') (Or.inr ⟨x, slot, u, l, hx, hk'⟩)
  refine ⟨ra5, ns2, more2 ++ more3 ++ more4, seg2 ++ seg3 ++ seg4, segm2 ++ segm3 ++ segm4, ?_, ?_, ?_, ?_, ?_, ?_, ?_, ?_⟩
  · rw [hc5, hc4, hc3, hc2]
    simp [List.append_assoc]
  · rw [hc5, hc4, hc3]
    exact PrefA.trans k2 pv2
  · intro r hr'; exact r15' r (h24 r (r1a r hr')) (Or.inl hr')
  · rw [hmax5']; omega
  · rw [hbx]; exact bx2
  · rw [hs5, hbx]
    exact es2.of_lk (hlk2 ra5) (Nat.le_refl _) hnames
  · simp [hlen2, hlen3, hlen4]
  · intro k hkw hka hD hcode hpre hV hsz
    rw [hmax5'] at hsz
    have hvals : c5.vals = c2.vals := by rw [hc5, hc4, hc3]
    rw [hvals] at hV
    have hcodeA : CodeAt (p.defs.getD f0.defIdx default).code k.pc seg2 := by
      rw [List.append_assoc] at hcode; exact hcode.left
    have hcodeB : CodeAt (p.defs.getD f0.defIdx default).code (k.pc + seg2.length) seg3 := by
      rw [List.append_assoc] at hcode; exact hcode.right.left
    have hcodeC : CodeAt (p.defs.getD f0.defIdx default).code (k.pc + seg2.length + seg3.length) seg4 := by
      rw [List.append_assoc] at hcode; exact hcode.right.right
    have hpreA : PrefL (pool ++ more2) P := by
      refine PrefL.trans ?_ hpre
      exact ⟨more3 ++ more4, by simp [List.append_assoc]⟩
    have hpreB : PrefL (pool ++ more2 ++ more3) P := by
      refine PrefL.trans ?_ hpre
      exact ⟨more4, by simp [List.append_assoc]⟩
    have hpreC : PrefL (pool ++ more2 ++ more3 ++ more4) P := by
      refine PrefL.trans ?_ hpre
      exact ⟨[], by simp [List.append_assoc]⟩
    obtain ⟨regs2, rch2, sz2, pr2, sv2, ed2⟩ := vm2 k hkw hka hD hcodeA hpreA hV (by omega)
    obtain ⟨regs3, A, rch3, hA, sz3, pr3⟩ := vm3 { regs := regs2, pc := k.pc + seg2.length, args := #[], w := s_a.st.world } hcodeB hpreB
      (by show ra3.max < regs2.size; omega)
    have sz3' : regs3.size = regs2.size := sz3
    have pr3' : ∀ r, ra2.alloc r = true → regs3.getD r .nil = regs2.getD r .nil := pr3
    have hlit : litOf V kf = .cfun f := by
      rw [litOf_pref (PrefA.trans pv2 hV) kf k3]; exact k4
    have hargs : A.toList = vs := by
      rw [hA, ← sv2]; simp
    obtain ⟨regs4, rch4, sz4, hv4, pr4⟩ := vm4
      { regs := regs3, pc := k.pc + seg2.length + seg3.length, args := A, w := s_a.st.world }
      s_a s' n2 pos v hcodeC hpreC (by show ra4.max < regs3.size; omega) (by show rh < regs3.size; omega) rfl hlit (by rw [hargs]; exact happ)
    have sz4' : regs4.size = regs3.size := sz4
    have pr4' : ∀ r, ra3.alloc r = true → r ≠ rh → regs4.getD r .nil = regs3.getD r .nil := pr4
    refine ⟨regs4, ?_, by omega, ?_, hv4, ?_⟩
    · have e : k.pc + (seg2 ++ seg3 ++ seg4).length = k.pc + seg2.length + seg3.length + seg4.length := by
        simp [List.length_append]; omega
      rw [e]
      exact Reach.trans rch2 (Reach.trans rch3 rch4)
    · intro r hr' hne
      have h2r : ra2.alloc r = true := r1a r hr'
      have h3r : ra3.alloc r = true := by rw [e3' r]; exact h2r
      rw [pr4' r h3r hne, pr3' r h2r, pr2 r hr']
    · intro x slot u l r a' hx hk' hne he
      rw [hs5, hlk2] at hx
      obtain ⟨_, _, _, r', _, hk'', _, _, hal', _⟩ := es2.found hx
      have hrr : r' = r := by rw [hk''] at hk'; injection hk'
      rw [hrr] at hal'
      have h3r : ra3.alloc r = true := by rw [e3' r]; exact hal'
      rw [pr4' r h3r hne, pr3' r hal', ed2 x slot u l r a' hx hk' he]
      simp only [readBox, hbx]

end

end JanetModel.Compile
