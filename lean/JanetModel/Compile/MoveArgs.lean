/- C02: the entry moves of `janetc_fn` for functions with more than 240 parameters (`janetc_fn_moveargs`, fix 71c4f8f; model
   `Compile/Model.lean`: `moveArgsCode`, `fnMoveArgs`) do what they are for — on the abstract machine of Emit/Machine.lean, for
   EVERY number of arguments: the VM puts argument k in stack slot k; afterwards the register of every parameter k ≥ 0xF0 holds
   argument k, and the near registers below 0xF0 are untouched.  First theorem of the framework about far registers
   (gap (4) of `compile_correct_partial`).  Also: the first-fit allocator gives parameter k the register k (k < 0xF0) or k + 16
   (`firstFit_far`), so the hypotheses are the ones the parameter loop establishes; and `fnMoveArgs` is the identity for
   ≤ 0xF0 parameters (the case of `compile_correct_fn_params`). -/
import JanetModel.Compile.Model
import JanetModel.Emit.Machine
namespace JanetModel.Compile
open JanetModel.Emit JanetModel.Lang JanetModel.Bytecode.Exec JanetModel.Gen.Bytecode

variable {β : Type}

/-- only the registers change across moves -/
def SameRest (a b : M β) : Prop := a.up = b.up ∧ a.cell = b.cell ∧ a.log = b.log ∧ a.ok = b.ok

theorem SameRest.refl (a : M β) : SameRest a a := ⟨rfl, rfl, rfl, rfl⟩
theorem SameRest.trans {a b c : M β} (h1 : SameRest a b) (h2 : SameRest b c) : SameRest a c :=
  ⟨h1.1.trans h2.1, h1.2.1.trans h2.2.1, h1.2.2.1.trans h2.2.2.1, h1.2.2.2.trans h2.2.2.2⟩

theorem run_append (lit : KConst → β) (F) (m : M β) (a b : List MI) : run lit F m (a ++ b) = run lit F (run lit F m a) b := by
  simp [run, List.foldl_append]

theorem run_cons (lit : KConst → β) (F) (m : M β) (i : MI) (r : List MI) : run lit F m (i :: r) = run lit F (exec lit F m i) r := rfl

theorem run_nil (lit : KConst → β) (F) (m : M β) : run lit F m [] = m := rfl

/-- `for (k = lo + cnt − 1; k >= lo; k--) MOVE_FAR k → reg k`, highest first: every destination lies above its source and the
    destinations are distinct, so no source is overwritten before it is read -/
theorem movesLow_run (lit : KConst → β) (F) (reg : Nat → Nat) (lo : Nat) : ∀ (cnt : Nat) (st : M β),
    (∀ k, lo ≤ k → k < lo + cnt → k < reg k) →
    (∀ j k, lo ≤ j → j < lo + cnt → lo ≤ k → k < lo + cnt → reg j = reg k → j = k) →
    (∀ k, lo ≤ k → k < lo + cnt → (run lit F st (movesLow reg lo cnt)).regs (reg k) = st.regs k) ∧
    (∀ r, (∀ k, lo ≤ k → k < lo + cnt → reg k ≠ r) → (run lit F st (movesLow reg lo cnt)).regs r = st.regs r) ∧
    SameRest (run lit F st (movesLow reg lo cnt)) st := by
  intro cnt
  induction cnt with
  | zero =>
    intro st _ _
    refine ⟨fun k h1 h2 => by omega, fun r _ => rfl, SameRest.refl _⟩
  | succ cnt ih =>
    intro st hlt hinj
    simp only [movesLow, run_cons]
    have hst1 : (exec lit F st (.movf (lo + cnt) (reg (lo + cnt)))) = { st with regs := upd st.regs (reg (lo + cnt)) (st.regs (lo + cnt)) } := rfl
    rw [hst1]
    obtain ⟨iA, iB, iS⟩ := ih { st with regs := upd st.regs (reg (lo + cnt)) (st.regs (lo + cnt)) }
      (fun k h1 h2 => hlt k h1 (by omega)) (fun j k a b c d e => hinj j k a (by omega) c (by omega) e)
    have hK := hlt (lo + cnt) (by omega) (by omega)
    refine ⟨fun k h1 h2 => ?_, fun r hr => ?_, iS⟩
    · by_cases e : k = lo + cnt
      · subst e
        rw [iB (reg (lo + cnt)) (fun k' a b he => by have := hinj k' (lo + cnt) a (by omega) (by omega) (by omega) he; omega)]
        simp [upd]
      · rw [iA k h1 (by omega)]
        have : k ≠ reg (lo + cnt) := by omega
        simp [upd, this]
    · rw [iB r (fun k a b => hr k a (by omega))]
      have : r ≠ reg (lo + cnt) := fun e => hr (lo + cnt) (by omega) (by omega) e.symm
      simp [upd, this]

/-- the same through the temporary 0xFF (stack slots ≥ 0x100 do not fit MOVE_FAR's 8-bit source field) -/
theorem movesHigh_run (lit : KConst → β) (F) (reg : Nat → Nat) (lo : Nat) (hlo : 0x100 ≤ lo) : ∀ (cnt : Nat) (st : M β),
    (∀ k, lo ≤ k → k < lo + cnt → k < reg k) →
    (∀ j k, lo ≤ j → j < lo + cnt → lo ≤ k → k < lo + cnt → reg j = reg k → j = k) →
    (∀ k, lo ≤ k → k < lo + cnt → (run lit F st (movesHigh reg lo cnt)).regs (reg k) = st.regs k) ∧
    (∀ r, r ≠ 0xFF → (∀ k, lo ≤ k → k < lo + cnt → reg k ≠ r) → (run lit F st (movesHigh reg lo cnt)).regs r = st.regs r) ∧
    SameRest (run lit F st (movesHigh reg lo cnt)) st := by
  intro cnt
  induction cnt with
  | zero =>
    intro st _ _
    refine ⟨fun k h1 h2 => by omega, fun r _ _ => rfl, SameRest.refl _⟩
  | succ cnt ih =>
    intro st hlt hinj
    simp only [movesHigh, List.cons_append, List.nil_append, run_cons]
    have hK := hlt (lo + cnt) (by omega) (by omega)
    have hst1 : exec lit F (exec lit F st (.movn 0xFF (lo + cnt))) (.movf 0xFF (reg (lo + cnt))) =
        { st with regs := upd (upd st.regs 0xFF (st.regs (lo + cnt))) (reg (lo + cnt)) (st.regs (lo + cnt)) } := by
      simp [exec, upd]
    rw [hst1]
    obtain ⟨iA, iB, iS⟩ := ih { st with regs := upd (upd st.regs 0xFF (st.regs (lo + cnt))) (reg (lo + cnt)) (st.regs (lo + cnt)) }
      (fun k h1 h2 => hlt k h1 (by omega)) (fun j k a b c d e => hinj j k a (by omega) c (by omega) e)
    refine ⟨fun k h1 h2 => ?_, fun r hr1 hr => ?_, iS⟩
    · by_cases e : k = lo + cnt
      · subst e
        rw [iB (reg (lo + cnt)) (by omega) (fun k' a b he => by have := hinj k' (lo + cnt) a (by omega) (by omega) (by omega) he; omega)]
        simp [upd]
      · rw [iA k h1 (by omega)]
        have h1' : k ≠ reg (lo + cnt) := by omega
        have h2' : k ≠ 0xFF := by omega
        simp [upd, h1', h2']
    · rw [iB r hr1 (fun k a b => hr k a (by omega))]
      have : r ≠ reg (lo + cnt) := fun e => hr (lo + cnt) (by omega) (by omega) e.symm
      simp [upd, this, hr1]

/-- **`janetc_fn_moveargs` is correct, for every number of arguments**: `n > 0xF0` stack arguments, `reg k` the register of
    argument k with — as the first-fit allocator gives — `reg k ≥ 0x100`, `reg k > k`, distinct registers, and (for `n > 0x100`) a
    spare register `park` that is no argument's slot and no argument's register.  After the emitted moves the register of every
    argument k ≥ 0xF0 holds what the VM put in stack slot k, every register below 0xF0 is unchanged, nothing else of the machine
    state changes.  (On the unfixed tree there were no moves: parameter 240 read stack slot 256.) -/
theorem moveArgs_run (lit : KConst → β) (F) (m : M β) (n : Nat) (reg : Nat → Nat) (park : Nat) (hn : 0xF0 < n)
    (hge : ∀ k, 0xF0 ≤ k → k < n → 0x100 ≤ reg k ∧ k < reg k)
    (hinj : ∀ j k, 0xF0 ≤ j → j < n → 0xF0 ≤ k → k < n → reg j = reg k → j = k)
    (hpark : 0x100 < n → n ≤ park ∧ ∀ k, 0xF0 ≤ k → k < n → reg k ≠ park) :
    (∀ k, 0xF0 ≤ k → k < n → (run lit F m (moveArgsCode n reg park)).regs (reg k) = m.regs k) ∧
    (∀ r, r < 0xF0 → (run lit F m (moveArgsCode n reg park)).regs r = m.regs r) ∧
    SameRest (run lit F m (moveArgsCode n reg park)) m := by
  unfold moveArgsCode
  by_cases hbig : n > 0x100
  · rw [if_pos hbig]
    obtain ⟨hp1, hp2⟩ := hpark hbig
    simp only [run_cons, run_append, run_nil]
    -- s1: argument 0xFF parked
    have e1 : exec lit F m (.movf 0xFF park) = { m with regs := upd m.regs park (m.regs 0xFF) } := rfl
    rw [e1]
    generalize hs1 : ({ m with regs := upd m.regs park (m.regs 0xFF) } : M β) = s1
    have s1r : ∀ r, r ≠ park → s1.regs r = m.regs r := by intro r hr; rw [← hs1]; simp [upd, hr]
    have s1p : s1.regs park = m.regs 0xFF := by rw [← hs1]; simp [upd]
    have s1S : SameRest s1 m := by rw [← hs1]; exact ⟨rfl, rfl, rfl, rfl⟩
    -- s2: arguments 0x100 .. n-1
    have hcnt : 0x100 + (n - 0x100) = n := by omega
    obtain ⟨hA, hB, hS⟩ := movesHigh_run lit F reg 0x100 (Nat.le_refl _) (n - 0x100) s1
      (fun k a b => (hge k (by omega) (by omega)).2)
      (fun j k a b c d e => hinj j k (by omega) (by omega) (by omega) (by omega) e)
    generalize hs2 : run lit F s1 (movesHigh reg 0x100 (n - 0x100)) = s2 at hA hB hS
    -- s3: arguments 0xF0 .. 0xFE
    obtain ⟨lA, lB, lS⟩ := movesLow_run lit F reg 0xF0 15 s2
      (fun k a b => (hge k a (by omega)).2)
      (fun j k a b c d e => hinj j k a (by omega) c (by omega) e)
    generalize hs3 : run lit F s2 (movesLow reg 0xF0 15) = s3 at lA lB lS
    have e4 : exec lit F (exec lit F s3 (.movn 0xFF park)) (.movf 0xFF (reg 0xFF)) =
        { s3 with regs := upd (upd s3.regs 0xFF (s3.regs park)) (reg 0xFF) (s3.regs park) } := by
      simp [exec, upd]
    rw [e4]
    have g255 := hge 0xFF (by omega) (by omega)
    -- the parked value survives both loops
    have s3p : s3.regs park = m.regs 0xFF := by
      rw [lB park (fun k a b => hp2 k a (by omega)), hB park (by omega) (fun k a b => hp2 k (by omega) (by omega)), s1p]
    refine ⟨fun k h1 h2 => ?_, fun r hr => ?_, ?_⟩
    · show upd (upd s3.regs 0xFF (s3.regs park)) (reg 0xFF) (s3.regs park) (reg k) = m.regs k
      by_cases e : k = 0xFF
      · subst e; simp [upd, s3p]
      · have n1 : reg k ≠ reg 0xFF := fun he => e (hinj k 0xFF h1 h2 (by omega) (by omega) he)
        have n2 : reg k ≠ 0xFF := by have := (hge k h1 h2).1; omega
        simp only [upd, n1, n2, if_false]
        by_cases hk : k < 0xFF
        · rw [lA k h1 (by omega)]
          have hk2 : k ≠ 0xFF := e
          rw [hB k hk2 (fun k' a b => by have := (hge k' (by omega) (by omega)).1; omega)]
          exact s1r k (by omega)
        · rw [lB (reg k) (fun k' a b he => by have := hinj k' k a (by omega) h1 h2 he; omega)]
          rw [hA k (by omega) (by omega)]
          exact s1r k (by omega)
    · show upd (upd s3.regs 0xFF (s3.regs park)) (reg 0xFF) (s3.regs park) r = m.regs r
      have n1 : r ≠ reg 0xFF := by omega
      have n2 : r ≠ 0xFF := by omega
      simp only [upd, n1, n2, if_false]
      rw [lB r (fun k a b => by have := (hge k a (by omega)).1; omega),
        hB r n2 (fun k a b => by have := (hge k (by omega) (by omega)).1; omega)]
      exact s1r r (by omega)
    · exact SameRest.trans (b := s3) ⟨rfl, rfl, rfl, rfl⟩ (lS.trans (hS.trans s1S))
  · rw [if_neg hbig]
    have hcnt : 0xF0 + (n - 0xF0) = n := by omega
    obtain ⟨lA, lB, lS⟩ := movesLow_run lit F reg 0xF0 (n - 0xF0) m
      (fun k a b => (hge k a (by omega)).2)
      (fun j k a b c d e => hinj j k a (by omega) c (by omega) e)
    refine ⟨fun k h1 h2 => lA k h1 (by omega), fun r hr => lB r (fun k a b => by have := (hge k a (by omega)).1; omega), lS⟩

/-! ### what the allocator gives the parameters -/

/-- first fit skips the reserved temporaries: with the near registers 0 .. 0xEF and 0x100 .. j−1 taken, the next register is j -/
theorem firstFit_far (ra : RA) (j : Nat) (hj : 0x100 ≤ j) (h1 : ∀ r, r < j → ra.taken r = true) (h2 : ra.taken j = false)
    (fuel : Nat) (hf : j < fuel) : firstFit ra fuel 0 = j := by
  have gen : ∀ (fuel r0 : Nat), r0 ≤ j → j < r0 + fuel → firstFit ra fuel r0 = j := by
    intro fuel
    induction fuel with
    | zero => intro r0 h3 h4; omega
    | succ n ih =>
      intro r0 h3 h4
      by_cases e : r0 = j
      · subst e; simp [firstFit, h2]
      · have : ra.taken r0 = true := h1 r0 (by omega)
        simp only [firstFit, this, if_true]
        exact ih (r0 + 1) (by omega) (by omega)
  exact gen fuel 0 (by omega) (by omega)

/-- register of stack argument k on a fresh function scope: k below the temporaries, k + 16 from the 241st on -/
def argReg (k : Nat) : Nat := if k < 0xF0 then k else k + 16

/-- `janetc_allocfar` for parameter k (k ≥ 0xF0) on the allocator the parameter loop has built: register k + 16 -/
theorem alloc1_param_far (ra : RA) (k : Nat) (hk : 0xF0 ≤ k) (hk2 : k + 16 < searchFuel)
    (hal : ∀ r, ra.alloc r = decide (r < 0xF0 ∨ (0x100 ≤ r ∧ r < k + 16))) : ra.alloc1.1 = argReg k := by
  have h1 : ∀ r, r < k + 16 → ra.taken r = true := by
    intro r hr
    simp only [RA.taken, hal, Bool.or_eq_true, decide_eq_true_eq, Bool.and_eq_true]
    omega
  have h2 : ra.taken (k + 16) = false := by
    simp only [RA.taken, hal, Bool.or_eq_false_iff, decide_eq_false_iff_not, Bool.and_eq_false_imp, decide_eq_true_eq]
    omega
  have : argReg k = k + 16 := by simp [argReg]; omega
  rw [this]
  exact firstFit_far ra (k + 16) (by omega) h1 h2 searchFuel hk2

/-- the hypotheses of `moveArgs_run` hold for the registers the allocator gives (`argReg`) and the spare register n + 16 -/
theorem moveArgs_alloc (lit : KConst → β) (F) (m : M β) (n : Nat) (hn : 0xF0 < n) :
    (∀ k, k < n → (run lit F m (moveArgsCode n argReg (n + 16))).regs (argReg k) = m.regs k) ∧
    SameRest (run lit F m (moveArgsCode n argReg (n + 16))) m := by
  obtain ⟨hA, hB, hS⟩ := moveArgs_run lit F m n argReg (n + 16) hn
    (fun k a b => by simp only [argReg]; split <;> omega)
    (fun j k a b c d e => by simp only [argReg] at e; split at e <;> split at e <;> omega)
    (fun _ => ⟨by omega, fun k a b => by simp only [argReg]; split <;> omega⟩)
  refine ⟨fun k hk => ?_, hS⟩
  by_cases h : k < 0xF0
  · have : argReg k = k := by simp [argReg, h]
    rw [this]; exact hB k h
  · exact hA k (by omega) hk

/-! ### the compiler side: what `fnMoveArgs` appends -/

theorem emitMIs_buf (c : CState) (is : List MI) : (emitMIs c is).buf = c.buf ++ is.map CI.mi ∧ (emitMIs c is).scopes = c.scopes ∧
    (emitMIs c is).map.length = c.map.length + is.length := by
  unfold emitMIs
  induction is generalizing c with
  | nil => simp
  | cons i r ih =>
    obtain ⟨a, b, d⟩ := ih (emitRaw c (.mi i))
    simp only [List.foldl_cons]
    refine ⟨by rw [a]; simp [emitRaw], by rw [b]; rfl, by rw [d]; simp [emitRaw]; omega⟩

/-- at most 0xF0 parameters (the case of `compile_correct_fn_params`, `lim ≤ 240`): no entry moves, the state is unchanged -/
theorem fnMoveArgs_near (c : CState) (argregs : List Nat) (h : argregs.length ≤ 0xF0) : fnMoveArgs c argregs = some c := by
  simp [fnMoveArgs, h]

/-- more than 0xF0 parameters: the code appended is exactly `moveArgsCode` (the instructions `moveArgs_run` executes) -/
theorem fnMoveArgs_code (c c' : CState) (argregs : List Nat) (h : 0xF0 < argregs.length) (hc : fnMoveArgs c argregs = some c') :
    ∃ park, c'.buf = c.buf ++ (moveArgsCode argregs.length (fun k => argregs.getD k 0) park).map CI.mi := by
  unfold fnMoveArgs at hc
  simp only [show ¬ argregs.length ≤ 0xF0 by omega, if_false] at hc
  by_cases hb : argregs.length > 0x100
  · simp only [hb, if_true, Option.bind_eq_bind, Option.bind_eq_some_iff, Prod.exists] at hc
    obtain ⟨park, c1, ha, hc⟩ := hc
    refine ⟨park, ?_⟩
    have hb1 : c1.buf = c.buf := by
      cases hsc : c.scopes with
      | nil => simp [allocFar, hsc] at ha
      | cons sc rs =>
        simp only [allocFar, hsc] at ha
        split at ha
        · exact absurd ha (by simp)
        · simp only [Option.some.injEq, Prod.mk.injEq] at ha
          rw [← ha.2]
    split at hc
    · simp only [Option.some.injEq] at hc
      rw [← hc]
      show (emitMIs c1 _).buf = _
      rw [(emitMIs_buf c1 _).1, hb1]
    · exact absurd hc (by simp)
  · simp only [hb, if_false, Option.some.injEq] at hc
    refine ⟨0, ?_⟩
    rw [← hc, (emitMIs_buf c _).1]

end JanetModel.Compile
