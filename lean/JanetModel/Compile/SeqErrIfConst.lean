/- C02: error propagation, the `if` case (second part): the condition evaluates to a value, its slot is a constant (folding
   path) and the live branch raises. -/
import JanetModel.Compile.SeqErrIf
import JanetModel.Compile.SeqIfConst
namespace JanetModel.Compile
open JanetModel.Emit JanetModel.Lang JanetModel.Bytecode.Exec JanetModel.Gen.Bytecode

section
variable (p : Program) (f0 : Frame) (rest : List Frame) (V : Array Value) (P : List KConst)

theorem if_const_err (G : String → Prop) (b w : Bool) (fuel : Nat) (IH : CorrectAt p f0 rest V P G (TF G b) w fuel) (IHe : ErrAt p f0 rest V P G b fuel)
    (cnd tb fb : Expr) (hTc : TF G b cnd) (hTt : TF G b tb) (hTf : TF G b fb)
    (opts : Fopts) (ht : opts.tail = false) (hh : opts.hint = none)
    (c c' : CState) (slot : JSlot) (sc : Scope) (rs : List Scope) (pool : List KConst) (ps : List (List KConst))
    (n2 : Nat) (pos : Pos) (env cenv : Env) (s s1 s' : SS) (cv ev : Value) (epos : Pos)
    (hs : c.scopes = sc :: rs) (hp : c.pools = pool :: ps) (hl : c.lim ≤ 240) (hm : c.map.length = c.buf.length) (hcur : c.cur = pos)
    (target : JSlot) (c1 c3 : CState) (cond : JSlot) (k : KConst)
    (hT : (if opts.drop then some (cslot .nil, c) else getTarget c opts) = some (target, c1))
    (hcond : cValue fuel {} cnd (pushScope c1 false false false false) = some (cond, c3))
    (hj : cIfConst (cValue fuel) opts target tb fb k c3 = some (slot, c'))
    (hsc : eval n2 pos env cnd s = .ok (cv, cenv) s1)
    (hct : truthy cv = constTruthy k)
    (hsb : eval n2 pos cenv (if truthy cv then tb else fb) s1 = .err ev epos s')
    (hE : EnvS G c.scopes env s.boxes.size sc.ra) :
    ErrOK p f0 rest V P c c' rs ps env s s' ev epos := by
  -- the target
  obtain ⟨raT, hc1, monoT, maxT, htgtT, htgtF⟩ : ∃ raT, c1 = { c with scopes := { sc with ra := raT } :: rs } ∧
      (∀ j, sc.ra.alloc j = true → raT.alloc j = true) ∧ sc.ra.max ≤ raT.max ∧
      (opts.drop = true → target = cslot .nil) ∧
      (opts.drop = false → ∃ d, target = { k := .loc d } ∧ sc.ra.alloc d = false ∧ raT.alloc d = true ∧ d ≤ raT.max ∧ d < 240) := by
    cases hd : opts.drop with
    | true =>
      rw [hd] at hT
      simp only [if_true, Option.some.injEq, Prod.mk.injEq] at hT
      refine ⟨sc.ra, ?_, fun _ h => h, Nat.le_refl _, fun _ => hT.1.symm, fun h => absurd h (by simp)⟩
      rw [← hT.2]; exact cstate_scopes_eta c sc rs hs
    | false =>
      rw [hd] at hT
      simp only [Bool.false_eq_true, if_false] at hT
      rw [getTarget_hint_none c opts hh] at hT
      obtain ⟨d, raT, e1, b1, b2, b3, b4, b5, e2⟩ := getTarget_spec c c1 target sc rs hs hl hT
      refine ⟨raT, e2, ?_, b4, fun h => absurd h (by simp), fun _ => ⟨d, e1, b1, ?_, b2, by omega⟩⟩
      · intro j hj; rw [b5 j]; split
        · rfl
        · exact hj
      · rw [b5 d]; simp
  -- the condition, in its block scope
  have hs1 : c1.scopes = { sc with ra := raT } :: rs := by rw [hc1]
  have hp1 : c1.pools = pool :: ps := by rw [hc1]; exact hp
  have hl1 : c1.lim ≤ 240 := by rw [hc1]; exact hl
  have hm1 : c1.map.length = c1.buf.length := by rw [hc1]; exact hm
  rw [pushScope_blk c1 { sc with ra := raT } rs false hs1] at hcond
  have hlk1 : ∀ y, lk (blk c1 { sc with ra := raT } false :: { sc with ra := raT } :: rs) y = lk c.scopes y := by
    intro y; rw [hs]; exact (lk_push _ _ rfl rfl rfl y).trans (lk_ra sc rs raT y)
  have hE1 : EnvS G ({ c1 with scopes := blk c1 { sc with ra := raT } false :: { sc with ra := raT } :: rs } : CState).scopes env s.boxes.size
      (blk c1 { sc with ra := raT } false).ra :=
    hE.of_lk hlk1 (Nat.le_refl _) (fun _ _ _ _ r _ _ h => monoT r h)
  obtain ⟨ra3, ns3, more3, seg3, segm3, hc3, pv3, mono3, max3, sok3, bx3, es3, nf3, vm3⟩ :=
    IH cnd {} { c1 with scopes := blk c1 { sc with ra := raT } false :: { sc with ra := raT } :: rs } c3 cond (blk c1 { sc with ra := raT } false)
      ({ sc with ra := raT } :: rs) pool ps n2 pos env cenv s s1 cv rfl rfl rfl hp1 hl1 rfl (fun _ => hm1) hTc hcond hsc hE1
  have hm3 : c3.map.length = c3.buf.length :=
    (tf_shapeM_at G fuel b cnd {} { c1 with scopes := blk c1 { sc with ra := raT } false :: { sc with ra := raT } :: rs } c3 cond
      (blk c1 { sc with ra := raT } false) ({ sc with ra := raT } :: rs) pool ps rfl rfl rfl hp1 rfl hm1 hTc hE1.lkl hcond).1.mapLen hm1
  have hs3 : c3.scopes = upd (blk c1 { sc with ra := raT } false) ra3 ns3 :: { sc with ra := raT } :: rs := by rw [hc3]
  have hp3 : c3.pools = (pool ++ more3) :: ps := by rw [hc3]
  have mono3' : ∀ r, raT.alloc r = true → ra3.alloc r = true := mono3
  have hl3 : c3.lim ≤ 240 := by rw [hc3]; exact hl1
  -- the steps of the folding path
  obtain ⟨right, c5, c6, c7, c8, e1, e2, e3, e4, e5, eslot⟩ := cIfConst_inv _ _ _ _ _ _ _ _ _ hj
  obtain ⟨live, hlive⟩ : ∃ x, x = (if constTruthy k then tb else fb) := ⟨_, rfl⟩
  obtain ⟨dead, hdead⟩ : ∃ x, x = (if constTruthy k then fb else tb) := ⟨_, rfl⟩
  rw [← hlive] at e1
  rw [← hdead] at e4
  have hTl : TF G b live := by rw [hlive]; split <;> assumption
  have hTd : TF G b dead := by rw [hdead]; split <;> assumption
  have hsb' : eval n2 pos cenv live s1 = .err ev epos s' := by
    rw [hct] at hsb; rw [hlive]; exact hsb
  have hL3 : LkL G c3.scopes := es3.lkl
  -- the live branch
  obtain ⟨ra7, ns7, more7, seg7, segm7, hc7, pv7, hl7, inv7, mono7, max7⟩ :=
    branch_shape2 G fuel b live hTl opts ht hh target c3 c5 c6 c7 right _ ({ sc with ra := raT } :: rs) (pool ++ more3) ps hs3 hp3 hm3 hL3 e1 e2 e3
  have max7' : ra3.max ≤ ra7.max := max7
  have hs7 : c7.scopes = upd (upd (blk c1 { sc with ra := raT } false) ra3 ns3) ra7 ns7 :: { sc with ra := raT } :: rs := by rw [hc7]
  have hp7 : c7.pools = (pool ++ more3 ++ more7) :: ps := by rw [hc7]
  have hm7 : c7.map.length = c7.buf.length := by rw [hc7]; simp [hm3, hl7]
  have hlk7 : ∀ y, lk c7.scopes y = lk c3.scopes y := by
    intro y; rw [hs7, hs3]; exact lk_upd _ _ _ _ inv7 y
  have hL7 : LkL G c7.scopes := es3.lkl.of_lk hlk7
  -- the dead branch
  obtain ⟨more8, hc8, pv8⟩ : ∃ more8, c8 = { c7 with pools := (pool ++ more3 ++ more7 ++ more8) :: ps, vals := c8.vals } ∧ PrefA c7.vals c8.vals := by
    split at e4
    · refine ⟨[], ?_, ?_⟩
      · rw [← Option.some.inj e4, List.append_nil, ← hp7]
      · rw [← Option.some.inj e4]; exact PrefA.refl _
    · refine throwaway_eq G _ opts dead c7 c8 _ ({ sc with ra := raT } :: rs) (pool ++ more3 ++ more7) ps hs7 hm7 (fun c2 sl h => ?_) e4
      have hLT : LkL G (blk c7 (upd (upd (blk c1 { sc with ra := raT } false) ra3 ns3) ra7 ns7) true ::
          upd (upd (blk c1 { sc with ra := raT } false) ra3 ns3) ra7 ns7 :: { sc with ra := raT } :: rs) := by
        rw [hs7] at hL7; exact hL7.push _ rfl rfl
      exact (tf_shapeM_at G fuel b dead opts
        { c7 with scopes := (blk c7 (upd (upd (blk c1 { sc with ra := raT } false) ra3 ns3) ra7 ns7) true ::
          upd (upd (blk c1 { sc with ra := raT } false) ra3 ns3) ra7 ns7 :: { sc with ra := raT } :: rs) } c2 sl _ _
        (pool ++ more3 ++ more7) ps ht hh rfl hp7 rfl hm7 hTd hLT h).1
  have hs8 : c8.scopes = upd (upd (blk c1 { sc with ra := raT } false) ra3 ns3) ra7 ns7 :: { sc with ra := raT } :: rs := by rw [hc8]; exact hs7
  -- the final pop
  obtain ⟨raX, hpop, hmaxX, hmonoX⟩ := popScope_block c8 _ { sc with ra := raT } rs hs8 rfl rfl rfl
  rw [hpop] at e5
  have hc' := (Option.some.inj e5).symm
  have hmaxX' : raX.max = (if raT.max < ra7.max then ra7.max else raT.max) := hmaxX
  have hmonoX' : ∀ j, raT.alloc j = true → raX.alloc j = true := hmonoX
  have hb3 : c3.buf = c.buf ++ seg3 := by rw [hc3]; show c1.buf ++ seg3 = _; rw [hc1]
  have hb7 : c7.buf = c3.buf ++ seg7 := by rw [hc7]
  -- names and the target register
  have hlk' : ∀ x, lk c'.scopes x = lk c.scopes x := by
    intro x
    rw [hc', hs]
    have hinv : ∀ q, q ∈ (upd (upd (blk c1 { sc with ra := raT } false) ra3 ns3) ra7 ns7).syms.map
        (fun q : SymPair => { q with visible := false }) → q.visible = false := by
      intro q hq
      simp only [List.mem_map] at hq
      obtain ⟨q0, _, rfl⟩ := hq
      rfl
    exact (lk_append_invisible { ({ sc with ra := raT } : Scope) with ra := raX } rs _ hinv x).trans (lk_ra sc rs raX x)
  have hnn0 : ∀ d, sc.ra.alloc d = false → NoName c.scopes d := by
    intro d hd x sl u l hx hk
    obtain ⟨_, _, _, r, _, hk', _, _, hal, _⟩ := hE.found hx
    rw [hk'] at hk
    injection hk with e
    rw [e, hd] at hal
    exact Bool.noConfusion hal
  have htgt3 : opts.drop = false → ∃ d, target = { k := .loc d } ∧ d < 240 ∧
      (upd (blk c1 { sc with ra := raT } false) ra3 ns3).ra.alloc d = true ∧ NoName c3.scopes d := by
    intro hd
    obtain ⟨d, e, hfree, hal, _, hd240⟩ := htgtF hd
    exact ⟨d, e, hd240, mono3' d hal, nf3.1 d hal ((hnn0 d hfree).of_lk hlk1)⟩
  have hcur3 : c3.cur = pos := by rw [hc3]; show c1.cur = _; rw [hc1]; exact hcur
  have EB := branch_err p f0 rest V P G b fuel IHe live hTl opts ht hh target c3 c5 c6 c7 right _
    ({ sc with ra := raT } :: rs) (pool ++ more3) ps n2 pos cenv s1 s' ev epos hs3 hp3 hl3 hm3 hcur3 e1 e2 e3 hsb' es3
  have hmp3 : c3.map = c.map ++ segm3 := by rw [hc3]; show c1.map ++ segm3 = _; rw [hc1]
  have hmp7 : c7.map = c3.map ++ segm7 := by rw [hc7]
  have hl3' : segm3.length = seg3.length := by
    have := hm3
    rw [hmp3, hb3] at this
    simp only [List.length_append] at this
    omega
  obtain ⟨kept, hkept⟩ : ∃ kept : List SymPair, kept =
      (upd (upd (blk c1 { sc with ra := raT } false) ra3 ns3) ra7 ns7).syms.map (fun q => { q with visible := false }) := ⟨_, rfl⟩
  intro sc' pool' seg segm a1 a2 a3 a4 k0 hkw hka hD hcode hmap hpre hV hsz
  have x1 : c'.scopes = { ({ sc with ra := raT } : Scope) with ra := raX, syms := ({ sc with ra := raT } : Scope).syms ++ kept } :: rs := by
    rw [hc', hkept]
  have x2 : c'.pools = (pool ++ more3 ++ more7 ++ more8) :: ps := by
    rw [hc']; show c8.pools = _; rw [hc8]
  have x3 : c'.buf = c.buf ++ (seg3 ++ seg7) := by
    rw [hc']; show c8.buf = _; rw [hc8]; show c7.buf = _; rw [hb7, hb3]; simp
  have x4 : c'.map = c.map ++ (segm3 ++ segm7) := by
    rw [hc']; show c8.map = _; rw [hc8]; show c7.map = _; rw [hmp7, hmp3]; simp
  have hv' : c'.vals = c8.vals := by rw [hc']
  rw [x1] at a1
  rw [x2] at a2
  rw [x3] at a3
  rw [x4] at a4
  have y1 := (List.cons.inj a1).1
  have y2 := (List.cons.inj a2).1
  have y3 := List.append_cancel_left a3
  have y4 := List.append_cancel_left a4
  subst y1 y2 y3 y4
  rw [hv'] at hV
  have hsz' : raX.max < k0.regs.size := hsz
  have hsz7 : ra7.max < k0.regs.size := by
    rw [hmaxX'] at hsz'; split at hsz' <;> omega
  have hV7 : PrefA c7.vals V := PrefA.trans pv8 hV
  obtain ⟨regs3, rch3, sz3, pr3, sv3, ed3⟩ := vm3 k0 hkw hka (hD.of_lk hlk1) hcode.left
    (PrefL.trans ⟨more7 ++ more8, by simp [List.append_assoc]⟩ hpre) (PrefA.trans pv7 hV7) (by show ra3.max < _; omega)
  have hmapR := hmap.right
  rw [hl3'] at hmapR
  obtain ⟨regs', A, pc', rchF, szF, hst⟩ := EB _ _ seg7 segm7 hs7 hp7 hb7 hmp7
    { regs := regs3, pc := k0.pc + seg3.length, args := #[], w := s1.st.world } rfl rfl ed3 hcode.right hmapR
    (PrefL.trans ⟨more8, by simp [List.append_assoc]⟩ hpre) hV7 (by show ra7.max < regs3.size; omega)
  exact ⟨regs', A, pc', Reach.trans rch3 rchF, by rw [szF]; exact sz3, hst⟩

end

end JanetModel.Compile
