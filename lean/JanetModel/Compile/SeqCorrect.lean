/- C02: compile correctness of the compiler model for the STATEMENT fragment
     e ::= literal | symbol | (f e) | (do e ...) | (upscope e ...) | (def x e)        f a global core function other than `apply`
   (`G` = the names used as global functions; they are never defined).  Value used or dropped, near registers, block scopes.
   New with respect to Compile/Correct.lean: the environment changes (`def` binds: `Lang/Sem` box ↔ register, a fresh register
   and a copy or an alias of a named immutable local, exactly as `namelocal` decides), scopes are pushed and popped
   (`janetc_scope` clones the allocator, `janetc_popscope_keepslot` merges `max`, hides the names and keeps the result register),
   dropped statements are freed, and the invariant tying registers to boxes is split into a compile-time part `EnvS` and a
   run-time part `EnvD` so that statements compose. -/
import JanetModel.Compile.SeqSpec
namespace JanetModel.Compile
open JanetModel.Emit JanetModel.Lang JanetModel.Bytecode.Exec JanetModel.Gen.Bytecode

/-- the statement fragment -/
inductive TS (G : String → Prop) : Expr → Prop
  | lit (v : Value) : SimpleLit v → TS G (.lit v)
  | sym (x : String) : TS G (.sym x)
  | call1 (f : String) (a : Expr) (p : Pos) : specials.contains f = false → f ≠ "apply" → G f → TS G a → TS G (.form [.sym f, a] p)
  | doo (body : List Expr) (p : Pos) : (∀ e, e ∈ body → TS G e) → TS G (.form (.sym "do" :: body) p)
  | deff (x : String) (v : Expr) (p : Pos) : ¬ G x → TS G v → TS G (.form [.sym "def", .sym x, v] p)
  | ups (body : List Expr) (p : Pos) : (∀ e, e ∈ body → TS G e) → TS G (.form (.sym "upscope" :: body) p)

theorem TS.notSplice {G : String → Prop} {e : Expr} (h : TS G e) : isSplice e = none := by
  cases h with
  | lit v hv => rfl
  | sym x => rfl
  | call1 f a p h1 h2 h3 h4 =>
    simp only [isSplice]
    split
    · rename_i x _ heq
      simp only [Expr.form.injEq, List.cons.injEq, Expr.sym.injEq] at heq
      obtain ⟨⟨hf, _⟩, _⟩ := heq
      subst hf
      simp [specials] at h1
    · rfl
  | doo body p _ =>
    simp only [isSplice]
    split
    · rename_i x _ heq
      simp at heq
    · rfl
  | deff x v p _ _ =>
    simp only [isSplice]
    split
    · rename_i x _ heq
      simp at heq
    · rfl
  | ups body p _ =>
    simp only [isSplice]
    split
    · rename_i x _ heq
      simp at heq
    · rfl

/-- a call form (its compiled slot is a fresh register, never a constant: `janetc_if` takes the jump path, not the
    constant-condition folding) -/
def IsCall (e : Expr) : Prop := ∃ f args q, e = .form (.sym f :: args) q ∧ specials.contains f = false

/-- conditions the `if` case covers: a literal or a symbol (a global one compiles to a constant: `janetc_if` folds the `if`; a local
    one to its register: jump path), a call, a nested `if` (fresh register: jump path).  Not covered: `do` / `upscope` / `def` forms as
    conditions (their slot can be a constant whose value is known only through the run) -/
def CondOK (e : Expr) : Prop :=
  (∃ w, e = .lit w) ∨ (∃ x, e = .sym x) ∨ IsCall e ∨ (∃ a t r q, e = .form (.sym "if" :: a :: t :: r) q)

/-- the core fragment (session 4, second part): calls of global core functions with any number of arguments, and — when the
    switch `b` is on — `if` -/
inductive TF (G : String → Prop) (b : Bool) : Expr → Prop
  | lit (v : Value) : SimpleLit v → TF G b (.lit v)
  | sym (x : String) : TF G b (.sym x)
  | call (f : String) (args : List Expr) (p : Pos) : specials.contains f = false → f ≠ "apply" → G f → (∀ a, a ∈ args → TF G b a) →
      TF G b (.form (.sym f :: args) p)
  | doo (body : List Expr) (p : Pos) : (∀ e, e ∈ body → TF G b e) → TF G b (.form (.sym "do" :: body) p)
  | deff (x : String) (v : Expr) (p : Pos) : ¬ G x → TF G b v → TF G b (.form [.sym "def", .sym x, v] p)
  | ups (body : List Expr) (p : Pos) : (∀ e, e ∈ body → TF G b e) → TF G b (.form (.sym "upscope" :: body) p)
  | iff (cnd tb : Expr) (rest : List Expr) (p : Pos) : b = true → CondOK cnd → rest.length ≤ 1 → TF G b cnd → TF G b tb → (∀ e, e ∈ rest → TF G b e) →
      TF G b (.form (.sym "if" :: cnd :: tb :: rest) p)

theorem TF.notSplice {G : String → Prop} {b : Bool} {e : Expr} (h : TF G b e) : isSplice e = none := by
  cases h with
  | lit v hv => rfl
  | sym x => rfl
  | call f args p h1 h2 h3 h4 =>
    simp only [isSplice]
    split
    · rename_i x _ heq
      simp only [Expr.form.injEq, List.cons.injEq, Expr.sym.injEq] at heq
      obtain ⟨⟨hf, _⟩, _⟩ := heq
      subst hf
      simp [specials] at h1
    · rfl
  | doo body p _ =>
    simp only [isSplice]
    split
    · rename_i x _ heq
      simp at heq
    · rfl
  | deff x v p _ _ =>
    simp only [isSplice]
    split
    · rename_i x _ heq
      simp at heq
    · rfl
  | ups body p _ =>
    simp only [isSplice]
    split
    · rename_i x _ heq
      simp at heq
    · rfl
  | iff cnd tb rest p _ _ _ _ _ _ =>
    simp only [isSplice]
    split
    · rename_i x _ heq
      simp at heq
    · rfl

/-- compile-time part of the invariant: a name is either unknown to both sides, or a named near local whose register is
    allocated and whose box exists; names used as global functions are unknown -/
def EnvS (G : String → Prop) (scs : List Scope) (env : Env) (nb : Nat) (ra : RA) : Prop :=
  (∀ f, G f → lk scs f = none) ∧
  ∀ x, (lk scs x = none ∧ lookupEnv env x = none) ∨
    (∃ slot r a u, lk scs x = some (slot, u, true) ∧ slot.k = .loc r ∧ slot.named = true ∧ slot.cflag = false ∧
      lookupEnv env x = some a ∧ a < nb ∧ ra.alloc r = true ∧ r < 240)

/-- run-time part: the register of a name holds the content of its box -/
def EnvD (scs : List Scope) (env : Env) (s : SS) (regs : Array Value) : Prop :=
  ∀ x slot u l r a, lk scs x = some (slot, u, l) → slot.k = .loc r → lookupEnv env x = some a → regs.getD r .nil = readBox s a

/-- no resolvable name lives in register `d` -/
def NoName (scs : List Scope) (d : Nat) : Prop := ∀ x slot u l, lk scs x = some (slot, u, l) → slot.k ≠ .loc d

theorem NoName.of_lk {scs scs' : List Scope} {d : Nat} (h : NoName scs d) (hlk : ∀ x, lk scs' x = lk scs x) : NoName scs' d := by
  intro x slot u l hx; rw [hlk] at hx; exact h x slot u l hx

/-- names and registers across a compiled form: a register that was allocated at entry and carried no name carries none at exit;
    a named result slot whose register was allocated at entry had a visible name at entry -/
def NameFrame (sc : Scope) (scs scs' : List Scope) (slot : JSlot) : Prop :=
  (∀ d, sc.ra.alloc d = true → NoName scs d → NoName scs' d) ∧
  (∀ r, slot.named = true → slot.k = .loc r → sc.ra.alloc r = true → ¬ NoName scs r)

theorem NameFrame.of_lk {sc : Scope} {scs scs' : List Scope} {slot : JSlot} (hlk : ∀ x, lk scs' x = lk scs x) (hn : slot.named = false) :
    NameFrame sc scs scs' slot :=
  ⟨fun _ _ h => h.of_lk hlk, fun _ h => by rw [hn] at h; exact absurd h (by simp)⟩

/-- what is known about the slot a form compiles to: a constant; a named local (allocated at exit); or an unnamed register
    that was free at entry, is allocated at exit and carries no name -/
def SlotOK2 (sc : Scope) (ra' : RA) (scs' : List Scope) (vals : Array Value) (slot : JSlot) : Prop :=
  (slot.cflag = true ∧ ∃ kc, slot.k = .const kc ∧ KWf vals kc) ∨
  (slot.cflag = false ∧ slot.named = true ∧ ∃ r, slot.k = .loc r ∧ ra'.alloc r = true ∧ r < 240) ∨
  (slot.cflag = false ∧ slot.named = false ∧ ∃ d, slot.k = .loc d ∧ sc.ra.alloc d = false ∧ ra'.alloc d = true ∧ d < 240 ∧ NoName scs' d)

theorem SlotOK2.sk {sc : Scope} {ra' : RA} {scs' : List Scope} {vals : Array Value} {slot : JSlot} (h : SlotOK2 sc ra' scs' vals slot) : SK slot := by
  rcases h with ⟨_, kc, hk, _⟩ | ⟨_, _, r, hk, _, hr⟩ | ⟨_, _, d, hk, _, _, hd, _⟩
  · exact Or.inl ⟨kc, hk⟩
  · exact Or.inr ⟨r, hk, hr⟩
  · exact Or.inr ⟨d, hk, hd⟩

theorem EnvS.found {G : String → Prop} {scs : List Scope} {env : Env} {nb : Nat} {ra : RA} (h : EnvS G scs env nb ra)
    {x : String} {slot : JSlot} {u l : Bool} (hl : lk scs x = some (slot, u, l)) :
    l = true ∧ slot.named = true ∧ slot.cflag = false ∧ ∃ r a, slot.k = .loc r ∧ lookupEnv env x = some a ∧ a < nb ∧ ra.alloc r = true ∧ r < 240 := by
  rcases h.2 x with ⟨h1, _⟩ | ⟨slot', r, a, u', h1, hk, hn, hc, he, ha, hal, hr⟩
  · rw [h1] at hl; exact absurd hl (by simp)
  · rw [h1] at hl
    simp only [Option.some.injEq, Prod.mk.injEq] at hl
    obtain ⟨e1, _, e3⟩ := hl
    subst e1 e3
    exact ⟨rfl, hn, hc, r, a, hk, he, ha, hal, hr⟩

theorem EnvS.of_lk {G : String → Prop} {scs scs' : List Scope} {env : Env} {nb nb' : Nat} {ra ra' : RA} (h : EnvS G scs env nb ra)
    (hlk : ∀ x, lk scs' x = lk scs x) (hnb : nb ≤ nb')
    (hra : ∀ x slot u l r, lk scs x = some (slot, u, l) → slot.k = .loc r → ra.alloc r = true → ra'.alloc r = true) : EnvS G scs' env nb' ra' := by
  refine ⟨fun f hf => by rw [hlk]; exact h.1 f hf, fun x => ?_⟩
  rcases h.2 x with ⟨h1, h2⟩ | ⟨slot, r, a, u, h1, hk, hn, hc, he, ha, hal, hr⟩
  · exact Or.inl ⟨by rw [hlk]; exact h1, h2⟩
  · exact Or.inr ⟨slot, r, a, u, by rw [hlk]; exact h1, hk, hn, hc, he, by omega, hra x slot u true r h1 hk hal, hr⟩

theorem EnvD.of_lk {scs scs' : List Scope} {env : Env} {s : SS} {regs : Array Value} (h : EnvD scs env s regs)
    (hlk : ∀ x, lk scs' x = lk scs x) : EnvD scs' env s regs := by
  intro x slot u l r a h1 h2 h3
  rw [hlk] at h1
  exact h x slot u l r a h1 h2 h3

theorem applyFn_cfun_boxes (n : Nat) (pos : Pos) (f : String) (hna : f ≠ "apply") (vs : List Value) (s s' : SS) (v : Value)
    (h : applyFn (n + 1) pos (.cfun f) vs s = .ok v s') : s'.boxes = s.boxes := by
  rw [applyFn_cfun n pos f hna] at h
  cases hc : callPrimW f vs s.st.world with
  | ok a =>
    obtain ⟨v', w'⟩ := a
    rw [hc] at h
    simp only [R.ok.injEq] at h
    rw [← h.2]
  | rt => rw [hc] at h; exact absurd h (by simp)
  | user e => rw [hc] at h; exact absurd h (by simp)
  | unsup why => rw [hc] at h; exact absurd h (by simp)

theorem readBox_pref {s s' : SS} (h : PrefA s.boxes s'.boxes) (a : Nat) (ha : a < s.boxes.size) : readBox s' a = readBox s a := h.2 a ha

section
variable (p : Program) (f0 : Frame) (rest : List Frame) (V : Array Value) (P : List KConst)

/-- the statement of compile correctness for one form of the statement fragment -/
def Correct2 (G : String → Prop) (dr : Bool) (c c' : CState) (slot : JSlot) (sc : Scope) (rs : List Scope) (pool : List KConst)
    (ps : List (List KConst)) (env env' : Env) (s s' : SS) (v : Value) : Prop :=
  ∃ (ra' : RA) (nsyms : List SymPair) (more : List KConst) (seg : List CI) (segm : List Pos),
    c' = { c with scopes := { sc with ra := ra', syms := sc.syms ++ nsyms } :: rs, pools := (pool ++ more) :: ps, buf := c.buf ++ seg,
                  map := c.map ++ segm, vals := c'.vals } ∧
    PrefA c.vals c'.vals ∧ (∀ r, sc.ra.alloc r = true → ra'.alloc r = true) ∧ sc.ra.max ≤ ra'.max ∧
    SlotOK2 sc ra' c'.scopes c'.vals slot ∧ PrefA s.boxes s'.boxes ∧ EnvS G c'.scopes env' s'.boxes.size ra' ∧
    NameFrame sc c.scopes c'.scopes slot ∧
    ∀ (k : Cfg), k.w = s.st.world → k.args = #[] → EnvD c.scopes env s k.regs →
      CodeAt (p.defs.getD f0.defIdx default).code k.pc seg → PrefL (pool ++ more) P → PrefA c'.vals V → ra'.max < k.regs.size →
      ∃ regs', Reach p (inj f0 rest k) (inj f0 rest { regs := regs', pc := k.pc + seg.length, args := #[], w := s'.st.world }) ∧
        regs'.size = k.regs.size ∧ (∀ r, sc.ra.alloc r = true → regs'.getD r .nil = k.regs.getD r .nil) ∧
        (dr = false → slotVal V regs' slot = v) ∧ EnvD c'.scopes env' s' regs'

/-- the mapping cursor does not matter -/
theorem Correct2.recur {G : String → Prop} {c c1 : CState} {q : Pos} {slot : JSlot} {sc : Scope} {rs : List Scope} {pool : List KConst}
    {ps : List (List KConst)} {env env' : Env} {s s' : SS} {v : Value}
    {dr : Bool} (h : Correct2 p f0 rest V P G dr { c with cur := q } c1 slot sc rs pool ps env env' s s' v) :
    Correct2 p f0 rest V P G dr c { c1 with cur := c.cur } slot sc rs pool ps env env' s s' v := by
  obtain ⟨ra', nsyms, more, seg, segm, hc, h2⟩ := h
  refine ⟨ra', nsyms, more, seg, segm, ?_, h2⟩
  conv => lhs; rw [hc]

/-- a form whose value is known is in particular correct when its value is dropped -/
theorem Correct2.weaken {G : String → Prop} {c c1 : CState} {slot : JSlot} {sc : Scope} {rs : List Scope} {pool : List KConst}
    {ps : List (List KConst)} {env env' : Env} {s s' : SS} {v : Value} (dr : Bool)
    (h : Correct2 p f0 rest V P G false c c1 slot sc rs pool ps env env' s s' v) :
    Correct2 p f0 rest V P G dr c c1 slot sc rs pool ps env env' s s' v := by
  obtain ⟨ra', nsyms, more, seg, segm, hc, a1, a2, a3, a4, a5, a6, a7, vm⟩ := h
  refine ⟨ra', nsyms, more, seg, segm, hc, a1, a2, a3, a4, a5, a6, a7, ?_⟩
  intro k h1 h2 h3 h4 h5 h6 h7
  obtain ⟨regs', b1, b2, b3, b4, b5⟩ := vm k h1 h2 h3 h4 h5 h6 h7
  exact ⟨regs', b1, b2, b3, fun _ => b4 rfl, b5⟩

theorem cfg_eta (k : Cfg) (w : World) (hkw : k.w = w) (hka : k.args = #[]) :
    ({ regs := k.regs, pc := k.pc + ([] : List CI).length, args := #[], w := w } : Cfg) = k := by
  obtain ⟨regs, pc, args, w0⟩ := k
  change w0 = w at hkw
  change args = #[] at hka
  subst hkw hka
  rfl

/-- a form that compiles to a constant -/
theorem atom_const2 (FF : FloatFacts) (G : String → Prop) (c : CState) (w : Value) (hw : SimpleLit w) (sc : Scope) (rs : List Scope)
    (pool : List KConst) (ps : List (List KConst)) (hs : c.scopes = sc :: rs) (hp : c.pools = pool :: ps) (env : Env) (s : SS)
    (hE : EnvS G c.scopes env s.boxes.size sc.ra) :
    Correct2 p f0 rest V P G false c { (constSlot c w).2 with cur := c.cur } (constSlot c w).1 sc rs pool ps env env s s w := by
  obtain ⟨h1, h2, h3, h4⟩ := kOf_spec FF c w hw
  have hsc : ({ (constSlot c w).2 with cur := c.cur } : CState).scopes = c.scopes := by
    show (kOf c w).2.scopes = _
    rw [h1]
  refine ⟨sc.ra, [], [], [], [], ?_, h2, fun _ h => h, Nat.le_refl _, Or.inl ⟨rfl, (kOf c w).1, rfl, h3⟩, PrefA.refl _, ?_, ?_, ?_⟩
  · show ({ (kOf c w).2 with cur := c.cur } : CState) = _
    rw [h1]
    simp [hs, hp]
    rfl
  · rw [hsc]; exact hE
  · exact NameFrame.of_lk (fun x => by rw [hsc]) rfl
  · intro k hkw hka hD _ _ hV _
    refine ⟨k.regs, ?_, rfl, fun _ _ => rfl, fun _ => ?_, ?_⟩
    · rw [cfg_eta k _ hkw hka]; exact Reach.refl _ _
    · show litOf V (kOf c w).1 = w
      rw [litOf_pref hV _ h3]; exact h4
    · rw [hsc]; exact hD

/-- a named local -/
theorem atom_local2 (G : String → Prop) (c : CState) (x : String) (sl : JSlot) (u : Bool) (sc : Scope) (rs : List Scope)
    (pool : List KConst) (ps : List (List KConst)) (hs : c.scopes = sc :: rs) (hp : c.pools = pool :: ps) (env : Env) (s : SS) (a : Nat)
    (hE : EnvS G c.scopes env s.boxes.size sc.ra) (hl : lk c.scopes x = some (sl, u, true)) (he : lookupEnv env x = some a) :
    Correct2 p f0 rest V P G false c c sl sc rs pool ps env env s s (readBox s a) := by
  obtain ⟨_, hn, hc, r, a', hk, he', _, hal, hr⟩ := hE.found hl
  have haa : a' = a := by rw [he] at he'; exact (Option.some.inj he').symm
  subst haa
  refine ⟨sc.ra, [], [], [], [], ?_, PrefA.refl _, fun _ h => h, Nat.le_refl _, Or.inr (Or.inl ⟨hc, hn, r, hk, hal, hr⟩), PrefA.refl _, hE,
    ⟨fun _ _ h => h, fun r' _ hk' _ hno => hno x sl u true hl hk'⟩, ?_⟩
  · simp [hs, hp]
    cases c; simp_all
  · intro k hkw hka hD _ _ _ _
    refine ⟨k.regs, ?_, rfl, fun _ _ => rfl, fun _ => ?_, hD⟩
    · rw [cfg_eta k _ hkw hka]; exact Reach.refl _ _
    · simp only [slotVal, hk]; exact hD x sl u true r a' hl hk he

end

end JanetModel.Compile
