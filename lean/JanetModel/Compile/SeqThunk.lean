/- C02: a CLOSED statement for the funcdef of a parameterless function without captured variables, `(fn [] body...)` with body
   forms of `TF G b`: the hypotheses the compile-correctness theorems carry about the RUNNING funcdef (its constants are the
   final pool, its code holds the emitted segment, the register file has `slotcount` registers, the entry invariants `EnvS`,
   `EnvD`, `NR`, map length = code length) are what `janetc_fn` establishes — `janetc_scope` (function scope: fresh allocator,
   empty pool), the body loop (`fnBody_tail`), `janetc_pop_funcdef` (`popFuncdef_fields`: code = the buffer from the scope's
   start, constants = the scope's pool, slotcount = allocator max + 1). -/
import JanetModel.Compile.SeqFnBody
import JanetModel.Compile.SeqTailIf
namespace JanetModel.Compile
open JanetModel.Emit JanetModel.Lang JanetModel.Bytecode.Exec JanetModel.Gen.Bytecode

/-- whether a name is found does not depend on the flags carried along -/
theorem lookupR_none_flags (x : String) : ∀ (l : List Scope) (u lc u' lc' : Bool), lookupR x l u lc = none → lookupR x l u' lc' = none
  | [], _, _, _, _, _ => rfl
  | sc :: rest, u, lc, u', lc', h => by
    simp only [lookupR] at h ⊢
    cases hf : findSym sc.syms x with
    | some i => rw [hf] at h; exact absurd h (by simp)
    | none =>
      rw [hf] at h
      exact lookupR_none_flags x rest _ _ _ _ h

/-- `janetc_scope` for a function over scopes that bind nothing: nothing resolves (no upvalue capture) -/
theorem lk_fnscope_none (nw : Scope) (l : List Scope) (h1 : nw.syms = []) (hcl : ∀ x, lk l x = none) (x : String) : lk (nw :: l) x = none := by
  have hf : findSym nw.syms x = none := by rw [h1]; rfl
  simp only [lk, lookupR, hf]
  exact lookupR_none_flags x l _ _ _ _ (hcl x)

/-- `janetc_pop_funcdef`: the fields of the finished funcdef -/
theorem popFuncdef_fields (c5 : CState) (sc5 : Scope) (rs : List Scope) (arity minA maxA : Nat) (vararg : Bool)
    (hs : c5.scopes = sc5 :: rs) (hfn : sc5.fn = true) :
    ∃ c6, popFuncdef c5 arity minA maxA vararg =
      some (FDef.mk arity minA maxA (sc5.ra.max + 1) vararg false (c5.buf.drop sc5.start) (c5.map.drop sc5.start) (c5.pools.headD []) sc5.envs
        (if sc5.ua.isEmpty then none else some ((List.range (sc5.ra.max + 1)).map (fun i => sc5.ua.contains i && !(0xF0 ≤ i && i ≤ 0xFF))))
        (c5.fdefs.headD []), c6) := by
  unfold popFuncdef
  rw [hs]
  simp only [hfn, Bool.not_true, Bool.false_eq_true, if_false]
  cases rs with
  | nil => simp [popScope]
  | cons nw rest => simp [popScope, hfn]

section
variable (p : Program) (f0 : Frame) (rest : List Frame) (V : Array Value)

/-- the body of `(fn [] body...)`, compiled in a fresh function scope over scopes that bind nothing, run as the code of a funcdef
    whose constants are the scope's pool, on any register file with `slotcount` registers: the VM reaches a configuration whose
    next step is the return of the body's value in the world `Lang/Sem.evalSeq` (empty environment) gives -/
theorem thunk_body_correct (FF : FloatFacts) (G : String → Prop) (b : Bool) (fuel : Nat)
    (c c5 : CState) (body : List Expr) (hT : ∀ e, e ∈ body → TF G b e) (hne : body ≠ [])
    (hm : c.map.length = c.buf.length) (hl : c.lim ≤ 240) (hclosed : ∀ x, lk c.scopes x = none)
    (hc : fnBody (cValue fuel) body (pushScope c true false false false) = some c5)
    (n : Nat) (cur : Pos) (env' : Env) (s s' : SS) (v : Value)
    (hsem : evalSeq n cur [] body s = .ok (v, env') s')
    (hV : PrefA c5.vals V)
    (hcode : CodeAt (p.defs.getD f0.defIdx default).code 0 (c5.buf.drop c.buf.length))
    (hP : (c5.pools.headD []).length < 65536)
    (hK : ∀ i, i < (c5.pools.headD []).length →
      (p.defs.getD f0.defIdx default).consts.getD i .nil = litOf V ((c5.pools.headD []).getD i .nil))
    (regs : Array Value) (hregs : (c5.scopes.headD default).ra.max + 1 ≤ regs.size) :
    (∃ sc5, c5.scopes = sc5 :: c.scopes ∧ sc5.fn = true ∧ sc5.start = c.buf.length ∧ c5.pools = c5.pools.headD [] :: c.pools) ∧
    ∃ (regs' A : Array Value) (pc' : Nat) (wa : World),
      Reach p (inj f0 rest { regs := regs, pc := 0, args := #[], w := s.st.world })
        (inj f0 rest { regs := regs', pc := pc', args := A, w := wa }) ∧
      step p (inj f0 rest { regs := regs', pc := pc', args := A, w := wa }) =
        doReturn p (inj f0 rest { regs := regs', pc := pc', args := #[], w := s'.st.world }) v := by
  obtain ⟨fs, hfs⟩ : ∃ fs : Scope, fs = { fn := true, ra := { alloc := fun _ => false }, start := c.buf.length } := ⟨_, rfl⟩
  have hc2 : pushScope c true false false false = { c with scopes := fs :: c.scopes, pools := [] :: c.pools, fdefs := [] :: c.fdefs } := by
    simp [pushScope, hfs]
  rw [hc2] at hc
  have hfsyms : fs.syms = [] := by rw [hfs]
  have hftop : fs.top = false := by rw [hfs]
  have hlk0 : ∀ x, lk (fs :: c.scopes) x = none := lk_fnscope_none fs c.scopes hfsyms hclosed
  have hE : EnvS G ({ c with scopes := fs :: c.scopes, pools := [] :: c.pools, fdefs := [] :: c.fdefs } : CState).scopes [] s.boxes.size fs.ra :=
    ⟨fun f _ => hlk0 f, fun x => Or.inl ⟨hlk0 x, rfl⟩⟩
  have hN : NR ({ c with scopes := fs :: c.scopes, pools := [] :: c.pools, fdefs := [] :: c.fdefs } : CState).scopes := by
    intro x slot u l hx
    have : lk (fs :: c.scopes) x = some (slot, u, l) := hx
    rw [hlk0 x] at this
    exact absurd this (by simp)
  obtain ⟨slot, hret, ra', nsyms, more, seg, segm, hc5, pv, mono, max', vm⟩ :=
    fnBody_tail p f0 rest V (c5.pools.headD []) G (TF G b) b fuel
      (tf_correct_b p f0 rest V (c5.pools.headD []) hP hK FF G b fuel) (tf_ML G b true fuel) (tf_NR_b G b fuel)
      (tf_tail_correct_b p f0 rest V (c5.pools.headD []) hP hK FF G b fuel)
      body hT hne { c with scopes := fs :: c.scopes, pools := [] :: c.pools, fdefs := [] :: c.fdefs } c5 fs c.scopes [] c.pools
      n cur [] env' s s' v rfl rfl hl hftop hm hc hsem hE hN
  have hs5 : c5.scopes = { fs with ra := ra', syms := fs.syms ++ nsyms } :: c.scopes := by rw [hc5]
  have hp5 : c5.pools = ([] ++ more) :: c.pools := by rw [hc5]
  have hb5 : c5.buf = c.buf ++ seg := by rw [hc5]
  have hpool : c5.pools.headD [] = more := by rw [hp5]; simp
  have hdrop : c5.buf.drop c.buf.length = seg := by rw [hb5]; simp
  have hmax : (c5.scopes.headD default).ra.max = ra'.max := by rw [hs5]; rfl
  refine ⟨⟨_, hs5, by rw [hfs], by rw [hfs], by rw [hpool, hp5]; simp⟩, ?_⟩
  rw [hdrop] at hcode
  obtain ⟨regs', A, pc', wa, rch, _, st⟩ := vm { regs := regs, pc := 0, args := #[], w := s.st.world } rfl rfl
    (by
      intro x sl u l r a hx _ _
      have : lk (fs :: c.scopes) x = some (sl, u, l) := hx
      rw [hlk0 x] at this
      exact absurd this (by simp))
    hcode (by rw [hpool]; simp; exact PrefL.refl _) hV (by show ra'.max < regs.size; omega)
  exact ⟨regs', A, pc', wa, rch, st⟩

end

end JanetModel.Compile
