/- C02: the body of a function: `janetc_fn` compiles the body forms in the function scope — every form but the last with the drop
   flag (its slot is NOT freed), the last one in TAIL position.  Against `Lang/Sem.evalSeq` (what `applyFn` runs for a closure):
   the VM, started at the body's code, reaches a configuration whose next step is the return of the value of the body. -/
import JanetModel.Compile.SeqTailAll
namespace JanetModel.Compile
open JanetModel.Emit JanetModel.Lang JanetModel.Bytecode.Exec JanetModel.Gen.Bytecode

section
variable (p : Program) (f0 : Frame) (rest : List Frame) (V : Array Value) (P : List KConst)

/-- a statement whose value is dropped (and whose slot stays allocated), then a form in tail position -/
theorem TailOK_seq0 (G : String → Prop) (dr1 : Bool) (c c1 c' : CState) (sl1 slot : JSlot) (sc : Scope) (rs : List Scope) (pool : List KConst)
    (ps : List (List KConst)) (env env1 : Env) (s s1 s' : SS) (v1 v : Value)
    (h1 : Correct2 p f0 rest V P G dr1 c c1 sl1 sc rs pool ps env env1 s s1 v1)
    (h2 : ∀ sc1 pool1, c1.scopes = sc1 :: rs → c1.pools = pool1 :: ps → sc1.top = sc.top → c1.lim = c.lim →
          EnvS G c1.scopes env1 s1.boxes.size sc1.ra → TailOK p f0 rest V P G c1 c' slot sc1 rs pool1 ps env1 s1 s' v) :
    TailOK p f0 rest V P G c c' slot sc rs pool ps env s s' v := by
  obtain ⟨ra1, ns1, more1, seg1, segm1, hc1, pv1, mono1, max1, sok1, bx1, es1, nf1, vm1⟩ := h1
  have hs1 : c1.scopes = { sc with ra := ra1, syms := sc.syms ++ ns1 } :: rs := by rw [hc1]
  have hp1 : c1.pools = (pool ++ more1) :: ps := by rw [hc1]
  obtain ⟨hret, ra', ns2, more2, seg2, segm2, hc', pv2, mono2, max2, vm2⟩ := h2 _ _ hs1 hp1 rfl (by rw [hc1]) es1
  have max2' : ra1.max ≤ ra'.max := max2
  have mono2' : ∀ r, ra1.alloc r = true → ra'.alloc r = true := mono2
  refine ⟨hret, ra', ns1 ++ ns2, more1 ++ more2, seg1 ++ seg2, segm1 ++ segm2, ?_, PrefA.trans pv1 pv2, fun r hr => mono2' r (mono1 r hr),
    by omega, ?_⟩
  · rw [hc', hc1]
    simp [List.append_assoc]
  · intro k hkw hka hD hcode hpre hV hsz
    have hV1 : PrefA c1.vals V := PrefA.trans pv2 hV
    obtain ⟨regs1, rch1, sz1, pr1, sv1, ed1⟩ :=
      vm1 k hkw hka hD hcode.left (PrefL.trans ⟨more2, by simp [List.append_assoc]⟩ hpre) hV1 (by omega)
    obtain ⟨regs2, A, pc2, wa, rch2, sz2, st2⟩ :=
      vm2 { regs := regs1, pc := k.pc + seg1.length, args := #[], w := s1.st.world } rfl rfl ed1 hcode.right
        (by rw [List.append_assoc]; exact hpre) hV (by show ra'.max < regs1.size; omega)
    have sz2' : regs2.size = regs1.size := sz2
    exact ⟨regs2, A, pc2, wa, Reach.trans rch1 rch2, by omega, st2⟩

/-- `janetc_fn`'s body loop -/
theorem fnBody_tail (G : String → Prop) (T : Expr → Prop) (w : Bool) (fuel : Nat) (IHn : CorrectAt p f0 rest V P G T w fuel)
    (ML : MLAt G T true fuel) (NRf : NRAt G T fuel) (IHt : TailAt p f0 rest V P G T fuel) :
    ∀ (b : List Expr), (∀ e, e ∈ b → T e) → b ≠ [] →
    ∀ (c c' : CState) (sc : Scope) (rs : List Scope) (pool : List KConst) (ps : List (List KConst))
      (n : Nat) (cur : Pos) (env env' : Env) (s s' : SS) (v : Value),
      c.scopes = sc :: rs → c.pools = pool :: ps → c.lim ≤ 240 → sc.top = false → c.map.length = c.buf.length →
      fnBody (cValue fuel) b c = some c' → evalSeq n cur env b s = .ok (v, env') s' → EnvS G c.scopes env s.boxes.size sc.ra →
      NR c.scopes → ∃ slot, TailOK p f0 rest V P G c c' slot sc rs pool ps env s s' v := by
  intro b
  induction b with
  | nil => intro _ hne; exact absurd rfl hne
  | cons x t ih =>
    intro hT _ c c' sc rs pool ps n cur env env' s s' v hs hp hl htop hm hc hsem hE hN
    cases t with
    | nil =>
      simp only [fnBody, Option.bind_eq_bind, Option.bind_eq_some_iff, Prod.exists, Option.pure_def, Option.some.injEq] at hc
      obtain ⟨slot, c1, hx, hc1⟩ := hc
      subst hc1
      obtain ⟨n2, hn, he⟩ := evalSeq_one_inv n cur env env' x s s' v hsem
      exact ⟨slot, IHt x { tail := true } c c1 slot sc rs pool ps n2 cur env env' s s' v rfl rfl hs hp hl htop hm (hT x (by simp)) hx he hE hN⟩
    | cons y r =>
      simp only [fnBody, Option.bind_eq_bind, Option.bind_eq_some_iff, Prod.exists] at hc
      obtain ⟨sl1, c1, hx, hrest⟩ := hc
      obtain ⟨n2, v1, env1, s1, hn, he1, he2⟩ := evalSeq_cons_inv n cur env env' x y r s s' v hsem
      have h1 := IHn x { drop := true } c c1 sl1 sc rs pool ps n2 cur env env1 s s1 v1 rfl rfl hs hp hl htop
        (fun _ => hm) (hT x (by simp)) hx he1 hE
      obtain ⟨_, hN1⟩ := NRf x { drop := true } c c1 sl1 sc rs pool ps env s.boxes.size rfl rfl hs hp htop hm (hT x (by simp)) hE hN hx
      have hm1 : c1.map.length = c1.buf.length :=
        ML rfl x { drop := true } c c1 sl1 sc rs pool ps env s.boxes.size rfl rfl hs hp htop (hT x (by simp)) hE hx hm
      have hrec : ∀ sc1 pool1, c1.scopes = sc1 :: rs → c1.pools = pool1 :: ps → sc1.top = sc.top → c1.lim = c.lim →
          EnvS G c1.scopes env1 s1.boxes.size sc1.ra → ∃ slot, TailOK p f0 rest V P G c1 c' slot sc1 rs pool1 ps env1 s1 s' v := by
        intro sc1 pool1 hs1 hp1 htop1 hl1 hE1
        exact ih (fun e he => hT e (by simp [he])) (by simp) c1 c' sc1 rs pool1 ps n2 cur env1 env' s1 s' v hs1 hp1
          (by rw [hl1]; exact hl) (by rw [htop1]; exact htop) hm1 hrest he2 hE1 hN1
      -- the slot of the recursive result does not depend on the way the scopes are presented
      obtain ⟨ra1, ns1, more1, seg1, segm1, hc1, _, _, _, _, _, es1, _, _⟩ := h1
      have hs1 : c1.scopes = { sc with ra := ra1, syms := sc.syms ++ ns1 } :: rs := by rw [hc1]
      have hp1 : c1.pools = (pool ++ more1) :: ps := by rw [hc1]
      obtain ⟨slot, hslot⟩ := hrec _ _ hs1 hp1 rfl (by rw [hc1]) es1
      refine ⟨slot, TailOK_seq0 p f0 rest V P G _ c c1 c' sl1 slot sc rs pool ps env env1 s s1 s' v1 v
        (IHn x { drop := true } c c1 sl1 sc rs pool ps n2 cur env env1 s s1 v1 rfl rfl hs hp hl htop (fun _ => hm) (hT x (by simp)) hx he1 hE) ?_⟩
      intro sc1 pool1 hs1' hp1' _ _ _
      have e1 : sc1 = { sc with ra := ra1, syms := sc.syms ++ ns1 } := by rw [hs1] at hs1'; exact ((List.cons.inj hs1').1).symm
      have e2 : pool1 = pool ++ more1 := by rw [hp1] at hp1'; exact ((List.cons.inj hp1').1).symm
      subst e1 e2
      exact hslot

end

end JanetModel.Compile
