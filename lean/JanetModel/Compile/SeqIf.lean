/- C02: compile correctness, core fragment: the `if` case of the induction (`janetc_if` against `Lang/Sem`'s `if`), for a
   condition whose compiled slot is not a constant (jump path; value used or dropped).  `if_core` has the shape of `IfCase`
   (Compile/SeqCore.lean). -/
import JanetModel.Compile.SeqIfJump
namespace JanetModel.Compile
open JanetModel.Emit JanetModel.Lang JanetModel.Bytecode.Exec JanetModel.Gen.Bytecode

section
variable (p : Program) (f0 : Frame) (rest : List Frame) (V : Array Value) (P : List KConst)

/-- the `if` case when the condition never compiles to a constant slot -/
theorem if_core_nc (hP : P.length < 65536)
    (hK : ∀ i, i < P.length → (p.defs.getD f0.defIdx default).consts.getD i .nil = litOf V (P.getD i .nil))
    (G : String → Prop) (b w : Bool) (fuel : Nat) (IH : CorrectAt p f0 rest V P G (TF G b) w fuel)
    (cnd tb : Expr) (els : List Expr) (pp : Pos)
    (hNC : ∀ c2 cond c3, cValue fuel {} cnd c2 = some (cond, c3) → isConstSlot cond = none)
    (hlen : els.length ≤ 1) (hTc : TF G b cnd) (hTt : TF G b tb) (hTe : ∀ e, e ∈ els → TF G b e)
    (opts : Fopts) (c c' : CState) (slot : JSlot) (sc : Scope) (rs : List Scope) (pool : List KConst) (ps : List (List KConst))
    (n : Nat) (cur : Pos) (env env' : Env) (s s' : SS) (v : Value)
    (ht : opts.tail = false) (hh : opts.hint = none) (hs : c.scopes = sc :: rs) (hp : c.pools = pool :: ps) (hl : c.lim ≤ 240)
    (hm : c.map.length = c.buf.length)
    (hc : cValue (fuel + 1) opts (.form (.sym "if" :: cnd :: tb :: els) pp) c = some (slot, c'))
    (hsem : eval n cur env (.form (.sym "if" :: cnd :: tb :: els) pp) s = .ok (v, env') s')
    (hE : EnvS G c.scopes env s.boxes.size sc.ra) :
    Correct2 p f0 rest V P G opts.drop c c' slot sc rs pool ps env env' s s' v := by
  rw [cValue_if_o fuel opts ht hh cnd tb els pp c, cIf_le1 _ _ _ _ _ _ hlen] at hc
  obtain ⟨q, hq⟩ := curAt_eq c pp
  cases hcc : cIfBody (cValue fuel) opts cnd tb (els.headD (.lit .nil)) (curAt c pp) with
  | none => rw [hcc] at hc; simp [fin] at hc
  | some res =>
    obtain ⟨slot0, cq⟩ := res
    rw [hcc] at hc
    simp only [fin, Option.some.injEq, Prod.mk.injEq] at hc
    obtain ⟨hsl, hc'⟩ := hc
    subst hsl hc'
    rw [hq] at hcc
    obtain ⟨n2, cv, cenv, s1, envb, hn, hsc, henv, hsb⟩ := eval_if_inv n cur env env' cnd tb els pp s s' v hsem
    subst henv
    obtain ⟨target, c1, cond, c3, hT, hcond, hrest⟩ := cIfBody_inv _ opts cnd tb _ _ cq slot0 hcc
    have hnc := hNC _ cond c3 hcond
    rw [hnc] at hrest
    simp only at hrest
    have hTf : TF G b (els.headD (.lit .nil)) := by
      cases els with
      | nil => exact .lit .nil trivial
      | cons e _ => exact hTe e (by simp)
    exact Correct2.recur p f0 rest V P (q := q)
      (if_jump_core p f0 rest V P hP hK G b w fuel IH cnd tb _ hTc hTt hTf opts ht hh { c with cur := q } cq slot0 sc rs pool ps n2 (posOf cur pp)
        env' cenv envb s s1 s' cv v hs hp hl hm target c1 c3 cond hT hcond hnc hrest hsc hsb hE)

/-- the `if` case for a condition that is a call (`IfCase` of Compile/SeqCore.lean) -/
theorem if_core (hP : P.length < 65536)
    (hK : ∀ i, i < P.length → (p.defs.getD f0.defIdx default).consts.getD i .nil = litOf V (P.getD i .nil))
    (G : String → Prop) (b w : Bool) (fuel : Nat) (IH : CorrectAt p f0 rest V P G (TF G b) w fuel)
    (cnd tb : Expr) (els : List Expr) (pp : Pos) (hic : IsCall cnd)
    (hlen : els.length ≤ 1) (hTc : TF G b cnd) (hTt : TF G b tb) (hTe : ∀ e, e ∈ els → TF G b e)
    (opts : Fopts) (c c' : CState) (slot : JSlot) (sc : Scope) (rs : List Scope) (pool : List KConst) (ps : List (List KConst))
    (n : Nat) (cur : Pos) (env env' : Env) (s s' : SS) (v : Value)
    (ht : opts.tail = false) (hh : opts.hint = none) (hs : c.scopes = sc :: rs) (hp : c.pools = pool :: ps) (hl : c.lim ≤ 240)
    (_htop : sc.top = false) (hm : c.map.length = c.buf.length)
    (hc : cValue (fuel + 1) opts (.form (.sym "if" :: cnd :: tb :: els) pp) c = some (slot, c'))
    (hsem : eval n cur env (.form (.sym "if" :: cnd :: tb :: els) pp) s = .ok (v, env') s')
    (hE : EnvS G c.scopes env s.boxes.size sc.ra) :
    Correct2 p f0 rest V P G opts.drop c c' slot sc rs pool ps env env' s s' v :=
  if_core_nc p f0 rest V P hP hK G b w fuel IH cnd tb els pp
    (fun c2 cond c3 h => call_isConst_none fuel {} rfl rfl cnd hic c2 c3 cond h)
    hlen hTc hTt hTe opts c c' slot sc rs pool ps n cur env env' s s' v ht hh hs hp hl hm hc hsem hE

end

end JanetModel.Compile
