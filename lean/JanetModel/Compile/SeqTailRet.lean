/- C02: compile correctness, tail position (second part): `janetc_value` in tail position on the forms other than calls —
   the form's own code, then `janetc_return` on its slot: JOP_RETURN_NIL for the constant nil, `LDK t k; RETURN t` for another
   constant, `RETURN r` for a near local.  `TailOK` = what a form compiled in tail position delivers (the next VM step IS the
   return of the value and world `Lang/Sem` gives); `tail_ret_core`: a form that is correct in the non-tail sense (`Correct2`)
   followed by `janetc_return` is `TailOK`. -/
import JanetModel.Compile.SeqTail
namespace JanetModel.Compile
open JanetModel.Emit JanetModel.Lang JanetModel.Bytecode.Exec JanetModel.Gen.Bytecode

/-- the end of `janetc_value` in tail position without hint: `janetc_return`, mapping cursor restored -/
def finT (last : Pos) : Option (JSlot × CState) → Option (JSlot × CState)
  | none => none
  | some (ret, c1) => (cReturn c1 ret).bind (fun r => some (r.1, { r.2 with cur := last }))

theorem cValue_lit_t (fuel : Nat) (opts : Fopts) (ht : opts.tail = true) (hh : opts.hint = none) (v : Value) (hv : SimpleLit v) (c : CState) :
    cValue (fuel + 1) opts (.lit v) c = finT c.cur (some (constSlot c v)) := by
  cases v <;> first
    | (simp only [cValue, ht, hh, if_true]
       generalize constSlot c _ = a
       obtain ⟨ret, c1⟩ := a
       simp only [finT]
       cases cReturn c1 ret with
       | none => rfl
       | some r => cases r; rfl)
    | (simp [SimpleLit] at hv)

theorem cValue_sym_t (fuel : Nat) (opts : Fopts) (ht : opts.tail = true) (hh : opts.hint = none) (x : String) (c : CState) :
    cValue (fuel + 1) opts (.sym x) c = finT c.cur (resolve c x) := by
  simp only [cValue, ht, hh]
  cases resolve c x with
  | none => rfl
  | some a =>
    obtain ⟨ret, c1⟩ := a
    simp only [if_true, finT]
    cases cReturn c1 ret with
    | none => rfl
    | some r => cases r; rfl

theorem cValue_do_t (fuel : Nat) (opts : Fopts) (ht : opts.tail = true) (hh : opts.hint = none) (body : List Expr) (p : Pos) (c : CState) :
    cValue (fuel + 1) opts (.form (.sym "do" :: body) p) c = finT c.cur (cDo (cValue fuel) opts body (curAt c p)) := by
  simp only [cValue, ht, hh]
  split
  · rename_i h; exact (congrArg (finT c.cur) h).symm
  · rename_i r c1 h
    refine Eq.trans ?_ (congrArg (finT c.cur) h).symm
    simp only [if_true, finT]
    cases cReturn c1 r with
    | none => rfl
    | some r => cases r; rfl

theorem cValue_upscope_t (fuel : Nat) (opts : Fopts) (ht : opts.tail = true) (hh : opts.hint = none) (body : List Expr) (p : Pos) (c : CState) :
    cValue (fuel + 1) opts (.form (.sym "upscope" :: body) p) c = finT c.cur (doBody (cValue fuel) opts body (curAt c p)) := by
  simp only [cValue, ht, hh]
  split
  · rename_i h; exact (congrArg (finT c.cur) h).symm
  · rename_i r c1 h
    refine Eq.trans ?_ (congrArg (finT c.cur) h).symm
    simp only [if_true, finT]
    cases cReturn c1 r with
    | none => rfl
    | some r => cases r; rfl

theorem cValue_def_t (fuel : Nat) (opts : Fopts) (ht : opts.tail = true) (hh : opts.hint = none) (name : String) (v : Expr) (p : Pos) (c : CState) :
    cValue (fuel + 1) opts (.form [.sym "def", .sym name, v] p) c = finT c.cur (cDef (cValue fuel) name v (curAt c p)) := by
  simp only [cValue, ht, hh]
  split
  · rename_i h; exact (congrArg (finT c.cur) h).symm
  · rename_i r c1 h
    refine Eq.trans ?_ (congrArg (finT c.cur) h).symm
    simp only [if_true, finT]
    cases cReturn c1 r with
    | none => rfl
    | some r => cases r; rfl

theorem cValue_call_t (fuel : Nat) (opts : Fopts) (ht : opts.tail = true) (hh : opts.hint = none) (f : String) (args : List Expr) (p : Pos)
    (c : CState) (hf : specials.contains f = false) :
    cValue (fuel + 1) opts (.form (.sym f :: args) p) c = finT c.cur (cCall (cValue fuel) opts (.sym f) args (curAt c p)) := by
  rw [cValue_call_tail fuel opts ht hh f args p c hf]
  cases cCall (cValue fuel) opts (.sym f) args (curAt c p) with
  | none => rfl
  | some a => cases a; rfl

/-- `janetc_return` on a slot that is not flagged RETURNED -/
theorem cReturn_unret (c : CState) (s : JSlot) (h : s.returned = false) :
    cReturn c s = (if (s.cflag && s.k == Slot.const KConst.nil) = true then some (emitRaw c .retNil) else emitS c .return s false).bind
      (fun c' => some ({ s with returned := true }, c')) := by
  simp only [cReturn, h, Bool.false_eq_true, if_false]
  split <;> rfl

/-- no resolvable name carries the RETURNED flag (`janetc_return` flags only the copy of the slot it hands back) -/
def NR (scs : List Scope) : Prop := ∀ x slot u l, lk scs x = some (slot, u, l) → slot.returned = false

theorem NR.of_lk {scs scs' : List Scope} (h : NR scs) (hlk : ∀ x, lk scs' x = lk scs x) : NR scs' := by
  intro x slot u l hx; rw [hlk] at hx; exact h x slot u l hx

/-- compile-only fact the tail induction needs of the NON-tail compile of a form: its slot is not flagged RETURNED and it
    binds no name to a slot flagged RETURNED (only `janetc_return` sets the flag, on the copy of the slot it hands back);
    proved for `TF G false` in Compile/SeqTailNR.lean -/
def NRAt (G : String → Prop) (T : Expr → Prop) (fuel : Nat) : Prop :=
  ∀ (e : Expr) (opts : Fopts) (c c' : CState) (slot : JSlot) (sc : Scope) (rs : List Scope) (pool : List KConst) (ps : List (List KConst))
    (env : Env) (nb : Nat),
    opts.tail = false → opts.hint = none → c.scopes = sc :: rs → c.pools = pool :: ps → sc.top = false → c.map.length = c.buf.length → T e →
    EnvS G c.scopes env nb sc.ra → NR c.scopes → cValue fuel opts e c = some (slot, c') → slot.returned = false ∧ NR c'.scopes

section
variable (p : Program) (f0 : Frame) (rest : List Frame) (V : Array Value) (P : List KConst)

/-- what a form compiled in tail position delivers: the slot is flagged RETURNED; the compiler state changed as for any form
    (innermost allocator and symbols, pool / code / map appended); the VM, started at the form's code, reaches a configuration
    whose next step is the return of the value, in the world `Lang/Sem` gives -/
def TailOK (_G : String → Prop) (c c' : CState) (slot : JSlot) (sc : Scope) (rs : List Scope) (pool : List KConst) (ps : List (List KConst))
    (env : Env) (s s' : SS) (v : Value) : Prop :=
  slot.returned = true ∧
  ∃ (ra' : RA) (nsyms : List SymPair) (more : List KConst) (seg : List CI) (segm : List Pos),
    c' = { c with scopes := { sc with ra := ra', syms := sc.syms ++ nsyms } :: rs, pools := (pool ++ more) :: ps, buf := c.buf ++ seg,
                  map := c.map ++ segm, vals := c'.vals } ∧
    PrefA c.vals c'.vals ∧ (∀ r, sc.ra.alloc r = true → ra'.alloc r = true) ∧ sc.ra.max ≤ ra'.max ∧
    ∀ (k : Cfg), k.w = s.st.world → k.args = #[] → EnvD c.scopes env s k.regs →
      CodeAt (p.defs.getD f0.defIdx default).code k.pc seg → PrefL (pool ++ more) P → PrefA c'.vals V → ra'.max < k.regs.size →
      ∃ (regs' A : Array Value) (pc' : Nat) (wa : World),
        Reach p (inj f0 rest k) (inj f0 rest { regs := regs', pc := pc', args := A, w := wa }) ∧ regs'.size = k.regs.size ∧
        step p (inj f0 rest { regs := regs', pc := pc', args := A, w := wa }) =
          doReturn p (inj f0 rest { regs := regs', pc := pc', args := #[], w := s'.st.world }) v

/-- the mapping cursor does not matter -/
theorem TailOK.recur {G : String → Prop} {c c1 : CState} {q : Pos} {slot : JSlot} {sc : Scope} {rs : List Scope} {pool : List KConst}
    {ps : List (List KConst)} {env : Env} {s s' : SS} {v : Value}
    (h : TailOK p f0 rest V P G { c with cur := q } c1 slot sc rs pool ps env s s' v) :
    TailOK p f0 rest V P G c { c1 with cur := c.cur } slot sc rs pool ps env s s' v := by
  obtain ⟨hr, ra', nsyms, more, seg, segm, hc, h2⟩ := h
  refine ⟨hr, ra', nsyms, more, seg, segm, ?_, h2⟩
  conv => lhs; rw [hc]

/-- JOP_RETURN of a register -/
theorem run_return (k : Cfg) (r : Nat) (hr : r < 16777216)
    (hcode : (p.defs.getD f0.defIdx default).code[k.pc]? = some (CI.mi (.pay Op.return.toNat .s false [r] 0)).word) :
    step p (inj f0 rest k) = doReturn p (inj f0 rest k) (k.regs.getD r .nil) := by
  have h := return_agrees p (inj f0 rest k) r hr (by rw [inj_curDef, inj_pc]; exact hcode)
  rw [h, inj_getReg]

/-- JOP_RETURN_NIL -/
theorem run_retNil (k : Cfg) (hcode : (p.defs.getD f0.defIdx default).code[k.pc]? = some CI.retNil.word) :
    step p (inj f0 rest k) = doReturn p (inj f0 rest k) .nil :=
  step_retNil p (inj f0 rest k) (by rw [inj_curDef, inj_pc]; exact hcode)

/-- a form that is correct in the non-tail sense, followed by `janetc_return` on its (not yet returned) slot -/
theorem tail_ret_core (hP : P.length < 65536)
    (hK : ∀ i, i < P.length → (p.defs.getD f0.defIdx default).consts.getD i .nil = litOf V (P.getD i .nil))
    (G : String → Prop) (c c1 c2 : CState) (ret slot : JSlot) (sc : Scope) (rs : List Scope) (pool : List KConst) (ps : List (List KConst))
    (env env' : Env) (s s' : SS) (v : Value) (hl : c.lim ≤ 240)
    (H : Correct2 p f0 rest V P G false c c1 ret sc rs pool ps env env' s s' v)
    (hnr : ret.returned = false) (hcr : cReturn c1 ret = some (slot, c2)) :
    TailOK p f0 rest V P G c c2 slot sc rs pool ps env s s' v := by
  obtain ⟨ra1, ns1, more1, seg1, segm1, hc1, pv1, mono1, max1, sok1, bx1, es1, nf1, vm1⟩ := H
  have hs1 : c1.scopes = { sc with ra := ra1, syms := sc.syms ++ ns1 } :: rs := by rw [hc1]
  have hp1 : c1.pools = (pool ++ more1) :: ps := by rw [hc1]
  have hl1 : c1.lim ≤ 240 := by rw [hc1]; exact hl
  rw [cReturn_unret c1 ret hnr] at hcr
  simp only [Option.bind_eq_some_iff, Option.some.injEq, Prod.mk.injEq] at hcr
  obtain ⟨cx, hem, hslot, hcx⟩ := hcr
  subst hcx
  have hret : slot.returned = true := by rw [← hslot]
  have hcases : (ret.cflag = true ∧ ∃ kc, ret.k = .const kc) ∨ (ret.cflag = false ∧ ∃ r, ret.k = .loc r ∧ r < 240) := by
    rcases sok1 with ⟨a1, kc, a2, _⟩ | ⟨a1, _, r, a2, _, a3⟩ | ⟨a1, _, d, a2, _, _, a3, _⟩
    · exact Or.inl ⟨a1, kc, a2⟩
    · exact Or.inr ⟨a1, r, a2, a3⟩
    · exact Or.inr ⟨a1, d, a2, a3⟩
  rcases hcases with ⟨hcf, kc, hkk⟩ | ⟨hcf, r, hkk, hr⟩
  · by_cases hnil : kc = .nil
    · -- JOP_RETURN_NIL
      subst hnil
      have hcond : (ret.cflag && ret.k == Slot.const KConst.nil) = true := by rw [hcf, hkk]; decide
      rw [if_pos hcond] at hem
      have hcx : cx = emitRaw c1 .retNil := (Option.some.inj hem).symm
      subst hcx
      refine ⟨hret, ra1, ns1, more1, seg1 ++ [CI.retNil], segm1 ++ [c1.cur], ?_, pv1, mono1, max1, ?_⟩
      · simp only [emitRaw]
        rw [hc1]; simp [List.append_assoc]
      · intro k hkw hka hD hcode hpre hV hsz
        obtain ⟨regs1, rch1, sz1, pr1, sv1, ed1⟩ := vm1 k hkw hka hD hcode.left hpre hV hsz
        have hv : v = .nil := by
          have := sv1 rfl
          simp only [slotVal, hkk, litOf] at this
          exact this.symm
        refine ⟨regs1, #[], k.pc + seg1.length, s'.st.world, rch1, sz1, ?_⟩
        rw [hv]
        exact run_retNil p f0 rest _ hcode.right.head
    · -- LDK t k; RETURN t
      have hcond : ¬ ((ret.cflag && ret.k == Slot.const KConst.nil) = true) := by rw [hcf, hkk]; simp [hnil]
      rw [if_neg hcond] at hem
      obtain ⟨t, ra4, a1, a2, a3, a4, a5, a6, hc4⟩ :=
        emitS_const c1 cx .return ret kc hkk { sc with ra := ra1, syms := sc.syms ++ ns1 } rs (pool ++ more1) ps hs1 hp1 hl1 hem
      obtain ⟨m4, hm4⟩ : PrefL (pool ++ more1) (if kc.pooled then W.intern (pool ++ more1) kc else pool ++ more1) := by
        split
        · exact intern_pref _ kc
        · exact PrefL.refl _
      have a4' : ra1.max ≤ ra4.max := a4
      have a6' : ∀ j, ra4.alloc j = ra1.alloc j := a6
      refine ⟨hret, ra4, ns1, more1 ++ m4, seg1 ++
          [CI.mi (MI.ldk t kc (W.poolIdx (if kc.pooled = true then W.intern (pool ++ more1) kc else pool ++ more1) kc)),
           CI.mi (MI.pay Op.return.toNat Shape.s false [t] 0)], segm1 ++ [c1.cur, c1.cur], ?_, ?_, ?_, by omega, ?_⟩
      · rw [hc4, hm4, hc1]; simp [List.append_assoc]
      · rw [hc4]; exact pv1
      · intro j hj; rw [a6' j]; exact mono1 j hj
      · intro k hkw hka hD hcode hpre hV hsz
        have hvals : cx.vals = c1.vals := by rw [hc4]
        rw [hvals] at hV
        have hpreC : PrefL (if kc.pooled then W.intern (pool ++ more1) kc else pool ++ more1) P := by
          rw [hm4]; refine PrefL.trans ⟨[], ?_⟩ hpre; simp [List.append_assoc]
        have hpreA : PrefL (pool ++ more1) P := PrefL.trans ⟨m4, by simp [List.append_assoc]⟩ hpre
        obtain ⟨regs1, rch1, sz1, pr1, sv1, ed1⟩ := vm1 k hkw hka hD hcode.left hpreA hV (by omega)
        have hv : litOf V kc = v := by
          have := sv1 rfl
          simp only [slotVal, hkk] at this
          exact this
        have hidx : W.poolIdx (if kc.pooled then W.intern (pool ++ more1) kc else pool ++ more1) kc < 65536 := by
          have := poolIdx_le (if kc.pooled then W.intern (pool ++ more1) kc else pool ++ more1) kc
          have := hpreC.length
          omega
        have hconst : kc.pooled = true → (p.defs.getD f0.defIdx default).consts.getD
            (W.poolIdx (if kc.pooled then W.intern (pool ++ more1) kc else pool ++ more1) kc) .nil = litOf V kc := by
          intro hpl
          obtain ⟨h1, h2⟩ := pooled_const_at P (pool ++ more1) kc hpreC hpl
          rw [hK _ h1, h2]
        let k1 : Cfg := { regs := regs1, pc := k.pc + seg1.length, args := #[], w := s'.st.world }
        have s1 := run_ldk p f0 rest k1 t kc _ V (by omega) hidx hcode.right.head hconst
        have s2 := run_return p f0 rest { k1 with regs := k1.regs.setIfInBounds t (litOf V kc), pc := k1.pc + 1 } t (by omega)
          hcode.right.tail.head
        refine ⟨regs1.setIfInBounds t (litOf V kc), #[], k.pc + seg1.length + 1, s'.st.world,
          Reach.trans rch1 (Reach.head s1 (Reach.refl _ _)), by simp [sz1], ?_⟩
        rw [← hv]
        refine Eq.trans s2 ?_
        show doReturn p _ ((regs1.setIfInBounds t (litOf V kc)).getD t .nil) = _
        rw [getD_set_eq _ _ _ (by omega)]
  · -- RETURN r
    have hcond : ¬ ((ret.cflag && ret.k == Slot.const KConst.nil) = true) := by rw [hcf]; simp
    rw [if_neg hcond] at hem
    obtain ⟨_, hc4⟩ := emitS_local c1 cx .return ret r hkk { sc with ra := ra1, syms := sc.syms ++ ns1 } rs (pool ++ more1) ps hs1 hp1 hem
    refine ⟨hret, ra1, ns1, more1, seg1 ++ [CI.mi (MI.pay Op.return.toNat Shape.s false [r] 0)], segm1 ++ [c1.cur], ?_, ?_, mono1, max1, ?_⟩
    · rw [hc4, hc1]; simp [List.append_assoc]
    · rw [hc4]; exact pv1
    · intro k hkw hka hD hcode hpre hV hsz
      have hvals : cx.vals = c1.vals := by rw [hc4]
      rw [hvals] at hV
      obtain ⟨regs1, rch1, sz1, pr1, sv1, ed1⟩ := vm1 k hkw hka hD hcode.left hpre hV hsz
      have hv : regs1.getD r .nil = v := by
        have := sv1 rfl
        simp only [slotVal, hkk] at this
        exact this
      refine ⟨regs1, #[], k.pc + seg1.length, s'.st.world, rch1, sz1, ?_⟩
      rw [← hv]
      exact run_return p f0 rest _ r (by omega) hcode.right.head

end

end JanetModel.Compile
