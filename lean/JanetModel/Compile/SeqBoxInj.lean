/- C02: `Lang/Sem` keeps the boxes of distinct names distinct across a form of the fragment `TF G b` (`bind` always allocates the
   next box; nothing in the fragment rebinds or frees), and the box store only grows.  Needed by `set`: writing the box of `x`
   must not change what any other name reads. -/
import JanetModel.Compile.SeqNoBrkSem
import JanetModel.Compile.SeqHintDef
namespace JanetModel.Compile
open JanetModel.Emit JanetModel.Lang JanetModel.Bytecode.Exec JanetModel.Gen.Bytecode

theorem BoxInj.mono {env : Env} {nb nb' : Nat} (h : BoxInj env nb) (hle : nb ≤ nb') : BoxInj env nb' :=
  ⟨h.1, fun x a hx => Nat.lt_of_lt_of_le (h.2 x a hx) hle⟩

theorem BoxInj.cons {env : Env} {nb : Nat} (h : BoxInj env nb) (x : String) : BoxInj ((x, nb) :: env) (nb + 1) := by
  refine ⟨fun y z a hy hz => ?_, fun y a hy => ?_⟩
  · simp only [lookupEnv] at hy hz
    by_cases e1 : (x == y) = true
    · by_cases e2 : (x == z) = true
      · rw [← beq_iff_eq.mp e1, ← beq_iff_eq.mp e2]
      · rw [if_pos e1] at hy
        rw [if_neg e2] at hz
        have := h.2 z a hz
        have : a = nb := (Option.some.inj hy).symm
        omega
    · rw [if_neg e1] at hy
      by_cases e2 : (x == z) = true
      · rw [if_pos e2] at hz
        have := h.2 y a hy
        have : a = nb := (Option.some.inj hz).symm
        omega
      · rw [if_neg e2] at hz
        exact h.1 y z a hy hz
  · simp only [lookupEnv] at hy
    by_cases e1 : (x == y) = true
    · rw [if_pos e1] at hy
      have : a = nb := (Option.some.inj hy).symm
      omega
    · rw [if_neg e1] at hy
      have := h.2 y a hy
      omega

/-- an `.ok` result keeps the call heads unbound, the boxes of distinct names distinct, and the store only grew -/
def BIG {α : Type} (G : String → Prop) (s : SS) (r : R (α × Env)) : Prop :=
  ∀ a env' s', r = .ok (a, env') s' → GFree G env' ∧ BoxInj env' s'.boxes.size ∧ s.boxes.size ≤ s'.boxes.size

theorem BIG.ok {α : Type} {G : String → Prop} {s : SS} (a : α) (env : Env) (s1 : SS) (hg : GFree G env) (hb : BoxInj env s1.boxes.size)
    (hle : s.boxes.size ≤ s1.boxes.size) : BIG G s (.ok (a, env) s1 : R (α × Env)) := by
  intro a' env' s' e
  simp only [R.ok.injEq, Prod.mk.injEq] at e
  obtain ⟨⟨_, e2⟩, e3⟩ := e
  subst e2 e3
  exact ⟨hg, hb, hle⟩

theorem BIG.err {α : Type} {G : String → Prop} {s : SS} (v : Value) (p : Pos) (s1 : SS) : BIG G s (.err v p s1 : R (α × Env)) :=
  fun _ _ _ e => by simp at e
theorem BIG.stop {α : Type} {G : String → Prop} {s : SS} (w : String) : BIG G s (.stop w : R (α × Env)) :=
  fun _ _ _ e => by simp at e
theorem BIG.brk {α : Type} {G : String → Prop} {s : SS} (v : Value) (s1 : SS) : BIG G s (.brk v s1 : R (α × Env)) :=
  fun _ _ _ e => by simp at e

def BIAll (G : String → Prop) (b : Bool) (n : Nat) : Prop :=
  (∀ cur env e s, GFree G env → BoxInj env s.boxes.size → TF G b e → BIG G s (eval n cur env e s)) ∧
  (∀ cur env body s, GFree G env → BoxInj env s.boxes.size → (∀ e, e ∈ body → TF G b e) → BIG G s (evalSeq n cur env body s)) ∧
  (∀ cur env args s, GFree G env → BoxInj env s.boxes.size → (∀ e, e ∈ args → TF G b e) → BIG G s (evalArgs n cur env args s))

theorem tf_biall (G : String → Prop) (b : Bool) : ∀ n, BIAll G b n := by
  intro n
  induction n with
  | zero =>
    refine ⟨fun cur env e s _ _ _ => ?_, fun cur env body s _ _ _ => ?_, fun cur env args s _ _ _ => ?_⟩
    · simp only [eval]; exact BIG.stop _
    · simp only [evalSeq]; exact BIG.stop _
    · simp only [evalArgs]; exact BIG.stop _
  | succ n ih =>
    obtain ⟨ihE, ihS, ihA⟩ := ih
    refine ⟨fun cur env e s hg hb hT => ?_, fun cur env body s hg hb hT => ?_, fun cur env args s hg hb hT => ?_⟩
    · cases hT with
      | lit w hw => rw [eval_lit]; exact BIG.ok _ _ _ hg hb (Nat.le_refl _)
      | sym x =>
        cases hl : lookupEnv env x with
        | none => rw [eval_sym_global n cur env x s hl]; exact BIG.ok _ _ _ hg hb (Nat.le_refl _)
        | some a => rw [eval_sym_local n cur env x s a hl]; exact BIG.ok _ _ _ hg hb (Nat.le_refl _)
      | call f args p hf hna hG hTa =>
        rw [eval_call n cur env f args p s hf]
        cases n with
        | zero => simp only [eval]; exact BIG.stop _
        | succ n' =>
          rw [eval_sym_global n' _ env f s (hg f hG)]
          simp only
          have hA := ihA (posOf cur p) env args s hg hb hTa
          cases he : evalArgs (n' + 1) (posOf cur p) env args s with
          | ok r s2 =>
            obtain ⟨vs, env2⟩ := r
            simp only
            obtain ⟨hg2, hb2, hle2⟩ := hA vs env2 s2 he
            cases ha : applyFn (n' + 1) (posOf cur p) (.cfun f) vs s2 with
            | ok v s3 =>
              have hbx : s3.boxes = s2.boxes := applyFn_cfun_boxes n' (posOf cur p) f hna vs s2 s3 v ha
              exact BIG.ok _ _ _ hg2 (by rw [hbx]; exact hb2) (by rw [hbx]; exact hle2)
            | err v q s3 => exact BIG.err _ _ _
            | brk v s3 => exact BIG.brk _ _
            | stop w => exact BIG.stop _
          | err v q s2 => exact BIG.err _ _ _
          | brk v s2 => exact BIG.brk _ _
          | stop w => exact BIG.stop _
      | doo body p hTb =>
        rw [eval_do]
        have hS := ihS (posOf cur p) env body s hg hb hTb
        cases he : evalSeq n (posOf cur p) env body s with
        | ok r s2 =>
          obtain ⟨v, envb⟩ := r
          obtain ⟨_, _, hle⟩ := hS v envb s2 he
          exact BIG.ok _ _ _ hg (hb.mono hle) hle
        | err v q s2 => exact BIG.err _ _ _
        | brk v s2 => exact BIG.brk _ _
        | stop w => exact BIG.stop _
      | ups body p hTb =>
        rw [eval_upscope]
        exact ihS (posOf cur p) env body s hg hb hTb
      | deff x ve p hGx hTv =>
        rw [eval_def]
        have hV := ihE (posOf cur p) env ve s hg hb hTv
        cases he : eval n (posOf cur p) env ve s with
        | ok r s2 =>
          obtain ⟨v, env1⟩ := r
          simp only
          obtain ⟨hg1, hb1, hle1⟩ := hV v env1 s2 he
          cases n with
          | zero => simp only [destructure]; exact BIG.stop _
          | succ n' =>
            simp only [destructure, Lang.bind]
            refine BIG.ok _ _ _ (gfree_cons x _ hGx hg1) ?_ ?_
            · have := hb1.cons x
              simpa using this
            · simp only [Array.size_push]; omega
        | err v q s2 => exact BIG.err _ _ _
        | brk v s2 => exact BIG.brk _ _
        | stop w => exact BIG.stop _
      | iff cnd tb rest p hbb hok hlen hTc hTt hTe =>
        rw [eval_if]
        have hC := ihE (posOf cur p) env cnd s hg hb hTc
        cases he : eval n (posOf cur p) env cnd s with
        | ok r s2 =>
          obtain ⟨cv, cenv⟩ := r
          simp only
          obtain ⟨hgc, hbc, hlec⟩ := hC cv cenv s2 he
          have hbr : ∀ br, (if truthy cv then (tb :: rest).head? else ((tb :: rest).drop 1).head?) = some br → TF G b br := by
            intro br hbr
            by_cases ht : truthy cv = true
            · rw [if_pos ht] at hbr
              simp only [List.head?_cons, Option.some.injEq] at hbr
              rw [← hbr]; exact hTt
            · rw [if_neg ht] at hbr
              simp only [List.drop_succ_cons, List.drop_zero] at hbr
              exact hTe br (List.mem_of_mem_head? hbr)
          cases hsel : (if truthy cv then (tb :: rest).head? else ((tb :: rest).drop 1).head?) with
          | none => exact BIG.ok _ _ _ hg (hb.mono hlec) hlec
          | some br =>
            simp only
            have hB := ihE (posOf cur p) cenv br s2 hgc hbc (hbr br hsel)
            cases hbe : eval n (posOf cur p) cenv br s2 with
            | ok r3 s3 =>
              obtain ⟨v, envx⟩ := r3
              obtain ⟨_, _, hle3⟩ := hB v envx s3 hbe
              exact BIG.ok _ _ _ hg (hb.mono (Nat.le_trans hlec hle3)) (Nat.le_trans hlec hle3)
            | err v q s3 => exact BIG.err _ _ _
            | brk v s3 => exact BIG.brk _ _
            | stop w => exact BIG.stop _
        | err v q s2 => exact BIG.err _ _ _
        | brk v s2 => exact BIG.brk _ _
        | stop w => exact BIG.stop _
    · cases body with
      | nil => simp only [evalSeq]; exact BIG.ok _ _ _ hg hb (Nat.le_refl _)
      | cons e t =>
        cases t with
        | nil => simp only [evalSeq]; exact ihE cur env e s hg hb (hT e (by simp))
        | cons y r =>
          simp only [evalSeq]
          have hE1 := ihE cur env e s hg hb (hT e (by simp))
          cases he : eval n cur env e s with
          | ok r1 s1 =>
            obtain ⟨v1, env1⟩ := r1
            obtain ⟨hg1, hb1, hle1⟩ := hE1 v1 env1 s1 he
            have hR := ihS cur env1 (y :: r) s1 hg1 hb1 (fun e' he' => hT e' (by simp [he']))
            intro a env' s' e'
            obtain ⟨h1, h2, h3⟩ := hR a env' s' e'
            exact ⟨h1, h2, Nat.le_trans hle1 h3⟩
          | err v q s1 => exact BIG.err _ _ _
          | brk v s1 => exact BIG.brk _ _
          | stop w => exact BIG.stop _
    · cases args with
      | nil => simp only [evalArgs]; exact BIG.ok _ _ _ hg hb (Nat.le_refl _)
      | cons e t =>
        simp only [evalArgs, (hT e (by simp)).notSplice]
        have hE1 := ihE cur env e s hg hb (hT e (by simp))
        cases he : eval n cur env e s with
        | ok r1 s1 =>
          obtain ⟨v1, env1⟩ := r1
          simp only
          obtain ⟨hg1, hb1, hle1⟩ := hE1 v1 env1 s1 he
          have hA := ihA cur env1 t s1 hg1 hb1 (fun e' he' => hT e' (by simp [he']))
          cases ha : evalArgs n cur env1 t s1 with
          | ok r2 s2 =>
            obtain ⟨vs, env2⟩ := r2
            obtain ⟨h1, h2, h3⟩ := hA vs env2 s2 ha
            exact BIG.ok _ _ _ h1 h2 (Nat.le_trans hle1 h3)
          | err v q s2 => exact BIG.err _ _ _
          | brk v s2 => exact BIG.brk _ _
          | stop w => exact BIG.stop _
        | err v q s1 => exact BIG.err _ _ _
        | brk v s1 => exact BIG.brk _ _
        | stop w => exact BIG.stop _

/-- across a form of the fragment: distinct names keep distinct boxes, the store only grows -/
theorem tf_boxinj (G : String → Prop) (b : Bool) (n : Nat) (cur : Pos) (env env' : Env) (e : Expr) (s s' : SS) (v : Value)
    (hg : ∀ f, G f → lookupEnv env f = none) (hb : BoxInj env s.boxes.size) (hT : TF G b e)
    (h : eval n cur env e s = .ok (v, env') s') : BoxInj env' s'.boxes.size ∧ s.boxes.size ≤ s'.boxes.size :=
  (((tf_biall G b n).1 cur env e s hg hb hT) v env' s' h).2

end JanetModel.Compile
