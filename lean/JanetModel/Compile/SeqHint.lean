/- C02: compiles with a hint slot, the cases whose own code ignores the hint — literal, symbol, `def` —: the un-hinted result
   followed by the copy into the hint (`hint_lit`, `hint_sym`, `hint_def`); statement `HintAtM` = `HintAt` (Compile/SeqHintDef.lean)
   with the extra hypothesis `rh ≤ sc.ra.max` (the hint register lies inside the frame: needed to WRITE it; the allocator model
   does not carry "allocated ⇒ ≤ max" as an invariant). -/
import JanetModel.Compile.SeqHintBase
namespace JanetModel.Compile
open JanetModel.Emit JanetModel.Lang JanetModel.Bytecode.Exec JanetModel.Gen.Bytecode

theorem finH_inv (last : Pos) (h ret slot : JSlot) (c1 c' : CState) (hf : finH last h (some (ret, c1)) = some (slot, c')) :
    slot = h ∧ ∃ c2, copySlot c1 h ret = some c2 ∧ c' = { c2 with cur := last } := by
  simp only [finH, Option.bind_eq_some_iff, Option.some.injEq, Prod.mk.injEq] at hf
  obtain ⟨c2, h1, h2, h3⟩ := hf
  exact ⟨h2.symm, c2, h1, h3.symm⟩

section
variable (p : Program) (f0 : Frame) (rest : List Frame) (V : Array Value) (P : List KConst)

/-- `HintAt` with the hint register inside the frame -/
def HintAtM (G : String → Prop) (T : Expr → Prop) (fuel : Nat) : Prop :=
  ∀ (e : Expr) (opts : Fopts) (c c' : CState) (slot : JSlot) (sc : Scope) (rs : List Scope) (pool : List KConst) (ps : List (List KConst))
    (n : Nat) (cur : Pos) (env env' : Env) (s s' : SS) (v : Value) (h : JSlot) (rh : Nat),
    opts.tail = false → opts.drop = false → opts.hint = some h → h.k = .loc rh → h.cflag = false → rh < 240 → sc.ra.alloc rh = true → rh ≤ sc.ra.max →
    c.scopes = sc :: rs → c.pools = pool :: ps → c.lim ≤ 240 → sc.top = false → c.map.length = c.buf.length → T e →
    cValue fuel opts e c = some (slot, c') → eval n cur env e s = .ok (v, env') s' → EnvS G c.scopes env s.boxes.size sc.ra →
    slot = h ∧ HintOK p f0 rest V P G c c' rh sc rs pool ps env env' s s' v

/-- a constant compiled with a hint: `LDK rh k` -/
theorem hint_const (hP : P.length < 65536)
    (hK : ∀ i, i < P.length → (p.defs.getD f0.defIdx default).consts.getD i .nil = litOf V (P.getD i .nil))
    (FF : FloatFacts) (G : String → Prop) (w : Value) (hw : SimpleLit w)
    (c c' : CState) (slot h : JSlot) (rh : Nat) (sc : Scope) (rs : List Scope) (pool : List KConst) (ps : List (List KConst)) (env : Env) (s : SS)
    (hk : h.k = .loc rh) (hcf : h.cflag = false) (hr : rh < 240) (hal : sc.ra.alloc rh = true) (hrm : rh ≤ sc.ra.max)
    (hs : c.scopes = sc :: rs) (hp : c.pools = pool :: ps) (hm : c.map.length = c.buf.length)
    (hc : finH c.cur h (some (constSlot c w)) = some (slot, c')) (hE : EnvS G c.scopes env s.boxes.size sc.ra) :
    slot = h ∧ HintOK p f0 rest V P G c c' rh sc rs pool ps env env s s w := by
  obtain ⟨vals1, kf, k1, k2, k3, k4⟩ := kOf_spec' FF c w hw
  have cs : constSlot c w = (cslot kf, { c with vals := vals1 }) := by unfold constSlot; rw [k1]
  have H := atom_const2 p f0 rest V P FF G c w hw sc rs pool ps hs hp env s hE
  rw [cs] at hc H
  obtain ⟨hsl, c2, hcp, hc'⟩ := finH_inv _ _ _ _ _ _ hc
  refine ⟨hsl, ?_⟩
  rw [hc']
  exact HintOK.recur (q := c.cur) (HintOK.of_copy p f0 rest V P hP hK G c { c with vals := vals1 } c2 (cslot kf) h rh sc rs pool ps env env s s w
    hk hcf hr hal hm hm H hcp hrm)

theorem hint_lit (hP : P.length < 65536)
    (hK : ∀ i, i < P.length → (p.defs.getD f0.defIdx default).consts.getD i .nil = litOf V (P.getD i .nil))
    (FF : FloatFacts) (G : String → Prop) (fuel : Nat) (w : Value) (hw : SimpleLit w) (opts : Fopts)
    (c c' : CState) (slot h : JSlot) (rh : Nat) (sc : Scope) (rs : List Scope) (pool : List KConst) (ps : List (List KConst))
    (n : Nat) (cur : Pos) (env env' : Env) (s s' : SS) (v : Value)
    (ht : opts.tail = false) (hh : opts.hint = some h)
    (hk : h.k = .loc rh) (hcf : h.cflag = false) (hr : rh < 240) (hal : sc.ra.alloc rh = true) (hrm : rh ≤ sc.ra.max)
    (hs : c.scopes = sc :: rs) (hp : c.pools = pool :: ps) (hm : c.map.length = c.buf.length)
    (hc : cValue (fuel + 1) opts (.lit w) c = some (slot, c')) (hsem : eval n cur env (.lit w) s = .ok (v, env') s')
    (hE : EnvS G c.scopes env s.boxes.size sc.ra) :
    slot = h ∧ HintOK p f0 rest V P G c c' rh sc rs pool ps env env' s s' v := by
  rw [cValue_lit_h fuel opts ht h hh w hw c] at hc
  cases n with
  | zero => simp [eval] at hsem
  | succ n =>
    rw [eval_lit] at hsem
    simp only [R.ok.injEq, Prod.mk.injEq] at hsem
    obtain ⟨⟨hv, he⟩, hss⟩ := hsem
    subst hv he hss
    exact hint_const p f0 rest V P hP hK FF G w hw c c' slot h rh sc rs pool ps env s hk hcf hr hal hrm hs hp hm hc hE

/-- a symbol compiled with a hint: a global function constant (`LDK`), another local (`MOVN`), the hinted variable itself (nothing) -/
theorem hint_sym (hP : P.length < 65536)
    (hK : ∀ i, i < P.length → (p.defs.getD f0.defIdx default).consts.getD i .nil = litOf V (P.getD i .nil))
    (FF : FloatFacts) (G : String → Prop) (fuel : Nat) (x : String) (opts : Fopts)
    (c c' : CState) (slot h : JSlot) (rh : Nat) (sc : Scope) (rs : List Scope) (pool : List KConst) (ps : List (List KConst))
    (n : Nat) (cur : Pos) (env env' : Env) (s s' : SS) (v : Value)
    (ht : opts.tail = false) (hh : opts.hint = some h)
    (hk : h.k = .loc rh) (hcf : h.cflag = false) (hr : rh < 240) (hal : sc.ra.alloc rh = true) (hrm : rh ≤ sc.ra.max)
    (hs : c.scopes = sc :: rs) (hp : c.pools = pool :: ps) (hm : c.map.length = c.buf.length)
    (hc : cValue (fuel + 1) opts (.sym x) c = some (slot, c')) (hsem : eval n cur env (.sym x) s = .ok (v, env') s')
    (hE : EnvS G c.scopes env s.boxes.size sc.ra) :
    slot = h ∧ HintOK p f0 rest V P G c c' rh sc rs pool ps env env' s s' v := by
  rw [cValue_sym_h fuel opts ht h hh] at hc
  rcases hE.2 x with ⟨hl1, hl2⟩ | ⟨sl, r, a, u, hl1, hk1, hn1, hc1, hl2, ha, hal1, hr1⟩
  · rw [resolve_global c x (by rw [lookupSlot_lk]; exact hl1)] at hc
    have hg : globalSlot c x = some (constSlot c (.cfun x)) := by
      unfold globalSlot at hc ⊢
      split at hc <;> simp_all [finH]
    rw [hg] at hc
    cases n with
    | zero => simp [eval] at hsem
    | succ n =>
      rw [eval_sym_global n cur env x s hl2] at hsem
      simp only [R.ok.injEq, Prod.mk.injEq] at hsem
      obtain ⟨⟨hv, he⟩, hss⟩ := hsem
      subst hv he hss
      exact hint_const p f0 rest V P hP hK FF G (.cfun x) trivial c c' slot h rh sc rs pool ps env s hk hcf hr hal hrm hs hp hm hc hE
  · rw [resolve_local c x sl u (by rw [lookupSlot_lk]; exact hl1) hc1] at hc
    cases n with
    | zero => simp [eval] at hsem
    | succ n =>
      rw [eval_sym_local n cur env x s a hl2] at hsem
      simp only [R.ok.injEq, Prod.mk.injEq] at hsem
      obtain ⟨⟨hv, he⟩, hss⟩ := hsem
      subst hv he hss
      obtain ⟨hsl, c2, hcp, hc'⟩ := finH_inv _ _ _ _ _ _ hc
      refine ⟨hsl, ?_⟩
      rw [hc']
      have H := atom_local2 p f0 rest V P G c x sl u sc rs pool ps hs hp env s a hE hl1 hl2
      exact HintOK.recur (q := c.cur) (HintOK.of_copy p f0 rest V P hP hK G c c c2 sl h rh sc rs pool ps env env s s (readBox s a)
        hk hcf hr hal hm hm H hcp hrm)

/-- `(def y e)` compiled with a hint: the un-hinted `def`, then the copy of the value's slot into the hint -/
theorem hint_def (hP : P.length < 65536)
    (hK : ∀ i, i < P.length → (p.defs.getD f0.defIdx default).consts.getD i .nil = litOf V (P.getD i .nil))
    (G : String → Prop) (b w : Bool) (fuel : Nat) (CN : CorrectAt p f0 rest V P G (TF G b) w fuel)
    (x : String) (ve : Expr) (pp : Pos) (hGx : ¬ G x) (hTv : TF G b ve) (opts : Fopts)
    (c c' : CState) (slot h : JSlot) (rh : Nat) (sc : Scope) (rs : List Scope) (pool : List KConst) (ps : List (List KConst))
    (n : Nat) (cur : Pos) (env env' : Env) (s s' : SS) (v : Value)
    (ht : opts.tail = false) (hh : opts.hint = some h)
    (hk : h.k = .loc rh) (hcf : h.cflag = false) (hr : rh < 240) (hal : sc.ra.alloc rh = true) (hrm : rh ≤ sc.ra.max)
    (hs : c.scopes = sc :: rs) (hp : c.pools = pool :: ps) (hl : c.lim ≤ 240) (htop : sc.top = false) (hm : c.map.length = c.buf.length)
    (hc : cValue (fuel + 1) opts (.form [.sym "def", .sym x, ve] pp) c = some (slot, c'))
    (hsem : eval n cur env (.form [.sym "def", .sym x, ve] pp) s = .ok (v, env') s')
    (hE : EnvS G c.scopes env s.boxes.size sc.ra) :
    slot = h ∧ HintOK p f0 rest V P G c c' rh sc rs pool ps env env' s s' v := by
  rw [cValue_def_h fuel opts ht h hh x ve pp c] at hc
  obtain ⟨q, hq⟩ := curAt_eq c pp
  cases hcc : cDef (cValue fuel) x ve (curAt c pp) with
  | none => rw [hcc] at hc; simp [finH] at hc
  | some res =>
    obtain ⟨slot0, cq⟩ := res
    rw [hcc] at hc
    obtain ⟨hsl, c2, hcp, hc'⟩ := finH_inv _ _ _ _ _ _ hc
    refine ⟨hsl, ?_⟩
    rw [hc']
    obtain ⟨n2, env1, s1, hn, hev, henv, hs'⟩ := eval_def_inv n cur env env' x ve pp s s' v hsem
    subst henv hs'
    rw [hq] at hcc
    have H := def_core p f0 rest V P hP hK G (TF G b) w fuel CN x ve hGx hTv { c with cur := q } cq slot0 sc rs pool ps n2 (posOf cur pp) env env1 s s1 v
      hs hp hl htop (fun _ => hm) hcc hev hE
    have hmq : cq.map.length = cq.buf.length :=
      (def_shapeM G fuel (tf_shapeM_at G fuel) b x ve hGx hTv { c with cur := q } cq slot0 sc rs pool ps hs hp htop hm hE.lkl hcc).1.mapLen hm
    exact HintOK.recur (HintOK.of_copy p f0 rest V P hP hK G { c with cur := q } cq c2 slot0 h rh sc rs pool ps env _ s _ v
      hk hcf hr hal hm hmq H hcp hrm)

end

end JanetModel.Compile
