/- C02: `janetc_pushslots` in general (operands pushed in groups of three with JOP_PUSH_3, then a remaining pair with
   JOP_PUSH_2 or a single one with JOP_PUSH), for operand slots that are constants or near locals, near registers.
   Factored as: operand preparation on the allocator (`Prep`: `nearTemp` / `farTemp`), the load list of one operand run on
   the VM (`run_operand`), the payload steps (`run_push2`, `run_push3`), the release of the temporaries (`net3`), then the
   PUSH_2 / PUSH_3 specifications in the shape of `push1` and `pushN` by recursion along `pushSlots`. -/
import JanetModel.Compile.SeqCorrect
namespace JanetModel.Compile
open JanetModel.Emit JanetModel.Lang JanetModel.Bytecode.Exec JanetModel.Gen.Bytecode

/-! ### operand preparation on the allocator -/

/-- the operand is a constant (needs a temporary and a load) -/
def isC : Slot → Bool
  | .const _ => true
  | _ => false

/-- `SK` on the emit-layer slot -/
def SKs (s : Slot) : Prop := (∃ kc, s = .const kc) ∨ (∃ r, s = .loc r ∧ r < 240)

theorem SK.sks {sl : JSlot} (h : SK sl) : SKs sl.k := h

/-- the load list of an `SK` operand that uses register `t` -/
def ldOf (cidx : KConst → Nat) (s : Slot) (t : Nat) : List MI :=
  match s with
  | .const k => [.ldk t k (cidx k)]
  | _ => []

/-- what obtaining the register of an `SK` operand does in the near case: `t` is the register the payload uses -/
structure Prep (ra : RA) (s : Slot) (tag t : Nat) (ra' : RA) : Prop where
  lt : t < 240
  maxge : isC s = true → t ≤ ra'.max
  mono : ra.max ≤ ra'.max
  alloc : ∀ j, ra'.alloc j = if (isC s = true ∧ j = t) then true else ra.alloc j
  free : isC s = true → ra.alloc t = false
  loc : ∀ r, s = .loc r → t = r
  rel : ∀ (ra'' : RA) (j : Nat), (W.freeNear ra'' s t tag).alloc j = if (isC s = true ∧ j = t) then false else ra''.alloc j

theorem allocTemp_max_mono (ra : RA) (tag : Nat) : ra.max ≤ (ra.allocTemp tag).2.max := by
  simp only [RA.allocTemp, RA.alloc1]
  split
  · dsimp only; split <;> omega
  · dsimp only [RA.mark]; split <;> omega

theorem nearTemp_max_mono (ra : RA) (s : Slot) (tag : Nat) : ra.max ≤ (W.nearTemp ra s tag).2.max := by
  unfold W.nearTemp
  split
  · exact allocTemp_max_mono ra tag
  · exact Nat.le_refl _

theorem backTemp_false (ra : RA) (s : Slot) : W.backTemp ra false s = (0, ra) := by
  cases s <;> rfl

/-- release of a constant operand's temporary -/
theorem freeNear_const (ra'' : RA) (kc : KConst) (t tag : Nat) (ht : t < 240) (j : Nat) :
    (W.freeNear ra'' (.const kc) t tag).alloc j = if (isC (.const kc) = true ∧ j = t) then false else ra''.alloc j := by
  simp only [W.freeNear, Slot.isLocal, Bool.false_and, Bool.false_eq_true, if_false, RA.freeTemp, ht, if_true, RA.unmark, isC, true_and]

theorem freeNear_loc (ra'' : RA) (r tag : Nat) (j : Nat) :
    (W.freeNear ra'' (.loc r) r tag).alloc j = if (isC (.loc r) = true ∧ j = r) then false else ra''.alloc j := by
  simp [W.freeNear, Slot.isLocal, Slot.index, isC]

theorem prep_loc (ra : RA) (r tag : Nat) (hr : r < 240) : Prep ra (.loc r) tag r ra := by
  refine ⟨hr, fun hh => absurd hh (by simp [isC]), Nat.le_refl _, ?_, fun hh => absurd hh (by simp [isC]), ?_, ?_⟩
  · intro j; simp [isC]
  · intro r' hh; exact (Slot.loc.inj hh)
  · intro ra'' j; exact freeNear_loc ra'' r tag j

/-- (i) `nearTemp` on an `SK` slot, near case -/
theorem nearTemp_prep (cidx : KConst → Nat) (ra ra' : RA) (s : Slot) (tag t : Nat) (hs : SKs s)
    (h : W.nearTemp ra s tag = (t, ra')) (hmax : ra'.max < 240) :
    Prep ra s tag t ra' ∧ regnear cidx s t = (t, ldOf cidx s t) := by
  rcases hs with ⟨kc, rfl⟩ | ⟨r, rfl, hr⟩
  · have e : W.nearTemp ra (.const kc) tag = ra.allocTemp tag := by
      simp [W.nearTemp, W.needTemp, Slot.nearLocal]
    rw [e] at h
    have ht : (ra.allocTemp tag).1 = t := by rw [h]
    have hr' : (ra.allocTemp tag).2 = ra' := by rw [h]
    obtain ⟨a1, a2, a3, a4, a5⟩ := allocTemp_near ra tag (by rw [hr']; exact hmax)
    rw [ht] at a1 a2 a3 a5
    rw [hr'] at a2 a4 a5
    refine ⟨⟨a3, fun _ => a2, a4, ?_, fun _ => a1, ?_, ?_⟩, ?_⟩
    · intro j; rw [a5 j]; simp [isC]
    · intro r hh; exact Slot.noConfusion hh
    · intro ra'' j; exact freeNear_const ra'' kc t tag a3 j
    · simp [regnear, Slot.nearLocal, movenear, ldOf]
  · have hnl : (Slot.loc r).nearLocal = true := by simp only [Slot.nearLocal, decide_eq_true_eq]; omega
    have e : W.nearTemp ra (.loc r) tag = (r, ra) := by simp [W.nearTemp, W.needTemp, hnl, Slot.index]
    rw [e] at h
    obtain ⟨rfl, rfl⟩ := Prod.mk.inj h
    exact ⟨prep_loc ra r tag hr, by simp [regnear, hnl, Slot.index, ldOf]⟩

/-- (i) `farTemp` on an `SK` slot, near case -/
theorem farTemp_prep (cidx : KConst → Nat) (ra ra' : RA) (s : Slot) (tag t1 fr r2 : Nat) (hs : SKs s)
    (h : W.farTemp ra s tag = (t1, fr, r2, ra')) (hmax : ra'.max < 240) :
    Prep ra s tag r2 ra' ∧ regfar cidx s t1 fr = (r2, ldOf cidx s r2) := by
  rcases hs with ⟨kc, rfl⟩ | ⟨r, rfl, hr⟩
  · by_cases hn : (ra.allocTemp tag).1 ≥ 0xF0
    · exfalso
      have e : W.farTemp ra (.const kc) tag =
          ((ra.allocTemp tag).1, ((ra.allocTemp tag).2.alloc1).1, ((ra.allocTemp tag).2.alloc1).1,
            ((ra.allocTemp tag).2.alloc1).2.freeTemp (ra.allocTemp tag).1 tag) := by
        simp only [W.farTemp, Slot.isLocal, Bool.false_eq_true, if_false, hn, if_true]
      rw [e] at h
      have hra : ((ra.allocTemp tag).2.alloc1).2.freeTemp (ra.allocTemp tag).1 tag = ra' := by
        have := congrArg (fun x => x.2.2.2) h; exact this
      have m1 := allocTemp_max_ge ra tag
      have m2 := alloc1_max_mono (ra.allocTemp tag).2
      have m3 := freeTemp_max ((ra.allocTemp tag).2.alloc1).2 (ra.allocTemp tag).1 tag
      rw [hra] at m3
      omega
    · have e : W.farTemp ra (.const kc) tag =
          ((ra.allocTemp tag).1, 0, (ra.allocTemp tag).1, (((ra.allocTemp tag).2).freeTemp (ra.allocTemp tag).1 tag).mark (ra.allocTemp tag).1) := by
        simp only [W.farTemp, Slot.isLocal, Bool.false_eq_true, if_false, hn]
      rw [e] at h
      have h1 : (ra.allocTemp tag).1 = t1 := congrArg (fun x => x.1) h
      have h2 : 0 = fr := congrArg (fun x => x.2.1) h
      have h3 : (ra.allocTemp tag).1 = r2 := congrArg (fun x => x.2.2.1) h
      have h4 : (((ra.allocTemp tag).2).freeTemp (ra.allocTemp tag).1 tag).mark (ra.allocTemp tag).1 = ra' := congrArg (fun x => x.2.2.2) h
      have hm : ra'.max = (ra.allocTemp tag).2.max := by rw [← h4, mark_max, freeTemp_max]
      obtain ⟨a1, a2, a3, a4, a5⟩ := allocTemp_near ra tag (by omega)
      rw [h3] at a1 a2 a3 a5
      rw [← hm] at a2 a4
      have ht1 : t1 = r2 := by rw [← h1, h3]
      refine ⟨⟨a3, fun _ => a2, a4, ?_, fun _ => a1, ?_, ?_⟩, ?_⟩
      · intro j
        rw [← h4, h3]
        simp only [RA.mark, RA.freeTemp, a3, if_true, RA.unmark, isC, true_and]
        by_cases hj : j = r2
        · simp only [hj, if_true]
        · simp only [hj, if_false]; rw [a5 j, if_neg hj]
      · intro r hh; exact Slot.noConfusion hh
      · intro ra'' j; exact freeNear_const ra'' kc r2 tag a3 j
      · have hn' : ¬ (r2 ≥ 240) := by omega
        subst ht1
        simp [regfar, Slot.isLocal, hn', movenear, ldOf]
  · have e : W.farTemp ra (.loc r) tag = (0, 0, r, ra) := by simp [W.farTemp, Slot.isLocal, Slot.index]
    rw [e] at h
    have h3 : r = r2 := congrArg (fun x => x.2.2.1) h
    have h4 : ra = ra' := congrArg (fun x => x.2.2.2) h
    subst h3 h4
    exact ⟨prep_loc ra r tag hr, by simp [regfar, Slot.isLocal, Slot.index, ldOf]⟩

/-- (iv) three temporaries obtained in order and released (second, third, first): `alloc` is what it was -/
theorem net3 (a a1 a2 a3 a4 a5 a6 : Nat → Bool) (c0 c1 c2 : Bool) (t0 t1 t2 : Nat)
    (h1 : ∀ j, a1 j = if (c0 = true ∧ j = t0) then true else a j) (f0 : c0 = true → a t0 = false)
    (h2 : ∀ j, a2 j = if (c1 = true ∧ j = t1) then true else a1 j) (f1 : c1 = true → a1 t1 = false)
    (h3 : ∀ j, a3 j = if (c2 = true ∧ j = t2) then true else a2 j) (f2 : c2 = true → a2 t2 = false)
    (h4 : ∀ j, a4 j = if (c1 = true ∧ j = t1) then false else a3 j)
    (h5 : ∀ j, a5 j = if (c2 = true ∧ j = t2) then false else a4 j)
    (h6 : ∀ j, a6 j = if (c0 = true ∧ j = t0) then false else a5 j) : ∀ j, a6 j = a j := by
  intro j
  rw [h6]
  by_cases e0 : c0 = true ∧ j = t0
  · rw [if_pos e0, e0.2]; exact (f0 e0.1).symm
  · rw [if_neg e0, h5]
    by_cases e2 : c2 = true ∧ j = t2
    · rw [if_pos e2, e2.2]
      have := f2 e2.1
      rw [h2, h1] at this
      split at this
      · exact Bool.noConfusion this
      · split at this
        · exact Bool.noConfusion this
        · exact this.symm
    · rw [if_neg e2, h4]
      by_cases e1 : c1 = true ∧ j = t1
      · rw [if_pos e1, e1.2]
        have := f1 e1.1
        rw [h1] at this
        split at this
        · exact Bool.noConfusion this
        · exact this.symm
      · rw [if_neg e1, h3, if_neg e2, h2, if_neg e1, h1, if_neg e0]

/-! ### the wrappers as functions of the temporaries -/

theorem W_emitSSS_eq (ra0 : RA) (pool : List KConst) (op : Nat) (s1 s2 s3 : Slot) (t0 : Nat) (ra1 : RA) (t1 : Nat) (ra2 : RA) (t2 : Nat) (ra3 : RA)
    (poolF : List KConst) (e0 : W.nearTemp ra0 s1 0 = (t0, ra1)) (e1 : W.nearTemp ra1 s2 1 = (t1, ra2)) (e2 : W.nearTemp ra2 s3 2 = (t2, ra3))
    (hF : (W.slotConst s1 ++ W.slotConst s2 ++ W.slotConst s3).foldl W.intern pool = poolF) :
    W.emitSSS { ra := ra0, buf := [], consts := pool } op false s1 s2 s3 =
      { ra := W.freeNear (W.freeNear (W.freeNear ra3 s2 t1 1) s3 t2 2) s1 t0 0,
        buf := Emit.emitSSS (W.poolIdx poolF) op false s1 s2 s3 t0 t1 t2 0, consts := poolF } := by
  subst hF
  simp only [W.emitSSS, e0, e1, e2, backTemp_false, W.finish, List.nil_append]

theorem W_emitSS_eq (ra0 : RA) (pool : List KConst) (op : Nat) (s1 s2 : Slot) (t0 : Nat) (ra1 : RA) (t1 fr r2 : Nat) (ra2 : RA)
    (poolF : List KConst) (e0 : W.nearTemp ra0 s1 0 = (t0, ra1)) (e1 : W.farTemp ra1 s2 1 = (t1, fr, r2, ra2))
    (hF : (W.slotConst s1 ++ W.slotConst s2).foldl W.intern pool = poolF) :
    W.emitSS { ra := ra0, buf := [], consts := pool } op false s1 s2 =
      { ra := W.freeNear (W.freeNear ra2 s2 r2 1) s1 t0 0,
        buf := Emit.emitSS (W.poolIdx poolF) op false s1 s2 t0 t1 fr 0, consts := poolF } := by
  subst hF
  simp only [W.emitSS, e0, e1, backTemp_false, W.finish, List.nil_append]

theorem emitSSS_pure (cidx : KConst → Nat) (op : Nat) (s1 s2 s3 : Slot) (t0 t1 t2 : Nat)
    (r0 : regnear cidx s1 t0 = (t0, ldOf cidx s1 t0)) (r1 : regnear cidx s2 t1 = (t1, ldOf cidx s2 t1))
    (r2 : regnear cidx s3 t2 = (t2, ldOf cidx s3 t2)) :
    (Emit.emitSSS cidx op false s1 s2 s3 t0 t1 t2 0).map CI.mi =
      (ldOf cidx s1 t0).map CI.mi ++ ((ldOf cidx s2 t1).map CI.mi ++ ((ldOf cidx s3 t2).map CI.mi ++ [CI.mi (.pay op .sss false [t0, t1, t2] 0)])) := by
  simp only [Emit.emitSSS, r0, r1, r2, wb, Bool.false_eq_true, if_false, List.append_nil, List.map_append, List.append_assoc,
    List.map_cons, List.map_nil]

theorem emitSS_pure (cidx : KConst → Nat) (op : Nat) (s1 s2 : Slot) (t0 t1 fr r2 : Nat)
    (r0 : regnear cidx s1 t0 = (t0, ldOf cidx s1 t0)) (r1 : regfar cidx s2 t1 fr = (r2, ldOf cidx s2 r2)) :
    (Emit.emitSS cidx op false s1 s2 t0 t1 fr 0).map CI.mi =
      (ldOf cidx s1 t0).map CI.mi ++ ((ldOf cidx s2 r2).map CI.mi ++ [CI.mi (.pay op .ss false [t0, r2] 0)]) := by
  simp only [Emit.emitSS, r0, r1, wb, Bool.false_eq_true, if_false, List.append_nil, List.map_append, List.append_assoc,
    List.map_cons, List.map_nil]

/-! ### the pool: constants interned in order -/

theorem foldl_intern_pref : ∀ (L pool : List KConst), PrefL pool (L.foldl W.intern pool)
  | [], _ => PrefL.refl _
  | k :: L, pool => (intern_pref pool k).trans (foldl_intern_pref L _)

theorem foldl_intern_mem : ∀ (L pool : List KConst) (k : KConst), (k ∈ pool ∨ k ∈ L) → k ∈ L.foldl W.intern pool
  | [], pool, k, h => by
    rcases h with h | h
    · exact h
    · exact absurd h (by simp)
  | a :: L, pool, k, h => by
    simp only [List.foldl_cons]
    apply foldl_intern_mem L
    rcases h with h | h
    · left
      obtain ⟨m, hm⟩ := intern_pref pool a
      rw [hm]; exact List.mem_append_left _ h
    · rcases List.mem_cons.mp h with e | h
      · left; rw [e]; exact intern_mem pool _
      · right; exact h

theorem slotConst_mem (s : Slot) (kc : KConst) (h : s = .const kc) (hp : kc.pooled = true) : kc ∈ W.slotConst s := by
  subst h; simp [W.slotConst, hp]

/-- a constant interned somewhere before the final pool `P` of the function: its index (looked up in any intermediate pool
    that contains it) is where the function's constant table has its value -/
theorem pool_ok (p : Program) (f0 : Frame) (V : Array Value) (P : List KConst) (hP : P.length < 65536)
    (hK : ∀ i, i < P.length → (p.defs.getD f0.defIdx default).consts.getD i .nil = litOf V (P.getD i .nil))
    (pool' : List KConst) (hpre : PrefL pool' P) (kc : KConst) (hm : kc.pooled = true → kc ∈ pool') :
    W.poolIdx pool' kc < 65536 ∧
      (kc.pooled = true → (p.defs.getD f0.defIdx default).consts.getD (W.poolIdx pool' kc) .nil = litOf V kc) := by
  have hl := hpre.length
  refine ⟨by have := poolIdx_le pool' kc; omega, ?_⟩
  intro hp
  obtain ⟨h1, h2⟩ := idxOf_getD pool' kc (hm hp)
  unfold W.poolIdx
  rw [hK _ (by omega), hpre.getD _ h1, h2]

/-! ### registers -/

/-- the register file after the load list of an operand -/
def ldRegs (V : Array Value) (regs : Array Value) (s : Slot) (t : Nat) : Array Value :=
  match s with
  | .const kc => regs.setIfInBounds t (litOf V kc)
  | _ => regs

def slotValS (V : Array Value) (regs : Array Value) (s : Slot) : Value :=
  match s with
  | .const kc => litOf V kc
  | .loc r => regs.getD r .nil
  | _ => .nil

theorem slotVal_eq (V regs : Array Value) (sl : JSlot) : slotVal V regs sl = slotValS V regs sl.k := rfl

theorem slotValS_frame (V regs regs' : Array Value) (s : Slot)
    (h : ∀ r, s = .loc r → regs'.getD r .nil = regs.getD r .nil) : slotValS V regs' s = slotValS V regs s := by
  cases s with
  | loc r => exact h r rfl
  | _ => rfl

theorem operand_regs (V regs : Array Value) (ra ra' : RA) (s : Slot) (tag t : Nat) (hs : SKs s) (hp : Prep ra s tag t ra')
    (hloc : ∀ r, s = .loc r → ra.alloc r = true) (hsz : ra'.max < regs.size) :
    (ldRegs V regs s t).size = regs.size ∧
    (∀ j, ra.alloc j = true → (ldRegs V regs s t).getD j .nil = regs.getD j .nil) ∧
    (ldRegs V regs s t).getD t .nil = slotValS V regs s ∧
    ra'.alloc t = true ∧
    (∀ j, ra.alloc j = true → ra'.alloc j = true) := by
  have hmono : ∀ j, ra.alloc j = true → ra'.alloc j = true := by
    intro j hj; rw [hp.alloc j]; split
    · rfl
    · exact hj
  rcases hs with ⟨kc, rfl⟩ | ⟨r, rfl, _⟩
  · have hf := hp.free rfl
    have hm := hp.maxge rfl
    refine ⟨size_set _ _ _, ?_, getD_set_eq _ _ _ (by omega), ?_, hmono⟩
    · intro j hj
      exact getD_set_ne _ _ _ _ (by intro e; rw [e, hf] at hj; exact Bool.noConfusion hj)
    · rw [hp.alloc t]; simp [isC]
  · have e := hp.loc r rfl
    subst e
    exact ⟨rfl, fun _ _ => rfl, rfl, hmono _ (hloc _ rfl), hmono⟩

section
variable (p : Program) (f0 : Frame) (rest : List Frame) (V : Array Value)

/-- (ii) the load list of one operand on the VM -/
theorem run_operand (regs : Array Value) (pc : Nat) (args : Array Value) (w : World) (s : Slot) (t : Nat) (cidx : KConst → Nat)
    (ht : t < 240)
    (hpool : ∀ kc, s = .const kc → cidx kc < 65536 ∧
      (kc.pooled = true → (p.defs.getD f0.defIdx default).consts.getD (cidx kc) .nil = litOf V kc))
    (hcode : CodeAt (p.defs.getD f0.defIdx default).code pc ((ldOf cidx s t).map CI.mi)) :
    Reach p (inj f0 rest { regs := regs, pc := pc, args := args, w := w })
      (inj f0 rest { regs := ldRegs V regs s t, pc := pc + ((ldOf cidx s t).map CI.mi).length, args := args, w := w }) := by
  cases s with
  | const kc =>
    obtain ⟨hi, hc⟩ := hpool kc rfl
    have s1 := run_ldk p f0 rest { regs := regs, pc := pc, args := args, w := w } t kc (cidx kc) V (by omega) hi hcode.head hc
    exact Reach.head s1 (Reach.refl _ _)
  | loc r => exact Reach.refl _ _
  | up e i => exact Reach.refl _ _
  | ref id => exact Reach.refl _ _

/-- (iii) JOP_PUSH_2 / JOP_PUSH_3 on frame-local configurations -/
theorem run_push2 (regs : Array Value) (pc : Nat) (args : Array Value) (w : World) (a e : Nat) (ha : a < 256) (he : e < 65536)
    (hcode : (p.defs.getD f0.defIdx default).code[pc]? = some (CI.mi (.pay Op.push2.toNat .ss false [a, e] 0)).word) :
    step p (inj f0 rest { regs := regs, pc := pc, args := args, w := w }) =
      .next (inj f0 rest { regs := regs, pc := pc + 1, args := (args.push (regs.getD a .nil)).push (regs.getD e .nil), w := w }) := by
  have h := push2_agrees p (inj f0 rest { regs := regs, pc := pc, args := args, w := w }) a e ha he (by rw [inj_curDef, inj_pc]; exact hcode)
  rw [h]
  rfl

theorem run_push3 (regs : Array Value) (pc : Nat) (args : Array Value) (w : World) (a b c : Nat) (ha : a < 256) (hb : b < 256) (hc : c < 256)
    (hcode : (p.defs.getD f0.defIdx default).code[pc]? = some (CI.mi (.pay Op.push3.toNat .sss false [a, b, c] 0)).word) :
    step p (inj f0 rest { regs := regs, pc := pc, args := args, w := w }) =
      .next (inj f0 rest { regs := regs, pc := pc + 1, args := ((args.push (regs.getD a .nil)).push (regs.getD b .nil)).push (regs.getD c .nil), w := w }) := by
  have h := push3_agrees p (inj f0 rest { regs := regs, pc := pc, args := args, w := w }) a b c ha hb hc (by rw [inj_curDef, inj_pc]; exact hcode)
  rw [h]
  rfl

end

section
variable (p : Program) (f0 : Frame) (rest : List Frame) (V : Array Value) (P : List KConst)

/-- `janetc_emit_sss(c, JOP_PUSH_3, a, b, d, 0)`: compile-side effect and VM run -/
theorem push3 (hP : P.length < 65536)
    (hK : ∀ i, i < P.length → (p.defs.getD f0.defIdx default).consts.getD i .nil = litOf V (P.getD i .nil))
    (c c3 : CState) (s1 s2 s3 : JSlot) (sc : Scope) (rs : List Scope) (pool : List KConst) (ps : List (List KConst))
    (hs : c.scopes = sc :: rs) (hp : c.pools = pool :: ps) (hl : c.lim ≤ 240)
    (k1 : SK s1) (k2 : SK s2) (k3 : SK s3)
    (l1 : ∀ r, s1.k = .loc r → sc.ra.alloc r = true) (l2 : ∀ r, s2.k = .loc r → sc.ra.alloc r = true)
    (l3 : ∀ r, s3.k = .loc r → sc.ra.alloc r = true)
    (h : emitSSS c .push3 s1 s2 s3 false = some c3) :
    ∃ (ra3 : RA) (more : List KConst) (seg : List CI) (segm : List Pos),
      c3 = { c with scopes := { sc with ra := ra3 } :: rs, pools := (pool ++ more) :: ps, buf := c.buf ++ seg, map := c.map ++ segm } ∧
      (∀ j, ra3.alloc j = sc.ra.alloc j) ∧ sc.ra.max ≤ ra3.max ∧ ra3.max < c.lim ∧
      ∀ (k : Cfg), CodeAt (p.defs.getD f0.defIdx default).code k.pc seg → PrefL (pool ++ more) P → ra3.max < k.regs.size →
        ∃ regs', Reach p (inj f0 rest k) (inj f0 rest { regs := regs', pc := k.pc + seg.length, args := ((k.args.push (slotVal V k.regs s1)).push (slotVal V k.regs s2)).push (slotVal V k.regs s3), w := k.w }) ∧
          regs'.size = k.regs.size ∧ ∀ r, sc.ra.alloc r = true → regs'.getD r .nil = k.regs.getD r .nil := by
  unfold emitSSS at h
  obtain ⟨hmax, hc3⟩ := emitW_spec c c3 _ sc rs pool ps hs hp h
  obtain ⟨t0, ra1, e0⟩ : ∃ t0 ra1, W.nearTemp sc.ra s1.k 0 = (t0, ra1) := ⟨_, _, rfl⟩
  obtain ⟨t1, ra2, e1⟩ : ∃ t1 ra2, W.nearTemp ra1 s2.k 1 = (t1, ra2) := ⟨_, _, rfl⟩
  obtain ⟨t2, ra3, e2⟩ : ∃ t2 ra3, W.nearTemp ra2 s3.k 2 = (t2, ra3) := ⟨_, _, rfl⟩
  obtain ⟨poolF, hF⟩ : ∃ poolF, (W.slotConst s1.k ++ W.slotConst s2.k ++ W.slotConst s3.k).foldl W.intern pool = poolF := ⟨_, rfl⟩
  rw [W_emitSSS_eq sc.ra pool Op.push3.toNat s1.k s2.k s3.k t0 ra1 t1 ra2 t2 ra3 poolF e0 e1 e2 hF] at hmax hc3
  simp only [freeNear_max] at hmax
  have m1 : ra1.max ≤ ra2.max := by have := nearTemp_max_mono ra1 s2.k 1; rw [e1] at this; exact this
  have m2 : ra2.max ≤ ra3.max := by have := nearTemp_max_mono ra2 s3.k 2; rw [e2] at this; exact this
  obtain ⟨p0, r0⟩ := nearTemp_prep (W.poolIdx poolF) sc.ra ra1 s1.k 0 t0 k1 e0 (by omega)
  obtain ⟨p1, r1⟩ := nearTemp_prep (W.poolIdx poolF) ra1 ra2 s2.k 1 t1 k2 e1 (by omega)
  obtain ⟨p2, r2⟩ := nearTemp_prep (W.poolIdx poolF) ra2 ra3 s3.k 2 t2 k3 e2 (by omega)
  have hmem : ∀ kc, (s1.k = .const kc ∨ s2.k = .const kc ∨ s3.k = .const kc) → kc.pooled = true → kc ∈ poolF := by
    intro kc hh hpl
    rw [← hF]
    apply foldl_intern_mem
    right
    rcases hh with hh | hh | hh
    · exact List.mem_append_left _ (List.mem_append_left _ (slotConst_mem _ _ hh hpl))
    · exact List.mem_append_left _ (List.mem_append_right _ (slotConst_mem _ _ hh hpl))
    · exact List.mem_append_right _ (slotConst_mem _ _ hh hpl)
  obtain ⟨more, hmore⟩ : PrefL pool poolF := by rw [← hF]; exact foldl_intern_pref _ _
  have hpure := emitSSS_pure (W.poolIdx poolF) Op.push3.toNat s1.k s2.k s3.k t0 t1 t2 r0 r1 r2
  have hnet : ∀ j, (W.freeNear (W.freeNear (W.freeNear ra3 s2.k t1 1) s3.k t2 2) s1.k t0 0).alloc j = sc.ra.alloc j :=
    net3 sc.ra.alloc ra1.alloc ra2.alloc ra3.alloc _ _ _ (isC s1.k) (isC s2.k) (isC s3.k) t0 t1 t2
      p0.alloc p0.free p1.alloc p1.free p2.alloc p2.free (p1.rel ra3) (p2.rel _) (p0.rel _)
  refine ⟨W.freeNear (W.freeNear (W.freeNear ra3 s2.k t1 1) s3.k t2 2) s1.k t0 0, more,
    (Emit.emitSSS (W.poolIdx poolF) Op.push3.toNat false s1.k s2.k s3.k t0 t1 t2 0).map CI.mi,
    (Emit.emitSSS (W.poolIdx poolF) Op.push3.toNat false s1.k s2.k s3.k t0 t1 t2 0).map (fun _ => c.cur), ?_, hnet, ?_, ?_, ?_⟩
  · rw [← hmore]; exact hc3
  · simp only [freeNear_max]; have := p0.mono; omega
  · simp only [freeNear_max]; exact hmax
  · intro k hcode hpre hsz
    simp only [freeNear_max] at hsz
    rw [← hmore] at hpre
    have hlen : k.pc + ((Emit.emitSSS (W.poolIdx poolF) Op.push3.toNat false s1.k s2.k s3.k t0 t1 t2 0).map CI.mi).length =
        k.pc + ((ldOf (W.poolIdx poolF) s1.k t0).map CI.mi).length + ((ldOf (W.poolIdx poolF) s2.k t1).map CI.mi).length +
          ((ldOf (W.poolIdx poolF) s3.k t2).map CI.mi).length + 1 := by
      rw [hpure]; simp only [List.length_append, List.length_cons, List.length_nil]; omega
    rw [hpure] at hcode
    have hpl : ∀ kc, (s1.k = .const kc ∨ s2.k = .const kc ∨ s3.k = .const kc) → W.poolIdx poolF kc < 65536 ∧
        (kc.pooled = true → (p.defs.getD f0.defIdx default).consts.getD (W.poolIdx poolF kc) .nil = litOf V kc) :=
      fun kc hh => pool_ok p f0 V P hP hK poolF hpre kc (hmem kc hh)
    obtain ⟨z0, fr0, g0, al0, mo0⟩ := operand_regs V k.regs sc.ra ra1 s1.k 0 t0 k1 p0 l1 (by omega)
    obtain ⟨z1, fr1, g1, al1, mo1⟩ := operand_regs V (ldRegs V k.regs s1.k t0) ra1 ra2 s2.k 1 t1 k2 p1
      (fun r hr => mo0 r (l2 r hr)) (by rw [z0]; omega)
    obtain ⟨z2, fr2, g2, al2, mo2⟩ := operand_regs V (ldRegs V (ldRegs V k.regs s1.k t0) s2.k t1) ra2 ra3 s3.k 2 t2 k3 p2
      (fun r hr => mo1 r (mo0 r (l3 r hr))) (by rw [z1, z0]; omega)
    have R0 := run_operand p f0 rest V k.regs k.pc k.args k.w s1.k t0 (W.poolIdx poolF) p0.lt
      (fun kc hk => hpl kc (Or.inl hk)) hcode.left
    have R1 := run_operand p f0 rest V (ldRegs V k.regs s1.k t0) _ k.args k.w s2.k t1 (W.poolIdx poolF) p1.lt
      (fun kc hk => hpl kc (Or.inr (Or.inl hk))) hcode.right.left
    have R2 := run_operand p f0 rest V (ldRegs V (ldRegs V k.regs s1.k t0) s2.k t1) _ k.args k.w s3.k t2 (W.poolIdx poolF) p2.lt
      (fun kc hk => hpl kc (Or.inr (Or.inr hk))) hcode.right.right.left
    have S := run_push3 p f0 rest (ldRegs V (ldRegs V (ldRegs V k.regs s1.k t0) s2.k t1) s3.k t2) _ k.args k.w t0 t1 t2
      (by have := p0.lt; omega) (by have := p1.lt; omega) (by have := p2.lt; omega) hcode.right.right.right.head
    -- the values pushed
    have v0 : (ldRegs V (ldRegs V (ldRegs V k.regs s1.k t0) s2.k t1) s3.k t2).getD t0 .nil = slotVal V k.regs s1 := by
      rw [fr2 t0 (mo1 t0 al0), fr1 t0 al0, g0]; rfl
    have v1 : (ldRegs V (ldRegs V (ldRegs V k.regs s1.k t0) s2.k t1) s3.k t2).getD t1 .nil = slotVal V k.regs s2 := by
      rw [fr2 t1 al1, g1, slotVal_eq]
      exact slotValS_frame V _ _ _ (fun r hr => fr0 r (l2 r hr))
    have v2 : (ldRegs V (ldRegs V (ldRegs V k.regs s1.k t0) s2.k t1) s3.k t2).getD t2 .nil = slotVal V k.regs s3 := by
      rw [g2, slotVal_eq]
      exact slotValS_frame V _ _ _ (fun r hr => by rw [fr1 r (mo0 r (l3 r hr)), fr0 r (l3 r hr)])
    rw [v0, v1, v2] at S
    refine ⟨ldRegs V (ldRegs V (ldRegs V k.regs s1.k t0) s2.k t1) s3.k t2, ?_, by rw [z2, z1, z0], ?_⟩
    · refine Reach.trans R0 (Reach.trans R1 (Reach.trans R2 (Reach.head S ?_)))
      rw [hlen]
      exact Reach.refl _ _
    · intro r hr
      rw [fr2 r (mo1 r (mo0 r hr)), fr1 r (mo0 r hr), fr0 r hr]

/-- `janetc_emit_ss(c, JOP_PUSH_2, a, b, 0)`: compile-side effect and VM run -/
theorem push2 (hP : P.length < 65536)
    (hK : ∀ i, i < P.length → (p.defs.getD f0.defIdx default).consts.getD i .nil = litOf V (P.getD i .nil))
    (c c3 : CState) (s1 s2 : JSlot) (sc : Scope) (rs : List Scope) (pool : List KConst) (ps : List (List KConst))
    (hs : c.scopes = sc :: rs) (hp : c.pools = pool :: ps) (hl : c.lim ≤ 240)
    (k1 : SK s1) (k2 : SK s2)
    (l1 : ∀ r, s1.k = .loc r → sc.ra.alloc r = true) (l2 : ∀ r, s2.k = .loc r → sc.ra.alloc r = true)
    (h : emitSS c .push2 s1 s2 false = some c3) :
    ∃ (ra3 : RA) (more : List KConst) (seg : List CI) (segm : List Pos),
      c3 = { c with scopes := { sc with ra := ra3 } :: rs, pools := (pool ++ more) :: ps, buf := c.buf ++ seg, map := c.map ++ segm } ∧
      (∀ j, ra3.alloc j = sc.ra.alloc j) ∧ sc.ra.max ≤ ra3.max ∧ ra3.max < c.lim ∧
      ∀ (k : Cfg), CodeAt (p.defs.getD f0.defIdx default).code k.pc seg → PrefL (pool ++ more) P → ra3.max < k.regs.size →
        ∃ regs', Reach p (inj f0 rest k) (inj f0 rest { regs := regs', pc := k.pc + seg.length, args := (k.args.push (slotVal V k.regs s1)).push (slotVal V k.regs s2), w := k.w }) ∧
          regs'.size = k.regs.size ∧ ∀ r, sc.ra.alloc r = true → regs'.getD r .nil = k.regs.getD r .nil := by
  unfold emitSS at h
  obtain ⟨hmax, hc3⟩ := emitW_spec c c3 _ sc rs pool ps hs hp h
  obtain ⟨t0, ra1, e0⟩ : ∃ t0 ra1, W.nearTemp sc.ra s1.k 0 = (t0, ra1) := ⟨_, _, rfl⟩
  obtain ⟨t1, fr, r2, ra2, e1⟩ : ∃ t1 fr r2 ra2, W.farTemp ra1 s2.k 1 = (t1, fr, r2, ra2) := ⟨_, _, _, _, rfl⟩
  obtain ⟨poolF, hF⟩ : ∃ poolF, (W.slotConst s1.k ++ W.slotConst s2.k).foldl W.intern pool = poolF := ⟨_, rfl⟩
  rw [W_emitSS_eq sc.ra pool Op.push2.toNat s1.k s2.k t0 ra1 t1 fr r2 ra2 poolF e0 e1 hF] at hmax hc3
  simp only [freeNear_max] at hmax
  obtain ⟨p1, r1⟩ := farTemp_prep (W.poolIdx poolF) ra1 ra2 s2.k 1 t1 fr r2 k2 e1 (by omega)
  have m1 : ra1.max ≤ ra2.max := p1.mono
  obtain ⟨p0, r0⟩ := nearTemp_prep (W.poolIdx poolF) sc.ra ra1 s1.k 0 t0 k1 e0 (by omega)
  have hmem : ∀ kc, (s1.k = .const kc ∨ s2.k = .const kc) → kc.pooled = true → kc ∈ poolF := by
    intro kc hh hpl
    rw [← hF]
    apply foldl_intern_mem
    right
    rcases hh with hh | hh
    · exact List.mem_append_left _ (slotConst_mem _ _ hh hpl)
    · exact List.mem_append_right _ (slotConst_mem _ _ hh hpl)
  obtain ⟨more, hmore⟩ : PrefL pool poolF := by rw [← hF]; exact foldl_intern_pref _ _
  have hpure := emitSS_pure (W.poolIdx poolF) Op.push2.toNat s1.k s2.k t0 t1 fr r2 r0 r1
  have hnet : ∀ j, (W.freeNear (W.freeNear ra2 s2.k r2 1) s1.k t0 0).alloc j = sc.ra.alloc j :=
    net3 sc.ra.alloc ra1.alloc ra2.alloc ra2.alloc _ (W.freeNear ra2 s2.k r2 1).alloc _ (isC s1.k) (isC s2.k) false t0 r2 0
      p0.alloc p0.free p1.alloc p1.free (fun j => by simp) (fun hh => Bool.noConfusion hh) (p1.rel ra2) (fun j => by simp) (p0.rel _)
  refine ⟨W.freeNear (W.freeNear ra2 s2.k r2 1) s1.k t0 0, more,
    (Emit.emitSS (W.poolIdx poolF) Op.push2.toNat false s1.k s2.k t0 t1 fr 0).map CI.mi,
    (Emit.emitSS (W.poolIdx poolF) Op.push2.toNat false s1.k s2.k t0 t1 fr 0).map (fun _ => c.cur), ?_, hnet, ?_, ?_, ?_⟩
  · rw [← hmore]; exact hc3
  · simp only [freeNear_max]; have := p0.mono; omega
  · simp only [freeNear_max]; exact hmax
  · intro k hcode hpre hsz
    simp only [freeNear_max] at hsz
    rw [← hmore] at hpre
    have hlen : k.pc + ((Emit.emitSS (W.poolIdx poolF) Op.push2.toNat false s1.k s2.k t0 t1 fr 0).map CI.mi).length =
        k.pc + ((ldOf (W.poolIdx poolF) s1.k t0).map CI.mi).length + ((ldOf (W.poolIdx poolF) s2.k r2).map CI.mi).length + 1 := by
      rw [hpure]; simp only [List.length_append, List.length_cons, List.length_nil]; omega
    rw [hpure] at hcode
    have hpl : ∀ kc, (s1.k = .const kc ∨ s2.k = .const kc) → W.poolIdx poolF kc < 65536 ∧
        (kc.pooled = true → (p.defs.getD f0.defIdx default).consts.getD (W.poolIdx poolF kc) .nil = litOf V kc) :=
      fun kc hh => pool_ok p f0 V P hP hK poolF hpre kc (hmem kc hh)
    obtain ⟨z0, fr0, g0, al0, mo0⟩ := operand_regs V k.regs sc.ra ra1 s1.k 0 t0 k1 p0 l1 (by omega)
    obtain ⟨z1, fr1, g1, al1, mo1⟩ := operand_regs V (ldRegs V k.regs s1.k t0) ra1 ra2 s2.k 1 r2 k2 p1
      (fun r hr => mo0 r (l2 r hr)) (by rw [z0]; omega)
    have R0 := run_operand p f0 rest V k.regs k.pc k.args k.w s1.k t0 (W.poolIdx poolF) p0.lt
      (fun kc hk => hpl kc (Or.inl hk)) hcode.left
    have R1 := run_operand p f0 rest V (ldRegs V k.regs s1.k t0) _ k.args k.w s2.k r2 (W.poolIdx poolF) p1.lt
      (fun kc hk => hpl kc (Or.inr hk)) hcode.right.left
    have S := run_push2 p f0 rest (ldRegs V (ldRegs V k.regs s1.k t0) s2.k r2) _ k.args k.w t0 r2
      (by have := p0.lt; omega) (by have := p1.lt; omega) hcode.right.right.head
    have v0 : (ldRegs V (ldRegs V k.regs s1.k t0) s2.k r2).getD t0 .nil = slotVal V k.regs s1 := by
      rw [fr1 t0 al0, g0]; rfl
    have v1 : (ldRegs V (ldRegs V k.regs s1.k t0) s2.k r2).getD r2 .nil = slotVal V k.regs s2 := by
      rw [g1, slotVal_eq]
      exact slotValS_frame V _ _ _ (fun r hr => fr0 r (l2 r hr))
    rw [v0, v1] at S
    refine ⟨ldRegs V (ldRegs V k.regs s1.k t0) s2.k r2, ?_, by rw [z1, z0], ?_⟩
    · refine Reach.trans R0 (Reach.trans R1 (Reach.head S ?_))
      rw [hlen]
      exact Reach.refl _ _
    · intro r hr
      rw [fr1 r (mo0 r hr), fr0 r hr]

theorem slotVal_frame (regs regs' : Array Value) (sl : JSlot) (ra : RA)
    (hl : ∀ r, sl.k = .loc r → ra.alloc r = true) (hf : ∀ r, ra.alloc r = true → regs'.getD r .nil = regs.getD r .nil) :
    slotVal V regs' sl = slotVal V regs sl := by
  rw [slotVal_eq, slotVal_eq]
  exact slotValS_frame V _ _ _ (fun r hr => hf r (hl r hr))

/-- `janetc_pushslots`: compile-side effect and VM run -/
theorem pushN (hP : P.length < 65536)
    (hK : ∀ i, i < P.length → (p.defs.getD f0.defIdx default).consts.getD i .nil = litOf V (P.getD i .nil)) :
    ∀ (slots : List JSlot) (c c3 : CState) (sc : Scope) (rs : List Scope) (pool : List KConst) (ps : List (List KConst)),
      c.scopes = sc :: rs → c.pools = pool :: ps → c.lim ≤ 240 →
      (∀ sl, sl ∈ slots → SK sl) → (∀ sl r, sl ∈ slots → sl.k = .loc r → sc.ra.alloc r = true) →
      pushSlots c slots = some c3 →
      ∃ (ra3 : RA) (more : List KConst) (seg : List CI) (segm : List Pos),
        c3 = { c with scopes := { sc with ra := ra3 } :: rs, pools := (pool ++ more) :: ps, buf := c.buf ++ seg, map := c.map ++ segm } ∧
        (∀ j, ra3.alloc j = sc.ra.alloc j) ∧ sc.ra.max ≤ ra3.max ∧
        ∀ (k : Cfg), CodeAt (p.defs.getD f0.defIdx default).code k.pc seg → PrefL (pool ++ more) P → ra3.max < k.regs.size →
          ∃ (regs' : Array Value) (A : Array Value),
            Reach p (inj f0 rest k) (inj f0 rest { regs := regs', pc := k.pc + seg.length, args := A, w := k.w }) ∧
            A.toList = k.args.toList ++ slots.map (slotVal V k.regs) ∧
            regs'.size = k.regs.size ∧ ∀ r, sc.ra.alloc r = true → regs'.getD r .nil = k.regs.getD r .nil
  | [], c, c3, sc, rs, pool, ps, hs, hp, _, _, _, h => by
    have e : c = c3 := by simpa [pushSlots] using h
    refine ⟨sc.ra, [], [], [], ?_, fun _ => rfl, Nat.le_refl _, ?_⟩
    · rw [← e]
      cases c
      simp only at hs hp
      subst hs hp
      simp
    · intro k _ _ _
      exact ⟨k.regs, k.args, Reach.refl _ _, by simp, rfl, fun _ _ => rfl⟩
  | [a], c, c3, sc, rs, pool, ps, hs, hp, hl, hsk, _, h => by
    have h' : emitS c .push a false = some c3 := h
    obtain ⟨ra3, more, seg, segm, q1, q2, q3, _, q5⟩ :=
      push1 p f0 rest V P hP hK c c3 a sc rs pool ps hs hp hl (hsk a (by simp)) h'
    refine ⟨ra3, more, seg, segm, q1, q2, q3, ?_⟩
    intro k hcode hpre hsz
    obtain ⟨regs', hR, hz, hf⟩ := q5 k hcode hpre hsz
    exact ⟨regs', _, hR, by simp, hz, hf⟩
  | [a, b], c, c3, sc, rs, pool, ps, hs, hp, hl, hsk, hloc, h => by
    have h' : emitSS c .push2 a b false = some c3 := h
    obtain ⟨ra3, more, seg, segm, q1, q2, q3, _, q5⟩ :=
      push2 p f0 rest V P hP hK c c3 a b sc rs pool ps hs hp hl (hsk a (by simp)) (hsk b (by simp))
        (fun r hr => hloc a r (by simp) hr) (fun r hr => hloc b r (by simp) hr) h'
    refine ⟨ra3, more, seg, segm, q1, q2, q3, ?_⟩
    intro k hcode hpre hsz
    obtain ⟨regs', hR, hz, hf⟩ := q5 k hcode hpre hsz
    exact ⟨regs', _, hR, by simp, hz, hf⟩
  | a :: b :: d :: tl, c, c3, sc, rs, pool, ps, hs, hp, hl, hsk, hloc, h => by
    have h' : (emitSSS c .push3 a b d false).bind (fun c' => pushSlots c' tl) = some c3 := h
    obtain ⟨c', hE, hT⟩ := Option.bind_eq_some_iff.mp h'
    obtain ⟨ra1, more1, seg1, segm1, q1, q2, q3, _, q5⟩ :=
      push3 p f0 rest V P hP hK c c' a b d sc rs pool ps hs hp hl (hsk a (by simp)) (hsk b (by simp)) (hsk d (by simp))
        (fun r hr => hloc a r (by simp) hr) (fun r hr => hloc b r (by simp) hr) (fun r hr => hloc d r (by simp) hr) hE
    have hs' : c'.scopes = { sc with ra := ra1 } :: rs := by rw [q1]
    have hp' : c'.pools = (pool ++ more1) :: ps := by rw [q1]
    have hl' : c'.lim ≤ 240 := by rw [q1]; exact hl
    obtain ⟨ra3, more2, seg2, segm2, w1, w2, w3, w5⟩ :=
      pushN hP hK tl c' c3 { sc with ra := ra1 } rs (pool ++ more1) ps hs' hp' hl'
        (fun sl hm => hsk sl (by simp [hm]))
        (fun sl r hm hr => by rw [q2 r]; exact hloc sl r (by simp [hm]) hr) hT
    refine ⟨ra3, more1 ++ more2, seg1 ++ seg2, segm1 ++ segm2, ?_, ?_, ?_, ?_⟩
    · rw [w1, q1]; simp only [List.append_assoc]
    · intro j; rw [w2 j]; exact q2 j
    · exact Nat.le_trans q3 w3
    · intro k hcode hpre hsz
      have w3' : ra1.max ≤ ra3.max := w3
      rw [← List.append_assoc] at hpre
      obtain ⟨regs1, hR1, hz1, hf1⟩ := q5 k hcode.left ((PrefL.app _ more2).trans hpre) (by omega)
      obtain ⟨regs2, A, hR2, hA, hz2, hf2⟩ := w5
        { regs := regs1, pc := k.pc + seg1.length,
          args := ((k.args.push (slotVal V k.regs a)).push (slotVal V k.regs b)).push (slotVal V k.regs d), w := k.w }
        hcode.right hpre (by rw [hz1]; exact hsz)
      refine ⟨regs2, A, Reach.trans hR1 ?_, ?_, by rw [hz2, hz1], ?_⟩
      · have e : k.pc + (seg1 ++ seg2).length = k.pc + seg1.length + seg2.length := by
          rw [List.length_append]; omega
        rw [e]; exact hR2
      · rw [hA]
        have hmap : tl.map (slotVal V regs1) = tl.map (slotVal V k.regs) := by
          apply List.map_congr_left
          intro sl hm
          exact slotVal_frame V k.regs regs1 sl sc.ra (fun r hr => hloc sl r (by simp [hm]) hr) hf1
        simp only [hmap, Array.toList_push, List.map_cons, List.append_assoc, List.cons_append, List.nil_append]
      · intro r hr
        have hr1 : ra1.alloc r = true := by rw [q2 r]; exact hr
        rw [hf2 r hr1]; exact hf1 r hr

end

end JanetModel.Compile
