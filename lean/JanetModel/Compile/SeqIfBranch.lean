/- C02: `janetc_if`, one branch: block scope, the branch form (induction hypothesis), the optional `janetc_copy` into the target
   register, `janetc_popscope` — the VM run of the branch's code (stated against the segment the branch appended, whatever it is). -/
import JanetModel.Compile.SeqIfSem
namespace JanetModel.Compile
open JanetModel.Emit JanetModel.Lang JanetModel.Bytecode.Exec JanetModel.Gen.Bytecode

section
variable (p : Program) (f0 : Frame) (rest : List Frame) (V : Array Value) (P : List KConst)

/-- the optional copy of a branch result into the target register -/
theorem ifCopy_core (hP : P.length < 65536)
    (hK : ∀ i, i < P.length → (p.defs.getD f0.defIdx default).consts.getD i .nil = litOf V (P.getD i .nil))
    (drop : Bool) (c6 c7 : CState) (target left : JSlot) (sc6 : Scope) (rs6 : List Scope) (pool6 : List KConst) (ps : List (List KConst))
    (hs6 : c6.scopes = sc6 :: rs6) (hp6 : c6.pools = pool6 :: ps)
    (htgt : drop = false → ∃ d, target = { k := .loc d } ∧ d < 240 ∧ ∀ r, left.k = .loc r → r ≠ d)
    (hsk : SK left) (h : ifCopy drop c6 target left = some c7) :
    ∃ (more : List KConst) (seg : List CI) (segm : List Pos),
      c7 = { c6 with scopes := sc6 :: rs6, pools := (pool6 ++ more) :: ps, buf := c6.buf ++ seg, map := c6.map ++ segm } ∧
      ∀ (k : Cfg), CodeAt (p.defs.getD f0.defIdx default).code k.pc seg → PrefL (pool6 ++ more) P →
        (drop = false → ∀ d, target.k = .loc d → d < k.regs.size) →
        ∃ regs', Reach p (inj f0 rest k) (inj f0 rest { regs := regs', pc := k.pc + seg.length, args := k.args, w := k.w }) ∧
          regs'.size = k.regs.size ∧
          (∀ r, (drop = false → target.k ≠ .loc r) → regs'.getD r .nil = k.regs.getD r .nil) ∧
          (drop = false → slotVal V regs' target = slotVal V k.regs left) := by
  cases drop with
  | true =>
    simp only [ifCopy, if_true, Option.some.injEq] at h
    subst h
    refine ⟨[], [], [], ?_, ?_⟩
    · simp only [List.append_nil, ← hs6, ← hp6]
    · intro k _ _ _
      exact ⟨k.regs, Reach.refl _ _, rfl, fun _ _ => rfl, fun h => absurd h (by simp)⟩
  | false =>
    obtain ⟨d, ht, hd, hne⟩ := htgt rfl
    subst ht
    simp only [ifCopy, Bool.false_eq_true, if_false] at h
    obtain ⟨more, seg, segm, hc7, vm⟩ := copyFresh p f0 rest V P hP hK c6 c7 _ left d rfl rfl sc6 rs6 pool6 ps hs6 hp6 hd hsk hne h
    refine ⟨more, seg, segm, hc7, ?_⟩
    intro k hcode hpre hsz
    have hdsz : d < k.regs.size := hsz rfl d rfl
    refine ⟨k.regs.setIfInBounds d (slotVal V k.regs left), vm k hcode hpre hdsz, by simp, ?_, ?_⟩
    · intro r hr
      exact getD_set_ne _ _ _ _ (by intro e; subst e; exact hr rfl rfl)
    · intro _
      simp only [slotVal]
      exact getD_set_eq _ _ _ hdsz

/-- one branch of an `if` -/
theorem branch_core (hP : P.length < 65536)
    (hK : ∀ i, i < P.length → (p.defs.getD f0.defIdx default).consts.getD i .nil = litOf V (P.getD i .nil))
    (G : String → Prop) (b w : Bool) (fuel : Nat) (IH : CorrectAt p f0 rest V P G (TF G b) w fuel)
    (x : Expr) (hx : TF G b x) (opts : Fopts) (ht : opts.tail = false) (hh : opts.hint = none)
    (target : JSlot) (c4 c6 c7 c8 : CState) (left : JSlot) (sc4 : Scope) (rs4 : List Scope) (pool4 : List KConst) (ps : List (List KConst))
    (n2 : Nat) (pos : Pos) (cenv envb : Env) (s1 s' : SS) (v : Value)
    (hs4 : c4.scopes = sc4 :: rs4) (hp4 : c4.pools = pool4 :: ps) (hl : c4.lim ≤ 240) (hm4 : c4.map.length = c4.buf.length)
    (htgt : opts.drop = false → ∃ d, target = { k := .loc d } ∧ d < 240 ∧ sc4.ra.alloc d = true ∧ NoName c4.scopes d)
    (h1 : cValue fuel opts x (pushScope c4 false false false false) = some (left, c6))
    (h2 : ifCopy opts.drop c6 target left = some c7) (h3 : popScope c7 = some c8)
    (hsem : eval n2 pos cenv x s1 = .ok (v, envb) s')
    (hE : EnvS G c4.scopes cenv s1.boxes.size sc4.ra) :
    PrefA s1.boxes s'.boxes ∧
    ∀ (seg : List CI) (pool8 : List KConst) (sc8 : Scope), c8.buf = c4.buf ++ seg → c8.pools = pool8 :: ps → c8.scopes = sc8 :: rs4 →
      ∀ (k : Cfg), k.w = s1.st.world → k.args = #[] → EnvD c4.scopes cenv s1 k.regs →
        CodeAt (p.defs.getD f0.defIdx default).code k.pc seg → PrefL pool8 P → PrefA c8.vals V → sc8.ra.max < k.regs.size →
        (opts.drop = false → ∀ d, target.k = .loc d → d < k.regs.size) →
        ∃ regs', Reach p (inj f0 rest k) (inj f0 rest { regs := regs', pc := k.pc + seg.length, args := #[], w := s'.st.world }) ∧
          regs'.size = k.regs.size ∧
          (∀ r, sc4.ra.alloc r = true → (opts.drop = false → target.k ≠ .loc r) → regs'.getD r .nil = k.regs.getD r .nil) ∧
          (opts.drop = false → slotVal V regs' target = v) := by
  rw [pushScope_blk c4 sc4 rs4 false hs4] at h1
  have hlk1 : ∀ y, lk (blk c4 sc4 false :: sc4 :: rs4) y = lk c4.scopes y := by
    intro y; rw [hs4]; exact lk_push _ _ rfl rfl rfl y
  have hE1 : EnvS G ({ c4 with scopes := blk c4 sc4 false :: sc4 :: rs4 } : CState).scopes cenv s1.boxes.size (blk c4 sc4 false).ra :=
    hE.of_lk hlk1 (Nat.le_refl _) (fun _ _ _ _ _ _ _ h => h)
  obtain ⟨ra6, ns6, more6, seg6, segm6, hc6, pv6, mono6, max6, sok6, bx6, es6, nf6, vm6⟩ :=
    IH x opts { c4 with scopes := blk c4 sc4 false :: sc4 :: rs4 } c6 left (blk c4 sc4 false) (sc4 :: rs4) pool4 ps n2 pos cenv envb s1 s' v
      ht hh rfl hp4 hl rfl (fun _ => hm4) hx h1 hsem hE1
  have hs6 : c6.scopes = { blk c4 sc4 false with ra := ra6, syms := (blk c4 sc4 false).syms ++ ns6 } :: sc4 :: rs4 := by rw [hc6]
  have hp6 : c6.pools = (pool4 ++ more6) :: ps := by rw [hc6]
  have htgt' : opts.drop = false → ∃ d, target = { k := .loc d } ∧ d < 240 ∧ ∀ r, left.k = .loc r → r ≠ d := by
    intro hd
    obtain ⟨d, e, hd240, hal, hnn⟩ := htgt hd
    refine ⟨d, e, hd240, ?_⟩
    intro r hk er
    subst er
    have hnn1 : NoName (blk c4 sc4 false :: sc4 :: rs4) r := hnn.of_lk hlk1
    rcases sok6 with ⟨_, kc, hk', _⟩ | ⟨_, hnm, r', hk', _, _⟩ | ⟨_, _, d', hk', hfree, _⟩
    · rw [hk] at hk'; exact absurd hk' (by simp)
    · exact nf6.2 r hnm hk hal hnn1
    · rw [hk] at hk'
      injection hk' with e'
      subst e'
      have h1' : (blk c4 sc4 false).ra.alloc r = true := hal
      rw [hfree] at h1'
      exact Bool.noConfusion h1'
  obtain ⟨more7, seg7, segm7, hc7, vm7⟩ :=
    ifCopy_core p f0 rest V P hP hK opts.drop c6 c7 target left _ (sc4 :: rs4) (pool4 ++ more6) ps hs6 hp6 htgt' sok6.sk h2
  have hs7 : c7.scopes = { blk c4 sc4 false with ra := ra6, syms := (blk c4 sc4 false).syms ++ ns6 } :: sc4 :: rs4 := by rw [hc7]
  obtain ⟨raX, hpop, hmaxX, _⟩ := popScope_block c7 _ sc4 rs4 hs7 rfl rfl rfl
  rw [hpop] at h3
  have hc8 := (Option.some.inj h3).symm
  refine ⟨bx6, ?_⟩
  intro seg pool8 sc8 hbuf hpool hscope k hkw hka hD hcode hpre hV hsz hdsz
  have e_seg : seg = seg6 ++ seg7 := by
    have : c8.buf = c4.buf ++ (seg6 ++ seg7) := by
      rw [hc8]
      show c7.buf = _
      rw [hc7]
      show c6.buf ++ seg7 = _
      rw [hc6]
      simp
    rw [this] at hbuf
    exact (List.append_cancel_left hbuf).symm
  have e_pool : pool8 = pool4 ++ more6 ++ more7 := by
    have : c8.pools = (pool4 ++ more6 ++ more7) :: ps := by
      rw [hc8]
      show c7.pools = _
      rw [hc7]
    rw [this] at hpool
    exact (List.cons.inj hpool).1.symm
  have e_sc : sc8.ra.max = raX.max := by
    have : c8.scopes = { sc4 with ra := raX, syms := sc4.syms ++
        ((blk c4 sc4 false).syms ++ ns6).map (fun q => { q with visible := false }) } :: rs4 := by rw [hc8]
    rw [this] at hscope
    rw [← (List.cons.inj hscope).1]
  subst e_seg e_pool
  have hvals : c8.vals = c6.vals := by
    rw [hc8]
    show c7.vals = _
    rw [hc7]
  rw [hvals] at hV
  have hmaxX' : raX.max = (if sc4.ra.max < ra6.max then ra6.max else sc4.ra.max) := hmaxX
  have hsz6 : ra6.max < k.regs.size := by
    rw [e_sc, hmaxX'] at hsz
    split at hsz <;> omega
  obtain ⟨regs6, rch6, sz6, pr6, sv6, _⟩ :=
    vm6 k hkw hka (hD.of_lk hlk1) hcode.left (PrefL.trans ⟨more7, by simp⟩ hpre) hV hsz6
  obtain ⟨regs7, rch7, sz7, pr7, sv7⟩ :=
    vm7 { regs := regs6, pc := k.pc + seg6.length, args := #[], w := s'.st.world } hcode.right hpre
      (by intro hd d hk; show d < regs6.size; rw [sz6]; exact hdsz hd d hk)
  have sz7' : regs7.size = regs6.size := sz7
  refine ⟨regs7, ?_, by omega, ?_, ?_⟩
  · have e : k.pc + (seg6 ++ seg7).length = k.pc + seg6.length + seg7.length := by
      simp [List.length_append]; omega
    rw [e]
    exact Reach.trans rch6 rch7
  · intro r hr hne
    have := pr7 r hne
    rw [this]
    exact pr6 r hr
  · intro hd
    rw [sv7 hd]
    exact sv6 (by simp [hd])

end

end JanetModel.Compile
