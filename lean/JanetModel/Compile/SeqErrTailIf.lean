/- C02: error propagation in TAIL position, the `if` case: the condition raises, or it evaluates and the branch taken (compiled
   with the tail flag) raises; jump path and folding path; `tf_errT_correct_b`. -/
import JanetModel.Compile.SeqErrTail
import JanetModel.Compile.SeqTailIf
namespace JanetModel.Compile
open JanetModel.Emit JanetModel.Lang JanetModel.Bytecode.Exec JanetModel.Gen.Bytecode

section
variable (p : Program) (f0 : Frame) (rest : List Frame) (V : Array Value) (P : List KConst)

/-- one branch of a tail-position `if` that raises -/
theorem branch_errT (G : String → Prop) (b : Bool) (fuel : Nat) (IHT : ErrAtT p f0 rest V P G b fuel)
    (x : Expr) (hx : TF G b x) (opts : Fopts) (ht : opts.tail = true) (hh : opts.hint = none)
    (c4 c6 c8 : CState) (left : JSlot) (sc4 : Scope) (rs4 : List Scope) (pool4 : List KConst) (ps : List (List KConst))
    (n2 : Nat) (pos : Pos) (cenv : Env) (s1 s' : SS) (ev : Value) (epos : Pos)
    (hs4 : c4.scopes = sc4 :: rs4) (hp4 : c4.pools = pool4 :: ps) (hl : c4.lim ≤ 240) (hm4 : c4.map.length = c4.buf.length) (hcur : c4.cur = pos)
    (h1 : cValue fuel opts x (pushScope c4 false false false false) = some (left, c6)) (h3 : popScope c6 = some c8)
    (hsem : eval n2 pos cenv x s1 = .err ev epos s')
    (hE : EnvS G c4.scopes cenv s1.boxes.size sc4.ra) :
    ErrOK p f0 rest V P c4 c8 rs4 ps cenv s1 s' ev epos := by
  rw [pushScope_blk c4 sc4 rs4 false hs4] at h1
  have hlk1 : ∀ y, lk (blk c4 sc4 false :: sc4 :: rs4) y = lk c4.scopes y := by
    intro y; rw [hs4]; exact lk_push _ _ rfl rfl rfl y
  have hE1 : EnvS G (blk c4 sc4 false :: sc4 :: rs4) cenv s1.boxes.size (blk c4 sc4 false).ra :=
    hE.of_lk hlk1 (Nat.le_refl _) (fun _ _ _ _ _ _ _ h => h)
  have E1 := IHT x opts { c4 with scopes := blk c4 sc4 false :: sc4 :: rs4 } c6 left (blk c4 sc4 false) (sc4 :: rs4) pool4 ps n2 pos cenv s1 s' ev epos
    ht hh rfl hp4 hl rfl hm4 hcur hx h1 hsem hE1
  obtain ⟨S1, _⟩ := tf_shapeT_at G fuel b x opts { c4 with scopes := blk c4 sc4 false :: sc4 :: rs4 } c6 left (blk c4 sc4 false) (sc4 :: rs4) pool4 ps
    ht hh rfl hp4 rfl hm4 hx hE1.lkl h1
  obtain ⟨ra', ns, more, seg, segm, hc6, _⟩ := S1
  have hs6 : c6.scopes = { blk c4 sc4 false with ra := ra', syms := (blk c4 sc4 false).syms ++ ns } :: sc4 :: rs4 := by rw [hc6]
  obtain ⟨raX, hpop, hmaxX, _⟩ := popScope_block c6 _ sc4 rs4 hs6 rfl rfl rfl
  rw [hpop] at h3
  have hc8 := (Option.some.inj h3).symm
  have hmaxX' : raX.max = (if sc4.ra.max < ra'.max then ra'.max else sc4.ra.max) := hmaxX
  refine ErrOK.block hs4 hs6 E1 ?_ (by rw [hc8]) (by rw [hc8]) (by rw [hc8]) (by rw [hc8])
  intro sc3 h3'
  rw [hc8] at h3'
  rw [← (List.cons.inj h3').1]
  show ra'.max ≤ raX.max
  rw [hmaxX']; split <;> omega

theorem tail_if_jump_err (G : String → Prop) (b w : Bool) (fuel : Nat) (IH : CorrectAt p f0 rest V P G (TF G b) w fuel)
    (IHT : ErrAtT p f0 rest V P G b fuel)
    (cnd tb fb : Expr) (hTc : TF G b cnd) (hTt : TF G b tb) (hTf : TF G b fb)
    (opts : Fopts) (ht : opts.tail = true) (hh : opts.hint = none)
    (c c' : CState) (slot : JSlot) (sc : Scope) (rs : List Scope) (pool : List KConst) (ps : List (List KConst))
    (n2 : Nat) (pos : Pos) (env cenv : Env) (s s1 s' : SS) (cv ev : Value) (epos : Pos)
    (hs : c.scopes = sc :: rs) (hp : c.pools = pool :: ps) (hl : c.lim ≤ 240) (hm : c.map.length = c.buf.length) (hcur : c.cur = pos)
    (c3 : CState) (cond : JSlot)
    (hcond : cValue fuel {} cnd (pushScope c false false false false) = some (cond, c3))
    (hnc : isConstSlot cond = none)
    (hj : cIfJumpT (cValue fuel) opts (cslot .nil) cond tb fb (fbNilOf fb) c3 = some (slot, c'))
    (hsc : eval n2 pos env cnd s = .ok (cv, cenv) s1)
    (hsb : eval n2 pos cenv (if truthy cv then tb else fb) s1 = .err ev epos s')
    (hE : EnvS G c.scopes env s.boxes.size sc.ra) :
    ErrOK p f0 rest V P c c' rs ps env s s' ev epos := by
  -- the condition, in its block scope
  rw [pushScope_blk c sc rs false hs] at hcond
  have hlk1 : ∀ y, lk (blk c sc false :: sc :: rs) y = lk c.scopes y := by
    intro y; rw [hs]; exact lk_push _ _ rfl rfl rfl y
  have hE1 : EnvS G ({ c with scopes := blk c sc false :: sc :: rs } : CState).scopes env s.boxes.size (blk c sc false).ra :=
    hE.of_lk hlk1 (Nat.le_refl _) (fun _ _ _ _ _ _ _ h => h)
  obtain ⟨ra3, ns3, more3, seg3, segm3, hc3, pv3, mono3, max3, sok3, bx3, es3, nf3, vm3⟩ :=
    IH cnd {} { c with scopes := blk c sc false :: sc :: rs } c3 cond (blk c sc false) (sc :: rs) pool ps n2 pos env cenv s s1 cv
      rfl rfl rfl hp hl rfl (fun _ => hm) hTc hcond hsc hE1
  have hm3 : c3.map.length = c3.buf.length :=
    (tf_shapeM_at G fuel b cnd {} { c with scopes := blk c sc false :: sc :: rs } c3 cond (blk c sc false) (sc :: rs) pool ps
      rfl rfl rfl hp rfl hm hTc hE1.lkl hcond).1.mapLen hm
  have hs3 : c3.scopes = upd (blk c sc false) ra3 ns3 :: sc :: rs := by rw [hc3]
  have hp3 : c3.pools = (pool ++ more3) :: ps := by rw [hc3]
  have mono3' : ∀ r, sc.ra.alloc r = true → ra3.alloc r = true := mono3
  have max3' : sc.ra.max ≤ ra3.max := max3
  obtain ⟨rc, hrc, hrc240, hrcal⟩ : ∃ rc, cond.k = .loc rc ∧ rc < 240 ∧ ra3.alloc rc = true := by
    rcases sok3 with ⟨hcf, kc, hk, _⟩ | ⟨_, _, r, hk, hal, hr⟩ | ⟨_, _, d, hk, _, hal, hd, _⟩
    · simp [isConstSlot, hcf, hk] at hnc
    · exact ⟨r, hk, hr, hal⟩
    · exact ⟨d, hk, hd, hal⟩
  -- the steps of the jump path
  obtain ⟨c4, left, c6, c8, right, c11, c13, c14, e1, e2, e4, e5, e7, e8, r1, hslot, ec'⟩ :=
    cIfJumpT_inv2 _ _ _ _ _ _ _ _ _ _ hj
  obtain ⟨_, hc4⟩ := emitSI_local c3 c4 .jumpIfNot cond rc 0 hrc (by omega) _ (sc :: rs) (pool ++ more3) ps hs3 hp3 e1
  have hs4 : c4.scopes = upd (blk c sc false) ra3 ns3 :: sc :: rs := by rw [hc4]
  have hp4 : c4.pools = (pool ++ more3) :: ps := by rw [hc4]
  have hl4 : c4.lim ≤ 240 := by rw [hc4]; show c3.lim ≤ 240; rw [hc3]; exact hl
  have hm4 : c4.map.length = c4.buf.length := by rw [hc4]; simp [hm3]
  have hL4 : LkL G c4.scopes := by rw [hs4, ← hs3]; exact es3.lkl
  have hlk4 : ∀ y, lk c4.scopes y = lk c3.scopes y := by intro y; rw [hs4, hs3]
  -- the then-branch, compile side
  obtain ⟨ra8, ns8, more8, seg8, segm8, hc8, pv8, hl8, inv8, mono8, max8⟩ :=
    branchT_shape2 G fuel b tb hTt opts ht hh c4 c6 c8 left _ (sc :: rs) (pool ++ more3) ps hs4 hp4 hm4 hL4 e2 e4
  have mono8' : ∀ r, ra3.alloc r = true → ra8.alloc r = true := mono8
  have max8' : ra3.max ≤ ra8.max := max8
  have hs8 : c8.scopes = upd (upd (blk c sc false) ra3 ns3) ra8 ns8 :: sc :: rs := by rw [hc8]
  have hp8 : c8.pools = (pool ++ more3 ++ more8) :: ps := by rw [hc8]
  have hl8' : c8.lim ≤ 240 := by rw [hc8]; exact hl4
  have hm8 : c8.map.length = c8.buf.length := by rw [hc8]; simp [hm4, hl8]
  have hlk8 : ∀ y, lk c8.scopes y = lk c3.scopes y := by
    intro y; rw [hs8, hs3]; exact lk_upd _ _ _ _ inv8 y
  have hL8 : LkL G c8.scopes := es3.lkl.of_lk hlk8
  -- the else-branch, compile side
  obtain ⟨ra13, ns13, more13, seg13, segm13, hc13, pv13, hl13, inv13, mono13, max13⟩ :=
    branchT_shape2 G fuel b fb hTf opts ht hh c8 c11 c13 right _ (sc :: rs) (pool ++ more3 ++ more8) ps hs8 hp8 hm8 hL8 e5 e7
  have max13' : ra8.max ≤ ra13.max := max13
  have hs13 : c13.scopes = upd (upd (upd (blk c sc false) ra3 ns3) ra8 ns8) ra13 ns13 :: sc :: rs := by rw [hc13]
  have hp13 : c13.pools = (pool ++ more3 ++ more8 ++ more13) :: ps := by rw [hc13]
  -- the final pop
  obtain ⟨raX, hpop, hmaxX, hmonoX⟩ := popScope_block c13 _ sc rs hs13 rfl rfl rfl
  rw [hpop] at e8
  have hc14 := (Option.some.inj e8).symm
  have hmaxX' : raX.max = (if sc.ra.max < ra13.max then ra13.max else sc.ra.max) := hmaxX
  -- the code
  have hb3 : c3.buf = c.buf ++ seg3 := by rw [hc3]
  have hb4 : c4.buf = c.buf ++ seg3 ++ [CI.mi (.pay Op.jumpIfNot.toNat .si false [rc] 0)] := by rw [hc4]; show c3.buf ++ _ = _; rw [hb3]
  have hb8 : c8.buf = c4.buf ++ seg8 := by rw [hc8]
  have hb13 : c13.buf = c8.buf ++ seg13 := by rw [hc13]
  have hb14 : c14.buf = c13.buf := by rw [hc14]
  have hbuf14 : c14.buf = (c.buf ++ seg3) ++ CI.mi (.pay Op.jumpIfNot.toNat .si false [rc] 0) :: (seg8 ++ seg13) := by
    rw [hb14, hb13, hb8, hb4]; simp
  have hll : lastLabel c4 = (c.buf ++ seg3).length := by unfold lastLabel; rw [hb4]; simp
  obtain ⟨offr, hoffr⟩ : ∃ offr, offr = c8.buf.length - lastLabel c4 := ⟨_, rfl⟩
  have hoffr' : offr = 1 + seg8.length := by
    rw [hoffr, hll, hb8, hb4]; simp <;> omega
  have hoffr_lt : offr < 32768 := by
    rw [hoffr]; omega
  have hpatch : modBuf c14.buf (lastLabel c4) (patchCond (c8.buf.length - lastLabel c4)) =
      c.buf ++ (seg3 ++ CI.mi (.pay Op.jumpIfNot.toNat .si false [rc] offr) :: (seg8 ++ seg13)) := by
    rw [← hoffr, hbuf14, hll, modBuf_at]
    simp [patchCond]
  -- the invariants at the two branch entries
  have hE4 : EnvS G c4.scopes cenv s1.boxes.size (upd (blk c sc false) ra3 ns3).ra :=
    es3.of_lk hlk4 (Nat.le_refl _) (fun _ _ _ _ _ _ _ h => h)
  have hE8 : EnvS G c8.scopes cenv s1.boxes.size (upd (upd (blk c sc false) ra3 ns3) ra8 ns8).ra :=
    es3.of_lk hlk8 (Nat.le_refl _) (fun _ _ _ _ r _ _ h => mono8' r h)
  have hv8 : PrefA c8.vals c13.vals := pv13
  have hv3 : PrefA c3.vals c13.vals := by
    have : c4.vals = c3.vals := by rw [hc4]
    rw [← this]; exact PrefA.trans pv8 hv8
  have hv' : c'.vals = c13.vals := by rw [ec']; show c14.vals = _; rw [hc14]
  have pv3' : PrefA c.vals c3.vals := pv3
  have hcur3 : c3.cur = pos := by rw [hc3]; exact hcur
  have hcur4 : c4.cur = pos := by rw [hc4]; exact hcur3
  have hcur8 : c8.cur = pos := by rw [hc8]; exact hcur4
  have hmp3 : c3.map = c.map ++ segm3 := by rw [hc3]
  have hmp4 : c4.map = c3.map ++ [c3.cur] := by rw [hc4]
  have hmp8 : c8.map = c4.map ++ segm8 := by rw [hc8]
  have hmp13 : c13.map = c8.map ++ segm13 := by rw [hc13]
  have hl3 : segm3.length = seg3.length := by
    have := hm3
    rw [hmp3, hb3] at this
    simp only [List.length_append] at this
    omega
  obtain ⟨kept, hkept⟩ : ∃ kept : List SymPair, kept =
      (upd (upd (upd (blk c sc false) ra3 ns3) ra8 ns8) ra13 ns13).syms.map (fun q => { q with visible := false }) := ⟨_, rfl⟩
  intro sc' pool' seg segm a1 a2 a3 a4 k hkw hka hD hcode hmap hpre hV hsz
  have x1 : c'.scopes = { sc with ra := raX, syms := sc.syms ++ kept } :: rs := by
    rw [ec']; show c14.scopes = _; rw [hc14, hkept]
  have x2 : c'.pools = (pool ++ more3 ++ more8 ++ more13) :: ps := by
    rw [ec']; show c14.pools = _; rw [hc14]; exact hp13
  have x3 : c'.buf = c.buf ++ (seg3 ++ CI.mi (.pay Op.jumpIfNot.toNat .si false [rc] offr) :: (seg8 ++ seg13)) := by
    rw [ec']; exact hpatch
  have x4 : c'.map = c.map ++ (segm3 ++ [c3.cur] ++ segm8 ++ segm13) := by
    rw [ec']; show c14.map = _; rw [hc14]; show c13.map = _; rw [hmp13, hmp8, hmp4, hmp3]; simp [List.append_assoc]
  rw [x1] at a1
  rw [x2] at a2
  rw [x3] at a3
  rw [x4] at a4
  have y1 := (List.cons.inj a1).1
  have y2 := (List.cons.inj a2).1
  have y3 := List.append_cancel_left a3
  have y4 := List.append_cancel_left a4
  subst y1 y2 y3 y4
  rw [hv'] at hV
  have hsz' : raX.max < k.regs.size := hsz
  have hsz13 : ra13.max < k.regs.size := by
    rw [hmaxX'] at hsz'; split at hsz' <;> omega
  obtain ⟨regs3, rch3, sz3, pr3, sv3, ed3⟩ := vm3 k hkw hka (hD.of_lk hlk1) hcode.left
    (PrefL.trans ⟨more8 ++ more13, by simp [List.append_assoc]⟩ hpre) (PrefA.trans hv3 hV) (by show ra3.max < _; omega)
  have hcv3 : regs3.getD rc .nil = cv := by
    have := sv3 rfl
    simpa [slotVal, hrc] using this
  have hcJ : (p.defs.getD f0.defIdx default).code[k.pc + seg3.length]? = some (MI.pay Op.jumpIfNot.toNat .si false [rc] offr).word :=
    hcode.right.head
  have jstep := jumpIfNot_agrees p (inj f0 rest { regs := regs3, pc := k.pc + seg3.length, args := #[], w := s1.st.world }) rc offr
    (by omega) hoffr_lt (by rw [inj_curDef, inj_pc]; exact hcJ)
  rw [inj_getReg] at jstep
  have hreg : ({ regs := regs3, pc := k.pc + seg3.length, args := #[], w := s1.st.world } : Cfg).regs.getD rc .nil = cv := hcv3
  rw [hreg] at jstep
  cases htr : truthy cv with
  | true =>
    have hsb' : eval n2 pos cenv tb s1 = .err ev epos s' := by simpa [htr] using hsb
    simp only [htr, if_true, inj_adv] at jstep
    have EB := branch_errT p f0 rest V P G b fuel IHT tb hTt opts ht hh c4 c6 c8 left _ (sc :: rs) (pool ++ more3) ps n2 pos cenv s1 s' ev epos
      hs4 hp4 hl4 hm4 hcur4 e2 e4 hsb' hE4
    have hmap8 : MapAt (p.defs.getD f0.defIdx default).smap (k.pc + seg3.length + 1) segm8 := by
      have h1 : MapAt (p.defs.getD f0.defIdx default).smap k.pc ((segm3 ++ [c3.cur]) ++ (segm8 ++ segm13)) := by
        simpa [List.append_assoc] using hmap
      have h2 := h1.right.left
      have e : k.pc + (segm3 ++ [c3.cur]).length = k.pc + seg3.length + 1 := by simp [hl3]; omega
      rw [e] at h2
      exact h2
    obtain ⟨regs', A, pc', rchF, szF, hst⟩ := EB _ _ seg8 segm8 hs8 hp8 hb8 hmp8
      { regs := regs3, pc := k.pc + seg3.length + 1, args := #[], w := s1.st.world } rfl rfl (ed3.of_lk hlk4) hcode.right.tail.left hmap8
      (PrefL.trans ⟨more13, rfl⟩ hpre) (PrefA.trans hv8 hV) (by show ra8.max < regs3.size; omega)
    exact ⟨regs', A, pc', Reach.trans rch3 (Reach.head jstep rchF), by rw [szF]; exact sz3, hst⟩
  | false =>
    have hsb' : eval n2 pos cenv fb s1 = .err ev epos s' := by simpa [htr] using hsb
    simp only [htr, Bool.false_eq_true, if_false, inj_jump] at jstep
    have e1' : (Int.ofNat (k.pc + seg3.length) + (offr : Int)).toNat = k.pc + seg3.length + 1 + seg8.length := by
      simp only [Int.ofNat_eq_natCast]; omega
    simp only [e1'] at jstep
    have EB := branch_errT p f0 rest V P G b fuel IHT fb hTf opts ht hh c8 c11 c13 right _ (sc :: rs) (pool ++ more3 ++ more8) ps n2 pos cenv s1 s' ev epos
      hs8 hp8 hl8' hm8 hcur8 e5 e7 hsb' hE8
    have hmap13 : MapAt (p.defs.getD f0.defIdx default).smap (k.pc + seg3.length + 1 + seg8.length) segm13 := by
      have h2 := hmap.right
      have e : k.pc + (segm3 ++ [c3.cur] ++ segm8).length = k.pc + seg3.length + 1 + seg8.length := by simp [hl3, hl8]; omega
      rw [e] at h2
      exact h2
    obtain ⟨regs', A, pc', rchF, szF, hst⟩ := EB _ _ seg13 segm13 hs13 hp13 hb13 hmp13
      { regs := regs3, pc := k.pc + seg3.length + 1 + seg8.length, args := #[], w := s1.st.world } rfl rfl (ed3.of_lk hlk8)
      hcode.right.tail.right hmap13 hpre hV (by show ra13.max < regs3.size; omega)
    exact ⟨regs', A, pc', Reach.trans rch3 (Reach.head jstep rchF), by rw [szF]; exact sz3, hst⟩

theorem tail_if_const_err (G : String → Prop) (b w : Bool) (fuel : Nat) (IH : CorrectAt p f0 rest V P G (TF G b) w fuel)
    (IHT : ErrAtT p f0 rest V P G b fuel)
    (cnd tb fb : Expr) (hTc : TF G b cnd) (hTt : TF G b tb) (hTf : TF G b fb)
    (opts : Fopts) (ht : opts.tail = true) (hh : opts.hint = none)
    (c cq : CState) (ret : JSlot) (sc : Scope) (rs : List Scope) (pool : List KConst) (ps : List (List KConst))
    (n2 : Nat) (pos : Pos) (env cenv : Env) (s s1 s' : SS) (cv ev : Value) (epos : Pos)
    (hs : c.scopes = sc :: rs) (hp : c.pools = pool :: ps) (hl : c.lim ≤ 240) (hm : c.map.length = c.buf.length) (hcur : c.cur = pos)
    (c3 : CState) (cond : JSlot) (k : KConst)
    (hcond : cValue fuel {} cnd (pushScope c false false false false) = some (cond, c3))
    (hj : cIfConstT (cValue fuel) opts (cslot .nil) tb fb k c3 = some (ret, cq))
    (hsc : eval n2 pos env cnd s = .ok (cv, cenv) s1)
    (hct : truthy cv = constTruthy k)
    (hsb : eval n2 pos cenv (if truthy cv then tb else fb) s1 = .err ev epos s')
    (hE : EnvS G c.scopes env s.boxes.size sc.ra) :
    ErrOK p f0 rest V P c cq rs ps env s s' ev epos := by
  -- the condition, in its block scope
  rw [pushScope_blk c sc rs false hs] at hcond
  have hlk1 : ∀ y, lk (blk c sc false :: sc :: rs) y = lk c.scopes y := by
    intro y; rw [hs]; exact lk_push _ _ rfl rfl rfl y
  have hE1 : EnvS G ({ c with scopes := blk c sc false :: sc :: rs } : CState).scopes env s.boxes.size (blk c sc false).ra :=
    hE.of_lk hlk1 (Nat.le_refl _) (fun _ _ _ _ _ _ _ h => h)
  obtain ⟨ra3, ns3, more3, seg3, segm3, hc3, pv3, mono3, max3, sok3, bx3, es3, nf3, vm3⟩ :=
    IH cnd {} { c with scopes := blk c sc false :: sc :: rs } c3 cond (blk c sc false) (sc :: rs) pool ps n2 pos env cenv s s1 cv
      rfl rfl rfl hp hl rfl (fun _ => hm) hTc hcond hsc hE1
  have hm3 : c3.map.length = c3.buf.length :=
    (tf_shapeM_at G fuel b cnd {} { c with scopes := blk c sc false :: sc :: rs } c3 cond (blk c sc false) (sc :: rs) pool ps
      rfl rfl rfl hp rfl hm hTc hE1.lkl hcond).1.mapLen hm
  have hs3 : c3.scopes = upd (blk c sc false) ra3 ns3 :: sc :: rs := by rw [hc3]
  have hp3 : c3.pools = (pool ++ more3) :: ps := by rw [hc3]
  have max3' : sc.ra.max ≤ ra3.max := max3
  have hl3 : c3.lim ≤ 240 := by rw [hc3]; exact hl
  -- the steps of the folding path
  obtain ⟨right, c5, c7, c8, e1, e3, e4, e5, eslot⟩ := cIfConstT_inv _ _ _ _ _ _ _ _ _ hj
  obtain ⟨live, hlive⟩ : ∃ x, x = (if constTruthy k then tb else fb) := ⟨_, rfl⟩
  obtain ⟨dead, hdead⟩ : ∃ x, x = (if constTruthy k then fb else tb) := ⟨_, rfl⟩
  rw [← hlive] at e1
  rw [← hdead] at e4
  have hTl : TF G b live := by rw [hlive]; split <;> assumption
  have hTd : TF G b dead := by rw [hdead]; split <;> assumption
  have hsb' : eval n2 pos cenv live s1 = .err ev epos s' := by
    rw [hct] at hsb; rw [hlive]; exact hsb
  have hL3 : LkL G c3.scopes := es3.lkl
  -- the live branch
  obtain ⟨ra7, ns7, more7, seg7, segm7, hc7, pv7, hl7, inv7, mono7, max7⟩ :=
    branchT_shape2 G fuel b live hTl opts ht hh c3 c5 c7 right _ (sc :: rs) (pool ++ more3) ps hs3 hp3 hm3 hL3 e1 e3
  have max7' : ra3.max ≤ ra7.max := max7
  have hs7 : c7.scopes = upd (upd (blk c sc false) ra3 ns3) ra7 ns7 :: sc :: rs := by rw [hc7]
  have hp7 : c7.pools = (pool ++ more3 ++ more7) :: ps := by rw [hc7]
  have hm7 : c7.map.length = c7.buf.length := by rw [hc7]; simp [hm3, hl7]
  have hlk7 : ∀ y, lk c7.scopes y = lk c3.scopes y := by
    intro y; rw [hs7, hs3]; exact lk_upd _ _ _ _ inv7 y
  have hL7 : LkL G c7.scopes := es3.lkl.of_lk hlk7
  -- the dead branch
  obtain ⟨more8, hc8, pv8⟩ : ∃ more8, c8 = { c7 with pools := (pool ++ more3 ++ more7 ++ more8) :: ps, vals := c8.vals } ∧ PrefA c7.vals c8.vals := by
    split at e4
    · refine ⟨[], ?_, ?_⟩
      · rw [← Option.some.inj e4, List.append_nil, ← hp7]
      · rw [← Option.some.inj e4]; exact PrefA.refl _
    · refine throwaway_eq G _ opts dead c7 c8 _ (sc :: rs) (pool ++ more3 ++ more7) ps hs7 hm7 (fun c2 sl h => ?_) e4
      have hLT : LkL G (blk c7 (upd (upd (blk c sc false) ra3 ns3) ra7 ns7) true ::
          upd (upd (blk c sc false) ra3 ns3) ra7 ns7 :: sc :: rs) := by
        rw [hs7] at hL7; exact hL7.push _ rfl rfl
      exact (tf_shapeT_at G fuel b dead opts
        { c7 with scopes := (blk c7 (upd (upd (blk c sc false) ra3 ns3) ra7 ns7) true ::
          upd (upd (blk c sc false) ra3 ns3) ra7 ns7 :: sc :: rs) } c2 sl _ _
        (pool ++ more3 ++ more7) ps ht hh rfl hp7 rfl hm7 hTd hLT h).1
  have hs8 : c8.scopes = upd (upd (blk c sc false) ra3 ns3) ra7 ns7 :: sc :: rs := by rw [hc8]; exact hs7
  -- the final pop
  obtain ⟨raX, hpop, hmaxX, hmonoX⟩ := popScope_block c8 _ sc rs hs8 rfl rfl rfl
  rw [hpop] at e5
  have hcq := (Option.some.inj e5).symm
  have hmaxX' : raX.max = (if sc.ra.max < ra7.max then ra7.max else sc.ra.max) := hmaxX
  have hb7 : c7.buf = c3.buf ++ seg7 := by rw [hc7]
  have hcur3 : c3.cur = pos := by rw [hc3]; exact hcur
  have EB := branch_errT p f0 rest V P G b fuel IHT live hTl opts ht hh c3 c5 c7 right _ (sc :: rs) (pool ++ more3) ps n2 pos cenv s1 s' ev epos
    hs3 hp3 hl3 hm3 hcur3 e1 e3 hsb' es3
  have hb3 : c3.buf = c.buf ++ seg3 := by rw [hc3]
  have hmp3 : c3.map = c.map ++ segm3 := by rw [hc3]
  have hmp7 : c7.map = c3.map ++ segm7 := by rw [hc7]
  have hl3' : segm3.length = seg3.length := by
    have := hm3
    rw [hmp3, hb3] at this
    simp only [List.length_append] at this
    omega
  obtain ⟨kept, hkept⟩ : ∃ kept : List SymPair, kept =
      (upd (upd (blk c sc false) ra3 ns3) ra7 ns7).syms.map (fun q => { q with visible := false }) := ⟨_, rfl⟩
  intro sc' pool' seg segm a1 a2 a3 a4 k0 hkw hka hD hcode hmap hpre hV hsz
  have x1 : cq.scopes = { sc with ra := raX, syms := sc.syms ++ kept } :: rs := by rw [hcq, hkept]
  have x2 : cq.pools = (pool ++ more3 ++ more7 ++ more8) :: ps := by rw [hcq]; show c8.pools = _; rw [hc8]
  have x3 : cq.buf = c.buf ++ (seg3 ++ seg7) := by rw [hcq]; show c8.buf = _; rw [hc8]; show c7.buf = _; rw [hb7, hb3]; simp
  have x4 : cq.map = c.map ++ (segm3 ++ segm7) := by rw [hcq]; show c8.map = _; rw [hc8]; show c7.map = _; rw [hmp7, hmp3]; simp
  have hv' : cq.vals = c8.vals := by rw [hcq]
  rw [x1] at a1
  rw [x2] at a2
  rw [x3] at a3
  rw [x4] at a4
  have y1 := (List.cons.inj a1).1
  have y2 := (List.cons.inj a2).1
  have y3 := List.append_cancel_left a3
  have y4 := List.append_cancel_left a4
  subst y1 y2 y3 y4
  rw [hv'] at hV
  have hsz' : raX.max < k0.regs.size := hsz
  have hsz7 : ra7.max < k0.regs.size := by
    rw [hmaxX'] at hsz'; split at hsz' <;> omega
  have hV7 : PrefA c7.vals V := PrefA.trans pv8 hV
  obtain ⟨regs3, rch3, sz3, pr3, sv3, ed3⟩ := vm3 k0 hkw hka (hD.of_lk hlk1) hcode.left
    (PrefL.trans ⟨more7 ++ more8, by simp [List.append_assoc]⟩ hpre) (PrefA.trans pv7 hV7) (by show ra3.max < _; omega)
  have hmapR := hmap.right
  rw [hl3'] at hmapR
  obtain ⟨regs', A, pc', rchF, szF, hst⟩ := EB _ _ seg7 segm7 hs7 hp7 hb7 hmp7
    { regs := regs3, pc := k0.pc + seg3.length, args := #[], w := s1.st.world } rfl rfl ed3 hcode.right hmapR
    (PrefL.trans ⟨more8, by simp [List.append_assoc]⟩ hpre) hV7 (by show ra7.max < regs3.size; omega)
  exact ⟨regs', A, pc', Reach.trans rch3 rchF, by rw [szF]; exact sz3, hst⟩

/-- one tail branch, compile side, as an append-only step -/
theorem branch_appT (G : String → Prop) (fuel : Nat) (b : Bool) (x : Expr) (hx : TF G b x)
    (opts : Fopts) (ht : opts.tail = true) (hh : opts.hint = none)
    (c c6 c8 : CState) (left : JSlot) (sc : Scope) (rs : List Scope) (pool : List KConst) (ps : List (List KConst))
    (hs : c.scopes = sc :: rs) (hp : c.pools = pool :: ps) (hm : c.map.length = c.buf.length) (hL : LkL G c.scopes)
    (h1 : cValue fuel opts x (pushScope c false false false false) = some (left, c6)) (h3 : popScope c6 = some c8) :
    App c c8 rs ps ∧ c8.map.length = c8.buf.length ∧ LkL G c8.scopes ∧ ∃ sc8 pool8, c8.scopes = sc8 :: rs ∧ c8.pools = pool8 :: ps ∧
      sc8.fn = sc.fn ∧ sc8.unused = sc.unused ∧ sc8.closure = sc.closure := by
  obtain ⟨ra8, ns8, more8, seg8, segm8, hc8, pv8, hl8, inv8, _, max8⟩ :=
    branchT_shape2 G fuel b x hx opts ht hh c c6 c8 left sc rs pool ps hs hp hm hL h1 h3
  have hs8 : c8.scopes = upd sc ra8 ns8 :: rs := by rw [hc8]
  refine ⟨⟨sc, _, pool, more8, seg8, segm8, hs, hs8, max8, hp, by rw [hc8], by rw [hc8], by rw [hc8], pv8⟩, ?_, ?_, _, _, hs8, by rw [hc8], rfl, rfl, rfl⟩
  · rw [hc8]; simp [hm, hl8]
  · refine hL.of_lk (fun y => ?_)
    rw [hs8, hs]; exact lk_upd _ _ _ _ inv8 y

/-- the condition of a tail-position `if` raises -/
theorem tail_if_cond_err (G : String → Prop) (b : Bool) (fuel : Nat) (EN : ErrAt p f0 rest V P G b fuel)
    (cnd tb fb : Expr) (hTc : TF G b cnd) (hTt : TF G b tb) (hTf : TF G b fb)
    (opts : Fopts) (ht : opts.tail = true) (hh : opts.hint = none)
    (c c' : CState) (slot : JSlot) (sc : Scope) (rs : List Scope) (pool : List KConst) (ps : List (List KConst))
    (n2 : Nat) (pos : Pos) (env : Env) (s s' : SS) (ev : Value) (epos : Pos)
    (hs : c.scopes = sc :: rs) (hp : c.pools = pool :: ps) (hl : c.lim ≤ 240) (hm : c.map.length = c.buf.length) (hcur : c.cur = pos)
    (hc : cIfBodyT (cValue fuel) opts cnd tb fb c = some (slot, c'))
    (hsc : eval n2 pos env cnd s = .err ev epos s')
    (hE : EnvS G c.scopes env s.boxes.size sc.ra) :
    ErrOK p f0 rest V P c c' rs ps env s s' ev epos := by
  obtain ⟨cond, c3, hcond, hrest⟩ := cIfBodyT_inv _ opts cnd tb fb c c' slot hc
  rw [pushScope_blk c sc rs false hs] at hcond
  have hlk1 : ∀ y, lk (blk c sc false :: sc :: rs) y = lk c.scopes y := by
    intro y; rw [hs]; exact lk_push _ _ rfl rfl rfl y
  have hE1 : EnvS G (blk c sc false :: sc :: rs) env s.boxes.size (blk c sc false).ra :=
    hE.of_lk hlk1 (Nat.le_refl _) (fun _ _ _ _ _ _ _ h => h)
  have E3 := EN cnd {} { c with scopes := blk c sc false :: sc :: rs } c3 cond
    (blk c sc false) (sc :: rs) pool ps n2 pos env s s' ev epos rfl rfl rfl hp hl rfl hm hcur hTc hcond hsc hE1
  obtain ⟨S1, _⟩ := tf_shapeM_at G fuel b cnd {} { c with scopes := blk c sc false :: sc :: rs } c3 cond
    (blk c sc false) (sc :: rs) pool ps rfl rfl rfl hp rfl hm hTc hE1.lkl hcond
  have hm3 : c3.map.length = c3.buf.length := S1.mapLen hm
  obtain ⟨ra3, ns3, more3, seg3, segm3, hc3, _, hL3, _⟩ := S1
  have hs3 : c3.scopes = upd (blk c sc false) ra3 ns3 :: sc :: rs := by rw [hc3]
  have hp3 : c3.pools = (pool ++ more3) :: ps := by rw [hc3]
  have hb3 : c3.buf = c.buf ++ seg3 := by rw [hc3]
  have hmp3 : c3.map = c.map ++ segm3 := by rw [hc3]
  have key : ∃ cE cPop, App c3 cE (sc :: rs) ps ∧
      (∀ scE, cE.scopes = scE :: sc :: rs → scE.fn = false ∧ scE.unused = false ∧ scE.closure = false) ∧ popScope cE = some cPop ∧
      c'.scopes = cPop.scopes ∧ c'.pools = cPop.pools ∧ c'.map = cPop.map ∧ c'.vals = cPop.vals ∧
      (∀ r, cE.buf = c3.buf ++ r → ∃ r', c'.buf = c3.buf ++ r') := by
    cases hk : isConstSlot cond with
    | some k =>
      rw [hk] at hrest
      simp only at hrest
      obtain ⟨right, c5, c7, c8, e1, e3, e4, e5, _⟩ := cIfConstT_inv _ _ _ _ _ _ _ _ _ hrest
      have hTl : TF G b (if constTruthy k then tb else fb) := by split <;> assumption
      have hTd : TF G b (if constTruthy k then fb else tb) := by split <;> assumption
      obtain ⟨dead, hdead⟩ : ∃ d, d = (if constTruthy k then fb else tb) := ⟨_, rfl⟩
      rw [← hdead] at e4 hTd
      obtain ⟨A7, hm7, hL7, sc7, pool7, hs7, hp7, f71, f72, f73⟩ :=
        branch_appT G fuel b _ hTl opts ht hh c3 c5 c7 right _ (sc :: rs) (pool ++ more3) ps hs3 hp3 hm3 hL3 e1 e3
      have h8 : c8.scopes = c7.scopes ∧ App c7 c8 (sc :: rs) ps := by
        split at e4
        · rw [← Option.some.inj e4]; exact ⟨rfl, App.refl c7 sc7 _ pool7 ps hs7 hp7⟩
        · obtain ⟨more8, hc8, pv8⟩ := throwaway_eq G _ opts dead c7 c8 sc7 (sc :: rs) pool7 ps hs7 hm7 (fun c2 sl h => by
            have hLT : LkL G (blk c7 sc7 true :: sc7 :: sc :: rs) := by
              rw [hs7] at hL7; exact hL7.push _ rfl rfl
            exact (tf_shapeT_at G fuel b dead opts { c7 with scopes := (blk c7 sc7 true :: sc7 :: sc :: rs) } c2 sl _ _ pool7 ps
              ht hh rfl hp7 rfl hm7 hTd hLT h).1) e4
          exact ⟨by rw [hc8], ⟨sc7, sc7, pool7, more8, [], [], hs7, by rw [hc8]; exact hs7, Nat.le_refl _, hp7, by rw [hc8], by rw [hc8]; simp,
            by rw [hc8]; simp, pv8⟩⟩
      obtain ⟨hsc8, A8⟩ := h8
      have hs8 : c8.scopes = sc7 :: sc :: rs := by rw [hsc8]; exact hs7
      refine ⟨c8, c', A7.trans A8, ?_, e5, rfl, rfl, rfl, rfl, fun r hr => ?_⟩
      · intro scE hE'
        rw [hs8] at hE'
        rw [← (List.cons.inj hE').1]
        exact ⟨f71, f72, f73⟩
      · unfold popScope at e5
        rw [hs8] at e5
        simp only at e5
        split at e5 <;> (rw [← Option.some.inj e5]; exact ⟨r, hr⟩)
    | none =>
      rw [hk] at hrest
      simp only at hrest
      obtain ⟨c4, left, c6, c8, right, c11, c13, c14, e1, e2, e4, e5, e7, e8, _, _, ec'⟩ := cIfJumpT_inv2 _ _ _ _ _ _ _ _ _ _ hrest
      obtain ⟨R4, hlen4⟩ := emitSI_stepR c3 c4 _ cond 0 false _ (sc :: rs) (pool ++ more3) ps hs3 hp3 e1
      have M4 : MaxR c3 c4 (sc :: rs) := emitW_maxR c3 c4 _ _ _ (pool ++ more3) ps hs3 hp3 (fun e => W_emitSI_max e _ _ _ _) e1
      have A4 := R4.app hs3 hp3 M4
      have S4 := R4.shp hs3 hL3
      have hm4 := R4.mapLen hm3
      obtain ⟨sc4, pool4, hs4, hp4, g41, g42, g43⟩ := R4.outF
      obtain ⟨_, _, _, _, _, _, _, hL4, _⟩ := S4
      obtain ⟨A8, hm8, hL8, sc8, pool8, hs8, hp8, g81, g82, g83⟩ :=
        branch_appT G fuel b tb hTt opts ht hh c4 c6 c8 left sc4 (sc :: rs) pool4 ps hs4 hp4 hm4 hL4 e2 e4
      obtain ⟨A13, _, _, sc13, pool13, hs13, _, g131, g132, g133⟩ :=
        branch_appT G fuel b fb hTf opts ht hh c8 c11 c13 right sc8 (sc :: rs) pool8 ps hs8 hp8 hm8 hL8 e5 e7
      have AE := A4.trans (A8.trans A13)
      refine ⟨c13, c14, AE, ?_, e8, by rw [ec'], by rw [ec'], by rw [ec'], by rw [ec'], fun r hr => ?_⟩
      · intro scE hE'
        rw [hs13] at hE'
        rw [← (List.cons.inj hE').1, g131, g132, g133, g81, g82, g83, g41, g42, g43]
        exact ⟨rfl, rfl, rfl⟩
      have hb14 : c14.buf = c3.buf ++ r := by
        obtain ⟨scE, scE', poolE, moreE, segE, segmE, _, a2, _⟩ := AE
        unfold popScope at e8
        rw [a2] at e8
        simp only at e8
        split at e8 <;> (rw [← Option.some.inj e8]; exact hr)
      have hi : c3.buf.length ≤ lastLabel c4 := by unfold lastLabel; omega
      rw [ec']
      show ∃ r', modBuf c14.buf _ _ = _
      rw [hb14]
      exact ⟨_, modBuf_append _ _ _ _ hi⟩
  obtain ⟨cE, cPop, AE, hflags, epop, q1, q2, q3, q4, q5⟩ := key
  obtain ⟨sc3', scE, pool3', moreE, segE, segmE, a1, a2, a3, a4, a5, a6, a7, a8⟩ := AE
  rw [hs3] at a1
  rw [hp3] at a4
  have z1 := (List.cons.inj a1).1
  have z2 := (List.cons.inj a4).1
  subst z1 z2
  obtain ⟨rest', hb'⟩ := q5 segE a6
  obtain ⟨f1, f2, f3⟩ := hflags scE a2
  obtain ⟨raX, hpop, hmaxX, _⟩ := popScope_block cE scE sc rs a2 f1 f2 f3
  rw [hpop] at epop
  have hcPop := (Option.some.inj epop).symm
  have hmaxX' : raX.max = (if sc.ra.max < scE.ra.max then scE.ra.max else sc.ra.max) := hmaxX
  have a3' : ra3.max ≤ scE.ra.max := a3
  intro sc' pool' seg segm b1 b2 b3 b4 k hkw hka hD hcode hmap hpre hV hsz
  obtain ⟨kept, hkept⟩ : ∃ kept : List SymPair, kept = scE.syms.map (fun q => { q with visible := false }) := ⟨_, rfl⟩
  have x1 : c'.scopes = { sc with ra := raX, syms := sc.syms ++ kept } :: rs := by rw [q1, hcPop, hkept]
  have x2 : c'.pools = (pool ++ more3 ++ moreE) :: ps := by rw [q2, hcPop]; exact a5
  have x3 : c'.buf = c.buf ++ (seg3 ++ rest') := by rw [hb', hb3]; simp
  have x4 : c'.map = c.map ++ (segm3 ++ segmE) := by rw [q3, hcPop]; show cE.map = _; rw [a7, hmp3]; simp
  have x5 : c'.vals = cE.vals := by rw [q4, hcPop]
  rw [x1] at b1
  rw [x2] at b2
  rw [x3] at b3
  rw [x4] at b4
  have y1 := (List.cons.inj b1).1
  have y2 := (List.cons.inj b2).1
  have y3 := List.append_cancel_left b3
  have y4 := List.append_cancel_left b4
  subst y1 y2 y3 y4
  rw [x5] at hV
  have hsz' : raX.max < k.regs.size := hsz
  exact E3 _ _ seg3 segm3 hs3 hp3 (by rw [hc3]) (by rw [hc3]) k hkw hka (hD.of_lk hlk1) hcode.left hmap.left
    (PrefL.trans ⟨moreE, rfl⟩ hpre) (PrefA.trans a8 hV) (by show ra3.max < _; rw [hmaxX'] at hsz'; split at hsz' <;> omega)

/-- the tail-position `if` case of the error induction -/
theorem if_errT_core (G : String → Prop) (b w : Bool) (fuel : Nat) (IH : CorrectAt p f0 rest V P G (TF G b) w fuel)
    (EN : ErrAt p f0 rest V P G b fuel) (IHT : ErrAtT p f0 rest V P G b fuel) : ErrIfCaseT p f0 rest V P G b fuel := by
  intro cnd tb els pp hok hlen hTc hTt hTe opts c c' slot sc rs pool ps n cur env s s' ev epos ht hh hs hp hl htop hm hcur hc hsem hE
  rw [cValue_if_t fuel opts ht hh cnd tb els pp c, cIfT_le1 _ _ _ _ _ _ hlen] at hc
  have hq := posOf_curAt c cur pp hcur
  cases hcc : cIfBodyT (cValue fuel) opts cnd tb (els.headD (.lit .nil)) (curAt c pp) with
  | none => rw [hcc] at hc; simp [finT] at hc
  | some res =>
    obtain ⟨slot0, cq⟩ := res
    rw [hcc] at hc
    rw [hq] at hcc
    obtain ⟨n2, hn, hcase⟩ := eval_if_err_inv n cur env cnd tb els pp s s' ev epos hsem
    have hTf : TF G b (els.headD (.lit .nil)) := by
      cases els with
      | nil => exact .lit .nil trivial
      | cons e _ => exact hTe e (by simp)
    have S := if_shapeT G fuel (tf_shapeT_at G fuel) b cnd tb _ hTc hTt hTf opts ht hh { c with cur := posOf cur pp } cq slot0 sc rs pool ps
      hs hp hm hE.lkl hcc
    refine finT_err p f0 rest V P G (posOf cur pp) _ slot c cq c' sc rs pool ps env s s' ev epos ?_ S hc
    rcases hcase with hce | ⟨cv, cenv, s1, hsc, hsb⟩
    · exact tail_if_cond_err p f0 rest V P G b fuel EN cnd tb _ hTc hTt hTf opts ht hh { c with cur := posOf cur pp } cq slot0 sc rs pool ps
        n2 (posOf cur pp) env s s' ev epos hs hp hl hm rfl hcc hce hE
    · obtain ⟨cond, c3, hcond, hrest⟩ := cIfBodyT_inv _ opts cnd tb _ _ cq slot0 hcc
      cases hk : isConstSlot cond with
      | none =>
        rw [hk] at hrest
        simp only at hrest
        exact tail_if_jump_err p f0 rest V P G b w fuel IH IHT cnd tb _ hTc hTt hTf opts ht hh { c with cur := posOf cur pp } cq slot0 sc rs pool ps
          n2 (posOf cur pp) env cenv s s1 s' cv ev epos hs hp hl hm rfl c3 cond hcond hk hrest hsc hsb hE
      | some k =>
        rw [hk] at hrest
        simp only at hrest
        have hlk2 : ∀ y, lk (pushScope ({ c with cur := posOf cur pp } : CState) false false false false).scopes y = lk c.scopes y := by
          intro y
          rw [pushScope_blk ({ c with cur := posOf cur pp } : CState) sc rs false hs, hs]
          exact lk_push _ _ rfl rfl rfl y
        have hct : truthy cv = constTruthy k :=
          condT_of_ok G b fuel cnd hok hTc _ c3 cond k n2 (posOf cur pp) env cenv s s1 cv (hE.lkl.of_lk hlk2)
            (fun x hx => by
              rw [hlk2] at hx
              rcases hE.2 x with ⟨_, h2⟩ | ⟨sl, r, a, u, h1, _⟩
              · exact h2
              · rw [hx] at h1; exact absurd h1 (by simp))
            hcond hk hsc
        exact tail_if_const_err p f0 rest V P G b w fuel IH IHT cnd tb _ hTc hTt hTf opts ht hh { c with cur := posOf cur pp } cq slot0 sc rs pool ps
          n2 (posOf cur pp) env cenv s s1 s' cv ev epos hs hp hl hm rfl c3 cond k hcond hrest hsc hct hsb hE

/-- error propagation for tail-position compiles of the whole fragment `TF G b` -/
theorem tf_errT_correct_b (hP : P.length < 65536)
    (hK : ∀ i, i < P.length → (p.defs.getD f0.defIdx default).consts.getD i .nil = litOf V (P.getD i .nil))
    (FF : FloatFacts) (G : String → Prop) (b w : Bool) (CN : ∀ fuel, CorrectAt p f0 rest V P G (TF G b) w fuel) :
    ∀ fuel, ErrAtT p f0 rest V P G b fuel :=
  tf_errT_gen p f0 rest V P hP hK FF G b w CN (tf_err_correct_b p f0 rest V P hP hK FF G b w CN)
    (fun _ fuel IHT => if_errT_core p f0 rest V P G b w fuel (CN fuel) (tf_err_correct_b p f0 rest V P hP hK FF G b w CN fuel) IHT)

end

end JanetModel.Compile
