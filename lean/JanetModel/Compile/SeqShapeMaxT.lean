/- C02: compiling a form of the core fragment in TAIL position never decreases the `max` of the innermost scope's allocator
   (`tf_maxT`), on top of the tail shape theorem (Compile/SeqShapeT.lean) and the non-tail `tf_maxM_at`. -/
import JanetModel.Compile.SeqShapeT
import JanetModel.Compile.SeqShapeMaxR
namespace JanetModel.Compile
open JanetModel.Emit JanetModel.Lang JanetModel.Bytecode.Exec JanetModel.Gen.Bytecode

theorem cReturn_maxR (c c' : CState) (s s' : JSlot) (sc : Scope) (rs : List Scope) (pool : List KConst) (ps : List (List KConst))
    (hs : c.scopes = sc :: rs) (hp : c.pools = pool :: ps) (h : cReturn c s = some (s', c')) : MaxR c c' rs := by
  by_cases hr : s.returned = true
  · rw [cReturn_returned c s hr] at h
    simp only [Option.some.injEq, Prod.mk.injEq] at h
    rw [← h.2]; exact MaxR.refl c rs
  · have hr' : s.returned = false := by simpa using hr
    rw [cReturn_unret c s hr'] at h
    simp only [Option.bind_eq_some_iff, Option.some.injEq, Prod.mk.injEq] at h
    obtain ⟨cx, hem, _, hcx⟩ := h
    subst hcx
    split at hem
    · rw [← Option.some.inj hem]; exact MaxR.of_eq rfl
    · exact emitW_maxR c cx _ sc rs pool ps hs hp (fun e => W_emitS_max e _ _ _) hem

/-- the end of a tail compile -/
theorem finT_maxR (G : String → Prop) (q : Pos) (ret slot : JSlot) (c c1 c' : CState) (sc : Scope) (rs : List Scope) (pool : List KConst)
    (ps : List (List KConst)) (hS : Shp G { c with cur := q } c1 sc rs pool ps) (hM : MaxR { c with cur := q } c1 rs)
    (h : finT c.cur (some (ret, c1)) = some (slot, c')) : MaxR c c' rs := by
  simp only [finT, Option.bind_eq_some_iff, Option.some.injEq, Prod.mk.injEq, Prod.exists] at h
  obtain ⟨s2, c2, hcr, _, hc'⟩ := h
  subst hc'
  obtain ⟨sc1, pool1, hs1, hp1, _, _, _⟩ := hS.out
  have M2 := cReturn_maxR c1 c2 ret s2 sc1 rs pool1 ps hs1 hp1 hcr
  have := hM.trans hs1 M2
  exact fun sc0 sc0' a b => this sc0 sc0' a b

def MaxAtT (G : String → Prop) (fuel : Nat) : Prop :=
  ∀ (b : Bool) (e : Expr) (opts : Fopts) (c c' : CState) (slot : JSlot) (sc : Scope) (rs : List Scope) (pool : List KConst) (ps : List (List KConst)),
    opts.tail = true → opts.hint = none → c.scopes = sc :: rs → c.pools = pool :: ps → sc.top = false → c.map.length = c.buf.length →
    TF G b e → LkL G c.scopes → cValue fuel opts e c = some (slot, c') → MaxR c c' rs

theorem doBody_maxT (G : String → Prop) (fuel : Nat) (IH : MaxAtT G fuel) (b : Bool) : ∀ (body : List Expr), (∀ e, e ∈ body → TF G b e) →
    ∀ (opts : Fopts) (c c' : CState) (slot : JSlot) (sc : Scope) (rs : List Scope) (pool : List KConst) (ps : List (List KConst)),
      opts.tail = true → opts.hint = none → c.scopes = sc :: rs → c.pools = pool :: ps → sc.top = false → c.map.length = c.buf.length →
      LkL G c.scopes → doBody (cValue fuel) opts body c = some (slot, c') → MaxR c c' rs := by
  intro body
  induction body with
  | nil =>
    intro _ opts c c' slot sc rs pool ps _ _ _ _ _ _ _ h
    simp only [doBody, Option.some.injEq, Prod.mk.injEq] at h
    rw [← h.2]; exact MaxR.refl c rs
  | cons x t ih =>
    intro hT opts c c' slot sc rs pool ps ht hh hs hp htop hm hL h
    cases t with
    | nil =>
      simp only [doBody] at h
      exact IH b x opts c c' slot sc rs pool ps ht hh hs hp htop hm (hT x (by simp)) hL h
    | cons y r =>
      simp only [doBody, Option.bind_eq_bind, Option.bind_eq_some_iff, Prod.exists] at h
      obtain ⟨sl1, c1, hx, c1f, hf, hrest⟩ := h
      have S1 := (tf_shapeM_at G fuel b x { drop := true } c c1 sl1 sc rs pool ps rfl rfl hs hp htop hm (hT x (by simp)) hL hx).1
      obtain ⟨sc1, pool1, hs1, hp1, ht1, hL1, _⟩ := S1.out
      have S2 := (freeslot_stepR c1 c1f sl1 sc1 rs pool1 ps hs1 hp1 hf).shp hs1 hL1
      obtain ⟨sc2, pool2, hs2, hp2, ht2, hL2, _⟩ := S2.out
      have M1 := tf_maxM_at G fuel b x { drop := true } c c1 sl1 sc rs pool ps rfl rfl hs hp htop hm (hT x (by simp)) hL hx
      have M2 := freeslot_maxR c1 c1f sl1 sc1 rs hs1 hf
      have M3 := ih (fun e he => hT e (by simp [he])) opts c1f c' slot sc2 rs pool2 ps ht hh hs2 hp2
        (by rw [ht2, ht1]; exact htop) (S2.mapLen (S1.mapLen hm)) hL2 hrest
      exact M1.trans hs1 (M2.trans hs2 M3)

theorem cCall_maxT (G : String → Prop) (fuel : Nat) (b : Bool) (f : String) (args : List Expr)
    (hTa : ∀ a, a ∈ args → TF G b a) (opts : Fopts) (ht : opts.tail = true)
    (c cq : CState) (slot : JSlot) (sc : Scope) (rs : List Scope) (pool : List KConst) (ps : List (List KConst))
    (hs : c.scopes = sc :: rs) (hp : c.pools = pool :: ps) (htop : sc.top = false) (hm : c.map.length = c.buf.length) (hL : LkL G c.scopes)
    (h : cCall (cValue fuel) opts (.sym f) args c = some (slot, cq)) : MaxR c cq rs := by
  obtain ⟨head, c1, slots, c2, c3, h1, h2, h3, hrest⟩ := cCallT_inv (cValue fuel) opts ht f args c cq slot h
  have S1 := (tf_shapeM_at G fuel b (.sym f) {} c c1 head sc rs pool ps rfl rfl hs hp htop hm (.sym f) hL h1).1
  obtain ⟨sc1, pool1, hs1, hp1, ht1, hL1, _⟩ := S1.out
  have htop1 : sc1.top = false := by rw [ht1]; exact htop
  have hm1 := S1.mapLen hm
  have S2 := toSlots_shapeM G fuel (tf_shapeM_at G fuel) b args hTa c1 c2 slots sc1 rs pool1 ps hs1 hp1 htop1 hm1 hL1 h2
  obtain ⟨sc2, pool2, hs2, hp2, ht2, hL2, _⟩ := S2.out
  have R3 := pushSlots_stepR slots c2 c3 sc2 rs pool2 ps hs2 hp2 h3
  obtain ⟨sc3, pool3, hs3, hp3, ht3, _⟩ := R3.out
  have hct : curTop c3 = false := by simp [curTop, hs3, ht3, ht2, htop1]
  obtain ⟨c4, c5, hem, hsl, hf1, hf2⟩ := hrest hct
  have R4 := emitS_stepR c3 c4 _ head false sc3 rs pool3 ps hs3 hp3 hem
  obtain ⟨sc4, pool4, hs4, hp4, _, _⟩ := R4.out
  have R5 := freeslots_stepR slots c4 c5 sc4 rs pool4 ps hs4 hp4 hf1
  obtain ⟨sc5, pool5, hs5, hp5, _, _⟩ := R5.out
  have M1 := tf_maxM_at G fuel b (.sym f) {} c c1 head sc rs pool ps rfl rfl hs hp htop hm (.sym f) hL h1
  have M2 := toSlots_maxR G fuel (tf_maxM_at G fuel) b args hTa c1 c2 slots sc1 rs pool1 ps hs1 hp1 htop1 hm1 hL1 h2
  have M3 := pushSlots_maxR slots c2 c3 sc2 rs pool2 ps hs2 hp2 h3
  have M4 := emitW_maxR c3 c4 _ sc3 rs pool3 ps hs3 hp3 (fun e => W_emitS_max e _ _ _) hem
  have M5 := freeslots_maxR slots c4 c5 sc4 rs pool4 ps hs4 hp4 hf1
  have M6 := freeslot_maxR c5 cq head sc5 rs hs5 hf2
  exact M1.trans hs1 (M2.trans hs2 (M3.trans hs3 (M4.trans hs4 (M5.trans hs5 M6))))

theorem branch_maxT (G : String → Prop) (fuel : Nat) (b : Bool) (x : Expr) (hx : TF G b x)
    (opts : Fopts) (ht : opts.tail = true) (hh : opts.hint = none)
    (c c6 c8 : CState) (left : JSlot) (sc : Scope) (rs : List Scope) (pool : List KConst) (ps : List (List KConst))
    (hs : c.scopes = sc :: rs) (hp : c.pools = pool :: ps) (hm : c.map.length = c.buf.length) (hL : LkL G c.scopes)
    (h1 : cValue fuel opts x (pushScope c false false false false) = some (left, c6)) (h3 : popScope c6 = some c8) : MaxR c c8 rs := by
  rw [pushScope_blk c sc rs false hs] at h1
  have hLP : LkL G (blk c sc false :: sc :: rs) := by
    rw [hs] at hL; exact hL.push _ rfl rfl
  obtain ⟨S1, _⟩ := tf_shapeT_at G fuel b x opts { c with scopes := blk c sc false :: sc :: rs } c6 left (blk c sc false) (sc :: rs) pool ps
    ht hh rfl hp rfl hm hx hLP h1
  exact block_maxR G c c6 c8 sc rs pool ps hs S1 h3

theorem if_maxT (G : String → Prop) (fuel : Nat) (b : Bool) (cnd tb fb : Expr)
    (hTc : TF G b cnd) (hTt : TF G b tb) (hTf : TF G b fb) (opts : Fopts) (ht : opts.tail = true) (hh : opts.hint = none)
    (c c' : CState) (slot : JSlot) (sc : Scope) (rs : List Scope) (pool : List KConst) (ps : List (List KConst))
    (hs : c.scopes = sc :: rs) (hp : c.pools = pool :: ps) (hm : c.map.length = c.buf.length) (hL : LkL G c.scopes)
    (hc : cIfBodyT (cValue fuel) opts cnd tb fb c = some (slot, c')) : MaxR c c' rs := by
  have IH := tf_shapeT_at G fuel
  obtain ⟨cond, c3, hcond, hrest⟩ := cIfBodyT_inv _ opts cnd tb fb c c' slot hc
  rw [pushScope_blk c sc rs false hs] at hcond
  have hLP : LkL G (blk c sc false :: sc :: rs) := by
    rw [hs] at hL; exact hL.push _ rfl rfl
  obtain ⟨S1, _⟩ := tf_shapeM_at G fuel b cnd {} { c with scopes := blk c sc false :: sc :: rs } c3 cond (blk c sc false) (sc :: rs) pool ps
    rfl rfl rfl hp rfl hm hTc hLP hcond
  have hm3 : c3.map.length = c3.buf.length := S1.mapLen hm
  obtain ⟨sc3, pool3, hs3, hp3, _, hL3, hb3⟩ := S1.out
  cases hk : isConstSlot cond with
  | some k =>
    rw [hk] at hrest
    simp only at hrest
    obtain ⟨right, c5, c7, c8, e1, e3, e4, e5, _⟩ := cIfConstT_inv _ _ _ _ _ _ _ _ _ hrest
    have hTl : TF G b (if constTruthy k then tb else fb) := by split <;> assumption
    have hTd : TF G b (if constTruthy k then fb else tb) := by split <;> assumption
    obtain ⟨dead, hdead⟩ : ∃ d, d = (if constTruthy k then fb else tb) := ⟨_, rfl⟩
    rw [← hdead] at e4 hTd
    have S7 := branch_shapeT G fuel IH b _ hTl opts ht hh c3 c5 c7 right sc3 (sc :: rs) pool3 ps hs3 hp3 hm3 hL3 e1 e3
    have hm7 := S7.mapLen hm3
    obtain ⟨sc7, pool7, hs7, hp7, _, hL7, _⟩ := S7.out
    have S8 : Shp G c7 c8 sc7 (sc :: rs) pool7 ps := by
      split at e4
      · rw [← Option.some.inj e4]; exact Shp.refl hs7 hp7 hL7
      · refine throwaway_shape G _ opts _ c7 c8 sc7 (sc :: rs) pool7 ps hs7 hL7 hm7 (fun c2 sl h => ?_) e4
        have hLT : LkL G (blk c7 sc7 true :: sc7 :: sc :: rs) := by
          rw [hs7] at hL7; exact hL7.push _ rfl rfl
        exact (IH b _ opts { c7 with scopes := blk c7 sc7 true :: sc7 :: sc :: rs } c2 sl (blk c7 sc7 true) (sc7 :: sc :: rs) pool7 ps
          ht hh rfl hp7 rfl hm7 hTd hLT h).1
    have Sblock := S1.trans' hs3 hp3 (S7.trans' hs7 hp7 S8)
    exact block_maxR G c c8 c' sc rs pool ps hs Sblock e5
  | none =>
    rw [hk] at hrest
    simp only at hrest
    obtain ⟨c4, left, c6, c8, right, c11, c13, c14, e1, e2, e4, e5, e7, e8, _, ec'⟩ := cIfJumpT_inv _ _ _ _ _ _ _ _ _ _ hrest
    obtain ⟨R4, hlen4⟩ := emitSI_stepR c3 c4 _ cond 0 false sc3 (sc :: rs) pool3 ps hs3 hp3 e1
    have S4 := R4.shp hs3 hL3
    have hm4 := R4.mapLen hm3
    obtain ⟨sc4, pool4, hs4, hp4, _, hL4, _⟩ := S4.out
    have S8 := branch_shapeT G fuel IH b tb hTt opts ht hh c4 c6 c8 left sc4 (sc :: rs) pool4 ps hs4 hp4 hm4 hL4 e2 e4
    have hm8 := S8.mapLen hm4
    obtain ⟨sc8, pool8, hs8, hp8, _, hL8, _⟩ := S8.out
    have S13 := branch_shapeT G fuel IH b fb hTf opts ht hh c8 c11 c13 right sc8 (sc :: rs) pool8 ps hs8 hp8 hm8 hL8 e5 e7
    have Sblock := S1.trans' hs3 hp3 (S4.trans' hs4 hp4 (S8.trans' hs8 hp8 S13))
    have M14 := block_maxR G c c13 c14 sc rs pool ps hs Sblock e8
    rw [ec']
    exact fun sc0 sc0' a b => M14 sc0 sc0' a b

theorem tf_maxT_at (G : String → Prop) : ∀ fuel, MaxAtT G fuel := by
  intro fuel
  induction fuel with
  | zero =>
    intro b e opts c c' slot sc rs pool ps _ _ _ _ _ _ _ _ hc
    simp [cValue] at hc
  | succ fuel ih =>
    intro b e opts c c' slot sc rs pool ps ht hh hs hp htop hm hT hL hc
    cases hT with
    | lit w hw =>
      rw [cValue_lit_t fuel opts ht hh w hw c] at hc
      exact finT_maxR G c.cur _ slot c _ c' sc rs pool ps (constSlot_shape G c w sc rs pool ps hs hp hL)
        (MaxR.of_eq (by show (kOf c w).2.scopes = _; rw [(kOf_shape c w).1])) hc
    | sym x =>
      rw [cValue_sym_t fuel opts ht hh] at hc
      cases hlk : lk c.scopes x with
      | none =>
        rw [resolve_global c x (by rw [lookupSlot_lk]; exact hlk)] at hc
        have hg : globalSlot c x = some (constSlot c (.cfun x)) := by
          unfold globalSlot at hc ⊢
          split at hc <;> simp_all [finT]
        rw [hg] at hc
        exact finT_maxR G c.cur _ slot c _ c' sc rs pool ps (constSlot_shape G c (.cfun x) sc rs pool ps hs hp hL)
          (MaxR.of_eq (by show (kOf c (.cfun x)).2.scopes = _; rw [(kOf_shape c (.cfun x)).1])) hc
      | some r =>
        obtain ⟨sl, u, l⟩ := r
        obtain ⟨hl, hcf, _, _⟩ := hL.2 x sl u l hlk
        subst hl
        rw [resolve_local c x sl u (by rw [lookupSlot_lk]; exact hlk) hcf] at hc
        exact finT_maxR G c.cur _ slot c _ c' sc rs pool ps (Shp.refl hs hp hL) (MaxR.of_eq rfl) hc
    | call f args pp hf hna hG hTa =>
      rw [cValue_call_t fuel opts ht hh f args pp c hf] at hc
      obtain ⟨q, hq⟩ := curAt_eq c pp
      cases hcc : cCall (cValue fuel) opts (.sym f) args (curAt c pp) with
      | none => rw [hcc] at hc; simp [finT] at hc
      | some res =>
        obtain ⟨slot0, cq⟩ := res
        rw [hcc] at hc
        rw [hq] at hcc
        obtain ⟨S, _⟩ := cCall_shapeT G fuel b f args hTa opts ht { c with cur := q } cq slot0 sc rs pool ps hs hp htop hm hL hcc
        have M := cCall_maxT G fuel b f args hTa opts ht { c with cur := q } cq slot0 sc rs pool ps hs hp htop hm hL hcc
        exact finT_maxR G q _ slot c _ c' sc rs pool ps S M hc
    | doo body pp hTb =>
      rw [cValue_do_t fuel opts ht hh body pp c] at hc
      obtain ⟨q, hq⟩ := curAt_eq c pp
      cases hcc : cDo (cValue fuel) opts body (curAt c pp) with
      | none => rw [hcc] at hc; simp [finT] at hc
      | some res =>
        obtain ⟨slot0, cq⟩ := res
        rw [hcc] at hc
        rw [hq] at hcc
        have S := do_shapeT G fuel (tf_shapeT_at G fuel) b body hTb opts ht hh { c with cur := q } cq slot0 sc rs pool ps hs hp hm hL hcc
        have M : MaxR { c with cur := q } cq rs := by
          simp only [cDo, Option.bind_eq_bind, Option.bind_eq_some_iff, Prod.exists, Option.pure_def, Option.some.injEq, Prod.mk.injEq] at hcc
          obtain ⟨r, c2, hbody, c3, hpop, _, hc3⟩ := hcc
          rw [← hc3]
          rw [pushScope_blk { c with cur := q } sc rs false hs] at hbody
          have hLP : LkL G (blk { c with cur := q } sc false :: sc :: rs) := by
            rw [hs] at hL; exact hL.push _ rfl rfl
          have S1 := doBody_shapeT G fuel (tf_shapeT_at G fuel) b body hTb opts
            { ({ c with cur := q } : CState) with scopes := (blk { c with cur := q } sc false :: sc :: rs) } c2 r (blk { c with cur := q } sc false)
            (sc :: rs) pool ps ht hh rfl hp rfl hm hLP hbody
          exact blockKeep_maxR G { c with cur := q } c2 c3 r sc rs pool ps hs S1 hpop
        exact finT_maxR G q _ slot c _ c' sc rs pool ps S M hc
    | ups body pp hTb =>
      rw [cValue_upscope_t fuel opts ht hh body pp c] at hc
      obtain ⟨q, hq⟩ := curAt_eq c pp
      cases hcc : doBody (cValue fuel) opts body (curAt c pp) with
      | none => rw [hcc] at hc; simp [finT] at hc
      | some res =>
        obtain ⟨slot0, cq⟩ := res
        rw [hcc] at hc
        rw [hq] at hcc
        have S := doBody_shapeT G fuel (tf_shapeT_at G fuel) b body hTb opts { c with cur := q } cq slot0 sc rs pool ps ht hh hs hp htop hm hL hcc
        have M := doBody_maxT G fuel ih b body hTb opts { c with cur := q } cq slot0 sc rs pool ps ht hh hs hp htop hm hL hcc
        exact finT_maxR G q _ slot c _ c' sc rs pool ps S M hc
    | deff x ve pp hGx hTv =>
      rw [cValue_def_t fuel opts ht hh x ve pp c] at hc
      obtain ⟨q, hq⟩ := curAt_eq c pp
      cases hcc : cDef (cValue fuel) x ve (curAt c pp) with
      | none => rw [hcc] at hc; simp [finT] at hc
      | some res =>
        obtain ⟨slot0, cq⟩ := res
        rw [hcc] at hc
        rw [hq] at hcc
        have S := def_shapeT G fuel b x ve hGx hTv { c with cur := q } cq slot0 sc rs pool ps hs hp htop hm hL hcc
        have M : MaxR { c with cur := q } cq rs := by
          have hct : curTop ({ c with cur := q } : CState) = false := by simp [curTop, hs, htop]
          simp only [cDef, hct, Bool.false_eq_true, if_false, Option.bind_eq_bind, Option.bind_eq_some_iff, Prod.exists, Option.pure_def,
            Option.some.injEq, Prod.mk.injEq] at hcc
          obtain ⟨r, c1, hv, c2, hnl, _, hc2⟩ := hcc
          rw [← hc2]
          obtain ⟨S1, hsl⟩ := tf_shapeM_at G fuel b ve {} { c with cur := q } c1 r sc rs pool ps rfl rfl hs hp htop hm hTv hL hv
          obtain ⟨sc1, pool1, hs1, hp1, _, _, _⟩ := S1.out
          have M1 := tf_maxM_at G fuel b ve {} { c with cur := q } c1 r sc rs pool ps rfl rfl hs hp htop hm hTv hL hv
          exact M1.trans hs1 (namelocal_maxR c1 c2 x r sc1 rs pool1 ps hs1 hp1 hsl hnl)
        exact finT_maxR G q _ slot c _ c' sc rs pool ps S M hc
    | iff cnd tb rest pp _ _ hlen hTc hTt hTe =>
      rw [cValue_if_t fuel opts ht hh cnd tb rest pp c, cIfT_le1 _ _ _ _ _ _ hlen] at hc
      obtain ⟨q, hq⟩ := curAt_eq c pp
      cases hcc : cIfBodyT (cValue fuel) opts cnd tb (rest.headD (.lit .nil)) (curAt c pp) with
      | none => rw [hcc] at hc; simp [finT] at hc
      | some res =>
        obtain ⟨slot0, cq⟩ := res
        rw [hcc] at hc
        rw [hq] at hcc
        have hTf : TF G b (rest.headD (.lit .nil)) := by
          cases rest with
          | nil => exact .lit .nil trivial
          | cons e _ => exact hTe e (by simp)
        have S := if_shapeT G fuel (tf_shapeT_at G fuel) b cnd tb _ hTc hTt hTf opts ht hh { c with cur := q } cq slot0 sc rs pool ps hs hp hm hL hcc
        have M := if_maxT G fuel b cnd tb _ hTc hTt hTf opts ht hh { c with cur := q } cq slot0 sc rs pool ps hs hp hm hL hcc
        exact finT_maxR G q _ slot c _ c' sc rs pool ps S M hc

theorem tf_maxT (G : String → Prop) (b : Bool) (fuel : Nat) (e : Expr) (opts : Fopts) (c c' : CState) (slot : JSlot) (sc sc' : Scope) (rs : List Scope)
    (pool : List KConst) (ps : List (List KConst))
    (ht : opts.tail = true) (hh : opts.hint = none) (hs : c.scopes = sc :: rs) (hp : c.pools = pool :: ps) (htop : sc.top = false)
    (hm : c.map.length = c.buf.length) (hT : TF G b e) (hL : LkL G c.scopes) (hc : cValue fuel opts e c = some (slot, c'))
    (hs' : c'.scopes = sc' :: rs) : sc.ra.max ≤ sc'.ra.max :=
  tf_maxT_at G fuel b e opts c c' slot sc rs pool ps ht hh hs hp htop hm hT hL hc sc sc' hs hs'

end JanetModel.Compile
