/- C02: `janetc_while` (specials.c) as the model compiles it, for options without tail / hint: `Compile.cValue` on
   `(while cnd body...)` unfolded once into `cWhile`; the non-function path (no closure created in the loop) inverted; the
   `break`-placeholder rewrite is the identity on code without placeholders; `Lang/Sem.whileLoop` unfolded and inverted. -/
import JanetModel.Compile.SeqIfSem
namespace JanetModel.Compile
open JanetModel.Emit JanetModel.Lang JanetModel.Bytecode.Exec JanetModel.Gen.Bytecode

/-- the `break`-placeholder rewrite of `janetc_while` -/
def brkRewrite (buf2 : List CI) (labelwt labeld : Nat) : List CI :=
  (List.range buf2.length).map (fun i =>
    match buf2.getD i default with
    | .brk => if labelwt ≤ i && i < labeld then CI.jump (Int.ofNat (labeld - i)) else .brk
    | ci => ci)

/-- a closure was created in the loop: `janetc_while` recompiles the loop as a tail-recursive function -/
def cWhileFn (rec' : Fopts → Expr → CState → Option (JSlot × CState)) (cnd : Expr) (body : List Expr) (labelwt : Nat) (c4 : CState) :
    Option (JSlot × CState) := do
  let c5 ← popScope { c4 with scopes := c4.scopes.modify 0 (fun s => { s with unused := true }) }
  let c6 : CState := { c5 with buf := c5.buf.take labelwt, map := c5.map.take labelwt }
  let c7 := pushScope c6 true false false false
  let (cond2, c8) ← rec' {} cnd c7
  let c9 ← if (isConstSlot cond2).isNone then do
              let c' ← emitSI c8 .jumpIf cond2 2 false
              pure (emitRaw c' .retNil)
            else pure c8
  let c10 ← whileBody rec' body c9
  match c10.scopes with
  | [] => none
  | sc :: rest =>
    let (tself, ra1) := sc.ra.allocTemp 0
    if ra1.max ≥ c10.lim then none else
    let c11 := emitRaw (emitRaw { c10 with scopes := { sc with ra := ra1.freeTemp tself 0 } :: rest } (.loadSelf tself)) (.tailcall tself)
    let (d, c12) ← popFuncdef c11 0 0 2147483647 false
    let (di, c13) := addFuncdef c12 d
    match c13.scopes with
    | [] => none
    | sc2 :: rest2 =>
      let (clo, ra2) := sc2.ra.allocTemp 0
      if ra2.max ≥ c13.lim then none else
      let c14 := emitRaw (emitRaw { c13 with scopes := { sc2 with ra := ra2.freeTemp clo 0, closure := true } :: rest2 } (.closure clo di)) (.call clo clo)
      pure (cslot .nil, c14)

/-- `janetc_while` -/
def cWhile (rec' : Fopts → Expr → CState → Option (JSlot × CState)) (cnd : Expr) (body : List Expr) (c : CState) : Option (JSlot × CState) := do
  let labelwt := c.buf.length
  let c1 := pushScope c false true false false
  let (cond, c2) ← rec' {} cnd c1
  let infinite : Option Bool := match isConstSlot cond with
    | some k => if !constTruthy k then none else some true
    | none => some false
  match infinite with
  | none => do let c3 ← popScope c2; pure (cslot .nil, c3)
  | some inf => do
    let c3 ← if inf then pure c2 else emitSI c2 .jumpIfNot cond 0 false
    let labelc := if inf then 0 else lastLabel c3
    let c4 ← whileBody rec' body c3
    if (c4.scopes.headD default).closure then cWhileFn rec' cnd body labelwt c4
    else
      let labeljt := c4.buf.length
      let c5 := emitRaw c4 (.jump 0)
      let labeld := c5.buf.length
      if (!inf && labeld - labelc > 32767) || labeljt - labelwt > 0x7FFFFF then none else
      let buf1 := if inf then c5.buf else modBuf c5.buf labelc (patchCond (labeld - labelc))
      let buf2 := modBuf buf1 labeljt (fun _ => .jump (Int.ofNat labelwt - Int.ofNat labeljt))
      do
        let c6 ← popScope { c5 with buf := brkRewrite buf2 labelwt labeld }
        pure (cslot .nil, c6)

theorem cValue_while_o (fuel : Nat) (opts : Fopts) (ht : opts.tail = false) (hh : opts.hint = none) (cnd : Expr) (body : List Expr) (p : Pos) (c : CState) :
    cValue (fuel + 1) opts (.form (.sym "while" :: cnd :: body) p) c = fin c.cur (cWhile (cValue fuel) cnd body (curAt c p)) := by
  simp only [cValue, ht, hh]
  split
  · rename_i h; exact (congrArg (fin c.cur) h).symm
  · rename_i r c1 h
    simp only [Bool.false_eq_true, if_false, Option.pure_def, Option.bind_eq_bind, Option.bind_some]
    exact (congrArg (fin c.cur) h).symm

end JanetModel.Compile
