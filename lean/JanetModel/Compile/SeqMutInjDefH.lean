/- C02: `MutInj` at the exit of a HINTED compile (what `set` does with its value) of a form of the fragment that MAY contain `def`,
   and the `hside` statement of `compile_correct_set` from entry facts.  On top of the un-hinted induction `tf_pat_at`. -/
import JanetModel.Compile.SeqMutInjDefM
namespace JanetModel.Compile
open JanetModel.Emit JanetModel.Lang JanetModel.Bytecode.Exec JanetModel.Gen.Bytecode

theorem finH_pat {P : Nat → Prop} (G : String → Prop) (q : Pos) (h ret slot : JSlot) (c c1 c' : CState) (sc : Scope) (rs : List Scope)
    (pool : List KConst) (ps : List (List KConst)) (hS : Shp G { c with cur := q } c1 sc rs pool ps) (hY : PAt P c1 rs)
    (hf : finH c.cur h (some (ret, c1)) = some (slot, c')) : PAt P c' rs := by
  obtain ⟨hsl, c2, hcp, hc'⟩ := finH_inv _ _ _ _ _ _ hf
  obtain ⟨sc1, pool1, hs1, hp1, _, hL1, _⟩ := hS.out
  have R := copySlot_stepR c1 c2 h ret sc1 rs pool1 ps hs1 hp1 hcp
  have := PAt.of_step (hY sc1 hs1) R (copySlot_marks c1 c2 h ret sc1 rs hs1 hcp)
  rw [hc']
  exact fun sc0 a => this sc0 a

def PAtH (G : String → Prop) (fuel : Nat) : Prop :=
  ∀ (P : Nat → Prop) (b : Bool) (e : Expr) (opts : Fopts) (c c' : CState) (slot : JSlot) (sc : Scope) (rs : List Scope) (pool : List KConst)
    (ps : List (List KConst)) (h : JSlot) (rh : Nat),
    opts.tail = false → opts.hint = some h → h.k = .loc rh → h.cflag = false → rh < 240 →
    c.scopes = sc :: rs → c.pools = pool :: ps → sc.top = false → c.map.length = c.buf.length → c.lim ≤ 65536 →
    TF G b e → LkL G c.scopes → PInv P (sc :: rs) sc.ra → cValue fuel opts e c = some (slot, c') → PAt P c' rs

theorem doBody_patH (G : String → Prop) (fuel : Nat) (IH : PAtH G fuel) (P : Nat → Prop) (b : Bool) : ∀ (body : List Expr), (∀ e, e ∈ body → TF G b e) →
    ∀ (opts : Fopts) (c c' : CState) (slot : JSlot) (sc : Scope) (rs : List Scope) (pool : List KConst) (ps : List (List KConst)) (h : JSlot) (rh : Nat),
      opts.tail = false → opts.hint = some h → h.k = .loc rh → h.cflag = false → rh < 240 →
      c.scopes = sc :: rs → c.pools = pool :: ps → sc.top = false → c.map.length = c.buf.length → c.lim ≤ 65536 →
      LkL G c.scopes → PInv P (sc :: rs) sc.ra → doBody (cValue fuel) opts body c = some (slot, c') → PAt P c' rs := by
  intro body
  induction body with
  | nil =>
    intro _ opts c c' slot sc rs pool ps h rh _ _ _ _ _ hs hp _ _ _ hL hI hc
    simp only [doBody, Option.some.injEq, Prod.mk.injEq] at hc
    rw [← hc.2]
    exact PAt.of_eq hs hI rfl
  | cons x t ih =>
    intro hT opts c c' slot sc rs pool ps h rh ht hh hk hcf hr hs hp htop hm hl hL hI hc
    cases t with
    | nil =>
      simp only [doBody] at hc
      exact IH P b x opts c c' slot sc rs pool ps h rh ht hh hk hcf hr hs hp htop hm hl (hT x (by simp)) hL hI hc
    | cons y r =>
      simp only [doBody, Option.bind_eq_bind, Option.bind_eq_some_iff, Prod.exists] at hc
      obtain ⟨sl1, c1, hx, c1f, hf, hrest⟩ := hc
      have S1 := (tf_shapeM_at G fuel b x { drop := true } c c1 sl1 sc rs pool ps rfl rfl hs hp htop hm (hT x (by simp)) hL hx).1
      obtain ⟨sc1, pool1, hs1, hp1, ht1, hL1, _⟩ := S1.out
      have R2 := freeslot_stepR c1 c1f sl1 sc1 rs pool1 ps hs1 hp1 hf
      have S2 := R2.shp hs1 hL1
      obtain ⟨sc2, pool2, hs2, hp2, ht2, hL2, _⟩ := S2.out
      obtain ⟨r1, M1⟩ := tf_pat_at G fuel P b x { drop := true } c c1 sl1 sc rs pool ps rfl rfl hs hp htop hm hl (hT x (by simp)) hL hI hx
      have M2 := freeslot_pat c1 c1f sl1 sc1 rs hs1 (M1 sc1 hs1) r1 hf
      exact ih (fun e he => hT e (by simp [he])) opts c1f c' slot sc2 rs pool2 ps h rh ht hh hk hcf hr hs2 hp2
        (by rw [ht2, ht1]; exact htop) (S2.mapLen (S1.mapLen hm)) (by rw [R2.lim, S1.lim]; exact hl) hL2 (M2 sc2 hs2) hrest

theorem cCall_patH (G : String → Prop) (fuel : Nat) (P : Nat → Prop) (b : Bool) (f : String) (args : List Expr)
    (hTa : ∀ a, a ∈ args → TF G b a) (opts : Fopts) (ht : opts.tail = false) (h : JSlot) (rh : Nat)
    (hh : opts.hint = some h) (hk : h.k = .loc rh) (hr : rh < 240)
    (c cq : CState) (slot : JSlot) (sc : Scope) (rs : List Scope) (pool : List KConst) (ps : List (List KConst))
    (hs : c.scopes = sc :: rs) (hp : c.pools = pool :: ps) (htop : sc.top = false) (hm : c.map.length = c.buf.length) (hl : c.lim ≤ 65536)
    (hL : LkL G c.scopes) (hI : PInv P (sc :: rs) sc.ra)
    (hc : cCall (cValue fuel) opts (.sym f) args c = some (slot, cq)) : PAt P cq rs := by
  obtain ⟨head, c1, slots, c2, c3, c4, c5, h1, h2, h3, hEm, hf1, hf2, _⟩ :=
    cCallH_inv (cValue fuel) opts ht h rh hh hk (by omega) f args c cq slot hc
  have S1 := (tf_shapeM_at G fuel b (.sym f) {} c c1 head sc rs pool ps rfl rfl hs hp htop hm (.sym f) hL h1).1
  obtain ⟨sc1, pool1, hs1, hp1, ht1, hL1, _⟩ := S1.out
  have hm1 := S1.mapLen hm
  have htop1 : sc1.top = false := by rw [ht1]; exact htop
  have hl1 : c1.lim ≤ 65536 := by rw [S1.lim]; exact hl
  have S2 := toSlots_shapeM G fuel (tf_shapeM_at G fuel) b args hTa c1 c2 slots sc1 rs pool1 ps hs1 hp1 htop1 hm1 hL1 h2
  obtain ⟨sc2, pool2, hs2, hp2, _, _, _⟩ := S2.out
  have R3 := pushSlots_stepR slots c2 c3 sc2 rs pool2 ps hs2 hp2 h3
  obtain ⟨sc3, pool3, hs3, hp3, _, _⟩ := R3.out
  have R5 := emitSS_stepR c3 c4 _ h head true sc3 rs pool3 ps hs3 hp3 hEm
  obtain ⟨sc5, pool5, hs5, hp5, _, _⟩ := R5.out
  have R6 := freeslots_stepR slots c4 c5 sc5 rs pool5 ps hs5 hp5 hf1
  obtain ⟨sc6, pool6, hs6, hp6, _, _⟩ := R6.out
  obtain ⟨rhd, M1⟩ := tf_pat_at G fuel P b (.sym f) {} c c1 head sc rs pool ps rfl rfl hs hp htop hm hl (.sym f) hL hI h1
  obtain ⟨rsl, M2⟩ := toSlots_pat G fuel (tf_pat_at G fuel) P b args hTa c1 c2 slots sc1 rs pool1 ps hs1 hp1 htop1 hm1 hl1 hL1 (M1 sc1 hs1) h2
  have M3 := PAt.of_step (M2 sc2 hs2) R3 (pushSlots_marks slots c2 c3 sc2 rs hs2 h3)
  have M5 := PAt.of_step (M3 sc3 hs3) R5 (emitSS_marks c3 c4 _ h head true sc3 rs hs3 hEm)
  have M6 := freeslots_pat slots c4 c5 sc5 rs pool5 ps hs5 hp5 (M5 sc5 hs5) rsl hf1
  exact freeslot_pat c5 cq head sc6 rs hs6 (M6 sc6 hs6) rhd hf2

theorem cDef_pat (G : String → Prop) (fuel : Nat) (P : Nat → Prop) (b : Bool) (x : String) (ve : Expr) (hTv : TF G b ve)
    (c cq : CState) (slot0 : JSlot) (sc : Scope) (rs : List Scope) (pool : List KConst) (ps : List (List KConst))
    (hs : c.scopes = sc :: rs) (hp : c.pools = pool :: ps) (htop : sc.top = false) (hm : c.map.length = c.buf.length) (hl : c.lim ≤ 65536)
    (hL : LkL G c.scopes) (hI : PInv P (sc :: rs) sc.ra)
    (hcc : cDef (cValue fuel) x ve c = some (slot0, cq)) : PAt P cq rs := by
  have hct : curTop c = false := by simp [curTop, hs, htop]
  simp only [cDef, hct, Bool.false_eq_true, if_false, Option.bind_eq_bind, Option.bind_eq_some_iff, Prod.exists, Option.pure_def,
    Option.some.injEq, Prod.mk.injEq] at hcc
  obtain ⟨r, c1, hv, c2, hnl, _, hc2⟩ := hcc
  rw [← hc2]
  obtain ⟨S1, hsl⟩ := tf_shapeM_at G fuel b ve {} c c1 r sc rs pool ps rfl rfl hs hp htop hm hTv hL hv
  obtain ⟨sc1, pool1, hs1, hp1, _, _, _⟩ := S1.out
  obtain ⟨rr, M1⟩ := tf_pat_at G fuel P b ve {} c c1 r sc rs pool ps rfl rfl hs hp htop hm hl hTv hL hI hv
  exact namelocal_pat c1 c2 x r sc1 rs pool1 ps hs1 hp1 (by rw [S1.lim]; exact hl) (M1 sc1 hs1) hsl rr hnl

theorem if_patH (G : String → Prop) (fuel : Nat) (IH : ShapeAtH G fuel) (P : Nat → Prop) (b : Bool) (cnd tb fb : Expr)
    (hTc : TF G b cnd) (hTt : TF G b tb) (hTf : TF G b fb) (opts : Fopts) (ht : opts.tail = false) (h : JSlot) (rh : Nat) (hh : opts.hint = some h) (hkh : h.k = .loc rh) (hcf : h.cflag = false) (hr : rh < 240)
    (c c' : CState) (slot : JSlot) (sc : Scope) (rs : List Scope) (pool : List KConst) (ps : List (List KConst))
    (hs : c.scopes = sc :: rs) (hp : c.pools = pool :: ps) (hm : c.map.length = c.buf.length) (hL : LkL G c.scopes)
    (hI : PInv P (sc :: rs) sc.ra)
    (hc : cIfBody (cValue fuel) opts cnd tb fb c = some (slot, c')) : PAt P c' rs := by
  obtain ⟨target, c1, cond, c3, hT, hcond, hrest⟩ := cIfBody_inv _ opts cnd tb fb c c' slot hc
  have hc1 : c1 = c := by
    split at hT
    · simp only [Option.some.injEq, Prod.mk.injEq] at hT
      exact hT.2.symm
    · exact (getTarget_hint c c1 opts target h rh hh hkh (by omega) hT).2
  subst hc1
  have R0 : StepR c1 c1 sc rs pool ps := StepR.refl c1 sc rs pool ps hs hp
  have S0 := R0.shp hs hL
  have hm1 := R0.mapLen hm
  obtain ⟨sc1, pool1, hs1, hp1, _, hL1, hb1⟩ := S0.out
  have hI1 : PInv P (sc1 :: rs) sc1.ra := PAt.of_eq hs hI rfl sc1 hs1
  rw [pushScope_blk c1 sc1 rs false hs1] at hcond
  have hLP : LkL G (blk c1 sc1 false :: sc1 :: rs) := by
    rw [hs1] at hL1; exact hL1.push _ rfl rfl
  obtain ⟨S1, _⟩ := tf_shapeM_at G fuel b cnd {} { c1 with scopes := blk c1 sc1 false :: sc1 :: rs } c3 cond (blk c1 sc1 false) (sc1 :: rs) pool1 ps
    rfl rfl rfl hp1 rfl hm1 hTc hLP hcond
  have hm3 : c3.map.length = c3.buf.length := S1.mapLen hm1
  obtain ⟨sc3, pool3, hs3, hp3, _, hL3, hb3⟩ := S1.out
  cases hk : isConstSlot cond with
  | some k =>
    rw [hk] at hrest
    simp only at hrest
    obtain ⟨right, c5, c6, c7, c8, e1, e2, e3, e4, e5, eslot⟩ := cIfConst_inv _ _ _ _ _ _ _ _ _ hrest
    have hTl : TF G b (if constTruthy k then tb else fb) := by split <;> assumption
    have hTd : TF G b (if constTruthy k then fb else tb) := by split <;> assumption
    obtain ⟨dead, hdead⟩ : ∃ d, d = (if constTruthy k then fb else tb) := ⟨_, rfl⟩
    rw [← hdead] at e4 hTd
    have S7 := branch_shapeH G fuel IH b _ hTl opts ht h rh hh hkh hcf hr target c3 c5 c6 c7 right sc3 (sc1 :: rs) pool3 ps hs3 hp3 hm3 hL3 e1 e2 e3
    have hm7 := S7.mapLen hm3
    obtain ⟨sc7, pool7, hs7, hp7, _, hL7, _⟩ := S7.out
    have S8 : Shp G c7 c8 sc7 (sc1 :: rs) pool7 ps := by
      split at e4
      · rw [← Option.some.inj e4]; exact Shp.refl hs7 hp7 hL7
      · refine throwaway_shape G _ opts _ c7 c8 sc7 (sc1 :: rs) pool7 ps hs7 hL7 hm7 (fun c2 sl h' => ?_) e4
        have hLT : LkL G (blk c7 sc7 true :: sc7 :: sc1 :: rs) := by
          rw [hs7] at hL7; exact hL7.push _ rfl rfl
        exact (IH b _ opts { c7 with scopes := blk c7 sc7 true :: sc7 :: sc1 :: rs } c2 sl (blk c7 sc7 true) (sc7 :: sc1 :: rs) pool7 ps
          h rh ht hh hkh hcf hr rfl hp7 rfl hm7 hTd hLT h').1
    have Sblock := S1.trans' hs3 hp3 (S7.trans' hs7 hp7 S8)
    exact block_pat G c1 c8 c' sc1 rs pool1 ps hI1 Sblock e5
  | none =>
    rw [hk] at hrest
    simp only at hrest
    obtain ⟨c4, left, c6, c7, c8, right, c11, c12, c13, c14, e1, e2, e3, e4, e5, e6, e7, e8, _, _, _, eslot, ec'⟩ :=
      cIfJump_inv _ _ _ _ _ _ _ _ _ _ hrest
    obtain ⟨R4, hlen4⟩ := emitSI_stepR c3 c4 _ cond 0 false sc3 (sc1 :: rs) pool3 ps hs3 hp3 e1
    have S4 := R4.shp hs3 hL3
    have hm4 := R4.mapLen hm3
    obtain ⟨sc4, pool4, hs4, hp4, _, hL4, _⟩ := S4.out
    have S8 := branch_shapeH G fuel IH b tb hTt opts ht h rh hh hkh hcf hr target c4 c6 c7 c8 left sc4 (sc1 :: rs) pool4 ps hs4 hp4 hm4 hL4 e2 e3 e4
    have hm8 := S8.mapLen hm4
    obtain ⟨sc8, pool8, hs8, hp8, _, hL8, hb8⟩ := S8.out
    have R9 : StepR c8 (ifJmp (opts.drop && fbNilOf fb) c8) sc8 (sc1 :: rs) pool8 ps := by
      unfold ifJmp
      split
      · exact StepR.refl c8 sc8 _ pool8 ps hs8 hp8
      · exact emitRaw_stepR c8 _ sc8 _ pool8 ps hs8 hp8
    have S9 := R9.shp hs8 hL8
    have hm9 := R9.mapLen hm8
    obtain ⟨sc9, pool9, hs9, hp9, _, hL9, _⟩ := S9.out
    have S13 := branch_shapeH G fuel IH b fb hTf opts ht h rh hh hkh hcf hr target _ c11 c12 c13 right sc9 (sc1 :: rs) pool9 ps hs9 hp9 hm9 hL9 e5 e6 e7
    have Sblock := S1.trans' hs3 hp3 (S4.trans' hs4 hp4 (S8.trans' hs8 hp8 (S9.trans' hs9 hp9 S13)))
    have M14 := block_pat G c1 c13 c14 sc1 rs pool1 ps hI1 Sblock e8
    rw [ec']
    exact fun sc0 a => M14 sc0 a

theorem tf_pat_h_at (G : String → Prop) : ∀ fuel, PAtH G fuel := by
  intro fuel
  induction fuel with
  | zero =>
    intro P b e opts c c' slot sc rs pool ps h rh _ _ _ _ _ _ _ _ _ _ _ _ _ hc
    simp [cValue] at hc
  | succ fuel ih =>
    intro P b e opts c c' slot sc rs pool ps h rh ht hh hk hcf hr hs hp htop hm hl hT hL hI hc
    cases hT with
    | lit w hw =>
      rw [cValue_lit_h fuel opts ht h hh w hw c] at hc
      exact finH_pat G c.cur h _ slot c _ c' sc rs pool ps (constSlot_shape G c w sc rs pool ps hs hp hL)
        (PAt.of_eq hs hI (by show (kOf c w).2.scopes = _; rw [(kOf_shape c w).1])) hc
    | sym x =>
      rw [cValue_sym_h fuel opts ht h hh] at hc
      cases hlk : lk c.scopes x with
      | none =>
        rw [resolve_global c x (by rw [lookupSlot_lk]; exact hlk)] at hc
        have hg : globalSlot c x = some (constSlot c (.cfun x)) := by
          unfold globalSlot at hc ⊢
          split at hc <;> simp_all [finH]
        rw [hg] at hc
        exact finH_pat G c.cur h _ slot c _ c' sc rs pool ps (constSlot_shape G c (.cfun x) sc rs pool ps hs hp hL)
          (PAt.of_eq hs hI (by show (kOf c (.cfun x)).2.scopes = _; rw [(kOf_shape c (.cfun x)).1])) hc
      | some r =>
        obtain ⟨sl, u, l⟩ := r
        obtain ⟨hl', hcf', _, _⟩ := hL.2 x sl u l hlk
        subst hl'
        rw [resolve_local c x sl u (by rw [lookupSlot_lk]; exact hlk) hcf'] at hc
        exact finH_pat G c.cur h _ slot c _ c' sc rs pool ps (Shp.refl hs hp hL) (PAt.of_eq hs hI rfl) hc
    | call f args pp hf hna hG hTa =>
      rw [cValue_call_h fuel opts ht h hh f args pp c hf] at hc
      obtain ⟨q, hq⟩ := curAt_eq c pp
      cases hcc : cCall (cValue fuel) opts (.sym f) args (curAt c pp) with
      | none => rw [hcc] at hc; simp [finH] at hc
      | some res =>
        obtain ⟨slot0, cq⟩ := res
        rw [hcc] at hc
        rw [hq] at hcc
        have S := cCall_shapeH G fuel b f args hTa opts ht h rh hh hk hr { c with cur := q } cq slot0 sc rs pool ps hs hp htop hm hL hcc
        have Y := cCall_patH G fuel P b f args hTa opts ht h rh hh hk hr { c with cur := q } cq slot0
          sc rs pool ps hs hp htop hm hl hL hI hcc
        exact finH_pat G q h _ slot c _ c' sc rs pool ps S Y hc
    | doo body pp hTb =>
      rw [cValue_do_h fuel opts ht h hh body pp c] at hc
      obtain ⟨q, hq⟩ := curAt_eq c pp
      cases hcc : cDo (cValue fuel) opts body (curAt c pp) with
      | none => rw [hcc] at hc; simp [finH] at hc
      | some res =>
        obtain ⟨slot0, cq⟩ := res
        rw [hcc] at hc
        rw [hq] at hcc
        have S : Shp G { c with cur := q } cq sc rs pool ps ∧ PAt P cq rs := by
          simp only [cDo, Option.bind_eq_bind, Option.bind_eq_some_iff, Prod.exists, Option.pure_def, Option.some.injEq, Prod.mk.injEq] at hcc
          obtain ⟨r, c2, hbody, c3, hpop, _, hc3⟩ := hcc
          rw [← hc3]
          rw [pushScope_blk { c with cur := q } sc rs false hs] at hbody
          have hLP : LkL G (blk { c with cur := q } sc false :: sc :: rs) := by
            rw [hs] at hL; exact hL.push _ rfl rfl
          have S1 := doBody_shapeH G fuel (tf_shapeH_at G fuel) b body hTb opts
            { ({ c with cur := q } : CState) with scopes := (blk { c with cur := q } sc false :: sc :: rs) } c2 r (blk { c with cur := q } sc false)
            (sc :: rs) pool ps h rh ht hh hk hcf hr rfl hp rfl hm hLP hbody
          exact ⟨popKeep_shape G { c with cur := q } c2 c3 r sc rs pool ps hs hL S1 hpop,
            blockKeep_pat G { c with cur := q } c2 c3 r sc rs pool ps hI S1 hpop⟩
        exact finH_pat G q h _ slot c _ c' sc rs pool ps S.1 S.2 hc
    | ups body pp hTb =>
      rw [cValue_upscope_h fuel opts ht h hh body pp c] at hc
      obtain ⟨q, hq⟩ := curAt_eq c pp
      cases hcc : doBody (cValue fuel) opts body (curAt c pp) with
      | none => rw [hcc] at hc; simp [finH] at hc
      | some res =>
        obtain ⟨slot0, cq⟩ := res
        rw [hcc] at hc
        rw [hq] at hcc
        have S := doBody_shapeH G fuel (tf_shapeH_at G fuel) b body hTb opts { c with cur := q } cq slot0 sc rs pool ps h rh ht hh hk hcf hr hs hp htop hm hL hcc
        have Y := doBody_patH G fuel ih P b body hTb opts { c with cur := q } cq slot0 sc rs pool ps
          h rh ht hh hk hcf hr hs hp htop hm hl hL hI hcc
        exact finH_pat G q h _ slot c _ c' sc rs pool ps S Y hc
    | deff x ve pp hGx hTv =>
      rw [cValue_def_h fuel opts ht h hh x ve pp c] at hc
      obtain ⟨q, hq⟩ := curAt_eq c pp
      cases hcc : cDef (cValue fuel) x ve (curAt c pp) with
      | none => rw [hcc] at hc; simp [finH] at hc
      | some res =>
        obtain ⟨slot0, cq⟩ := res
        rw [hcc] at hc
        rw [hq] at hcc
        have S := (def_shapeM G fuel (tf_shapeM_at G fuel) b x ve hGx hTv { c with cur := q } cq slot0 sc rs pool ps hs hp htop hm hL hcc).1
        have Y := cDef_pat G fuel P b x ve hTv { c with cur := q } cq slot0 sc rs pool ps hs hp htop hm hl hL hI hcc
        exact finH_pat G q h _ slot c _ c' sc rs pool ps S Y hc
    | iff cnd tb rest pp _ _ hlen hTc hTt hTe =>
      rw [cValue_if_h fuel opts ht h hh cnd tb rest pp c, cIf_le1 _ _ _ _ _ _ hlen] at hc
      obtain ⟨q, hq⟩ := curAt_eq c pp
      cases hcc : cIfBody (cValue fuel) opts cnd tb (rest.headD (.lit .nil)) (curAt c pp) with
      | none => rw [hcc] at hc; simp [finH] at hc
      | some res =>
        obtain ⟨slot0, cq⟩ := res
        rw [hcc] at hc
        rw [hq] at hcc
        have hTf : TF G b (rest.headD (.lit .nil)) := by
          cases rest with
          | nil => exact .lit .nil trivial
          | cons e _ => exact hTe e (by simp)
        have S := if_shapeH G fuel (tf_shapeH_at G fuel) b cnd tb _ hTc hTt hTf opts ht h rh hh hk hcf hr { c with cur := q } cq slot0 sc rs pool ps hs hp hm hL hcc
        have Y := if_patH G fuel (tf_shapeH_at G fuel) P b cnd tb _ hTc hTt hTf opts ht h rh hh hk hcf hr { c with cur := q } cq slot0 sc rs pool ps hs hp hm hL hI hcc
        exact finH_pat G q h _ slot c _ c' sc rs pool ps S Y hc

/-! ### from the entry invariant `AllocInv` to `PInv` with `P` = the registers of the mutable names at entry -/

/-- the registers of the resolvable mutable locals -/
def MutRegs (scs : List Scope) (r : Nat) : Prop := ∃ x sl u l, lk scs x = some (sl, u, l) ∧ sl.mutable = true ∧ sl.k = .loc r

theorem AllocInv.pinv {sc : Scope} {rs : List Scope} (h : AllocInv (sc :: rs)) : PInv (MutRegs (sc :: rs)) (sc :: rs) sc.ra := by
  refine ⟨h.1, fun x sl u l r h1 h2 => ⟨fun hm => ⟨x, sl, u, l, h1, hm, h2⟩, fun hm hP => ?_⟩, fun r hP => ?_⟩
  · obtain ⟨y, sly, uy, ly, hy, hmy, hky⟩ := hP
    have e := h.1 y x sly sl uy ly u l hy h1 hmy (by rw [hky, h2])
    subst e
    rw [hy] at h1
    simp only [Option.some.injEq, Prod.mk.injEq] at h1
    rw [h1.1, hm] at hmy
    exact absurd hmy (by simp)
  · obtain ⟨y, sly, uy, ly, hy, _, hky⟩ := hP
    exact h.2 sc rs rfl y sly uy ly r hy hky

/-- **`MutInj` at the exit of a hinted compile of a value that may contain `def`** -/
theorem tf_mutinj_def_h (G : String → Prop) (b : Bool) (fuel : Nat) (e : Expr) (opts : Fopts) (c c' : CState) (slot : JSlot) (sc : Scope)
    (rs : List Scope) (pool : List KConst) (ps : List (List KConst)) (h : JSlot) (rh : Nat)
    (ht : opts.tail = false) (hh : opts.hint = some h) (hk : h.k = .loc rh) (hcf : h.cflag = false) (hr : rh < 240)
    (hs : c.scopes = sc :: rs) (hp : c.pools = pool :: ps) (htop : sc.top = false)
    (hm : c.map.length = c.buf.length) (hl : c.lim ≤ 65536) (hT : TF G b e) (hL : LkL G c.scopes) (hA : AllocInv c.scopes)
    (hc : cValue fuel opts e c = some (slot, c')) : MutInj c'.scopes := by
  rw [hs] at hA
  have hPA := tf_pat_h_at G fuel (MutRegs (sc :: rs)) b e opts c c' slot sc rs pool ps h rh ht hh hk hcf hr hs hp htop hm hl hT hL hA.pinv hc
  obtain ⟨S, _⟩ := tf_shapeH_at G fuel b e opts c c' slot sc rs pool ps h rh ht hh hk hcf hr hs hp htop hm hT hL hc
  obtain ⟨sc1, pool1, hs1, _⟩ := S.out
  rw [hs1]
  exact (hPA sc1 hs1).1

/-- the same for an un-hinted compile -/
theorem tf_mutinj_def (G : String → Prop) (b : Bool) (fuel : Nat) (e : Expr) (opts : Fopts) (c c' : CState) (slot : JSlot) (sc : Scope)
    (rs : List Scope) (pool : List KConst) (ps : List (List KConst))
    (ht : opts.tail = false) (hh : opts.hint = none) (hs : c.scopes = sc :: rs) (hp : c.pools = pool :: ps) (htop : sc.top = false)
    (hm : c.map.length = c.buf.length) (hl : c.lim ≤ 65536) (hT : TF G b e) (hL : LkL G c.scopes) (hA : AllocInv c.scopes)
    (hc : cValue fuel opts e c = some (slot, c')) : MutInj c'.scopes := by
  rw [hs] at hA
  have hPA := (tf_pat_at G fuel (MutRegs (sc :: rs)) b e opts c c' slot sc rs pool ps ht hh hs hp htop hm hl hT hL hA.pinv hc).2
  obtain ⟨S, _⟩ := tf_shapeM_at G fuel b e opts c c' slot sc rs pool ps ht hh hs hp htop hm hT hL hc
  obtain ⟨sc1, pool1, hs1, _⟩ := S.out
  rw [hs1]
  exact (hPA sc1 hs1).1

/-- **the `hside` statement of `compile_correct_set`** for a value of the fragment that may contain `def` (of names other than the
    assigned variable `x`): from `AllocInv` at entry -/
theorem set_hside_def (G : String → Prop) (b : Bool) (fuel : Nat) (x : String) (ve : Expr) (c : CState) (sc : Scope)
    (rs : List Scope) (pool : List KConst) (ps : List (List KConst))
    (hs : c.scopes = sc :: rs) (hp : c.pools = pool :: ps) (htop : sc.top = false)
    (hm : c.map.length = c.buf.length) (hl : c.lim ≤ 65536) (hT : TF G b ve) (hN : NoBind x ve) (hL : LkL G c.scopes) (hA : AllocInv c.scopes)
    (hx : ∀ dest u l rx, lk c.scopes x = some (dest, u, l) → dest.k = .loc rx → rx < 240) :
    ∀ (q : Pos) (dest r : JSlot) (c2 : CState), (∃ u l, lk c.scopes x = some (dest, u, l)) →
      cValue fuel { hint := some dest } ve { c with cur := q } = some (r, c2) →
      (∀ u l, lk c.scopes x = some (dest, u, l) → ∃ u2 l2, lk c2.scopes x = some (dest, u2, l2)) ∧ MutInj c2.scopes := by
  intro q dest r c2 ⟨u, l, hlk⟩ hc
  obtain ⟨_, hcf, ⟨rx, hkx⟩, _⟩ := hL.2 x dest u l hlk
  have hrx := hx dest u l rx hlk hkx
  refine ⟨fun u' l' _ => ?_, ?_⟩
  · have := nobind_lk_h G b x fuel ve { hint := some dest } { c with cur := q } c2 r sc rs pool ps dest rx rfl rfl hkx hcf hrx hs hp htop hm hT hN hL hc
    exact ⟨u, l, by rw [this]; exact hlk⟩
  · exact tf_mutinj_def_h G b fuel ve { hint := some dest } { c with cur := q } c2 r sc rs pool ps dest rx rfl rfl hkx hcf hrx hs hp htop hm hl hT hL hA hc

end JanetModel.Compile
