/- C02: compile correctness, tail position: the compile-only fact `NRAt` (Compile/SeqTailRet.lean) for the fragment WITH `if`
   (`TF G b`, any `b`): the induction of Compile/SeqTailNR.lean restated for `TF G b`, plus the `if` case — the result slot of a
   non-tail `if` is its target (a fresh register from `janetc_gettarget`, or the constant nil when the value is dropped), and
   every scope `janetc_if` pushes is popped, so the symbol table afterwards is the one before. -/
import JanetModel.Compile.SeqTailNR
import JanetModel.Compile.SeqIfSem
namespace JanetModel.Compile
open JanetModel.Emit JanetModel.Lang JanetModel.Bytecode.Exec JanetModel.Gen.Bytecode

/-- `NRL` (Compile/SeqTailNR.lean) for the fragment `TF G b` -/
def NRLb (G : String → Prop) (b : Bool) (fuel : Nat) : Prop :=
  ∀ (e : Expr) (opts : Fopts) (c c' : CState) (slot : JSlot) (sc : Scope) (rs : List Scope) (pool : List KConst) (ps : List (List KConst)),
    opts.tail = false → opts.hint = none → c.scopes = sc :: rs → c.pools = pool :: ps → sc.top = false → c.map.length = c.buf.length →
    TF G b e → LkL G c.scopes → NR c.scopes → cValue fuel opts e c = some (slot, c') → slot.returned = false ∧ NR c'.scopes

theorem toSlots_NRb (G : String → Prop) (b : Bool) (fuel : Nat) (IH : NRLb G b fuel) : ∀ (args : List Expr), (∀ a, a ∈ args → TF G b a) →
    ∀ (c c' : CState) (slots : List JSlot) (sc : Scope) (rs : List Scope) (pool : List KConst) (ps : List (List KConst)),
      c.scopes = sc :: rs → c.pools = pool :: ps → sc.top = false → c.map.length = c.buf.length → LkL G c.scopes → NR c.scopes →
      toSlots (cValue fuel) args c = some (slots, c') → NR c'.scopes := by
  intro args
  induction args with
  | nil =>
    intro _ c c' slots sc rs pool ps _ _ _ _ _ hN h
    simp only [toSlots, Option.some.injEq, Prod.mk.injEq] at h
    rw [← h.2]; exact hN
  | cons a as ih =>
    intro hT c c' slots sc rs pool ps hs hp htop hm hL hN h
    simp only [toSlots, Option.bind_eq_bind, Option.bind_eq_some_iff, Prod.exists, Option.pure_def, Option.some.injEq, Prod.mk.injEq] at h
    obtain ⟨sl1, c1, hx, ss, c2, hrest, _, hc2⟩ := h
    rw [← hc2]
    have S1 := (tf_shapeM_at G fuel b a {} c c1 sl1 sc rs pool ps rfl rfl hs hp htop hm (hT a (by simp)) hL hx).1
    obtain ⟨sc1, pool1, hs1, hp1, ht1, hL1, _⟩ := S1.out
    have hN1 := (IH a {} c c1 sl1 sc rs pool ps rfl rfl hs hp htop hm (hT a (by simp)) hL hN hx).2
    exact ih (fun e he => hT e (by simp [he])) c1 c2 ss sc1 rs pool1 ps hs1 hp1 (by rw [ht1]; exact htop) (S1.mapLen hm) hL1 hN1 hrest

theorem cCall_NRb (G : String → Prop) (b : Bool) (fuel : Nat) (IH : NRLb G b fuel) (f : String) (args : List Expr)
    (hTa : ∀ a, a ∈ args → TF G b a) (c cq : CState) (slot : JSlot) (sc : Scope) (rs : List Scope) (pool : List KConst) (ps : List (List KConst))
    (hs : c.scopes = sc :: rs) (hp : c.pools = pool :: ps) (htop : sc.top = false) (hm : c.map.length = c.buf.length) (hL : LkL G c.scopes)
    (hN : NR c.scopes) (h : cCall (cValue fuel) {} (.sym f) args c = some (slot, cq)) : slot.returned = false ∧ NR cq.scopes := by
  obtain ⟨head, c1, slots, c2, c3, cT, c4, c5, h1, h2, h3, hT, hEm, hf1, hf2⟩ := cCall_steps (cValue fuel) f args c cq slot h
  have S1 := (tf_shapeM_at G fuel b (.sym f) {} c c1 head sc rs pool ps rfl rfl hs hp htop hm (.sym f) hL h1).1
  obtain ⟨sc1, pool1, hs1, hp1, ht1, hL1, _⟩ := S1.out
  have hm1 := S1.mapLen hm
  have hN1 := (IH (.sym f) {} c c1 head sc rs pool ps rfl rfl hs hp htop hm (.sym f) hL hN h1).2
  have S2 := toSlots_shapeM G fuel (tf_shapeM_at G fuel) b args hTa c1 c2 slots sc1 rs pool1 ps hs1 hp1 (by rw [ht1]; exact htop) hm1 hL1 h2
  obtain ⟨sc2, pool2, hs2, hp2, _, _, _⟩ := S2.out
  have hN2 := toSlots_NRb G b fuel IH args hTa c1 c2 slots sc1 rs pool1 ps hs1 hp1 (by rw [ht1]; exact htop) hm1 hL1 hN1 h2
  have R3 := pushSlots_stepR slots c2 c3 sc2 rs pool2 ps hs2 hp2 h3
  obtain ⟨sc3, pool3, hs3, hp3, _, _⟩ := R3.out
  have R4 := getTarget_stepR c3 cT {} slot rfl sc3 rs pool3 ps hs3 hp3 hT
  obtain ⟨sc4, pool4, hs4, hp4, _, _⟩ := R4.out
  have R5 := emitSS_stepR cT c4 _ slot head true sc4 rs pool4 ps hs4 hp4 hEm
  obtain ⟨sc5, pool5, hs5, hp5, _, _⟩ := R5.out
  have R6 := freeslots_stepR slots c4 c5 sc5 rs pool5 ps hs5 hp5 hf1
  obtain ⟨sc6, pool6, hs6, hp6, _, _⟩ := R6.out
  have R7 := freeslot_stepR c5 cq head sc6 rs pool6 ps hs6 hp6 hf2
  refine ⟨?_, ((((hN2.of_lk (R3.lk hs2)).of_lk (R4.lk hs3)).of_lk (R5.lk hs4)).of_lk (R6.lk hs5)).of_lk (R7.lk hs6)⟩
  obtain ⟨r, hr⟩ := getTarget_slot c3 cT {} rfl slot hT
  rw [hr]

theorem doBody_NRb (G : String → Prop) (b : Bool) (fuel : Nat) (IH : NRLb G b fuel) : ∀ (body : List Expr), (∀ e, e ∈ body → TF G b e) →
    ∀ (opts : Fopts) (c c' : CState) (slot : JSlot) (sc : Scope) (rs : List Scope) (pool : List KConst) (ps : List (List KConst)),
      opts.tail = false → opts.hint = none → c.scopes = sc :: rs → c.pools = pool :: ps → sc.top = false → c.map.length = c.buf.length →
      LkL G c.scopes → NR c.scopes → doBody (cValue fuel) opts body c = some (slot, c') → slot.returned = false ∧ NR c'.scopes := by
  intro body
  induction body with
  | nil =>
    intro _ opts c c' slot sc rs pool ps _ _ _ _ _ _ _ hN h
    simp only [doBody, Option.some.injEq, Prod.mk.injEq] at h
    rw [← h.1, ← h.2]
    exact ⟨rfl, hN⟩
  | cons x t ih =>
    intro hT opts c c' slot sc rs pool ps ht hh hs hp htop hm hL hN h
    cases t with
    | nil =>
      simp only [doBody] at h
      exact IH x opts c c' slot sc rs pool ps ht hh hs hp htop hm (hT x (by simp)) hL hN h
    | cons y r =>
      simp only [doBody, Option.bind_eq_bind, Option.bind_eq_some_iff, Prod.exists] at h
      obtain ⟨sl1, c1, hx, c1f, hf, hrest⟩ := h
      have S1 := (tf_shapeM_at G fuel b x { drop := true } c c1 sl1 sc rs pool ps rfl rfl hs hp htop hm (hT x (by simp)) hL hx).1
      obtain ⟨sc1, pool1, hs1, hp1, ht1, hL1, _⟩ := S1.out
      have hN1 := (IH x { drop := true } c c1 sl1 sc rs pool ps rfl rfl hs hp htop hm (hT x (by simp)) hL hN hx).2
      have R2 := freeslot_stepR c1 c1f sl1 sc1 rs pool1 ps hs1 hp1 hf
      have S2 := R2.shp hs1 hL1
      obtain ⟨sc2, pool2, hs2, hp2, ht2, hL2, _⟩ := S2.out
      exact ih (fun e he => hT e (by simp [he])) opts c1f c' slot sc2 rs pool2 ps ht hh hs2 hp2
        (by rw [ht2, ht1]; exact htop) (R2.mapLen (S1.mapLen hm)) hL2 (hN1.of_lk (R2.lk hs1)) hrest

theorem do_NRb (G : String → Prop) (b : Bool) (fuel : Nat) (IH : NRLb G b fuel) (body : List Expr) (hT : ∀ e, e ∈ body → TF G b e)
    (opts : Fopts) (ht : opts.tail = false) (hh : opts.hint = none)
    (c c' : CState) (slot : JSlot) (sc : Scope) (rs : List Scope) (pool : List KConst) (ps : List (List KConst))
    (hs : c.scopes = sc :: rs) (hp : c.pools = pool :: ps) (hm : c.map.length = c.buf.length) (hL : LkL G c.scopes) (hN : NR c.scopes)
    (h : cDo (cValue fuel) opts body c = some (slot, c')) : slot.returned = false ∧ NR c'.scopes := by
  simp only [cDo, Option.bind_eq_bind, Option.bind_eq_some_iff, Prod.exists, Option.pure_def, Option.some.injEq, Prod.mk.injEq] at h
  obtain ⟨r, c2, hbody, c3, hpop, hslot, hc3⟩ := h
  subst hslot hc3
  rw [pushScope_blk c sc rs false hs] at hbody
  have hLP : LkL G (blk c sc false :: sc :: rs) := by
    rw [hs] at hL; exact hL.push _ rfl rfl
  have hlk1 : ∀ x, lk (blk c sc false :: sc :: rs) x = lk c.scopes x := by
    intro x; rw [hs]; exact lk_push (blk c sc false) (sc :: rs) rfl rfl rfl x
  obtain ⟨S1, _⟩ := doBody_shapeM G fuel (tf_shapeM_at G fuel) b body hT opts { c with scopes := blk c sc false :: sc :: rs } c2 r (blk c sc false)
    (sc :: rs) pool ps ht hh rfl hp rfl hm hLP hbody
  obtain ⟨hr, _⟩ := doBody_NRb G b fuel IH body hT opts { c with scopes := blk c sc false :: sc :: rs } c2 r (blk c sc false)
    (sc :: rs) pool ps ht hh rfl hp rfl hm hLP (hN.of_lk hlk1) hbody
  refine ⟨hr, ?_⟩
  obtain ⟨ra2, ns2, more2, seg2, segm2, hc2, _, _, _⟩ := S1
  have hs2 : c2.scopes = { blk c sc false with ra := ra2, syms := (blk c sc false).syms ++ ns2 } :: sc :: rs := by rw [hc2]
  obtain ⟨raX, hc3, _, _, _⟩ := popScopeKeep_block c2 c3 r _ sc rs hs2 rfl rfl rfl hpop
  refine hN.of_lk (fun x => ?_)
  rw [hc3, hs]
  have hinv : ∀ q, q ∈ ((blk c sc false).syms ++ ns2).map (fun q : SymPair => { q with visible := false }) → q.visible = false := by
    intro q hq
    simp only [List.mem_map] at hq
    obtain ⟨q0, _, rfl⟩ := hq
    rfl
  exact (lk_append_invisible { sc with ra := raX } rs _ hinv x).trans (lk_ra sc rs raX x)

theorem def_NRb (G : String → Prop) (b : Bool) (fuel : Nat) (IH : NRLb G b fuel) (x : String) (ve : Expr) (hTv : TF G b ve)
    (c c' : CState) (slot : JSlot) (sc : Scope) (rs : List Scope) (pool : List KConst) (ps : List (List KConst))
    (hs : c.scopes = sc :: rs) (hp : c.pools = pool :: ps) (htop : sc.top = false) (hm : c.map.length = c.buf.length) (hL : LkL G c.scopes)
    (hN : NR c.scopes) (h : cDef (cValue fuel) x ve c = some (slot, c')) : slot.returned = false ∧ NR c'.scopes := by
  have hct : curTop c = false := by simp [curTop, hs, htop]
  simp only [cDef, hct, Bool.false_eq_true, if_false, Option.bind_eq_bind, Option.bind_eq_some_iff, Prod.exists, Option.pure_def,
    Option.some.injEq, Prod.mk.injEq] at h
  obtain ⟨r, c1, hv, c2, hnl, hslot, hc2⟩ := h
  subst hslot hc2
  obtain ⟨S1, hsl⟩ := tf_shapeM_at G fuel b ve {} c c1 r sc rs pool ps rfl rfl hs hp htop hm hTv hL hv
  obtain ⟨sc1, pool1, hs1, hp1, _, _, _⟩ := S1.out
  obtain ⟨hr, hN1⟩ := IH ve {} c c1 r sc rs pool ps rfl rfl hs hp htop hm hTv hL hN hv
  exact ⟨hr, namelocal_NR c1 c2 x r sc1 rs pool1 ps hs1 hp1 hN1 hsl hr hnl⟩

/-- `janetc_popscope` of a used block scope after a shaped body: the symbol table is the one before the block -/
theorem pop_lk (G : String → Prop) (c c2 c3 : CState) (sc : Scope) (rs : List Scope) (pool : List KConst) (ps : List (List KConst))
    (hs : c.scopes = sc :: rs)
    (h : Shp G { c with scopes := blk c sc false :: sc :: rs } c2 (blk c sc false) (sc :: rs) pool ps) (hpop : popScope c2 = some c3) :
    ∀ x, lk c3.scopes x = lk c.scopes x := by
  obtain ⟨ra3, ns3, more3, seg3, segm3, hc3, _, _, hinv, _, _⟩ := pop_shape2 G c c2 c3 sc rs pool ps h hpop
  intro x
  rw [hc3, hs]
  exact (lk_append_invisible { sc with ra := ra3 } rs ns3 hinv x).trans (lk_ra sc rs ra3 x)

/-- non-tail `if`: the result slot is the target (a fresh register or the constant nil), and every scope it pushes is popped:
    the symbol table afterwards is the one before (no induction hypothesis needed, only the shape theorem) -/
theorem if_NRb (G : String → Prop) (fuel : Nat) (b : Bool) (cnd tb fb : Expr)
    (hTc : TF G b cnd) (hTt : TF G b tb) (hTf : TF G b fb) (opts : Fopts) (ht : opts.tail = false) (hh : opts.hint = none)
    (c c' : CState) (slot : JSlot) (sc : Scope) (rs : List Scope) (pool : List KConst) (ps : List (List KConst))
    (hs : c.scopes = sc :: rs) (hp : c.pools = pool :: ps) (hm : c.map.length = c.buf.length) (hL : LkL G c.scopes) (hN : NR c.scopes)
    (hc : cIfBody (cValue fuel) opts cnd tb fb c = some (slot, c')) : slot.returned = false ∧ NR c'.scopes := by
  have IH := tf_shapeM_at G fuel
  obtain ⟨target, c1, cond, c3, hT, hcond, hrest⟩ := cIfBody_inv _ opts cnd tb fb c c' slot hc
  have hT' : StepR c c1 sc rs pool ps ∧ target.returned = false := by
    split at hT
    · simp only [Option.some.injEq, Prod.mk.injEq] at hT
      rw [← hT.1, ← hT.2]
      exact ⟨StepR.refl c sc rs pool ps hs hp, rfl⟩
    · obtain ⟨r, hr⟩ := getTarget_slot c c1 opts hh target hT
      exact ⟨getTarget_stepR c c1 opts target hh sc rs pool ps hs hp hT, by rw [hr]⟩
  obtain ⟨R0, hrT⟩ := hT'
  have S0 := R0.shp hs hL
  have hm1 := R0.mapLen hm
  have hN1 : NR c1.scopes := hN.of_lk (R0.lk hs)
  obtain ⟨sc1, pool1, hs1, hp1, _, hL1, hb1⟩ := S0.out
  rw [pushScope_blk c1 sc1 rs false hs1] at hcond
  have hLP : LkL G (blk c1 sc1 false :: sc1 :: rs) := by
    rw [hs1] at hL1; exact hL1.push _ rfl rfl
  obtain ⟨S1, _⟩ := IH b cnd {} { c1 with scopes := blk c1 sc1 false :: sc1 :: rs } c3 cond (blk c1 sc1 false) (sc1 :: rs) pool1 ps
    rfl rfl rfl hp1 rfl hm1 hTc hLP hcond
  have hm3 : c3.map.length = c3.buf.length := S1.mapLen hm1
  obtain ⟨sc3, pool3, hs3, hp3, _, hL3, hb3⟩ := S1.out
  cases hk : isConstSlot cond with
  | some k =>
    rw [hk] at hrest
    simp only at hrest
    obtain ⟨right, c5, c6, c7, c8, e1, e2, e3, e4, e5, eslot⟩ := cIfConst_inv _ _ _ _ _ _ _ _ _ hrest
    have hTl : TF G b (if constTruthy k then tb else fb) := by split <;> assumption
    have hTd : TF G b (if constTruthy k then fb else tb) := by split <;> assumption
    obtain ⟨dead, hdead⟩ : ∃ d, d = (if constTruthy k then fb else tb) := ⟨_, rfl⟩
    rw [← hdead] at e4 hTd
    have S7 := branch_shapeM G fuel IH b _ hTl opts ht hh target c3 c5 c6 c7 right sc3 (sc1 :: rs) pool3 ps hs3 hp3 hm3 hL3 e1 e2 e3
    have hm7 := S7.mapLen hm3
    obtain ⟨sc7, pool7, hs7, hp7, _, hL7, _⟩ := S7.out
    have S8 : Shp G c7 c8 sc7 (sc1 :: rs) pool7 ps := by
      split at e4
      · rw [← Option.some.inj e4]; exact Shp.refl hs7 hp7 hL7
      · refine throwaway_shape G _ opts _ c7 c8 sc7 (sc1 :: rs) pool7 ps hs7 hL7 hm7 (fun c2 sl h => ?_) e4
        have hLT : LkL G (blk c7 sc7 true :: sc7 :: sc1 :: rs) := by
          rw [hs7] at hL7; exact hL7.push _ rfl rfl
        exact (IH b _ opts { c7 with scopes := blk c7 sc7 true :: sc7 :: sc1 :: rs } c2 sl (blk c7 sc7 true) (sc7 :: sc1 :: rs) pool7 ps
          ht hh rfl hp7 rfl hm7 hTd hLT h).1
    have Sblock := S1.trans' hs3 hp3 (S7.trans' hs7 hp7 S8)
    rw [← eslot]
    exact ⟨hrT, hN1.of_lk (pop_lk G c1 c8 c' sc1 rs pool1 ps hs1 Sblock e5)⟩
  | none =>
    rw [hk] at hrest
    simp only at hrest
    obtain ⟨c4, left, c6, c7, c8, right, c11, c12, c13, c14, e1, e2, e3, e4, e5, e6, e7, e8, _, _, _, eslot, ec'⟩ :=
      cIfJump_inv _ _ _ _ _ _ _ _ _ _ hrest
    obtain ⟨R4, hlen4⟩ := emitSI_stepR c3 c4 _ cond 0 false sc3 (sc1 :: rs) pool3 ps hs3 hp3 e1
    have S4 := R4.shp hs3 hL3
    have hm4 := R4.mapLen hm3
    obtain ⟨sc4, pool4, hs4, hp4, _, hL4, _⟩ := S4.out
    have S8 := branch_shapeM G fuel IH b tb hTt opts ht hh target c4 c6 c7 c8 left sc4 (sc1 :: rs) pool4 ps hs4 hp4 hm4 hL4 e2 e3 e4
    have hm8 := S8.mapLen hm4
    obtain ⟨sc8, pool8, hs8, hp8, _, hL8, hb8⟩ := S8.out
    have R9 : StepR c8 (ifJmp (opts.drop && fbNilOf fb) c8) sc8 (sc1 :: rs) pool8 ps := by
      unfold ifJmp
      split
      · exact StepR.refl c8 sc8 _ pool8 ps hs8 hp8
      · exact emitRaw_stepR c8 _ sc8 _ pool8 ps hs8 hp8
    have S9 := R9.shp hs8 hL8
    have hm9 := R9.mapLen hm8
    obtain ⟨sc9, pool9, hs9, hp9, _, hL9, _⟩ := S9.out
    have S13 := branch_shapeM G fuel IH b fb hTf opts ht hh target _ c11 c12 c13 right sc9 (sc1 :: rs) pool9 ps hs9 hp9 hm9 hL9 e5 e6 e7
    have Sblock := S1.trans' hs3 hp3 (S4.trans' hs4 hp4 (S8.trans' hs8 hp8 (S9.trans' hs9 hp9 S13)))
    have hN14 : NR c14.scopes := hN1.of_lk (pop_lk G c1 c13 c14 sc1 rs pool1 ps hs1 Sblock e8)
    rw [ec', eslot]
    exact ⟨hrT, hN14⟩

theorem tf_NRLb (G : String → Prop) (b : Bool) : ∀ fuel, NRLb G b fuel := by
  intro fuel
  induction fuel with
  | zero =>
    intro e opts c c' slot sc rs pool ps _ _ _ _ _ _ _ _ _ hc
    simp [cValue] at hc
  | succ fuel ih =>
    intro e opts c c' slot sc rs pool ps ht hh hs hp htop hm hT hL hN hc
    cases hT with
    | lit w hw =>
      rw [cValue_lit_o fuel opts ht hh w hw c] at hc
      simp only [Option.some.injEq, Prod.mk.injEq] at hc
      obtain ⟨h1, h2⟩ := hc
      subst h1 h2
      exact constSlot_NR c w hN
    | sym x =>
      rw [cValue_sym_o fuel opts ht hh] at hc
      cases hlk : lk c.scopes x with
      | none =>
        rw [resolve_global c x (by rw [lookupSlot_lk]; exact hlk)] at hc
        have hg : globalSlot c x = some (constSlot c (.cfun x)) := by
          unfold globalSlot at hc ⊢
          split at hc <;> simp_all [fin]
        rw [hg] at hc
        simp only [fin, Option.some.injEq, Prod.mk.injEq] at hc
        obtain ⟨h1, h2⟩ := hc
        subst h1 h2
        exact constSlot_NR c (.cfun x) hN
      | some r =>
        obtain ⟨sl, u, l⟩ := r
        obtain ⟨hl, hcf, hk, _⟩ := hL.2 x sl u l hlk
        subst hl
        rw [resolve_local c x sl u (by rw [lookupSlot_lk]; exact hlk) hcf] at hc
        simp only [fin, Option.some.injEq, Prod.mk.injEq] at hc
        obtain ⟨h1, h2⟩ := hc
        subst h1 h2
        exact ⟨hN x sl u true hlk, hN⟩
    | call f args pp hf hna hG hTa =>
      rw [cValue_call_o fuel opts ht hh f args pp c hf] at hc
      obtain ⟨q, hq⟩ := curAt_eq c pp
      cases hcc : cCall (cValue fuel) {} (.sym f) args (curAt c pp) with
      | none => rw [hcc] at hc; simp [fin] at hc
      | some res =>
        obtain ⟨slot0, cq⟩ := res
        rw [hcc] at hc
        simp only [fin, Option.some.injEq, Prod.mk.injEq] at hc
        obtain ⟨hsl, hc'⟩ := hc
        subst hsl hc'
        rw [hq] at hcc
        exact cCall_NRb G b fuel ih f args hTa { c with cur := q } cq slot0 sc rs pool ps hs hp htop hm hL hN hcc
    | doo body pp hTb =>
      rw [cValue_do_o fuel opts ht hh body pp c] at hc
      obtain ⟨q, hq⟩ := curAt_eq c pp
      cases hcc : cDo (cValue fuel) opts body (curAt c pp) with
      | none => rw [hcc] at hc; simp [fin] at hc
      | some res =>
        obtain ⟨slot0, cq⟩ := res
        rw [hcc] at hc
        simp only [fin, Option.some.injEq, Prod.mk.injEq] at hc
        obtain ⟨hsl, hc'⟩ := hc
        subst hsl hc'
        rw [hq] at hcc
        exact do_NRb G b fuel ih body hTb opts ht hh { c with cur := q } cq slot0 sc rs pool ps hs hp hm hL hN hcc
    | ups body pp hTb =>
      rw [cValue_upscope_o fuel opts ht hh body pp c] at hc
      obtain ⟨q, hq⟩ := curAt_eq c pp
      cases hcc : doBody (cValue fuel) opts body (curAt c pp) with
      | none => rw [hcc] at hc; simp [fin] at hc
      | some res =>
        obtain ⟨slot0, cq⟩ := res
        rw [hcc] at hc
        simp only [fin, Option.some.injEq, Prod.mk.injEq] at hc
        obtain ⟨hsl, hc'⟩ := hc
        subst hsl hc'
        rw [hq] at hcc
        exact doBody_NRb G b fuel ih body hTb opts { c with cur := q } cq slot0 sc rs pool ps ht hh hs hp htop hm hL hN hcc
    | deff x ve pp hGx hTv =>
      rw [cValue_def_o fuel opts ht hh x ve pp c] at hc
      obtain ⟨q, hq⟩ := curAt_eq c pp
      cases hcc : cDef (cValue fuel) x ve (curAt c pp) with
      | none => rw [hcc] at hc; simp [fin] at hc
      | some res =>
        obtain ⟨slot0, cq⟩ := res
        rw [hcc] at hc
        simp only [fin, Option.some.injEq, Prod.mk.injEq] at hc
        obtain ⟨hsl, hc'⟩ := hc
        subst hsl hc'
        rw [hq] at hcc
        exact def_NRb G b fuel ih x ve hTv { c with cur := q } cq slot0 sc rs pool ps hs hp htop hm hL hN hcc
    | iff cnd tb rest pp _ _ hlen hTc hTt hTe =>
      rw [cValue_if_o fuel opts ht hh cnd tb rest pp c, cIf_le1 _ _ _ _ _ _ hlen] at hc
      obtain ⟨q, hq⟩ := curAt_eq c pp
      cases hcc : cIfBody (cValue fuel) opts cnd tb (rest.headD (.lit .nil)) (curAt c pp) with
      | none => rw [hcc] at hc; simp [fin] at hc
      | some res =>
        obtain ⟨slot0, cq⟩ := res
        rw [hcc] at hc
        simp only [fin, Option.some.injEq, Prod.mk.injEq] at hc
        obtain ⟨hsl, hc'⟩ := hc
        subst hsl hc'
        rw [hq] at hcc
        have hTf : TF G b (rest.headD (.lit .nil)) := by
          cases rest with
          | nil => exact .lit .nil trivial
          | cons e _ => exact hTe e (by simp)
        exact if_NRb G fuel b cnd tb _ hTc hTt hTf opts ht hh { c with cur := q } cq slot0 sc rs pool ps hs hp hm hL hN hcc

/-- `NRAt` for the fragment with or without `if` -/
theorem tf_NR_b (G : String → Prop) (b : Bool) (fuel : Nat) : NRAt G (TF G b) fuel := by
  intro e opts c c' slot sc rs pool ps env nb ht hh hs hp htop hm hT hE hN hc
  exact tf_NRLb G b fuel e opts c c' slot sc rs pool ps ht hh hs hp htop hm hT hE.lkl hN hc

end JanetModel.Compile
