/- C02: `(if cb (break))` (level 2 of the `while`-with-`break` work), semantic side only: the statement either breaks with nil
   (condition truthy) or is the normal nil statement (condition falsy). -/
import JanetModel.Compile.SeqBrkCore
namespace JanetModel.Compile
open JanetModel.Emit JanetModel.Lang JanetModel.Bytecode.Exec JanetModel.Gen.Bytecode

theorem eval_ifbreak (n : Nat) (cur : Pos) (env : Env) (cb : Expr) (bp ip : Pos) (s : SS) :
    eval (n + 2) cur env (.form [.sym "if", cb, .form [.sym "break"] bp] ip) s =
      (match eval (n + 1) (posOf cur ip) env cb s with
       | .ok (cv, _) s' => if truthy cv then .brk .nil s' else .ok (.nil, env) s'
       | .err v p s' => .err v p s' | .brk v s' => .brk v s' | .stop w => .stop w) := by
  rw [eval_if]
  cases he : eval (n + 1) (posOf cur ip) env cb s with
  | ok r s1 =>
    obtain ⟨cv, cenv⟩ := r
    cases htr : truthy cv <;> simp [htr, eval_break]
  | err _ _ _ => rfl
  | brk _ _ => rfl
  | stop _ => rfl

/-- one turn of a loop whose body is `pre… (if cb (break)) post…` where the statement is reached: it ends the turn by `break`
    exactly when `cb` is truthy -/
theorem eval_ifbreak_inv (n : Nat) (cur : Pos) (env : Env) (cb : Expr) (bp ip : Pos) (s : SS) :
    (∀ v env' s', eval n cur env (.form [.sym "if", cb, .form [.sym "break"] bp] ip) s = .ok (v, env') s' →
      ∃ n2 cv cenv, n = n2 + 2 ∧ eval (n2 + 1) (posOf cur ip) env cb s = .ok (cv, cenv) s' ∧ truthy cv = false ∧ v = .nil ∧ env' = env) ∧
    (∀ bv s', eval n cur env (.form [.sym "if", cb, .form [.sym "break"] bp] ip) s = .brk bv s' →
      ∃ n2, n = n2 + 1 ∧ ((∃ cv cenv, eval n2 (posOf cur ip) env cb s = .ok (cv, cenv) s' ∧ truthy cv = true ∧ bv = .nil) ∨
        eval n2 (posOf cur ip) env cb s = .brk bv s')) := by
  cases n with
  | zero => simp [eval]
  | succ n =>
    cases n with
    | zero =>
      rw [eval_if]
      simp [eval]
    | succ n =>
      rw [eval_ifbreak]
      cases he : eval (n + 1) (posOf cur ip) env cb s with
      | ok r s1 =>
        obtain ⟨cv, cenv⟩ := r
        cases htr : truthy cv
        · simp only [htr, Bool.false_eq_true, if_false]
          refine ⟨fun v env' s' h => ?_, fun _ _ h => by simp at h⟩
          simp only [R.ok.injEq, Prod.mk.injEq] at h
          obtain ⟨⟨h1, h2⟩, h3⟩ := h
          subst h1 h2 h3
          exact ⟨n, cv, cenv, rfl, he, htr, rfl, rfl⟩
        · simp only [htr, if_true]
          refine ⟨fun _ _ _ h => by simp at h, fun bv s' h => ?_⟩
          simp only [R.brk.injEq] at h
          obtain ⟨h1, h2⟩ := h
          subst h1 h2
          exact ⟨n + 1, rfl, Or.inl ⟨cv, cenv, he, htr, rfl⟩⟩
      | err _ _ _ => exact ⟨fun _ _ _ h => by simp at h, fun _ _ h => by simp at h⟩
      | stop _ => exact ⟨fun _ _ _ h => by simp at h, fun _ _ h => by simp at h⟩
      | brk bv0 s0 =>
        refine ⟨fun _ _ _ h => by simp at h, fun bv s' h => ?_⟩
        simp only [R.brk.injEq] at h
        obtain ⟨h1, h2⟩ := h
        subst h1 h2
        exact ⟨n + 1, rfl, Or.inr he⟩

end JanetModel.Compile
