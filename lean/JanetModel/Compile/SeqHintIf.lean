/- C02: `janetc_if` compiled with a hint slot, non-constant condition (jump path): the target IS the hint (no allocation), both
   branches are compiled with the hint and deliver it, the copies into the target are no-ops. -/
import JanetModel.Compile.SeqHintAll
import JanetModel.Compile.SeqShapeH
import JanetModel.Compile.SeqIfJump
import JanetModel.Compile.SeqIfConst
import JanetModel.Compile.SeqIfM
namespace JanetModel.Compile
open JanetModel.Emit JanetModel.Lang JanetModel.Bytecode.Exec JanetModel.Gen.Bytecode

/-- one hinted branch, compile side only (also for the branch not taken) -/
theorem branch_shape2H (G : String → Prop) (fuel : Nat) (b : Bool) (x : Expr) (hx : TF G b x)
    (opts : Fopts) (ht : opts.tail = false) (h : JSlot) (rh : Nat) (hh : opts.hint = some h) (hk : h.k = .loc rh) (hcf : h.cflag = false) (hr : rh < 240)
    (target : JSlot)
    (c c6 c7 c8 : CState) (left : JSlot) (sc : Scope) (rs : List Scope) (pool : List KConst) (ps : List (List KConst))
    (hs : c.scopes = sc :: rs) (hp : c.pools = pool :: ps) (hm : c.map.length = c.buf.length) (hL : LkL G c.scopes)
    (h1 : cValue fuel opts x (pushScope c false false false false) = some (left, c6))
    (h2 : ifCopy opts.drop c6 target left = some c7) (h3 : popScope c7 = some c8) :
    ∃ (ra3 : RA) (ns3 : List SymPair) (more : List KConst) (seg : List CI) (segm : List Pos),
      c8 = { c with scopes := { sc with ra := ra3, syms := sc.syms ++ ns3 } :: rs, pools := (pool ++ more) :: ps, buf := c.buf ++ seg,
                    map := c.map ++ segm, vals := c8.vals } ∧
      PrefA c.vals c8.vals ∧ segm.length = seg.length ∧ (∀ q, q ∈ ns3 → q.visible = false) ∧
      (∀ j, sc.ra.alloc j = true → ra3.alloc j = true) ∧ sc.ra.max ≤ ra3.max := by
  rw [pushScope_blk c sc rs false hs] at h1
  have hLP : LkL G (blk c sc false :: sc :: rs) := by
    rw [hs] at hL; exact hL.push _ rfl rfl
  obtain ⟨S1, _⟩ := tf_shapeH_at G fuel b x opts { c with scopes := blk c sc false :: sc :: rs } c6 left (blk c sc false) (sc :: rs) pool ps h rh
    ht hh hk hcf hr rfl hp rfl hm hx hLP h1
  obtain ⟨sc6, pool6, hs6, hp6, _, hL6, _⟩ := S1.out
  have R2 : StepR c6 c7 sc6 (sc :: rs) pool6 ps := by
    unfold ifCopy at h2
    split at h2
    · rw [← Option.some.inj h2]; exact StepR.refl c6 sc6 _ pool6 ps hs6 hp6
    · exact copySlot_stepR c6 c7 target left sc6 _ pool6 ps hs6 hp6 h2
  exact pop_shape2 G c c7 c8 sc rs pool ps (S1.trans' hs6 hp6 (R2.shp hs6 hL6)) h3

section
variable (p : Program) (f0 : Frame) (rest : List Frame) (V : Array Value) (P : List KConst)

/-- one hinted branch: block scope, the form with the hint (induction hypothesis), the no-op copy, pop -/
theorem branch_hint (G : String → Prop) (b : Bool) (fuel : Nat) (IHh : HintAtM p f0 rest V P G (TF G b) fuel)
    (x : Expr) (hx : TF G b x) (opts : Fopts) (ht : opts.tail = false) (hd : opts.drop = false) (h : JSlot) (rh : Nat) (hh : opts.hint = some h)
    (hk : h.k = .loc rh) (hcf : h.cflag = false) (hr : rh < 240)
    (c4 c6 c7 c8 : CState) (left : JSlot) (sc4 : Scope) (rs4 : List Scope) (pool4 : List KConst) (ps : List (List KConst))
    (n2 : Nat) (pos : Pos) (cenv envb : Env) (s1 s' : SS) (v : Value)
    (hs4 : c4.scopes = sc4 :: rs4) (hp4 : c4.pools = pool4 :: ps) (hl : c4.lim ≤ 240) (hm4 : c4.map.length = c4.buf.length)
    (hal : sc4.ra.alloc rh = true) (hrm : rh ≤ sc4.ra.max)
    (h1 : cValue fuel opts x (pushScope c4 false false false false) = some (left, c6))
    (h2 : ifCopy opts.drop c6 h left = some c7) (h3 : popScope c7 = some c8)
    (hsem : eval n2 pos cenv x s1 = .ok (v, envb) s')
    (hE : EnvS G c4.scopes cenv s1.boxes.size sc4.ra) :
    PrefA s1.boxes s'.boxes ∧
    ∀ (seg : List CI) (pool8 : List KConst) (sc8 : Scope), c8.buf = c4.buf ++ seg → c8.pools = pool8 :: ps → c8.scopes = sc8 :: rs4 →
      ∀ (k : Cfg), k.w = s1.st.world → k.args = #[] → EnvD c4.scopes cenv s1 k.regs →
        CodeAt (p.defs.getD f0.defIdx default).code k.pc seg → PrefL pool8 P → PrefA c8.vals V → sc8.ra.max < k.regs.size →
        ∃ regs', Reach p (inj f0 rest k) (inj f0 rest { regs := regs', pc := k.pc + seg.length, args := #[], w := s'.st.world }) ∧
          regs'.size = k.regs.size ∧
          (∀ r, sc4.ra.alloc r = true → r ≠ rh → regs'.getD r .nil = k.regs.getD r .nil) ∧ regs'.getD rh .nil = v := by
  rw [pushScope_blk c4 sc4 rs4 false hs4] at h1
  have hlk1 : ∀ y, lk (blk c4 sc4 false :: sc4 :: rs4) y = lk c4.scopes y := by
    intro y; rw [hs4]; exact lk_push _ _ rfl rfl rfl y
  have hE1 : EnvS G (blk c4 sc4 false :: sc4 :: rs4) cenv s1.boxes.size (blk c4 sc4 false).ra :=
    hE.of_lk hlk1 (Nat.le_refl _) (fun _ _ _ _ _ _ _ h' => h')
  obtain ⟨hleft, ra6, ns6, more6, seg6, segm6, hc6, pv6, mono6, max6, bx6, es6, hlen6, vm6⟩ :=
    IHh x opts { c4 with scopes := blk c4 sc4 false :: sc4 :: rs4 } c6 left (blk c4 sc4 false) (sc4 :: rs4) pool4 ps n2 pos cenv envb s1 s' v h rh
      ht hd hh hk hcf hr hal hrm rfl hp4 hl rfl hm4 hx h1 hsem hE1
  have hs6 : c6.scopes = { blk c4 sc4 false with ra := ra6, syms := (blk c4 sc4 false).syms ++ ns6 } :: sc4 :: rs4 := by rw [hc6]
  have hp6 : c6.pools = (pool4 ++ more6) :: ps := by rw [hc6]
  have hc7 : c7 = c6 := by
    rw [hd] at h2
    simp only [ifCopy, Bool.false_eq_true, if_false] at h2
    rw [hleft] at h2
    exact copySlot_same c6 c7 h rh hk hcf hr _ (sc4 :: rs4) (pool4 ++ more6) ps hs6 hp6 h2
  rw [hc7] at h3
  obtain ⟨raX, hpop, hmaxX, _⟩ := popScope_block c6 _ sc4 rs4 hs6 rfl rfl rfl
  rw [hpop] at h3
  have hc8 := (Option.some.inj h3).symm
  refine ⟨bx6, ?_⟩
  intro seg pool8 sc8 hbuf hpool hscope k hkw hka hD hcode hpre hV hsz
  have e_seg : seg = seg6 := by
    have : c8.buf = c4.buf ++ seg6 := by rw [hc8]; show c6.buf = _; rw [hc6]
    rw [this] at hbuf
    exact (List.append_cancel_left hbuf).symm
  have e_pool : pool8 = pool4 ++ more6 := by
    have : c8.pools = (pool4 ++ more6) :: ps := by rw [hc8]; exact hp6
    rw [this] at hpool
    exact (List.cons.inj hpool).1.symm
  have e_sc : sc8.ra.max = raX.max := by
    have : c8.scopes = { sc4 with ra := raX, syms := sc4.syms ++
        ((blk c4 sc4 false).syms ++ ns6).map (fun q => { q with visible := false }) } :: rs4 := by rw [hc8]
    rw [this] at hscope
    rw [← (List.cons.inj hscope).1]
  subst e_seg e_pool
  have hvals : c8.vals = c6.vals := by rw [hc8]
  rw [hvals] at hV
  have hmaxX' : raX.max = (if sc4.ra.max < ra6.max then ra6.max else sc4.ra.max) := hmaxX
  have hsz6 : ra6.max < k.regs.size := by
    rw [e_sc, hmaxX'] at hsz
    split at hsz <;> omega
  obtain ⟨regs6, rch6, sz6, pr6, hv6, _⟩ := vm6 k hkw hka (hD.of_lk hlk1) hcode hpre hV hsz6
  exact ⟨regs6, rch6, sz6, pr6, hv6⟩

theorem if_jump_hint (hP : P.length < 65536)
    (hK : ∀ i, i < P.length → (p.defs.getD f0.defIdx default).consts.getD i .nil = litOf V (P.getD i .nil))
    (G : String → Prop) (b w : Bool) (fuel : Nat) (IH : CorrectAt p f0 rest V P G (TF G b) w fuel)
    (IHh : HintAtM p f0 rest V P G (TF G b) fuel)
    (cnd tb fb : Expr) (hTc : TF G b cnd) (hTt : TF G b tb) (hTf : TF G b fb)
    (opts : Fopts) (ht : opts.tail = false) (hd : opts.drop = false) (h : JSlot) (rh : Nat) (hh' : opts.hint = some h)
    (hk : h.k = .loc rh) (hcf : h.cflag = false) (hr : rh < 240)
    (c c' : CState) (slot : JSlot) (sc : Scope) (rs : List Scope) (pool : List KConst) (ps : List (List KConst))
    (n2 : Nat) (pos : Pos) (env cenv envb : Env) (s s1 s' : SS) (cv v : Value)
    (hs : c.scopes = sc :: rs) (hp : c.pools = pool :: ps) (hl : c.lim ≤ 240) (hm : c.map.length = c.buf.length)
    (hal : sc.ra.alloc rh = true) (hrm : rh ≤ sc.ra.max)
    (c3 : CState) (cond : JSlot)
    (hcond : cValue fuel {} cnd (pushScope c false false false false) = some (cond, c3))
    (hnc : isConstSlot cond = none)
    (hj : cIfJump (cValue fuel) opts h cond tb fb (fbNilOf fb) c3 = some (slot, c'))
    (hsc : eval n2 pos env cnd s = .ok (cv, cenv) s1)
    (hsb : eval n2 pos cenv (if truthy cv then tb else fb) s1 = .ok (v, envb) s')
    (hE : EnvS G c.scopes env s.boxes.size sc.ra) :
    slot = h ∧ HintOK p f0 rest V P G c c' rh sc rs pool ps env env s s' v := by
  -- no target allocation: present the entry state as the un-hinted proof does
  obtain ⟨c1, hc1e⟩ : ∃ c1 : CState, c1 = c := ⟨_, rfl⟩
  obtain ⟨raT, hraT⟩ : ∃ raT : RA, raT = sc.ra := ⟨_, rfl⟩
  obtain ⟨target, htg⟩ : ∃ target : JSlot, target = h := ⟨_, rfl⟩
  have hc1 : c1 = { c with scopes := { sc with ra := raT } :: rs } := by rw [hc1e, hraT]; exact cstate_scopes_eta c sc rs hs
  have monoT : ∀ j, sc.ra.alloc j = true → raT.alloc j = true := by rw [hraT]; exact fun _ h' => h'
  have maxT : sc.ra.max ≤ raT.max := by rw [hraT]; exact Nat.le_refl _
  rw [← hc1e] at hcond
  rw [← htg] at hj
  -- the condition, in its block scope
  have hs1 : c1.scopes = { sc with ra := raT } :: rs := by rw [hc1]
  have hp1 : c1.pools = pool :: ps := by rw [hc1]; exact hp
  have hl1 : c1.lim ≤ 240 := by rw [hc1]; exact hl
  have hm1 : c1.map.length = c1.buf.length := by rw [hc1]; exact hm
  rw [pushScope_blk c1 { sc with ra := raT } rs false hs1] at hcond
  have hlk1 : ∀ y, lk (blk c1 { sc with ra := raT } false :: { sc with ra := raT } :: rs) y = lk c.scopes y := by
    intro y; rw [hs]; exact (lk_push _ _ rfl rfl rfl y).trans (lk_ra sc rs raT y)
  have hE1 : EnvS G ({ c1 with scopes := blk c1 { sc with ra := raT } false :: { sc with ra := raT } :: rs } : CState).scopes env s.boxes.size
      (blk c1 { sc with ra := raT } false).ra :=
    hE.of_lk hlk1 (Nat.le_refl _) (fun _ _ _ _ r _ _ h => monoT r h)
  obtain ⟨ra3, ns3, more3, seg3, segm3, hc3, pv3, mono3, max3, sok3, bx3, es3, nf3, vm3⟩ :=
    IH cnd {} { c1 with scopes := blk c1 { sc with ra := raT } false :: { sc with ra := raT } :: rs } c3 cond (blk c1 { sc with ra := raT } false)
      ({ sc with ra := raT } :: rs) pool ps n2 pos env cenv s s1 cv rfl rfl rfl hp1 hl1 rfl (fun _ => hm1) hTc hcond hsc hE1
  have hm3 : c3.map.length = c3.buf.length :=
    (tf_shapeM_at G fuel b cnd {} { c1 with scopes := blk c1 { sc with ra := raT } false :: { sc with ra := raT } :: rs } c3 cond
      (blk c1 { sc with ra := raT } false) ({ sc with ra := raT } :: rs) pool ps rfl rfl rfl hp1 rfl hm1 hTc hE1.lkl hcond).1.mapLen hm1
  have hs3 : c3.scopes = upd (blk c1 { sc with ra := raT } false) ra3 ns3 :: { sc with ra := raT } :: rs := by rw [hc3]
  have hp3 : c3.pools = (pool ++ more3) :: ps := by rw [hc3]
  have mono3' : ∀ r, raT.alloc r = true → ra3.alloc r = true := mono3
  obtain ⟨rc, hrc, hrc240, hrcal⟩ : ∃ rc, cond.k = .loc rc ∧ rc < 240 ∧ ra3.alloc rc = true := by
    rcases sok3 with ⟨hcf, kc, hk, _⟩ | ⟨_, _, r, hk, hal, hr⟩ | ⟨_, _, d, hk, _, hal, hd, _⟩
    · simp [isConstSlot, hcf, hk] at hnc
    · exact ⟨r, hk, hr, hal⟩
    · exact ⟨d, hk, hd, hal⟩
  -- the steps of the jump path
  obtain ⟨c4, left, c6, c7, c8, right, c11, c12, c13, c14, e1, e2, e3, e4, e5, e6, e7, e8, r1, r2, r3, eslot, ec'⟩ :=
    cIfJump_inv _ _ _ _ _ _ _ _ _ _ hj
  obtain ⟨nj, hnj⟩ : ∃ nj, nj = (opts.drop && fbNilOf fb) := ⟨_, rfl⟩
  rw [← hnj] at e5 r1 r3 ec'
  obtain ⟨_, hc4⟩ := emitSI_local c3 c4 .jumpIfNot cond rc 0 hrc (by omega) _ ({ sc with ra := raT } :: rs) (pool ++ more3) ps hs3 hp3 e1
  have hs4 : c4.scopes = upd (blk c1 { sc with ra := raT } false) ra3 ns3 :: { sc with ra := raT } :: rs := by rw [hc4]
  have hp4 : c4.pools = (pool ++ more3) :: ps := by rw [hc4]
  have hl4 : c4.lim ≤ 240 := by rw [hc4]; show c3.lim ≤ 240; rw [hc3]; exact hl1
  have hm4 : c4.map.length = c4.buf.length := by rw [hc4]; simp [hm3]
  have hL4 : LkL G c4.scopes := by rw [hs4, ← hs3]; exact es3.lkl
  -- the then-branch, compile side
  obtain ⟨ra8, ns8, more8, seg8, segm8, hc8, pv8, hl8, inv8, mono8, max8⟩ :=
    branch_shape2H G fuel b tb hTt opts ht h rh hh' hk hcf hr target c4 c6 c7 c8 left _ ({ sc with ra := raT } :: rs) (pool ++ more3) ps hs4 hp4 hm4 hL4 e2 e3 e4
  have mono8' : ∀ r, ra3.alloc r = true → ra8.alloc r = true := mono8
  have max8' : ra3.max ≤ ra8.max := max8
  have hs8 : c8.scopes = upd (upd (blk c1 { sc with ra := raT } false) ra3 ns3) ra8 ns8 :: { sc with ra := raT } :: rs := by rw [hc8]
  obtain ⟨c9, hc9d⟩ : ∃ c9, c9 = ifJmp nj c8 := ⟨_, rfl⟩
  rw [← hc9d] at e5 r1 ec'
  have hc9 : c9 = { c8 with buf := c8.buf ++ jmp0 nj, map := c8.map ++ (jmp0 nj).map (fun _ => c8.cur) } := by rw [hc9d]; exact ifJmp_eq nj c8
  have hs9 : c9.scopes = upd (upd (blk c1 { sc with ra := raT } false) ra3 ns3) ra8 ns8 :: { sc with ra := raT } :: rs := by rw [hc9]; exact hs8
  have hp9 : c9.pools = (pool ++ more3 ++ more8) :: ps := by rw [hc9]; show c8.pools = _; rw [hc8]
  have hl9 : c9.lim ≤ 240 := by rw [hc9]; show c8.lim ≤ 240; rw [hc8]; exact hl4
  have hm8 : c8.map.length = c8.buf.length := by rw [hc8]; simp [hm4, hl8]
  have hm9 : c9.map.length = c9.buf.length := by rw [hc9]; simp [hm8]
  have hlk9 : ∀ y, lk c9.scopes y = lk c3.scopes y := by
    intro y; rw [hs9, hs3]; exact lk_upd _ _ _ _ inv8 y
  have hL9 : LkL G c9.scopes := es3.lkl.of_lk hlk9
  -- the else-branch, compile side
  obtain ⟨ra13, ns13, more13, seg13, segm13, hc13, pv13, hl13, inv13, mono13, max13⟩ :=
    branch_shape2H G fuel b fb hTf opts ht h rh hh' hk hcf hr target c9 c11 c12 c13 right _ ({ sc with ra := raT } :: rs) (pool ++ more3 ++ more8) ps hs9 hp9 hm9 hL9 e5 e6 e7
  have max13' : ra8.max ≤ ra13.max := max13
  have hs13 : c13.scopes = upd (upd (upd (blk c1 { sc with ra := raT } false) ra3 ns3) ra8 ns8) ra13 ns13 :: { sc with ra := raT } :: rs := by
    rw [hc13]
  -- the final pop
  obtain ⟨raX, hpop, hmaxX, hmonoX⟩ := popScope_block c13 _ { sc with ra := raT } rs hs13 rfl rfl rfl
  rw [hpop] at e8
  have hc14 := (Option.some.inj e8).symm
  have hmaxX' : raX.max = (if raT.max < ra13.max then ra13.max else raT.max) := hmaxX
  have hmonoX' : ∀ j, raT.alloc j = true → raX.alloc j = true := hmonoX
  -- the code
  have hb3 : c3.buf = c.buf ++ seg3 := by rw [hc3]; show c1.buf ++ seg3 = _; rw [hc1]
  have hb4 : c4.buf = c.buf ++ seg3 ++ [CI.mi (.pay Op.jumpIfNot.toNat .si false [rc] 0)] := by rw [hc4]; show c3.buf ++ _ = _; rw [hb3]
  have hb8 : c8.buf = c4.buf ++ seg8 := by rw [hc8]
  have hb9 : c9.buf = c8.buf ++ jmp0 nj := by rw [hc9]
  have hb13 : c13.buf = c9.buf ++ seg13 := by rw [hc13]
  have hb14 : c14.buf = c13.buf := by rw [hc14]
  have hbuf14 : c14.buf = c.buf ++ (seg3 ++ CI.mi (.pay Op.jumpIfNot.toNat .si false [rc] 0) :: (seg8 ++ (jmp0 nj ++ seg13))) := by
    rw [hb14, hb13, hb9, hb8, hb4]; simp
  have hll : lastLabel c4 = (c.buf ++ seg3).length := by unfold lastLabel; rw [hb4]; simp
  have hl8len : c8.buf.length = (c.buf ++ seg3 ++ CI.mi (.pay Op.jumpIfNot.toNat .si false [rc] 0) :: seg8).length := by rw [hb8, hb4]; simp
  obtain ⟨offr, hoffr⟩ : ∃ offr, offr = c9.buf.length - lastLabel c4 := ⟨_, rfl⟩
  obtain ⟨off2, hoff2⟩ : ∃ off2, off2 = c14.buf.length - c8.buf.length := ⟨_, rfl⟩
  have hoffr' : offr = 1 + seg8.length + (jmp0 nj).length := by
    rw [hoffr, hll, hb9, hb8, hb4]; simp <;> omega
  have hoff2' : off2 = (jmp0 nj).length + seg13.length := by
    rw [hoff2, hb14, hb13, hb9]; simp <;> omega
  have hoffr_lt : offr < 32768 := by
    rw [hoffr]; omega
  have hoff2_le : off2 ≤ 8388607 := by
    rw [hoff2]; omega
  have hnj13 : nj = true → seg13 = [] := by
    intro h
    have := r3 h
    rw [hb14, hb13, hb9] at this
    simp at this
    exact this.2
  have hpatch : ifPatch nj c14.buf (lastLabel c4) (c9.buf.length - lastLabel c4) c8.buf.length =
      c.buf ++ (seg3 ++ CI.mi (.pay Op.jumpIfNot.toNat .si false [rc] offr) :: (seg8 ++ ((if nj then [] else [CI.jump (Int.ofNat off2)]) ++ seg13))) := by
    rw [← hoffr, hll, hl8len]
    have := ifPatch_eq nj c.buf seg3 seg8 seg13 (CI.mi (.pay Op.jumpIfNot.toNat .si false [rc] 0)) offr
    rw [← hbuf14, ← hl8len, ← hoff2] at this
    rw [hl8len] at this
    exact this
  have hlk' : ∀ x, lk c'.scopes x = lk c.scopes x := by
    intro x
    rw [ec']
    show lk c14.scopes x = _
    rw [hc14, hs]
    have hinv : ∀ q, q ∈ (upd (upd (upd (blk c1 { sc with ra := raT } false) ra3 ns3) ra8 ns8) ra13 ns13).syms.map
        (fun q : SymPair => { q with visible := false }) → q.visible = false := by
      intro q hq
      simp only [List.mem_map] at hq
      obtain ⟨q0, _, rfl⟩ := hq
      rfl
    exact (lk_append_invisible { ({ sc with ra := raT } : Scope) with ra := raX } rs _ hinv x).trans (lk_ra sc rs raX x)
  have hlk4 : ∀ y, lk c4.scopes y = lk c3.scopes y := by intro y; rw [hs4, hs3]
  have hE4 : EnvS G c4.scopes cenv s1.boxes.size (upd (blk c1 { sc with ra := raT } false) ra3 ns3).ra :=
    es3.of_lk hlk4 (Nat.le_refl _) (fun _ _ _ _ _ _ _ h => h)
  have hE9 : EnvS G c9.scopes cenv s1.boxes.size (upd (upd (blk c1 { sc with ra := raT } false) ra3 ns3) ra8 ns8).ra :=
    es3.of_lk hlk9 (Nat.le_refl _) (fun _ _ _ _ r _ _ h => mono8' r h)
  have hv8 : PrefA c8.vals c13.vals := by
    have : c9.vals = c8.vals := by rw [hc9]
    rw [← this]; exact pv13
  have hv3 : PrefA c3.vals c13.vals := by
    have : c4.vals = c3.vals := by rw [hc4]
    rw [← this]; exact PrefA.trans pv8 hv8
  have hp8 : c8.pools = (pool ++ more3 ++ more8) :: ps := by rw [hc8]
  have hp13 : c13.pools = (pool ++ more3 ++ more8 ++ more13) :: ps := by rw [hc13]
  have hrT : raT.alloc rh = true := monoT rh hal
  have hr3 : ra3.alloc rh = true := mono3' rh hrT
  have hr8 : ra8.alloc rh = true := mono8' rh hr3
  have hmx3 : rh ≤ ra3.max := by have : raT.max ≤ ra3.max := max3; omega
  have hmx8 : rh ≤ ra8.max := by omega
  rw [htg] at e3 e6
  -- the branch that is taken
  have taken : PrefA s1.boxes s'.boxes ∧ ∀ (regs3 : Array Value) (pc0 : Nat),
      EnvD c3.scopes cenv s1 regs3 →
      CodeAt (p.defs.getD f0.defIdx default).code pc0
        (seg3 ++ CI.mi (.pay Op.jumpIfNot.toNat .si false [rc] offr) :: (seg8 ++ ((if nj then [] else [CI.jump (Int.ofNat off2)]) ++ seg13))) →
      PrefL (pool ++ more3 ++ more8 ++ more13) P → PrefA c13.vals V → ra13.max < regs3.size →
      truthy (regs3.getD rc .nil) = truthy cv →
      ∃ regsF, Reach p (inj f0 rest { regs := regs3, pc := pc0 + seg3.length, args := #[], w := s1.st.world })
          (inj f0 rest { regs := regsF, pc := pc0 + (seg3.length + 1 + seg8.length + (jmp0 nj).length + seg13.length), args := #[], w := s'.st.world }) ∧
        regsF.size = regs3.size ∧
        (∀ r, ra3.alloc r = true → r ≠ rh → regsF.getD r .nil = regs3.getD r .nil) ∧ regsF.getD rh .nil = v := by
    have hjl : (if nj then [] else [CI.jump (Int.ofNat off2)] : List CI).length = (jmp0 nj).length := by cases nj <;> rfl
    cases htr : truthy cv with
    | true =>
      have hsb' : eval n2 pos cenv tb s1 = .ok (v, envb) s' := by simpa [htr] using hsb
      obtain ⟨bxB, vmB⟩ := branch_hint p f0 rest V P G b fuel IHh tb hTt opts ht hd h rh hh' hk hcf hr c4 c6 c7 c8 left _
        ({ sc with ra := raT } :: rs) (pool ++ more3) ps n2 pos cenv envb s1 s' v hs4 hp4 hl4 hm4 hr3 hmx3 e2 e3 e4 hsb' hE4
      refine ⟨bxB, ?_⟩
      intro regs3 pc0 hD3 hcode hpre hV hsz hcv
      have hcJ : (p.defs.getD f0.defIdx default).code[pc0 + seg3.length]? = some (MI.pay Op.jumpIfNot.toNat .si false [rc] offr).word :=
        hcode.right.head
      have hc8' : CodeAt (p.defs.getD f0.defIdx default).code (pc0 + seg3.length + 1) seg8 := hcode.right.tail.left
      have hcR := hcode.right.tail.right
      have jstep := jumpIfNot_agrees p (inj f0 rest { regs := regs3, pc := pc0 + seg3.length, args := #[], w := s1.st.world }) rc offr
        (by omega) hoffr_lt (by rw [inj_curDef, inj_pc]; exact hcJ)
      rw [inj_getReg] at jstep
      simp only [hcv, if_true, inj_adv] at jstep
      obtain ⟨regs8, rch8, sz8, pr8, sv8⟩ := vmB seg8 _ _ hb8 hp8 hs8
        { regs := regs3, pc := pc0 + seg3.length + 1, args := #[], w := s1.st.world } rfl rfl (hD3.of_lk hlk4) hc8'
        (PrefL.trans ⟨more13, rfl⟩ hpre) (PrefA.trans hv8 hV) (by show ra8.max < regs3.size; omega)
      refine ⟨regs8, ?_, sz8, pr8, sv8⟩
      refine Reach.head jstep (Reach.trans rch8 ?_)
      cases hnjc : nj with
      | true =>
        have h13 := hnj13 hnjc
        have e : pc0 + (seg3.length + 1 + seg8.length + (jmp0 true).length + seg13.length) = pc0 + seg3.length + 1 + seg8.length := by
          rw [h13]; simp [jmp0]; omega
        rw [e]
        exact Reach.refl _ _
      | false =>
        rw [hnjc] at hcR hoff2'
        simp only [Bool.false_eq_true, if_false, List.singleton_append] at hcR
        have jst := step_jump p (inj f0 rest { regs := regs8, pc := pc0 + seg3.length + 1 + seg8.length, args := #[], w := s'.st.world })
          (Int.ofNat off2) (by simp <;> omega) (by simp <;> omega) (by rw [inj_curDef, inj_pc]; exact hcR.head)
        rw [inj_jump] at jst
        refine Reach.head jst ?_
        have e : (Int.ofNat (pc0 + seg3.length + 1 + seg8.length) + Int.ofNat off2).toNat =
            pc0 + (seg3.length + 1 + seg8.length + (jmp0 false).length + seg13.length) := by
          simp only [Int.ofNat_eq_natCast]; omega
        simp only [e]
        exact Reach.refl _ _
    | false =>
      have hsb' : eval n2 pos cenv fb s1 = .ok (v, envb) s' := by simpa [htr] using hsb
      obtain ⟨bxB, vmB⟩ := branch_hint p f0 rest V P G b fuel IHh fb hTf opts ht hd h rh hh' hk hcf hr c9 c11 c12 c13 right _
        ({ sc with ra := raT } :: rs) (pool ++ more3 ++ more8) ps n2 pos cenv envb s1 s' v hs9 hp9 hl9 hm9 hr8 hmx8 e5 e6 e7 hsb' hE9
      refine ⟨bxB, ?_⟩
      intro regs3 pc0 hD3 hcode hpre hV hsz hcv
      have hcJ : (p.defs.getD f0.defIdx default).code[pc0 + seg3.length]? = some (MI.pay Op.jumpIfNot.toNat .si false [rc] offr).word :=
        hcode.right.head
      have hcR := hcode.right.tail.right.right
      rw [hjl] at hcR
      have jstep := jumpIfNot_agrees p (inj f0 rest { regs := regs3, pc := pc0 + seg3.length, args := #[], w := s1.st.world }) rc offr
        (by omega) hoffr_lt (by rw [inj_curDef, inj_pc]; exact hcJ)
      rw [inj_getReg] at jstep
      simp only [hcv, Bool.false_eq_true, if_false, inj_jump] at jstep
      have e1' : (Int.ofNat (pc0 + seg3.length) + (offr : Int)).toNat = pc0 + seg3.length + 1 + seg8.length + (jmp0 nj).length := by
        simp only [Int.ofNat_eq_natCast]; omega
      simp only [e1'] at jstep
      obtain ⟨regs13, rch13, sz13, pr13, sv13⟩ := vmB seg13 _ _ hb13 hp13 hs13
        { regs := regs3, pc := pc0 + seg3.length + 1 + seg8.length + (jmp0 nj).length, args := #[], w := s1.st.world } rfl rfl (hD3.of_lk hlk9) hcR
        hpre hV hsz
      refine ⟨regs13, ?_, sz13, fun r hr' hne => pr13 r (mono8' r hr') hne, sv13⟩
      refine Reach.head jstep ?_
      have e : pc0 + (seg3.length + 1 + seg8.length + (jmp0 nj).length + seg13.length) =
          pc0 + seg3.length + 1 + seg8.length + (jmp0 nj).length + seg13.length := by omega
      rw [e]
      exact rch13
  obtain ⟨bxB, vmB⟩ := taken
  have hv' : c'.vals = c13.vals := by rw [ec']; show c14.vals = _; rw [hc14]
  have pv3' : PrefA c.vals c3.vals := by
    have : ({ c1 with scopes := blk c1 { sc with ra := raT } false :: { sc with ra := raT } :: rs } : CState).vals = c.vals := by
      show c1.vals = _; rw [hc1]
    rw [← this]; exact pv3
  have hjl : (if nj then [] else [CI.jump (Int.ofNat off2)] : List CI).length = (jmp0 nj).length := by cases nj <;> rfl
  have hmp3 : c3.map = c.map ++ segm3 := by rw [hc3]; show c1.map ++ segm3 = _; rw [hc1]
  have hl3' : segm3.length = seg3.length := by
    have := hm3
    rw [hmp3, hb3] at this
    simp only [List.length_append] at this
    omega
  refine ⟨by rw [eslot, htg], raX, (upd (upd (upd (blk c1 { sc with ra := raT } false) ra3 ns3) ra8 ns8) ra13 ns13).syms.map (fun q => { q with visible := false }),
    more3 ++ more8 ++ more13,
    seg3 ++ CI.mi (.pay Op.jumpIfNot.toNat .si false [rc] offr) :: (seg8 ++ ((if nj then [] else [CI.jump (Int.ofNat off2)]) ++ seg13)),
    segm3 ++ [c3.cur] ++ segm8 ++ (jmp0 nj).map (fun _ => c8.cur) ++ segm13, ?_, ?_, ?_, ?_, PrefA.trans bx3 bxB, ?_, ?_, ?_⟩
  · rw [ec', hpatch, hc14, hc13, hc9, hc8, hc4, hc3, hc1]
    simp [List.append_assoc]
  · rw [hv']; exact PrefA.trans pv3' hv3
  · intro r hr'; exact hmonoX' r (monoT r hr')
  · rw [hmaxX']; split <;> omega
  · exact hE.of_lk hlk' (PrefA.trans bx3 bxB).1 (fun _ _ _ _ r _ _ h' => hmonoX' r (monoT r h'))
  · simp [hl3', hl8, hl13]
    exact hjl.symm
  · intro k hkw hka hD hcode hpre hV hsz
    rw [hv'] at hV
    have hsz13 : ra13.max < k.regs.size := by
      rw [hmaxX'] at hsz; split at hsz <;> omega
    obtain ⟨regs3, rch3, sz3, pr3, sv3, ed3⟩ := vm3 k hkw hka (hD.of_lk hlk1) hcode.left
      (PrefL.trans ⟨more8 ++ more13, by simp [List.append_assoc]⟩ hpre) (PrefA.trans hv3 hV) (by show ra3.max < _; omega)
    have hcv3 : regs3.getD rc .nil = cv := by
      have := sv3 rfl
      simpa [slotVal, hrc] using this
    obtain ⟨regsF, rchF, szF, prF, svF⟩ := vmB regs3 k.pc ed3 hcode (by simpa [List.append_assoc] using hpre) hV (by rw [sz3]; exact hsz13)
      (by rw [hcv3])
    have pr3' : ∀ r, raT.alloc r = true → regs3.getD r .nil = k.regs.getD r .nil := pr3
    have hframe : ∀ r, sc.ra.alloc r = true → r ≠ rh → regsF.getD r .nil = k.regs.getD r .nil := by
      intro r hr' hne
      rw [prF r (mono3' r (monoT r hr')) hne, pr3' r (monoT r hr')]
    refine ⟨regsF, ?_, by omega, hframe, svF, ?_⟩
    · have e : k.pc + (seg3 ++ CI.mi (.pay Op.jumpIfNot.toNat .si false [rc] offr) ::
          (seg8 ++ ((if nj then [] else [CI.jump (Int.ofNat off2)]) ++ seg13))).length =
          k.pc + (seg3.length + 1 + seg8.length + (jmp0 nj).length + seg13.length) := by
        simp only [List.length_append, List.length_cons, hjl]; omega
      rw [e]
      exact Reach.trans rch3 rchF
    · intro x sl u l r a hx hk' hne he
      rw [hlk'] at hx
      obtain ⟨_, _, _, r'', a'', hk'', he', ha, hal', _⟩ := hE.found hx
      have e1 : r'' = r := by rw [hk''] at hk'; injection hk'
      have e2 : a'' = a := by rw [he] at he'; exact (Option.some.inj he').symm
      subst e1 e2
      rw [hframe r'' hal' hne, hD x sl u l r'' a'' hx hk' he]
      exact (readBox_pref (PrefA.trans bx3 bxB) a'' ha).symm

theorem if_const_hint (hP : P.length < 65536)
    (hK : ∀ i, i < P.length → (p.defs.getD f0.defIdx default).consts.getD i .nil = litOf V (P.getD i .nil))
    (G : String → Prop) (b w : Bool) (fuel : Nat) (IH : CorrectAt p f0 rest V P G (TF G b) w fuel)
    (IHh : HintAtM p f0 rest V P G (TF G b) fuel)
    (cnd tb fb : Expr) (hTc : TF G b cnd) (hTt : TF G b tb) (hTf : TF G b fb)
    (opts : Fopts) (ht : opts.tail = false) (hd : opts.drop = false) (h : JSlot) (rh : Nat) (hh' : opts.hint = some h)
    (hkh : h.k = .loc rh) (hcf : h.cflag = false) (hr : rh < 240)
    (c c' : CState) (slot : JSlot) (sc : Scope) (rs : List Scope) (pool : List KConst) (ps : List (List KConst))
    (n2 : Nat) (pos : Pos) (env cenv envb : Env) (s s1 s' : SS) (cv v : Value)
    (hs : c.scopes = sc :: rs) (hp : c.pools = pool :: ps) (hl : c.lim ≤ 240) (hm : c.map.length = c.buf.length)
    (hal : sc.ra.alloc rh = true) (hrm : rh ≤ sc.ra.max)
    (c3 : CState) (cond : JSlot) (k : KConst)
    (hcond : cValue fuel {} cnd (pushScope c false false false false) = some (cond, c3))
    (hj : cIfConst (cValue fuel) opts h tb fb k c3 = some (slot, c'))
    (hsc : eval n2 pos env cnd s = .ok (cv, cenv) s1)
    (hct : truthy cv = constTruthy k)
    (hsb : eval n2 pos cenv (if truthy cv then tb else fb) s1 = .ok (v, envb) s')
    (hE : EnvS G c.scopes env s.boxes.size sc.ra) :
    slot = h ∧ HintOK p f0 rest V P G c c' rh sc rs pool ps env env s s' v := by
  obtain ⟨c1, hc1e⟩ : ∃ c1 : CState, c1 = c := ⟨_, rfl⟩
  obtain ⟨raT, hraT⟩ : ∃ raT : RA, raT = sc.ra := ⟨_, rfl⟩
  obtain ⟨target, htg⟩ : ∃ target : JSlot, target = h := ⟨_, rfl⟩
  have hc1 : c1 = { c with scopes := { sc with ra := raT } :: rs } := by rw [hc1e, hraT]; exact cstate_scopes_eta c sc rs hs
  have monoT : ∀ j, sc.ra.alloc j = true → raT.alloc j = true := by rw [hraT]; exact fun _ h' => h'
  have maxT : sc.ra.max ≤ raT.max := by rw [hraT]; exact Nat.le_refl _
  rw [← hc1e] at hcond
  rw [← htg] at hj
  -- the condition, in its block scope
  have hs1 : c1.scopes = { sc with ra := raT } :: rs := by rw [hc1]
  have hp1 : c1.pools = pool :: ps := by rw [hc1]; exact hp
  have hl1 : c1.lim ≤ 240 := by rw [hc1]; exact hl
  have hm1 : c1.map.length = c1.buf.length := by rw [hc1]; exact hm
  rw [pushScope_blk c1 { sc with ra := raT } rs false hs1] at hcond
  have hlk1 : ∀ y, lk (blk c1 { sc with ra := raT } false :: { sc with ra := raT } :: rs) y = lk c.scopes y := by
    intro y; rw [hs]; exact (lk_push _ _ rfl rfl rfl y).trans (lk_ra sc rs raT y)
  have hE1 : EnvS G ({ c1 with scopes := blk c1 { sc with ra := raT } false :: { sc with ra := raT } :: rs } : CState).scopes env s.boxes.size
      (blk c1 { sc with ra := raT } false).ra :=
    hE.of_lk hlk1 (Nat.le_refl _) (fun _ _ _ _ r _ _ h => monoT r h)
  obtain ⟨ra3, ns3, more3, seg3, segm3, hc3, pv3, mono3, max3, sok3, bx3, es3, nf3, vm3⟩ :=
    IH cnd {} { c1 with scopes := blk c1 { sc with ra := raT } false :: { sc with ra := raT } :: rs } c3 cond (blk c1 { sc with ra := raT } false)
      ({ sc with ra := raT } :: rs) pool ps n2 pos env cenv s s1 cv rfl rfl rfl hp1 hl1 rfl (fun _ => hm1) hTc hcond hsc hE1
  have hm3 : c3.map.length = c3.buf.length :=
    (tf_shapeM_at G fuel b cnd {} { c1 with scopes := blk c1 { sc with ra := raT } false :: { sc with ra := raT } :: rs } c3 cond
      (blk c1 { sc with ra := raT } false) ({ sc with ra := raT } :: rs) pool ps rfl rfl rfl hp1 rfl hm1 hTc hE1.lkl hcond).1.mapLen hm1
  have hs3 : c3.scopes = upd (blk c1 { sc with ra := raT } false) ra3 ns3 :: { sc with ra := raT } :: rs := by rw [hc3]
  have hp3 : c3.pools = (pool ++ more3) :: ps := by rw [hc3]
  have mono3' : ∀ r, raT.alloc r = true → ra3.alloc r = true := mono3
  have hl3 : c3.lim ≤ 240 := by rw [hc3]; exact hl1
  -- the steps of the folding path
  obtain ⟨right, c5, c6, c7, c8, e1, e2, e3, e4, e5, eslot⟩ := cIfConst_inv _ _ _ _ _ _ _ _ _ hj
  obtain ⟨live, hlive⟩ : ∃ x, x = (if constTruthy k then tb else fb) := ⟨_, rfl⟩
  obtain ⟨dead, hdead⟩ : ∃ x, x = (if constTruthy k then fb else tb) := ⟨_, rfl⟩
  rw [← hlive] at e1
  rw [← hdead] at e4
  have hTl : TF G b live := by rw [hlive]; split <;> assumption
  have hTd : TF G b dead := by rw [hdead]; split <;> assumption
  have hsb' : eval n2 pos cenv live s1 = .ok (v, envb) s' := by
    rw [hct] at hsb; rw [hlive]; exact hsb
  have hL3 : LkL G c3.scopes := es3.lkl
  -- the live branch
  obtain ⟨ra7, ns7, more7, seg7, segm7, hc7, pv7, hl7, inv7, mono7, max7⟩ :=
    branch_shape2H G fuel b live hTl opts ht h rh hh' hkh hcf hr target c3 c5 c6 c7 right _ ({ sc with ra := raT } :: rs) (pool ++ more3) ps hs3 hp3 hm3 hL3 e1 e2 e3
  have max7' : ra3.max ≤ ra7.max := max7
  have hs7 : c7.scopes = upd (upd (blk c1 { sc with ra := raT } false) ra3 ns3) ra7 ns7 :: { sc with ra := raT } :: rs := by rw [hc7]
  have hp7 : c7.pools = (pool ++ more3 ++ more7) :: ps := by rw [hc7]
  have hm7 : c7.map.length = c7.buf.length := by rw [hc7]; simp [hm3, hl7]
  have hlk7 : ∀ y, lk c7.scopes y = lk c3.scopes y := by
    intro y; rw [hs7, hs3]; exact lk_upd _ _ _ _ inv7 y
  have hL7 : LkL G c7.scopes := es3.lkl.of_lk hlk7
  -- the dead branch
  obtain ⟨more8, hc8, pv8⟩ : ∃ more8, c8 = { c7 with pools := (pool ++ more3 ++ more7 ++ more8) :: ps, vals := c8.vals } ∧ PrefA c7.vals c8.vals := by
    split at e4
    · refine ⟨[], ?_, ?_⟩
      · rw [← Option.some.inj e4, List.append_nil, ← hp7]
      · rw [← Option.some.inj e4]; exact PrefA.refl _
    · refine throwaway_eq G _ opts dead c7 c8 _ ({ sc with ra := raT } :: rs) (pool ++ more3 ++ more7) ps hs7 hm7 (fun c2 sl h' => ?_) e4
      have hLT : LkL G (blk c7 (upd (upd (blk c1 { sc with ra := raT } false) ra3 ns3) ra7 ns7) true ::
          upd (upd (blk c1 { sc with ra := raT } false) ra3 ns3) ra7 ns7 :: { sc with ra := raT } :: rs) := by
        rw [hs7] at hL7; exact hL7.push _ rfl rfl
      exact (tf_shapeH_at G fuel b dead opts
        { c7 with scopes := (blk c7 (upd (upd (blk c1 { sc with ra := raT } false) ra3 ns3) ra7 ns7) true ::
          upd (upd (blk c1 { sc with ra := raT } false) ra3 ns3) ra7 ns7 :: { sc with ra := raT } :: rs) } c2 sl _ _
        (pool ++ more3 ++ more7) ps h rh ht hh' hkh hcf hr rfl hp7 rfl hm7 hTd hLT h').1
  have hs8 : c8.scopes = upd (upd (blk c1 { sc with ra := raT } false) ra3 ns3) ra7 ns7 :: { sc with ra := raT } :: rs := by rw [hc8]; exact hs7
  -- the final pop
  obtain ⟨raX, hpop, hmaxX, hmonoX⟩ := popScope_block c8 _ { sc with ra := raT } rs hs8 rfl rfl rfl
  rw [hpop] at e5
  have hc' := (Option.some.inj e5).symm
  have hmaxX' : raX.max = (if raT.max < ra7.max then ra7.max else raT.max) := hmaxX
  have hmonoX' : ∀ j, raT.alloc j = true → raX.alloc j = true := hmonoX
  have hb3 : c3.buf = c.buf ++ seg3 := by rw [hc3]; show c1.buf ++ seg3 = _; rw [hc1]
  have hb7 : c7.buf = c3.buf ++ seg7 := by rw [hc7]
  -- names and the target register
  have hlk' : ∀ x, lk c'.scopes x = lk c.scopes x := by
    intro x
    rw [hc', hs]
    have hinv : ∀ q, q ∈ (upd (upd (blk c1 { sc with ra := raT } false) ra3 ns3) ra7 ns7).syms.map
        (fun q : SymPair => { q with visible := false }) → q.visible = false := by
      intro q hq
      simp only [List.mem_map] at hq
      obtain ⟨q0, _, rfl⟩ := hq
      rfl
    exact (lk_append_invisible { ({ sc with ra := raT } : Scope) with ra := raX } rs _ hinv x).trans (lk_ra sc rs raX x)
  have hrT : raT.alloc rh = true := monoT rh hal
  have hr3 : ra3.alloc rh = true := mono3' rh hrT
  have hmx3 : rh ≤ ra3.max := by have : raT.max ≤ ra3.max := max3; omega
  rw [htg] at e2
  obtain ⟨bxB, vmB⟩ := branch_hint p f0 rest V P G b fuel IHh live hTl opts ht hd h rh hh' hkh hcf hr c3 c5 c6 c7 right _
    ({ sc with ra := raT } :: rs) (pool ++ more3) ps n2 pos cenv envb s1 s' v hs3 hp3 hl3 hm3 hr3 hmx3 e1 e2 e3 hsb' es3
  have hv' : c'.vals = c8.vals := by rw [hc']
  have pv3' : PrefA c.vals c3.vals := by
    have : ({ c1 with scopes := blk c1 { sc with ra := raT } false :: { sc with ra := raT } :: rs } : CState).vals = c.vals := by
      show c1.vals = _; rw [hc1]
    rw [← this]; exact pv3
  have hmp3 : c3.map = c.map ++ segm3 := by rw [hc3]; show c1.map ++ segm3 = _; rw [hc1]
  have hl3' : segm3.length = seg3.length := by
    have := hm3
    rw [hmp3, hb3] at this
    simp only [List.length_append] at this
    omega
  refine ⟨by rw [← eslot, htg], raX, (upd (upd (blk c1 { sc with ra := raT } false) ra3 ns3) ra7 ns7).syms.map (fun q => { q with visible := false }),
    more3 ++ more7 ++ more8, seg3 ++ seg7, segm3 ++ segm7, ?_, ?_, ?_, ?_, PrefA.trans bx3 bxB, ?_, ?_, ?_⟩
  · rw [hc', hc8, hc7, hc3, hc1]
    simp [List.append_assoc]
  · rw [hv']; exact PrefA.trans pv3' (PrefA.trans pv7 pv8)
  · intro r hr'; exact hmonoX' r (monoT r hr')
  · rw [hmaxX']; split <;> omega
  · exact hE.of_lk hlk' (PrefA.trans bx3 bxB).1 (fun _ _ _ _ r _ _ h' => hmonoX' r (monoT r h'))
  · simp [hl3', hl7]
  · intro k0 hkw hka hD hcode hpre hV hsz
    rw [hv'] at hV
    have hsz7 : ra7.max < k0.regs.size := by
      rw [hmaxX'] at hsz; split at hsz <;> omega
    have hV7 : PrefA c7.vals V := PrefA.trans pv8 hV
    obtain ⟨regs3, rch3, sz3, pr3, sv3, ed3⟩ := vm3 k0 hkw hka (hD.of_lk hlk1) hcode.left
      (PrefL.trans ⟨more7 ++ more8, by simp [List.append_assoc]⟩ hpre) (PrefA.trans pv7 hV7) (by show ra3.max < _; omega)
    obtain ⟨regsF, rchF, szF, prF, svF⟩ := vmB seg7 _ _ hb7 hp7 hs7
      { regs := regs3, pc := k0.pc + seg3.length, args := #[], w := s1.st.world } rfl rfl ed3 hcode.right
      (PrefL.trans ⟨more8, by simp [List.append_assoc]⟩ hpre) hV7 (by show ra7.max < regs3.size; omega)
    have szF' : regsF.size = regs3.size := szF
    have pr3' : ∀ r, raT.alloc r = true → regs3.getD r .nil = k0.regs.getD r .nil := pr3
    have hframe : ∀ r, sc.ra.alloc r = true → r ≠ rh → regsF.getD r .nil = k0.regs.getD r .nil := by
      intro r hr' hne
      rw [prF r (mono3' r (monoT r hr')) hne, pr3' r (monoT r hr')]
    refine ⟨regsF, ?_, by omega, hframe, svF, ?_⟩
    · have e : k0.pc + (seg3 ++ seg7).length = k0.pc + seg3.length + seg7.length := by
        simp [List.length_append]; omega
      rw [e]
      exact Reach.trans rch3 rchF
    · intro x sl u l r a hx hk' hne he
      rw [hlk'] at hx
      obtain ⟨_, _, _, r'', a'', hk'', he', ha, hal', _⟩ := hE.found hx
      have e1 : r'' = r := by rw [hk''] at hk'; injection hk'
      have e2 : a'' = a := by rw [he] at he'; exact (Option.some.inj he').symm
      subst e1 e2
      rw [hframe r'' hal' hne, hD x sl u l r'' a'' hx hk' he]
      exact (readBox_pref (PrefA.trans bx3 bxB) a'' ha).symm

/-- the `if` case of the hint induction: both paths -/
theorem if_hint_core (hP : P.length < 65536)
    (hK : ∀ i, i < P.length → (p.defs.getD f0.defIdx default).consts.getD i .nil = litOf V (P.getD i .nil))
    (G : String → Prop) (b w : Bool) (fuel : Nat) (IH : CorrectAt p f0 rest V P G (TF G b) w fuel)
    (IHh : HintAtM p f0 rest V P G (TF G b) fuel) : HintIfCase p f0 rest V P G b fuel := by
  intro cnd tb els pp hok hlen hTc hTt hTe opts c c' slot sc rs pool ps n cur env env' s s' v h rh ht hd hh hk hcf hr hal hrm hs hp hl htop hm hc hsem hE
  rw [cValue_if_h fuel opts ht h hh cnd tb els pp c, cIf_le1 _ _ _ _ _ _ hlen] at hc
  obtain ⟨q, hq⟩ := curAt_eq c pp
  cases hcc : cIfBody (cValue fuel) opts cnd tb (els.headD (.lit .nil)) (curAt c pp) with
  | none => rw [hcc] at hc; simp [finH] at hc
  | some res =>
    obtain ⟨slot0, cq⟩ := res
    rw [hcc] at hc
    rw [hq] at hcc
    obtain ⟨n2, cv, cenv, s1, envb, hn, hsc, henv, hsb⟩ := eval_if_inv n cur env env' cnd tb els pp s s' v hsem
    subst henv
    obtain ⟨target, c1, cond, c3, hT, hcond, hrest⟩ := cIfBody_inv _ opts cnd tb _ _ cq slot0 hcc
    rw [hd] at hT
    simp only [Bool.false_eq_true, if_false] at hT
    obtain ⟨htg, hc1⟩ := getTarget_hint _ c1 opts target h rh hh hk (by omega) hT
    subst htg hc1
    have hTf : TF G b (els.headD (.lit .nil)) := by
      cases els with
      | nil => exact .lit .nil trivial
      | cons e _ => exact hTe e (by simp)
    have key : slot0 = target ∧ HintOK p f0 rest V P G { c with cur := q } cq rh sc rs pool ps env' env' s s' v := by
      cases hkc : isConstSlot cond with
      | none =>
        rw [hkc] at hrest
        simp only at hrest
        exact if_jump_hint p f0 rest V P hP hK G b w fuel IH IHh cnd tb _ hTc hTt hTf opts ht hd target rh hh hk hcf hr { c with cur := q } cq slot0
          sc rs pool ps n2 (posOf cur pp) env' cenv envb s s1 s' cv v hs hp hl hm hal hrm c3 cond hcond hkc hrest hsc hsb hE
      | some k =>
        rw [hkc] at hrest
        simp only at hrest
        have hlk2 : ∀ y, lk (pushScope ({ c with cur := q } : CState) false false false false).scopes y = lk c.scopes y := by
          intro y
          rw [pushScope_blk ({ c with cur := q } : CState) sc rs false hs, hs]
          exact lk_push _ _ rfl rfl rfl y
        have hct : truthy cv = constTruthy k :=
          condT_of_ok G b fuel cnd hok hTc _ c3 cond k n2 (posOf cur pp) env' cenv s s1 cv (hE.lkl.of_lk hlk2)
            (fun x hx => by
              rw [hlk2] at hx
              rcases hE.2 x with ⟨_, h2⟩ | ⟨sl, r, a, u, h1, _⟩
              · exact h2
              · rw [hx] at h1; exact absurd h1 (by simp))
            hcond hkc hsc
        exact if_const_hint p f0 rest V P hP hK G b w fuel IH IHh cnd tb _ hTc hTt hTf opts ht hd target rh hh hk hcf hr { c with cur := q } cq slot0
          sc rs pool ps n2 (posOf cur pp) env' cenv envb s s1 s' cv v hs hp hl hm hal hrm c3 cond k hcond hrest hsc hct hsb hE
    exact finH_same p f0 rest V P G q target slot0 slot rh c cq c' sc rs pool ps env' env' s s' v hk hcf hr key.1 key.2 hc

/-- compiles with a hint slot, the whole fragment `TF G b` (with `if`) -/
theorem tf_hint_correct_b (hP : P.length < 65536)
    (hK : ∀ i, i < P.length → (p.defs.getD f0.defIdx default).consts.getD i .nil = litOf V (P.getD i .nil))
    (FF : FloatFacts) (G : String → Prop) (b w : Bool) (CN : ∀ fuel, CorrectAt p f0 rest V P G (TF G b) w fuel) :
    ∀ fuel, HintAtM p f0 rest V P G (TF G b) fuel :=
  tf_hint_gen p f0 rest V P hP hK FF G b w CN (fun _ fuel IHh => if_hint_core p f0 rest V P hP hK G b w fuel (CN fuel) IHh)

end

end JanetModel.Compile
