/- C02: agreement of the Lean VM (`Bytecode/Exec`) and the reference semantics (`Lang/Sem`) at the instruction level, for the
   instructions whose meaning is a rule of the language: a call of a core function (`JOP_CALL` / `JOP_TAILCALL` on a
   cfunction: same value, same effects, same error and the error is attributed to the position recorded for the call
   instruction), the conditional jumps (`truthy`).  These are the semantic steps of the compile-correctness induction. -/
import JanetModel.Compile.Step
import JanetModel.Lang.Sem
namespace JanetModel.Compile
open JanetModel.Emit JanetModel.Lang JanetModel.Bytecode.Exec JanetModel.Gen.Bytecode

/-- what both sides do with the outcome of the core function -/
def primOutcome (name : String) (vs : List Value) (w : World) : PRes (Value × World) := callPrimW name vs w

theorem applyFn_cfun (n : Nat) (pos : Pos) (name : String) (hna : name ≠ "apply") (vs : List Value) (s : SS) :
    applyFn (n + 1) pos (.cfun name) vs s =
      (match callPrimW name vs s.st.world with
       | .ok (v, w) => .ok v { s with st := s.st.withWorld w }
       | .rt => .err Lang.rtErr pos s
       | .user e => .err e pos s
       | .unsup why => .stop why) := by
  rw [applyFn] <;> try (simp [hna]; done)
  simp only [callPrim, Lang.liftP]
  cases callPrimW name vs s.st.world with
  | ok a => cases a; rfl
  | rt => rfl
  | user e => rfl
  | unsup why => rfl

theorem doCall_cfun (p : Program) (st : State) (d : Nat) (name : String) :
    doCall p st d (.cfun name) =
      (match callPrimW name st.args.toList st.world with
       | .ok (v, w) => .next ((({ st with args := #[] } : State).withWorld w).setAdv d v)
       | .rt => .err JanetModel.Bytecode.Exec.rtErr (curPos p st) st
       | .user e => .err e (curPos p st) st
       | .unsup why => .unsup why) := by
  simp only [doCall, callPrim, JanetModel.Bytecode.Exec.liftP, raise]
  have hw : ({ st with args := #[] } : State).world = st.world := rfl
  rw [hw]
  cases callPrimW name st.args.toList st.world with
  | ok a => cases a; rfl
  | rt => rfl
  | user e => rfl
  | unsup why => rfl

/-- `JOP_CALL` on a core function, as emitted by `janetc_call`, against the reference semantics' function application:
    with the pending arguments `vs` and the same world, the VM step and `applyFn` are the same case analysis on the same
    core-function result — value into the destination register and the new world, or the same error value attributed to
    the source position recorded for the call instruction, or both outside the model. -/
theorem call_agrees (p : Program) (st : State) (s : SS) (n d f : Nat) (name : String) (hna : name ≠ "apply")
    (hd : d < 256) (hfr : f < 65536)
    (hcode : (curDef p st).code[st.cur.pc]? = some (CI.call d f).word)
    (hfn : st.getReg f = .cfun name) (hw : st.world = s.st.world) :
    (match callPrimW name st.args.toList st.world with
     | .ok (v, w) =>
        step p st = .next ((({ st with args := #[] } : State).withWorld w).setAdv d v) ∧
        applyFn (n + 1) (curPos p st) (.cfun name) st.args.toList s = .ok v { s with st := s.st.withWorld w }
     | .rt =>
        step p st = .err JanetModel.Bytecode.Exec.rtErr (curPos p st) st ∧
        applyFn (n + 1) (curPos p st) (.cfun name) st.args.toList s = .err Lang.rtErr (curPos p st) s
     | .user e =>
        step p st = .err e (curPos p st) st ∧ applyFn (n + 1) (curPos p st) (.cfun name) st.args.toList s = .err e (curPos p st) s
     | .unsup why =>
        step p st = .unsup why ∧ applyFn (n + 1) (curPos p st) (.cfun name) st.args.toList s = .stop why) := by
  have h1 := step_call p st d f hd hfr hcode
  rw [hfn, doCall_cfun] at h1
  have h2 := applyFn_cfun n (curPos p st) name hna st.args.toList s
  rw [← hw] at h2
  cases hc : callPrimW name st.args.toList st.world with
  | ok a => cases a; rw [hc] at h1 h2; exact ⟨h1, h2⟩
  | rt => rw [hc] at h1 h2; exact ⟨h1, h2⟩
  | user e => rw [hc] at h1 h2; exact ⟨h1, h2⟩
  | unsup why => rw [hc] at h1 h2; exact ⟨h1, h2⟩

/-- the runtime-error value is the same object on both sides -/
theorem rtErr_same : JanetModel.Bytecode.Exec.rtErr = Lang.rtErr := rfl

/-- `JOP_JUMP_IF_NOT` (what `janetc_if` / `janetc_while` emit for a non-constant condition) branches on `truthy`, the test
    `Lang/Sem` uses for `if` and `while`; `off` is the forward offset the compiler patched in -/
theorem jumpIfNot_agrees (p : Program) (st : State) (a off : Nat) (ha : a < 256) (hoff : off < 32768)
    (hcode : (curDef p st).code[st.cur.pc]? = some (MI.pay Op.jumpIfNot.toNat .si false [a] off).word) :
    step p st = .next (if truthy (st.getReg a) then st.adv else st.jump (off : Int)) := by
  obtain ⟨h, hA, _, hES⟩ := step_pay_si p st .jumpIfNot false a off ha hoff hcode
  rw [h]
  simp only [execOp, condJump, hA, hES]
  cases truthy (st.getReg a) <;> rfl

/-- `JOP_RETURN` -/
theorem return_agrees (p : Program) (st : State) (r : Nat) (hr : r < 16777216)
    (hcode : (curDef p st).code[st.cur.pc]? = some (MI.pay Op.return.toNat .s false [r] 0).word) :
    step p st = doReturn p st (st.getReg r) := by
  obtain ⟨h, hD⟩ := step_pay_s p st .return false r 0 hr hcode
  rw [h]
  simp only [execOp, hD]

/-- `JOP_PUSH` / `JOP_PUSH_2` / `JOP_PUSH_3` (what `janetc_pushslots` emits): the register values are appended to the pending
    arguments in operand order, which is the left-to-right order of `Lang/Sem.evalArgs` -/
theorem push_agrees (p : Program) (st : State) (r : Nat) (hr : r < 16777216)
    (hcode : (curDef p st).code[st.cur.pc]? = some (MI.pay Op.push.toNat .s false [r] 0).word) :
    step p st = .next ({ st with args := st.args.push (st.getReg r) } : State).adv := by
  obtain ⟨h, hD⟩ := step_pay_s p st .push false r 0 hr hcode
  rw [h]
  simp only [execOp, hD]

theorem push2_agrees (p : Program) (st : State) (a e : Nat) (ha : a < 256) (he : e < 65536)
    (hcode : (curDef p st).code[st.cur.pc]? = some (MI.pay Op.push2.toNat .ss false [a, e] 0).word) :
    step p st = .next ({ st with args := (st.args.push (st.getReg a)).push (st.getReg e) } : State).adv := by
  obtain ⟨h, hA, hE⟩ := step_pay_ss p st .push2 false a e 0 ha he hcode
  rw [h]
  simp only [execOp, hA, hE]

theorem push3_agrees (p : Program) (st : State) (a b c : Nat) (ha : a < 256) (hb : b < 256) (hc : c < 256)
    (hcode : (curDef p st).code[st.cur.pc]? = some (MI.pay Op.push3.toNat .sss false [a, b, c] 0).word) :
    step p st = .next ({ st with args := ((st.args.push (st.getReg a)).push (st.getReg b)).push (st.getReg c) } : State).adv := by
  obtain ⟨h, hA, hB, hC⟩ := step_pay_sss p st .push3 false a b c 0 ha hb hc hcode
  rw [h]
  simp only [execOp, hA, hB, hC]

/-- `JOP_MAKE_TUPLE` (bracket-tuple literal with a non-constant element): the pending arguments become an ordinary tuple,
    the value `Lang/Sem.eval` gives `[e₁ … eₙ]` -/
theorem makeTuple_agrees (p : Program) (st : State) (r : Nat) (hr : r < 16777216)
    (hcode : (curDef p st).code[st.cur.pc]? = some (MI.pay Op.makeTuple.toNat .s true [r] 0).word) :
    step p st = .next (({ st with args := #[] } : State).setAdv r (.tuple st.args.toList false)) := by
  obtain ⟨h, hD⟩ := step_pay_s p st .makeTuple true r 0 hr hcode
  rw [h]
  simp only [execOp, hD, takeArgs]

/-- `JOP_MAKE_ARRAY` (array literal): a fresh heap array of the pending arguments, allocated by the same `allocV` that
    `Lang/Sem.eval` uses for `@[e₁ … eₙ]` — so with equal heaps the two sides get the same address -/
theorem makeArray_agrees (p : Program) (st : State) (r : Nat) (hr : r < 16777216)
    (hcode : (curDef p st).code[st.cur.pc]? = some (MI.pay Op.makeArray.toNat .s true [r] 0).word) :
    step p st = .next ((allocV ({ st with args := #[] } : State) (.arr st.args.toList.toArray) Value.arr).2.setAdv r
                        (allocV ({ st with args := #[] } : State) (.arr st.args.toList.toArray) Value.arr).1) := by
  obtain ⟨h, hD⟩ := step_pay_s p st .makeArray true r 0 hr hcode
  rw [h]
  simp only [execOp, hD, takeArgs]

end JanetModel.Compile
