/- C02: blocks whose statements are forms of the core fragment OR `while` loops without `break` over the fragment (`TFW G true`):
   `tfw_correct` (no new induction: a fragment form by `tf_correct_b`, a loop by `while_core`), the compile-only map-length fact
   for loops (`while_ML`, `tfw_ML`), and `do_core` / `doBody_correct` instantiated (`do_loops_core`, `doBody_loops_correct`). -/
import JanetModel.Compile.SeqWhileAll
import JanetModel.Compile.SeqNoBrkSem
import JanetModel.Compile.SeqCoreIf
namespace JanetModel.Compile
open JanetModel.Emit JanetModel.Lang JanetModel.Bytecode.Exec JanetModel.Gen.Bytecode

/-- one `while` loop without `break` whose condition and body statements are in the fragment -/
def WL (G : String → Prop) (b : Bool) (e : Expr) : Prop :=
  ∃ cnd body pp, e = .form (.sym "while" :: cnd :: body) pp ∧ CondOK cnd ∧ TF G b cnd ∧ ∀ x, x ∈ body → TF G b x

/-- a form of the fragment or such a loop -/
def TFW (G : String → Prop) (b : Bool) (e : Expr) : Prop := TF G b e ∨ WL G b e

theorem popScope_map (c c' : CState) (h : popScope c = some c') : c'.map = c.map := by
  unfold popScope at h
  split at h
  · exact absurd h (by simp)
  · rw [← Option.some.inj h]
  · split at h <;> rw [← Option.some.inj h]

theorem brkRewrite_length (buf : List CI) (lo hi : Nat) : (brkRewrite buf lo hi).length = buf.length := by
  simp [brkRewrite]

/-- the loop's compile appends equally long code and map segments (compile-only) -/
theorem while_ML (G : String → Prop) (b : Bool) (fuel : Nat) (cnd : Expr) (body : List Expr) (pp : Pos)
    (hTc : TF G b cnd) (hTb : ∀ e, e ∈ body → TF G b e)
    (opts : Fopts) (ht : opts.tail = false) (hh : opts.hint = none)
    (c c' : CState) (slot : JSlot) (sc : Scope) (rs : List Scope) (pool : List KConst) (ps : List (List KConst))
    (hs : c.scopes = sc :: rs) (hp : c.pools = pool :: ps) (hL : LkL G c.scopes) (hm : c.map.length = c.buf.length)
    (hc : cValue (fuel + 1) opts (.form (.sym "while" :: cnd :: body) pp) c = some (slot, c')) : c'.map.length = c'.buf.length := by
  rw [cValue_while_o fuel opts ht hh cnd body pp c] at hc
  obtain ⟨q, hq⟩ := curAt_eq c pp
  cases hcc : cWhile (cValue fuel) cnd body (curAt c pp) with
  | none => rw [hcc] at hc; simp [fin] at hc
  | some res =>
    obtain ⟨slot0, cq⟩ := res
    rw [hcc] at hc
    simp only [fin, Option.some.injEq, Prod.mk.injEq] at hc
    rw [← hc.2]
    show cq.map.length = cq.buf.length
    rw [hq] at hcc
    simp only [cWhile, Option.bind_eq_bind, Option.bind_eq_some_iff, Prod.exists] at hcc
    obtain ⟨cond, c2, hcond, h⟩ := hcc
    obtain ⟨wb, hwb⟩ : ∃ wb : Scope, wb = { whl := true, ra := { alloc := sc.ra.alloc, max := sc.ra.max }, start := c.buf.length } := ⟨_, rfl⟩
    have hc1 : pushScope ({ c with cur := q } : CState) false true false false = { ({ c with cur := q } : CState) with scopes := wb :: sc :: rs } := by
      simp [pushScope, hs, hwb]
    rw [hc1] at hcond
    have hwsyms : wb.syms = [] := by rw [hwb]
    have hwfn : wb.fn = false := by rw [hwb]
    have hwcl : wb.closure = false := by rw [hwb]
    have hwtop : wb.top = false := by rw [hwb]
    have hLP : LkL G (wb :: sc :: rs) := by rw [hs] at hL; exact hL.push wb hwsyms hwfn
    obtain ⟨S2, _⟩ := tf_shapeM_at G fuel b cnd {} { ({ c with cur := q } : CState) with scopes := wb :: sc :: rs } c2 cond wb (sc :: rs) pool ps
      rfl rfl rfl hp hwtop hm hTc hLP hcond
    have hm2 : c2.map.length = c2.buf.length := S2.mapLen hm
    obtain ⟨ra2, ns2, more2, seg2, segm2, hc2, _, hL2, _⟩ := S2
    have hs2 : c2.scopes = upd wb ra2 ns2 :: sc :: rs := by rw [hc2]
    have hp2 : c2.pools = (pool ++ more2) :: ps := by rw [hc2]
    -- the tail of the non-function path: jump back, patches, placeholder rewrite, pop
    have fin4 : ∀ (c3 c4 : CState) (sc3 : Scope) (pool3 : List KConst), c3.scopes = sc3 :: sc :: rs → c3.pools = pool3 :: ps →
        sc3.top = false → sc3.closure = false →
        c3.map.length = c3.buf.length → LkL G c3.scopes → whileBody (cValue fuel) body c3 = some c4 →
        c4.map.length = c4.buf.length ∧ (c4.scopes.headD default).closure = false := by
      intro c3 c4 sc3 pool3 hs3 hp3 htop3 hcl3 hm3 hL3 hbody
      have S4 := whileBody_shapeM G fuel b body hTb c3 c4 sc3 (sc :: rs) pool3 ps hs3 hp3 htop3 hm3 hL3 hbody
      refine ⟨S4.mapLen hm3, ?_⟩
      obtain ⟨ra4, ns4, more4, seg4, segm4, hc4, _⟩ := S4
      rw [hc4]
      exact hcl3
    -- jump back, patches, placeholder rewrite, pop: lengths
    have fin6 : ∀ (c4 c6 : CState) (buf' : List CI), c4.map.length = c4.buf.length → buf'.length = (emitRaw c4 (CI.jump 0)).buf.length →
        popScope { emitRaw c4 (CI.jump 0) with buf := buf' } = some c6 → c6.map.length = c6.buf.length := by
      intro c4 c6 buf' hm4 hlen hpop
      rw [popScope_map _ c6 hpop, popScope_buf _ c6 hpop]
      show (emitRaw c4 (CI.jump 0)).map.length = buf'.length
      rw [hlen]
      simp [emitRaw, hm4]
    cases hk : isConstSlot cond with
    | none =>
      simp only [hk, Bool.false_eq_true, if_false, Option.bind_eq_some_iff, Bool.not_false, Bool.true_and] at h
      obtain ⟨c3j, hem, c4, hbody, hfin⟩ := h
      obtain ⟨R3, _⟩ := emitSI_stepR c2 c3j _ cond 0 false _ (sc :: rs) (pool ++ more2) ps hs2 hp2 hem
      have hm3 := R3.mapLen hm2
      have hL3 : LkL G c3j.scopes := (R3.shp hs2 hL2).out.choose_spec.choose_spec.2.2.2.1
      obtain ⟨ra3, more3, seg3, segm3, hc3j, _⟩ := R3
      have hs3 : c3j.scopes = { upd wb ra2 ns2 with ra := ra3 } :: sc :: rs := by rw [hc3j]
      obtain ⟨hm4, hcl4⟩ := fin4 c3j c4 _ (pool ++ more2 ++ more3) hs3 (by rw [hc3j]) hwtop hwcl hm3 hL3 hbody
      rw [hcl4] at hfin
      simp only [Bool.false_eq_true, if_false] at hfin
      split at hfin
      · exact absurd hfin (by simp)
      · simp only [Option.bind_eq_bind, Option.bind_eq_some_iff, Option.pure_def, Option.some.injEq, Prod.mk.injEq] at hfin
        obtain ⟨c6, hpop, _, hc6⟩ := hfin
        rw [← hc6]
        exact fin6 c4 c6 _ hm4 (by simp [brkRewrite_length, modBuf_length]) hpop
    | some k =>
      cases htk : constTruthy k with
      | false =>
        simp only [hk, htk, Bool.not_false, if_true, Option.bind_eq_bind, Option.bind_eq_some_iff, Option.pure_def, Option.some.injEq, Prod.mk.injEq] at h
        obtain ⟨c6, hpop, _, hc6⟩ := h
        rw [← hc6, popScope_map c2 c6 hpop, popScope_buf c2 c6 hpop]
        exact hm2
      | true =>
        simp only [hk, htk, Bool.not_true, Bool.false_eq_true, if_false, if_true, Option.pure_def, Option.bind_eq_bind, Option.bind_some,
          Option.bind_eq_some_iff] at h
        obtain ⟨c4, hbody, hfin⟩ := h
        obtain ⟨hm4, hcl4⟩ := fin4 c2 c4 _ (pool ++ more2) hs2 hp2 hwtop hwcl hm2 hL2 hbody
        rw [hcl4] at hfin
        simp only [Bool.false_eq_true, if_false] at hfin
        split at hfin
        · exact absurd hfin (by simp)
        · simp only [Option.bind_eq_some_iff, Option.some.injEq, Prod.mk.injEq] at hfin
          obtain ⟨c6, hpop, _, hc6⟩ := hfin
          rw [← hc6]
          exact fin6 c4 c6 _ hm4 (by simp [brkRewrite_length, modBuf_length]) hpop

/-- map length = code length across a form of the fragment or a loop (compile-only) -/
theorem tfw_ML (G : String → Prop) (fuel : Nat) : MLAt G (TFW G true) true fuel := by
  intro _ e opts c c' slot sc rs pool ps env nb ht hh hs hp htop hT hE hc hm
  rcases hT with hT | ⟨cnd, body, pp, rfl, hok, hTc, hTb⟩
  · exact tf_ML G true true fuel rfl e opts c c' slot sc rs pool ps env nb ht hh hs hp htop hT hE hc hm
  · cases fuel with
    | zero => simp [cValue] at hc
    | succ f => exact while_ML G true f cnd body pp hTc hTb opts ht hh c c' slot sc rs pool ps hs hp hE.lkl hm hc

section
variable (p : Program) (f0 : Frame) (rest : List Frame) (V : Array Value) (P : List KConst)

/-- compile correctness for forms of the fragment and `while` loops without `break` over it (no new induction) -/
theorem tfw_correct (hP : P.length < 65536)
    (hK : ∀ i, i < P.length → (p.defs.getD f0.defIdx default).consts.getD i .nil = litOf V (P.getD i .nil))
    (FF : FloatFacts) (G : String → Prop) : ∀ fuel, CorrectAt p f0 rest V P G (TFW G true) true fuel := by
  intro fuel e opts c c' slot sc rs pool ps n cur env env' s s' v ht hh hs hp hl htop hm hT hc hsem hE
  rcases hT with hT | ⟨cnd, body, pp, rfl, hok, hTc, hTb⟩
  · exact tf_correct_b p f0 rest V P hP hK FF G true fuel e opts c c' slot sc rs pool ps n cur env env' s s' v ht hh hs hp hl htop hm hT hc hsem hE
  · cases fuel with
    | zero => simp [cValue] at hc
    | succ f =>
      rw [Bool.and_true]
      exact while_core p f0 rest V P G true true f (tf_correct_b p f0 rest V P hP hK FF G true f) cnd body pp hTc hTb hok
        (fun n cur env0 s0 v0 s1 hg => tf_evalSeq_nobrk G true n cur env0 body s0 v0 s1 hg hTb)
        opts c c' slot sc rs pool ps n cur env env' s s' v ht hh hs hp hl (hm rfl) hc hsem hE

/-- statements of a `do` / `upscope` body that are fragment forms or loops, in any order -/
theorem doBody_loops_correct (hP : P.length < 65536)
    (hK : ∀ i, i < P.length → (p.defs.getD f0.defIdx default).consts.getD i .nil = litOf V (P.getD i .nil))
    (FF : FloatFacts) (G : String → Prop) (fuel : Nat) (body : List Expr) (hT : ∀ e, e ∈ body → TFW G true e)
    (opts : Fopts) (c c' : CState) (slot : JSlot) (sc : Scope) (rs : List Scope) (pool : List KConst) (ps : List (List KConst))
    (n : Nat) (cur : Pos) (env env' : Env) (s s' : SS) (v : Value)
    (ht : opts.tail = false) (hh : opts.hint = none) (hs : c.scopes = sc :: rs) (hp : c.pools = pool :: ps) (hl : c.lim ≤ 240)
    (htop : sc.top = false) (hm : c.map.length = c.buf.length)
    (hc : doBody (cValue fuel) opts body c = some (slot, c')) (hsem : evalSeq n cur env body s = .ok (v, env') s')
    (hE : EnvS G c.scopes env s.boxes.size sc.ra) :
    Correct2 p f0 rest V P G opts.drop c c' slot sc rs pool ps env env' s s' v := by
  have h := doBody_correct p f0 rest V P G (TFW G true) true fuel (tfw_correct p f0 rest V P hP hK FF G fuel) (tfw_ML G fuel) body hT
    opts c c' slot sc rs pool ps n cur env env' s s' v ht hh hs hp hl htop (fun _ => hm) hc hsem hE
  rw [Bool.and_true] at h
  exact h

/-- a `do` block whose statements are fragment forms or loops -/
theorem do_loops_core (hP : P.length < 65536)
    (hK : ∀ i, i < P.length → (p.defs.getD f0.defIdx default).consts.getD i .nil = litOf V (P.getD i .nil))
    (FF : FloatFacts) (G : String → Prop) (fuel : Nat) (body : List Expr) (hT : ∀ e, e ∈ body → TFW G true e)
    (opts : Fopts) (c c' : CState) (slot : JSlot) (sc : Scope) (rs : List Scope) (pool : List KConst) (ps : List (List KConst))
    (n : Nat) (cur : Pos) (env envb : Env) (s s' : SS) (v : Value)
    (ht : opts.tail = false) (hh : opts.hint = none) (hs : c.scopes = sc :: rs) (hp : c.pools = pool :: ps) (hl : c.lim ≤ 240)
    (hm : c.map.length = c.buf.length)
    (hc : cDo (cValue fuel) opts body c = some (slot, c')) (hsem : evalSeq n cur env body s = .ok (v, envb) s')
    (hE : EnvS G c.scopes env s.boxes.size sc.ra) :
    Correct2 p f0 rest V P G opts.drop c c' slot sc rs pool ps env env s s' v := by
  have h := do_core p f0 rest V P G (TFW G true) true fuel (tfw_correct p f0 rest V P hP hK FF G fuel) (tfw_ML G fuel) body hT
    opts c c' slot sc rs pool ps n cur env envb s s' v ht hh hs hp hl (fun _ => hm) hc hsem hE
  rw [Bool.and_true] at h
  exact h

end

end JanetModel.Compile
