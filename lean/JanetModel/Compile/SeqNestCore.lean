/- C02: `while_core` (Compile/SeqWhileAll.lean) generalized: body statements in any predicate `T` extending `TF G b`, the
   compile-only body facts as hypotheses. -/
import JanetModel.Compile.SeqNestJump
import JanetModel.Compile.SeqWhileAll
namespace JanetModel.Compile
open JanetModel.Emit JanetModel.Lang JanetModel.Bytecode.Exec JanetModel.Gen.Bytecode

/-- the `while` body statements emit no `break` placeholder, as a hypothesis -/
def BodyNbr (G : String → Prop) (fuel : Nat) (body : List Expr) : Prop :=
  ∀ (c c' : CState) (sc : Scope) (rs : List Scope) (pool : List KConst) (ps : List (List KConst)),
    c.scopes = sc :: rs → c.pools = pool :: ps → sc.top = false → c.map.length = c.buf.length →
    LkL G c.scopes → whileBody (cValue fuel) body c = some c' → NBR c c'

section
variable (p : Program) (f0 : Frame) (rest : List Frame) (V : Array Value) (P : List KConst)

/-- one `while` loop (no `break`), condition and body statements in `TF G b` -/
theorem while_core_gen (G : String → Prop) (T : Expr → Prop) (b w : Bool) (fuel : Nat) (IH : CorrectAt p f0 rest V P G T w fuel)
    (ML : MLAt G T true fuel) (hTT : ∀ e, TF G b e → T e)
    (cnd : Expr) (body : List Expr) (pp : Pos) (hTc : TF G b cnd) (hTb : ∀ e, e ∈ body → T e) (hok : CondOK cnd)
    (HNB : BodyNbr G fuel body) (HSH : BodyShp G fuel body) (HMX : BodyMax G fuel body)
    (hnbB : ∀ n cur env0 s0 v0 s1, (∀ f, G f → lookupEnv env0 f = none) → evalSeq n cur env0 body s0 ≠ .brk v0 s1)
    (opts : Fopts) (c c' : CState) (slot : JSlot) (sc : Scope) (rs : List Scope) (pool : List KConst) (ps : List (List KConst))
    (n : Nat) (cur : Pos) (env env' : Env) (s s' : SS) (v : Value)
    (ht : opts.tail = false) (hh : opts.hint = none) (hs : c.scopes = sc :: rs) (hp : c.pools = pool :: ps) (hl : c.lim ≤ 240)
    (hm : c.map.length = c.buf.length)
    (hc : cValue (fuel + 1) opts (.form (.sym "while" :: cnd :: body) pp) c = some (slot, c'))
    (hsem : eval n cur env (.form (.sym "while" :: cnd :: body) pp) s = .ok (v, env') s')
    (hE : EnvS G c.scopes env s.boxes.size sc.ra) :
    Correct2 p f0 rest V P G opts.drop c c' slot sc rs pool ps env env' s s' v := by
  rw [cValue_while_o fuel opts ht hh cnd body pp c] at hc
  obtain ⟨q, hq⟩ := curAt_eq c pp
  cases hcc : cWhile (cValue fuel) cnd body (curAt c pp) with
  | none => rw [hcc] at hc; simp [fin] at hc
  | some res =>
    obtain ⟨slot0, cq⟩ := res
    rw [hcc] at hc
    simp only [fin, Option.some.injEq, Prod.mk.injEq] at hc
    obtain ⟨hsl, hc'⟩ := hc
    subst hsl hc'
    rw [hq] at hcc
    obtain ⟨n2, hn, hw, hv, henv⟩ := eval_while_inv n cur env env' cnd body pp s s' v hsem
    subst hv henv
    refine Correct2.recur p f0 rest V P (q := q) (Correct2.weaken p f0 rest V P _ ?_)
    simp only [cWhile, Option.bind_eq_bind, Option.bind_eq_some_iff, Prod.exists] at hcc
    obtain ⟨cond, c2, hcond, h⟩ := hcc
    cases hk : isConstSlot cond with
    | none =>
      simp only [hk, Bool.false_eq_true, if_false, Option.bind_eq_some_iff, Bool.not_false, Bool.true_and] at h
      obtain ⟨c3j, hem, c4, hbody, hfin⟩ := h
      have h0 : NoBrkFrom (pushScope ({ c with cur := q } : CState) false true false false).buf c.buf.length := noBrkFrom_length c.buf
      have h2 := tf_nobrk G b fuel cnd {} _ c2 cond c.buf.length rfl rfl hTc hcond h0
      have h3 : NoBrkFrom c3j.buf c.buf.length := emitW_nbr c2 c3j _ hem _ h2
      have h4 : NoBrkFrom c4.buf c.buf.length := by
        obtain ⟨wb, hwb⟩ : ∃ wb : Scope, wb = { whl := true, ra := { alloc := sc.ra.alloc, max := sc.ra.max }, start := c.buf.length } := ⟨_, rfl⟩
        have hc1 : pushScope ({ c with cur := q } : CState) false true false false = { ({ c with cur := q } : CState) with scopes := wb :: sc :: rs } := by
          simp [pushScope, hs, hwb]
        have hcond' := hcond
        rw [hc1] at hcond'
        have hwtop : wb.top = false := by rw [hwb]
        have hLP : LkL G (wb :: sc :: rs) := by
          have := hE.lkl
          rw [hs] at this
          exact this.push wb (by rw [hwb]) (by rw [hwb])
        obtain ⟨S2, _⟩ := tf_shapeM_at G fuel b cnd {} { ({ c with cur := q } : CState) with scopes := wb :: sc :: rs } c2 cond wb (sc :: rs) pool ps
          rfl rfl rfl hp hwtop hm hTc hLP hcond'
        have hm2 : c2.map.length = c2.buf.length := S2.mapLen hm
        obtain ⟨sc2, pool2, hs2, hp2, ht2, hL2, _⟩ := S2.out
        obtain ⟨R3, _⟩ := emitSI_stepR c2 c3j _ cond 0 false sc2 (sc :: rs) pool2 ps hs2 hp2 hem
        have hm3 := R3.mapLen hm2
        obtain ⟨sc3, pool3, hs3, hp3, ht3, hL3, _⟩ := (R3.shp hs2 hL2).out
        exact HNB c3j c4 sc3 (sc :: rs) pool3 ps hs3 hp3 (by rw [ht3, ht2]; exact hwtop) hm3 hL3 hbody _ h3
      exact while_jump_gen p f0 rest V P G T b w fuel IH ML hTT cnd body hTc hTb HSH HMX { c with cur := q } cq slot0 sc rs pool ps n2 (posOf cur pp) env' s s'
        hs hp hl hm c2 c3j c4 cond hcond hk hem hbody hfin (noBrkFrom_drop h4) hnbB hw hE
    | some k =>
      -- the loop's block scope
      obtain ⟨wb, hwb⟩ : ∃ wb : Scope, wb = { whl := true, ra := { alloc := sc.ra.alloc, max := sc.ra.max }, start := c.buf.length } := ⟨_, rfl⟩
      have hc1 : pushScope ({ c with cur := q } : CState) false true false false = { ({ c with cur := q } : CState) with scopes := wb :: sc :: rs } := by
        simp [pushScope, hs, hwb]
      rw [hc1] at hcond
      have hwsyms : wb.syms = [] := by rw [hwb]
      have hwun : wb.unused = false := by rw [hwb]
      have hwfn : wb.fn = false := by rw [hwb]
      have hwcl : wb.closure = false := by rw [hwb]
      have hwtop : wb.top = false := by rw [hwb]
      have hwal : wb.ra.alloc = sc.ra.alloc := by rw [hwb]
      have hwmax : wb.ra.max = sc.ra.max := by rw [hwb]
      have hlk1 : ∀ y, lk (wb :: sc :: rs) y = lk c.scopes y := by
        intro y; rw [hs]; exact lk_push wb (sc :: rs) hwsyms hwun hwfn y
      have hE1 : ∀ nb, s.boxes.size ≤ nb → EnvS G (wb :: sc :: rs) env' nb wb.ra :=
        fun nb hnb => hE.of_lk hlk1 hnb (fun _ _ _ _ r _ _ h => by rw [hwal]; exact h)
      have hCT : ∀ (f2 : Nat) (si s1 : SS) (cv : Value) (cenv : Env), eval f2 (posOf cur pp) env' cnd si = .ok (cv, cenv) s1 →
          truthy cv = constTruthy k := by
        intro f2 si s1 cv cenv hsc
        exact condT_of_ok G b fuel cnd hok hTc _ c2 cond k f2 (posOf cur pp) env' cenv si s1 cv (hE.lkl.of_lk hlk1)
          (fun x hx => by
            have hx' : lk (wb :: sc :: rs) x = none := hx
            rw [hlk1] at hx'
            rcases hE.2 x with ⟨_, h2⟩ | ⟨sl, r, a, u, h1, _⟩
            · exact h2
            · rw [hx'] at h1; exact absurd h1 (by simp))
          hcond hk hsc
      cases htk : constTruthy k with
      | true =>
        -- an always-truthy condition: `whileLoop` cannot end well without `break`
        exfalso
        simp only [hk, htk, Bool.not_true, Bool.false_eq_true, if_false, if_true, Option.pure_def, Option.bind_some, Option.bind_eq_some_iff] at h
        obtain ⟨c4, hbody, _⟩ := h
        have inf : ∀ (fl : Nat) (si : SS), PrefA s.boxes si.boxes → whileLoop fl (posOf cur pp) env' cnd body si ≠ .ok () s' := by
          intro fl
          induction fl with
          | zero => intro si _ hwl; simp [whileLoop] at hwl
          | succ fl ihl =>
            intro si hbx hwl
            obtain ⟨f2', cv, cenv, s1, hfe, hsc, hrest⟩ := whileLoop_inv (fl + 1) (posOf cur pp) env' cnd body si s' hwl
            have hfe' : f2' = fl := by omega
            subst hfe'
            have hcv := hCT f2' si s1 cv cenv hsc
            rw [htk] at hcv
            obtain ⟨ra3, ns3, more3, seg3, segm3, hc3, _, _, _, _, bx3, es3, _, _⟩ :=
              IH cnd {} { ({ c with cur := q } : CState) with scopes := wb :: sc :: rs } c2 cond wb (sc :: rs) pool ps f2' (posOf cur pp) env' cenv si s1 cv
                rfl rfl rfl hp hl hwtop (fun _ => hm) (hTT cnd hTc) hcond hsc (hE1 _ hbx.1)
            have hm3 : c2.map.length = c2.buf.length :=
              (tf_shapeM_at G fuel b cnd {} { ({ c with cur := q } : CState) with scopes := wb :: sc :: rs } c2 cond wb (sc :: rs) pool ps
                rfl rfl rfl hp hwtop hm hTc (hE1 _ (Nat.le_refl _)).lkl hcond).1.mapLen hm
            have hs3 : c2.scopes = upd wb ra3 ns3 :: sc :: rs := by rw [hc3]
            have hp3 : c2.pools = (pool ++ more3) :: ps := by rw [hc3]
            have hl3 : c2.lim ≤ 240 := by rw [hc3]; exact hl
            rw [hs3] at es3
            rcases hrest with ⟨htr, _⟩ | ⟨_, hgo⟩
            · rw [hcv] at htr; exact Bool.noConfusion htr
            · rcases hgo with ⟨bv, benv, s2, hsb, hwl2⟩ | ⟨bv, hbrk⟩
              · have hE3 : EnvS G c2.scopes cenv s1.boxes.size (upd wb ra3 ns3).ra := by rw [hs3]; exact es3
                obtain ⟨_, _, _, _, _, _, _, _, _, _, bx4, _, _, _⟩ :=
                  whileBody_correct p f0 rest V P G T w fuel IH ML body hTb c2 c4 (upd wb ra3 ns3) (sc :: rs) (pool ++ more3) ps
                    f2' (posOf cur pp) cenv benv s1 s2 bv hs3 hp3 hl3 hwtop hm3 hbody hsb hE3
                exact ihl s2 (PrefA.trans hbx (PrefA.trans bx3 bx4)) hwl2
              · refine hnbB _ _ _ _ _ _ (fun g hg => ?_) hbrk
                rcases es3.2 g with ⟨_, h⟩ | ⟨sl, r, a, u, h, _⟩
                · exact h
                · rw [es3.1 g hg] at h; exact absurd h (by simp)
        exact inf n2 s (PrefA.refl _) hw
      | false =>
        simp only [hk, htk, Bool.not_false, if_true, Option.bind_eq_some_iff, Option.pure_def, Option.some.injEq, Prod.mk.injEq] at h
        obtain ⟨c6, hpop, hslot, hc6⟩ := h
        subst hc6
        -- the condition is false at once
        obtain ⟨f2, cv, cenv, s1, hf, hsc, hrest⟩ := whileLoop_inv n2 (posOf cur pp) env' cnd body s s' hw
        have hcv := hCT f2 s s1 cv cenv hsc
        rw [htk] at hcv
        have hs1 : s' = s1 := by
          rcases hrest with ⟨_, h⟩ | ⟨htr, _⟩
          · exact h
          · rw [hcv] at htr; exact Bool.noConfusion htr
        subst hs1
        obtain ⟨ra3, ns3, more3, seg3, segm3, hc3, pv3, mono3, max3, sok3, bx3, es3, nf3, vm3⟩ :=
          IH cnd {} { ({ c with cur := q } : CState) with scopes := wb :: sc :: rs } c2 cond wb (sc :: rs) pool ps f2 (posOf cur pp) env' cenv s s' cv
            rfl rfl rfl hp hl hwtop (fun _ => hm) (hTT cnd hTc) hcond hsc (hE1 _ (Nat.le_refl _))
        have hs3 : c2.scopes = upd wb ra3 ns3 :: sc :: rs := by rw [hc3]
        obtain ⟨raX, hpop', hmaxX, hmonoX⟩ := popScope_block c2 _ sc rs hs3 hwfn hwun hwcl
        rw [hpop'] at hpop
        have hc6 := (Option.some.inj hpop).symm
        have hmaxX' : raX.max = (if sc.ra.max < ra3.max then ra3.max else sc.ra.max) := hmaxX
        have max3' : sc.ra.max ≤ ra3.max := by rw [← hwmax]; exact max3
        have hlk' : ∀ x, lk c6.scopes x = lk c.scopes x := by
          intro x
          rw [hc6, hs]
          have hinv : ∀ q, q ∈ (upd wb ra3 ns3).syms.map (fun q : SymPair => { q with visible := false }) → q.visible = false := by
            intro q hq
            simp only [List.mem_map] at hq
            obtain ⟨q0, _, rfl⟩ := hq
            rfl
          exact (lk_append_invisible { sc with ra := raX } rs _ hinv x).trans (lk_ra sc rs raX x)
        have hv6 : c6.vals = c2.vals := by rw [hc6]
        refine ⟨raX, (upd wb ra3 ns3).syms.map (fun q => { q with visible := false }), more3, seg3, segm3, ?_, ?_, hmonoX, ?_, ?_, bx3, ?_, ?_, ?_⟩
        · rw [hc6, hc3]
        · rw [hv6]; exact pv3
        · rw [hmaxX']; split <;> omega
        · rw [← hslot]; exact Or.inl ⟨rfl, .nil, rfl, trivial⟩
        · exact hE.of_lk hlk' bx3.1 (fun _ _ _ _ r _ _ h => hmonoX r h)
        · exact NameFrame.of_lk hlk' (by rw [← hslot]; rfl)
        · intro k0 hkw hka hD hcode hpre hV hsz
          rw [hv6] at hV
          obtain ⟨regs3, rch3, sz3, pr3, _, _⟩ := vm3 k0 hkw hka (hD.of_lk hlk1) hcode hpre hV
            (by rw [hmaxX'] at hsz; show ra3.max < _; split at hsz <;> omega)
          have pr3' : ∀ r, sc.ra.alloc r = true → regs3.getD r .nil = k0.regs.getD r .nil := by
            intro r hr; exact pr3 r (by rw [hwal]; exact hr)
          refine ⟨regs3, rch3, sz3, pr3', fun _ => by rw [← hslot]; rfl, ?_⟩
          intro x sl u l r a hx hk he
          rw [hlk'] at hx
          obtain ⟨_, _, _, r'', a'', hk', he', ha, hal, _⟩ := hE.found hx
          have e1 : r'' = r := by rw [hk'] at hk; injection hk
          have e2 : a'' = a := by rw [he] at he'; exact (Option.some.inj he').symm
          subst e1 e2
          rw [pr3' r'' hal, hD x sl u l r'' a'' hx hk he]
          exact (readBox_pref bx3 a'' ha).symm

end

end JanetModel.Compile
