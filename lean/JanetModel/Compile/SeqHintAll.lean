/- C02: compiles with a hint slot, the induction: call (target = hint), `do` / `upscope` (the hint goes to the last statement),
   `def`, literal, symbol; the `if` case is a parameter (`HintIfCase`).  `tf_hint_gen`, and `tf_hint_correct` for the if-free
   fragment.  Statement `HintAtM` = `HintAt` + `rh ≤ sc.ra.max` (see Compile/SeqHint.lean). -/
import JanetModel.Compile.SeqHintCall
namespace JanetModel.Compile
open JanetModel.Emit JanetModel.Lang JanetModel.Bytecode.Exec JanetModel.Gen.Bytecode

section
variable (p : Program) (f0 : Frame) (rest : List Frame) (V : Array Value) (P : List KConst)

/-- a statement (value dropped, slot freed), then a hinted form -/
theorem HintOK_seq (G : String → Prop) (dr1 : Bool) (c c1 c1f c' : CState) (sl1 : JSlot) (rh : Nat) (sc : Scope) (rs : List Scope) (pool : List KConst)
    (ps : List (List KConst)) (env env1 env' : Env) (s s1 s' : SS) (v1 v : Value)
    (hal : sc.ra.alloc rh = true) (hrm : rh ≤ sc.ra.max) (hm : c.map.length = c.buf.length) (hm1 : c1.map.length = c1.buf.length)
    (h1 : Correct2 p f0 rest V P G dr1 c c1 sl1 sc rs pool ps env env1 s s1 v1)
    (hf : freeslot c1 sl1 = some c1f)
    (h2 : ∀ sc1 pool1, c1f.scopes = sc1 :: rs → c1f.pools = pool1 :: ps → sc1.top = sc.top → c1f.lim = c.lim →
          sc1.ra.alloc rh = true → rh ≤ sc1.ra.max → c1f.map.length = c1f.buf.length →
          EnvS G c1f.scopes env1 s1.boxes.size sc1.ra → HintOK p f0 rest V P G c1f c' rh sc1 rs pool1 ps env1 env' s1 s' v) :
    HintOK p f0 rest V P G c c' rh sc rs pool ps env env' s s' v := by
  obtain ⟨ra1, ns1, more1, seg1, segm1, hc1, pv1, mono1, max1, sok1, bx1, es1, nf1, vm1⟩ := h1
  have hs1 : c1.scopes = { sc with ra := ra1, syms := sc.syms ++ ns1 } :: rs := by rw [hc1]
  have hlen1 : segm1.length = seg1.length := by
    have hb : c1.buf = c.buf ++ seg1 := by rw [hc1]
    have hmm : c1.map = c.map ++ segm1 := by rw [hc1]
    rw [hb, hmm] at hm1
    simp only [List.length_append] at hm1
    omega
  obtain ⟨raf, hcf, hmaxf, hkeep⟩ := freeslot_ok c1 c1f sl1 sc { sc with ra := ra1, syms := sc.syms ++ ns1 } rs hs1 sok1 hf
  have hsf : c1f.scopes = { sc with ra := raf, syms := sc.syms ++ ns1 } :: rs := by rw [hcf]
  have hpf : c1f.pools = (pool ++ more1) :: ps := by rw [hcf, hc1]
  have hlkf : ∀ x, lk c1f.scopes x = lk c1.scopes x := by intro x; rw [hsf, hs1]; rfl
  have esf : EnvS G c1f.scopes env1 s1.boxes.size raf :=
    es1.of_lk hlkf (Nat.le_refl _) (fun x slot u l r hx hk hr => hkeep r hr (Or.inr ⟨x, slot, u, l, hx, hk⟩))
  have hmaxf' : raf.max = ra1.max := hmaxf
  have keep0 : ∀ r, sc.ra.alloc r = true → raf.alloc r = true := fun r hr => hkeep r (mono1 r hr) (Or.inl hr)
  have hmf : c1f.map.length = c1f.buf.length := by rw [hcf]; exact hm1
  obtain ⟨ra', ns2, more2, seg2, segm2, hc', pv2, mono2, max2, bx2, es2, hlen2, vm2⟩ :=
    h2 _ _ hsf hpf rfl (by rw [hcf, hc1]) (keep0 rh hal) (by show rh ≤ raf.max; omega) hmf esf
  have hvf : c1f.vals = c1.vals := by rw [hcf]
  have max2' : raf.max ≤ ra'.max := max2
  have mono2' : ∀ r, raf.alloc r = true → ra'.alloc r = true := mono2
  refine ⟨ra', ns1 ++ ns2, more1 ++ more2, seg1 ++ seg2, segm1 ++ segm2, ?_, ?_, fun r hr => mono2' r (keep0 r hr), by omega,
    PrefA.trans bx1 bx2, es2, by simp [hlen1, hlen2], ?_⟩
  · rw [hc', hcf, hc1]
    simp [List.append_assoc]
  · rw [hvf] at pv2; exact PrefA.trans pv1 pv2
  · intro k hkw hka hD hcode hpre hV hsz
    have hV1 : PrefA c1.vals V := by rw [← hvf]; exact PrefA.trans pv2 hV
    obtain ⟨regs1, rch1, sz1, pr1, sv1, ed1⟩ :=
      vm1 k hkw hka hD hcode.left (PrefL.trans ⟨more2, by simp [List.append_assoc]⟩ hpre) hV1 (by omega)
    obtain ⟨regs2, rch2, sz2, pr2, hv2, ed2⟩ :=
      vm2 { regs := regs1, pc := k.pc + seg1.length, args := #[], w := s1.st.world } rfl rfl (ed1.of_lk hlkf) hcode.right
        (by rw [List.append_assoc]; exact hpre) hV (by show ra'.max < regs1.size; omega)
    have sz2' : regs2.size = regs1.size := sz2
    refine ⟨regs2, ?_, by omega, ?_, hv2, ed2⟩
    · have e : k.pc + (seg1 ++ seg2).length = k.pc + seg1.length + seg2.length := by
        simp [List.length_append]; omega
      rw [e]
      exact Reach.trans rch1 rch2
    · intro r hr hne
      rw [pr2 r (keep0 r hr) hne, pr1 r hr]

/-- body of `do` / `upscope` with a hint: the hint goes to the last statement -/
theorem doBody_hint (G : String → Prop) (b w : Bool) (fuel : Nat) (CN : CorrectAt p f0 rest V P G (TF G b) w fuel)
    (IHh : HintAtM p f0 rest V P G (TF G b) fuel) : ∀ (body : List Expr), (∀ e, e ∈ body → TF G b e) → body ≠ [] →
    ∀ (opts : Fopts) (c c' : CState) (slot : JSlot) (sc : Scope) (rs : List Scope) (pool : List KConst) (ps : List (List KConst))
      (n : Nat) (cur : Pos) (env env' : Env) (s s' : SS) (v : Value) (h : JSlot) (rh : Nat),
      opts.tail = false → opts.drop = false → opts.hint = some h → h.k = .loc rh → h.cflag = false → rh < 240 → sc.ra.alloc rh = true → rh ≤ sc.ra.max →
      c.scopes = sc :: rs → c.pools = pool :: ps → c.lim ≤ 240 → sc.top = false → c.map.length = c.buf.length →
      doBody (cValue fuel) opts body c = some (slot, c') → evalSeq n cur env body s = .ok (v, env') s' → EnvS G c.scopes env s.boxes.size sc.ra →
      slot = h ∧ HintOK p f0 rest V P G c c' rh sc rs pool ps env env' s s' v := by
  intro body
  induction body with
  | nil => intro _ hne; exact absurd rfl hne
  | cons x t ih =>
    intro hT _ opts c c' slot sc rs pool ps n cur env env' s s' v h rh ht hd hh hk hcf hr hal hrm hs hp hl htop hm hc hsem hE
    cases t with
    | nil =>
      simp only [doBody] at hc
      obtain ⟨n2, hn, he⟩ := evalSeq_one_inv n cur env env' x s s' v hsem
      exact IHh x opts c c' slot sc rs pool ps n2 cur env env' s s' v h rh ht hd hh hk hcf hr hal hrm hs hp hl htop hm (hT x (by simp)) hc he hE
    | cons y r =>
      simp only [doBody, Option.bind_eq_bind, Option.bind_eq_some_iff, Prod.exists] at hc
      obtain ⟨sl1, c1, hx, c1f, hf, hrest⟩ := hc
      obtain ⟨n2, v1, env1, s1, hn, he1, he2⟩ := evalSeq_cons_inv n cur env env' x y r s s' v hsem
      have H1 := CN x { drop := true } c c1 sl1 sc rs pool ps n2 cur env env1 s s1 v1 rfl rfl hs hp hl htop (fun _ => hm) (hT x (by simp)) hx he1 hE
      have hm1 : c1.map.length = c1.buf.length :=
        (tf_shapeM_at G fuel b x { drop := true } c c1 sl1 sc rs pool ps rfl rfl hs hp htop hm (hT x (by simp)) hE.lkl hx).1.mapLen hm
      -- the slot of the rest does not depend on how the scopes are presented
      have hslot : slot = h := by
        obtain ⟨ra1, ns1, more1, seg1, segm1, hc1, _, mono1, max1, sok1, _, es1, _, _⟩ := H1
        have hs1 : c1.scopes = { sc with ra := ra1, syms := sc.syms ++ ns1 } :: rs := by rw [hc1]
        obtain ⟨raf, hcf', hmaxf, hkeep⟩ := freeslot_ok c1 c1f sl1 sc { sc with ra := ra1, syms := sc.syms ++ ns1 } rs hs1 sok1 hf
        have hsf : c1f.scopes = { sc with ra := raf, syms := sc.syms ++ ns1 } :: rs := by rw [hcf']
        have hlkf : ∀ z, lk c1f.scopes z = lk c1.scopes z := by intro z; rw [hsf, hs1]; rfl
        have esf : EnvS G c1f.scopes env1 s1.boxes.size raf :=
          es1.of_lk hlkf (Nat.le_refl _) (fun z slot u l r hx' hk' hr' => hkeep r hr' (Or.inr ⟨z, slot, u, l, hx', hk'⟩))
        have hmaxf' : raf.max = ra1.max := hmaxf
        exact (ih (fun e he => hT e (by simp [he])) (by simp) opts c1f c' slot _ rs _ ps n2 cur env1 env' s1 s' v h rh ht hd hh hk hcf hr
          (hkeep rh (mono1 rh hal) (Or.inl hal)) (by show rh ≤ raf.max; omega) hsf (by rw [hcf', hc1]) (by rw [hcf', hc1]; exact hl) htop
          (by rw [hcf']; exact hm1) hrest he2 esf).1
      refine ⟨hslot, HintOK_seq p f0 rest V P G _ c c1 c1f c' sl1 rh sc rs pool ps env env1 env' s s1 s' v1 v hal hrm hm hm1 H1 hf ?_⟩
      intro sc1 pool1 hs1 hp1 htop1 hl1 hal1 hrm1 hmf hE1
      exact (ih (fun e he => hT e (by simp [he])) (by simp) opts c1f c' slot sc1 rs pool1 ps n2 cur env1 env' s1 s' v h rh ht hd hh hk hcf hr hal1 hrm1
        hs1 hp1 (by rw [hl1]; exact hl) (by rw [htop1]; exact htop) hmf hrest he2 hE1).2

/-- block scope around a hinted body: `janetc_scope` … `janetc_popscope_keepslot` -/
theorem HintOK_block (G : String → Prop) (c c2 c3 : CState) (r : JSlot) (rh : Nat) (sc : Scope) (rs : List Scope) (pool : List KConst)
    (ps : List (List KConst)) (env envb : Env) (s s' : SS) (v : Value) (hs : c.scopes = sc :: rs)
    (hE : EnvS G c.scopes env s.boxes.size sc.ra)
    (H : HintOK p f0 rest V P G { c with scopes := blk c sc false :: sc :: rs } c2 rh (blk c sc false) (sc :: rs) pool ps env envb s s' v)
    (hpop : popScopeKeep c2 r = some c3) : HintOK p f0 rest V P G c c3 rh sc rs pool ps env env s s' v := by
  have hlk1 : ∀ x, lk (blk c sc false :: sc :: rs) x = lk c.scopes x := by
    intro x; rw [hs]; exact lk_push _ _ rfl rfl rfl x
  obtain ⟨ra2, ns2, more2, seg2, segm2, hc2, pv2, mono2, max2, bx2, es2, hlen2, vm2⟩ := H
  have hs2 : c2.scopes = { blk c sc false with ra := ra2, syms := (blk c sc false).syms ++ ns2 } :: sc :: rs := by rw [hc2]
  obtain ⟨raX, hc3, hmaxX, hmonoX, _⟩ := popScopeKeep_block c2 c3 r _ sc rs hs2 rfl rfl rfl hpop
  have hs3 : c3.scopes = { sc with ra := raX, syms := sc.syms ++ ((blk c sc false).syms ++ ns2).map (fun q => { q with visible := false }) } :: rs := by
    rw [hc3]
  have hinv : ∀ q, q ∈ ((blk c sc false).syms ++ ns2).map (fun q : SymPair => { q with visible := false }) → q.visible = false := by
    intro q hq
    simp only [List.mem_map] at hq
    obtain ⟨q0, _, rfl⟩ := hq
    rfl
  have hlk3 : ∀ x, lk c3.scopes x = lk c.scopes x := by
    intro x
    rw [hs3, hs]
    exact (lk_append_invisible { sc with ra := raX } rs _ hinv x).trans (lk_ra sc rs raX x)
  have max2' : sc.ra.max ≤ ra2.max := max2
  have hmaxX' : raX.max = (if sc.ra.max < ra2.max then ra2.max else sc.ra.max) := hmaxX
  refine ⟨raX, ((blk c sc false).syms ++ ns2).map (fun q => { q with visible := false }), more2, seg2, segm2, ?_, ?_, hmonoX, ?_, bx2, ?_, hlen2, ?_⟩
  · rw [hc3, hc2]
  · rw [hc3]; exact pv2
  · rw [hmaxX']; split <;> omega
  · exact hE.of_lk hlk3 bx2.1 (fun _ _ _ _ r' _ _ h' => hmonoX r' h')
  · intro k hkw hka hD hcode hpre hV hsz
    have hv3 : c3.vals = c2.vals := by rw [hc3]
    rw [hv3] at hV
    obtain ⟨regs2, rch2, sz2, pr2, hv2, _⟩ :=
      vm2 k hkw hka (hD.of_lk hlk1) hcode hpre hV (by rw [hmaxX'] at hsz; split at hsz <;> omega)
    refine ⟨regs2, rch2, sz2, pr2, hv2, ?_⟩
    intro x sl u l r' a hx hk hne he
    rw [hlk3] at hx
    obtain ⟨_, _, _, r'', a'', hk', he', ha, hal', _⟩ := hE.found hx
    have e1 : r'' = r' := by rw [hk'] at hk; injection hk
    have e2 : a'' = a := by rw [he] at he'; exact (Option.some.inj he').symm
    subst e1 e2
    rw [pr2 r'' hal' hne, hD x sl u l r'' a'' hx hk he]
    exact (readBox_pref bx2 a'' ha).symm

/-- what the `if` case has to deliver -/
def HintIfCase (G : String → Prop) (b : Bool) (fuel : Nat) : Prop :=
  ∀ (cnd tb : Expr) (els : List Expr) (pp : Pos), CondOK cnd → els.length ≤ 1 → TF G b cnd → TF G b tb → (∀ e, e ∈ els → TF G b e) →
  ∀ (opts : Fopts) (c c' : CState) (slot : JSlot) (sc : Scope) (rs : List Scope) (pool : List KConst) (ps : List (List KConst))
    (n : Nat) (cur : Pos) (env env' : Env) (s s' : SS) (v : Value) (h : JSlot) (rh : Nat),
    opts.tail = false → opts.drop = false → opts.hint = some h → h.k = .loc rh → h.cflag = false → rh < 240 → sc.ra.alloc rh = true → rh ≤ sc.ra.max →
    c.scopes = sc :: rs → c.pools = pool :: ps → c.lim ≤ 240 → sc.top = false → c.map.length = c.buf.length →
    cValue (fuel + 1) opts (.form (.sym "if" :: cnd :: tb :: els) pp) c = some (slot, c') →
    eval n cur env (.form (.sym "if" :: cnd :: tb :: els) pp) s = .ok (v, env') s' → EnvS G c.scopes env s.boxes.size sc.ra →
    slot = h ∧ HintOK p f0 rest V P G c c' rh sc rs pool ps env env' s s' v

/-- the end of a hinted compile whose inner form already delivered the hint: the final copy is a no-op -/
theorem finH_same (G : String → Prop) (q : Pos) (h slot0 slot : JSlot) (rh : Nat) (c cq c' : CState) (sc : Scope) (rs : List Scope) (pool : List KConst)
    (ps : List (List KConst)) (env env' : Env) (s s' : SS) (v : Value)
    (hk : h.k = .loc rh) (hcf : h.cflag = false) (hr : rh < 240) (hsl : slot0 = h)
    (H : HintOK p f0 rest V P G { c with cur := q } cq rh sc rs pool ps env env' s s' v)
    (hc : finH c.cur h (some (slot0, cq)) = some (slot, c')) :
    slot = h ∧ HintOK p f0 rest V P G c c' rh sc rs pool ps env env' s s' v := by
  obtain ⟨hs', c2, hcp, hc'⟩ := finH_inv _ _ _ _ _ _ hc
  refine ⟨hs', ?_⟩
  rw [hsl] at hcp
  have H2 := H
  obtain ⟨ra', ns, more, seg, segm, hcq, _⟩ := H2
  have e := copySlot_same cq c2 h rh hk hcf hr _ rs (pool ++ more) ps (by rw [hcq]) (by rw [hcq]) hcp
  rw [hc', e]
  exact HintOK.recur H

theorem tf_hint_gen (hP : P.length < 65536)
    (hK : ∀ i, i < P.length → (p.defs.getD f0.defIdx default).consts.getD i .nil = litOf V (P.getD i .nil))
    (FF : FloatFacts) (G : String → Prop) (b w : Bool) (CN : ∀ fuel, CorrectAt p f0 rest V P G (TF G b) w fuel)
    (IFH : b = true → ∀ fuel, HintAtM p f0 rest V P G (TF G b) fuel → HintIfCase p f0 rest V P G b fuel) :
    ∀ fuel, HintAtM p f0 rest V P G (TF G b) fuel := by
  intro fuel
  induction fuel with
  | zero =>
    intro e opts c c' slot sc rs pool ps n cur env env' s s' v h rh _ _ _ _ _ _ _ _ _ _ _ _ _ _ hc
    simp [cValue] at hc
  | succ fuel ih =>
    intro e opts c c' slot sc rs pool ps n cur env env' s s' v h rh ht hd hh hk hcf hr hal hrm hs hp hl htop hm hT hc hsem hE
    cases hT with
    | lit w' hw =>
      exact hint_lit p f0 rest V P hP hK FF G fuel w' hw opts c c' slot h rh sc rs pool ps n cur env env' s s' v ht hh hk hcf hr hal hrm hs hp hm hc hsem hE
    | sym x =>
      exact hint_sym p f0 rest V P hP hK FF G fuel x opts c c' slot h rh sc rs pool ps n cur env env' s s' v ht hh hk hcf hr hal hrm hs hp hm hc hsem hE
    | deff x ve pp hGx hTv =>
      exact hint_def p f0 rest V P hP hK G b w fuel (CN fuel) x ve pp hGx hTv opts c c' slot h rh sc rs pool ps n cur env env' s s' v
        ht hh hk hcf hr hal hrm hs hp hl htop hm hc hsem hE
    | call f args pp hf hna hG hTa =>
      rw [cValue_call_h fuel opts ht h hh f args pp c hf] at hc
      obtain ⟨q, hq⟩ := curAt_eq c pp
      cases hcc : cCall (cValue fuel) opts (.sym f) args (curAt c pp) with
      | none => rw [hcc] at hc; simp [finH] at hc
      | some res =>
        obtain ⟨slot0, cq⟩ := res
        rw [hcc] at hc
        rw [hq] at hcc
        have hgl : lookupEnv env f = none := by
          rcases hE.2 f with ⟨_, h'⟩ | ⟨sl, r, a', u, h', _⟩
          · exact h'
          · rw [hE.1 f hG] at h'; exact absurd h' (by simp)
        obtain ⟨n2, vs, s_a, hn, hsa, happ⟩ := eval_callN_inv n cur env env' f args pp s s' v hf hgl hsem
        obtain ⟨hsl, H⟩ := hint_call_core p f0 rest V P hP hK FF G b w fuel (CN fuel) opts ht h rh hh sc hk hr hal hrm f args hna hG hTa
          { c with cur := q } cq slot0 rs pool ps n2 (posOf cur pp) env env' s s_a s' vs v hs hp hl htop hm hcc hsa happ hE
        exact finH_same p f0 rest V P G q h slot0 slot rh c cq c' sc rs pool ps env env' s s' v hk hcf hr hsl H hc
    | ups body pp hTb =>
      rw [cValue_upscope_h fuel opts ht h hh body pp c] at hc
      obtain ⟨q, hq⟩ := curAt_eq c pp
      cases hcc : doBody (cValue fuel) opts body (curAt c pp) with
      | none => rw [hcc] at hc; simp [finH] at hc
      | some res =>
        obtain ⟨slot0, cq⟩ := res
        rw [hcc] at hc
        rw [hq] at hcc
        cases n with
        | zero => simp [eval] at hsem
        | succ n2 =>
          rw [eval_upscope] at hsem
          cases body with
          | nil =>
            simp only [doBody, Option.some.injEq, Prod.mk.injEq] at hcc
            obtain ⟨e1, e2⟩ := hcc
            obtain ⟨hv, henv, hss⟩ := evalSeq_nil_inv n2 (posOf cur pp) env env' s s' v hsem
            subst e1 e2 hv henv hss
            obtain ⟨hs', c2, hcp, hc'⟩ := finH_inv _ _ _ _ _ _ hc
            refine ⟨hs', ?_⟩
            rw [hc']
            exact HintOK.recur (HintOK.of_copy p f0 rest V P hP hK G { c with cur := q } { c with cur := q } c2 (cslot .nil) h rh sc rs pool ps
              env' env' s' s' .nil hk hcf hr hal hm hm (atom_nil2 p f0 rest V P G { c with cur := q } sc rs pool ps hs hp env' s' hE) hcp hrm)
          | cons x t =>
            obtain ⟨hsl, H⟩ := doBody_hint p f0 rest V P G b w fuel (CN fuel) ih (x :: t) hTb (by simp) opts { c with cur := q } cq slot0 sc rs pool ps
              n2 (posOf cur pp) env env' s s' v h rh ht hd hh hk hcf hr hal hrm hs hp hl htop hm hcc hsem hE
            exact finH_same p f0 rest V P G q h slot0 slot rh c cq c' sc rs pool ps env env' s s' v hk hcf hr hsl H hc
    | doo body pp hTb =>
      rw [cValue_do_h fuel opts ht h hh body pp c] at hc
      obtain ⟨q, hq⟩ := curAt_eq c pp
      cases hcc : cDo (cValue fuel) opts body (curAt c pp) with
      | none => rw [hcc] at hc; simp [finH] at hc
      | some res =>
        obtain ⟨slot0, cq⟩ := res
        rw [hcc] at hc
        rw [hq] at hcc
        obtain ⟨n2, envb, hn, hseq, henv⟩ := eval_do_inv n cur env env' body pp s s' v hsem
        subst henv
        cases body with
        | nil =>
          have hcc' : cDo (cValue fuel) {} [] { c with cur := q } = some (slot0, cq) := hcc
          have H := do_core p f0 rest V P G (TF G b) w fuel (CN fuel) (tf_ML G b w fuel) [] hTb {} { c with cur := q } cq slot0 sc rs pool ps
            n2 (posOf cur pp) env' envb s s' v rfl rfl hs hp hl (fun _ => hm) hcc' hseq hE
          have hmq : cq.map.length = cq.buf.length :=
            (do_shapeM G fuel (tf_shapeM_at G fuel) b [] hTb {} rfl rfl { c with cur := q } cq slot0 sc rs pool ps hs hp hm hE.lkl hcc').1.mapLen hm
          obtain ⟨hs', c2, hcp, hc'⟩ := finH_inv _ _ _ _ _ _ hc
          refine ⟨hs', ?_⟩
          rw [hc']
          exact HintOK.recur (HintOK.of_copy p f0 rest V P hP hK G { c with cur := q } cq c2 slot0 h rh sc rs pool ps env' env' s s' v
            hk hcf hr hal hm hmq H hcp hrm)
        | cons x t =>
          simp only [cDo, Option.bind_eq_bind, Option.bind_eq_some_iff, Prod.exists, Option.pure_def, Option.some.injEq, Prod.mk.injEq] at hcc
          obtain ⟨r, c2, hbody, c3, hpop, hslot0, hc3⟩ := hcc
          rw [pushScope_blk { c with cur := q } sc rs false hs] at hbody
          have hlk1 : ∀ y, lk (blk { c with cur := q } sc false :: sc :: rs) y = lk c.scopes y := by
            intro y; rw [hs]; exact lk_push _ _ rfl rfl rfl y
          have hE1 : EnvS G (blk { c with cur := q } sc false :: sc :: rs) env' s.boxes.size (blk { c with cur := q } sc false).ra :=
            hE.of_lk hlk1 (Nat.le_refl _) (fun _ _ _ _ _ _ _ h' => h')
          obtain ⟨hsl, H⟩ := doBody_hint p f0 rest V P G b w fuel (CN fuel) ih (x :: t) hTb (by simp) opts
            { ({ c with cur := q } : CState) with scopes := (blk { c with cur := q } sc false :: sc :: rs) } c2 r (blk { c with cur := q } sc false)
            (sc :: rs) pool ps n2 (posOf cur pp) env' envb s s' v h rh ht hd hh hk hcf hr hal hrm rfl hp hl rfl hm hbody hseq hE1
          have HB := HintOK_block p f0 rest V P G { c with cur := q } c2 c3 r rh sc rs pool ps env' envb s s' v hs hE H hpop
          rw [← hc3, ← hslot0] at hc
          exact finH_same p f0 rest V P G q h r slot rh c c3 c' sc rs pool ps env' env' s s' v hk hcf hr hsl HB hc
    | iff cnd tb els pp hb hok hlen hTc hTt hTe =>
      exact IFH hb fuel ih cnd tb els pp hok hlen hTc hTt hTe opts c c' slot sc rs pool ps n cur env env' s s' v h rh
        ht hd hh hk hcf hr hal hrm hs hp hl htop hm hc hsem hE

/-- the if-free fragment with a hint, unconditionally (`(set x e)` for `e` in `TF G false`) -/
theorem tf_hint_correct (hP : P.length < 65536)
    (hK : ∀ i, i < P.length → (p.defs.getD f0.defIdx default).consts.getD i .nil = litOf V (P.getD i .nil))
    (FF : FloatFacts) (G : String → Prop) (w : Bool) (CN : ∀ fuel, CorrectAt p f0 rest V P G (TF G false) w fuel) :
    ∀ fuel, HintAtM p f0 rest V P G (TF G false) fuel :=
  tf_hint_gen p f0 rest V P hP hK FF G false w CN (fun h => absurd h (by simp))

end

end JanetModel.Compile
