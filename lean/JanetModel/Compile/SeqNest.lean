/- C02: NESTED `while` loops without `break`: an outer loop `(while cnd body...)` with `CondOK cnd`, `TF G true cnd` and every body
   statement in `TFW G true` (a form of the fragment OR an inner `while` loop without `break` over the fragment):
   `while_nested_core` (the generalized `while_core_gen` of Compile/SeqNestCore.lean instantiated by `tfw_correct` / `tfw_ML` and the
   compile-only body facts of Compile/SeqNestForm.lean), and `tfw2_correct` / `tfw2_ML` for the predicate `TFW2`. -/
import JanetModel.Compile.SeqNestForm
namespace JanetModel.Compile
open JanetModel.Emit JanetModel.Lang JanetModel.Bytecode.Exec JanetModel.Gen.Bytecode

/-! ### per-statement compile-only facts, lifted to `while` bodies -/

/-- the compile-only facts (shape, `max` monotonicity, no `break` placeholder) of one statement of `T` at compile fuel `fuel` -/
def StmtFacts (G : String → Prop) (T : Expr → Prop) (fuel : Nat) : Prop :=
  ∀ (e : Expr) (opts : Fopts) (c c' : CState) (slot : JSlot) (sc : Scope) (rs : List Scope) (pool : List KConst) (ps : List (List KConst)),
    opts.tail = false → opts.hint = none → c.scopes = sc :: rs → c.pools = pool :: ps → sc.top = false → c.map.length = c.buf.length →
    T e → LkL G c.scopes → cValue fuel opts e c = some (slot, c') → (Shp G c c' sc rs pool ps ∧ SlotSh slot) ∧ MaxR c c' rs ∧ NBR c c'

theorem tf_stmtFacts (G : String → Prop) (b : Bool) (fuel : Nat) : StmtFacts G (TF G b) fuel := by
  intro e opts c c' slot sc rs pool ps ht hh hs hp htop hm hT hL hc
  exact ⟨tf_shapeM_at G fuel b e opts c c' slot sc rs pool ps ht hh hs hp htop hm hT hL hc,
    tf_maxM_at G fuel b e opts c c' slot sc rs pool ps ht hh hs hp htop hm hT hL hc,
    tf_nobrk_at G fuel b e opts c c' slot ht hh hT hc⟩

/-- the body statements of `janetc_while` (every one dropped and freed), compile side only -/
theorem whileBody_facts (G : String → Prop) (T : Expr → Prop) (fuel : Nat) (F : StmtFacts G T fuel) : ∀ (body : List Expr), (∀ e, e ∈ body → T e) →
    ∀ (c c' : CState) (sc : Scope) (rs : List Scope) (pool : List KConst) (ps : List (List KConst)),
      c.scopes = sc :: rs → c.pools = pool :: ps → sc.top = false → c.map.length = c.buf.length → LkL G c.scopes →
      whileBody (cValue fuel) body c = some c' → Shp G c c' sc rs pool ps ∧ MaxR c c' rs ∧ NBR c c' := by
  intro body
  induction body with
  | nil =>
    intro _ c c' sc rs pool ps hs hp _ _ hL h
    simp only [whileBody, Option.some.injEq] at h
    rw [← h]
    exact ⟨Shp.refl hs hp hL, MaxR.refl c rs, NBR.refl c⟩
  | cons x t ih =>
    intro hT c c' sc rs pool ps hs hp htop hm hL h
    simp only [whileBody, Option.bind_eq_bind, Option.bind_eq_some_iff, Prod.exists] at h
    obtain ⟨sl1, c1, hx, c1f, hf, hrest⟩ := h
    obtain ⟨⟨S1, _⟩, M1, N1⟩ := F x { drop := true } c c1 sl1 sc rs pool ps rfl rfl hs hp htop hm (hT x (by simp)) hL hx
    obtain ⟨sc1, pool1, hs1, hp1, ht1, hL1, _⟩ := S1.out
    have R2 := freeslot_stepR c1 c1f sl1 sc1 rs pool1 ps hs1 hp1 hf
    have S2 : Shp G c1 c1f sc1 rs pool1 ps := R2.shp hs1 hL1
    obtain ⟨sc2, pool2, hs2, hp2, ht2, hL2, _⟩ := S2.out
    obtain ⟨S3, M3, N3⟩ := ih (fun e he => hT e (by simp [he])) c1f c' sc2 rs pool2 ps hs2 hp2
      (by rw [ht2, ht1]; exact htop) (R2.mapLen (S1.mapLen hm)) hL2 hrest
    exact ⟨S1.trans' hs1 hp1 (S2.trans' hs2 hp2 S3),
      M1.trans hs1 ((freeslot_maxR c1 c1f sl1 sc1 rs hs1 hf).trans hs2 M3),
      N1.trans ((NBR.of_eq (freeslot_buf c1 c1f sl1 hf)).trans N3)⟩

theorem bodyShp_of {G : String → Prop} {T : Expr → Prop} {fuel : Nat} (F : StmtFacts G T fuel) {body : List Expr} (hT : ∀ e, e ∈ body → T e) :
    BodyShp G fuel body :=
  fun c c' sc rs pool ps hs hp htop hm hL h => (whileBody_facts G T fuel F body hT c c' sc rs pool ps hs hp htop hm hL h).1

theorem bodyMax_of {G : String → Prop} {T : Expr → Prop} {fuel : Nat} (F : StmtFacts G T fuel) {body : List Expr} (hT : ∀ e, e ∈ body → T e) :
    BodyMax G fuel body :=
  fun c c' sc sc' rs pool ps hs hp htop hm hL h hs' => (whileBody_facts G T fuel F body hT c c' sc rs pool ps hs hp htop hm hL h).2.1 sc sc' hs hs'

theorem bodyNbr_of {G : String → Prop} {T : Expr → Prop} {fuel : Nat} (F : StmtFacts G T fuel) {body : List Expr} (hT : ∀ e, e ∈ body → T e) :
    BodyNbr G fuel body :=
  fun c c' sc rs pool ps hs hp htop hm hL h => (whileBody_facts G T fuel F body hT c c' sc rs pool ps hs hp htop hm hL h).2.2

/-- a loop form whose body statements have the facts at the fuel below has them -/
theorem loop_stmtFacts (G : String → Prop) (T : Expr → Prop) (F : ∀ fuel, StmtFacts G T fuel) (fuel : Nat)
    (cnd : Expr) (body : List Expr) (pp : Pos) (hTc : TF G true cnd) (hTb : ∀ e, e ∈ body → T e)
    (opts : Fopts) (c c' : CState) (slot : JSlot) (sc : Scope) (rs : List Scope) (pool : List KConst) (ps : List (List KConst))
    (ht : opts.tail = false) (hh : opts.hint = none) (hs : c.scopes = sc :: rs) (hp : c.pools = pool :: ps)
    (hm : c.map.length = c.buf.length) (hL : LkL G c.scopes)
    (hc : cValue fuel opts (.form (.sym "while" :: cnd :: body) pp) c = some (slot, c')) :
    (Shp G c c' sc rs pool ps ∧ SlotSh slot) ∧ MaxR c c' rs ∧ NBR c c' := by
  cases fuel with
  | zero => simp [cValue] at hc
  | succ f =>
    exact while_form_facts G true f cnd body pp hTc (bodyNbr_of (F f) hTb) (bodyShp_of (F f) hTb) opts ht hh c c' slot sc rs pool ps hs hp hL hm hc

theorem tfw_stmtFacts (G : String → Prop) (fuel : Nat) : StmtFacts G (TFW G true) fuel := by
  intro e opts c c' slot sc rs pool ps ht hh hs hp htop hm hT hL hc
  rcases hT with hT | ⟨cnd, body, pp, rfl, _, hTc, hTb⟩
  · exact tf_stmtFacts G true fuel e opts c c' slot sc rs pool ps ht hh hs hp htop hm hT hL hc
  · exact loop_stmtFacts G (TF G true) (tf_stmtFacts G true) fuel cnd body pp hTc hTb opts c c' slot sc rs pool ps ht hh hs hp hm hL hc

/-! ### semantics: a loop form never has the outcome `.brk` -/

theorem whileLoop_nobrk (G : String → Prop) (cnd : Expr) (body : List Expr)
    (hcn : ∀ n cur env s v s', GFree G env → eval n cur env cnd s ≠ .brk v s') :
    ∀ (f : Nat) (cur : Pos) (env : Env) (s : SS) (v : Value) (s' : SS), GFree G env → whileLoop f cur env cnd body s ≠ .brk v s' := by
  intro f
  induction f with
  | zero => intro cur env s v s' _; simp [whileLoop]
  | succ f ih =>
    intro cur env s v s' hg
    simp only [whileLoop]
    cases he : eval f cur env cnd s with
    | ok r s1 =>
      obtain ⟨cv, cenv⟩ := r
      simp only
      split
      · cases hb : evalSeq f cur cenv body s1 with
        | ok r2 s2 => exact ih cur env s2 v s' hg
        | brk _ _ => simp
        | err _ _ _ => simp
        | stop _ => simp
      · simp
    | brk v1 s1 => exact absurd he (hcn f cur env s v1 s1 hg)
    | err _ _ _ => simp
    | stop _ => simp

theorem tfw_eval_nbg (G : String → Prop) (n : Nat) (cur : Pos) (env : Env) (e : Expr) (s : SS) (hg : GFree G env) (hT : TFW G true e) :
    NBG G (eval n cur env e s) := by
  rcases hT with hT | ⟨cnd, body, pp, rfl, _, hTc, _⟩
  · exact (tf_nball G true n).1 cur env e s hg hT
  · cases n with
    | zero => simp only [eval]; exact NBG.stop _
    | succ n =>
      rw [eval_while]
      cases hw : whileLoop n (posOf cur pp) env cnd body s with
      | ok u s1 => exact NBG.ok _ _ _ hg
      | err _ _ _ => exact NBG.err _ _ _
      | brk v s1 =>
        exact absurd hw (whileLoop_nobrk G cnd body (fun n cur env s v s' hg => tf_eval_nobrk G true n cur env cnd s v s' hg hTc)
          n (posOf cur pp) env s v s1 hg)
      | stop _ => exact NBG.stop _

theorem tfw_evalSeq_nbg (G : String → Prop) : ∀ (n : Nat) (cur : Pos) (env : Env) (body : List Expr) (s : SS), GFree G env →
    (∀ e, e ∈ body → TFW G true e) → NBG G (evalSeq n cur env body s) := by
  intro n
  induction n with
  | zero => intro cur env body s _ _; simp only [evalSeq]; exact NBG.stop _
  | succ n ih =>
    intro cur env body s hg hT
    cases body with
    | nil => simp only [evalSeq]; exact NBG.ok _ _ _ hg
    | cons e t =>
      cases t with
      | nil => simp only [evalSeq]; exact tfw_eval_nbg G n cur env e s hg (hT e (by simp))
      | cons y r =>
        simp only [evalSeq]
        have hE1 := tfw_eval_nbg G n cur env e s hg (hT e (by simp))
        cases he : eval n cur env e s with
        | ok r1 s1 =>
          obtain ⟨v1, env1⟩ := r1
          exact ih cur env1 (y :: r) s1 (hE1.2 v1 env1 s1 he) (fun e' he' => hT e' (by simp [he']))
        | err v q s1 => exact NBG.err _ _ _
        | brk v s1 => exact absurd he (hE1.1 v s1)
        | stop w => exact NBG.stop _

/-! ### nested loops -/

/-- an outer loop: condition in the fragment (`CondOK`), body statements fragment forms or inner loops without `break` -/
def WL2 (G : String → Prop) (e : Expr) : Prop :=
  ∃ cnd body pp, e = .form (.sym "while" :: cnd :: body) pp ∧ CondOK cnd ∧ TF G true cnd ∧ ∀ x, x ∈ body → TFW G true x

/-- a form of the fragment, a loop over the fragment, or a loop over those -/
def TFW2 (G : String → Prop) (e : Expr) : Prop := TFW G true e ∨ WL2 G e

theorem tfw2_stmtFacts (G : String → Prop) (fuel : Nat) : StmtFacts G (TFW2 G) fuel := by
  intro e opts c c' slot sc rs pool ps ht hh hs hp htop hm hT hL hc
  rcases hT with hT | ⟨cnd, body, pp, rfl, _, hTc, hTb⟩
  · exact tfw_stmtFacts G fuel e opts c c' slot sc rs pool ps ht hh hs hp htop hm hT hL hc
  · exact loop_stmtFacts G (TFW G true) (tfw_stmtFacts G) fuel cnd body pp hTc hTb opts c c' slot sc rs pool ps ht hh hs hp hm hL hc

/-- map length = code length across a form of `TFW2` (compile-only) -/
theorem tfw2_ML (G : String → Prop) (fuel : Nat) : MLAt G (TFW2 G) true fuel := by
  intro _ e opts c c' slot sc rs pool ps env nb ht hh hs hp htop hT hE hc hm
  exact (tfw2_stmtFacts G fuel e opts c c' slot sc rs pool ps ht hh hs hp htop hm hT hE.lkl hc).1.1.mapLen hm

section
variable (p : Program) (f0 : Frame) (rest : List Frame) (V : Array Value) (P : List KConst)

/-- NESTED `while` loops without `break`: the outer loop's body statements are fragment forms or inner loops over the fragment -/
theorem while_nested_core (hP : P.length < 65536)
    (hK : ∀ i, i < P.length → (p.defs.getD f0.defIdx default).consts.getD i .nil = litOf V (P.getD i .nil))
    (FF : FloatFacts) (G : String → Prop) (fuel : Nat)
    (cnd : Expr) (body : List Expr) (pp : Pos) (hTc : TF G true cnd) (hTb : ∀ e, e ∈ body → TFW G true e) (hok : CondOK cnd)
    (opts : Fopts) (c c' : CState) (slot : JSlot) (sc : Scope) (rs : List Scope) (pool : List KConst) (ps : List (List KConst))
    (n : Nat) (cur : Pos) (env env' : Env) (s s' : SS) (v : Value)
    (ht : opts.tail = false) (hh : opts.hint = none) (hs : c.scopes = sc :: rs) (hp : c.pools = pool :: ps) (hl : c.lim ≤ 240)
    (hm : c.map.length = c.buf.length)
    (hc : cValue (fuel + 1) opts (.form (.sym "while" :: cnd :: body) pp) c = some (slot, c'))
    (hsem : eval n cur env (.form (.sym "while" :: cnd :: body) pp) s = .ok (v, env') s')
    (hE : EnvS G c.scopes env s.boxes.size sc.ra) :
    Correct2 p f0 rest V P G opts.drop c c' slot sc rs pool ps env env' s s' v :=
  while_core_gen p f0 rest V P G (TFW G true) true true fuel (tfw_correct p f0 rest V P hP hK FF G fuel) (tfw_ML G fuel)
    (fun _ h => Or.inl h) cnd body pp hTc hTb hok
    (bodyNbr_of (tfw_stmtFacts G fuel) hTb) (bodyShp_of (tfw_stmtFacts G fuel) hTb) (bodyMax_of (tfw_stmtFacts G fuel) hTb)
    (fun n cur env0 s0 v0 s1 hg => (tfw_evalSeq_nbg G n cur env0 body s0 hg hTb).1 v0 s1)
    opts c c' slot sc rs pool ps n cur env env' s s' v ht hh hs hp hl hm hc hsem hE

/-- compile correctness for fragment forms, loops over the fragment, and loops over those (no new induction) -/
theorem tfw2_correct (hP : P.length < 65536)
    (hK : ∀ i, i < P.length → (p.defs.getD f0.defIdx default).consts.getD i .nil = litOf V (P.getD i .nil))
    (FF : FloatFacts) (G : String → Prop) : ∀ fuel, CorrectAt p f0 rest V P G (TFW2 G) true fuel := by
  intro fuel e opts c c' slot sc rs pool ps n cur env env' s s' v ht hh hs hp hl htop hm hT hc hsem hE
  rcases hT with hT | ⟨cnd, body, pp, rfl, hok, hTc, hTb⟩
  · exact tfw_correct p f0 rest V P hP hK FF G fuel e opts c c' slot sc rs pool ps n cur env env' s s' v ht hh hs hp hl htop hm hT hc hsem hE
  · cases fuel with
    | zero => simp [cValue] at hc
    | succ f =>
      rw [Bool.and_true]
      exact while_nested_core p f0 rest V P hP hK FF G f cnd body pp hTc hTb hok
        opts c c' slot sc rs pool ps n cur env env' s s' v ht hh hs hp hl (hm rfl) hc hsem hE

end

end JanetModel.Compile
