/- C02: `while` loops without `break` nested to ANY depth: `TFWn G k` (a form of the fragment, or a loop with `CondOK` condition in
   the fragment whose body statements are in `TFWn G (k-1)`), `tfwn_correct` by induction on the depth through the generalized
   `while_core_gen` (no new induction on the evaluation), with the compile-only facts `tfwn_stmtFacts` / `tfwn_ML`. -/
import JanetModel.Compile.SeqNest
namespace JanetModel.Compile
open JanetModel.Emit JanetModel.Lang JanetModel.Bytecode.Exec JanetModel.Gen.Bytecode

/-- forms of the fragment and `while` loops without `break` nested at most `k` deep -/
def TFWn (G : String → Prop) : Nat → Expr → Prop
  | 0, e => TF G true e
  | k + 1, e => TFWn G k e ∨
      ∃ cnd body pp, e = .form (.sym "while" :: cnd :: body) pp ∧ CondOK cnd ∧ TF G true cnd ∧ ∀ x, x ∈ body → TFWn G k x

theorem tfwn_of_tf (G : String → Prop) : ∀ (k : Nat) (e : Expr), TF G true e → TFWn G k e
  | 0, _, h => h
  | k + 1, e, h => Or.inl (tfwn_of_tf G k e h)

theorem tfwn_stmtFacts (G : String → Prop) : ∀ (k fuel : Nat), StmtFacts G (TFWn G k) fuel := by
  intro k
  induction k with
  | zero => exact fun fuel => tf_stmtFacts G true fuel
  | succ k ih =>
    intro fuel e opts c c' slot sc rs pool ps ht hh hs hp htop hm hT hL hc
    rcases hT with hT | ⟨cnd, body, pp, rfl, _, hTc, hTb⟩
    · exact ih fuel e opts c c' slot sc rs pool ps ht hh hs hp htop hm hT hL hc
    · exact loop_stmtFacts G (TFWn G k) ih fuel cnd body pp hTc hTb opts c c' slot sc rs pool ps ht hh hs hp hm hL hc

/-- map length = code length from the per-statement facts (compile-only) -/
theorem ml_of_stmtFacts (G : String → Prop) (T : Expr → Prop) (fuel : Nat) (F : StmtFacts G T fuel) : MLAt G T true fuel := by
  intro _ e opts c c' slot sc rs pool ps env nb ht hh hs hp htop hT hE hc hm
  exact (F e opts c c' slot sc rs pool ps ht hh hs hp htop hm hT hE.lkl hc).1.1.mapLen hm

theorem tfwn_ML (G : String → Prop) (k fuel : Nat) : MLAt G (TFWn G k) true fuel :=
  ml_of_stmtFacts G (TFWn G k) fuel (tfwn_stmtFacts G k fuel)

/-- a loop form with a condition of the fragment never has the outcome `.brk` (whatever its body) -/
theorem loop_eval_nbg (G : String → Prop) (n : Nat) (cur : Pos) (env : Env) (cnd : Expr) (body : List Expr) (pp : Pos) (s : SS)
    (hg : GFree G env) (hTc : TF G true cnd) : NBG G (eval n cur env (.form (.sym "while" :: cnd :: body) pp) s) := by
  cases n with
  | zero => simp only [eval]; exact NBG.stop _
  | succ n =>
    rw [eval_while]
    cases hw : whileLoop n (posOf cur pp) env cnd body s with
    | ok u s1 => exact NBG.ok _ _ _ hg
    | err _ _ _ => exact NBG.err _ _ _
    | brk v s1 =>
      exact absurd hw (whileLoop_nobrk G cnd body (fun n cur env s v s' hg => tf_eval_nobrk G true n cur env cnd s v s' hg hTc)
        n (posOf cur pp) env s v s1 hg)
    | stop _ => exact NBG.stop _

theorem evalSeq_nbg_of (G : String → Prop) (T : Expr → Prop)
    (H : ∀ (n : Nat) (cur : Pos) (env : Env) (e : Expr) (s : SS), GFree G env → T e → NBG G (eval n cur env e s)) :
    ∀ (n : Nat) (cur : Pos) (env : Env) (body : List Expr) (s : SS), GFree G env → (∀ e, e ∈ body → T e) → NBG G (evalSeq n cur env body s) := by
  intro n
  induction n with
  | zero => intro cur env body s _ _; simp only [evalSeq]; exact NBG.stop _
  | succ n ih =>
    intro cur env body s hg hT
    cases body with
    | nil => simp only [evalSeq]; exact NBG.ok _ _ _ hg
    | cons e t =>
      cases t with
      | nil => simp only [evalSeq]; exact H n cur env e s hg (hT e (by simp))
      | cons y r =>
        simp only [evalSeq]
        have hE1 := H n cur env e s hg (hT e (by simp))
        cases he : eval n cur env e s with
        | ok r1 s1 =>
          obtain ⟨v1, env1⟩ := r1
          exact ih cur env1 (y :: r) s1 (hE1.2 v1 env1 s1 he) (fun e' he' => hT e' (by simp [he']))
        | err v q s1 => exact NBG.err _ _ _
        | brk v s1 => exact absurd he (hE1.1 v s1)
        | stop w => exact NBG.stop _

theorem tfwn_eval_nbg (G : String → Prop) : ∀ (k n : Nat) (cur : Pos) (env : Env) (e : Expr) (s : SS), GFree G env → TFWn G k e →
    NBG G (eval n cur env e s) := by
  intro k
  induction k with
  | zero => intro n cur env e s hg hT; exact (tf_nball G true n).1 cur env e s hg hT
  | succ k ih =>
    intro n cur env e s hg hT
    rcases hT with hT | ⟨cnd, body, pp, rfl, _, hTc, _⟩
    · exact ih n cur env e s hg hT
    · exact loop_eval_nbg G n cur env cnd body pp s hg hTc

section
variable (p : Program) (f0 : Frame) (rest : List Frame) (V : Array Value) (P : List KConst)

/-- compile correctness for fragment forms and `while` loops without `break` nested to any depth `k` -/
theorem tfwn_correct (hP : P.length < 65536)
    (hK : ∀ i, i < P.length → (p.defs.getD f0.defIdx default).consts.getD i .nil = litOf V (P.getD i .nil))
    (FF : FloatFacts) (G : String → Prop) : ∀ (k fuel : Nat), CorrectAt p f0 rest V P G (TFWn G k) true fuel := by
  intro k
  induction k with
  | zero => intro fuel; exact tf_correct_b p f0 rest V P hP hK FF G true fuel
  | succ k ih =>
    intro fuel e opts c c' slot sc rs pool ps n cur env env' s s' v ht hh hs hp hl htop hm hT hc hsem hE
    rcases hT with hT | ⟨cnd, body, pp, rfl, hok, hTc, hTb⟩
    · exact ih fuel e opts c c' slot sc rs pool ps n cur env env' s s' v ht hh hs hp hl htop hm hT hc hsem hE
    · cases fuel with
      | zero => simp [cValue] at hc
      | succ f =>
        rw [Bool.and_true]
        exact while_core_gen p f0 rest V P G (TFWn G k) true true f (ih f) (tfwn_ML G k f) (fun e h => tfwn_of_tf G k e h)
          cnd body pp hTc hTb hok
          (bodyNbr_of (tfwn_stmtFacts G k f) hTb) (bodyShp_of (tfwn_stmtFacts G k f) hTb) (bodyMax_of (tfwn_stmtFacts G k f) hTb)
          (fun n cur env0 s0 v0 s1 hg => (evalSeq_nbg_of G (TFWn G k) (tfwn_eval_nbg G k) n cur env0 body s0 hg hTb).1 v0 s1)
          opts c c' slot sc rs pool ps n cur env env' s s' v ht hh hs hp hl (hm rfl) hc hsem hE

end

end JanetModel.Compile
