/- C02: compile-only facts for a `while` loop FORM without `break` (shape, `max` monotonicity, no `break` placeholder left),
   from the same facts for its body statements; lifted to statement lists (`whileBody_facts`) for any predicate with the
   per-statement facts (`StmtFacts`); instances for `TF G b` and `TFW G true`. -/
import JanetModel.Compile.SeqNestCore
import JanetModel.Compile.SeqBlockLoops
namespace JanetModel.Compile
open JanetModel.Emit JanetModel.Lang JanetModel.Bytecode.Exec JanetModel.Gen.Bytecode

theorem modBuf_take (b : List CI) (j : Nat) (f : CI → CI) (n : Nat) (h : n ≤ j) : (modBuf b j f).take n = b.take n := by
  apply List.ext_getElem?
  intro i
  simp only [modBuf, List.getElem?_take, List.getElem?_modify]
  split
  · rename_i hin
    have hji : ¬ j = i := by omega
    cases b[i]? with
    | none => rfl
    | some a => simp [hji]
  · rfl

theorem brkRewrite_take (buf : List CI) (lo hi : Nat) : (brkRewrite buf lo hi).take lo = buf.take lo := by
  apply List.ext_getElem
  · simp [brkRewrite]
  · intro i h1 h2
    have hi' : i < lo := by simp at h1; omega
    have h3 : i < buf.length := by simp at h2; omega
    simp only [List.getElem_take, brkRewrite, List.getElem_map, List.getElem_range]
    have hg : buf.getD i default = buf[i] := by simp [List.getD, h3]
    rw [hg]
    cases hb : buf[i] with
    | brk =>
      have : ¬ lo ≤ i := by omega
      simp [this]
    | _ => rfl

theorem NoBrkFrom.brkRewrite {buf : List CI} {n : Nat} (h : NoBrkFrom buf n) (lo hi : Nat) : NoBrkFrom (brkRewrite buf lo hi) n := by
  intro i ci hi' hget
  have hlen : i < buf.length := by
    have := (List.getElem?_eq_some_iff.mp hget).1
    simpa [JanetModel.Compile.brkRewrite] using this
  have hlen' : i < (JanetModel.Compile.brkRewrite buf lo hi).length := by simpa [JanetModel.Compile.brkRewrite] using hlen
  rw [List.getElem?_eq_getElem hlen'] at hget
  simp only [JanetModel.Compile.brkRewrite, List.getElem_map, List.getElem_range, Option.some.injEq] at hget
  have hg : buf.getD i default = buf[i] := by simp [List.getD, hlen]
  rw [hg] at hget
  have hne := h i buf[i] hi' (List.getElem?_eq_getElem hlen)
  cases hb : buf[i] with
  | brk => exact absurd hb hne
  | _ =>
    rw [hb] at hget
    simp only at hget
    rw [← hget]
    exact fun e => CI.noConfusion e

theorem emitSI_grows (c c' : CState) (op : Op) (s : JSlot) (imm : Nat) (wr : Bool)
    (sc : Scope) (rs : List Scope) (pool : List KConst) (ps : List (List KConst))
    (hs : c.scopes = sc :: rs) (hp : c.pools = pool :: ps) (h : emitSI c op s imm wr = some c') : c.buf.length + 1 ≤ c'.buf.length := by
  unfold emitSI at h
  obtain ⟨_, hc'⟩ := emitW_spec c c' _ sc rs pool ps hs hp h
  rw [hc']
  simp [W.emitSI, W.finish, Emit.emitSI]
  omega

/-- `janetc_popscope` of the loop's block scope after a shaped body whose code may have been patched above the loop's start -/
theorem whilePop_shape (G : String → Prop) (c c4 c6 : CState) (wb sc : Scope) (rs : List Scope) (pool : List KConst) (ps : List (List KConst))
    (hs : c.scopes = sc :: rs) (hL : LkL G c.scopes) (hm : c.map.length = c.buf.length)
    (hfn : wb.fn = false) (hun : wb.unused = false) (hcl : wb.closure = false)
    (h : Shp G { c with scopes := wb :: sc :: rs } c4 wb (sc :: rs) pool ps)
    (buf' : List CI) (ext : List Pos) (hlen : buf'.length = c4.buf.length + ext.length)
    (hb : buf'.take c.buf.length = c4.buf.take c.buf.length)
    (hpop : popScope { c4 with buf := buf', map := c4.map ++ ext } = some c6) :
    Shp G c c6 sc rs pool ps ∧ MaxR c c6 rs := by
  obtain ⟨ra2, ns2, more2, seg2, segm2, hc4, pv2, _, hl2⟩ := h
  have hs4 : ({ c4 with buf := buf', map := c4.map ++ ext } : CState).scopes = { wb with ra := ra2, syms := wb.syms ++ ns2 } :: sc :: rs := by
    show c4.scopes = _
    rw [hc4]
  obtain ⟨raX, hpop', hmaxX, hmonoX⟩ := popScope_block _ _ sc rs hs4 hfn hun hcl
  rw [hpop'] at hpop
  have hc6 := (Option.some.inj hpop).symm
  have hb4 : c4.buf = c.buf ++ seg2 := by rw [hc4]
  have hm4 : c4.map = c.map ++ segm2 := by rw [hc4]
  have hb' : c.buf ++ buf'.drop c.buf.length = buf' := by
    have := List.take_append_drop c.buf.length buf'
    rw [hb, hb4] at this
    simpa using this
  have hmaxX' : raX.max = (if sc.ra.max < ra2.max then ra2.max else sc.ra.max) := hmaxX
  have hs6 : c6.scopes = { sc with ra := raX, syms := sc.syms ++ ({ wb with ra := ra2, syms := wb.syms ++ ns2 } : Scope).syms.map (fun q => { q with visible := false }) } :: rs := by
    rw [hc6]
  refine ⟨⟨raX, ({ wb with ra := ra2, syms := wb.syms ++ ns2 } : Scope).syms.map (fun q => { q with visible := false }), more2,
    buf'.drop c.buf.length, segm2 ++ ext, ?_, ?_, ?_, ?_⟩, ?_⟩
  · rw [hb', ← List.append_assoc, hc6]
    conv => lhs; rw [hc4]
  · rw [hc6]; exact pv2
  · refine hL.of_lk (fun x => ?_)
    rw [hs6, hs]
    have hinv : ∀ q, q ∈ ({ wb with ra := ra2, syms := wb.syms ++ ns2 } : Scope).syms.map (fun q : SymPair => { q with visible := false }) → q.visible = false := by
      intro q hq
      simp only [List.mem_map] at hq
      obtain ⟨q0, _, rfl⟩ := hq
      rfl
    exact (lk_append_invisible { sc with ra := raX } rs _ hinv x).trans (lk_ra sc rs raX x)
  · simp only [List.length_append, List.length_drop, hlen, hb4, hl2]
    omega
  · exact MaxR.of_ra hs hs6 (by rw [hmaxX']; split <;> omega)

/-- a `while` loop form without `break`: the compile-only facts, from those of its body statements -/
theorem while_form_facts (G : String → Prop) (b : Bool) (fuel : Nat) (cnd : Expr) (body : List Expr) (pp : Pos)
    (hTc : TF G b cnd) (HNB : BodyNbr G fuel body) (HSH : BodyShp G fuel body)
    (opts : Fopts) (ht : opts.tail = false) (hh : opts.hint = none)
    (c c' : CState) (slot : JSlot) (sc : Scope) (rs : List Scope) (pool : List KConst) (ps : List (List KConst))
    (hs : c.scopes = sc :: rs) (hp : c.pools = pool :: ps) (hL : LkL G c.scopes) (hm : c.map.length = c.buf.length)
    (hc : cValue (fuel + 1) opts (.form (.sym "while" :: cnd :: body) pp) c = some (slot, c')) :
    (Shp G c c' sc rs pool ps ∧ SlotSh slot) ∧ MaxR c c' rs ∧ NBR c c' := by
  rw [cValue_while_o fuel opts ht hh cnd body pp c] at hc
  obtain ⟨q, hq⟩ := curAt_eq c pp
  cases hcc : cWhile (cValue fuel) cnd body (curAt c pp) with
  | none => rw [hcc] at hc; simp [fin] at hc
  | some res =>
    obtain ⟨slot0, cq⟩ := res
    rw [hcc] at hc
    simp only [fin, Option.some.injEq, Prod.mk.injEq] at hc
    obtain ⟨hsl, hc'⟩ := hc
    subst hsl hc'
    rw [hq] at hcc
    suffices H : (Shp G { c with cur := q } cq sc rs pool ps ∧ SlotSh slot0) ∧ MaxR { c with cur := q } cq rs ∧ NBR { c with cur := q } cq from
      ⟨⟨H.1.1.recur, H.1.2⟩, fun sc0 sc0' a b => H.2.1 sc0 sc0' a b, fun n0 hn => H.2.2 n0 hn⟩
    simp only [cWhile, Option.bind_eq_bind, Option.bind_eq_some_iff, Prod.exists] at hcc
    obtain ⟨cond, c2, hcond, h⟩ := hcc
    obtain ⟨wb, hwb⟩ : ∃ wb : Scope, wb = { whl := true, ra := { alloc := sc.ra.alloc, max := sc.ra.max }, start := c.buf.length } := ⟨_, rfl⟩
    have hc1 : pushScope ({ c with cur := q } : CState) false true false false = { ({ c with cur := q } : CState) with scopes := wb :: sc :: rs } := by
      simp [pushScope, hs, hwb]
    rw [hc1] at hcond
    have hwsyms : wb.syms = [] := by rw [hwb]
    have hwun : wb.unused = false := by rw [hwb]
    have hwfn : wb.fn = false := by rw [hwb]
    have hwcl : wb.closure = false := by rw [hwb]
    have hwtop : wb.top = false := by rw [hwb]
    have hLP : LkL G (wb :: sc :: rs) := by rw [hs] at hL; exact hL.push wb hwsyms hwfn
    obtain ⟨S2, _⟩ := tf_shapeM_at G fuel b cnd {} { ({ c with cur := q } : CState) with scopes := wb :: sc :: rs } c2 cond wb (sc :: rs) pool ps
      rfl rfl rfl hp hwtop hm hTc hLP hcond
    have hm2 : c2.map.length = c2.buf.length := S2.mapLen hm
    obtain ⟨sc2, pool2, hs2, hp2, ht2, hL2, hlen2⟩ := S2.out
    have hlen2' : c.buf.length ≤ c2.buf.length := hlen2
    have htop2 : sc2.top = false := by rw [ht2]; exact hwtop
    have N2 : NBR ({ c with cur := q } : CState) c2 := fun n0 hn => tf_nobrk G b fuel cnd {} _ c2 cond n0 rfl rfl hTc hcond hn
    have finish : ∀ (c4 c6 : CState) (buf' : List CI) (ext : List Pos),
        Shp G { ({ c with cur := q } : CState) with scopes := wb :: sc :: rs } c4 wb (sc :: rs) pool ps → NBR ({ c with cur := q } : CState) c4 →
        buf'.length = c4.buf.length + ext.length → buf'.take c.buf.length = c4.buf.take c.buf.length →
        (∀ n0, NoBrkFrom c4.buf n0 → NoBrkFrom buf' n0) →
        popScope { c4 with buf := buf', map := c4.map ++ ext } = some c6 →
        (Shp G ({ c with cur := q } : CState) c6 sc rs pool ps ∧ SlotSh (cslot KConst.nil)) ∧ MaxR ({ c with cur := q } : CState) c6 rs ∧
          NBR ({ c with cur := q } : CState) c6 := by
      intro c4 c6 buf' ext S4 N4 hlen hb hnb hpop
      obtain ⟨S6, M6⟩ := whilePop_shape G ({ c with cur := q } : CState) c4 c6 wb sc rs pool ps hs hL hm hwfn hwun hwcl S4 buf' ext hlen hb hpop
      refine ⟨⟨S6, Or.inl ⟨rfl, _, rfl⟩⟩, M6, fun n0 hn => ?_⟩
      rw [popScope_buf _ c6 hpop]
      exact hnb n0 (N4 n0 hn)
    cases hk : isConstSlot cond with
    | none =>
      simp only [hk, Bool.false_eq_true, if_false, Option.bind_eq_some_iff, Bool.not_false, Bool.true_and] at h
      obtain ⟨c3j, hem, c4, hbody, hfin⟩ := h
      obtain ⟨R3, _⟩ := emitSI_stepR c2 c3j _ cond 0 false sc2 (sc :: rs) pool2 ps hs2 hp2 hem
      have hm3 := R3.mapLen hm2
      have S3 : Shp G c2 c3j sc2 (sc :: rs) pool2 ps := R3.shp hs2 hL2
      obtain ⟨sc3, pool3, hs3, hp3, ht3, hL3, _⟩ := S3.out
      have hg3 := emitSI_grows c2 c3j _ cond 0 false sc2 (sc :: rs) pool2 ps hs2 hp2 hem
      have htop3 : sc3.top = false := by rw [ht3]; exact htop2
      have S4 := HSH c3j c4 sc3 (sc :: rs) pool3 ps hs3 hp3 htop3 hm3 hL3 hbody
      have N4b := HNB c3j c4 sc3 (sc :: rs) pool3 ps hs3 hp3 htop3 hm3 hL3 hbody
      have S14 : Shp G { ({ c with cur := q } : CState) with scopes := wb :: sc :: rs } c4 wb (sc :: rs) pool ps :=
        S2.trans' hs2 hp2 (S3.trans' hs3 hp3 S4)
      have N14 : NBR ({ c with cur := q } : CState) c4 := N2.trans ((emitW_nbr c2 c3j _ hem).trans N4b)
      obtain ⟨_, _, _, _, _, _, hlen4⟩ := S4.out
      have hle4 : c.buf.length ≤ c4.buf.length := by omega
      have hle3 : c.buf.length ≤ lastLabel c3j := by unfold lastLabel; omega
      have hcl4 : (c4.scopes.headD default).closure = false := by
        obtain ⟨ra4, ns4, more4, seg4, segm4, hc4, _⟩ := S14
        rw [hc4]; exact hwcl
      rw [hcl4] at hfin
      simp only [Bool.false_eq_true, if_false] at hfin
      split at hfin
      · exact absurd hfin (by simp)
      · simp only [Option.bind_eq_bind, Option.bind_eq_some_iff, Option.pure_def, Option.some.injEq, Prod.mk.injEq] at hfin
        obtain ⟨c6, hpop, hslot, hc6⟩ := hfin
        subst hc6
        rw [← hslot]
        refine finish c4 c6 _ [c4.cur] S14 N14 (by simp [brkRewrite_length, modBuf_length, emitRaw]) ?_ ?_ hpop
        · exact (brkRewrite_take _ _ _).trans ((modBuf_take _ _ _ _ hle4).trans ((modBuf_take _ _ _ _ hle3).trans
            (List.take_append_of_le_length hle4)))
        · intro n0 hn
          exact (((emitRaw_nbr c4 (CI.jump 0) (by simp) n0 hn).modBuf _ _ (patchCond_nobrk _)).modBuf _ _ (fun _ _ => by simp)).brkRewrite _ _
    | some k =>
      cases htk : constTruthy k with
      | false =>
        simp only [hk, htk, Bool.not_false, if_true, Option.bind_eq_bind, Option.bind_eq_some_iff, Option.pure_def, Option.some.injEq, Prod.mk.injEq] at h
        obtain ⟨c6, hpop, hslot, hc6⟩ := h
        subst hc6
        rw [← hslot]
        exact finish c2 c6 c2.buf [] S2 N2 (by simp) rfl (fun _ h => h) (by rw [List.append_nil]; exact hpop)
      | true =>
        simp only [hk, htk, Bool.not_true, Bool.false_eq_true, if_false, if_true, Option.pure_def, Option.bind_eq_bind, Option.bind_some,
          Option.bind_eq_some_iff] at h
        obtain ⟨c4, hbody, hfin⟩ := h
        have S4 := HSH c2 c4 sc2 (sc :: rs) pool2 ps hs2 hp2 htop2 hm2 hL2 hbody
        have N4b := HNB c2 c4 sc2 (sc :: rs) pool2 ps hs2 hp2 htop2 hm2 hL2 hbody
        have S14 : Shp G { ({ c with cur := q } : CState) with scopes := wb :: sc :: rs } c4 wb (sc :: rs) pool ps := S2.trans' hs2 hp2 S4
        have N14 : NBR ({ c with cur := q } : CState) c4 := N2.trans N4b
        obtain ⟨_, _, _, _, _, _, hlen4⟩ := S4.out
        have hle4 : c.buf.length ≤ c4.buf.length := by omega
        have hcl4 : (c4.scopes.headD default).closure = false := by
          obtain ⟨ra4, ns4, more4, seg4, segm4, hc4, _⟩ := S14
          rw [hc4]; exact hwcl
        rw [hcl4] at hfin
        simp only [Bool.false_eq_true, if_false] at hfin
        split at hfin
        · exact absurd hfin (by simp)
        · simp only [Option.bind_eq_some_iff, Option.some.injEq, Prod.mk.injEq] at hfin
          obtain ⟨c6, hpop, hslot, hc6⟩ := hfin
          subst hc6
          rw [← hslot]
          refine finish c4 c6 _ [c4.cur] S14 N14 (by simp [brkRewrite_length, modBuf_length, emitRaw]) ?_ ?_ hpop
          · exact (brkRewrite_take _ _ _).trans ((modBuf_take _ _ _ _ hle4).trans (List.take_append_of_le_length hle4))
          · intro n0 hn
            exact ((emitRaw_nbr c4 (CI.jump 0) (by simp) n0 hn).modBuf _ _ (fun _ _ => by simp)).brkRewrite _ _

end JanetModel.Compile
