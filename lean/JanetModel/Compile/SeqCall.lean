/- C02: compile correctness, statement fragment: the induction hypothesis `CorrectAt` and the call case
   (one-argument call of a global core function whose argument is any form of the fragment, including `do` and `def`). -/
import JanetModel.Compile.SeqCorrect
namespace JanetModel.Compile
open JanetModel.Emit JanetModel.Lang JanetModel.Bytecode.Exec JanetModel.Gen.Bytecode

/-- `eval` of a one-argument call of a global function that returned a value (with the environment) -/
theorem eval_call1_inv2 (n : Nat) (cur : Pos) (env env' : Env) (f : String) (a : Expr) (pp : Pos) (s s' : SS) (v : Value)
    (hf : specials.contains f = false) (hg : lookupEnv env f = none) (hsp : isSplice a = none)
    (h : eval n cur env (.form [.sym f, a] pp) s = .ok (v, env') s') :
    ∃ n2 va s_a, n = n2 + 3 ∧ eval (n2 + 1) (posOf cur pp) env a s = .ok (va, env') s_a ∧
      applyFn (n2 + 2) (posOf cur pp) (.cfun f) [va] s_a = .ok v s' := by
  match n, h with
  | 0, h => simp [eval] at h
  | 1, h =>
    rw [eval_call 0 cur env f [a] pp s hf] at h
    simp [eval] at h
  | 2, h =>
    rw [eval_call 1 cur env f [a] pp s hf, eval_sym_global 0 _ env f s hg] at h
    simp [evalArgs, hsp, eval] at h
  | n2 + 3, h =>
    rw [eval_call (n2 + 2) cur env f [a] pp s hf, eval_sym_global (n2 + 1) _ env f s hg] at h
    simp only [evalArgs, hsp] at h
    cases he : eval (n2 + 1) (posOf cur pp) env a s with
    | ok r s_a =>
      obtain ⟨va, env_a⟩ := r
      rw [he] at h
      simp only [evalArgs] at h
      cases ha : applyFn (n2 + 2) (posOf cur pp) (.cfun f) [va] s_a with
      | ok v2 s3 =>
        rw [ha] at h
        simp only [R.ok.injEq, Prod.mk.injEq] at h
        obtain ⟨⟨hv, henv⟩, hs⟩ := h
        subst hv hs henv
        exact ⟨n2, va, s_a, rfl, he, ha⟩
      | err _ _ _ => rw [ha] at h; exact absurd h (by simp)
      | brk _ _ => rw [ha] at h; exact absurd h (by simp)
      | stop _ => rw [ha] at h; exact absurd h (by simp)
    | err _ _ _ => rw [he] at h; exact absurd h (by simp)
    | brk _ _ => rw [he] at h; exact absurd h (by simp)
    | stop _ => rw [he] at h; exact absurd h (by simp)

section
variable (p : Program) (f0 : Frame) (rest : List Frame) (V : Array Value) (P : List KConst)

/-- compile correctness for every form of the fragment at compile fuel `fuel` -/
def CorrectAt (G : String → Prop) (T : Expr → Prop) (w : Bool) (fuel : Nat) : Prop :=
  ∀ (e : Expr) (opts : Fopts) (c c' : CState) (slot : JSlot) (sc : Scope) (rs : List Scope) (pool : List KConst) (ps : List (List KConst))
    (n : Nat) (cur : Pos) (env env' : Env) (s s' : SS) (v : Value),
    opts.tail = false → opts.hint = none → c.scopes = sc :: rs → c.pools = pool :: ps → c.lim ≤ 240 → sc.top = false →
    (w = true → c.map.length = c.buf.length) → T e →
    cValue fuel opts e c = some (slot, c') → eval n cur env e s = .ok (v, env') s' → EnvS G c.scopes env s.boxes.size sc.ra →
    Correct2 p f0 rest V P G (opts.drop && w) c c' slot sc rs pool ps env env' s s' v

/-- compile-only fact used when the induction hypothesis is applied at a later state (second statement, second operand): the
    source map stays as long as the code (needed only with `w = true`: `janetc_throwaway` truncates the map by the code length) -/
def MLAt (G : String → Prop) (T : Expr → Prop) (w : Bool) (fuel : Nat) : Prop :=
  w = true → ∀ (e : Expr) (opts : Fopts) (c c' : CState) (slot : JSlot) (sc : Scope) (rs : List Scope) (pool : List KConst) (ps : List (List KConst))
    (env : Env) (nb : Nat),
    opts.tail = false → opts.hint = none → c.scopes = sc :: rs → c.pools = pool :: ps → sc.top = false → T e →
    EnvS G c.scopes env nb sc.ra → cValue fuel opts e c = some (slot, c') → c.map.length = c.buf.length → c'.map.length = c'.buf.length

theorem freeslot_bufmap (c c' : CState) (s : JSlot) (h : freeslot c s = some c') : c'.buf = c.buf ∧ c'.map = c.map := by
  unfold freeslot at h
  split at h
  · rw [← Option.some.inj h]; exact ⟨rfl, rfl⟩
  · split at h
    · rw [← Option.some.inj h]; exact ⟨rfl, rfl⟩
    · split at h
      · rw [← Option.some.inj h]; exact ⟨rfl, rfl⟩
      · exact absurd h (by simp)
    · exact absurd h (by simp)

theorem call1_core (hP : P.length < 65536)
    (hK : ∀ i, i < P.length → (p.defs.getD f0.defIdx default).consts.getD i .nil = litOf V (P.getD i .nil))
    (FF : FloatFacts) (G : String → Prop) (T : Expr → Prop) (w : Bool) (fuel : Nat) (IH : CorrectAt p f0 rest V P G T w fuel)
    (f : String) (a : Expr) (hna : f ≠ "apply") (hG : G f) (hTa : T a)
    (c cq : CState) (slot0 : JSlot) (sc : Scope) (rs : List Scope) (pool : List KConst) (ps : List (List KConst))
    (n2 : Nat) (pos : Pos) (env env_a : Env) (s s_a s' : SS) (va v : Value)
    (hs : c.scopes = sc :: rs) (hp : c.pools = pool :: ps) (hl : c.lim ≤ 240) (htop : sc.top = false)
    (hm : w = true → c.map.length = c.buf.length)
    (hcc : cCall (cValue fuel) {} (.sym f) [a] c = some (slot0, cq))
    (hsa : eval (n2 + 1) pos env a s = .ok (va, env_a) s_a) (happ : applyFn (n2 + 2) pos (.cfun f) [va] s_a = .ok v s')
    (hE : EnvS G c.scopes env s.boxes.size sc.ra) :
    Correct2 p f0 rest V P G false c cq slot0 sc rs pool ps env env_a s s' v := by
  obtain ⟨head, c1, sa, c2, c3, cT, c4, c5, h1, h2, h3, hT, hEm, hf1, hf2⟩ := cCall1_inv (cValue fuel) f a c cq slot0 hcc
  cases fuel with
  | zero => simp [cValue] at h1
  | succ fuel' =>
  have hg0 : lookupSlot c f = none := by rw [lookupSlot_lk]; exact hE.1 f hG
  rw [cValue_sym, resolve_global _ f hg0] at h1
  have hgs : globalSlot c f = some (constSlot c (.cfun f)) := by
    unfold globalSlot at h1 ⊢
    split at h1 <;> simp_all [fin]
  rw [hgs] at h1
  simp only [fin, Option.some.injEq, Prod.mk.injEq] at h1
  obtain ⟨hh, hc1⟩ := h1
  obtain ⟨vals1, kf, k1, k2, k3, k4⟩ := kOf_spec' FF c (.cfun f) trivial
  have cs : constSlot c (.cfun f) = (cslot kf, { c with vals := vals1 }) := by
    unfold constSlot; rw [k1]
  rw [cs] at hh hc1
  have hhead : head = cslot kf := hh.symm
  have hc1eq : c1 = { c with vals := vals1 } := hc1.symm
  subst hhead hc1eq
  -- the argument
  have hs1 : ({ c with vals := vals1 } : CState).scopes = sc :: rs := hs
  have hp1 : ({ c with vals := vals1 } : CState).pools = pool :: ps := hp
  obtain ⟨ra2, ns2, more2, seg2, segm2, hc2, pv2, r1a, r3a, sok2, bx2, es2, nf2, vm2⟩ :=
    IH a {} _ c2 sa sc rs pool ps (n2 + 1) pos env env_a s s_a va rfl rfl hs1 hp1 hl htop hm hTa h2 hsa hE
  have hs2 : c2.scopes = { sc with ra := ra2, syms := sc.syms ++ ns2 } :: rs := by rw [hc2]
  have hp2 : c2.pools = (pool ++ more2) :: ps := by rw [hc2]
  have hl2 : c2.lim ≤ 240 := by rw [hc2]; exact hl
  obtain ⟨ra3, more3, seg3, segm3, hc3, e3, m3, _, vm3⟩ :=
    push1 p f0 rest V P hP hK c2 c3 sa { sc with ra := ra2, syms := sc.syms ++ ns2 } rs (pool ++ more2) ps hs2 hp2 hl2 sok2.sk h3
  have hs3 : c3.scopes = { sc with ra := ra3, syms := sc.syms ++ ns2 } :: rs := by rw [hc3]
  have hp3 : c3.pools = ((pool ++ more2) ++ more3) :: ps := by rw [hc3]
  have hl3 : c3.lim ≤ 240 := by rw [hc3]; exact hl2
  obtain ⟨d, ra4, more4, seg4, segm4, hslot, hc4, d1, d2, d3, d4, d5, vm4⟩ :=
    callEmit p f0 rest V P hP hK c3 cT c4 slot0 (cslot kf) kf f hna { sc with ra := ra3, syms := sc.syms ++ ns2 } rs ((pool ++ more2) ++ more3) ps
      hs3 hp3 hl3 rfl hT hEm
  have hs4 : c4.scopes = { sc with ra := ra4, syms := sc.syms ++ ns2 } :: rs := by rw [hc4]
  rw [freeslot_const c5 (cslot kf) rfl] at hf2
  have hcq : c5 = cq := Option.some.inj hf2
  subst hcq
  have e3' : ∀ j, ra3.alloc j = ra2.alloc j := e3
  have d1' : ra3.alloc d = false := d1
  have d2' : ∀ j, ra4.alloc j = (if j = d then true else ra3.alloc j) := d2
  have m3' : ra2.max ≤ ra3.max := m3
  have d4' : ra3.max ≤ ra4.max := d4
  have hd240 : d < 240 := by
    have : c3.lim ≤ 240 := hl3
    omega
  have hd_sc : sc.ra.alloc d = false := by
    cases hh : sc.ra.alloc d with
    | false => rfl
    | true => have := r1a d hh; rw [← e3' d, d1'] at this; exact Bool.noConfusion this
  have hlk2 : ∀ ra x, lk ({ sc with ra := ra, syms := sc.syms ++ ns2 } :: rs) x = lk c2.scopes x := by
    intro ra x; rw [hs2]; rfl
  -- the final allocator
  have hfinal : ∃ ra5, c5 = { c4 with scopes := { sc with ra := ra5, syms := sc.syms ++ ns2 } :: rs } ∧ ra5.max = ra4.max ∧
      (∀ r, ra4.alloc r = true →
        (sc.ra.alloc r = true ∨ r = d ∨ ∃ x slot u l, lk c2.scopes x = some (slot, u, l) ∧ slot.k = .loc r) → ra5.alloc r = true) := by
    rcases sok2 with ⟨hcf, _⟩ | ⟨_, hnm, _⟩ | ⟨hcf, hnm, da, hka', hda1, hda2, _, hnn⟩
    · rw [freeslot_const c4 sa hcf] at hf1
      exact ⟨ra4, by rw [← Option.some.inj hf1, hc4], rfl, fun r h _ => h⟩
    · rw [freeslot_named c4 sa hnm] at hf1
      exact ⟨ra4, by rw [← Option.some.inj hf1, hc4], rfl, fun r h _ => h⟩
    · rw [freeslot_loc c4 sa da _ rs hs4 hcf hnm hka'] at hf1
      refine ⟨ra4.unmark da, by rw [← Option.some.inj hf1], rfl, ?_⟩
      intro r hr why
      have hne : r ≠ da := by
        rcases why with h | h | ⟨x, slot, u, l, hx, hk⟩
        · intro e; rw [e] at h; rw [h] at hda1; exact Bool.noConfusion hda1
        · intro e; rw [h] at e; rw [← e, ← e3' d, d1'] at hda2; exact Bool.noConfusion hda2
        · intro e; rw [e] at hk; exact hnn x slot u l hx hk
      simp only [RA.unmark, hne, if_false]; exact hr
  obtain ⟨ra5, hc5, hmax5, r15⟩ := hfinal
  have hs5 : c5.scopes = { sc with ra := ra5, syms := sc.syms ++ ns2 } :: rs := by rw [hc5]
  have h24 : ∀ r, ra2.alloc r = true → ra4.alloc r = true := by
    intro r hr; rw [d2' r]; split
    · rfl
    · rw [e3' r]; exact hr
  have hd5 : ra5.alloc d = true := r15 d (by rw [d2' d]; simp) (Or.inr (Or.inl rfl))
  have hbx : s'.boxes = s_a.boxes := applyFn_cfun_boxes (n2 + 1) pos f hna [va] s_a s' v happ
  have hnames : ∀ x slot u l r, lk c2.scopes x = some (slot, u, l) → slot.k = .loc r → ra2.alloc r = true → ra5.alloc r = true :=
    fun x slot u l r hx hk hr => r15 r (h24 r hr) (Or.inr (Or.inr ⟨x, slot, u, l, hx, hk⟩))
  refine ⟨ra5, ns2, more2 ++ more3 ++ more4, seg2 ++ seg3 ++ seg4, segm2 ++ segm3 ++ segm4, ?_, ?_, ?_, ?_, ?_, ?_, ?_, ?_, ?_⟩
  · rw [hc5, hc4, hc3, hc2]
    simp [List.append_assoc]
  · rw [hc5, hc4, hc3]
    exact PrefA.trans k2 pv2
  · intro r hr; exact r15 r (h24 r (r1a r hr)) (Or.inl hr)
  · rw [hmax5]; exact Nat.le_trans r3a (Nat.le_trans m3' d4')
  · refine Or.inr (Or.inr ⟨by rw [hslot], by rw [hslot], d, by rw [hslot], hd_sc, hd5, hd240, ?_⟩)
    intro x slot u l hx hk
    rw [hs5, hlk2] at hx
    obtain ⟨_, _, _, r, a', hk', _, _, hal, _⟩ := es2.found hx
    rw [hk'] at hk
    have : r = d := by injection hk
    rw [this, ← e3' d, d1'] at hal
    exact Bool.noConfusion hal
  · rw [hbx]; exact bx2
  · rw [hs5, hbx]
    exact es2.of_lk (hlk2 ra5) (Nat.le_refl _) hnames
  · refine ⟨fun d0 hd0 hno => (nf2.1 d0 hd0 hno).of_lk (fun x => by rw [hs5, hlk2]), fun r hnm => ?_⟩
    rw [hslot] at hnm; exact absurd hnm (by simp)
  · intro k hkw hka hD hcode hpre hV hsz
    rw [hmax5] at hsz
    have hvals : c5.vals = c2.vals := by rw [hc5, hc4, hc3]
    rw [hvals] at hV
    have hcodeA : CodeAt (p.defs.getD f0.defIdx default).code k.pc seg2 := by
      rw [List.append_assoc] at hcode; exact hcode.left
    have hcodeB : CodeAt (p.defs.getD f0.defIdx default).code (k.pc + seg2.length) seg3 := by
      rw [List.append_assoc] at hcode; exact hcode.right.left
    have hcodeC : CodeAt (p.defs.getD f0.defIdx default).code (k.pc + seg2.length + seg3.length) seg4 := by
      rw [List.append_assoc] at hcode; exact hcode.right.right
    have hpreA : PrefL (pool ++ more2) P := by
      refine PrefL.trans ?_ hpre
      exact ⟨more3 ++ more4, by simp [List.append_assoc]⟩
    have hpreB : PrefL (pool ++ more2 ++ more3) P := by
      refine PrefL.trans ?_ hpre
      exact ⟨more4, by simp [List.append_assoc]⟩
    have hpreC : PrefL (pool ++ more2 ++ more3 ++ more4) P := by
      refine PrefL.trans ?_ hpre
      exact ⟨[], by simp [List.append_assoc]⟩
    obtain ⟨regs2, rch2, sz2, pr2, sv2, ed2⟩ := vm2 k hkw hka hD hcodeA hpreA hV (by omega)
    obtain ⟨regs3, rch3, sz3, pr3⟩ := vm3 { regs := regs2, pc := k.pc + seg2.length, args := #[], w := s_a.st.world } hcodeB hpreB
      (by show ra3.max < regs2.size; omega)
    have sz3' : regs3.size = regs2.size := sz3
    have hlit : litOf V kf = .cfun f := by
      rw [litOf_pref (PrefA.trans pv2 hV) kf k3]; exact k4
    have hargs : ((#[] : Array Value).push (slotVal V regs2 sa)).toList = [va] := by simp [sv2 rfl]
    obtain ⟨regs4, rch4, sz4, hv4, pr4⟩ := vm4
      { regs := regs3, pc := k.pc + seg2.length + seg3.length, args := (#[] : Array Value).push (slotVal V regs2 sa), w := s_a.st.world }
      s_a s' (n2 + 1) pos v hcodeC hpreC (by show ra4.max < regs3.size; omega) rfl hlit (by rw [hargs]; exact happ)
    have sz4' : regs4.size = regs3.size := sz4
    refine ⟨regs4, ?_, by omega, ?_, ?_, ?_⟩
    · have e : k.pc + (seg2 ++ seg3 ++ seg4).length = k.pc + seg2.length + seg3.length + seg4.length := by
        simp [List.length_append]; omega
      rw [e]
      exact Reach.trans rch2 (Reach.trans rch3 rch4)
    · intro r hr
      have h2r : ra2.alloc r = true := r1a r hr
      have h3r : ra3.alloc r = true := by rw [e3' r]; exact h2r
      rw [pr4 r h3r, pr3 r h2r, pr2 r hr]
    · intro _; simp only [slotVal, hslot]; exact hv4
    · intro x slot u l r a' hx hk he
      rw [hs5, hlk2] at hx
      obtain ⟨_, _, _, r', _, hk', _, _, hal, _⟩ := es2.found hx
      have hrr : r' = r := by rw [hk'] at hk; injection hk
      rw [hrr] at hal
      have h3r : ra3.alloc r = true := by rw [e3' r]; exact hal
      rw [pr4 r h3r, pr3 r hal, ed2 x slot u l r a' hx hk he]
      simp only [readBox, hbx]

end

end JanetModel.Compile
