/- C02: the compile-time invariant `EnvS` marks every resolvable name's register, so with `MutInj` it gives `AllocInv`
   (entry hypothesis of `set_hside_def`, Compile/SeqMutInjDefH.lean). -/
import JanetModel.Compile.SeqMutInjDefH
namespace JanetModel.Compile
open JanetModel.Emit JanetModel.Lang JanetModel.Bytecode.Exec JanetModel.Gen.Bytecode

/-- the compile-time invariant `EnvS` marks every resolvable name's register -/
theorem EnvS.allocInv {G : String → Prop} {sc : Scope} {rs : List Scope} {env : Env} {nb : Nat}
    (h : EnvS G (sc :: rs) env nb sc.ra) (hM : MutInj (sc :: rs)) : AllocInv (sc :: rs) := by
  refine ⟨hM, fun sc' rs' e x sl u l r hlk hk => ?_⟩
  obtain ⟨_, _, _, r', a, hk', _, _, hal, _⟩ := h.found hlk
  rw [hk] at hk'
  simp only [Slot.loc.injEq] at hk'
  subst hk'
  rw [← (List.cons.inj e).1]
  exact hal

end JanetModel.Compile
