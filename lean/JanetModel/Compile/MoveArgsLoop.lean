/- C02: the parameter loop of `janetc_fn` for ANY number of symbol parameters (also > 240: far registers), and the function-entry
   code of the model compiler: on a fresh function scope parameter k gets register `argReg k` (k, or k + 16 from the 241st on: the
   first-fit allocator skips the temporaries 0xF0–0xFF), the scope names it, and `fnMoveArgs` then appends exactly
   `moveArgsCode n argReg (n + 16)` — the code `moveArgs_alloc` (Compile/MoveArgs.lean) proves to deliver every argument in its
   parameter's register.  Compile-only. -/
import JanetModel.Compile.MoveArgs
namespace JanetModel.Compile
open JanetModel.Emit JanetModel.Lang JanetModel.Bytecode.Exec JanetModel.Gen.Bytecode

/-- allocation bits after j parameters on a fresh function scope -/
def parAlloc (j r : Nat) : Bool := decide ((r < 0xF0 ∧ r < j) ∨ (0x100 ≤ r ∧ r < j + 16))

/-- the symbols the loop appends: parameter j + i named in register `argReg (j + i)` -/
def parSyms : List String → Nat → List SymPair
  | [], _ => []
  | nm :: r, j => { name := nm, slot := { k := .loc (argReg j), named := true } } :: parSyms r (j + 1)

theorem parSyms_regs : ∀ (names : List String) (j : Nat), (parSyms names j).map (fun p => slotReg p.slot) = (List.range names.length).map (fun i => argReg (j + i))
  | [], _ => rfl
  | nm :: r, j => by
    simp only [parSyms, List.map_cons, List.length_cons, List.range_succ_eq_map, List.map_map]
    rw [parSyms_regs r (j + 1)]
    simp only [slotReg, Nat.add_zero, List.cons.injEq, true_and]
    apply List.map_congr_left
    intro i _
    simp only [Function.comp]
    congr 1
    omega

theorem firstFit_at (ra : RA) (j : Nat) (h1 : ∀ r, r < j → ra.taken r = true) (h2 : ra.taken j = false) :
    ∀ (fuel r0 : Nat), r0 ≤ j → j < r0 + fuel → firstFit ra fuel r0 = j := by
  intro fuel
  induction fuel with
  | zero => intro r0 h3 h4; omega
  | succ n ih =>
    intro r0 h3 h4
    by_cases e : r0 = j
    · subst e; simp [firstFit, h2]
    · have : ra.taken r0 = true := h1 r0 (by omega)
      simp only [firstFit, this, if_true]
      exact ih (r0 + 1) (by omega) (by omega)

/-- `janetc_regalloc_1` after j parameters: register `argReg j`, and the bits of j + 1 parameters -/
theorem alloc1_par (ra : RA) (j : Nat) (hj : j + 16 < searchFuel) (hal : ∀ r, ra.alloc r = parAlloc j r) :
    ra.alloc1.1 = argReg j ∧ ∀ r, ra.alloc1.2.alloc r = parAlloc (j + 1) r := by
  have h1 : ∀ r, r < argReg j → ra.taken r = true := by
    intro r hr
    simp only [RA.taken, hal, parAlloc, Bool.or_eq_true, decide_eq_true_eq, Bool.and_eq_true]
    simp only [argReg] at hr
    split at hr <;> omega
  have h2 : ra.taken (argReg j) = false := by
    simp only [RA.taken, hal, parAlloc, Bool.or_eq_false_iff, decide_eq_false_iff_not, Bool.and_eq_false_imp, decide_eq_true_eq]
    simp only [argReg]
    split <;> omega
  have hf : firstFit ra searchFuel 0 = argReg j :=
    firstFit_at ra (argReg j) h1 h2 searchFuel 0 (Nat.zero_le _) (by simp only [argReg]; split <;> omega)
  refine ⟨by simp [RA.alloc1, hf], fun r => ?_⟩
  simp only [RA.alloc1, hf, RA.mark, hal]
  by_cases e : r = argReg j
  · simp only [e, if_true, parAlloc, argReg]
    simp only [Bool.true_eq, decide_eq_true_eq]
    split <;> omega
  · simp only [e, if_false, parAlloc]
    simp only [argReg] at e
    apply decide_eq_decide.mpr
    split at e <;> omega

/-- **the parameter loop, any number of names**: registers `argReg j`, `argReg (j+1)`, … in order, named in the scope -/
theorem params_loop_regs : ∀ (names : List String) (c c3 : CState) (sc : Scope) (rs : List Scope) (j : Nat),
    c.scopes = sc :: rs → j + names.length + 16 < searchFuel → (∀ r, sc.ra.alloc r = parAlloc j r) →
    names.foldlM (fun (cc : CState) nm => do let (sl, cc') ← farslot cc; pure (nameslot cc' nm sl)) c = some c3 →
    ∃ (ra3 : RA), c3 = { c with scopes := { sc with ra := ra3, syms := sc.syms ++ parSyms names j } :: rs } ∧
      (∀ r, ra3.alloc r = parAlloc (j + names.length) r) := by
  intro names
  induction names with
  | nil =>
    intro c c3 sc rs j hs _ hal h
    simp only [List.foldlM_nil, Option.pure_def, Option.some.injEq] at h
    subst h
    refine ⟨sc.ra, ?_, by simpa using hal⟩
    cases c
    simp only [parSyms, List.append_nil] at *
    subst hs
    rfl
  | cons nm r ih =>
    intro c c3 sc rs j hs hfu hal h
    simp only [List.foldlM_cons, Option.bind_eq_bind, Option.bind_eq_some_iff] at h
    obtain ⟨c1, h1, h⟩ := h
    simp only [farslot, allocFar, hs, Option.pure_def, Option.bind_eq_bind, Option.bind_eq_some_iff, Prod.exists] at h1
    obtain ⟨sl, cc', ⟨r0, cf, hfar, hsl⟩, hc1⟩ := h1
    simp only [List.length_cons] at hfu
    obtain ⟨a1, a2⟩ := alloc1_par sc.ra j (by omega) hal
    split at hfar
    · exact absurd hfar (by simp)
    · simp only [Option.some.injEq, Prod.mk.injEq] at hfar hsl hc1
      obtain ⟨hr0, hcf⟩ := hfar
      obtain ⟨hsl1, hsl2⟩ := hsl
      subst hsl1 hsl2 hcf hc1
      have hs1 : (nameslot { c with scopes := { sc with ra := sc.ra.alloc1.2 } :: rs } nm { k := .loc r0 }).scopes =
          { sc with ra := sc.ra.alloc1.2, syms := sc.syms ++ [{ name := nm, slot := { k := .loc r0, named := true } }] } :: rs := by
        simp [nameslot]
      obtain ⟨ra3, e3, al3⟩ := ih _ c3 _ rs (j + 1) hs1 (by omega) a2 h
      refine ⟨ra3, ?_, fun r => by rw [al3 r]; simp only [List.length_cons]; congr 1; omega⟩
      rw [e3]
      have hr : r0 = argReg j := by rw [← hr0]; exact a1
      subst hr
      simp [nameslot, parSyms, List.append_assoc]

/-! ### the code only reads `reg` at the argument indices -/

theorem movesLow_congr (reg reg' : Nat → Nat) (lo : Nat) : ∀ cnt, (∀ k, lo ≤ k → k < lo + cnt → reg k = reg' k) →
    movesLow reg lo cnt = movesLow reg' lo cnt
  | 0, _ => rfl
  | cnt + 1, h => by
    simp only [movesLow]
    rw [h (lo + cnt) (by omega) (by omega), movesLow_congr reg reg' lo cnt (fun k a b => h k a (by omega))]

theorem movesHigh_congr (reg reg' : Nat → Nat) (lo : Nat) : ∀ cnt, (∀ k, lo ≤ k → k < lo + cnt → reg k = reg' k) →
    movesHigh reg lo cnt = movesHigh reg' lo cnt
  | 0, _ => rfl
  | cnt + 1, h => by
    simp only [movesHigh]
    rw [h (lo + cnt) (by omega) (by omega), movesHigh_congr reg reg' lo cnt (fun k a b => h k a (by omega))]

theorem moveArgsCode_congr (n : Nat) (reg reg' : Nat → Nat) (park : Nat) (hn : 0xF0 < n) (h : ∀ k, k < n → reg k = reg' k) :
    moveArgsCode n reg park = moveArgsCode n reg' park := by
  unfold moveArgsCode
  by_cases hb : n > 0x100
  · simp only [hb, if_true]
    rw [movesHigh_congr reg reg' 0x100 (n - 0x100) (fun k a b => h k (by omega)),
      movesLow_congr reg reg' 0xF0 15 (fun k a b => h k (by omega)), h 0xFF (by omega)]
  · simp only [hb, if_false]
    rw [movesLow_congr reg reg' 0xF0 (n - 0xF0) (fun k a b => h k (by omega))]

/-- **the entry code of a function with n > 0xF0 symbol parameters in the model compiler** (the two steps of `cValue`'s `fn` case
    after `pushScope`): the parameters are named in registers `argReg 0 … argReg (n−1)` and the code appended is
    `moveArgsCode n argReg (n + 16)` — by `moveArgs_alloc` it puts every argument in its parameter's register. -/
theorem fn_entry_code (c2 c3p c3 : CState) (sc : Scope) (rs : List Scope) (names : List String)
    (hs : c2.scopes = sc :: rs) (hfresh : ∀ r, sc.ra.alloc r = false) (hsy : sc.syms = [])
    (hn : 0xF0 < names.length) (hfu : names.length + 33 < searchFuel)
    (hpar : names.foldlM (fun (cc : CState) nm => do let (sl, cc') ← farslot cc; pure (nameslot cc' nm sl)) c2 = some c3p)
    (hmv : fnMoveArgs c3p ((c3p.scopes.headD default).syms.map (fun p => slotReg p.slot)) = some c3) :
    (∃ ra3, c3p.scopes = { sc with ra := ra3, syms := parSyms names 0 } :: rs) ∧
    c3.buf = c2.buf ++ (moveArgsCode names.length argReg (names.length + 16)).map CI.mi := by
  obtain ⟨ra3, e3, al3⟩ := params_loop_regs names c2 c3p sc rs 0 hs (by omega)
    (fun r => by rw [hfresh r]; simp only [parAlloc, Bool.false_eq, decide_eq_false_iff_not]; omega) hpar
  have hsc : c3p.scopes = { sc with ra := ra3, syms := parSyms names 0 } :: rs := by rw [e3, hsy]; rfl
  refine ⟨⟨ra3, hsc⟩, ?_⟩
  have hb3 : c3p.buf = c2.buf := by rw [e3]
  have hregs : (c3p.scopes.headD default).syms.map (fun p => slotReg p.slot) = (List.range names.length).map (fun i => argReg i) := by
    rw [hsc]
    simp only [List.headD_cons]
    rw [parSyms_regs names 0]
    simp
  rw [hregs] at hmv
  generalize hA : (List.range names.length).map (fun i => argReg i) = A at hmv
  have hAl : A.length = names.length := by rw [← hA]; simp
  have hAg : ∀ k, k < names.length → A.getD k 0 = argReg k := by
    intro k hk
    rw [← hA]
    simp [List.getD, hk]
  -- the code, up to the spare register
  have hcode : ∀ park, moveArgsCode A.length (fun k => A.getD k 0) park = moveArgsCode names.length argReg park := by
    intro park
    rw [hAl]
    exact moveArgsCode_congr names.length _ argReg park hn hAg
  unfold fnMoveArgs at hmv
  simp only [show ¬ A.length ≤ 0xF0 by omega, if_false] at hmv
  by_cases hb : A.length > 0x100
  · simp only [hb, if_true, Option.bind_eq_bind, Option.bind_eq_some_iff, Prod.exists] at hmv
    obtain ⟨park, c1, ha, hmv⟩ := hmv
    -- the spare register is n + 16
    have hpk : park = names.length + 16 := by
      simp only [allocFar, hsc] at ha
      split at ha
      · exact absurd ha (by simp)
      · simp only [Option.some.injEq, Prod.mk.injEq] at ha
        rw [← ha.1]
        have := (alloc1_par ra3 names.length (by omega) (fun r => by rw [al3 r]; simp)).1
        rw [this]
        simp only [argReg]
        split <;> omega
    have hb1 : c1.buf = c3p.buf := by
      simp only [allocFar, hsc] at ha
      split at ha
      · exact absurd ha (by simp)
      · simp only [Option.some.injEq, Prod.mk.injEq] at ha
        rw [← ha.2]
    split at hmv
    · simp only [Option.some.injEq] at hmv
      rw [← hmv]
      show (emitMIs c1 _).buf = _
      rw [(emitMIs_buf c1 _).1, hb1, hb3, hcode, hpk]
    · exact absurd hmv (by simp)
  · simp only [hb, if_false, Option.some.injEq] at hmv
    rw [← hmv, (emitMIs_buf c3p _).1, hb3, hcode]
    have hle : names.length ≤ 0x100 := by omega
    unfold moveArgsCode
    simp [show ¬ names.length > 0x100 by omega]

/-! ### totality: with enough registers the two steps succeed (so the hypotheses of `fn_entry_code` are satisfiable for every n) -/

theorem params_loop_total : ∀ (names : List String) (c : CState) (sc : Scope) (rs : List Scope) (j : Nat),
    c.scopes = sc :: rs → j + names.length + 16 < c.lim → c.lim ≤ searchFuel → (∀ r, sc.ra.alloc r = parAlloc j r) →
    ∃ c3, names.foldlM (fun (cc : CState) nm => do let (sl, cc') ← farslot cc; pure (nameslot cc' nm sl)) c = some c3 ∧ c3.lim = c.lim := by
  intro names
  induction names with
  | nil => intro c sc rs j _ _ _ _; exact ⟨c, rfl, rfl⟩
  | cons nm r ih =>
    intro c sc rs j hs hl hf hal
    simp only [List.length_cons] at hl
    obtain ⟨a1, a2⟩ := alloc1_par sc.ra j (by omega) hal
    have hlt : ¬ sc.ra.alloc1.1 ≥ c.lim := by
      rw [a1]; simp only [argReg]; split <;> omega
    have hfar : farslot c = some ({ k := .loc sc.ra.alloc1.1 }, { c with scopes := { sc with ra := sc.ra.alloc1.2 } :: rs }) := by
      simp [farslot, allocFar, hs, hlt]
    have hs1 : (nameslot { c with scopes := { sc with ra := sc.ra.alloc1.2 } :: rs } nm { k := .loc sc.ra.alloc1.1 }).scopes =
        { sc with ra := sc.ra.alloc1.2, syms := sc.syms ++ [{ name := nm, slot := { k := .loc sc.ra.alloc1.1, named := true } }] } :: rs := by
      simp [nameslot]
    have hl1 : (nameslot { c with scopes := { sc with ra := sc.ra.alloc1.2 } :: rs } nm { k := .loc sc.ra.alloc1.1 }).lim = c.lim := by
      simp [nameslot]
    obtain ⟨c3, h3, l3⟩ := ih _ _ rs (j + 1) hs1 (by rw [hl1]; omega) (by rw [hl1]; exact hf) a2
    refine ⟨c3, ?_, by rw [l3, hl1]⟩
    simp only [List.foldlM_cons, Option.bind_eq_bind, hfar, Option.pure_def, Option.bind_some]
    exact h3

/-- for every n with 0xF0 < n and n + 33 < 65536 the model compiler's two entry steps succeed on a fresh function scope -/
theorem fn_entry_total (names : List String) (hn : 0xF0 < names.length) (hb : names.length + 33 < 65536) :
    ∃ c3p c3, names.foldlM (fun (cc : CState) nm => do let (sl, cc') ← farslot cc; pure (nameslot cc' nm sl))
        (pushScope {} true false false false) = some c3p ∧
      fnMoveArgs c3p ((c3p.scopes.headD default).syms.map (fun p => slotReg p.slot)) = some c3 := by
  have hs : (pushScope ({} : CState) true false false false).scopes = [{ fn := true, ra := { alloc := fun _ => false }, start := 0 }] := rfl
  have hal : ∀ r, ({ fn := true, ra := { alloc := fun _ => false }, start := 0 } : Scope).ra.alloc r = parAlloc 0 r := by
    intro r; simp only [parAlloc, Bool.false_eq, decide_eq_false_iff_not]; omega
  have hlim : (pushScope ({} : CState) true false false false).lim = 65536 := rfl
  obtain ⟨c3p, h3, l3⟩ := params_loop_total names _ _ [] 0 hs (by rw [hlim]; omega) (by rw [hlim]; decide) hal
  obtain ⟨ra3, e3, al3⟩ := params_loop_regs names _ c3p _ [] 0 hs (by simp only [searchFuel]; omega) hal h3
  refine ⟨c3p, ?_⟩
  have hsc : c3p.scopes = [{ fn := true, ra := ra3, syms := parSyms names 0, start := 0 }] := by rw [e3]; rfl
  have hlen : ((c3p.scopes.headD default).syms.map (fun p => slotReg p.slot)).length = names.length := by
    rw [hsc]; simp only [List.headD_cons, List.length_map]
    have := congrArg List.length (parSyms_regs names 0)
    simpa using this
  unfold fnMoveArgs
  simp only [hlen, show ¬ names.length ≤ 0xF0 by omega, if_false]
  by_cases hbig : names.length > 0x100
  · simp only [hbig, if_true]
    obtain ⟨a1, _⟩ := alloc1_par ra3 names.length (by simp only [searchFuel]; omega) (fun r => by rw [al3 r]; simp)
    have hlt : ¬ ra3.alloc1.1 ≥ c3p.lim := by
      rw [a1, l3, hlim]; simp only [argReg]; split <;> omega
    have hfar : allocFar c3p = some (ra3.alloc1.1, { c3p with scopes := [{ fn := true, ra := ra3.alloc1.2, syms := parSyms names 0, start := 0 }] }) := by
      simp [allocFar, hsc, hlt]
    simp only [hfar, Option.bind_eq_bind, Option.bind_some]
    have hsc2 := (emitMIs_buf { c3p with scopes := [{ fn := true, ra := ra3.alloc1.2, syms := parSyms names 0, start := 0 }] }
      (moveArgsCode names.length (fun k => ((c3p.scopes.headD default).syms.map (fun p => slotReg p.slot)).getD k 0) ra3.alloc1.1)).2.1
    rw [hsc2]
    exact ⟨_, h3, rfl⟩
  · simp only [hbig, if_false]
    exact ⟨_, h3, rfl⟩

end JanetModel.Compile
