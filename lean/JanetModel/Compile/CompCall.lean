/- C02: `Compile.cValue` on the forms of the call fragment, unfolded once (options: value used, no hint, not tail). -/
import JanetModel.Compile.SemCall
namespace JanetModel.Compile
open JanetModel.Emit JanetModel.Lang JanetModel.Bytecode.Exec JanetModel.Gen.Bytecode

/-- mapping cursor move of `macroexpand1` -/
def curAt (c : CState) (p : Pos) : CState := if p.line ≥ 0 then { c with cur := p } else c

def fin (last : Pos) : Option (JSlot × CState) → Option (JSlot × CState)
  | none => none
  | some (s, c1) => some (s, { c1 with cur := last })

theorem cValue_sym (fuel : Nat) (x : String) (c : CState) : cValue (fuel + 1) {} (.sym x) c = fin c.cur (resolve c x) := by
  simp only [cValue]
  cases resolve c x with
  | none => rfl
  | some a => cases a; rfl

theorem cValue_call (fuel : Nat) (f : String) (args : List Expr) (p : Pos) (c : CState) (hf : specials.contains f = false) :
    cValue (fuel + 1) {} (.form (.sym f :: args) p) c = fin c.cur (cCall (cValue fuel) {} (.sym f) args (curAt c p)) := by
  have hf' := hf
  simp only [specials, List.contains_cons, List.contains_nil, Bool.or_false, Bool.or_eq_false_iff, beq_eq_false_iff_ne, ne_eq] at hf'
  obtain ⟨h1, h2, h3, h4, h5, h6, h7, h8, h9, h10, h11, h12, h13⟩ := hf'
  rw [cValue] <;> first | (intros; simp_all; done) | skip
  simp only [hf, curAt]
  cases cCall (cValue fuel) {} (.sym f) args (if p.line ≥ 0 then { c with cur := p } else c) with
  | none => rfl
  | some a => cases a; rfl

end JanetModel.Compile
