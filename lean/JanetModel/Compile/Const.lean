/- C02: constants of the compiler model: the `KConst` chosen for a literal stands for that literal (`litOf`), the value table
   only grows. -/
import JanetModel.Compile.Run
namespace JanetModel.Compile
open JanetModel.Emit JanetModel.Lang JanetModel.Bytecode.Exec JanetModel.Gen.Bytecode

/-- `a` is an initial segment of `b` -/
def PrefA (a b : Array Value) : Prop := a.size ≤ b.size ∧ ∀ i, i < a.size → b.getD i .nil = a.getD i .nil

theorem PrefA.refl (a : Array Value) : PrefA a a := ⟨Nat.le_refl _, fun _ _ => rfl⟩
theorem PrefA.trans {a b c : Array Value} (h1 : PrefA a b) (h2 : PrefA b c) : PrefA a c :=
  ⟨Nat.le_trans h1.1 h2.1, fun i hi => by rw [h2.2 i (by have := h1.1; omega), h1.2 i hi]⟩
theorem PrefA.push (a : Array Value) (v : Value) : PrefA a (a.push v) :=
  ⟨by simp, fun i hi => by
    simp [Array.getD, hi, Array.getElem_push_lt hi]
    intro h; omega⟩

/-- the constant refers to an entry of the table -/
def KWf (vals : Array Value) : KConst → Prop
  | .other i => i < vals.size
  | _ => True

theorem litOf_pref {a b : Array Value} (h : PrefA a b) (k : KConst) (hk : KWf a k) : litOf b k = litOf a k := by
  cases k with
  | other i => exact h.2 i hk
  | _ => rfl

theorem KWf.mono {a b : Array Value} (h : PrefA a b) (k : KConst) (hk : KWf a k) : KWf b k := by
  cases k with
  | other i => exact Nat.lt_of_lt_of_le hk h.1
  | _ => trivial

/-- literals whose compile-time equality (`constEq`) is decided without recursion -/
def SimpleLit : Value → Prop
  | .nil | .bool _ | .num _ | .str _ | .kw _ | .sym _ | .cfun _ => True
  | _ => False

theorem constEq_eq (FF : FloatFacts) (a v : Value) (hv : SimpleLit v) (h : constEq a v = true) : a = v := by
  cases v <;> simp only [SimpleLit] at hv <;> cases a <;> simp only [constEq, Bool.false_eq_true] at h
  all_goals first
    | rfl
    | (simp only [beq_iff_eq] at h; subst h; rfl)
    | (have := FF.bits _ _ (by simpa using h); subst this; rfl)

theorem findVal_spec (FF : FloatFacts) (vals : Array Value) (v : Value) (hv : SimpleLit v) (i : Nat) (h : findVal vals v = some i) :
    i < vals.size ∧ vals.getD i .nil = v := by
  unfold findVal at h
  have hm := List.mem_of_find?_eq_some h
  have hp := List.find?_some h
  exact ⟨by simpa using hm, constEq_eq FF _ v hv hp⟩

/-- `kOf`: the constant stands for the literal; only the value table may change, by one push -/
theorem kOf_spec (FF : FloatFacts) (c : CState) (v : Value) (hv : SimpleLit v) :
    (kOf c v).2 = { c with vals := (kOf c v).2.vals } ∧ PrefA c.vals (kOf c v).2.vals ∧ KWf (kOf c v).2.vals (kOf c v).1 ∧
    litOf (kOf c v).2.vals (kOf c v).1 = v := by
  have other : ∀ w : Value, SimpleLit w →
      (∀ i, findVal c.vals w = some i → kOf c w = (.other i, c)) →
      (findVal c.vals w = none → kOf c w = (.other c.vals.size, { c with vals := c.vals.push w })) →
      (kOf c w).2 = { c with vals := (kOf c w).2.vals } ∧ PrefA c.vals (kOf c w).2.vals ∧ KWf (kOf c w).2.vals (kOf c w).1 ∧
        litOf (kOf c w).2.vals (kOf c w).1 = w := by
    intro w hw hs hn
    cases hf : findVal c.vals w with
    | some i =>
      rw [hs i hf]
      obtain ⟨h1, h2⟩ := findVal_spec FF c.vals w hw i hf
      exact ⟨rfl, PrefA.refl _, h1, h2⟩
    | none =>
      rw [hn hf]
      refine ⟨rfl, PrefA.push _ _, by simp [KWf], ?_⟩
      simp [litOf, Array.getD]
  cases v with
  | nil => exact ⟨rfl, PrefA.refl _, trivial, rfl⟩
  | bool b => cases b <;> exact ⟨rfl, PrefA.refl _, trivial, rfl⟩
  | num x =>
    cases hi : intLit x with
    | some n =>
      have e : kOf c (.num x) = (.int n, c) := by simp [kOf, hi]
      rw [e]
      exact ⟨rfl, PrefA.refl _, trivial, by simp [litOf, FF.int16 x n hi]⟩
    | none => exact other (.num x) trivial (fun i h => by simp [kOf, hi, h]) (fun h => by simp [kOf, hi, h])
  | str s => exact other (.str s) trivial (fun i h => by simp [kOf, h]) (fun h => by simp [kOf, h])
  | sym s => exact other (.sym s) trivial (fun i h => by simp [kOf, h]) (fun h => by simp [kOf, h])
  | kw s => exact other (.kw s) trivial (fun i h => by simp [kOf, h]) (fun h => by simp [kOf, h])
  | cfun s => exact other (.cfun s) trivial (fun i h => by simp [kOf, h]) (fun h => by simp [kOf, h])
  | tuple _ _ => exact absurd hv (by simp [SimpleLit])
  | struct _ => exact absurd hv (by simp [SimpleLit])
  | arr _ => exact absurd hv (by simp [SimpleLit])
  | tbl _ => exact absurd hv (by simp [SimpleLit])
  | buf _ => exact absurd hv (by simp [SimpleLit])
  | fn _ => exact absurd hv (by simp [SimpleLit])

theorem kOf_spec' (FF : FloatFacts) (c : CState) (v : Value) (hv : SimpleLit v) :
    ∃ (vals1 : Array Value) (kf : KConst), kOf c v = (kf, { c with vals := vals1 }) ∧ PrefA c.vals vals1 ∧ KWf vals1 kf ∧ litOf vals1 kf = v := by
  obtain ⟨h1, h2, h3, h4⟩ := kOf_spec FF c v hv
  exact ⟨(kOf c v).2.vals, (kOf c v).1, Prod.ext rfl h1, h2, h3, h4⟩

end JanetModel.Compile
