/- C02: error propagation for the core fragment: if `Lang/Sem.eval` of a form of `TF G b` ends in `.err ev epos s'`, the VM,
   started at the form's code, reaches a configuration in the world `s'.st.world` whose next step raises `ev` at `epos`
   (`ErrAt`, `tf_err_correct_gen`; the `if` case is a parameter, `b = false` is unconditional: `tf_err_correct`).
   The error occurs in exactly one sub-form: the sub-forms before it ran (`CorrectAt`), the failing one by induction, what is
   compiled after it only appends (`App`, from the shape and `max` theorems). -/
import JanetModel.Compile.SeqErrAllBase
namespace JanetModel.Compile
open JanetModel.Emit JanetModel.Lang JanetModel.Bytecode.Exec JanetModel.Gen.Bytecode

/-- compile-only summary of one compiled form: append-only, map as long as code, the appended segments -/
theorem tf_app (G : String → Prop) (b : Bool) (fuel : Nat) (e : Expr) (opts : Fopts) (c c' : CState) (slot : JSlot) (sc : Scope) (rs : List Scope)
    (pool : List KConst) (ps : List (List KConst))
    (ht : opts.tail = false) (hh : opts.hint = none) (hs : c.scopes = sc :: rs) (hp : c.pools = pool :: ps) (htop : sc.top = false)
    (hm : c.map.length = c.buf.length) (hT : TF G b e) (hL : LkL G c.scopes) (hc : cValue fuel opts e c = some (slot, c')) :
    App c c' rs ps ∧ c'.map.length = c'.buf.length ∧ ∃ seg segm, c'.buf = c.buf ++ seg ∧ c'.map = c.map ++ segm := by
  obtain ⟨S, _⟩ := tf_shapeM_at G fuel b e opts c c' slot sc rs pool ps ht hh hs hp htop hm hT hL hc
  have M := tf_maxM_at G fuel b e opts c c' slot sc rs pool ps ht hh hs hp htop hm hT hL hc
  refine ⟨S.app hs hp M, S.mapLen hm, ?_⟩
  obtain ⟨ra', ns, more, seg, segm, hc', _⟩ := S
  exact ⟨seg, segm, by rw [hc'], by rw [hc']⟩

section
variable (p : Program) (f0 : Frame) (rest : List Frame) (V : Array Value) (P : List KConst)

/-- the error statement at compile fuel `fuel` -/
def ErrAt (G : String → Prop) (b : Bool) (fuel : Nat) : Prop :=
  ∀ (e : Expr) (opts : Fopts) (c c' : CState) (slot : JSlot) (sc : Scope) (rs : List Scope) (pool : List KConst) (ps : List (List KConst))
    (n : Nat) (cur : Pos) (env : Env) (s s' : SS) (ev : Value) (epos : Pos),
    opts.tail = false → opts.hint = none → c.scopes = sc :: rs → c.pools = pool :: ps → c.lim ≤ 240 → sc.top = false →
    c.map.length = c.buf.length → c.cur = cur → TF G b e → cValue fuel opts e c = some (slot, c') →
    eval n cur env e s = .err ev epos s' → EnvS G c.scopes env s.boxes.size sc.ra →
    ErrOK p f0 rest V P c c' rs ps env s s' ev epos

/-- operands: the first operand that raises -/
theorem toSlots_err (G : String → Prop) (b w : Bool) (fuel : Nat) (CN : CorrectAt p f0 rest V P G (TF G b) w fuel)
    (IH : ErrAt p f0 rest V P G b fuel) : ∀ (args : List Expr), (∀ a, a ∈ args → TF G b a) →
    ∀ (c c' : CState) (slots : List JSlot) (sc : Scope) (rs : List Scope) (pool : List KConst) (ps : List (List KConst))
      (n : Nat) (cur : Pos) (env : Env) (s s' : SS) (ev : Value) (epos : Pos),
      c.scopes = sc :: rs → c.pools = pool :: ps → c.lim ≤ 240 → sc.top = false → c.map.length = c.buf.length → c.cur = cur →
      toSlots (cValue fuel) args c = some (slots, c') → evalArgs n cur env args s = .err ev epos s' →
      EnvS G c.scopes env s.boxes.size sc.ra → ErrOK p f0 rest V P c c' rs ps env s s' ev epos := by
  intro args
  induction args with
  | nil =>
    intro _ c c' slots sc rs pool ps n cur env s s' ev epos _ _ _ _ _ _ _ hsem
    exact absurd hsem (evalArgs_nil_err n cur env s s' ev epos)
  | cons a as ih =>
    intro hT c c' slots sc rs pool ps n cur env s s' ev epos hs hp hl htop hm hcur hc hsem hE
    simp only [toSlots, Option.bind_eq_bind, Option.bind_eq_some_iff, Prod.exists, Option.pure_def, Option.some.injEq, Prod.mk.injEq] at hc
    obtain ⟨sl1, c1, hx, ss, c2, hrest, _, hc2⟩ := hc
    rw [← hc2]
    have hTa := hT a (by simp)
    obtain ⟨S1, _⟩ := tf_shapeM_at G fuel b a {} c c1 sl1 sc rs pool ps rfl rfl hs hp htop hm hTa hE.lkl hx
    obtain ⟨sc1, pool1, hs1, hp1, ht1, hL1, _⟩ := S1.out
    have hm1 := S1.mapLen hm
    have htop1 : sc1.top = false := by rw [ht1]; exact htop
    have SR := toSlots_shapeM G fuel (tf_shapeM_at G fuel) b as (fun e he => hT e (by simp [he])) c1 c2 ss sc1 rs pool1 ps hs1 hp1 htop1 hm1 hL1 hrest
    have MR := toSlots_maxR G fuel (tf_maxM_at G fuel) b as (fun e he => hT e (by simp [he])) c1 c2 ss sc1 rs pool1 ps hs1 hp1 htop1 hm1 hL1 hrest
    have AR : App c1 c2 rs ps := SR.app hs1 hp1 MR
    obtain ⟨n2, hn, hcase⟩ := evalArgs_cons_err_inv n cur env a as s s' ev epos hTa.notSplice hsem
    rcases hcase with he | ⟨v1, env1, s1, he1, he2⟩
    · have E1 := IH a {} c c1 sl1 sc rs pool ps n2 cur env s s' ev epos rfl rfl hs hp hl htop hm hcur hTa hx he hE
      obtain ⟨ra', ns, more, seg, segm, hc1, _⟩ := S1
      exact E1.extend seg segm (by rw [hc1]) (by rw [hc1]) AR
    · have H := CN a {} c c1 sl1 sc rs pool ps n2 cur env env1 s s1 v1 rfl rfl hs hp hl htop (fun _ => hm) hTa hx he1 hE
      have H2 := H
      obtain ⟨ra1, ns1, more1, seg1, segm1, hc1, pv1, mono1, max1, sok1, bx1, es1, nf1, vm1⟩ := H2
      have hs1' : c1.scopes = { sc with ra := ra1, syms := sc.syms ++ ns1 } :: rs := by rw [hc1]
      have hp1' : c1.pools = (pool ++ more1) :: ps := by rw [hc1]
      have E2 := ih (fun e he => hT e (by simp [he])) c1 c2 ss _ rs _ ps n2 cur env1 s1 s' ev epos hs1' hp1' (by rw [hc1]; exact hl) htop
        hm1 (by rw [hc1]; exact hcur) hrest he2 es1
      exact ErrOK.after H hm hm1 rfl rfl rfl rfl (fun _ => rfl) (MaxR.refl c1 rs) AR E2

/-- what `cCall` does after the operands: pushes, target, CALL, frees -/
theorem cCall_rest_app (c2 c3 cT c4 c5 cq : CState) (slots : List JSlot) (slot head : JSlot) (sc2 : Scope) (rs : List Scope) (pool2 : List KConst)
    (ps : List (List KConst)) (hs2 : c2.scopes = sc2 :: rs) (hp2 : c2.pools = pool2 :: ps)
    (h3 : pushSlots c2 slots = some c3) (hT : getTarget c3 {} = some (slot, cT)) (hEm : emitSS cT .call slot head true = some c4)
    (hf1 : freeslots c4 slots = some c5) (hf2 : freeslot c5 head = some cq) : App c2 cq rs ps := by
  have R3 := pushSlots_stepR slots c2 c3 sc2 rs pool2 ps hs2 hp2 h3
  obtain ⟨sc3, pool3, hs3, hp3, _, _⟩ := R3.out
  have R4 := getTarget_stepR c3 cT {} slot rfl sc3 rs pool3 ps hs3 hp3 hT
  obtain ⟨sc4, pool4, hs4, hp4, _, _⟩ := R4.out
  have R5 := emitSS_stepR cT c4 _ slot head true sc4 rs pool4 ps hs4 hp4 hEm
  obtain ⟨sc5, pool5, hs5, hp5, _, _⟩ := R5.out
  have R6 := freeslots_stepR slots c4 c5 sc5 rs pool5 ps hs5 hp5 hf1
  obtain ⟨sc6, pool6, hs6, hp6, _, _⟩ := R6.out
  have R7 := freeslot_stepR c5 cq head sc6 rs pool6 ps hs6 hp6 hf2
  exact (R3.app hs2 hp2 (pushSlots_maxR slots c2 c3 sc2 rs pool2 ps hs2 hp2 h3)).trans
    ((R4.app hs3 hp3 (getTarget_maxR c3 cT {} slot rfl sc3 rs hs3 hT)).trans
      ((R5.app hs4 hp4 (emitW_maxR cT c4 _ sc4 rs pool4 ps hs4 hp4 (fun e => W_emitSS_max e _ _ _ _) hEm)).trans
        ((R6.app hs5 hp5 (freeslots_maxR slots c4 c5 sc5 rs pool5 ps hs5 hp5 hf1)).trans
          (R7.app hs6 hp6 (freeslot_maxR c5 cq head sc6 rs hs6 hf2)))))

/-- a call: an operand raises, or the application does -/
theorem call_err (hP : P.length < 65536)
    (hK : ∀ i, i < P.length → (p.defs.getD f0.defIdx default).consts.getD i .nil = litOf V (P.getD i .nil))
    (FF : FloatFacts) (G : String → Prop) (b w : Bool) (fuel : Nat) (CN : CorrectAt p f0 rest V P G (TF G b) w fuel)
    (IH : ErrAt p f0 rest V P G b fuel)
    (f : String) (args : List Expr) (pp : Pos) (hf : specials.contains f = false) (hna : f ≠ "apply") (hG : G f) (hTa : ∀ a, a ∈ args → TF G b a)
    (c cq : CState) (slot0 : JSlot) (sc : Scope) (rs : List Scope) (pool : List KConst) (ps : List (List KConst))
    (n : Nat) (cur : Pos) (env : Env) (s s' : SS) (ev : Value) (epos : Pos)
    (hs : c.scopes = sc :: rs) (hp : c.pools = pool :: ps) (hl : c.lim ≤ 240) (htop : sc.top = false) (hm : c.map.length = c.buf.length)
    (hcur : c.cur = posOf cur pp)
    (hcc : cCall (cValue fuel) {} (.sym f) args c = some (slot0, cq))
    (hsem : eval n cur env (.form (.sym f :: args) pp) s = .err ev epos s')
    (hE : EnvS G c.scopes env s.boxes.size sc.ra) : ErrOK p f0 rest V P c cq rs ps env s s' ev epos := by
  have hgl : lookupEnv env f = none := by
    rcases hE.2 f with ⟨_, h⟩ | ⟨sl, r, a', u, h, _⟩
    · exact h
    · rw [hE.1 f hG] at h; exact absurd h (by simp)
  obtain ⟨n2, hn, hcase⟩ := eval_callN_err_inv n cur env f args pp s s' ev epos hf hgl hsem
  rcases hcase with hargs | ⟨vs, env_a, s_a, hargs, happ⟩
  · -- an operand raises
    obtain ⟨head, c1, slots, c2, c3, cT, c4, c5, h1, h2, h3, hT, hEm, hf1, hf2⟩ := cCall_steps (cValue fuel) f args c cq slot0 hcc
    have hsh : eval (n2 + 1) (posOf cur pp) env (.sym f) s = .ok (.cfun f, env) s := eval_sym_global n2 _ env f s hgl
    have H := CN (.sym f) {} c c1 head sc rs pool ps (n2 + 1) (posOf cur pp) env env s s (.cfun f) rfl rfl hs hp hl htop (fun _ => hm) (.sym f) h1 hsh hE
    have H2 := H
    obtain ⟨ra1, ns1, more1, seg1, segm1, hc1, pv1, mono1, max1, sok1, bx1, es1, nf1, vm1⟩ := H2
    have hs1 : c1.scopes = { sc with ra := ra1, syms := sc.syms ++ ns1 } :: rs := by rw [hc1]
    have hp1 : c1.pools = (pool ++ more1) :: ps := by rw [hc1]
    obtain ⟨_, hm1, _⟩ := tf_app G b fuel (.sym f) {} c c1 head sc rs pool ps rfl rfl hs hp htop hm (.sym f) hE.lkl h1
    have E2 := toSlots_err p f0 rest V P G b w fuel CN IH args hTa c1 c2 slots _ rs _ ps (n2 + 1) (posOf cur pp) env s s' ev epos hs1 hp1
      (by rw [hc1]; exact hl) htop hm1 (by rw [hc1]; exact hcur) h2 hargs es1
    have S2 := toSlots_shapeM G fuel (tf_shapeM_at G fuel) b args hTa c1 c2 slots _ rs _ ps hs1 hp1 htop hm1 es1.lkl h2
    have M2 := toSlots_maxR G fuel (tf_maxM_at G fuel) b args hTa c1 c2 slots _ rs _ ps hs1 hp1 htop hm1 es1.lkl h2
    obtain ⟨sc2, pool2, hs2, hp2, _, _, _⟩ := S2.out
    have A2 : App c1 c2 rs ps := S2.app hs1 hp1 M2
    have A3 : App c2 cq rs ps := cCall_rest_app c2 c3 cT c4 c5 cq slots slot0 head sc2 rs pool2 ps hs2 hp2 h3 hT hEm hf1 hf2
    obtain ⟨ra', ns, more, seg, segm, hc2, _⟩ := S2
    have E3 := E2.extend seg segm (by rw [hc2]) (by rw [hc2]) A3
    exact ErrOK.after H hm hm1 rfl rfl rfl rfl (fun _ => rfl) (MaxR.refl c1 rs) (A2.trans A3) E3
  · -- the application raises
    rw [← hcur] at hargs happ
    obtain ⟨hpos, hst, mx, more, seg, segm, e1, e2, e3, e4, ⟨sc0, e5, e6⟩, vm⟩ :=
      err_call_core p f0 rest V P hP hK FF G b w fuel CN f args hna hG hTa c cq slot0 sc rs pool ps n2 env env_a s s_a s' vs ev epos
        hs hp hl htop hm hcc hargs happ hE
    intro sc' pool' seg' segm' a1 a2 a3 a4 k b1 b2 b3 b4 b5 b6 b7 b8
    rw [e5] at a1
    rw [e3] at a2
    have x1 : sc0 = sc' := (List.cons.inj a1).1
    have x2 : pool ++ more = pool' := (List.cons.inj a2).1
    have x3 : seg = seg' := by rw [e1] at a3; exact List.append_cancel_left a3
    have x4 : segm = segm' := by rw [e2] at a4; exact List.append_cancel_left a4
    subst x1 x2 x3 x4
    exact vm k b1 b2 b3 b4 b5 b6 b7 (by rw [← e6]; exact b8)

/-- statements of a `do` / `upscope` body: the first statement that raises -/
theorem doBody_err (G : String → Prop) (b w : Bool) (fuel : Nat) (CN : CorrectAt p f0 rest V P G (TF G b) w fuel)
    (IH : ErrAt p f0 rest V P G b fuel) : ∀ (body : List Expr), (∀ e, e ∈ body → TF G b e) →
    ∀ (opts : Fopts) (c c' : CState) (slot : JSlot) (sc : Scope) (rs : List Scope) (pool : List KConst) (ps : List (List KConst))
      (n : Nat) (cur : Pos) (env : Env) (s s' : SS) (ev : Value) (epos : Pos),
      opts.tail = false → opts.hint = none → c.scopes = sc :: rs → c.pools = pool :: ps → c.lim ≤ 240 → sc.top = false →
      c.map.length = c.buf.length → c.cur = cur →
      doBody (cValue fuel) opts body c = some (slot, c') → evalSeq n cur env body s = .err ev epos s' →
      EnvS G c.scopes env s.boxes.size sc.ra → ErrOK p f0 rest V P c c' rs ps env s s' ev epos := by
  intro body
  induction body with
  | nil =>
    intro _ opts c c' slot sc rs pool ps n cur env s s' ev epos _ _ _ _ _ _ _ _ _ hsem
    exact absurd hsem (evalSeq_nil_err n cur env s s' ev epos)
  | cons x t ih =>
    intro hT opts c c' slot sc rs pool ps n cur env s s' ev epos ht hh hs hp hl htop hm hcur hc hsem hE
    have hTx := hT x (by simp)
    cases t with
    | nil =>
      simp only [doBody] at hc
      obtain ⟨n2, hn, he⟩ := evalSeq_one_err_inv n cur env x s s' ev epos hsem
      exact IH x opts c c' slot sc rs pool ps n2 cur env s s' ev epos ht hh hs hp hl htop hm hcur hTx hc he hE
    | cons y r =>
      simp only [doBody, Option.bind_eq_bind, Option.bind_eq_some_iff, Prod.exists] at hc
      obtain ⟨sl1, c1, hx, c1f, hf, hrest⟩ := hc
      obtain ⟨S1, _⟩ := tf_shapeM_at G fuel b x { drop := true } c c1 sl1 sc rs pool ps rfl rfl hs hp htop hm hTx hE.lkl hx
      obtain ⟨sc1, pool1, hs1, hp1, ht1, hL1, _⟩ := S1.out
      have hm1 := S1.mapLen hm
      have Rf := freeslot_stepR c1 c1f sl1 sc1 rs pool1 ps hs1 hp1 hf
      have Mf := freeslot_maxR c1 c1f sl1 sc1 rs hs1 hf
      have Sf := Rf.shp hs1 hL1
      obtain ⟨sc2, pool2, hs2, hp2, ht2, hL2, _⟩ := Sf.out
      have hm2 := Sf.mapLen hm1
      have htop2 : sc2.top = false := by rw [ht2, ht1]; exact htop
      have hTr : ∀ e, e ∈ y :: r → TF G b e := fun e he => hT e (by simp [he])
      obtain ⟨SR, _⟩ := doBody_shapeM G fuel (tf_shapeM_at G fuel) b (y :: r) hTr opts c1f c' slot sc2 rs pool2 ps ht hh hs2 hp2 htop2 hm2 hL2 hrest
      have MR := doBody_maxR G fuel (tf_maxM_at G fuel) b (y :: r) hTr opts c1f c' slot sc2 rs pool2 ps ht hh hs2 hp2 htop2 hm2 hL2 hrest
      have AR : App c1f c' rs ps := SR.app hs2 hp2 MR
      obtain ⟨n2, hn, hcase⟩ := evalSeq_cons_err_inv n cur env x y r s s' ev epos hsem
      rcases hcase with he | ⟨v1, env1, s1, he1, he2⟩
      · have E1 := IH x { drop := true } c c1 sl1 sc rs pool ps n2 cur env s s' ev epos rfl rfl hs hp hl htop hm hcur hTx hx he hE
        obtain ⟨ra', ns, more, seg, segm, hc1, _⟩ := S1
        exact E1.extend seg segm (by rw [hc1]) (by rw [hc1]) ((Rf.app hs1 hp1 Mf).trans AR)
      · have H := CN x { drop := true } c c1 sl1 sc rs pool ps n2 cur env env1 s s1 v1 rfl rfl hs hp hl htop (fun _ => hm) hTx hx he1 hE
        have H2 := H
        obtain ⟨ra1, ns1, more1, seg1, segm1, hc1, pv1, mono1, max1, sok1, bx1, es1, nf1, vm1⟩ := H2
        have hs1' : c1.scopes = { sc with ra := ra1, syms := sc.syms ++ ns1 } :: rs := by rw [hc1]
        obtain ⟨raf, hcf, hmaxf, hkeep⟩ := freeslot_ok c1 c1f sl1 sc { sc with ra := ra1, syms := sc.syms ++ ns1 } rs hs1' sok1 hf
        have hsf : c1f.scopes = { sc with ra := raf, syms := sc.syms ++ ns1 } :: rs := by rw [hcf]
        have hpf : c1f.pools = (pool ++ more1) :: ps := by rw [hcf, hc1]
        have hlkf : ∀ z, lk c1f.scopes z = lk c1.scopes z := by intro z; rw [hsf, hs1']; rfl
        have esf : EnvS G c1f.scopes env1 s1.boxes.size raf :=
          es1.of_lk hlkf (Nat.le_refl _) (fun z slot u l r hx hk hr => hkeep r hr (Or.inr ⟨z, slot, u, l, hx, hk⟩))
        have E2 := ih hTr opts c1f c' slot _ rs _ ps n2 cur env1 s1 s' ev epos ht hh hsf hpf (by rw [hcf, hc1]; exact hl) htop
          hm2 (by rw [hcf, hc1]; exact hcur) hrest he2 esf
        exact ErrOK.after H hm hm1 (by rw [hcf]) (by rw [hcf]) (by rw [hcf]) (by rw [hcf]) hlkf Mf AR E2

/-- what the `if` case has to deliver -/
def ErrIfCase (G : String → Prop) (b : Bool) (fuel : Nat) : Prop :=
  ∀ (cnd tb : Expr) (els : List Expr) (pp : Pos), CondOK cnd → els.length ≤ 1 → TF G b cnd → TF G b tb → (∀ e, e ∈ els → TF G b e) →
  ∀ (opts : Fopts) (c c' : CState) (slot : JSlot) (sc : Scope) (rs : List Scope) (pool : List KConst) (ps : List (List KConst))
    (n : Nat) (cur : Pos) (env : Env) (s s' : SS) (ev : Value) (epos : Pos),
    opts.tail = false → opts.hint = none → c.scopes = sc :: rs → c.pools = pool :: ps → c.lim ≤ 240 → sc.top = false →
    c.map.length = c.buf.length → c.cur = cur →
    cValue (fuel + 1) opts (.form (.sym "if" :: cnd :: tb :: els) pp) c = some (slot, c') →
    eval n cur env (.form (.sym "if" :: cnd :: tb :: els) pp) s = .err ev epos s' → EnvS G c.scopes env s.boxes.size sc.ra →
    ErrOK p f0 rest V P c c' rs ps env s s' ev epos

/-- the cursor restored at the end of a form does not matter -/
theorem ErrOK.recur {c cq : CState} {q : Pos} {rs : List Scope} {ps : List (List KConst)} {env : Env} {s s' : SS} {ev : Value} {epos : Pos}
    (h : ErrOK p f0 rest V P { c with cur := q } cq rs ps env s s' ev epos) :
    ErrOK p f0 rest V P c { cq with cur := c.cur } rs ps env s s' ev epos :=
  ErrOK.congr h (fun _ => rfl) rfl rfl rfl rfl rfl rfl rfl

theorem tf_err_correct_gen (hP : P.length < 65536)
    (hK : ∀ i, i < P.length → (p.defs.getD f0.defIdx default).consts.getD i .nil = litOf V (P.getD i .nil))
    (FF : FloatFacts) (G : String → Prop) (b w : Bool) (CN : ∀ fuel, CorrectAt p f0 rest V P G (TF G b) w fuel)
    (IFE : b = true → ∀ fuel, ErrAt p f0 rest V P G b fuel → ErrIfCase p f0 rest V P G b fuel) :
    ∀ fuel, ErrAt p f0 rest V P G b fuel := by
  intro fuel
  induction fuel with
  | zero =>
    intro e opts c c' slot sc rs pool ps n cur env s s' ev epos _ _ _ _ _ _ _ _ _ hc
    simp [cValue] at hc
  | succ fuel ih =>
    intro e opts c c' slot sc rs pool ps n cur env s s' ev epos ht hh hs hp hl htop hm hcur hT hc hsem hE
    cases hT with
    | lit w' hw =>
      cases n with
      | zero => simp [eval] at hsem
      | succ n => rw [eval_lit] at hsem; exact absurd hsem (by simp)
    | sym x =>
      cases n with
      | zero => simp [eval] at hsem
      | succ n =>
        cases hl' : lookupEnv env x with
        | none => rw [eval_sym_global n cur env x s hl'] at hsem; exact absurd hsem (by simp)
        | some a => rw [eval_sym_local n cur env x s a hl'] at hsem; exact absurd hsem (by simp)
    | call f args pp hf hna hG hTa =>
      rw [cValue_call_o fuel opts ht hh f args pp c hf] at hc
      have hq := posOf_curAt c cur pp hcur
      cases hcc : cCall (cValue fuel) {} (.sym f) args (curAt c pp) with
      | none => rw [hcc] at hc; simp [fin] at hc
      | some res =>
        obtain ⟨slot0, cq⟩ := res
        rw [hcc] at hc
        simp only [fin, Option.some.injEq, Prod.mk.injEq] at hc
        rw [← hc.2]
        rw [hq] at hcc
        exact ErrOK.recur p f0 rest V P (call_err p f0 rest V P hP hK FF G b w fuel (CN fuel) ih f args pp hf hna hG hTa { c with cur := posOf cur pp } cq slot0
          sc rs pool ps n cur env s s' ev epos hs hp hl htop hm rfl hcc hsem hE)
    | doo body pp hTb =>
      rw [cValue_do_o fuel opts ht hh body pp c] at hc
      have hq := posOf_curAt c cur pp hcur
      cases hcc : cDo (cValue fuel) opts body (curAt c pp) with
      | none => rw [hcc] at hc; simp [fin] at hc
      | some res =>
        obtain ⟨slot0, cq⟩ := res
        rw [hcc] at hc
        simp only [fin, Option.some.injEq, Prod.mk.injEq] at hc
        rw [← hc.2]
        rw [hq] at hcc
        obtain ⟨n2, hn, hseq⟩ := eval_do_err_inv n cur env body pp s s' ev epos hsem
        obtain ⟨c0, hc0⟩ : ∃ c0 : CState, c0 = { c with cur := posOf cur pp } := ⟨_, rfl⟩
        rw [← hc0] at hcc
        have hs0 : c0.scopes = sc :: rs := by rw [hc0]; exact hs
        have hp0 : c0.pools = pool :: ps := by rw [hc0]; exact hp
        have hl0 : c0.lim ≤ 240 := by rw [hc0]; exact hl
        have hm0 : c0.map.length = c0.buf.length := by rw [hc0]; exact hm
        have hcur0 : c0.cur = posOf cur pp := by rw [hc0]
        have hE0 : EnvS G c0.scopes env s.boxes.size sc.ra := by rw [hc0]; exact hE
        have key : ErrOK p f0 rest V P c0 cq rs ps env s s' ev epos := by
          simp only [cDo, Option.bind_eq_bind, Option.bind_eq_some_iff, Prod.exists, Option.pure_def, Option.some.injEq, Prod.mk.injEq] at hcc
          obtain ⟨r, c2, hbody, c3, hpop, _, hc3⟩ := hcc
          rw [← hc3]
          rw [pushScope_blk c0 sc rs false hs0] at hbody
          have hlk1 : ∀ y, lk (blk c0 sc false :: sc :: rs) y = lk c0.scopes y := by
            intro y; rw [hs0]; exact lk_push _ _ rfl rfl rfl y
          have hE1 : EnvS G (blk c0 sc false :: sc :: rs) env s.boxes.size (blk c0 sc false).ra :=
            hE0.of_lk hlk1 (Nat.le_refl _) (fun _ _ _ _ _ _ _ h => h)
          have E1 := doBody_err p f0 rest V P G b w fuel (CN fuel) ih body hTb opts
            { c0 with scopes := blk c0 sc false :: sc :: rs } c2 r
            (blk c0 sc false) (sc :: rs) pool ps n2 (posOf cur pp) env s s' ev epos ht hh rfl hp0 hl0 rfl hm0 hcur0 hbody hseq hE1
          obtain ⟨S1, _⟩ := doBody_shapeM G fuel (tf_shapeM_at G fuel) b body hTb opts
            { c0 with scopes := blk c0 sc false :: sc :: rs } c2 r
            (blk c0 sc false) (sc :: rs) pool ps ht hh rfl hp0 rfl hm0 hE1.lkl hbody
          obtain ⟨ra2, ns2, more2, seg2, segm2, hc2, _⟩ := S1
          have hs2 : c2.scopes = { blk c0 sc false with ra := ra2, syms := (blk c0 sc false).syms ++ ns2 } :: sc :: rs := by rw [hc2]
          obtain ⟨raX, hc3', hmaxX, _, _⟩ := popScopeKeep_block c2 c3 r _ sc rs hs2 rfl rfl rfl hpop
          have hmaxX' : raX.max = (if sc.ra.max < ra2.max then ra2.max else sc.ra.max) := hmaxX
          refine ErrOK.block hs0 hs2 E1 ?_ (by rw [hc3']) (by rw [hc3']) (by rw [hc3']) (by rw [hc3'])
          intro sc3 h3
          rw [hc3'] at h3
          rw [← (List.cons.inj h3).1]
          show ra2.max ≤ raX.max
          rw [hmaxX']; split <;> omega
        rw [hc0] at key
        exact ErrOK.recur p f0 rest V P key
    | ups body pp hTb =>
      rw [cValue_upscope_o fuel opts ht hh body pp c] at hc
      have hq := posOf_curAt c cur pp hcur
      cases hcc : doBody (cValue fuel) opts body (curAt c pp) with
      | none => rw [hcc] at hc; simp [fin] at hc
      | some res =>
        obtain ⟨slot0, cq⟩ := res
        rw [hcc] at hc
        simp only [fin, Option.some.injEq, Prod.mk.injEq] at hc
        rw [← hc.2]
        rw [hq] at hcc
        cases n with
        | zero => simp [eval] at hsem
        | succ n2 =>
          rw [eval_upscope] at hsem
          exact ErrOK.recur p f0 rest V P (doBody_err p f0 rest V P G b w fuel (CN fuel) ih body hTb opts { c with cur := posOf cur pp } cq slot0
            sc rs pool ps n2 (posOf cur pp) env s s' ev epos ht hh hs hp hl htop hm rfl hcc hsem hE)
    | deff x ve pp hGx hTv =>
      rw [cValue_def_o fuel opts ht hh x ve pp c] at hc
      have hq := posOf_curAt c cur pp hcur
      cases hcc : cDef (cValue fuel) x ve (curAt c pp) with
      | none => rw [hcc] at hc; simp [fin] at hc
      | some res =>
        obtain ⟨slot0, cq⟩ := res
        rw [hcc] at hc
        simp only [fin, Option.some.injEq, Prod.mk.injEq] at hc
        rw [← hc.2]
        rw [hq] at hcc
        obtain ⟨n2, hn, hev⟩ := eval_def_err_inv n cur env x ve pp s s' ev epos hsem
        obtain ⟨c0, hc0⟩ : ∃ c0 : CState, c0 = { c with cur := posOf cur pp } := ⟨_, rfl⟩
        rw [← hc0] at hcc
        have hs0 : c0.scopes = sc :: rs := by rw [hc0]; exact hs
        have hp0 : c0.pools = pool :: ps := by rw [hc0]; exact hp
        have hl0 : c0.lim ≤ 240 := by rw [hc0]; exact hl
        have hm0 : c0.map.length = c0.buf.length := by rw [hc0]; exact hm
        have hcur0 : c0.cur = posOf cur pp := by rw [hc0]
        have hE0 : EnvS G c0.scopes env s.boxes.size sc.ra := by rw [hc0]; exact hE
        have key : ErrOK p f0 rest V P c0 cq rs ps env s s' ev epos := by
          have hct : curTop c0 = false := by simp [curTop, hs0, htop]
          simp only [cDef, hct, Bool.false_eq_true, if_false, Option.bind_eq_bind, Option.bind_eq_some_iff, Prod.exists, Option.pure_def,
            Option.some.injEq, Prod.mk.injEq] at hcc
          obtain ⟨r, c1, hv, c2, hnl, _, hc2⟩ := hcc
          rw [← hc2]
          have E1 := ih ve {} c0 c1 r sc rs pool ps n2 (posOf cur pp) env s s' ev epos rfl rfl hs0 hp0 hl0 htop hm0 hcur0 hTv hv hev hE0
          obtain ⟨S1, hsl⟩ := tf_shapeM_at G fuel b ve {} c0 c1 r sc rs pool ps rfl rfl hs0 hp0 htop hm0 hTv hE0.lkl hv
          obtain ⟨sc1, pool1, hs1, hp1, _, hL1, _⟩ := S1.out
          have S2 := namelocal_shape G c1 c2 x r sc1 rs pool1 ps hs1 hp1 hL1 hGx hsl hnl
          have M2 := namelocal_maxR c1 c2 x r sc1 rs pool1 ps hs1 hp1 hsl hnl
          obtain ⟨ra', ns, more, seg, segm, hc1, _⟩ := S1
          exact E1.extend seg segm (by rw [hc1]) (by rw [hc1]) (S2.app hs1 hp1 M2)
        rw [hc0] at key
        exact ErrOK.recur p f0 rest V P key
    | iff cnd tb els pp hb hok hlen hTc hTt hTe =>
      exact IFE hb fuel ih cnd tb els pp hok hlen hTc hTt hTe opts c c' slot sc rs pool ps n cur env s s' ev epos ht hh hs hp hl htop hm hcur hc hsem hE

/-- the if-free fragment, unconditionally -/
theorem tf_err_correct (hP : P.length < 65536)
    (hK : ∀ i, i < P.length → (p.defs.getD f0.defIdx default).consts.getD i .nil = litOf V (P.getD i .nil))
    (FF : FloatFacts) (G : String → Prop) (w : Bool) (CN : ∀ fuel, CorrectAt p f0 rest V P G (TF G false) w fuel) :
    ∀ fuel, ErrAt p f0 rest V P G false fuel :=
  tf_err_correct_gen p f0 rest V P hP hK FF G false w CN (fun h => absurd h (by simp))

end

end JanetModel.Compile
