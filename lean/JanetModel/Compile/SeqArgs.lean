/- C02: compile correctness, core fragment: `janetc_toslots` — the operands of a call compiled left to right and HELD TOGETHER
   (no slot is freed between two operands), against `Lang/Sem.evalArgs`.  Every operand slot keeps its value while the later
   operands run (a constant; a named local, which is allocated; an unnamed register that was free when its operand started and
   is allocated since), no later operand gives a name to an earlier operand's unnamed register (`NameFrame`). -/
import JanetModel.Compile.SeqDef
namespace JanetModel.Compile
open JanetModel.Emit JanetModel.Lang JanetModel.Bytecode.Exec JanetModel.Gen.Bytecode

theorem evalArgs_nil_inv (n : Nat) (cur : Pos) (env env' : Env) (s s' : SS) (vs : List Value)
    (h : evalArgs n cur env [] s = .ok (vs, env') s') : vs = [] ∧ env' = env ∧ s' = s := by
  cases n with
  | zero => simp [evalArgs] at h
  | succ n =>
    simp only [evalArgs, R.ok.injEq, Prod.mk.injEq] at h
    obtain ⟨⟨h1, h2⟩, h3⟩ := h
    exact ⟨h1.symm, h2.symm, h3.symm⟩

theorem evalArgs_cons_inv (n : Nat) (cur : Pos) (env env' : Env) (a : Expr) (as : List Expr) (s s' : SS) (vs : List Value)
    (hsp : isSplice a = none) (h : evalArgs n cur env (a :: as) s = .ok (vs, env') s') :
    ∃ n2 v1 env1 s1 vs', n = n2 + 1 ∧ eval n2 cur env a s = .ok (v1, env1) s1 ∧ evalArgs n2 cur env1 as s1 = .ok (vs', env') s' ∧
      vs = v1 :: vs' := by
  cases n with
  | zero => simp [evalArgs] at h
  | succ n =>
    simp only [evalArgs, hsp] at h
    cases he : eval n cur env a s with
    | ok r s1 =>
      obtain ⟨v1, env1⟩ := r
      rw [he] at h
      simp only at h
      cases hr : evalArgs n cur env1 as s1 with
      | ok r2 s2 =>
        obtain ⟨vs', env2⟩ := r2
        rw [hr] at h
        simp only [R.ok.injEq, Prod.mk.injEq] at h
        obtain ⟨⟨h1, h2⟩, h3⟩ := h
        subst h1 h2 h3
        exact ⟨n, v1, env1, s1, vs', rfl, he, hr, rfl⟩
      | err _ _ _ => rw [hr] at h; exact absurd h (by simp)
      | brk _ _ => rw [hr] at h; exact absurd h (by simp)
      | stop _ => rw [hr] at h; exact absurd h (by simp)
    | err _ _ _ => rw [he] at h; exact absurd h (by simp)
    | brk _ _ => rw [he] at h; exact absurd h (by simp)
    | stop _ => rw [he] at h; exact absurd h (by simp)

/-- what is known about an operand slot stays true while later operands are compiled -/
theorem SlotOK2.later {sc : Scope} {ra1 ra' : RA} {scs1 scs' : List Scope} {vals1 vals' : Array Value} {sl : JSlot}
    (h : SlotOK2 sc ra1 scs1 vals1 sl) (hv : PrefA vals1 vals') (hmono : ∀ r, ra1.alloc r = true → ra'.alloc r = true)
    (hnn : ∀ d, ra1.alloc d = true → NoName scs1 d → NoName scs' d) : SlotOK2 sc ra' scs' vals' sl := by
  rcases h with ⟨a1, kc, a2, a3⟩ | ⟨a1, a2, r, a3, a4, a5⟩ | ⟨a1, a2, d, a3, a4, a5, a6, a7⟩
  · exact Or.inl ⟨a1, kc, a2, KWf.mono hv kc a3⟩
  · exact Or.inr (Or.inl ⟨a1, a2, r, a3, hmono r a4, a5⟩)
  · exact Or.inr (Or.inr ⟨a1, a2, d, a3, a4, hmono d a5, a6, hnn d a5 a7⟩)

/-- an operand slot found relative to a later allocator is one relative to the earlier allocator -/
theorem SlotOK2.earlier {sc sc1 : Scope} {ra' : RA} {scs' : List Scope} {vals' : Array Value} {sl : JSlot}
    (h : SlotOK2 sc1 ra' scs' vals' sl) (hmono : ∀ r, sc.ra.alloc r = true → sc1.ra.alloc r = true) : SlotOK2 sc ra' scs' vals' sl := by
  rcases h with h | h | ⟨a1, a2, d, a3, a4, a5, a6, a7⟩
  · exact Or.inl h
  · exact Or.inr (Or.inl h)
  · refine Or.inr (Or.inr ⟨a1, a2, d, a3, ?_, a5, a6, a7⟩)
    cases hh : sc.ra.alloc d with
    | false => rfl
    | true => have := hmono d hh; rw [a4] at this; exact Bool.noConfusion this

/-- the value of an operand slot does not change when registers that are allocated keep their content -/
theorem slotVal_keep {sc : Scope} {ra1 : RA} {scs1 : List Scope} {vals1 : Array Value} {sl : JSlot} (V : Array Value) (regs1 regs2 : Array Value)
    (h : SlotOK2 sc ra1 scs1 vals1 sl) (hk : ∀ r, ra1.alloc r = true → regs2.getD r .nil = regs1.getD r .nil) :
    slotVal V regs2 sl = slotVal V regs1 sl := by
  rcases h with ⟨_, kc, a2, _⟩ | ⟨_, _, r, a3, a4, _⟩ | ⟨_, _, d, a3, _, a5, _, _⟩
  · simp only [slotVal, a2]
  · simp only [slotVal, a3]; exact hk r a4
  · simp only [slotVal, a3]; exact hk d a5

section
variable (p : Program) (f0 : Frame) (rest : List Frame) (V : Array Value) (P : List KConst)

/-- the statement of compile correctness for an operand list -/
def CorrectArgs (G : String → Prop) (c c' : CState) (slots : List JSlot) (sc : Scope) (rs : List Scope) (pool : List KConst)
    (ps : List (List KConst)) (env env' : Env) (s s' : SS) (vs : List Value) : Prop :=
  ∃ (ra' : RA) (nsyms : List SymPair) (more : List KConst) (seg : List CI) (segm : List Pos),
    c' = { c with scopes := { sc with ra := ra', syms := sc.syms ++ nsyms } :: rs, pools := (pool ++ more) :: ps, buf := c.buf ++ seg,
                  map := c.map ++ segm, vals := c'.vals } ∧
    PrefA c.vals c'.vals ∧ (∀ r, sc.ra.alloc r = true → ra'.alloc r = true) ∧ sc.ra.max ≤ ra'.max ∧
    (∀ sl, sl ∈ slots → SlotOK2 sc ra' c'.scopes c'.vals sl) ∧ PrefA s.boxes s'.boxes ∧ EnvS G c'.scopes env' s'.boxes.size ra' ∧
    (∀ d, sc.ra.alloc d = true → NoName c.scopes d → NoName c'.scopes d) ∧
    ∀ (k : Cfg), k.w = s.st.world → k.args = #[] → EnvD c.scopes env s k.regs →
      CodeAt (p.defs.getD f0.defIdx default).code k.pc seg → PrefL (pool ++ more) P → PrefA c'.vals V → ra'.max < k.regs.size →
      ∃ regs', Reach p (inj f0 rest k) (inj f0 rest { regs := regs', pc := k.pc + seg.length, args := #[], w := s'.st.world }) ∧
        regs'.size = k.regs.size ∧ (∀ r, sc.ra.alloc r = true → regs'.getD r .nil = k.regs.getD r .nil) ∧
        slots.map (slotVal V regs') = vs ∧ EnvD c'.scopes env' s' regs'

theorem toSlots_correct (G : String → Prop) (T : Expr → Prop) (w : Bool) (fuel : Nat) (IH : CorrectAt p f0 rest V P G T w fuel)
    (ML : MLAt G T w fuel) (hns : ∀ a, T a → isSplice a = none) :
    ∀ (args : List Expr), (∀ a, a ∈ args → T a) →
    ∀ (c c' : CState) (slots : List JSlot) (sc : Scope) (rs : List Scope) (pool : List KConst) (ps : List (List KConst))
      (n : Nat) (cur : Pos) (env env' : Env) (s s' : SS) (vs : List Value),
      c.scopes = sc :: rs → c.pools = pool :: ps → c.lim ≤ 240 → sc.top = false → (w = true → c.map.length = c.buf.length) →
      toSlots (cValue fuel) args c = some (slots, c') → evalArgs n cur env args s = .ok (vs, env') s' → EnvS G c.scopes env s.boxes.size sc.ra →
      CorrectArgs p f0 rest V P G c c' slots sc rs pool ps env env' s s' vs := by
  intro args
  induction args with
  | nil =>
    intro _ c c' slots sc rs pool ps n cur env env' s s' vs hs hp hl htop hm hc hsem hE
    clear hl htop hm
    simp only [toSlots, Option.some.injEq, Prod.mk.injEq] at hc
    obtain ⟨h1, h2⟩ := hc
    obtain ⟨e1, e2, e3⟩ := evalArgs_nil_inv n cur env env' s s' vs hsem
    subst h1 h2 e1 e2 e3
    refine ⟨sc.ra, [], [], [], [], ?_, PrefA.refl _, fun _ h => h, Nat.le_refl _, fun _ h => absurd h (by simp), PrefA.refl _, hE,
      fun _ _ h => h, ?_⟩
    · simp [hs, hp]
      cases c; simp_all
    · intro k hkw hka hD _ _ _ _
      refine ⟨k.regs, ?_, rfl, fun _ _ => rfl, rfl, hD⟩
      rw [cfg_eta k _ hkw hka]; exact Reach.refl _ _
  | cons a as ih =>
    intro hT c c' slots sc rs pool ps n cur env env' s s' vs hs hp hl htop hm hc hsem hE
    simp only [toSlots, Option.bind_eq_bind, Option.bind_eq_some_iff, Prod.exists, Option.pure_def, Option.some.injEq, Prod.mk.injEq] at hc
    obtain ⟨sl1, c1, hx, ss, c2, hrest, hsl, hc2⟩ := hc
    subst hsl
    rw [← hc2]
    clear hc2 c'
    obtain ⟨n2, v1, env1, s1, vs', hn, he1, he2, hvs⟩ := evalArgs_cons_inv n cur env env' a as s s' vs (hns a (hT a (by simp))) hsem
    subst hvs
    obtain ⟨ra1, ns1, more1, seg1, segm1, hc1, pv1, mono1, max1, sok1, bx1, es1, nf1, vm1⟩ :=
      IH a {} c c1 sl1 sc rs pool ps n2 cur env env1 s s1 v1 rfl rfl hs hp hl htop hm (hT a (by simp)) hx he1 hE
    have hm1 : w = true → c1.map.length = c1.buf.length := fun hw =>
      ML hw a {} c c1 sl1 sc rs pool ps env s.boxes.size rfl rfl hs hp htop (hT a (by simp)) hE hx (hm hw)
    have hs1 : c1.scopes = { sc with ra := ra1, syms := sc.syms ++ ns1 } :: rs := by rw [hc1]
    have hp1 : c1.pools = (pool ++ more1) :: ps := by rw [hc1]
    have hl1 : c1.lim ≤ 240 := by rw [hc1]; exact hl
    obtain ⟨ra', ns2, more2, seg2, segm2, hc', pv2, mono2, max2, sok2, bx2, es2, nf2, vm2⟩ :=
      ih (fun e he => hT e (by simp [he])) c1 c2 ss { sc with ra := ra1, syms := sc.syms ++ ns1 } rs (pool ++ more1) ps n2 cur env1 env' s1 s' vs'
        hs1 hp1 hl1 htop hm1 hrest he2 es1
    have mono2' : ∀ r, ra1.alloc r = true → ra'.alloc r = true := mono2
    have max2' : ra1.max ≤ ra'.max := max2
    have nf2' : ∀ d, ra1.alloc d = true → NoName c1.scopes d → NoName c2.scopes d := nf2
    refine ⟨ra', ns1 ++ ns2, more1 ++ more2, seg1 ++ seg2, segm1 ++ segm2, ?_, PrefA.trans pv1 pv2, fun r hr => mono2' r (mono1 r hr),
      by omega, ?_, PrefA.trans bx1 bx2, es2, fun d hd hno => nf2' d (mono1 d hd) (nf1.1 d hd hno), ?_⟩
    · rw [hc', hc1]
      simp [List.append_assoc]
    · intro sl hsl
      simp only [List.mem_cons] at hsl
      rcases hsl with rfl | hsl
      · exact sok1.later pv2 mono2' nf2'
      · exact (sok2 sl hsl).earlier mono1
    · intro k hkw hka hD hcode hpre hV hsz
      have hV1 : PrefA c1.vals V := PrefA.trans pv2 hV
      obtain ⟨regs1, rch1, sz1, pr1, sv1, ed1⟩ :=
        vm1 k hkw hka hD hcode.left (PrefL.trans ⟨more2, by simp [List.append_assoc]⟩ hpre) hV1 (by omega)
      obtain ⟨regs2, rch2, sz2, pr2, sv2, ed2⟩ :=
        vm2 { regs := regs1, pc := k.pc + seg1.length, args := #[], w := s1.st.world } rfl rfl ed1 hcode.right
          (by rw [List.append_assoc]; exact hpre) hV (by show ra'.max < regs1.size; omega)
      have sz2' : regs2.size = regs1.size := sz2
      have pr2' : ∀ r, ra1.alloc r = true → regs2.getD r .nil = regs1.getD r .nil := pr2
      refine ⟨regs2, ?_, by omega, ?_, ?_, ed2⟩
      · have e : k.pc + (seg1 ++ seg2).length = k.pc + seg1.length + seg2.length := by
          simp [List.length_append]; omega
        rw [e]
        exact Reach.trans rch1 rch2
      · intro r hr
        rw [pr2' r (mono1 r hr), pr1 r hr]
      · simp only [List.map_cons, sv2, List.cons.injEq, and_true]
        rw [slotVal_keep V regs1 regs2 sok1 pr2']
        exact sv1 rfl

end

end JanetModel.Compile
