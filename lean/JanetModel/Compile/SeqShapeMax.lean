/- C02: the emit-layer wrappers never decrease the allocator's `max` (regalloc.c: `max` only grows; temporaries are released
   without touching it).  Building blocks for a `max`-monotonicity statement about compile steps. -/
import JanetModel.Compile.SeqShapeBase
namespace JanetModel.Compile
open JanetModel.Emit JanetModel.Lang JanetModel.Bytecode.Exec JanetModel.Gen.Bytecode

theorem backTemp_max_mono (ra : RA) (wr : Bool) (s : Slot) : ra.max ≤ (W.backTemp ra wr s).2.max := by
  unfold W.backTemp
  split
  · simp only [freeTemp_max]; exact allocTemp_max_mono ra 5
  · exact Nat.le_refl _

theorem farTemp_max_mono (ra : RA) (s : Slot) (tag : Nat) : ra.max ≤ (W.farTemp ra s tag).2.2.2.max := by
  unfold W.farTemp
  split
  · exact Nat.le_refl _
  · have h1 := allocTemp_max_mono ra tag
    rcases ha : ra.allocTemp tag with ⟨t, ra1⟩
    rw [ha] at h1
    simp only at h1 ⊢
    split
    · have h2 := alloc1_max_mono ra1
      rcases hb : ra1.alloc1 with ⟨fr, ra2⟩
      rw [hb] at h2
      simp only [freeTemp_max] at h2 ⊢
      omega
    · simp only [mark_max, freeTemp_max]; exact h1

theorem W_emitS_max (e : Emit.C) (op : Nat) (wr : Bool) (s : Slot) : e.ra.max ≤ (W.emitS e op wr s).ra.max := by
  unfold W.emitS
  have h1 := farTemp_max_mono e.ra s 0
  rcases hf : W.farTemp e.ra s 0 with ⟨t0, fr, r, ra1⟩
  rw [hf] at h1
  simp only at h1 ⊢
  have h2 := backTemp_max_mono ra1 wr s
  rcases hb : W.backTemp ra1 wr s with ⟨t5, ra2⟩
  rw [hb] at h2
  simp only [W.finish, freeNear_max] at h2 ⊢
  omega

theorem W_emitSI_max (e : Emit.C) (op : Nat) (wr : Bool) (s : Slot) (imm : Nat) : e.ra.max ≤ (W.emitSI e op wr s imm).ra.max := by
  unfold W.emitSI
  have h1 := nearTemp_max_mono e.ra s 0
  rcases hf : W.nearTemp e.ra s 0 with ⟨t0, ra1⟩
  rw [hf] at h1
  simp only at h1 ⊢
  have h2 := backTemp_max_mono ra1 wr s
  rcases hb : W.backTemp ra1 wr s with ⟨t5, ra2⟩
  rw [hb] at h2
  simp only [W.finish, freeNear_max] at h2 ⊢
  omega

theorem W_emitSS_max (e : Emit.C) (op : Nat) (wr : Bool) (s1 s2 : Slot) : e.ra.max ≤ (W.emitSS e op wr s1 s2).ra.max := by
  unfold W.emitSS
  have h1 := nearTemp_max_mono e.ra s1 0
  rcases hf : W.nearTemp e.ra s1 0 with ⟨t0, ra1⟩
  rw [hf] at h1
  simp only at h1 ⊢
  have h2 := farTemp_max_mono ra1 s2 1
  rcases hg : W.farTemp ra1 s2 1 with ⟨t1, fr, r2, ra2⟩
  rw [hg] at h2
  simp only at h2 ⊢
  have h3 := backTemp_max_mono (W.freeNear ra2 s2 r2 1) wr s1
  rcases hb : W.backTemp (W.freeNear ra2 s2 r2 1) wr s1 with ⟨t5, ra4⟩
  rw [hb] at h3
  simp only [W.finish, freeNear_max] at h3 ⊢
  omega

theorem W_emitSSS_max (e : Emit.C) (op : Nat) (wr : Bool) (s1 s2 s3 : Slot) : e.ra.max ≤ (W.emitSSS e op wr s1 s2 s3).ra.max := by
  unfold W.emitSSS
  have h1 := nearTemp_max_mono e.ra s1 0
  rcases hf : W.nearTemp e.ra s1 0 with ⟨t0, ra1⟩
  rw [hf] at h1
  simp only at h1 ⊢
  have h2 := nearTemp_max_mono ra1 s2 1
  rcases hg : W.nearTemp ra1 s2 1 with ⟨t1, ra2⟩
  rw [hg] at h2
  simp only at h2 ⊢
  have h2' := nearTemp_max_mono ra2 s3 2
  rcases hg' : W.nearTemp ra2 s3 2 with ⟨t2, ra3⟩
  rw [hg'] at h2'
  simp only at h2' ⊢
  have h3 := backTemp_max_mono (W.freeNear (W.freeNear ra3 s2 t1 1) s3 t2 2) wr s1
  rcases hb : W.backTemp (W.freeNear (W.freeNear ra3 s2 t1 1) s3 t2 2) wr s1 with ⟨t5, ra6⟩
  rw [hb] at h3
  simp only [W.finish, freeNear_max] at h3 ⊢
  omega

theorem W_copy_max (e : Emit.C) (dest src : Slot) : e.ra.max ≤ (W.copy e dest src).ra.max := by
  unfold W.copy
  split
  · exact Nat.le_refl _
  · split
    · exact Nat.le_refl _
    · split
      · exact Nat.le_refl _
      · split
        · have h := backTemp_max_mono e.ra true dest
          rcases hb : W.backTemp e.ra true dest with ⟨t5, ra1⟩
          rw [hb] at h
          exact h
        · have h1 := allocTemp_max_mono e.ra 3
          rcases ha : e.ra.allocTemp 3 with ⟨t3, ra1⟩
          rw [ha] at h1
          simp only at h1 ⊢
          have h2 := backTemp_max_mono ra1 true dest
          rcases hb : W.backTemp ra1 true dest with ⟨t5, ra2⟩
          rw [hb] at h2
          simp only [W.finish, freeTemp_max] at h2 ⊢
          omega

end JanetModel.Compile
