/- C02: the remaining compile-state pieces of the compile-correctness induction: target allocation, freeing, resolution. -/
import JanetModel.Compile.Const
namespace JanetModel.Compile
open JanetModel.Emit JanetModel.Lang JanetModel.Bytecode.Exec JanetModel.Gen.Bytecode

/-- `janetc_gettarget` without a hint = `janetc_allocfar`, near case -/
theorem getTarget_spec (c c' : CState) (t : JSlot) (sc : Scope) (rs : List Scope) (hs : c.scopes = sc :: rs) (hl : c.lim ≤ 240)
    (h : getTarget c {} = some (t, c')) :
    ∃ d ra', t = { k := .loc d } ∧ sc.ra.alloc d = false ∧ d ≤ ra'.max ∧ d < c.lim ∧ sc.ra.max ≤ ra'.max ∧
      (∀ j, ra'.alloc j = (if j = d then true else sc.ra.alloc j)) ∧ c' = { c with scopes := { sc with ra := ra' } :: rs } := by
  simp only [getTarget, allocFar, hs] at h
  by_cases hc : (sc.ra.alloc1).1 ≥ c.lim
  · simp [hc] at h
  · simp [hc] at h
    obtain ⟨h1, h2⟩ := h
    -- max after alloc1 is max(old max, r): near only if the old max was; we only need facts about r
    have hr : (sc.ra.alloc1).1 < 240 := by omega
    have hfree : sc.ra.alloc (sc.ra.alloc1).1 = false := by
      have := firstFit_lt_free sc.ra searchFuel 0 (by have : searchFuel = 70000 := rfl; simp only [RA.alloc1] at hr; omega)
      simp only [RA.taken, Bool.or_eq_false_iff] at this
      exact this.1
    refine ⟨(sc.ra.alloc1).1, (sc.ra.alloc1).2, h1.symm, hfree, ?_, by omega, alloc1_max_mono sc.ra, fun j => rfl, h2.symm⟩
    simp only [RA.alloc1, RA.mark]; split <;> omega

/-- `janetc_freeslot` on the three kinds of slot the fragment produces -/
theorem freeslot_const (c : CState) (s : JSlot) (h : s.cflag = true) : freeslot c s = some c := by simp [freeslot, h]
theorem freeslot_named (c : CState) (s : JSlot) (h : s.named = true) : freeslot c s = some c := by simp [freeslot, h]
theorem freeslot_loc (c : CState) (s : JSlot) (d : Nat) (sc : Scope) (rs : List Scope) (hs : c.scopes = sc :: rs)
    (h1 : s.cflag = false) (h2 : s.named = false) (hk : s.k = .loc d) :
    freeslot c s = some { c with scopes := { sc with ra := sc.ra.unmark d } :: rs } := by
  simp [freeslot, h1, h2, JSlot.isRef, hk, hs]

/-- the scope search does not look at the allocator -/
theorem searchScopes_ra (x : String) (sc : Scope) (rs : List Scope) (ra : RA) (pos : Nat) (u l : Bool) :
    searchScopes x ({ sc with ra := ra } :: rs) pos u l = searchScopes x (sc :: rs) pos u l := by
  simp only [searchScopes]

end JanetModel.Compile
