/- C02: error propagation, the `if` case (first part): the condition evaluates and the branch `truthy` selects raises, condition
   slot not constant (jump path).  The VM runs the condition's code, the JUMP_IF_NOT, then — in the branch's block scope — reaches
   the raising instruction (`branch_err`, from the induction hypothesis `ErrAt`). -/
import JanetModel.Compile.SeqErrAll
import JanetModel.Compile.SeqIfJump
namespace JanetModel.Compile
open JanetModel.Emit JanetModel.Lang JanetModel.Bytecode.Exec JanetModel.Gen.Bytecode

/-- `Lang/Sem.eval` of an `if` that raised: the condition raised, or it evaluated and the selected branch raised -/
theorem eval_if_err_inv (n : Nat) (cur : Pos) (env : Env) (cnd tb : Expr) (els : List Expr) (pp : Pos) (s s' : SS) (ev : Value) (epos : Pos)
    (h : eval n cur env (.form (.sym "if" :: cnd :: tb :: els) pp) s = .err ev epos s') :
    ∃ n2, n = n2 + 1 ∧ (eval n2 (posOf cur pp) env cnd s = .err ev epos s' ∨
      ∃ cv cenv s1, eval n2 (posOf cur pp) env cnd s = .ok (cv, cenv) s1 ∧
        eval n2 (posOf cur pp) cenv (if truthy cv then tb else els.headD (.lit .nil)) s1 = .err ev epos s') := by
  cases n with
  | zero => simp [eval] at h
  | succ n2 =>
    refine ⟨n2, rfl, ?_⟩
    rw [eval_if] at h
    cases hc : eval n2 (posOf cur pp) env cnd s with
    | ok r s1 =>
      obtain ⟨cv, cenv⟩ := r
      rw [hc] at h
      refine Or.inr ⟨cv, cenv, s1, rfl, ?_⟩
      cases ht : truthy cv with
      | true =>
        simp only [ht, if_true, List.head?_cons] at h ⊢
        cases hb : eval n2 (posOf cur pp) cenv tb s1 with
        | ok r2 s2 => obtain ⟨v2, envb⟩ := r2; rw [hb] at h; exact absurd h (by simp)
        | err e2 p2 s2 => rw [hb] at h; exact h
        | brk _ _ => rw [hb] at h; exact absurd h (by simp)
        | stop _ => rw [hb] at h; exact absurd h (by simp)
      | false =>
        simp only [ht, Bool.false_eq_true, if_false, List.drop_succ_cons, List.drop_zero] at h ⊢
        cases els with
        | nil => simp at h
        | cons e es =>
          simp only [List.head?_cons, List.headD_cons] at h ⊢
          cases hb : eval n2 (posOf cur pp) cenv e s1 with
          | ok r2 s2 => obtain ⟨v2, envb⟩ := r2; rw [hb] at h; exact absurd h (by simp)
          | err e2 p2 s2 => rw [hb] at h; exact h
          | brk _ _ => rw [hb] at h; exact absurd h (by simp)
          | stop _ => rw [hb] at h; exact absurd h (by simp)
    | err e2 p2 s2 =>
      rw [hc] at h
      simp only [R.err.injEq] at h
      obtain ⟨h1, h2, h3⟩ := h
      subst h1 h2 h3
      exact Or.inl rfl
    | brk _ _ => rw [hc] at h; exact absurd h (by simp)
    | stop _ => rw [hc] at h; exact absurd h (by simp)

section
variable (p : Program) (f0 : Frame) (rest : List Frame) (V : Array Value) (P : List KConst)

/-- one branch of an `if` that raises: block scope, the form (induction hypothesis), the copy and the pop are never reached -/
theorem branch_err (G : String → Prop) (b : Bool) (fuel : Nat) (IHe : ErrAt p f0 rest V P G b fuel)
    (x : Expr) (hx : TF G b x) (opts : Fopts) (ht : opts.tail = false) (hh : opts.hint = none)
    (target : JSlot) (c4 c6 c7 c8 : CState) (left : JSlot) (sc4 : Scope) (rs4 : List Scope) (pool4 : List KConst) (ps : List (List KConst))
    (n2 : Nat) (pos : Pos) (cenv : Env) (s1 s' : SS) (ev : Value) (epos : Pos)
    (hs4 : c4.scopes = sc4 :: rs4) (hp4 : c4.pools = pool4 :: ps) (hl : c4.lim ≤ 240) (hm4 : c4.map.length = c4.buf.length) (hcur : c4.cur = pos)
    (h1 : cValue fuel opts x (pushScope c4 false false false false) = some (left, c6))
    (h2 : ifCopy opts.drop c6 target left = some c7) (h3 : popScope c7 = some c8)
    (hsem : eval n2 pos cenv x s1 = .err ev epos s')
    (hE : EnvS G c4.scopes cenv s1.boxes.size sc4.ra) :
    ErrOK p f0 rest V P c4 c8 rs4 ps cenv s1 s' ev epos := by
  rw [pushScope_blk c4 sc4 rs4 false hs4] at h1
  have hlk1 : ∀ y, lk (blk c4 sc4 false :: sc4 :: rs4) y = lk c4.scopes y := by
    intro y; rw [hs4]; exact lk_push _ _ rfl rfl rfl y
  have hE1 : EnvS G (blk c4 sc4 false :: sc4 :: rs4) cenv s1.boxes.size (blk c4 sc4 false).ra :=
    hE.of_lk hlk1 (Nat.le_refl _) (fun _ _ _ _ _ _ _ h => h)
  have E1 := IHe x opts { c4 with scopes := blk c4 sc4 false :: sc4 :: rs4 } c6 left (blk c4 sc4 false) (sc4 :: rs4) pool4 ps n2 pos cenv s1 s' ev epos
    ht hh rfl hp4 hl rfl hm4 hcur hx h1 hsem hE1
  obtain ⟨S1, _⟩ := tf_shapeM_at G fuel b x opts { c4 with scopes := blk c4 sc4 false :: sc4 :: rs4 } c6 left (blk c4 sc4 false) (sc4 :: rs4) pool4 ps
    ht hh rfl hp4 rfl hm4 hx hE1.lkl h1
  obtain ⟨sc6, pool6, hs6, hp6, _, _, _⟩ := S1.out
  have A2 : App c6 c7 (sc4 :: rs4) ps := by
    have R2 : StepR c6 c7 sc6 (sc4 :: rs4) pool6 ps := by
      unfold ifCopy at h2
      split at h2
      · rw [← Option.some.inj h2]; exact StepR.refl c6 sc6 _ pool6 ps hs6 hp6
      · exact copySlot_stepR c6 c7 target left sc6 _ pool6 ps hs6 hp6 h2
    exact R2.app hs6 hp6 (ifCopy_maxR opts.drop c6 c7 target left sc6 _ pool6 ps hs6 hp6 h2)
  obtain ⟨ra', ns, more, seg, segm, hc6, _⟩ := S1
  have E2 := E1.extend seg segm (by rw [hc6]) (by rw [hc6]) A2
  obtain ⟨sc6', sc7, pool6', more7, seg7, segm7, a1, a2, a3, a4, a5, a6, a7, a8⟩ := A2
  have hs6' : c6.scopes = { blk c4 sc4 false with ra := ra', syms := (blk c4 sc4 false).syms ++ ns } :: sc4 :: rs4 := by rw [hc6]
  -- the scope popped at the end is a block scope: take its flags from the shape
  have hs7 : ∃ old, c7.scopes = old :: sc4 :: rs4 ∧ old.fn = false ∧ old.unused = false ∧ old.closure = false := by
    unfold ifCopy at h2
    split at h2
    · rw [← Option.some.inj h2]; exact ⟨_, hs6', rfl, rfl, rfl⟩
    · obtain ⟨raq, moreq, segq, segmq, hcq, _⟩ := copySlot_stepR c6 c7 target left _ _ pool6' ps hs6' a4 h2
      exact ⟨_, by rw [hcq], rfl, rfl, rfl⟩
  obtain ⟨old, hs7', f1, f2, f3⟩ := hs7
  obtain ⟨raX, hpop, hmaxX, _⟩ := popScope_block c7 old sc4 rs4 hs7' f1 f2 f3
  rw [hpop] at h3
  have hc8 := (Option.some.inj h3).symm
  refine ErrOK.block hs4 hs7' E2 ?_ (by rw [hc8]) (by rw [hc8]) (by rw [hc8]) (by rw [hc8])
  intro sc3 h3'
  rw [hc8] at h3'
  rw [← (List.cons.inj h3').1]
  show old.ra.max ≤ raX.max
  rw [hmaxX]; split <;> omega

theorem if_jump_err (hP : P.length < 65536)
    (hK : ∀ i, i < P.length → (p.defs.getD f0.defIdx default).consts.getD i .nil = litOf V (P.getD i .nil))
    (G : String → Prop) (b w : Bool) (fuel : Nat) (IH : CorrectAt p f0 rest V P G (TF G b) w fuel) (IHe : ErrAt p f0 rest V P G b fuel)
    (cnd tb fb : Expr) (hTc : TF G b cnd) (hTt : TF G b tb) (hTf : TF G b fb)
    (opts : Fopts) (ht : opts.tail = false) (hh : opts.hint = none)
    (c c' : CState) (slot : JSlot) (sc : Scope) (rs : List Scope) (pool : List KConst) (ps : List (List KConst))
    (n2 : Nat) (pos : Pos) (env cenv : Env) (s s1 s' : SS) (cv ev : Value) (epos : Pos)
    (hs : c.scopes = sc :: rs) (hp : c.pools = pool :: ps) (hl : c.lim ≤ 240) (hm : c.map.length = c.buf.length) (hcur : c.cur = pos)
    (target : JSlot) (c1 c3 : CState) (cond : JSlot)
    (hT : (if opts.drop then some (cslot .nil, c) else getTarget c opts) = some (target, c1))
    (hcond : cValue fuel {} cnd (pushScope c1 false false false false) = some (cond, c3))
    (hnc : isConstSlot cond = none)
    (hj : cIfJump (cValue fuel) opts target cond tb fb (fbNilOf fb) c3 = some (slot, c'))
    (hsc : eval n2 pos env cnd s = .ok (cv, cenv) s1)
    (hsb : eval n2 pos cenv (if truthy cv then tb else fb) s1 = .err ev epos s')
    (hE : EnvS G c.scopes env s.boxes.size sc.ra) :
    ErrOK p f0 rest V P c c' rs ps env s s' ev epos := by
  -- the target
  obtain ⟨raT, hc1, monoT, maxT, htgtT, htgtF⟩ : ∃ raT, c1 = { c with scopes := { sc with ra := raT } :: rs } ∧
      (∀ j, sc.ra.alloc j = true → raT.alloc j = true) ∧ sc.ra.max ≤ raT.max ∧
      (opts.drop = true → target = cslot .nil) ∧
      (opts.drop = false → ∃ d, target = { k := .loc d } ∧ sc.ra.alloc d = false ∧ raT.alloc d = true ∧ d ≤ raT.max ∧ d < 240) := by
    cases hd : opts.drop with
    | true =>
      rw [hd] at hT
      simp only [if_true, Option.some.injEq, Prod.mk.injEq] at hT
      refine ⟨sc.ra, ?_, fun _ h => h, Nat.le_refl _, fun _ => hT.1.symm, fun h => absurd h (by simp)⟩
      rw [← hT.2]; exact cstate_scopes_eta c sc rs hs
    | false =>
      rw [hd] at hT
      simp only [Bool.false_eq_true, if_false] at hT
      rw [getTarget_hint_none c opts hh] at hT
      obtain ⟨d, raT, e1, b1, b2, b3, b4, b5, e2⟩ := getTarget_spec c c1 target sc rs hs hl hT
      refine ⟨raT, e2, ?_, b4, fun h => absurd h (by simp), fun _ => ⟨d, e1, b1, ?_, b2, by omega⟩⟩
      · intro j hj; rw [b5 j]; split
        · rfl
        · exact hj
      · rw [b5 d]; simp
  -- the condition, in its block scope
  have hs1 : c1.scopes = { sc with ra := raT } :: rs := by rw [hc1]
  have hp1 : c1.pools = pool :: ps := by rw [hc1]; exact hp
  have hl1 : c1.lim ≤ 240 := by rw [hc1]; exact hl
  have hm1 : c1.map.length = c1.buf.length := by rw [hc1]; exact hm
  rw [pushScope_blk c1 { sc with ra := raT } rs false hs1] at hcond
  have hlk1 : ∀ y, lk (blk c1 { sc with ra := raT } false :: { sc with ra := raT } :: rs) y = lk c.scopes y := by
    intro y; rw [hs]; exact (lk_push _ _ rfl rfl rfl y).trans (lk_ra sc rs raT y)
  have hE1 : EnvS G ({ c1 with scopes := blk c1 { sc with ra := raT } false :: { sc with ra := raT } :: rs } : CState).scopes env s.boxes.size
      (blk c1 { sc with ra := raT } false).ra :=
    hE.of_lk hlk1 (Nat.le_refl _) (fun _ _ _ _ r _ _ h => monoT r h)
  obtain ⟨ra3, ns3, more3, seg3, segm3, hc3, pv3, mono3, max3, sok3, bx3, es3, nf3, vm3⟩ :=
    IH cnd {} { c1 with scopes := blk c1 { sc with ra := raT } false :: { sc with ra := raT } :: rs } c3 cond (blk c1 { sc with ra := raT } false)
      ({ sc with ra := raT } :: rs) pool ps n2 pos env cenv s s1 cv rfl rfl rfl hp1 hl1 rfl (fun _ => hm1) hTc hcond hsc hE1
  have hm3 : c3.map.length = c3.buf.length :=
    (tf_shapeM_at G fuel b cnd {} { c1 with scopes := blk c1 { sc with ra := raT } false :: { sc with ra := raT } :: rs } c3 cond
      (blk c1 { sc with ra := raT } false) ({ sc with ra := raT } :: rs) pool ps rfl rfl rfl hp1 rfl hm1 hTc hE1.lkl hcond).1.mapLen hm1
  have hs3 : c3.scopes = upd (blk c1 { sc with ra := raT } false) ra3 ns3 :: { sc with ra := raT } :: rs := by rw [hc3]
  have hp3 : c3.pools = (pool ++ more3) :: ps := by rw [hc3]
  have mono3' : ∀ r, raT.alloc r = true → ra3.alloc r = true := mono3
  obtain ⟨rc, hrc, hrc240, hrcal⟩ : ∃ rc, cond.k = .loc rc ∧ rc < 240 ∧ ra3.alloc rc = true := by
    rcases sok3 with ⟨hcf, kc, hk, _⟩ | ⟨_, _, r, hk, hal, hr⟩ | ⟨_, _, d, hk, _, hal, hd, _⟩
    · simp [isConstSlot, hcf, hk] at hnc
    · exact ⟨r, hk, hr, hal⟩
    · exact ⟨d, hk, hd, hal⟩
  -- the steps of the jump path
  obtain ⟨c4, left, c6, c7, c8, right, c11, c12, c13, c14, e1, e2, e3, e4, e5, e6, e7, e8, r1, r2, r3, eslot, ec'⟩ :=
    cIfJump_inv _ _ _ _ _ _ _ _ _ _ hj
  obtain ⟨nj, hnj⟩ : ∃ nj, nj = (opts.drop && fbNilOf fb) := ⟨_, rfl⟩
  rw [← hnj] at e5 r1 r3 ec'
  obtain ⟨_, hc4⟩ := emitSI_local c3 c4 .jumpIfNot cond rc 0 hrc (by omega) _ ({ sc with ra := raT } :: rs) (pool ++ more3) ps hs3 hp3 e1
  have hs4 : c4.scopes = upd (blk c1 { sc with ra := raT } false) ra3 ns3 :: { sc with ra := raT } :: rs := by rw [hc4]
  have hp4 : c4.pools = (pool ++ more3) :: ps := by rw [hc4]
  have hl4 : c4.lim ≤ 240 := by rw [hc4]; show c3.lim ≤ 240; rw [hc3]; exact hl1
  have hm4 : c4.map.length = c4.buf.length := by rw [hc4]; simp [hm3]
  have hL4 : LkL G c4.scopes := by rw [hs4, ← hs3]; exact es3.lkl
  -- the then-branch, compile side
  obtain ⟨ra8, ns8, more8, seg8, segm8, hc8, pv8, hl8, inv8, mono8, max8⟩ :=
    branch_shape2 G fuel b tb hTt opts ht hh target c4 c6 c7 c8 left _ ({ sc with ra := raT } :: rs) (pool ++ more3) ps hs4 hp4 hm4 hL4 e2 e3 e4
  have mono8' : ∀ r, ra3.alloc r = true → ra8.alloc r = true := mono8
  have max8' : ra3.max ≤ ra8.max := max8
  have hs8 : c8.scopes = upd (upd (blk c1 { sc with ra := raT } false) ra3 ns3) ra8 ns8 :: { sc with ra := raT } :: rs := by rw [hc8]
  obtain ⟨c9, hc9d⟩ : ∃ c9, c9 = ifJmp nj c8 := ⟨_, rfl⟩
  rw [← hc9d] at e5 r1 ec'
  have hc9 : c9 = { c8 with buf := c8.buf ++ jmp0 nj, map := c8.map ++ (jmp0 nj).map (fun _ => c8.cur) } := by rw [hc9d]; exact ifJmp_eq nj c8
  have hs9 : c9.scopes = upd (upd (blk c1 { sc with ra := raT } false) ra3 ns3) ra8 ns8 :: { sc with ra := raT } :: rs := by rw [hc9]; exact hs8
  have hp9 : c9.pools = (pool ++ more3 ++ more8) :: ps := by rw [hc9]; show c8.pools = _; rw [hc8]
  have hl9 : c9.lim ≤ 240 := by rw [hc9]; show c8.lim ≤ 240; rw [hc8]; exact hl4
  have hm8 : c8.map.length = c8.buf.length := by rw [hc8]; simp [hm4, hl8]
  have hm9 : c9.map.length = c9.buf.length := by rw [hc9]; simp [hm8]
  have hlk9 : ∀ y, lk c9.scopes y = lk c3.scopes y := by
    intro y; rw [hs9, hs3]; exact lk_upd _ _ _ _ inv8 y
  have hL9 : LkL G c9.scopes := es3.lkl.of_lk hlk9
  -- the else-branch, compile side
  obtain ⟨ra13, ns13, more13, seg13, segm13, hc13, pv13, hl13, inv13, mono13, max13⟩ :=
    branch_shape2 G fuel b fb hTf opts ht hh target c9 c11 c12 c13 right _ ({ sc with ra := raT } :: rs) (pool ++ more3 ++ more8) ps hs9 hp9 hm9 hL9 e5 e6 e7
  have max13' : ra8.max ≤ ra13.max := max13
  have hs13 : c13.scopes = upd (upd (upd (blk c1 { sc with ra := raT } false) ra3 ns3) ra8 ns8) ra13 ns13 :: { sc with ra := raT } :: rs := by
    rw [hc13]
  -- the final pop
  obtain ⟨raX, hpop, hmaxX, hmonoX⟩ := popScope_block c13 _ { sc with ra := raT } rs hs13 rfl rfl rfl
  rw [hpop] at e8
  have hc14 := (Option.some.inj e8).symm
  have hmaxX' : raX.max = (if raT.max < ra13.max then ra13.max else raT.max) := hmaxX
  have hmonoX' : ∀ j, raT.alloc j = true → raX.alloc j = true := hmonoX
  -- the code
  have hb3 : c3.buf = c.buf ++ seg3 := by rw [hc3]; show c1.buf ++ seg3 = _; rw [hc1]
  have hb4 : c4.buf = c.buf ++ seg3 ++ [CI.mi (.pay Op.jumpIfNot.toNat .si false [rc] 0)] := by rw [hc4]; show c3.buf ++ _ = _; rw [hb3]
  have hb8 : c8.buf = c4.buf ++ seg8 := by rw [hc8]
  have hb9 : c9.buf = c8.buf ++ jmp0 nj := by rw [hc9]
  have hb13 : c13.buf = c9.buf ++ seg13 := by rw [hc13]
  have hb14 : c14.buf = c13.buf := by rw [hc14]
  have hbuf14 : c14.buf = c.buf ++ (seg3 ++ CI.mi (.pay Op.jumpIfNot.toNat .si false [rc] 0) :: (seg8 ++ (jmp0 nj ++ seg13))) := by
    rw [hb14, hb13, hb9, hb8, hb4]; simp
  have hll : lastLabel c4 = (c.buf ++ seg3).length := by unfold lastLabel; rw [hb4]; simp
  have hl8len : c8.buf.length = (c.buf ++ seg3 ++ CI.mi (.pay Op.jumpIfNot.toNat .si false [rc] 0) :: seg8).length := by rw [hb8, hb4]; simp
  obtain ⟨offr, hoffr⟩ : ∃ offr, offr = c9.buf.length - lastLabel c4 := ⟨_, rfl⟩
  obtain ⟨off2, hoff2⟩ : ∃ off2, off2 = c14.buf.length - c8.buf.length := ⟨_, rfl⟩
  have hoffr' : offr = 1 + seg8.length + (jmp0 nj).length := by
    rw [hoffr, hll, hb9, hb8, hb4]; simp <;> omega
  have hoff2' : off2 = (jmp0 nj).length + seg13.length := by
    rw [hoff2, hb14, hb13, hb9]; simp <;> omega
  have hoffr_lt : offr < 32768 := by
    rw [hoffr]; omega
  have hoff2_le : off2 ≤ 8388607 := by
    rw [hoff2]; omega
  have hnj13 : nj = true → seg13 = [] := by
    intro h
    have := r3 h
    rw [hb14, hb13, hb9] at this
    simp at this
    exact this.2
  have hpatch : ifPatch nj c14.buf (lastLabel c4) (c9.buf.length - lastLabel c4) c8.buf.length =
      c.buf ++ (seg3 ++ CI.mi (.pay Op.jumpIfNot.toNat .si false [rc] offr) :: (seg8 ++ ((if nj then [] else [CI.jump (Int.ofNat off2)]) ++ seg13))) := by
    rw [← hoffr, hll, hl8len]
    have := ifPatch_eq nj c.buf seg3 seg8 seg13 (CI.mi (.pay Op.jumpIfNot.toNat .si false [rc] 0)) offr
    rw [← hbuf14, ← hl8len, ← hoff2] at this
    rw [hl8len] at this
    exact this
  -- names and the target register
  have hlk' : ∀ x, lk c'.scopes x = lk c.scopes x := by
    intro x
    rw [ec']
    show lk c14.scopes x = _
    rw [hc14, hs]
    have hinv : ∀ q, q ∈ (upd (upd (upd (blk c1 { sc with ra := raT } false) ra3 ns3) ra8 ns8) ra13 ns13).syms.map
        (fun q : SymPair => { q with visible := false }) → q.visible = false := by
      intro q hq
      simp only [List.mem_map] at hq
      obtain ⟨q0, _, rfl⟩ := hq
      rfl
    exact (lk_append_invisible { ({ sc with ra := raT } : Scope) with ra := raX } rs _ hinv x).trans (lk_ra sc rs raX x)
  have hnn0 : ∀ d, sc.ra.alloc d = false → NoName c.scopes d := by
    intro d hd x sl u l hx hk
    obtain ⟨_, _, _, r, _, hk', _, _, hal, _⟩ := hE.found hx
    rw [hk'] at hk
    injection hk with e
    rw [e, hd] at hal
    exact Bool.noConfusion hal
  have hnn3 : ∀ d, sc.ra.alloc d = false → raT.alloc d = true → NoName c3.scopes d := by
    intro d hd hdT
    exact nf3.1 d hdT ((hnn0 d hd).of_lk hlk1)
  have hlk4 : ∀ y, lk c4.scopes y = lk c3.scopes y := by intro y; rw [hs4, hs3]
  have hE4 : EnvS G c4.scopes cenv s1.boxes.size (upd (blk c1 { sc with ra := raT } false) ra3 ns3).ra :=
    es3.of_lk hlk4 (Nat.le_refl _) (fun _ _ _ _ _ _ _ h => h)
  have hE9 : EnvS G c9.scopes cenv s1.boxes.size (upd (upd (blk c1 { sc with ra := raT } false) ra3 ns3) ra8 ns8).ra :=
    es3.of_lk hlk9 (Nat.le_refl _) (fun _ _ _ _ r _ _ h => mono8' r h)
  have htgt4 : opts.drop = false → ∃ d, target = { k := .loc d } ∧ d < 240 ∧
      (upd (blk c1 { sc with ra := raT } false) ra3 ns3).ra.alloc d = true ∧ NoName c4.scopes d := by
    intro hd
    obtain ⟨d, e, hfree, hal, _, hd240⟩ := htgtF hd
    exact ⟨d, e, hd240, mono3' d hal, (hnn3 d hfree hal).of_lk hlk4⟩
  have htgt9 : opts.drop = false → ∃ d, target = { k := .loc d } ∧ d < 240 ∧
      (upd (upd (blk c1 { sc with ra := raT } false) ra3 ns3) ra8 ns8).ra.alloc d = true ∧ NoName c9.scopes d := by
    intro hd
    obtain ⟨d, e, hfree, hal, _, hd240⟩ := htgtF hd
    exact ⟨d, e, hd240, mono8' d (mono3' d hal), (hnn3 d hfree hal).of_lk hlk9⟩
  have hv8 : PrefA c8.vals c13.vals := by
    have : c9.vals = c8.vals := by rw [hc9]
    rw [← this]; exact pv13
  have hv3 : PrefA c3.vals c13.vals := by
    have : c4.vals = c3.vals := by rw [hc4]
    rw [← this]; exact PrefA.trans pv8 hv8
  have hp8 : c8.pools = (pool ++ more3 ++ more8) :: ps := by rw [hc8]
  have hp13 : c13.pools = (pool ++ more3 ++ more8 ++ more13) :: ps := by rw [hc13]
  -- cursors, maps
  have hcur3 : c3.cur = pos := by rw [hc3]; show c1.cur = _; rw [hc1]; exact hcur
  have hcur4 : c4.cur = pos := by rw [hc4]; exact hcur3
  have hcur9 : c9.cur = pos := by rw [hc9]; show c8.cur = _; rw [hc8]; exact hcur4
  have hmp3 : c3.map = c.map ++ segm3 := by rw [hc3]; show c1.map ++ segm3 = _; rw [hc1]
  have hmp4 : c4.map = c3.map ++ [c3.cur] := by rw [hc4]
  have hmp8 : c8.map = c4.map ++ segm8 := by rw [hc8]
  have hmp9 : c9.map = c8.map ++ (jmp0 nj).map (fun _ => c8.cur) := by rw [hc9]
  have hmp13 : c13.map = c9.map ++ segm13 := by rw [hc13]
  have hl3 : segm3.length = seg3.length := by
    have := hm3
    rw [hmp3, hb3] at this
    simp only [List.length_append] at this
    omega
  obtain ⟨kept, hkept⟩ : ∃ kept : List SymPair, kept =
      (upd (upd (upd (blk c1 { sc with ra := raT } false) ra3 ns3) ra8 ns8) ra13 ns13).syms.map (fun q => { q with visible := false }) := ⟨_, rfl⟩
  have hv' : c'.vals = c13.vals := by rw [ec']; show c14.vals = _; rw [hc14]
  have hjl : (if nj then [] else [CI.jump (Int.ofNat off2)] : List CI).length = (jmp0 nj).length := by cases nj <;> rfl
  -- the branch that raises
  have takenE : ∀ (regs3 : Array Value) (pc0 : Nat),
      EnvD c3.scopes cenv s1 regs3 →
      CodeAt (p.defs.getD f0.defIdx default).code pc0
        (seg3 ++ CI.mi (.pay Op.jumpIfNot.toNat .si false [rc] offr) :: (seg8 ++ ((if nj then [] else [CI.jump (Int.ofNat off2)]) ++ seg13))) →
      MapAt (p.defs.getD f0.defIdx default).smap pc0 (segm3 ++ [c3.cur] ++ segm8 ++ (jmp0 nj).map (fun _ => c8.cur) ++ segm13) →
      PrefL (pool ++ more3 ++ more8 ++ more13) P → PrefA c13.vals V → ra13.max < regs3.size →
      truthy (regs3.getD rc .nil) = truthy cv →
      ∃ (regs' A : Array Value) (pc' : Nat),
        Reach p (inj f0 rest { regs := regs3, pc := pc0 + seg3.length, args := #[], w := s1.st.world })
          (inj f0 rest { regs := regs', pc := pc', args := A, w := s'.st.world }) ∧ regs'.size = regs3.size ∧
        step p (inj f0 rest { regs := regs', pc := pc', args := A, w := s'.st.world }) =
          .err ev epos (inj f0 rest { regs := regs', pc := pc', args := A, w := s'.st.world }) := by
    cases htr : truthy cv with
    | true =>
      have hsb' : eval n2 pos cenv tb s1 = .err ev epos s' := by simpa [htr] using hsb
      have EB := branch_err p f0 rest V P G b fuel IHe tb hTt opts ht hh target c4 c6 c7 c8 left _
        ({ sc with ra := raT } :: rs) (pool ++ more3) ps n2 pos cenv s1 s' ev epos hs4 hp4 hl4 hm4 hcur4 e2 e3 e4 hsb' hE4
      intro regs3 pc0 hD3 hcode hmap hpre hV hsz hcv
      have hcJ : (p.defs.getD f0.defIdx default).code[pc0 + seg3.length]? = some (MI.pay Op.jumpIfNot.toNat .si false [rc] offr).word :=
        hcode.right.head
      have hc8' : CodeAt (p.defs.getD f0.defIdx default).code (pc0 + seg3.length + 1) seg8 := hcode.right.tail.left
      have hmap8 : MapAt (p.defs.getD f0.defIdx default).smap (pc0 + seg3.length + 1) segm8 := by
        have h1 : MapAt (p.defs.getD f0.defIdx default).smap pc0 ((segm3 ++ [c3.cur]) ++ (segm8 ++ ((jmp0 nj).map (fun _ => c8.cur) ++ segm13))) := by
          simpa [List.append_assoc] using hmap
        have h2 := h1.right.left
        have e : pc0 + (segm3 ++ [c3.cur]).length = pc0 + seg3.length + 1 := by simp [hl3]; omega
        rw [e] at h2
        exact h2
      have jstep := jumpIfNot_agrees p (inj f0 rest { regs := regs3, pc := pc0 + seg3.length, args := #[], w := s1.st.world }) rc offr
        (by omega) hoffr_lt (by rw [inj_curDef, inj_pc]; exact hcJ)
      rw [inj_getReg] at jstep
      simp only [hcv, if_true, inj_adv] at jstep
      obtain ⟨regs', A, pc', rch, sz, hst⟩ := EB _ _ seg8 segm8 hs8 hp8 hb8 hmp8
        { regs := regs3, pc := pc0 + seg3.length + 1, args := #[], w := s1.st.world } rfl rfl (hD3.of_lk hlk4) hc8' hmap8
        (PrefL.trans ⟨more13, rfl⟩ hpre) (PrefA.trans hv8 hV) (by show ra8.max < regs3.size; omega)
      exact ⟨regs', A, pc', Reach.head jstep rch, sz, hst⟩
    | false =>
      have hsb' : eval n2 pos cenv fb s1 = .err ev epos s' := by simpa [htr] using hsb
      have EB := branch_err p f0 rest V P G b fuel IHe fb hTf opts ht hh target c9 c11 c12 c13 right _
        ({ sc with ra := raT } :: rs) (pool ++ more3 ++ more8) ps n2 pos cenv s1 s' ev epos hs9 hp9 hl9 hm9 hcur9 e5 e6 e7 hsb' hE9
      intro regs3 pc0 hD3 hcode hmap hpre hV hsz hcv
      have hcJ : (p.defs.getD f0.defIdx default).code[pc0 + seg3.length]? = some (MI.pay Op.jumpIfNot.toNat .si false [rc] offr).word :=
        hcode.right.head
      have hcR := hcode.right.tail.right.right
      rw [hjl] at hcR
      have hmap13 : MapAt (p.defs.getD f0.defIdx default).smap (pc0 + seg3.length + 1 + seg8.length + (jmp0 nj).length) segm13 := by
        have h2 := hmap.right
        have e : pc0 + (segm3 ++ [c3.cur] ++ segm8 ++ (jmp0 nj).map (fun _ => c8.cur)).length =
            pc0 + seg3.length + 1 + seg8.length + (jmp0 nj).length := by simp [hl3, hl8]; omega
        rw [e] at h2
        exact h2
      have jstep := jumpIfNot_agrees p (inj f0 rest { regs := regs3, pc := pc0 + seg3.length, args := #[], w := s1.st.world }) rc offr
        (by omega) hoffr_lt (by rw [inj_curDef, inj_pc]; exact hcJ)
      rw [inj_getReg] at jstep
      simp only [hcv, Bool.false_eq_true, if_false, inj_jump] at jstep
      have e1' : (Int.ofNat (pc0 + seg3.length) + (offr : Int)).toNat = pc0 + seg3.length + 1 + seg8.length + (jmp0 nj).length := by
        simp only [Int.ofNat_eq_natCast]; omega
      simp only [e1'] at jstep
      obtain ⟨regs', A, pc', rch, sz, hst⟩ := EB _ _ seg13 segm13 hs13 hp13 hb13 hmp13
        { regs := regs3, pc := pc0 + seg3.length + 1 + seg8.length + (jmp0 nj).length, args := #[], w := s1.st.world } rfl rfl (hD3.of_lk hlk9) hcR
        hmap13 hpre hV hsz
      exact ⟨regs', A, pc', Reach.head jstep rch, sz, hst⟩
  -- assembly
  intro sc' pool' seg segm a1 a2 a3 a4 k hkw hka hD hcode hmap hpre hV hsz
  have x1 : c'.scopes = { sc with ra := raX, syms := sc.syms ++ kept } :: rs := by
    rw [ec']; show c14.scopes = _; rw [hc14, hkept]
  have x2 : c'.pools = (pool ++ (more3 ++ more8 ++ more13)) :: ps := by
    rw [ec']; show c14.pools = _; rw [hc14]; show c13.pools = _; rw [hp13]; simp [List.append_assoc]
  have x3 : c'.buf = c.buf ++ (seg3 ++ CI.mi (.pay Op.jumpIfNot.toNat .si false [rc] offr) ::
      (seg8 ++ ((if nj then [] else [CI.jump (Int.ofNat off2)]) ++ seg13))) := by
    rw [ec']; exact hpatch
  have x4 : c'.map = c.map ++ (segm3 ++ [c3.cur] ++ segm8 ++ (jmp0 nj).map (fun _ => c8.cur) ++ segm13) := by
    rw [ec']; show c14.map = _; rw [hc14]; show c13.map = _; rw [hmp13, hmp9, hmp8, hmp4, hmp3]; simp [List.append_assoc]
  rw [x1] at a1
  rw [x2] at a2
  rw [x3] at a3
  rw [x4] at a4
  have y1 := (List.cons.inj a1).1
  have y2 := (List.cons.inj a2).1
  have y3 := List.append_cancel_left a3
  have y4 := List.append_cancel_left a4
  subst y1 y2 y3 y4
  rw [hv'] at hV
  have hsz' : raX.max < k.regs.size := hsz
  have hsz13 : ra13.max < k.regs.size := by
    rw [hmaxX'] at hsz'; split at hsz' <;> omega
  obtain ⟨regs3, rch3, sz3, pr3, sv3, ed3⟩ := vm3 k hkw hka (hD.of_lk hlk1) hcode.left
    (PrefL.trans ⟨more8 ++ more13, by simp [List.append_assoc]⟩ hpre) (PrefA.trans hv3 hV) (by show ra3.max < _; omega)
  have hcv3 : regs3.getD rc .nil = cv := by
    have := sv3 rfl
    simpa [slotVal, hrc] using this
  obtain ⟨regs', A, pc', rchF, szF, hst⟩ := takenE regs3 k.pc ed3 hcode hmap (by simpa [List.append_assoc] using hpre) hV (by rw [sz3]; exact hsz13)
    (by rw [hcv3])
  exact ⟨regs', A, pc', Reach.trans rch3 rchF, by rw [szF]; exact sz3, hst⟩

end

end JanetModel.Compile
