/- C02: `Compile.cValue` and `Lang/Sem.eval` on `do` and `def` (symbol pattern, local scope), unfolded once, for any option
   set without tail / hint (value used or dropped); `janetc_copy` into a fresh near register (constant and near-local source):
   compile-side effect and VM run; `evalSeq` inversions. -/
import JanetModel.Compile.Scope
namespace JanetModel.Compile
open JanetModel.Emit JanetModel.Lang JanetModel.Bytecode.Exec JanetModel.Gen.Bytecode

/-! ### the compiler on the forms of the fragment, options without tail / hint -/

theorem cValue_lit_o (fuel : Nat) (opts : Fopts) (ht : opts.tail = false) (hh : opts.hint = none) (v : Value) (hv : SimpleLit v) (c : CState) :
    cValue (fuel + 1) opts (.lit v) c = some ((constSlot c v).1, { (constSlot c v).2 with cur := c.cur }) := by
  cases v <;> simp_all [cValue, SimpleLit]

theorem cValue_sym_o (fuel : Nat) (opts : Fopts) (ht : opts.tail = false) (hh : opts.hint = none) (x : String) (c : CState) :
    cValue (fuel + 1) opts (.sym x) c = fin c.cur (resolve c x) := by
  simp only [cValue, ht, hh]
  cases resolve c x with
  | none => rfl
  | some a => cases a; rfl

theorem cCall_o (rec' : Fopts → Expr → CState → Option (JSlot × CState)) (opts : Fopts) (ht : opts.tail = false) (hh : opts.hint = none)
    (hd : Expr) (args : List Expr) (c : CState) : cCall rec' opts hd args c = cCall rec' {} hd args c := by
  simp only [cCall, ht, hh, getTarget]

theorem cValue_call_o (fuel : Nat) (opts : Fopts) (ht : opts.tail = false) (hh : opts.hint = none) (f : String) (args : List Expr) (p : Pos)
    (c : CState) (hf : specials.contains f = false) :
    cValue (fuel + 1) opts (.form (.sym f :: args) p) c = fin c.cur (cCall (cValue fuel) {} (.sym f) args (curAt c p)) := by
  have hf' := hf
  simp only [specials, List.contains_cons, List.contains_nil, Bool.or_false, Bool.or_eq_false_iff, beq_eq_false_iff_ne, ne_eq] at hf'
  obtain ⟨h1, h2, h3, h4, h5, h6, h7, h8, h9, h10, h11, h12, h13⟩ := hf'
  rw [← cCall_o (cValue fuel) opts ht hh]
  rw [cValue] <;> first | (intros; simp_all; done) | skip
  simp only [hf, curAt, ht, hh]
  cases cCall (cValue fuel) opts (.sym f) args (if p.line ≥ 0 then { c with cur := p } else c) with
  | none => rfl
  | some a => cases a; rfl

/-- `janetc_do` -/
def cDo (rec' : Fopts → Expr → CState → Option (JSlot × CState)) (opts : Fopts) (body : List Expr) (c : CState) : Option (JSlot × CState) := do
  let (r, c2) ← doBody rec' opts body (pushScope c false false false false)
  let c3 ← popScopeKeep c2 r
  pure (r, c3)

theorem cValue_do_o (fuel : Nat) (opts : Fopts) (ht : opts.tail = false) (hh : opts.hint = none) (body : List Expr) (p : Pos) (c : CState) :
    cValue (fuel + 1) opts (.form (.sym "do" :: body) p) c = fin c.cur (cDo (cValue fuel) opts body (curAt c p)) := by
  simp only [cValue, ht, hh]
  split
  · rename_i h; exact (congrArg (fin c.cur) h).symm
  · rename_i r c1 h
    simp only [Bool.false_eq_true, if_false, Option.pure_def, Option.bind_eq_bind, Option.bind_some]
    exact (congrArg (fin c.cur) h).symm

/-- `janetc_upscope`: the body in the current scope -/
theorem cValue_upscope_o (fuel : Nat) (opts : Fopts) (ht : opts.tail = false) (hh : opts.hint = none) (body : List Expr) (p : Pos) (c : CState) :
    cValue (fuel + 1) opts (.form (.sym "upscope" :: body) p) c = fin c.cur (doBody (cValue fuel) opts body (curAt c p)) := by
  simp only [cValue, ht, hh]
  split
  · rename_i h; exact (congrArg (fin c.cur) h).symm
  · rename_i r c1 h
    simp only [Bool.false_eq_true, if_false, Option.pure_def, Option.bind_eq_bind, Option.bind_some]
    exact (congrArg (fin c.cur) h).symm

/-- `janetc_def` with a symbol pattern in a local scope -/
def cDef (rec' : Fopts → Expr → CState → Option (JSlot × CState)) (name : String) (v : Expr) (c : CState) : Option (JSlot × CState) :=
  if curTop c then none else do
    let (r, c1) ← rec' {} v c
    let c2 ← namelocal c1 name false r
    pure (r, c2)

theorem cValue_def_o (fuel : Nat) (opts : Fopts) (ht : opts.tail = false) (hh : opts.hint = none) (name : String) (v : Expr) (p : Pos) (c : CState) :
    cValue (fuel + 1) opts (.form [.sym "def", .sym name, v] p) c = fin c.cur (cDef (cValue fuel) name v (curAt c p)) := by
  simp only [cValue, ht, hh]
  split
  · rename_i h; exact (congrArg (fin c.cur) h).symm
  · rename_i r c1 h
    simp only [Bool.false_eq_true, if_false, Option.pure_def, Option.bind_eq_bind, Option.bind_some]
    exact (congrArg (fin c.cur) h).symm

/-! ### the reference semantics on the same forms -/

theorem eval_do (n : Nat) (cur : Pos) (env : Env) (body : List Expr) (p : Pos) (s : SS) :
    eval (n + 1) cur env (.form (.sym "do" :: body) p) s =
      (match evalSeq n (posOf cur p) env body s with
       | .ok (v, _) s' => .ok (v, env) s'
       | r => r) := by
  simp only [eval] <;> rfl

theorem eval_upscope (n : Nat) (cur : Pos) (env : Env) (body : List Expr) (p : Pos) (s : SS) :
    eval (n + 1) cur env (.form (.sym "upscope" :: body) p) s = evalSeq n (posOf cur p) env body s := by
  simp only [eval]

theorem eval_def (n : Nat) (cur : Pos) (env : Env) (x : String) (ve : Expr) (p : Pos) (s : SS) :
    eval (n + 1) cur env (.form [.sym "def", .sym x, ve] p) s =
      (match eval n (posOf cur p) env ve s with
       | .ok (v, env1) s' =>
         match destructure n (posOf cur p) env1 (.sym x) v s' with
         | .ok env2 s'' => .ok (v, env2) s''
         | .err v p s'' => .err v p s'' | .brk v s'' => .brk v s'' | .stop w => .stop w
       | r => r) := by
  simp only [eval, List.getLast?, List.getLast_singleton] <;> rfl

theorem eval_do_inv (n : Nat) (cur : Pos) (env env' : Env) (body : List Expr) (p : Pos) (s s' : SS) (v : Value)
    (h : eval n cur env (.form (.sym "do" :: body) p) s = .ok (v, env') s') :
    ∃ n2 envb, n = n2 + 1 ∧ evalSeq n2 (posOf cur p) env body s = .ok (v, envb) s' ∧ env' = env := by
  cases n with
  | zero => simp [eval] at h
  | succ n2 =>
    rw [eval_do] at h
    cases he : evalSeq n2 (posOf cur p) env body s with
    | ok r s1 =>
      obtain ⟨v1, envb⟩ := r
      rw [he] at h
      simp only [R.ok.injEq, Prod.mk.injEq] at h
      obtain ⟨⟨hv, henv⟩, hs⟩ := h
      subst hv hs
      exact ⟨n2, envb, rfl, he, henv.symm⟩
    | err _ _ _ => rw [he] at h; exact absurd h (by simp)
    | brk _ _ => rw [he] at h; exact absurd h (by simp)
    | stop _ => rw [he] at h; exact absurd h (by simp)

theorem eval_def_inv (n : Nat) (cur : Pos) (env env' : Env) (x : String) (ve : Expr) (p : Pos) (s s' : SS) (v : Value)
    (h : eval n cur env (.form [.sym "def", .sym x, ve] p) s = .ok (v, env') s') :
    ∃ n2 env1 s1, n = n2 + 1 ∧ eval n2 (posOf cur p) env ve s = .ok (v, env1) s1 ∧
      env' = (x, s1.boxes.size) :: env1 ∧ s' = { s1 with boxes := s1.boxes.push v } := by
  cases n with
  | zero => simp [eval] at h
  | succ n2 =>
    rw [eval_def] at h
    cases he : eval n2 (posOf cur p) env ve s with
    | ok r s1 =>
      obtain ⟨v1, env1⟩ := r
      rw [he] at h
      cases n2 with
      | zero => simp [eval] at he
      | succ n3 =>
        simp only [destructure, Lang.bind, R.ok.injEq, Prod.mk.injEq] at h
        obtain ⟨⟨hv, henv⟩, hs⟩ := h
        subst hv
        exact ⟨n3 + 1, env1, s1, rfl, he, henv.symm, hs.symm⟩
    | err _ _ _ => rw [he] at h; exact absurd h (by simp)
    | brk _ _ => rw [he] at h; exact absurd h (by simp)
    | stop _ => rw [he] at h; exact absurd h (by simp)

theorem evalSeq_nil_inv (n : Nat) (cur : Pos) (env env' : Env) (s s' : SS) (v : Value)
    (h : evalSeq n cur env [] s = .ok (v, env') s') : v = .nil ∧ env' = env ∧ s' = s := by
  cases n with
  | zero => simp [evalSeq] at h
  | succ n =>
    simp only [evalSeq, R.ok.injEq, Prod.mk.injEq] at h
    obtain ⟨⟨h1, h2⟩, h3⟩ := h
    exact ⟨h1.symm, h2.symm, h3.symm⟩

theorem evalSeq_one_inv (n : Nat) (cur : Pos) (env env' : Env) (e : Expr) (s s' : SS) (v : Value)
    (h : evalSeq n cur env [e] s = .ok (v, env') s') : ∃ n2, n = n2 + 1 ∧ eval n2 cur env e s = .ok (v, env') s' := by
  cases n with
  | zero => simp [evalSeq] at h
  | succ n => exact ⟨n, rfl, by simpa only [evalSeq] using h⟩

theorem evalSeq_cons_inv (n : Nat) (cur : Pos) (env env' : Env) (e y : Expr) (rest : List Expr) (s s' : SS) (v : Value)
    (h : evalSeq n cur env (e :: y :: rest) s = .ok (v, env') s') :
    ∃ n2 v1 env1 s1, n = n2 + 1 ∧ eval n2 cur env e s = .ok (v1, env1) s1 ∧ evalSeq n2 cur env1 (y :: rest) s1 = .ok (v, env') s' := by
  cases n with
  | zero => simp [evalSeq] at h
  | succ n =>
    simp only [evalSeq] at h
    cases he : eval n cur env e s with
    | ok r s1 =>
      obtain ⟨v1, env1⟩ := r
      rw [he] at h
      exact ⟨n, v1, env1, s1, rfl, he, h⟩
    | err _ _ _ => rw [he] at h; exact absurd h (by simp)
    | brk _ _ => rw [he] at h; exact absurd h (by simp)
    | stop _ => rw [he] at h; exact absurd h (by simp)

/-! ### `janetc_copy` into a near register -/

/-- `janetc_copy(c, near local r, constant)`: one load; allocator untouched; the constant interned -/
theorem copy_loc_const (c c' : CState) (dest src : JSlot) (r : Nat) (k : KConst) (hd : dest.k = .loc r) (hr : r ≤ 0xFF) (hdc : dest.cflag = false)
    (hsrc : src.k = .const k) (sc : Scope) (rs : List Scope) (pool : List KConst) (ps : List (List KConst))
    (hs : c.scopes = sc :: rs) (hp : c.pools = pool :: ps) (h : copySlot c dest src = some c') :
    sc.ra.max < c.lim ∧
    c' = { c with scopes := sc :: rs, pools := (if k.pooled then W.intern pool k else pool) :: ps,
                  buf := c.buf ++ [CI.mi (.ldk r k (W.poolIdx (if k.pooled then W.intern pool k else pool) k))], map := c.map ++ [c.cur] } := by
  have hne : ¬ (dest.k = src.k) := by rw [hd, hsrc]; simp
  simp only [copySlot, hdc, Bool.false_eq_true, if_false, hne, decide_false, Bool.false_and] at h
  obtain ⟨hmax, hc'⟩ := emitW_spec c c' _ sc rs pool ps hs hp h
  have hnl : (Slot.loc r).nearLocal = true := by simp [Slot.nearLocal, hr]
  have hX : W.copy { ra := sc.ra, buf := [], consts := pool } dest.k src.k =
      { ra := sc.ra, buf := [.ldk r k (W.poolIdx (if k.pooled then W.intern pool k else pool) k)], consts := (if k.pooled then W.intern pool k else pool) } := by
    rw [hd, hsrc]
    simp only [W.copy, hnl, if_true, slotConst_const, W.finish, Emit.copy, Slot.index, movenear, List.nil_append]
    simp
  rw [hX] at hmax hc'
  exact ⟨hmax, by rw [hc']; simp⟩

/-- `janetc_copy(c, near local r, near local d)`, `r ≠ d`: one move -/
theorem copy_loc_loc (c c' : CState) (dest src : JSlot) (r d : Nat) (hd : dest.k = .loc r) (hr : r ≤ 0xFF) (hdc : dest.cflag = false)
    (hsrc : src.k = .loc d) (hne : d ≠ r) (sc : Scope) (rs : List Scope) (pool : List KConst) (ps : List (List KConst))
    (hs : c.scopes = sc :: rs) (hp : c.pools = pool :: ps) (h : copySlot c dest src = some c') :
    sc.ra.max < c.lim ∧
    c' = { c with scopes := sc :: rs, pools := pool :: ps, buf := c.buf ++ [CI.mi (.movn r d)], map := c.map ++ [c.cur] } := by
  have hne' : ¬ (dest.k = src.k) := by rw [hd, hsrc]; simp; exact fun e => hne e.symm
  simp only [copySlot, hdc, Bool.false_eq_true, if_false, hne', decide_false, Bool.false_and] at h
  obtain ⟨hmax, hc'⟩ := emitW_spec c c' _ sc rs pool ps hs hp h
  have hnl : (Slot.loc r).nearLocal = true := by simp [Slot.nearLocal, hr]
  have hX : W.copy { ra := sc.ra, buf := [], consts := pool } dest.k src.k = { ra := sc.ra, buf := [.movn r d], consts := pool } := by
    rw [hd, hsrc]
    have hrd : ¬ (Slot.loc r = Slot.loc d) := by simp; exact fun e => hne e.symm
    simp only [W.copy, hrd, if_false, hnl, if_true, W.slotConst, W.finish, Emit.copy, Slot.index, movenear, List.nil_append, List.foldl_nil]
    simp [hne]
  rw [hX] at hmax hc'
  exact ⟨hmax, by rw [hc']; simp⟩

section
variable (p : Program) (f0 : Frame) (rest : List Frame)

/-- JOP_MOVE_NEAR -/
theorem run_movn (k : Cfg) (r d : Nat) (hr : r < 256) (hd : d < 65536)
    (hcode : (p.defs.getD f0.defIdx default).code[k.pc]? = some (CI.mi (.movn r d)).word) :
    step p (inj f0 rest k) = .next (inj f0 rest { k with regs := k.regs.setIfInBounds r (k.regs.getD d .nil), pc := k.pc + 1 }) := by
  have h := step_mi p (inj f0 rest k) (.movn r d) ⟨hr, hd⟩ (by rw [inj_curDef, inj_pc]; exact hcode)
  rw [h]
  simp only [vmExecMI, inj_getReg, inj_setAdv]

end

end JanetModel.Compile
