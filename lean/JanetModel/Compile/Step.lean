/- C02: the instruction words the emit layer / compiler model produce (`MI.word`, `CI.word`) are decoded and executed by the
   Lean VM (`Bytecode/Exec.step`) as the instruction they stand for.  This identifies the emit machine (`Emit/Machine.exec`,
   registers ↦ frame registers, upvalues ↦ `readUp`/`writeUp`, ref cells ↦ element 0 of the heap array) with the VM on the
   shared opcodes, and gives the step lemmas of the compile-correctness proof. -/
import JanetModel.Compile.Model
import JanetModel.Bytecode.Exec
namespace JanetModel.Compile
open JanetModel.Emit JanetModel.Bytecode.Exec JanetModel.Gen.Bytecode

theorem Op.toNat_lt (op : Op) : op.toNat < 128 := by cases op <;> decide
theorem Op.ofNat_toNat (op : Op) : Op.ofNat? op.toNat = some op := by cases op <;> rfl

/-- fetch + decode -/
theorem step_decode (p : Program) (st : State) (w : Nat) (op : Op)
    (hf : (curDef p st).code[st.cur.pc]? = some w) (ho : w % 128 = op.toNat) :
    step p st = execOp p st (curDef p st) w op := by
  unfold step
  simp only [hf, ho, Op.ofNat_toNat]

/-! ### instruction fields of a word built as `op + a·2⁸ + b·2¹⁶ + c·2²⁴` -/

theorem fA3 (o a b c : Nat) (ho : o < 256) (ha : a < 256) : fA (o + a * 256 + b * 65536 + c * 16777216) = a := by unfold fA; omega
theorem fB3 (o a b c : Nat) (ho : o < 256) (ha : a < 256) (hb : b < 256) : fB (o + a * 256 + b * 65536 + c * 16777216) = b := by unfold fB; omega
theorem fC3 (o a b c : Nat) (ho : o < 256) (ha : a < 256) (hb : b < 256) (hc : c < 256) : fC (o + a * 256 + b * 65536 + c * 16777216) = c := by
  unfold fC; omega
theorem fA2 (o a e : Nat) (ho : o < 256) (ha : a < 256) : fA (o + a * 256 + e * 65536) = a := by unfold fA; omega
theorem fE2 (o a e : Nat) (ho : o < 256) (ha : a < 256) (he : e < 65536) : fE (o + a * 256 + e * 65536) = e := by unfold fE; omega
theorem fB2 (o a e : Nat) (ho : o < 256) (ha : a < 256) (he : e < 256) : fB (o + a * 256 + e * 65536) = e := by unfold fB; omega
theorem fC2 (o a e : Nat) (ho : o < 256) (ha : a < 256) (he : e < 256) : fC (o + a * 256 + e * 65536) = 0 := by unfold fC; omega
theorem fD1 (o d : Nat) (ho : o < 256) (hd : d < 16777216) : fD (o + d * 256) = d := by unfold fD; omega
theorem op3 (o a b c : Nat) (ho : o < 128) : (o + a * 256 + b * 65536 + c * 16777216) % 128 = o := by omega
theorem op2 (o a e : Nat) (ho : o < 128) : (o + a * 256 + e * 65536) % 128 = o := by omega
theorem op1 (o d : Nat) (ho : o < 128) : (o + d * 256) % 128 = o := by omega

theorem sext16 (n : Int) (h1 : -32768 ≤ n) (h2 : n ≤ 32767) : sext 16 (imod n 65536) = n := by
  unfold sext imod
  have : (2 : Nat) ^ (16 - 1) = 32768 := by decide
  have h16 : (2 : Nat) ^ 16 = 65536 := by decide
  rw [this, h16]
  split <;> omega

theorem sext24 (n : Int) (h1 : -8388608 ≤ n) (h2 : n ≤ 8388607) : sext 24 (imod n 16777216) = n := by
  unfold sext imod
  have : (2 : Nat) ^ (24 - 1) = 8388608 := by decide
  have h24 : (2 : Nat) ^ 24 = 16777216 := by decide
  rw [this, h24]
  split <;> omega

/-! ### the non-payload instructions of the emit layer, executed by the VM -/

/-- what `Emit/Machine.exec` says about the instruction, in terms of the VM state -/
def vmExecMI (p : Program) (st : State) : MI → StepRes
  | .movn d s => .next (st.setAdv d (st.getReg s))
  | .movf s d => .next (st.setAdv d (st.getReg s))
  | .ldu d e i => match st.readUp e i with
    | some v => .next (st.setAdv d v)
    | none => .unsup "invalid upvalue"
  | .setu s e i => match st.writeUp e i (st.getReg s) with
    | some st' => .next st'.adv
    | none => .unsup "invalid upvalue"
  | .ldk d .nil _ => .next (st.setAdv d .nil)
  | .ldk d .tru _ => .next (st.setAdv d (.bool true))
  | .ldk d .fls _ => .next (st.setAdv d (.bool false))
  | .ldk d (.int n) idx =>
    if -32768 ≤ n ∧ n ≤ 32767 then .next (st.setAdv d (.num (Float.ofInt n)))
    else .next (st.setAdv d ((curDef p st).consts.getD idx .nil))
  | .ldk d _ idx => .next (st.setAdv d ((curDef p st).consts.getD idx .nil))
  | .ldref d idx _ => .next (st.setAdv d ((curDef p st).consts.getD idx .nil))
  | .geti0 a b => liftP p st (vgetindex st.heap (st.getReg b) 0) (fun v => .next (st.setAdv a v))
  | .puti0 a b => liftP p st (vput st.heap (st.getReg a) (.num (Float.ofNat 0)) (st.getReg b)) (fun h => .next ({ st with heap := h }).adv)
  | .pay _ _ _ _ _ => .unsup "payload"

def MI.inRange : MI → Prop
  | .movn d s => d < 256 ∧ s < 65536
  | .movf s d => s < 256 ∧ d < 65536
  | .ldu _ _ _ => False          -- upvalue instructions: not covered (their VM semantics needs the environment objects)
  | .setu _ _ _ => False
  | .ldk d _ idx => d < 256 ∧ idx < 65536
  | .ldref d idx _ => d < 256 ∧ idx < 65536
  | .geti0 a b => a < 256 ∧ b < 256
  | .puti0 a b => a < 256 ∧ b < 256
  | .pay _ _ _ _ _ => False

/-- identification of the emit machine with the VM on the shared opcodes: the word the emit layer produces for a load / move
    instruction is executed by `Exec.step` as that instruction -/
theorem step_mi (p : Program) (st : State) (mi : MI) (hr : MI.inRange mi)
    (hf : (curDef p st).code[st.cur.pc]? = some mi.word) : step p st = vmExecMI p st mi := by
  cases mi with
  | movn d s =>
    obtain ⟨hd, hs⟩ := hr
    rw [step_decode p st _ .moveNear hf (by simp only [MI.word]; exact op2 _ _ _ (Op.toNat_lt _))]
    simp only [execOp, MI.word, vmExecMI]
    rw [fA2 _ _ _ (by decide) hd, fE2 _ _ _ (by decide) hd hs]
  | movf s d =>
    obtain ⟨hs, hd⟩ := hr
    rw [step_decode p st _ .moveFar hf (by simp only [MI.word]; exact op2 _ _ _ (Op.toNat_lt _))]
    simp only [execOp, MI.word, vmExecMI]
    rw [fA2 _ _ _ (by decide) hs, fE2 _ _ _ (by decide) hs hd]
  | ldu d e i => exact absurd hr id
  | setu s e i => exact absurd hr id
  | ldk d k idx =>
    obtain ⟨hd, hi⟩ := hr
    cases k with
    | nil =>
      rw [step_decode p st _ .loadNil hf (by simp only [MI.word]; exact op1 _ _ (Op.toNat_lt _))]
      simp only [execOp, MI.word, vmExecMI]
      rw [fD1 _ _ (by decide) (by omega)]
    | tru =>
      rw [step_decode p st _ .loadTrue hf (by simp only [MI.word]; exact op1 _ _ (Op.toNat_lt _))]
      simp only [execOp, MI.word, vmExecMI]
      rw [fD1 _ _ (by decide) (by omega)]
    | fls =>
      rw [step_decode p st _ .loadFalse hf (by simp only [MI.word]; exact op1 _ _ (Op.toNat_lt _))]
      simp only [execOp, MI.word, vmExecMI]
      rw [fD1 _ _ (by decide) (by omega)]
    | int n =>
      by_cases hn : -32768 ≤ n ∧ n ≤ 32767
      · have hw : (MI.ldk d (.int n) idx).word = Op.loadInteger.toNat + d * 256 + imod n 65536 * 65536 := by
          simp only [MI.word, hn, and_self, if_true]
        rw [hw] at hf
        have him : imod n 65536 < 65536 := by unfold imod; omega
        rw [step_decode p st _ .loadInteger hf (op2 _ _ _ (Op.toNat_lt _))]
        simp only [execOp, vmExecMI, hn, and_self, if_true, fES]
        rw [fA2 _ _ _ (by decide) hd, fE2 _ _ _ (by decide) hd him, sext16 n hn.1 hn.2]
      · have hw : (MI.ldk d (.int n) idx).word = Op.loadConstant.toNat + d * 256 + idx * 65536 := by
          simp only [MI.word, hn, if_false]
        rw [hw] at hf
        rw [step_decode p st _ .loadConstant hf (op2 _ _ _ (Op.toNat_lt _))]
        simp only [execOp, vmExecMI, hn, if_false]
        rw [fA2 _ _ _ (by decide) hd, fE2 _ _ _ (by decide) hd hi]
    | refarr id =>
      rw [step_decode p st _ .loadConstant hf (by simp only [MI.word]; exact op2 _ _ _ (Op.toNat_lt _))]
      simp only [execOp, MI.word, vmExecMI]
      rw [fA2 _ _ _ (by decide) hd, fE2 _ _ _ (by decide) hd hi]
    | other id =>
      rw [step_decode p st _ .loadConstant hf (by simp only [MI.word]; exact op2 _ _ _ (Op.toNat_lt _))]
      simp only [execOp, MI.word, vmExecMI]
      rw [fA2 _ _ _ (by decide) hd, fE2 _ _ _ (by decide) hd hi]
  | ldref d idx id =>
    obtain ⟨hd, hi⟩ := hr
    rw [step_decode p st _ .loadConstant hf (by simp only [MI.word]; exact op2 _ _ _ (Op.toNat_lt _))]
    simp only [execOp, MI.word, vmExecMI]
    rw [fA2 _ _ _ (by decide) hd, fE2 _ _ _ (by decide) hd hi]
  | geti0 a b =>
    obtain ⟨ha, hb⟩ := hr
    rw [step_decode p st _ .getIndex hf (by simp only [MI.word]; exact op2 _ _ _ (Op.toNat_lt _))]
    simp only [execOp, MI.word, vmExecMI]
    rw [fA2 _ _ _ (by decide) ha, fB2 _ _ _ (by decide) ha hb, fC2 _ _ _ (by decide) ha hb]
  | puti0 a b =>
    obtain ⟨ha, hb⟩ := hr
    rw [step_decode p st _ .putIndex hf (by simp only [MI.word]; exact op2 _ _ _ (Op.toNat_lt _))]
    simp only [execOp, MI.word, vmExecMI]
    rw [fA2 _ _ _ (by decide) ha, fB2 _ _ _ (by decide) ha hb, fC2 _ _ _ (by decide) ha hb]
  | pay _ _ _ _ _ => exact absurd hr id

/-! ### payload instructions and the instructions compile.c / specials.c emit raw, executed by the VM -/

/-- registers of a payload word, by shape (what `MI.word` packs) -/
theorem step_pay_s (p : Program) (st : State) (op : Op) (wr : Bool) (r rest : Nat) (hr : r < 16777216)
    (hf : (curDef p st).code[st.cur.pc]? = some (MI.pay op.toNat .s wr [r] rest).word) :
    step p st = execOp p st (curDef p st) (op.toNat + r * 256) op ∧ fD (op.toNat + r * 256) = r := by
  have hw : (MI.pay op.toNat .s wr [r] rest).word = op.toNat + r * 256 := by simp [MI.word]
  rw [hw] at hf
  exact ⟨step_decode p st _ op hf (op1 _ _ (Op.toNat_lt _)), fD1 _ _ (by have := Op.toNat_lt op; omega) hr⟩

theorem step_pay_ss (p : Program) (st : State) (op : Op) (wr : Bool) (a e rest : Nat) (ha : a < 256) (he : e < 65536)
    (hf : (curDef p st).code[st.cur.pc]? = some (MI.pay op.toNat .ss wr [a, e] rest).word) :
    step p st = execOp p st (curDef p st) (op.toNat + a * 256 + e * 65536) op ∧
      fA (op.toNat + a * 256 + e * 65536) = a ∧ fE (op.toNat + a * 256 + e * 65536) = e := by
  have hw : (MI.pay op.toNat .ss wr [a, e] rest).word = op.toNat + a * 256 + e * 65536 := by simp [MI.word]
  rw [hw] at hf
  have ho : op.toNat < 256 := by have := Op.toNat_lt op; omega
  exact ⟨step_decode p st _ op hf (op2 _ _ _ (Op.toNat_lt _)), fA2 _ _ _ ho ha, fE2 _ _ _ ho ha he⟩

theorem step_pay_sss (p : Program) (st : State) (op : Op) (wr : Bool) (a b c rest : Nat) (ha : a < 256) (hb : b < 256) (hc : c < 256)
    (hf : (curDef p st).code[st.cur.pc]? = some (MI.pay op.toNat .sss wr [a, b, c] rest).word) :
    step p st = execOp p st (curDef p st) (op.toNat + a * 256 + b * 65536 + c * 16777216) op ∧
      fA (op.toNat + a * 256 + b * 65536 + c * 16777216) = a ∧ fB (op.toNat + a * 256 + b * 65536 + c * 16777216) = b ∧
      fC (op.toNat + a * 256 + b * 65536 + c * 16777216) = c := by
  have hw : (MI.pay op.toNat .sss wr [a, b, c] rest).word = op.toNat + a * 256 + b * 65536 + c * 16777216 := by simp [MI.word]
  rw [hw] at hf
  have ho : op.toNat < 256 := by have := Op.toNat_lt op; omega
  exact ⟨step_decode p st _ op hf (op3 _ _ _ _ (Op.toNat_lt _)), fA3 _ _ _ _ ho ha, fB3 _ _ _ _ ho ha hb, fC3 _ _ _ _ ho ha hb hc⟩

/-- conditional jumps / CLOSURE: register + 16-bit immediate (`rest` = forward offset patched in by `janetc_if` / `janetc_while`) -/
theorem step_pay_si (p : Program) (st : State) (op : Op) (wr : Bool) (a rest : Nat) (ha : a < 256) (hr : rest < 32768)
    (hf : (curDef p st).code[st.cur.pc]? = some (MI.pay op.toNat .si wr [a] rest).word) :
    step p st = execOp p st (curDef p st) (op.toNat + a * 256 + rest * 65536) op ∧
      fA (op.toNat + a * 256 + rest * 65536) = a ∧ fE (op.toNat + a * 256 + rest * 65536) = rest ∧
      fES (op.toNat + a * 256 + rest * 65536) = (rest : Int) := by
  have hw : (MI.pay op.toNat .si wr [a] rest).word = op.toNat + a * 256 + rest * 65536 := by
    simp only [MI.word, List.getD_cons_zero]
    have : rest % 65536 = rest := by omega
    rw [this]
  rw [hw] at hf
  have ho : op.toNat < 256 := by have := Op.toNat_lt op; omega
  have hE := fE2 op.toNat a rest ho ha (by omega)
  refine ⟨step_decode p st _ op hf (op2 _ _ _ (Op.toNat_lt _)), fA2 _ _ _ ho ha, hE, ?_⟩
  unfold fES sext
  rw [hE]
  have : (2 : Nat) ^ (16 - 1) = 32768 := by decide
  rw [this, if_pos hr]

/-- the words of the instructions the compiler proper emits raw -/
theorem step_jump (p : Program) (st : State) (off : Int) (h1 : -8388608 ≤ off) (h2 : off ≤ 8388607)
    (hf : (curDef p st).code[st.cur.pc]? = some (CI.jump off).word) : step p st = .next (st.jump off) := by
  have hw : (CI.jump off).word = Op.jump.toNat + imod off 16777216 * 256 := rfl
  rw [hw] at hf
  have hm : imod off 16777216 < 16777216 := by unfold imod; omega
  rw [step_decode p st _ .jump hf (op1 _ _ (Op.toNat_lt _))]
  simp only [execOp, fDS]
  rw [fD1 _ _ (by decide) hm, sext24 off h1 h2]

theorem step_retNil (p : Program) (st : State) (hf : (curDef p st).code[st.cur.pc]? = some CI.retNil.word) :
    step p st = doReturn p st .nil := by
  have hw : CI.retNil.word = Op.returnNil.toNat + 0 * 256 := rfl
  rw [hw] at hf
  rw [step_decode p st _ .returnNil hf (op1 _ _ (Op.toNat_lt _))]
  simp only [execOp]

theorem step_call (p : Program) (st : State) (d f : Nat) (hd : d < 256) (hfr : f < 65536)
    (hf : (curDef p st).code[st.cur.pc]? = some (CI.call d f).word) : step p st = doCall p st d (st.getReg f) := by
  have hw : (CI.call d f).word = Op.call.toNat + d * 256 + f * 65536 := rfl
  rw [hw] at hf
  rw [step_decode p st _ .call hf (op2 _ _ _ (Op.toNat_lt _))]
  simp only [execOp]
  rw [fA2 _ _ _ (by decide) hd, fE2 _ _ _ (by decide) hd hfr]

theorem step_tailcall (p : Program) (st : State) (r : Nat) (hr : r < 16777216)
    (hf : (curDef p st).code[st.cur.pc]? = some (CI.tailcall r).word) : step p st = doTailcall p st (st.getReg r) := by
  have hw : (CI.tailcall r).word = Op.tailcall.toNat + r * 256 := rfl
  rw [hw] at hf
  rw [step_decode p st _ .tailcall hf (op1 _ _ (Op.toNat_lt _))]
  simp only [execOp]
  rw [fD1 _ _ (by decide) hr]

theorem step_loadSelf (p : Program) (st : State) (r : Nat) (hr : r < 16777216)
    (hf : (curDef p st).code[st.cur.pc]? = some (CI.loadSelf r).word) : step p st = .next (st.setAdv r (.fn st.cur.self)) := by
  have hw : (CI.loadSelf r).word = Op.loadSelf.toNat + r * 256 := rfl
  rw [hw] at hf
  rw [step_decode p st _ .loadSelf hf (op1 _ _ (Op.toNat_lt _))]
  simp only [execOp]
  rw [fD1 _ _ (by decide) hr]

theorem step_closure (p : Program) (st : State) (r d : Nat) (hr : r < 256) (hd : d < 65536)
    (hf : (curDef p st).code[st.cur.pc]? = some (CI.closure r d).word) : step p st = doClosure p st r d := by
  have hw : (CI.closure r d).word = Op.closure.toNat + r * 256 + d * 65536 := rfl
  rw [hw] at hf
  rw [step_decode p st _ .closure hf (op2 _ _ _ (Op.toNat_lt _))]
  simp only [execOp]
  rw [fA2 _ _ _ (by decide) hr, fE2 _ _ _ (by decide) hr hd]

end JanetModel.Compile
