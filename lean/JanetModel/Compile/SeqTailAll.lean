/- C02: compile correctness of the compiler model for forms compiled in TAIL position (`opts.tail`, no hint, not the top-level
   scope: what `janetc_fn` does with the last form of a function body), for every form of the fragment `TF G false`
     e ::= literal | symbol | (f e ...) | (do e ...) | (upscope e ...) | (def x e)
   by an induction of its own on the compile fuel: literals / symbols / `def` are correct in the non-tail sense and followed by
   `janetc_return` (`tail_ret_core`), calls are tail calls (`tail_call_ok`), `do` / `upscope` pass the tail flag to their last
   statement (the statements before it by the non-tail theorem `tf_correct`, their slots freed).
   `tf_tail_correct_gen` is the induction for `TF G b` with the non-tail theorem, the compile-only fact `NRAt` and the `if` case
   (`TailIfCase`) as parameters; `tf_tail_correct` its instance for `TF G false`, unconditional. -/
import JanetModel.Compile.SeqTailCall
import JanetModel.Compile.SeqTailNR
namespace JanetModel.Compile
open JanetModel.Emit JanetModel.Lang JanetModel.Bytecode.Exec JanetModel.Gen.Bytecode

theorem finT_some_inv (last : Pos) (ret slot : JSlot) (c1 c' : CState) (h : finT last (some (ret, c1)) = some (slot, c')) :
    ∃ c2, cReturn c1 ret = some (slot, c2) ∧ c' = { c2 with cur := last } := by
  simp only [finT, Option.bind_eq_some_iff, Option.some.injEq, Prod.mk.injEq, Prod.exists] at h
  obtain ⟨sl, c2, hr, h1, h2⟩ := h
  subst h1
  exact ⟨c2, hr, h2.symm⟩

theorem constSlot_cur (FF : FloatFacts) (c : CState) (w : Value) (hw : SimpleLit w) :
    ({ (constSlot c w).2 with cur := c.cur } : CState) = (constSlot c w).2 := by
  obtain ⟨h1, _⟩ := kOf_spec FF c w hw
  show ({ (kOf c w).2 with cur := c.cur } : CState) = (kOf c w).2
  rw [h1]

section
variable (p : Program) (f0 : Frame) (rest : List Frame) (V : Array Value) (P : List KConst)

/-- compile correctness in tail position for every form of the fragment `T` at compile fuel `fuel` (the source map as long as
    the code at entry: `janetc_throwaway` in a constant-folded `if` truncates the map by the code length) -/
def TailAt (G : String → Prop) (T : Expr → Prop) (fuel : Nat) : Prop :=
  ∀ (e : Expr) (opts : Fopts) (c c' : CState) (slot : JSlot) (sc : Scope) (rs : List Scope) (pool : List KConst) (ps : List (List KConst))
    (n : Nat) (cur : Pos) (env env' : Env) (s s' : SS) (v : Value),
    opts.tail = true → opts.hint = none → c.scopes = sc :: rs → c.pools = pool :: ps → c.lim ≤ 240 → sc.top = false →
    c.map.length = c.buf.length → T e →
    cValue fuel opts e c = some (slot, c') → eval n cur env e s = .ok (v, env') s' → EnvS G c.scopes env s.boxes.size sc.ra →
    NR c.scopes → TailOK p f0 rest V P G c c' slot sc rs pool ps env s s' v

/-- a statement whose value is dropped and freed, then a form in tail position -/
theorem TailOK_seq (G : String → Prop) (dr1 : Bool) (c c1 c1f c' : CState) (sl1 slot : JSlot) (sc : Scope) (rs : List Scope) (pool : List KConst)
    (ps : List (List KConst)) (env env1 : Env) (s s1 s' : SS) (v1 v : Value)
    (h1 : Correct2 p f0 rest V P G dr1 c c1 sl1 sc rs pool ps env env1 s s1 v1)
    (hf : freeslot c1 sl1 = some c1f)
    (h2 : ∀ sc1 pool1, c1f.scopes = sc1 :: rs → c1f.pools = pool1 :: ps → sc1.top = sc.top → c1f.lim = c.lim →
          (∀ x, lk c1f.scopes x = lk c1.scopes x) →
          EnvS G c1f.scopes env1 s1.boxes.size sc1.ra → TailOK p f0 rest V P G c1f c' slot sc1 rs pool1 ps env1 s1 s' v) :
    TailOK p f0 rest V P G c c' slot sc rs pool ps env s s' v := by
  obtain ⟨ra1, ns1, more1, seg1, segm1, hc1, pv1, mono1, max1, sok1, bx1, es1, nf1, vm1⟩ := h1
  have hs1 : c1.scopes = { sc with ra := ra1, syms := sc.syms ++ ns1 } :: rs := by rw [hc1]
  obtain ⟨raf, hcf, hmaxf, hkeep⟩ := freeslot_ok c1 c1f sl1 sc { sc with ra := ra1, syms := sc.syms ++ ns1 } rs hs1 sok1 hf
  have hsf : c1f.scopes = { sc with ra := raf, syms := sc.syms ++ ns1 } :: rs := by rw [hcf]
  have hpf : c1f.pools = (pool ++ more1) :: ps := by rw [hcf, hc1]
  have hlkf : ∀ x, lk c1f.scopes x = lk c1.scopes x := by intro x; rw [hsf, hs1]; rfl
  have esf : EnvS G c1f.scopes env1 s1.boxes.size raf :=
    es1.of_lk hlkf (Nat.le_refl _) (fun x slot u l r hx hk hr => hkeep r hr (Or.inr ⟨x, slot, u, l, hx, hk⟩))
  obtain ⟨hret, ra', ns2, more2, seg2, segm2, hc', pv2, mono2, max2, vm2⟩ := h2 _ _ hsf hpf rfl (by rw [hcf, hc1]) hlkf esf
  have hvf : c1f.vals = c1.vals := by rw [hcf]
  have hmaxf' : raf.max = ra1.max := hmaxf
  have max2' : raf.max ≤ ra'.max := max2
  have mono2' : ∀ r, raf.alloc r = true → ra'.alloc r = true := mono2
  have keep0 : ∀ r, sc.ra.alloc r = true → raf.alloc r = true := fun r hr => hkeep r (mono1 r hr) (Or.inl hr)
  refine ⟨hret, ra', ns1 ++ ns2, more1 ++ more2, seg1 ++ seg2, segm1 ++ segm2, ?_, ?_, ?_, ?_, ?_⟩
  · rw [hc', hcf, hc1]
    simp [List.append_assoc]
  · rw [hvf] at pv2; exact PrefA.trans pv1 pv2
  · intro r hr; exact mono2' r (keep0 r hr)
  · omega
  · intro k hkw hka hD hcode hpre hV hsz
    have hV1 : PrefA c1.vals V := by rw [← hvf]; exact PrefA.trans pv2 hV
    obtain ⟨regs1, rch1, sz1, pr1, sv1, ed1⟩ :=
      vm1 k hkw hka hD hcode.left (PrefL.trans ⟨more2, by simp [List.append_assoc]⟩ hpre) hV1 (by omega)
    obtain ⟨regs2, A, pc2, wa, rch2, sz2, st2⟩ :=
      vm2 { regs := regs1, pc := k.pc + seg1.length, args := #[], w := s1.st.world } rfl rfl (ed1.of_lk hlkf) hcode.right
        (by rw [List.append_assoc]; exact hpre) hV (by show ra'.max < regs1.size; omega)
    have sz2' : regs2.size = regs1.size := sz2
    exact ⟨regs2, A, pc2, wa, Reach.trans rch1 rch2, by omega, st2⟩

/-- body of `do` / `upscope` in tail position: the statements before the last dropped and freed (non-tail theorem), the last
    one in tail position -/
theorem doBody_tail (G : String → Prop) (T : Expr → Prop) (w : Bool) (fuel : Nat) (IHn : CorrectAt p f0 rest V P G T w fuel)
    (ML : MLAt G T true fuel) (NRf : NRAt G T fuel) (IHt : TailAt p f0 rest V P G T fuel) :
    ∀ (b : List Expr), (∀ e, e ∈ b → T e) → b ≠ [] →
    ∀ (opts : Fopts) (c c' : CState) (slot : JSlot) (sc : Scope) (rs : List Scope) (pool : List KConst) (ps : List (List KConst))
      (n : Nat) (cur : Pos) (env env' : Env) (s s' : SS) (v : Value),
      opts.tail = true → opts.hint = none → c.scopes = sc :: rs → c.pools = pool :: ps → c.lim ≤ 240 → sc.top = false →
      c.map.length = c.buf.length →
      doBody (cValue fuel) opts b c = some (slot, c') → evalSeq n cur env b s = .ok (v, env') s' → EnvS G c.scopes env s.boxes.size sc.ra →
      NR c.scopes → TailOK p f0 rest V P G c c' slot sc rs pool ps env s s' v := by
  intro b
  induction b with
  | nil => intro _ hne; exact absurd rfl hne
  | cons x t ih =>
    intro hT _ opts c c' slot sc rs pool ps n cur env env' s s' v ht hh hs hp hl htop hm hc hsem hE hN
    cases t with
    | nil =>
      simp only [doBody] at hc
      obtain ⟨n2, hn, he⟩ := evalSeq_one_inv n cur env env' x s s' v hsem
      exact IHt x opts c c' slot sc rs pool ps n2 cur env env' s s' v ht hh hs hp hl htop hm (hT x (by simp)) hc he hE hN
    | cons y r =>
      simp only [doBody, Option.bind_eq_bind, Option.bind_eq_some_iff, Prod.exists] at hc
      obtain ⟨sl1, c1, hx, c1f, hf, hrest⟩ := hc
      obtain ⟨n2, v1, env1, s1, hn, he1, he2⟩ := evalSeq_cons_inv n cur env env' x y r s s' v hsem
      have h1 := IHn x { drop := true } c c1 sl1 sc rs pool ps n2 cur env env1 s s1 v1 rfl rfl hs hp hl htop
        (fun _ => hm) (hT x (by simp)) hx he1 hE
      obtain ⟨_, hN1⟩ := NRf x { drop := true } c c1 sl1 sc rs pool ps env s.boxes.size rfl rfl hs hp htop hm (hT x (by simp)) hE hN hx
      have hm1 : c1f.map.length = c1f.buf.length := by
        obtain ⟨e1, e2⟩ := freeslot_bufmap c1 c1f sl1 hf
        rw [e1, e2]
        exact ML rfl x { drop := true } c c1 sl1 sc rs pool ps env s.boxes.size rfl rfl hs hp htop (hT x (by simp)) hE hx hm
      refine TailOK_seq p f0 rest V P G _ c c1 c1f c' sl1 slot sc rs pool ps env env1 s s1 s' v1 v h1 hf ?_
      intro sc1 pool1 hs1 hp1 htop1 hl1 hlk1 hE1
      exact ih (fun e he => hT e (by simp [he])) (by simp) opts c1f c' slot sc1 rs pool1 ps n2 cur env1 env' s1 s' v ht hh hs1 hp1
        (by rw [hl1]; exact hl) (by rw [htop1]; exact htop) hm1 hrest he2 hE1 (hN1.of_lk hlk1)

/-- `janetc_do` in tail position, non-empty body: block scope around the body; the pop after the returning statement is
    compile-only -/
theorem do_tail (G : String → Prop) (T : Expr → Prop) (w : Bool) (fuel : Nat) (IHn : CorrectAt p f0 rest V P G T w fuel)
    (ML : MLAt G T true fuel) (NRf : NRAt G T fuel) (IHt : TailAt p f0 rest V P G T fuel)
    (body : List Expr) (hT : ∀ e, e ∈ body → T e) (hne : body ≠ [])
    (opts : Fopts) (c c' : CState) (slot : JSlot) (sc : Scope) (rs : List Scope) (pool : List KConst) (ps : List (List KConst))
    (n : Nat) (cur : Pos) (env envb : Env) (s s' : SS) (v : Value)
    (ht : opts.tail = true) (hh : opts.hint = none) (hs : c.scopes = sc :: rs) (hp : c.pools = pool :: ps) (hl : c.lim ≤ 240)
    (hm : c.map.length = c.buf.length)
    (hc : cDo (cValue fuel) opts body c = some (slot, c')) (hsem : evalSeq n cur env body s = .ok (v, envb) s')
    (hE : EnvS G c.scopes env s.boxes.size sc.ra) (hN : NR c.scopes) :
    TailOK p f0 rest V P G c c' slot sc rs pool ps env s s' v := by
  simp only [cDo, Option.bind_eq_bind, Option.bind_eq_some_iff, Prod.exists, Option.pure_def, Option.some.injEq, Prod.mk.injEq] at hc
  obtain ⟨r, c2, hbody, c3, hpop, hslot, hc3⟩ := hc
  subst hslot hc3
  let nw : Scope := { ra := { alloc := sc.ra.alloc, max := sc.ra.max }, start := c.buf.length }
  have hc1 : pushScope c false false false false = { c with scopes := nw :: sc :: rs } := by
    simp [pushScope, hs, nw]
  rw [hc1] at hbody
  have hlk1 : ∀ x, lk (nw :: sc :: rs) x = lk c.scopes x := by
    intro x; rw [hs]; exact lk_push nw (sc :: rs) rfl rfl rfl x
  have hE1 : EnvS G ({ c with scopes := nw :: sc :: rs } : CState).scopes env s.boxes.size nw.ra :=
    hE.of_lk hlk1 (Nat.le_refl _) (fun _ _ _ _ _ _ _ h => h)
  obtain ⟨hret, ra2, ns2, more2, seg2, segm2, hc2, pv2, mono2, max2, vm2⟩ :=
    doBody_tail p f0 rest V P G T w fuel IHn ML NRf IHt body hT hne opts { c with scopes := nw :: sc :: rs } c2 r nw (sc :: rs) pool ps n cur env envb s s' v
      ht hh rfl hp hl rfl hm hbody hsem hE1 (hN.of_lk hlk1)
  have hs2 : c2.scopes = { nw with ra := ra2, syms := nw.syms ++ ns2 } :: sc :: rs := by rw [hc2]
  obtain ⟨raX, hc3, hmaxX, hmonoX, hkeepX⟩ :=
    popScopeKeep_block c2 c3 r { nw with ra := ra2, syms := nw.syms ++ ns2 } sc rs hs2 rfl rfl rfl hpop
  have max2' : sc.ra.max ≤ ra2.max := max2
  have hmaxX' : raX.max = (if sc.ra.max < ra2.max then ra2.max else sc.ra.max) := hmaxX
  refine ⟨hret, raX, (nw.syms ++ ns2).map (fun q => { q with visible := false }), more2, seg2, segm2, ?_, ?_, hmonoX, ?_, ?_⟩
  · rw [hc3, hc2]
  · rw [hc3]; exact pv2
  · rw [hmaxX']; split <;> omega
  · intro k hkw hka hD hcode hpre hV hsz
    have hv3 : c3.vals = c2.vals := by rw [hc3]
    rw [hv3] at hV
    exact vm2 k hkw hka (hD.of_lk hlk1) hcode hpre hV (by rw [hmaxX'] at hsz; split at hsz <;> omega)

/-- what the `if` case has to deliver in tail position, given the tail induction hypothesis at the fuel of the sub-forms -/
def TailIfCase (G : String → Prop) (b : Bool) (fuel : Nat) : Prop :=
  ∀ (cnd tb : Expr) (els : List Expr) (pp : Pos), CondOK cnd → els.length ≤ 1 → TF G b cnd → TF G b tb → (∀ e, e ∈ els → TF G b e) →
  ∀ (opts : Fopts) (c c' : CState) (slot : JSlot) (sc : Scope) (rs : List Scope) (pool : List KConst) (ps : List (List KConst))
    (n : Nat) (cur : Pos) (env env' : Env) (s s' : SS) (v : Value),
    opts.tail = true → opts.hint = none → c.scopes = sc :: rs → c.pools = pool :: ps → c.lim ≤ 240 → sc.top = false →
    c.map.length = c.buf.length →
    cValue (fuel + 1) opts (.form (.sym "if" :: cnd :: tb :: els) pp) c = some (slot, c') →
    eval n cur env (.form (.sym "if" :: cnd :: tb :: els) pp) s = .ok (v, env') s' → EnvS G c.scopes env s.boxes.size sc.ra →
    NR c.scopes → TailOK p f0 rest V P G c c' slot sc rs pool ps env s s' v

/-- the tail induction for `TF G b`, generic in `b` (and in the switch `w` of the non-tail theorem): the non-tail theorem
    (`CorrectAt`), the compile-only fact `NRAt` and the `if` case are parameters (as `tf_correct` takes `IfCase`) -/
theorem tf_tail_correct_gen (hP : P.length < 65536)
    (hK : ∀ i, i < P.length → (p.defs.getD f0.defIdx default).consts.getD i .nil = litOf V (P.getD i .nil))
    (FF : FloatFacts) (G : String → Prop) (b w : Bool)
    (CN : ∀ fuel, CorrectAt p f0 rest V P G (TF G b) w fuel) (NRS : ∀ fuel, NRAt G (TF G b) fuel)
    (ITC : b = true → ∀ fuel, TailAt p f0 rest V P G (TF G b) fuel → TailIfCase p f0 rest V P G b fuel) :
    ∀ fuel, TailAt p f0 rest V P G (TF G b) fuel := by
  intro fuel
  induction fuel with
  | zero =>
    intro e opts c c' slot sc rs pool ps n cur env env' s s' v _ _ _ _ _ _ _ _ hc
    simp [cValue] at hc
  | succ fuel ih =>
    intro e opts c c' slot sc rs pool ps n cur env env' s s' v ht hh hs hp hl htop hm hTS hc hsem hE hN
    have IHn : CorrectAt p f0 rest V P G (TF G b) w fuel := CN fuel
    have MLw : MLAt G (TF G b) w fuel := tf_ML G b w fuel
    have ML : MLAt G (TF G b) true fuel := tf_ML G b true fuel
    have NRf := NRS fuel
    cases hTS with
    | lit w hw =>
      rw [cValue_lit_t fuel opts ht hh w hw c] at hc
      obtain ⟨c2, hcr, hc'⟩ := finT_some_inv c.cur (constSlot c w).1 slot (constSlot c w).2 c' hc
      subst hc'
      cases n with
      | zero => simp [eval] at hsem
      | succ n =>
        rw [eval_lit] at hsem
        simp only [R.ok.injEq, Prod.mk.injEq] at hsem
        obtain ⟨⟨hv, he⟩, hss⟩ := hsem
        subst hv he hss
        have H := atom_const2 p f0 rest V P FF G c _ hw sc rs pool ps hs hp _ _ hE
        rw [constSlot_cur FF c _ hw] at H
        exact TailOK.recur p f0 rest V P (q := c.cur) (tail_ret_core p f0 rest V P hP hK G c _ c2 _ slot sc rs pool ps _ _ _ _ _ hl H rfl hcr)
    | sym x =>
      rw [cValue_sym_t fuel opts ht hh] at hc
      rcases hE.2 x with ⟨hl1, hl2⟩ | ⟨sl, r, a, u, hl1, hk1, hn1, hc1, hl2, ha, hal, hr⟩
      · rw [resolve_global c x (by rw [lookupSlot_lk]; exact hl1)] at hc
        have hg : globalSlot c x = some (constSlot c (.cfun x)) := by
          unfold globalSlot at hc ⊢
          split at hc <;> simp_all [finT]
        rw [hg] at hc
        obtain ⟨c2, hcr, hc'⟩ := finT_some_inv c.cur (constSlot c (.cfun x)).1 slot (constSlot c (.cfun x)).2 c' hc
        subst hc'
        cases n with
        | zero => simp [eval] at hsem
        | succ n =>
          rw [eval_sym_global n cur env x s hl2] at hsem
          simp only [R.ok.injEq, Prod.mk.injEq] at hsem
          obtain ⟨⟨hv, he⟩, hss⟩ := hsem
          subst hv he hss
          have H := atom_const2 p f0 rest V P FF G c (.cfun x) trivial sc rs pool ps hs hp _ _ hE
          rw [constSlot_cur FF c (.cfun x) trivial] at H
          exact TailOK.recur p f0 rest V P (q := c.cur) (tail_ret_core p f0 rest V P hP hK G c _ c2 _ slot sc rs pool ps _ _ _ _ _ hl H rfl hcr)
      · rw [resolve_local c x sl u (by rw [lookupSlot_lk]; exact hl1) hc1] at hc
        obtain ⟨c2, hcr, hc'⟩ := finT_some_inv c.cur sl slot c c' hc
        subst hc'
        cases n with
        | zero => simp [eval] at hsem
        | succ n =>
          rw [eval_sym_local n cur env x s a hl2] at hsem
          simp only [R.ok.injEq, Prod.mk.injEq] at hsem
          obtain ⟨⟨hv, he⟩, hss⟩ := hsem
          subst hv he hss
          have H := atom_local2 p f0 rest V P G c x sl u sc rs pool ps hs hp _ _ a hE hl1 hl2
          exact TailOK.recur p f0 rest V P (q := c.cur)
            (tail_ret_core p f0 rest V P hP hK G c c c2 sl slot sc rs pool ps _ _ _ _ _ hl H (hN x sl u true hl1) hcr)
    | call f args pp hf hna hG hTa =>
      rw [cValue_call_t fuel opts ht hh f args pp c hf] at hc
      obtain ⟨q, hq⟩ := curAt_eq c pp
      cases hcc : cCall (cValue fuel) opts (.sym f) args (curAt c pp) with
      | none => rw [hcc] at hc; simp [finT] at hc
      | some res =>
        obtain ⟨ret, c1⟩ := res
        rw [hcc] at hc
        obtain ⟨c2, hcr, hc'⟩ := finT_some_inv c.cur ret slot c1 c' hc
        subst hc'
        have hgl : lookupEnv env f = none := by
          rcases hE.2 f with ⟨_, h⟩ | ⟨sl, r, a', u, h, _⟩
          · exact h
          · rw [hE.1 f hG] at h; exact absurd h (by simp)
        obtain ⟨n2, vs, s_a, _, hsa, happ⟩ := eval_callN_inv n cur env env' f args pp s s' v hf hgl hsem
        rw [hq] at hcc
        have H := tail_call_ok p f0 rest V P hP hK FF G (TF G b) w fuel IHn MLw (fun a h => h.notSplice)
          opts ht f args hna hG hTa { c with cur := q } c1 ret sc rs pool ps n2 (posOf cur pp) env env' s s_a s' vs v hs hp hl htop
          (fun _ => hm) hcc hsa happ hE
        rw [cReturn_returned c1 ret H.1] at hcr
        simp only [Option.some.injEq, Prod.mk.injEq] at hcr
        obtain ⟨e1, e2⟩ := hcr
        subst e1 e2
        exact TailOK.recur p f0 rest V P (q := q) H
    | doo body pp hT =>
      rw [cValue_do_t fuel opts ht hh body pp c] at hc
      obtain ⟨q, hq⟩ := curAt_eq c pp
      cases hcc : cDo (cValue fuel) opts body (curAt c pp) with
      | none => rw [hcc] at hc; simp [finT] at hc
      | some res =>
        obtain ⟨ret, c1⟩ := res
        rw [hcc] at hc
        obtain ⟨c2, hcr, hc'⟩ := finT_some_inv c.cur ret slot c1 c' hc
        subst hc'
        obtain ⟨n2, envb, hn, hseq, henv⟩ := eval_do_inv n cur env env' body pp s s' v hsem
        subst henv
        rw [hq] at hcc
        by_cases hne : body = []
        · -- empty body: the constant nil, JOP_RETURN_NIL
          subst hne
          have hcc0 : cDo (cValue fuel) {} [] { c with cur := q } = some (ret, c1) := hcc
          have H := do_core p f0 rest V P G (TF G b) w fuel IHn MLw [] hT {} { c with cur := q } c1 ret sc rs pool ps
            n2 (posOf cur pp) env' envb s s' v rfl rfl hs hp hl (fun _ => hm) hcc0 hseq hE
          have H : Correct2 p f0 rest V P G false { c with cur := q } c1 ret sc rs pool ps env' env' s s' v := H
          have hret : ret.returned = false := by
            simp only [cDo, doBody, Option.bind_eq_bind, Option.bind_some, Option.bind_eq_some_iff, Option.pure_def, Option.some.injEq,
              Prod.mk.injEq] at hcc0
            obtain ⟨_, _, h, _⟩ := hcc0
            rw [← h]; rfl
          exact TailOK.recur p f0 rest V P (q := q) (tail_ret_core p f0 rest V P hP hK G { c with cur := q } c1 c2 ret slot sc rs pool ps _ _ _ _ _ hl H hret hcr)
        · have H := do_tail p f0 rest V P G (TF G b) w fuel IHn ML NRf ih body hT hne opts { c with cur := q } c1 ret sc rs pool ps
            n2 (posOf cur pp) env' envb s s' v ht hh hs hp hl hm hcc hseq hE hN
          rw [cReturn_returned c1 ret H.1] at hcr
          simp only [Option.some.injEq, Prod.mk.injEq] at hcr
          obtain ⟨e1, e2⟩ := hcr
          subst e1 e2
          exact TailOK.recur p f0 rest V P (q := q) H
    | ups body pp hT =>
      rw [cValue_upscope_t fuel opts ht hh body pp c] at hc
      obtain ⟨q, hq⟩ := curAt_eq c pp
      cases hcc : doBody (cValue fuel) opts body (curAt c pp) with
      | none => rw [hcc] at hc; simp [finT] at hc
      | some res =>
        obtain ⟨ret, c1⟩ := res
        rw [hcc] at hc
        obtain ⟨c2, hcr, hc'⟩ := finT_some_inv c.cur ret slot c1 c' hc
        subst hc'
        cases n with
        | zero => simp [eval] at hsem
        | succ n2 =>
          rw [eval_upscope] at hsem
          rw [hq] at hcc
          by_cases hne : body = []
          · subst hne
            have hcc0 : doBody (cValue fuel) {} [] { c with cur := q } = some (ret, c1) := hcc
            have H := doBody_correct p f0 rest V P G (TF G b) w fuel IHn MLw [] hT {} { c with cur := q } c1 ret
              sc rs pool ps n2 (posOf cur pp) env env' s s' v rfl rfl hs hp hl htop (fun _ => hm) hcc0 hsem hE
            have H : Correct2 p f0 rest V P G false { c with cur := q } c1 ret sc rs pool ps env env' s s' v := H
            have hret : ret.returned = false := by
              simp only [doBody, Option.some.injEq, Prod.mk.injEq] at hcc0
              rw [← hcc0.1]; rfl
            exact TailOK.recur p f0 rest V P (q := q) (tail_ret_core p f0 rest V P hP hK G { c with cur := q } c1 c2 ret slot sc rs pool ps _ _ _ _ _ hl H hret hcr)
          · have H := doBody_tail p f0 rest V P G (TF G b) w fuel IHn ML NRf ih body hT hne opts { c with cur := q } c1 ret sc rs pool ps
              n2 (posOf cur pp) env env' s s' v ht hh hs hp hl htop hm hcc hsem hE hN
            rw [cReturn_returned c1 ret H.1] at hcr
            simp only [Option.some.injEq, Prod.mk.injEq] at hcr
            obtain ⟨e1, e2⟩ := hcr
            subst e1 e2
            exact TailOK.recur p f0 rest V P (q := q) H
    | deff x ve pp hGx hTv =>
      rw [cValue_def_t fuel opts ht hh x ve pp c] at hc
      obtain ⟨q, hq⟩ := curAt_eq c pp
      cases hcc : cDef (cValue fuel) x ve (curAt c pp) with
      | none => rw [hcc] at hc; simp [finT] at hc
      | some res =>
        obtain ⟨ret, c1⟩ := res
        rw [hcc] at hc
        obtain ⟨c2, hcr, hc'⟩ := finT_some_inv c.cur ret slot c1 c' hc
        subst hc'
        obtain ⟨n2, env1, s1, hn, hev, henv, hs'⟩ := eval_def_inv n cur env env' x ve pp s s' v hsem
        subst henv hs'
        rw [hq] at hcc
        have H := def_core p f0 rest V P hP hK G (TF G b) w fuel IHn x ve hGx hTv { c with cur := q } c1 ret sc rs pool ps
          n2 (posOf cur pp) env env1 s s1 v hs hp hl htop (fun _ => hm) hcc hev hE
        have hret : ret.returned = false := by
          have hct : curTop ({ c with cur := q } : CState) = false := by simp [curTop, hs, htop]
          simp only [cDef, hct, Bool.false_eq_true, if_false, Option.bind_eq_bind, Option.bind_eq_some_iff, Prod.exists, Option.pure_def,
            Option.some.injEq, Prod.mk.injEq] at hcc
          obtain ⟨r, c1', hv, c2', hnl, hslot, _⟩ := hcc
          rw [← hslot]
          exact (NRf ve {} { c with cur := q } c1' r sc rs pool ps env s.boxes.size rfl rfl hs hp htop hm hTv hE hN hv).1
        exact TailOK.recur p f0 rest V P (q := q) (tail_ret_core p f0 rest V P hP hK G { c with cur := q } c1 c2 ret slot sc rs pool ps _ _ _ _ _ hl H hret hcr)
    | iff cnd tb els pp hb hic hlen hTc hTt hTe =>
      exact ITC hb fuel ih cnd tb els pp hic hlen hTc hTt hTe opts c c' slot sc rs pool ps n cur env env' s s' v ht hh hs hp hl htop hm hc hsem hE hN

/-- compile correctness in tail position for the fragment `TF G false` (literals, symbols, calls of global core functions,
    `do`, `upscope`, `def`): whatever the form, the VM started at its code reaches a configuration whose next step is the
    return of the value `Lang/Sem` gives, in the world `Lang/Sem` gives -/
theorem tf_tail_correct (hP : P.length < 65536)
    (hK : ∀ i, i < P.length → (p.defs.getD f0.defIdx default).consts.getD i .nil = litOf V (P.getD i .nil))
    (FF : FloatFacts) (G : String → Prop) : ∀ fuel, TailAt p f0 rest V P G (TF G false) fuel :=
  tf_tail_correct_gen p f0 rest V P hP hK FF G false false
    (tf_correct p f0 rest V P hP hK FF G false false (fun h => absurd h (by simp))) (tf_NR G) (fun h => absurd h (by simp))

end

end JanetModel.Compile
