/- C02: compiling a form of the core fragment never decreases the `max` of the innermost scope's allocator (`tf_maxM`):
   every primitive is monotone (emit wrappers, `janetc_allocfar`, `janetc_freeslot`, `janetc_nameslot`), a pushed-and-popped
   block scope merges its `max` into the parent.  Compile-only, by induction on the compile fuel, on top of the general shape
   theorem (`tf_shapeM_at`, which supplies the intermediate states' scopes). -/
import JanetModel.Compile.SeqShapeMax
import JanetModel.Compile.SeqIfSem
namespace JanetModel.Compile
open JanetModel.Emit JanetModel.Lang JanetModel.Bytecode.Exec JanetModel.Gen.Bytecode

/-- the innermost allocator's `max` did not decrease from `c` to `c'` (scopes below the innermost: `rs`) -/
def MaxR (c c' : CState) (rs : List Scope) : Prop :=
  ∀ sc sc', c.scopes = sc :: rs → c'.scopes = sc' :: rs → sc.ra.max ≤ sc'.ra.max

theorem MaxR.of_eq {c c' : CState} {rs : List Scope} (h : c'.scopes = c.scopes) : MaxR c c' rs := by
  intro sc sc' a b
  rw [h, a] at b
  rw [(List.cons.inj b).1]
  exact Nat.le_refl _

theorem MaxR.refl (c : CState) (rs : List Scope) : MaxR c c rs := MaxR.of_eq rfl

theorem MaxR.trans {c c1 c2 : CState} {rs : List Scope} {sc1 : Scope} (h1 : MaxR c c1 rs) (hs1 : c1.scopes = sc1 :: rs) (h2 : MaxR c1 c2 rs) :
    MaxR c c2 rs :=
  fun sc sc' a b => Nat.le_trans (h1 sc sc1 a hs1) (h2 sc1 sc' hs1 b)

theorem MaxR.of_ra {c c' : CState} {sc : Scope} {rs : List Scope} {ra' : RA} {ns : List SymPair} (hs : c.scopes = sc :: rs)
    (hs' : c'.scopes = { sc with ra := ra', syms := sc.syms ++ ns } :: rs) (h : sc.ra.max ≤ ra'.max) : MaxR c c' rs := by
  intro sc0 sc0' a b
  rw [hs] at a
  rw [hs'] at b
  rw [← (List.cons.inj a).1, ← (List.cons.inj b).1]
  exact h

theorem emitW_maxR (c c' : CState) (f : Emit.C → Emit.C) (sc : Scope) (rs : List Scope) (pool : List KConst) (ps : List (List KConst))
    (hs : c.scopes = sc :: rs) (hp : c.pools = pool :: ps) (hmx : ∀ e : Emit.C, e.ra.max ≤ (f e).ra.max)
    (h : emitW c f = some c') : MaxR c c' rs := by
  obtain ⟨_, hc'⟩ := emitW_spec c c' f sc rs pool ps hs hp h
  refine MaxR.of_ra (ns := []) hs ?_ (hmx { ra := sc.ra, buf := [], consts := pool })
  rw [hc']; simp

theorem copySlot_maxR (c c' : CState) (dest src : JSlot) (sc : Scope) (rs : List Scope) (pool : List KConst) (ps : List (List KConst))
    (hs : c.scopes = sc :: rs) (hp : c.pools = pool :: ps) (h : copySlot c dest src = some c') : MaxR c c' rs := by
  unfold copySlot at h
  split at h
  · exact absurd h (by simp)
  · split at h
    · exact absurd h (by simp)
    · exact emitW_maxR c c' _ sc rs pool ps hs hp (fun e => W_copy_max e _ _) h

theorem freeslot_maxR (c c' : CState) (s : JSlot) (sc : Scope) (rs : List Scope) (hs : c.scopes = sc :: rs)
    (h : freeslot c s = some c') : MaxR c c' rs := by
  unfold freeslot at h
  split at h
  · rw [← Option.some.inj h]; exact MaxR.refl c rs
  · split at h
    · rw [← Option.some.inj h]; exact MaxR.refl c rs
    · rename_i h0 x0 i heq0
      rw [hs] at h
      simp only [Option.some.injEq] at h
      refine MaxR.of_ra (ra' := sc.ra.unmark i) (ns := []) hs ?_ (Nat.le_refl _)
      rw [← h]; simp
    · exact absurd h (by simp)

theorem getTarget_maxR (c c' : CState) (opts : Fopts) (t : JSlot) (hh : opts.hint = none) (sc : Scope) (rs : List Scope)
    (hs : c.scopes = sc :: rs) (h : getTarget c opts = some (t, c')) : MaxR c c' rs := by
  simp only [getTarget, hh, allocFar, hs] at h
  split at h
  · exact absurd h (by simp)
  · simp only [Option.bind_eq_bind, Option.bind_some, Option.pure_def, Option.some.injEq, Prod.mk.injEq] at h
    refine MaxR.of_ra (ns := []) hs ?_ (alloc1_max_mono sc.ra)
    rw [← h.2]; simp

theorem ifCopy_maxR (drop : Bool) (c c' : CState) (dest src : JSlot) (sc : Scope) (rs : List Scope) (pool : List KConst) (ps : List (List KConst))
    (hs : c.scopes = sc :: rs) (hp : c.pools = pool :: ps) (h : ifCopy drop c dest src = some c') : MaxR c c' rs := by
  unfold ifCopy at h
  split at h
  · rw [← Option.some.inj h]; exact MaxR.refl c rs
  · exact copySlot_maxR c c' dest src sc rs pool ps hs hp h

/-- a chain of allocator-only steps: the `StepR` lemmas give the scopes, the `*_maxR` lemmas the `max` -/
theorem freeslots_maxR : ∀ (ss : List JSlot) (c c' : CState) (sc : Scope) (rs : List Scope) (pool : List KConst) (ps : List (List KConst)),
    c.scopes = sc :: rs → c.pools = pool :: ps → freeslots c ss = some c' → MaxR c c' rs
  | [], c, c', sc, rs, pool, ps, hs, hp, h => by
    simp only [freeslots, Option.some.injEq] at h
    rw [← h]; exact MaxR.refl c rs
  | s :: ss, c, c', sc, rs, pool, ps, hs, hp, h => by
    simp only [freeslots, Option.bind_eq_bind, Option.bind_eq_some_iff] at h
    obtain ⟨c1, h1, h2⟩ := h
    obtain ⟨sc1, pool1, hs1, hp1, _, _⟩ := (freeslot_stepR c c1 s sc rs pool ps hs hp h1).out
    exact (freeslot_maxR c c1 s sc rs hs h1).trans hs1 (freeslots_maxR ss c1 c' sc1 rs pool1 ps hs1 hp1 h2)

theorem pushSlots_maxR : ∀ (ss : List JSlot) (c c' : CState) (sc : Scope) (rs : List Scope) (pool : List KConst) (ps : List (List KConst)),
    c.scopes = sc :: rs → c.pools = pool :: ps → pushSlots c ss = some c' → MaxR c c' rs
  | [], c, c', sc, rs, pool, ps, hs, hp, h => by
    simp only [pushSlots, Option.some.injEq] at h
    rw [← h]; exact MaxR.refl c rs
  | [a], c, c', sc, rs, pool, ps, hs, hp, h => by
    simp only [pushSlots] at h
    exact emitW_maxR c c' _ sc rs pool ps hs hp (fun e => W_emitS_max e _ _ _) h
  | [a, b], c, c', sc, rs, pool, ps, hs, hp, h => by
    simp only [pushSlots] at h
    exact emitW_maxR c c' _ sc rs pool ps hs hp (fun e => W_emitSS_max e _ _ _ _) h
  | a :: b :: d :: rest, c, c', sc, rs, pool, ps, hs, hp, h => by
    simp only [pushSlots, Option.bind_eq_bind, Option.bind_eq_some_iff] at h
    obtain ⟨c1, h1, h2⟩ := h
    obtain ⟨sc1, pool1, hs1, hp1, _, _⟩ := (emitSSS_stepR c c1 _ a b d false sc rs pool ps hs hp h1).out
    exact (emitW_maxR c c1 _ sc rs pool ps hs hp (fun e => W_emitSSS_max e _ _ _ _ _) h1).trans hs1
      (pushSlots_maxR rest c1 c' sc1 rs pool1 ps hs1 hp1 h2)

/-- a pushed-and-popped block scope: whatever the body did, the parent's `max` did not decrease -/
theorem block_maxR (G : String → Prop) (c c2 c3 : CState) (sc : Scope) (rs : List Scope) (pool : List KConst) (ps : List (List KConst))
    (hs : c.scopes = sc :: rs)
    (h : Shp G { c with scopes := blk c sc false :: sc :: rs } c2 (blk c sc false) (sc :: rs) pool ps) (hpop : popScope c2 = some c3) :
    MaxR c c3 rs := by
  obtain ⟨ra3, ns3, more, seg, segm, hc3, _, _, _, _, hmax⟩ := pop_shape2 G c c2 c3 sc rs pool ps h hpop
  exact MaxR.of_ra hs (by rw [hc3]) hmax

theorem blockKeep_maxR (G : String → Prop) (c c2 c3 : CState) (r : JSlot) (sc : Scope) (rs : List Scope) (pool : List KConst) (ps : List (List KConst))
    (hs : c.scopes = sc :: rs)
    (h : Shp G { c with scopes := blk c sc false :: sc :: rs } c2 (blk c sc false) (sc :: rs) pool ps) (hpop : popScopeKeep c2 r = some c3) :
    MaxR c c3 rs := by
  obtain ⟨ra2, ns2, more2, seg2, segm2, hc2, _, _, _⟩ := h
  have hs2 : c2.scopes = { blk c sc false with ra := ra2, syms := (blk c sc false).syms ++ ns2 } :: sc :: rs := by rw [hc2]
  obtain ⟨raX, hc3, hmaxX, _, _⟩ := popScopeKeep_block c2 c3 r _ sc rs hs2 rfl rfl rfl hpop
  refine MaxR.of_ra hs (by rw [hc3]) ?_
  have : raX.max = (if sc.ra.max < ra2.max then ra2.max else sc.ra.max) := hmaxX
  rw [this]; split <;> omega

/-- the statement at compile fuel `fuel` -/
def MaxAt (G : String → Prop) (fuel : Nat) : Prop :=
  ∀ (b : Bool) (e : Expr) (opts : Fopts) (c c' : CState) (slot : JSlot) (sc : Scope) (rs : List Scope) (pool : List KConst) (ps : List (List KConst)),
    opts.tail = false → opts.hint = none → c.scopes = sc :: rs → c.pools = pool :: ps → sc.top = false → c.map.length = c.buf.length →
    TF G b e → LkL G c.scopes → cValue fuel opts e c = some (slot, c') → MaxR c c' rs

theorem toSlots_maxR (G : String → Prop) (fuel : Nat) (IH : MaxAt G fuel) (b : Bool) : ∀ (args : List Expr), (∀ a, a ∈ args → TF G b a) →
    ∀ (c c' : CState) (slots : List JSlot) (sc : Scope) (rs : List Scope) (pool : List KConst) (ps : List (List KConst)),
      c.scopes = sc :: rs → c.pools = pool :: ps → sc.top = false → c.map.length = c.buf.length → LkL G c.scopes →
      toSlots (cValue fuel) args c = some (slots, c') → MaxR c c' rs := by
  intro args
  induction args with
  | nil =>
    intro _ c c' slots sc rs pool ps _ _ _ _ _ h
    simp only [toSlots, Option.some.injEq, Prod.mk.injEq] at h
    rw [← h.2]; exact MaxR.refl c rs
  | cons a as ih =>
    intro hT c c' slots sc rs pool ps hs hp htop hm hL h
    simp only [toSlots, Option.bind_eq_bind, Option.bind_eq_some_iff, Prod.exists, Option.pure_def, Option.some.injEq, Prod.mk.injEq] at h
    obtain ⟨sl1, c1, hx, ss, c2, hrest, _, hc2⟩ := h
    rw [← hc2]
    have S1 := (tf_shapeM_at G fuel b a {} c c1 sl1 sc rs pool ps rfl rfl hs hp htop hm (hT a (by simp)) hL hx).1
    obtain ⟨sc1, pool1, hs1, hp1, ht1, hL1, _⟩ := S1.out
    exact (IH b a {} c c1 sl1 sc rs pool ps rfl rfl hs hp htop hm (hT a (by simp)) hL hx).trans hs1
      (ih (fun e he => hT e (by simp [he])) c1 c2 ss sc1 rs pool1 ps hs1 hp1 (by rw [ht1]; exact htop) (S1.mapLen hm) hL1 hrest)

theorem cCall_maxR (G : String → Prop) (fuel : Nat) (IH : MaxAt G fuel) (b : Bool) (f : String) (args : List Expr)
    (hTa : ∀ a, a ∈ args → TF G b a) (c cq : CState) (slot : JSlot) (sc : Scope) (rs : List Scope) (pool : List KConst) (ps : List (List KConst))
    (hs : c.scopes = sc :: rs) (hp : c.pools = pool :: ps) (htop : sc.top = false) (hm : c.map.length = c.buf.length) (hL : LkL G c.scopes)
    (h : cCall (cValue fuel) {} (.sym f) args c = some (slot, cq)) : MaxR c cq rs := by
  obtain ⟨head, c1, slots, c2, c3, cT, c4, c5, h1, h2, h3, hT, hEm, hf1, hf2⟩ := cCall_steps (cValue fuel) f args c cq slot h
  have S1 := (tf_shapeM_at G fuel b (.sym f) {} c c1 head sc rs pool ps rfl rfl hs hp htop hm (.sym f) hL h1).1
  obtain ⟨sc1, pool1, hs1, hp1, ht1, hL1, _⟩ := S1.out
  have hm1 := S1.mapLen hm
  have htop1 : sc1.top = false := by rw [ht1]; exact htop
  have S2 := toSlots_shapeM G fuel (tf_shapeM_at G fuel) b args hTa c1 c2 slots sc1 rs pool1 ps hs1 hp1 htop1 hm1 hL1 h2
  obtain ⟨sc2, pool2, hs2, hp2, _, _, _⟩ := S2.out
  obtain ⟨sc3, pool3, hs3, hp3, _, _⟩ := (pushSlots_stepR slots c2 c3 sc2 rs pool2 ps hs2 hp2 h3).out
  obtain ⟨sc4, pool4, hs4, hp4, _, _⟩ := (getTarget_stepR c3 cT {} slot rfl sc3 rs pool3 ps hs3 hp3 hT).out
  obtain ⟨sc5, pool5, hs5, hp5, _, _⟩ := (emitSS_stepR cT c4 _ slot head true sc4 rs pool4 ps hs4 hp4 hEm).out
  obtain ⟨sc6, pool6, hs6, hp6, _, _⟩ := (freeslots_stepR slots c4 c5 sc5 rs pool5 ps hs5 hp5 hf1).out
  have M1 := IH b (.sym f) {} c c1 head sc rs pool ps rfl rfl hs hp htop hm (.sym f) hL h1
  have M2 := toSlots_maxR G fuel IH b args hTa c1 c2 slots sc1 rs pool1 ps hs1 hp1 htop1 hm1 hL1 h2
  have M3 := pushSlots_maxR slots c2 c3 sc2 rs pool2 ps hs2 hp2 h3
  have M4 := getTarget_maxR c3 cT {} slot rfl sc3 rs hs3 hT
  have M5 := emitW_maxR cT c4 _ sc4 rs pool4 ps hs4 hp4 (fun e => W_emitSS_max e _ _ _ _) hEm
  have M6 := freeslots_maxR slots c4 c5 sc5 rs pool5 ps hs5 hp5 hf1
  have M7 := freeslot_maxR c5 cq head sc6 rs hs6 hf2
  exact M1.trans hs1 (M2.trans hs2 (M3.trans hs3 (M4.trans hs4 (M5.trans hs5 (M6.trans hs6 M7)))))

theorem doBody_maxR (G : String → Prop) (fuel : Nat) (IH : MaxAt G fuel) (b : Bool) : ∀ (body : List Expr), (∀ e, e ∈ body → TF G b e) →
    ∀ (opts : Fopts) (c c' : CState) (slot : JSlot) (sc : Scope) (rs : List Scope) (pool : List KConst) (ps : List (List KConst)),
      opts.tail = false → opts.hint = none → c.scopes = sc :: rs → c.pools = pool :: ps → sc.top = false → c.map.length = c.buf.length →
      LkL G c.scopes → doBody (cValue fuel) opts body c = some (slot, c') → MaxR c c' rs := by
  intro body
  induction body with
  | nil =>
    intro _ opts c c' slot sc rs pool ps _ _ _ _ _ _ _ h
    simp only [doBody, Option.some.injEq, Prod.mk.injEq] at h
    rw [← h.2]; exact MaxR.refl c rs
  | cons x t ih =>
    intro hT opts c c' slot sc rs pool ps ht hh hs hp htop hm hL h
    cases t with
    | nil =>
      simp only [doBody] at h
      exact IH b x opts c c' slot sc rs pool ps ht hh hs hp htop hm (hT x (by simp)) hL h
    | cons y r =>
      simp only [doBody, Option.bind_eq_bind, Option.bind_eq_some_iff, Prod.exists] at h
      obtain ⟨sl1, c1, hx, c1f, hf, hrest⟩ := h
      have S1 := (tf_shapeM_at G fuel b x { drop := true } c c1 sl1 sc rs pool ps rfl rfl hs hp htop hm (hT x (by simp)) hL hx).1
      obtain ⟨sc1, pool1, hs1, hp1, ht1, hL1, _⟩ := S1.out
      have S2 := (freeslot_stepR c1 c1f sl1 sc1 rs pool1 ps hs1 hp1 hf).shp hs1 hL1
      obtain ⟨sc2, pool2, hs2, hp2, ht2, hL2, _⟩ := S2.out
      have M1 := IH b x { drop := true } c c1 sl1 sc rs pool ps rfl rfl hs hp htop hm (hT x (by simp)) hL hx
      have M2 := freeslot_maxR c1 c1f sl1 sc1 rs hs1 hf
      have M3 := ih (fun e he => hT e (by simp [he])) opts c1f c' slot sc2 rs pool2 ps ht hh hs2 hp2
        (by rw [ht2, ht1]; exact htop) (S2.mapLen (S1.mapLen hm)) hL2 hrest
      exact M1.trans hs1 (M2.trans hs2 M3)

theorem nameslot_scopes (c : CState) (name : String) (s : JSlot) (sc : Scope) (rs : List Scope) (hs : c.scopes = sc :: rs) :
    (nameslot c name s).scopes = { sc with ra := sc.ra, syms := sc.syms ++ [{ name := name, slot := { s with named := true } }] } :: rs := by
  simp only [nameslot, hs]

theorem namelocal_fresh_maxR (c c2 : CState) (name : String) (r : JSlot) (mf : Bool) (sc : Scope) (rs : List Scope)
    (pool : List KConst) (ps : List (List KConst)) (hs : c.scopes = sc :: rs) (hp : c.pools = pool :: ps)
    (h : (do let (ls, c1) ← farslot c
             let c2 ← copySlot c1 ls r
             pure (nameslot c2 name { ls with mutable := mf })) = some c2) : MaxR c c2 rs := by
  simp only [Option.bind_eq_bind, Option.bind_eq_some_iff, Prod.exists, Option.pure_def, Option.some.injEq] at h
  obtain ⟨ls, c1a, h1, c1b, h2, h3⟩ := h
  rw [farslot_eq] at h1
  have R1 := getTarget_stepR c c1a {} ls rfl sc rs pool ps hs hp h1
  obtain ⟨sc1, pool1, hs1, hp1, _, _⟩ := R1.out
  have R2 := copySlot_stepR c1a c1b ls r sc1 rs pool1 ps hs1 hp1 h2
  obtain ⟨sc2, pool2, hs2, hp2, _, _⟩ := R2.out
  have M1 := getTarget_maxR c c1a {} ls rfl sc rs hs h1
  have M2 := copySlot_maxR c1a c1b ls r sc1 rs pool1 ps hs1 hp1 h2
  have M3 : MaxR c1b c2 rs := by
    rw [← h3]
    exact MaxR.of_ra hs2 (nameslot_scopes c1b name _ sc2 rs hs2) (Nat.le_refl _)
  exact M1.trans hs1 (M2.trans hs2 M3)

theorem namelocal_maxR (c c2 : CState) (name : String) (r : JSlot) (sc : Scope) (rs : List Scope)
    (pool : List KConst) (ps : List (List KConst)) (hs : c.scopes = sc :: rs) (hp : c.pools = pool :: ps)
    (hsl : SlotSh r) (h : namelocal c name false r = some c2) : MaxR c c2 rs := by
  obtain ⟨k, cf, nm, mu, ret⟩ := r
  rcases hsl with ⟨_, kc, hk⟩ | ⟨hcf, r0, hk⟩
  · simp only at hk; subst hk
    have hX : namelocal c name false { k := .const kc, cflag := cf, named := nm, mutable := mu, returned := ret } =
        (do let (ls, c1) ← farslot c
            let c2 ← copySlot c1 ls { k := .const kc, cflag := cf, named := nm, mutable := mu, returned := ret }
            pure (nameslot c2 name { ls with mutable := false })) := by
      simp [namelocal]
    rw [hX] at h
    exact namelocal_fresh_maxR c c2 name _ false sc rs pool ps hs hp h
  · simp only at hk hcf; subst hk hcf
    by_cases hal : nm = true ∧ mu = false
    · obtain ⟨e1, e2⟩ := hal
      subst e1 e2
      simp [namelocal] at h
      rw [← h]
      exact MaxR.of_ra hs (nameslot_scopes c name _ sc rs hs) (Nat.le_refl _)
    · have hX : namelocal c name false { k := .loc r0, cflag := false, named := nm, mutable := mu, returned := ret } =
          (do let (ls, c1) ← farslot c
              let c2 ← copySlot c1 ls { k := .loc r0, cflag := false, named := nm, mutable := mu, returned := ret }
              pure (nameslot c2 name { ls with mutable := false })) := by
        cases nm <;> cases mu <;> simp_all [namelocal]
      rw [hX] at h
      exact namelocal_fresh_maxR c c2 name _ false sc rs pool ps hs hp h

/-- `if`: the target is allocated in the scope at entry, everything else happens in a block scope that is popped -/
theorem if_maxR (G : String → Prop) (fuel : Nat) (b : Bool) (cnd tb fb : Expr)
    (hTc : TF G b cnd) (hTt : TF G b tb) (hTf : TF G b fb) (opts : Fopts) (ht : opts.tail = false) (hh : opts.hint = none)
    (c c' : CState) (slot : JSlot) (sc : Scope) (rs : List Scope) (pool : List KConst) (ps : List (List KConst))
    (hs : c.scopes = sc :: rs) (hp : c.pools = pool :: ps) (hm : c.map.length = c.buf.length) (hL : LkL G c.scopes)
    (hc : cIfBody (cValue fuel) opts cnd tb fb c = some (slot, c')) : MaxR c c' rs := by
  have IH := tf_shapeM_at G fuel
  obtain ⟨target, c1, cond, c3, hT, hcond, hrest⟩ := cIfBody_inv _ opts cnd tb fb c c' slot hc
  have hT' : StepR c c1 sc rs pool ps ∧ MaxR c c1 rs := by
    split at hT
    · simp only [Option.some.injEq, Prod.mk.injEq] at hT
      rw [← hT.2]
      exact ⟨StepR.refl c sc rs pool ps hs hp, MaxR.refl c rs⟩
    · exact ⟨getTarget_stepR c c1 opts target hh sc rs pool ps hs hp hT, getTarget_maxR c c1 opts target hh sc rs hs hT⟩
  obtain ⟨R0, M0⟩ := hT'
  have S0 := R0.shp hs hL
  have hm1 := R0.mapLen hm
  obtain ⟨sc1, pool1, hs1, hp1, _, hL1, _⟩ := S0.out
  rw [pushScope_blk c1 sc1 rs false hs1] at hcond
  have hLP : LkL G (blk c1 sc1 false :: sc1 :: rs) := by
    rw [hs1] at hL1; exact hL1.push _ rfl rfl
  obtain ⟨S1, _⟩ := IH b cnd {} { c1 with scopes := blk c1 sc1 false :: sc1 :: rs } c3 cond (blk c1 sc1 false) (sc1 :: rs) pool1 ps
    rfl rfl rfl hp1 rfl hm1 hTc hLP hcond
  have hm3 : c3.map.length = c3.buf.length := S1.mapLen hm1
  obtain ⟨sc3, pool3, hs3, hp3, _, hL3, _⟩ := S1.out
  cases hk : isConstSlot cond with
  | some k =>
    rw [hk] at hrest
    simp only at hrest
    obtain ⟨right, c5, c6, c7, c8, e1, e2, e3, e4, e5, _⟩ := cIfConst_inv _ _ _ _ _ _ _ _ _ hrest
    have hTl : TF G b (if constTruthy k then tb else fb) := by split <;> assumption
    have hTd : TF G b (if constTruthy k then fb else tb) := by split <;> assumption
    obtain ⟨dead, hdead⟩ : ∃ d, d = (if constTruthy k then fb else tb) := ⟨_, rfl⟩
    rw [← hdead] at e4 hTd
    have S7 := branch_shapeM G fuel IH b _ hTl opts ht hh target c3 c5 c6 c7 right sc3 (sc1 :: rs) pool3 ps hs3 hp3 hm3 hL3 e1 e2 e3
    have hm7 := S7.mapLen hm3
    obtain ⟨sc7, pool7, hs7, hp7, _, hL7, _⟩ := S7.out
    have S8 : Shp G c7 c8 sc7 (sc1 :: rs) pool7 ps := by
      split at e4
      · rw [← Option.some.inj e4]; exact Shp.refl hs7 hp7 hL7
      · refine throwaway_shape G _ opts _ c7 c8 sc7 (sc1 :: rs) pool7 ps hs7 hL7 hm7 (fun c2 sl h => ?_) e4
        have hLT : LkL G (blk c7 sc7 true :: sc7 :: sc1 :: rs) := by
          rw [hs7] at hL7; exact hL7.push _ rfl rfl
        exact (IH b _ opts { c7 with scopes := blk c7 sc7 true :: sc7 :: sc1 :: rs } c2 sl (blk c7 sc7 true) (sc7 :: sc1 :: rs) pool7 ps
          ht hh rfl hp7 rfl hm7 hTd hLT h).1
    have Sblock := S1.trans' hs3 hp3 (S7.trans' hs7 hp7 S8)
    exact M0.trans hs1 (block_maxR G c1 c8 c' sc1 rs pool1 ps hs1 Sblock e5)
  | none =>
    rw [hk] at hrest
    simp only at hrest
    obtain ⟨c4, left, c6, c7, c8, right, c11, c12, c13, c14, e1, e2, e3, e4, e5, e6, e7, e8, _, _, _, _, ec'⟩ :=
      cIfJump_inv _ _ _ _ _ _ _ _ _ _ hrest
    obtain ⟨R4, _⟩ := emitSI_stepR c3 c4 _ cond 0 false sc3 (sc1 :: rs) pool3 ps hs3 hp3 e1
    have S4 := R4.shp hs3 hL3
    have hm4 := R4.mapLen hm3
    obtain ⟨sc4, pool4, hs4, hp4, _, hL4, _⟩ := S4.out
    have S8 := branch_shapeM G fuel IH b tb hTt opts ht hh target c4 c6 c7 c8 left sc4 (sc1 :: rs) pool4 ps hs4 hp4 hm4 hL4 e2 e3 e4
    have hm8 := S8.mapLen hm4
    obtain ⟨sc8, pool8, hs8, hp8, _, hL8, _⟩ := S8.out
    have R9 : StepR c8 (ifJmp (opts.drop && fbNilOf fb) c8) sc8 (sc1 :: rs) pool8 ps := by
      unfold ifJmp
      split
      · exact StepR.refl c8 sc8 _ pool8 ps hs8 hp8
      · exact emitRaw_stepR c8 _ sc8 _ pool8 ps hs8 hp8
    have S9 := R9.shp hs8 hL8
    have hm9 := R9.mapLen hm8
    obtain ⟨sc9, pool9, hs9, hp9, _, hL9, _⟩ := S9.out
    have S13 := branch_shapeM G fuel IH b fb hTf opts ht hh target _ c11 c12 c13 right sc9 (sc1 :: rs) pool9 ps hs9 hp9 hm9 hL9 e5 e6 e7
    have Sblock := S1.trans' hs3 hp3 (S4.trans' hs4 hp4 (S8.trans' hs8 hp8 (S9.trans' hs9 hp9 S13)))
    have M14 := block_maxR G c1 c13 c14 sc1 rs pool1 ps hs1 Sblock e8
    have : MaxR c c14 rs := M0.trans hs1 M14
    rw [ec']
    exact fun sc0 sc0' a b => this sc0 sc0' a b

theorem tf_maxM_at (G : String → Prop) : ∀ fuel, MaxAt G fuel := by
  intro fuel
  induction fuel with
  | zero =>
    intro b e opts c c' slot sc rs pool ps _ _ _ _ _ _ _ _ hc
    simp [cValue] at hc
  | succ fuel ih =>
    intro b e opts c c' slot sc rs pool ps ht hh hs hp htop hm hT hL hc
    cases hT with
    | lit w hw =>
      rw [cValue_lit_o fuel opts ht hh w hw c] at hc
      simp only [Option.some.injEq, Prod.mk.injEq] at hc
      rw [← hc.2]
      exact MaxR.of_eq (by show (kOf c w).2.scopes = _; rw [(kOf_shape c w).1])
    | sym x =>
      rw [cValue_sym_o fuel opts ht hh] at hc
      cases hlk : lk c.scopes x with
      | none =>
        rw [resolve_global c x (by rw [lookupSlot_lk]; exact hlk)] at hc
        have hg : globalSlot c x = some (constSlot c (.cfun x)) := by
          unfold globalSlot at hc ⊢
          split at hc <;> simp_all [fin]
        rw [hg] at hc
        simp only [fin, Option.some.injEq, Prod.mk.injEq] at hc
        rw [← hc.2]
        exact MaxR.of_eq (by show (kOf c (.cfun x)).2.scopes = _; rw [(kOf_shape c (.cfun x)).1])
      | some r =>
        obtain ⟨sl, u, l⟩ := r
        obtain ⟨hl, hcf, _, _⟩ := hL.2 x sl u l hlk
        subst hl
        rw [resolve_local c x sl u (by rw [lookupSlot_lk]; exact hlk) hcf] at hc
        simp only [fin, Option.some.injEq, Prod.mk.injEq] at hc
        rw [← hc.2]
        exact MaxR.of_eq rfl
    | call f args pp hf hna hG hTa =>
      rw [cValue_call_o fuel opts ht hh f args pp c hf] at hc
      obtain ⟨q, hq⟩ := curAt_eq c pp
      cases hcc : cCall (cValue fuel) {} (.sym f) args (curAt c pp) with
      | none => rw [hcc] at hc; simp [fin] at hc
      | some res =>
        obtain ⟨slot0, cq⟩ := res
        rw [hcc] at hc
        simp only [fin, Option.some.injEq, Prod.mk.injEq] at hc
        rw [← hc.2]
        rw [hq] at hcc
        have := cCall_maxR G fuel ih b f args hTa { c with cur := q } cq slot0 sc rs pool ps hs hp htop hm hL hcc
        exact fun sc0 sc0' a b => this sc0 sc0' a b
    | doo body pp hTb =>
      rw [cValue_do_o fuel opts ht hh body pp c] at hc
      obtain ⟨q, hq⟩ := curAt_eq c pp
      cases hcc : cDo (cValue fuel) opts body (curAt c pp) with
      | none => rw [hcc] at hc; simp [fin] at hc
      | some res =>
        obtain ⟨slot0, cq⟩ := res
        rw [hcc] at hc
        simp only [fin, Option.some.injEq, Prod.mk.injEq] at hc
        rw [← hc.2]
        rw [hq] at hcc
        simp only [cDo, Option.bind_eq_bind, Option.bind_eq_some_iff, Prod.exists, Option.pure_def, Option.some.injEq, Prod.mk.injEq] at hcc
        obtain ⟨r, c2, hbody, c3, hpop, _, hc3⟩ := hcc
        rw [← hc3]
        rw [pushScope_blk { c with cur := q } sc rs false hs] at hbody
        have hLP : LkL G (blk { c with cur := q } sc false :: sc :: rs) := by
          rw [hs] at hL; exact hL.push _ rfl rfl
        obtain ⟨S1, _⟩ := doBody_shapeM G fuel (tf_shapeM_at G fuel) b body hTb opts
          { ({ c with cur := q } : CState) with scopes := blk { c with cur := q } sc false :: sc :: rs } c2 r (blk { c with cur := q } sc false)
          (sc :: rs) pool ps ht hh rfl hp rfl hm hLP hbody
        have := blockKeep_maxR G { c with cur := q } c2 c3 r sc rs pool ps hs S1 hpop
        exact fun sc0 sc0' a b => this sc0 sc0' a b
    | ups body pp hTb =>
      rw [cValue_upscope_o fuel opts ht hh body pp c] at hc
      obtain ⟨q, hq⟩ := curAt_eq c pp
      cases hcc : doBody (cValue fuel) opts body (curAt c pp) with
      | none => rw [hcc] at hc; simp [fin] at hc
      | some res =>
        obtain ⟨slot0, cq⟩ := res
        rw [hcc] at hc
        simp only [fin, Option.some.injEq, Prod.mk.injEq] at hc
        rw [← hc.2]
        rw [hq] at hcc
        have := doBody_maxR G fuel ih b body hTb opts { c with cur := q } cq slot0 sc rs pool ps ht hh hs hp htop hm hL hcc
        exact fun sc0 sc0' a b => this sc0 sc0' a b
    | deff x ve pp hGx hTv =>
      rw [cValue_def_o fuel opts ht hh x ve pp c] at hc
      obtain ⟨q, hq⟩ := curAt_eq c pp
      cases hcc : cDef (cValue fuel) x ve (curAt c pp) with
      | none => rw [hcc] at hc; simp [fin] at hc
      | some res =>
        obtain ⟨slot0, cq⟩ := res
        rw [hcc] at hc
        simp only [fin, Option.some.injEq, Prod.mk.injEq] at hc
        rw [← hc.2]
        rw [hq] at hcc
        have hct : curTop ({ c with cur := q } : CState) = false := by simp [curTop, hs, htop]
        simp only [cDef, hct, Bool.false_eq_true, if_false, Option.bind_eq_bind, Option.bind_eq_some_iff, Prod.exists, Option.pure_def,
          Option.some.injEq, Prod.mk.injEq] at hcc
        obtain ⟨r, c1, hv, c2, hnl, _, hc2⟩ := hcc
        rw [← hc2]
        obtain ⟨S1, hsl⟩ := tf_shapeM_at G fuel b ve {} { c with cur := q } c1 r sc rs pool ps rfl rfl hs hp htop hm hTv hL hv
        obtain ⟨sc1, pool1, hs1, hp1, _, _, _⟩ := S1.out
        have M1 := ih b ve {} { c with cur := q } c1 r sc rs pool ps rfl rfl hs hp htop hm hTv hL hv
        have := M1.trans hs1 (namelocal_maxR c1 c2 x r sc1 rs pool1 ps hs1 hp1 hsl hnl)
        exact fun sc0 sc0' a b => this sc0 sc0' a b
    | iff cnd tb rest pp _ _ hlen hTc hTt hTe =>
      rw [cValue_if_o fuel opts ht hh cnd tb rest pp c, cIf_le1 _ _ _ _ _ _ hlen] at hc
      obtain ⟨q, hq⟩ := curAt_eq c pp
      cases hcc : cIfBody (cValue fuel) opts cnd tb (rest.headD (.lit .nil)) (curAt c pp) with
      | none => rw [hcc] at hc; simp [fin] at hc
      | some res =>
        obtain ⟨slot0, cq⟩ := res
        rw [hcc] at hc
        simp only [fin, Option.some.injEq, Prod.mk.injEq] at hc
        rw [← hc.2]
        rw [hq] at hcc
        have hTf : TF G b (rest.headD (.lit .nil)) := by
          cases rest with
          | nil => exact .lit .nil trivial
          | cons e _ => exact hTe e (by simp)
        have := if_maxR G fuel b cnd tb _ hTc hTt hTf opts ht hh { c with cur := q } cq slot0 sc rs pool ps hs hp hm hL hcc
        exact fun sc0 sc0' a b => this sc0 sc0' a b

/-- compiling a form of the fragment never decreases the `max` of the innermost scope's allocator -/
theorem tf_maxM (G : String → Prop) (b : Bool) (fuel : Nat) (e : Expr) (opts : Fopts) (c c' : CState) (slot : JSlot) (sc sc' : Scope) (rs : List Scope)
    (pool : List KConst) (ps : List (List KConst))
    (ht : opts.tail = false) (hh : opts.hint = none) (hs : c.scopes = sc :: rs) (hp : c.pools = pool :: ps) (htop : sc.top = false)
    (hm : c.map.length = c.buf.length) (hT : TF G b e) (hL : LkL G c.scopes) (hc : cValue fuel opts e c = some (slot, c'))
    (hs' : c'.scopes = sc' :: rs) : sc.ra.max ≤ sc'.ra.max :=
  tf_maxM_at G fuel b e opts c c' slot sc rs pool ps ht hh hs hp htop hm hT hL hc sc sc' hs hs'

end JanetModel.Compile
