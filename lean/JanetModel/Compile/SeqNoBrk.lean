/- C02: the code a form of the core fragment emits contains no `CI.brk` (the placeholder only `break` emits, which
   `janetc_while` rewrites inside the loop's code range): compile-only, by induction on the compile fuel, with no assumption on
   the compiler state.  `NoBrkFrom buf n`: no placeholder at a position ≥ n. -/
import JanetModel.Compile.SeqShapeM
namespace JanetModel.Compile
open JanetModel.Emit JanetModel.Lang JanetModel.Bytecode.Exec JanetModel.Gen.Bytecode

def NoBrkFrom (buf : List CI) (n : Nat) : Prop := ∀ i ci, n ≤ i → buf[i]? = some ci → ci ≠ .brk

theorem NoBrkFrom.append {buf seg : List CI} {n : Nat} (h : NoBrkFrom buf n) (hs : ∀ ci, ci ∈ seg → ci ≠ .brk) : NoBrkFrom (buf ++ seg) n := by
  intro i ci hi hget
  by_cases hlt : i < buf.length
  · rw [List.getElem?_append_left hlt] at hget
    exact h i ci hi hget
  · rw [List.getElem?_append_right (by omega)] at hget
    exact hs ci (List.mem_of_getElem? hget)

theorem NoBrkFrom.take {buf : List CI} {n : Nat} (h : NoBrkFrom buf n) (m : Nat) : NoBrkFrom (buf.take m) n := by
  intro i ci hi hget
  rw [List.getElem?_take] at hget
  split at hget
  · exact h i ci hi hget
  · exact absurd hget (by simp)

theorem NoBrkFrom.modBuf {buf : List CI} {n : Nat} (h : NoBrkFrom buf n) (j : Nat) (f : CI → CI) (hf : ∀ x, x ≠ .brk → f x ≠ .brk) :
    NoBrkFrom (modBuf buf j f) n := by
  intro i ci hi hget
  simp only [JanetModel.Compile.modBuf, List.getElem?_modify] at hget
  cases hb : buf[i]? with
  | none => rw [hb] at hget; simp at hget
  | some x =>
    rw [hb] at hget
    simp only [Option.map_eq_map, Option.map_some, Option.some.injEq] at hget
    rw [← hget]
    split
    · exact hf x (h i x hi hb)
    · exact h i x hi hb

theorem patchCond_nobrk (off : Nat) (x : CI) (hx : x ≠ .brk) : patchCond off x ≠ .brk := by
  unfold patchCond
  split
  · simp
  · exact hx

/-- no placeholder is added from `c` to `c'` -/
def NBR (c c' : CState) : Prop := ∀ n0, NoBrkFrom c.buf n0 → NoBrkFrom c'.buf n0

theorem NBR.of_eq {c c' : CState} (h : c'.buf = c.buf) : NBR c c' := fun n0 hn => by rw [h]; exact hn
theorem NBR.refl (c : CState) : NBR c c := NBR.of_eq rfl
theorem NBR.trans {c c1 c2 : CState} (h1 : NBR c c1) (h2 : NBR c1 c2) : NBR c c2 := fun n0 hn => h2 n0 (h1 n0 hn)

theorem emitW_nbr (c c' : CState) (f : Emit.C → Emit.C) (h : emitW c f = some c') : NBR c c' := by
  cases hsc : c.scopes with
  | nil => simp [emitW, hsc] at h
  | cons sc rs =>
    cases hpl : c.pools with
    | nil => simp [emitW, hsc, hpl] at h
    | cons pool ps =>
      obtain ⟨_, hc'⟩ := emitW_spec c c' f sc rs pool ps hsc hpl h
      rw [hc']
      intro n0 hn
      refine NoBrkFrom.append hn (fun ci hci => ?_)
      simp only [List.mem_map] at hci
      obtain ⟨mi, _, rfl⟩ := hci
      simp

theorem emitRaw_nbr (c : CState) (i : CI) (hi : i ≠ .brk) : NBR c (emitRaw c i) := by
  intro n0 hn
  refine hn.append (fun ci hci => ?_)
  simp only [List.mem_singleton] at hci
  rw [hci]; exact hi

theorem copySlot_nbr (c c' : CState) (dest src : JSlot) (h : copySlot c dest src = some c') : NBR c c' := by
  unfold copySlot at h
  split at h
  · exact absurd h (by simp)
  · split at h
    · exact absurd h (by simp)
    · exact emitW_nbr c c' _ h

theorem freeslot_buf (c c' : CState) (s : JSlot) (h : freeslot c s = some c') : c'.buf = c.buf := by
  unfold freeslot at h
  split at h
  · rw [← Option.some.inj h]
  · split at h
    · rw [← Option.some.inj h]
    · split at h
      · rw [← Option.some.inj h]
      · exact absurd h (by simp)
    · exact absurd h (by simp)

theorem freeslots_buf : ∀ (ss : List JSlot) (c c' : CState), freeslots c ss = some c' → c'.buf = c.buf
  | [], c, c', h => by simp only [freeslots, Option.some.injEq] at h; rw [← h]
  | s :: ss, c, c', h => by
    simp only [freeslots, Option.bind_eq_bind, Option.bind_eq_some_iff] at h
    obtain ⟨c1, h1, h2⟩ := h
    rw [freeslots_buf ss c1 c' h2, freeslot_buf c c1 s h1]

theorem allocFar_buf (c c' : CState) (r : Nat) (h : allocFar c = some (r, c')) : c'.buf = c.buf := by
  cases hsc : c.scopes with
  | nil => simp [allocFar, hsc] at h
  | cons sc rs =>
    simp only [allocFar, hsc] at h
    split at h
    · exact absurd h (by simp)
    · simp only [Option.some.injEq, Prod.mk.injEq] at h
      rw [← h.2]

theorem getTarget_buf (c c' : CState) (opts : Fopts) (hh : opts.hint = none) (t : JSlot) (h : getTarget c opts = some (t, c')) : c'.buf = c.buf := by
  simp only [getTarget, hh, Option.bind_eq_bind, Option.bind_eq_some_iff, Prod.exists, Option.pure_def, Option.some.injEq, Prod.mk.injEq] at h
  obtain ⟨r, c1, h1, _, h2⟩ := h
  rw [← h2]; exact allocFar_buf c c1 r h1

theorem popScope_buf (c c' : CState) (h : popScope c = some c') : c'.buf = c.buf := by
  unfold popScope at h
  split at h
  · exact absurd h (by simp)
  · rw [← Option.some.inj h]
  · split at h <;> rw [← Option.some.inj h]

theorem popScopeKeep_buf (c c' : CState) (s : JSlot) (h : popScopeKeep c s = some c') : c'.buf = c.buf := by
  simp only [popScopeKeep, Option.bind_eq_bind, Option.bind_eq_some_iff] at h
  obtain ⟨c1, h1, h2⟩ := h
  have := popScope_buf c c1 h1
  split at h2 <;> (simp only [Option.pure_def, Option.some.injEq] at h2; rw [← h2]; exact this)

theorem nameslot_buf (c : CState) (name : String) (s : JSlot) : (nameslot c name s).buf = c.buf := by
  unfold nameslot; split <;> rfl

theorem constSlot_buf (c : CState) (v : Value) : (constSlot c v).2.buf = c.buf := by
  show (kOf c v).2.buf = _
  rw [(kOf_shape c v).1]

theorem resolve_buf (c c' : CState) (x : String) (slot : JSlot) (h : resolve c x = some (slot, c')) : c'.buf = c.buf := by
  unfold resolve at h
  split at h
  · unfold globalSlot at h
    split at h
    · simp only [Option.some.injEq] at h
      have e : (constSlot c (.cfun x)).2 = c' := by rw [h]
      rw [← e]; exact constSlot_buf c _
    · simp only [Option.some.injEq] at h
      have e : (constSlot c (.cfun x)).2 = c' := by rw [h]
      rw [← e]; exact constSlot_buf c _
    · exact absurd h (by simp)
  · simp only at h
    split at h
    · simp only [Option.some.injEq, Prod.mk.injEq] at h; rw [← h.2]
    · split at h
      · simp only [Option.some.injEq, Prod.mk.injEq] at h; rw [← h.2]
      · split at h
        · split at h
          · exact absurd h (by simp)
          · split at h
            · exact absurd h (by simp)
            · simp only [Option.some.injEq, Prod.mk.injEq] at h; rw [← h.2]
        · exact absurd h (by simp)

theorem pushSlots_nbr : ∀ (ss : List JSlot) (c c' : CState), pushSlots c ss = some c' → NBR c c'
  | [], c, c', h => by simp only [pushSlots, Option.some.injEq] at h; rw [← h]; exact NBR.refl c
  | [a], c, c', h => by simp only [pushSlots] at h; exact emitW_nbr c c' _ h
  | [a, b], c, c', h => by simp only [pushSlots] at h; exact emitW_nbr c c' _ h
  | a :: b :: d :: rest, c, c', h => by
    simp only [pushSlots, Option.bind_eq_bind, Option.bind_eq_some_iff] at h
    obtain ⟨c1, h1, h2⟩ := h
    exact (emitW_nbr c c1 _ h1).trans (pushSlots_nbr rest c1 c' h2)

theorem namelocal_fresh_nbr (c c2 : CState) (name : String) (r : JSlot) (mf : Bool)
    (h : (do let (ls, c1) ← farslot c
             let c2 ← copySlot c1 ls r
             pure (nameslot c2 name { ls with mutable := mf })) = some c2) : NBR c c2 := by
  simp only [Option.bind_eq_bind, Option.bind_eq_some_iff, Prod.exists, Option.pure_def, Option.some.injEq] at h
  obtain ⟨ls, c1a, h1, c1b, h2, h3⟩ := h
  rw [farslot_eq] at h1
  rw [← h3]
  exact (NBR.of_eq (getTarget_buf c c1a {} rfl ls h1)).trans ((copySlot_nbr c1a c1b ls r h2).trans (NBR.of_eq (nameslot_buf c1b _ _)))

theorem namelocal_nbr (c c2 : CState) (name : String) (mf : Bool) (r : JSlot) (h : namelocal c name mf r = some c2) : NBR c c2 := by
  unfold namelocal at h
  cases hk : r.k <;> simp only [hk] at h <;>
  · split at h
    · rw [← Option.some.inj h]; exact NBR.of_eq (nameslot_buf c _ _)
    · split at h
      · exact namelocal_fresh_nbr c c2 name r mf h
      · rw [← Option.some.inj h]; exact NBR.of_eq (nameslot_buf c _ _)

/-- the statement at compile fuel `fuel`: no assumption on the state -/
def NBAt (G : String → Prop) (fuel : Nat) : Prop :=
  ∀ (b : Bool) (e : Expr) (opts : Fopts) (c c' : CState) (slot : JSlot),
    opts.tail = false → opts.hint = none → TF G b e → cValue fuel opts e c = some (slot, c') → NBR c c'

theorem toSlots_nobrk (G : String → Prop) (fuel : Nat) (IH : NBAt G fuel) (b : Bool) : ∀ (args : List Expr), (∀ a, a ∈ args → TF G b a) →
    ∀ (c c' : CState) (slots : List JSlot), toSlots (cValue fuel) args c = some (slots, c') → NBR c c' := by
  intro args
  induction args with
  | nil =>
    intro _ c c' slots h
    simp only [toSlots, Option.some.injEq, Prod.mk.injEq] at h
    rw [← h.2]; exact NBR.refl c
  | cons a as ih =>
    intro hT c c' slots h
    simp only [toSlots, Option.bind_eq_bind, Option.bind_eq_some_iff, Prod.exists, Option.pure_def, Option.some.injEq, Prod.mk.injEq] at h
    obtain ⟨sl1, c1, hx, ss, c2, hrest, _, hc2⟩ := h
    rw [← hc2]
    exact (IH b a {} c c1 sl1 rfl rfl (hT a (by simp)) hx).trans (ih (fun e he => hT e (by simp [he])) c1 c2 ss hrest)

theorem doBody_nobrk (G : String → Prop) (fuel : Nat) (IH : NBAt G fuel) (b : Bool) : ∀ (body : List Expr), (∀ e, e ∈ body → TF G b e) →
    ∀ (opts : Fopts) (c c' : CState) (slot : JSlot), opts.tail = false → opts.hint = none →
      doBody (cValue fuel) opts body c = some (slot, c') → NBR c c' := by
  intro body
  induction body with
  | nil =>
    intro _ opts c c' slot _ _ h
    simp only [doBody, Option.some.injEq, Prod.mk.injEq] at h
    rw [← h.2]; exact NBR.refl c
  | cons x t ih =>
    intro hT opts c c' slot ht hh h
    cases t with
    | nil =>
      simp only [doBody] at h
      exact IH b x opts c c' slot ht hh (hT x (by simp)) h
    | cons y r =>
      simp only [doBody, Option.bind_eq_bind, Option.bind_eq_some_iff, Prod.exists] at h
      obtain ⟨sl1, c1, hx, c1f, hf, hrest⟩ := h
      exact (IH b x { drop := true } c c1 sl1 rfl rfl (hT x (by simp)) hx).trans
        ((NBR.of_eq (freeslot_buf c1 c1f sl1 hf)).trans (ih (fun e he => hT e (by simp [he])) opts c1f c' slot ht hh hrest))

/-- body statements of `while`: every one dropped and freed -/
theorem whileBody_nobrk (G : String → Prop) (fuel : Nat) (IH : NBAt G fuel) (b : Bool) : ∀ (body : List Expr), (∀ e, e ∈ body → TF G b e) →
    ∀ (c c' : CState), whileBody (cValue fuel) body c = some c' → NBR c c' := by
  intro body
  induction body with
  | nil =>
    intro _ c c' h
    simp only [whileBody, Option.some.injEq] at h
    rw [← h]; exact NBR.refl c
  | cons x t ih =>
    intro hT c c' h
    simp only [whileBody, Option.bind_eq_bind, Option.bind_eq_some_iff, Prod.exists] at h
    obtain ⟨sl1, c1, hx, c1f, hf, hrest⟩ := h
    exact (IH b x { drop := true } c c1 sl1 rfl rfl (hT x (by simp)) hx).trans
      ((NBR.of_eq (freeslot_buf c1 c1f sl1 hf)).trans (ih (fun e he => hT e (by simp [he])) c1f c' hrest))

theorem ifCopy_nbr (drop : Bool) (c c' : CState) (t s : JSlot) (h : ifCopy drop c t s = some c') : NBR c c' := by
  unfold ifCopy at h
  split at h
  · rw [← Option.some.inj h]; exact NBR.refl c
  · exact copySlot_nbr c c' t s h

theorem branch_nobrk (G : String → Prop) (fuel : Nat) (IH : NBAt G fuel) (b : Bool) (x : Expr) (hx : TF G b x) (opts : Fopts)
    (ht : opts.tail = false) (hh : opts.hint = none) (target left : JSlot) (c c6 c7 c8 : CState)
    (h1 : cValue fuel opts x (pushScope c false false false false) = some (left, c6))
    (h2 : ifCopy opts.drop c6 target left = some c7) (h3 : popScope c7 = some c8) : NBR c c8 :=
  (NBR.of_eq (c := c) (c' := pushScope c false false false false) rfl).trans
    ((IH b x opts _ c6 left ht hh hx h1).trans ((ifCopy_nbr opts.drop c6 c7 target left h2).trans (NBR.of_eq (popScope_buf c7 c8 h3))))

theorem throwaway_nbr (G : String → Prop) (fuel : Nat) (IH : NBAt G fuel) (b : Bool) (x : Expr) (hx : TF G b x) (opts : Fopts)
    (ht : opts.tail = false) (hh : opts.hint = none) (c c' : CState) (h : throwaway (cValue fuel) opts x c = some c') : NBR c c' := by
  simp only [throwaway, Option.bind_eq_bind, Option.bind_eq_some_iff, Prod.exists, Option.pure_def, Option.some.injEq] at h
  obtain ⟨sl, c2, h1, c3, hpop, hc'⟩ := h
  intro n0 hn
  rw [← hc']
  have h2 : NoBrkFrom c2.buf n0 := IH b x opts _ c2 sl ht hh hx h1 n0 hn
  have h3 : NoBrkFrom c3.buf n0 := by rw [popScope_buf c2 c3 hpop]; exact h2
  exact h3.take _

theorem if_nobrk (G : String → Prop) (fuel : Nat) (IH : NBAt G fuel) (b : Bool) (cnd tb fb : Expr)
    (hTc : TF G b cnd) (hTt : TF G b tb) (hTf : TF G b fb) (opts : Fopts) (ht : opts.tail = false) (hh : opts.hint = none)
    (c c' : CState) (slot : JSlot) (hc : cIfBody (cValue fuel) opts cnd tb fb c = some (slot, c')) : NBR c c' := by
  obtain ⟨target, c1, cond, c3, hT, hcond, hrest⟩ := cIfBody_inv _ opts cnd tb fb c c' slot hc
  have N0 : NBR c c1 := by
    split at hT
    · simp only [Option.some.injEq, Prod.mk.injEq] at hT
      rw [← hT.2]; exact NBR.refl c
    · exact NBR.of_eq (getTarget_buf c c1 opts hh target hT)
  have N3 : NBR c1 c3 := (NBR.of_eq (c := c1) (c' := pushScope c1 false false false false) rfl).trans (IH b cnd {} _ c3 cond rfl rfl hTc hcond)
  refine N0.trans (N3.trans ?_)
  cases hk : isConstSlot cond with
  | some k =>
    rw [hk] at hrest
    simp only at hrest
    obtain ⟨right, c5, c6, c7, c8, e1, e2, e3, e4, e5, _⟩ := cIfConst_inv _ _ _ _ _ _ _ _ _ hrest
    have hTl : TF G b (if constTruthy k then tb else fb) := by split <;> assumption
    have hTd : TF G b (if constTruthy k then fb else tb) := by split <;> assumption
    obtain ⟨dead, hdead⟩ : ∃ d, d = (if constTruthy k then fb else tb) := ⟨_, rfl⟩
    rw [← hdead] at e4 hTd
    have N7 := branch_nobrk G fuel IH b _ hTl opts ht hh target right c3 c5 c6 c7 e1 e2 e3
    have N8 : NBR c7 c8 := by
      split at e4
      · rw [← Option.some.inj e4]; exact NBR.refl c7
      · exact throwaway_nbr G fuel IH b dead hTd opts ht hh c7 c8 e4
    exact N7.trans (N8.trans (NBR.of_eq (popScope_buf c8 c' e5)))
  | none =>
    rw [hk] at hrest
    simp only at hrest
    obtain ⟨c4, left, c6, c7, c8, right, c11, c12, c13, c14, e1, e2, e3, e4, e5, e6, e7, e8, _, _, _, _, ec'⟩ :=
      cIfJump_inv _ _ _ _ _ _ _ _ _ _ hrest
    have N4 : NBR c3 c4 := emitW_nbr c3 c4 _ e1
    have N8 := branch_nobrk G fuel IH b tb hTt opts ht hh target left c4 c6 c7 c8 e2 e3 e4
    have N9 : NBR c8 (ifJmp (opts.drop && fbNilOf fb) c8) := by
      unfold ifJmp
      split
      · exact NBR.refl c8
      · exact emitRaw_nbr c8 _ (by simp)
    have N13 := branch_nobrk G fuel IH b fb hTf opts ht hh target right _ c11 c12 c13 e5 e6 e7
    have N14 : NBR c3 c14 := N4.trans (N8.trans (N9.trans (N13.trans (NBR.of_eq (popScope_buf c13 c14 e8)))))
    intro n0 hn
    have h14 := N14 n0 hn
    rw [ec']
    show NoBrkFrom (ifPatch _ c14.buf _ _ _) n0
    unfold ifPatch
    split
    · exact h14.modBuf _ _ (patchCond_nobrk _)
    · exact (h14.modBuf _ _ (patchCond_nobrk _)).modBuf _ _ (fun _ _ => by simp)

theorem tf_nobrk_at (G : String → Prop) : ∀ fuel, NBAt G fuel := by
  intro fuel
  induction fuel with
  | zero =>
    intro b e opts c c' slot _ _ _ hc
    simp [cValue] at hc
  | succ fuel ih =>
    intro b e opts c c' slot ht hh hT hc
    cases hT with
    | lit w hw =>
      rw [cValue_lit_o fuel opts ht hh w hw c] at hc
      simp only [Option.some.injEq, Prod.mk.injEq] at hc
      rw [← hc.2]
      exact NBR.of_eq (constSlot_buf c w)
    | sym x =>
      rw [cValue_sym_o fuel opts ht hh] at hc
      cases hr : resolve c x with
      | none => rw [hr] at hc; simp [fin] at hc
      | some res =>
        obtain ⟨sl, c1⟩ := res
        rw [hr] at hc
        simp only [fin, Option.some.injEq, Prod.mk.injEq] at hc
        rw [← hc.2]
        exact NBR.of_eq (resolve_buf c c1 x sl hr)
    | call f args pp hf hna hG hTa =>
      rw [cValue_call_o fuel opts ht hh f args pp c hf] at hc
      obtain ⟨q, hq⟩ := curAt_eq c pp
      cases hcc : cCall (cValue fuel) {} (.sym f) args (curAt c pp) with
      | none => rw [hcc] at hc; simp [fin] at hc
      | some res =>
        obtain ⟨slot0, cq⟩ := res
        rw [hcc] at hc
        simp only [fin, Option.some.injEq, Prod.mk.injEq] at hc
        rw [← hc.2]
        rw [hq] at hcc
        obtain ⟨head, c1, slots, c2, c3, cT, c4, c5, h1, h2, h3, hT, hEm, hf1, hf2⟩ := cCall_steps (cValue fuel) f args _ cq slot0 hcc
        have N : NBR { c with cur := q } cq :=
          (ih b (.sym f) {} _ c1 head rfl rfl (.sym f) h1).trans ((toSlots_nobrk G fuel ih b args hTa c1 c2 slots h2).trans
            ((pushSlots_nbr slots c2 c3 h3).trans ((NBR.of_eq (getTarget_buf c3 cT {} rfl slot0 hT)).trans
              ((emitW_nbr cT c4 _ hEm).trans ((NBR.of_eq (freeslots_buf slots c4 c5 hf1)).trans (NBR.of_eq (freeslot_buf c5 cq head hf2)))))))
        exact fun n0 hn => N n0 hn
    | doo body pp hTb =>
      rw [cValue_do_o fuel opts ht hh body pp c] at hc
      obtain ⟨q, hq⟩ := curAt_eq c pp
      cases hcc : cDo (cValue fuel) opts body (curAt c pp) with
      | none => rw [hcc] at hc; simp [fin] at hc
      | some res =>
        obtain ⟨slot0, cq⟩ := res
        rw [hcc] at hc
        simp only [fin, Option.some.injEq, Prod.mk.injEq] at hc
        rw [← hc.2]
        rw [hq] at hcc
        simp only [cDo, Option.bind_eq_bind, Option.bind_eq_some_iff, Prod.exists, Option.pure_def, Option.some.injEq, Prod.mk.injEq] at hcc
        obtain ⟨r, c2, hbody, c3, hpop, _, hc3⟩ := hcc
        rw [← hc3]
        have N : NBR { c with cur := q } c3 :=
          (NBR.of_eq (c' := pushScope { c with cur := q } false false false false) rfl).trans
            ((doBody_nobrk G fuel ih b body hTb opts _ c2 r ht hh hbody).trans (NBR.of_eq (popScopeKeep_buf c2 c3 r hpop)))
        exact fun n0 hn => N n0 hn
    | ups body pp hTb =>
      rw [cValue_upscope_o fuel opts ht hh body pp c] at hc
      obtain ⟨q, hq⟩ := curAt_eq c pp
      cases hcc : doBody (cValue fuel) opts body (curAt c pp) with
      | none => rw [hcc] at hc; simp [fin] at hc
      | some res =>
        obtain ⟨slot0, cq⟩ := res
        rw [hcc] at hc
        simp only [fin, Option.some.injEq, Prod.mk.injEq] at hc
        rw [← hc.2]
        rw [hq] at hcc
        have N := doBody_nobrk G fuel ih b body hTb opts { c with cur := q } cq slot0 ht hh hcc
        exact fun n0 hn => N n0 hn
    | deff x ve pp hGx hTv =>
      rw [cValue_def_o fuel opts ht hh x ve pp c] at hc
      obtain ⟨q, hq⟩ := curAt_eq c pp
      cases hcc : cDef (cValue fuel) x ve (curAt c pp) with
      | none => rw [hcc] at hc; simp [fin] at hc
      | some res =>
        obtain ⟨slot0, cq⟩ := res
        rw [hcc] at hc
        simp only [fin, Option.some.injEq, Prod.mk.injEq] at hc
        rw [← hc.2]
        rw [hq] at hcc
        unfold cDef at hcc
        split at hcc
        · exact absurd hcc (by simp)
        · simp only [Option.bind_eq_bind, Option.bind_eq_some_iff, Prod.exists, Option.pure_def, Option.some.injEq, Prod.mk.injEq] at hcc
          obtain ⟨r, c1, hv, c2, hnl, _, hc2⟩ := hcc
          rw [← hc2]
          have N : NBR { c with cur := q } c2 := (ih b ve {} _ c1 r rfl rfl hTv hv).trans (namelocal_nbr c1 c2 x false r hnl)
          exact fun n0 hn => N n0 hn
    | iff cnd tb rest pp _ _ hlen hTc hTt hTe =>
      rw [cValue_if_o fuel opts ht hh cnd tb rest pp c, cIf_le1 _ _ _ _ _ _ hlen] at hc
      obtain ⟨q, hq⟩ := curAt_eq c pp
      cases hcc : cIfBody (cValue fuel) opts cnd tb (rest.headD (.lit .nil)) (curAt c pp) with
      | none => rw [hcc] at hc; simp [fin] at hc
      | some res =>
        obtain ⟨slot0, cq⟩ := res
        rw [hcc] at hc
        simp only [fin, Option.some.injEq, Prod.mk.injEq] at hc
        rw [← hc.2]
        rw [hq] at hcc
        have hTf : TF G b (rest.headD (.lit .nil)) := by
          cases rest with
          | nil => exact .lit .nil trivial
          | cons e _ => exact hTe e (by simp)
        have N := if_nobrk G fuel ih b cnd tb _ hTc hTt hTf opts ht hh { c with cur := q } cq slot0 hcc
        exact fun n0 hn => N n0 hn

/-- the code a form of the fragment emits contains no `break` placeholder -/
theorem tf_nobrk (G : String → Prop) (b : Bool) (fuel : Nat) (e : Expr) (opts : Fopts) (c c' : CState) (slot : JSlot) (n0 : Nat)
    (ht : opts.tail = false) (hh : opts.hint = none) (hT : TF G b e) (hc : cValue fuel opts e c = some (slot, c'))
    (hn : NoBrkFrom c.buf n0) : NoBrkFrom c'.buf n0 :=
  tf_nobrk_at G fuel b e opts c c' slot ht hh hT hc n0 hn

end JanetModel.Compile
