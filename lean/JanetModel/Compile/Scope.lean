/- C02: the symbol table of the compiler model seen as a function `lk scopes x` (what `janetc_resolve` finds for a name), and how
   the scope operations of compile.c act on it: `janetc_nameslot` (a visible pair appended to the innermost scope),
   `janetc_scope` (an empty block scope pushed), `janetc_popscope` (the popped scope's pairs appended invisibly to the parent),
   allocator changes (none).  Used by the compile-correctness induction for `do` / `def` (Compile/SeqTheorem.lean). -/
import JanetModel.Compile.Theorem
namespace JanetModel.Compile
open JanetModel.Emit JanetModel.Lang JanetModel.Bytecode.Exec JanetModel.Gen.Bytecode

/-- `searchScopes` + the slot of the pair it found, by recursion on the scopes (no positions) -/
def lookupR (x : String) : List Scope → Bool → Bool → Option (JSlot × Bool × Bool)
  | [], _, _ => none
  | sc :: rest, u, l =>
    match findSym sc.syms x with
    | some i => some ((sc.syms.getD i default).slot, u || sc.unused, l)
    | none => lookupR x rest (u || sc.unused) (l && !sc.fn)

/-- what the scopes know about a name -/
def lk (scs : List Scope) (x : String) : Option (JSlot × Bool × Bool) := lookupR x scs false true

theorem getD_append_length {α : Type} (pre : List α) (a : α) (l : List α) (d : α) : (pre ++ a :: l).getD pre.length d = a := by
  simp [List.getD]

theorem searchScopes_lookupR (x : String) : ∀ (l pre : List Scope) (u lc : Bool),
    (searchScopes x l pre.length u lc).map (fun r => ((((pre ++ l).getD r.1 default).syms.getD r.2.1 default).slot, r.2.2.1, r.2.2.2)) =
      lookupR x l u lc
  | [], _, _, _ => rfl
  | sc :: rest, pre, u, lc => by
    simp only [searchScopes, lookupR]
    cases hf : findSym sc.syms x with
    | some i => simp only [Option.map_some, getD_append_length]
    | none =>
      have := searchScopes_lookupR x rest (pre ++ [sc]) (u || sc.unused) (lc && !sc.fn)
      simp only [List.length_append, List.length_singleton, List.append_assoc, List.singleton_append] at this
      exact this

theorem lookupSlot_lk (c : CState) (x : String) : lookupSlot c x = lk c.scopes x := by
  have := searchScopes_lookupR x c.scopes [] false true
  simpa [lookupSlot, lk] using this

/-! ### `findSym` on appended pairs -/

theorem find?_congr' {α : Type} {p q : α → Bool} : ∀ (l : List α), (∀ x, x ∈ l → p x = q x) → l.find? p = l.find? q
  | [], _ => rfl
  | a :: l, h => by
    have ha : p a = q a := h a (by simp)
    have ht := find?_congr' l (fun x hx => h x (by simp [hx]))
    simp only [List.find?_cons, ha, ht]

theorem getD_snoc_lt (l : List SymPair) (p : SymPair) (i : Nat) (h : i < l.length) : (l ++ [p]).getD i default = l.getD i default := by
  simp [List.getD, List.getElem?_append_left h]

theorem getD_snoc_eq (l : List SymPair) (p : SymPair) : (l ++ [p]).getD l.length default = p := by
  simp [List.getD]

theorem findSym_lt (syms : List SymPair) (x : String) (i : Nat) (h : findSym syms x = some i) : i < syms.length := by
  unfold findSym at h
  have := List.mem_of_find?_eq_some h
  simpa using this

theorem findSym_snoc (syms : List SymPair) (p : SymPair) (x : String) :
    findSym (syms ++ [p]) x = if (p.visible && p.name == x) = true then some syms.length else findSym syms x := by
  unfold findSym
  simp only [List.length_append, List.length_singleton, List.range_succ, List.reverse_append, List.reverse_singleton, List.singleton_append,
    List.find?_cons, getD_snoc_eq]
  by_cases hp : (p.visible && p.name == x) = true
  · simp only [hp, if_true]
  · have hp' : (p.visible && p.name == x) = false := by simpa using hp
    simp only [hp', Bool.false_eq_true, if_false]
    apply find?_congr'
    intro i hi
    have hlt : i < syms.length := by simpa using hi
    rw [getD_snoc_lt syms p i hlt]

/-- pairs that are not visible are never found -/
theorem findSym_append_invisible (x : String) : ∀ (kept syms : List SymPair), (∀ p, p ∈ kept → p.visible = false) →
    findSym (syms ++ kept) x = findSym syms x
  | [], syms, _ => by simp
  | k :: ks, syms, h => by
    have e : syms ++ k :: ks = (syms ++ [k]) ++ ks := by simp
    rw [e, findSym_append_invisible x ks (syms ++ [k]) (fun p hp => h p (by simp [hp])), findSym_snoc]
    have : k.visible = false := h k (by simp)
    simp [this]

theorem getD_append_lt (l m : List SymPair) (i : Nat) (h : i < l.length) : (l ++ m).getD i default = l.getD i default := by
  simp [List.getD, List.getElem?_append_left h]

/-! ### the scope operations on `lk` -/

/-- the allocator is not part of the symbol table -/
theorem lk_ra (sc : Scope) (rs : List Scope) (ra : RA) (x : String) : lk ({ sc with ra := ra } :: rs) x = lk (sc :: rs) x := rfl

/-- `janetc_nameslot`: the new pair shadows, everything else is unchanged -/
theorem lk_snoc (sc : Scope) (rs : List Scope) (p : SymPair) (hv : p.visible = true) (x : String) :
    lk ({ sc with syms := sc.syms ++ [p] } :: rs) x =
      if (p.name == x) = true then some (p.slot, sc.unused, true) else lk (sc :: rs) x := by
  simp only [lk, lookupR, findSym_snoc, hv, Bool.true_and, Bool.false_or]
  cases hn : (p.name == x) with
  | true => simp only [if_true, getD_snoc_eq]
  | false =>
    simp only [Bool.false_eq_true, if_false]
    cases hf : findSym sc.syms x with
    | some i => simp only [getD_snoc_lt sc.syms p i (findSym_lt _ _ _ hf)]
    | none => rfl

/-- `janetc_scope` for a block: an empty, used, non-function scope changes nothing -/
theorem lk_push (nw : Scope) (l : List Scope) (h1 : nw.syms = []) (h2 : nw.unused = false) (h3 : nw.fn = false) (x : String) :
    lk (nw :: l) x = lk l x := by
  have hf : findSym nw.syms x = none := by rw [h1]; rfl
  simp only [lk, lookupR, hf, h2, h3, Bool.or_false, Bool.not_false, Bool.and_true]

/-- `janetc_popscope`: the pairs of the popped scope stay in the parent, invisible -/
theorem lk_append_invisible (sc : Scope) (rs : List Scope) (kept : List SymPair) (hk : ∀ p, p ∈ kept → p.visible = false) (x : String) :
    lk ({ sc with syms := sc.syms ++ kept } :: rs) x = lk (sc :: rs) x := by
  simp only [lk, lookupR, findSym_append_invisible x kept sc.syms hk]
  cases hf : findSym sc.syms x with
  | some i => simp only [getD_append_lt sc.syms kept i (findSym_lt _ _ _ hf)]
  | none => rfl

end JanetModel.Compile
