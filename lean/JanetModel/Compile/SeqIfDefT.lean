/- C02: `janetc_if` in TAIL position as the model compiles it (`Compile.cValue` with `opts.tail = true`, no hint): no target
   register (constant nil), both branches compiled with the tail flag, no copy, no JUMP after the then-branch (it returned), only
   the conditional jump is patched; the result slot is flagged RETURNED in the jump path.  Unfolding `cValue_if_t` and the
   inversions of the two paths. -/
import JanetModel.Compile.SeqTailRet
import JanetModel.Compile.SeqIfDef
namespace JanetModel.Compile
open JanetModel.Emit JanetModel.Lang JanetModel.Bytecode.Exec JanetModel.Gen.Bytecode

def cIfConstT (rec' : Fopts → Expr → CState → Option (JSlot × CState)) (opts : Fopts) (target : JSlot) (tb fb : Expr) (k : KConst) (c3 : CState) :
    Option (JSlot × CState) :=
  let (tb', fb') := if !constTruthy k then (fb, tb) else (tb, fb)
  let fbNil' : Bool := fbNilOf fb'
  let c4 := pushScope c3 false false false false
  do
    let (right, c5) ← rec' opts tb' c4
    let c6 ← if !opts.drop && !true then copySlot c5 target right else pure c5
    let c7 ← popScope c6
    let c8 ← if !fbNil' then throwaway rec' opts fb' c7 else pure c7
    let c9 ← popScope c8
    pure (target, c9)

def cIfJumpT (rec' : Fopts → Expr → CState → Option (JSlot × CState)) (opts : Fopts) (target cond : JSlot) (tb fb : Expr) (fbNil : Bool) (c3 : CState) :
    Option (JSlot × CState) := do
  let c4 ← emitSI c3 .jumpIfNot cond 0 false
  let labeljr := lastLabel c4
  let c5 := pushScope c4 false false false false
  let (left, c6) ← rec' opts tb c5
  let c7 ← if !opts.drop && !true then copySlot c6 target left else pure c6
  let c8 ← popScope c7
  let labeljd := c8.buf.length
  let c9 := if !true && !(opts.drop && fbNil) then emitRaw c8 (.jump 0) else c8
  let labelr := c9.buf.length
  let c10 := pushScope c9 false false false false
  let (right, c11) ← rec' opts fb c10
  let c12 ← if !opts.drop && !true then copySlot c11 target right else pure c11
  let c13 ← popScope c12
  let c14 ← popScope c13
  let labeld := c14.buf.length
  if labelr - labeljr > 32767 || labeld - labeljd > 0x7FFFFF then none else
  let buf1 := modBuf c14.buf labeljr (patchCond (labelr - labeljr))
  let jumped := !true && !(opts.drop && fbNil)
  if !true && !jumped && labeld ≠ labeljd then none else
  let buf2 := if jumped then modBuf buf1 labeljd (fun _ => .jump (Int.ofNat (labeld - labeljd))) else buf1
  pure ({ target with returned := target.returned || true }, { c14 with buf := buf2 })

def cIfBodyT (rec' : Fopts → Expr → CState → Option (JSlot × CState)) (opts : Fopts) (cnd tb fb : Expr) (c : CState) : Option (JSlot × CState) :=
  let fbNil : Bool := fbNilOf fb
  do
    let (target, c1) ← if opts.drop || true then pure (cslot .nil, c) else getTarget c opts
    let c2 := pushScope c1 false false false false
    let (cond, c3) ← rec' {} cnd c2
    match isConstSlot cond with
    | some k => cIfConstT rec' opts target tb fb k c3
    | none => cIfJumpT rec' opts target cond tb fb fbNil c3

def cIfT (rec' : Fopts → Expr → CState → Option (JSlot × CState)) (opts : Fopts) (cnd tb : Expr) (rest : List Expr) (c : CState) :
    Option (JSlot × CState) :=
  match rest with
  | _ :: _ :: _ => none
  | _ => cIfBodyT rec' opts cnd tb (rest.headD (.lit .nil)) c

theorem cIfT_le1 (rec' : Fopts → Expr → CState → Option (JSlot × CState)) (opts : Fopts) (cnd tb : Expr) (rest : List Expr) (c : CState)
    (h : rest.length ≤ 1) : cIfT rec' opts cnd tb rest c = cIfBodyT rec' opts cnd tb (rest.headD (.lit .nil)) c := by
  rcases rest with _ | ⟨e, _ | ⟨e2, r⟩⟩
  · rfl
  · rfl
  · simp at h

theorem cValue_if_t (fuel : Nat) (opts : Fopts) (ht : opts.tail = true) (hh : opts.hint = none) (cnd tb : Expr) (rest : List Expr) (p : Pos) (c : CState) :
    cValue (fuel + 1) opts (.form (.sym "if" :: cnd :: tb :: rest) p) c = finT c.cur (cIfT (cValue fuel) opts cnd tb rest (curAt c p)) := by
  simp only [cValue, ht, hh]
  split
  · rename_i h; exact (congrArg (finT c.cur) h).symm
  · rename_i r c1 h
    refine Eq.trans ?_ (congrArg (finT c.cur) h).symm
    simp only [if_true, finT]
    cases cReturn c1 r with
    | none => rfl
    | some r => cases r; rfl

theorem cIfBodyT_inv (rec' : Fopts → Expr → CState → Option (JSlot × CState)) (opts : Fopts) (cnd tb fb : Expr) (c c' : CState) (slot : JSlot)
    (h : cIfBodyT rec' opts cnd tb fb c = some (slot, c')) :
    ∃ cond c3, rec' {} cnd (pushScope c false false false false) = some (cond, c3) ∧
      (match isConstSlot cond with
       | some k => cIfConstT rec' opts (cslot .nil) tb fb k c3
       | none => cIfJumpT rec' opts (cslot .nil) cond tb fb (fbNilOf fb) c3) = some (slot, c') := by
  simp only [cIfBodyT, Bool.or_true, if_true, Option.pure_def, Option.bind_eq_bind, Option.bind_some, Option.bind_eq_some_iff, Prod.exists] at h
  obtain ⟨cond, c3, hcond, hrest⟩ := h
  exact ⟨cond, c3, hcond, hrest⟩

theorem cIfJumpT_inv (rec' : Fopts → Expr → CState → Option (JSlot × CState)) (opts : Fopts) (target cond : JSlot) (tb fb : Expr) (fbNil : Bool)
    (c3 c' : CState) (slot : JSlot) (h : cIfJumpT rec' opts target cond tb fb fbNil c3 = some (slot, c')) :
    ∃ c4 left c6 c8 right c11 c13 c14,
      emitSI c3 .jumpIfNot cond 0 false = some c4 ∧
      rec' opts tb (pushScope c4 false false false false) = some (left, c6) ∧ popScope c6 = some c8 ∧
      rec' opts fb (pushScope c8 false false false false) = some (right, c11) ∧ popScope c11 = some c13 ∧ popScope c13 = some c14 ∧
      slot.returned = true ∧
      c' = { c14 with buf := modBuf c14.buf (lastLabel c4) (patchCond (c8.buf.length - lastLabel c4)) } := by
  simp [cIfJumpT, Option.bind_eq_some_iff] at h
  obtain ⟨c4, h1, left, c6, h2, c8, h4, right, c11, h5, c13, h7, c14, h8, _, h11, h12⟩ := h
  exact ⟨c4, left, c6, c8, right, c11, c13, c14, h1, h2, h4, h5, h7, h8, by rw [← h11], h12.symm⟩

theorem cIfConstT_inv (rec' : Fopts → Expr → CState → Option (JSlot × CState)) (opts : Fopts) (target : JSlot) (tb fb : Expr) (k : KConst)
    (c3 c' : CState) (slot : JSlot) (h : cIfConstT rec' opts target tb fb k c3 = some (slot, c')) :
    ∃ right c5 c7 c8, rec' opts (if constTruthy k then tb else fb) (pushScope c3 false false false false) = some (right, c5) ∧
      popScope c5 = some c7 ∧
      (if fbNilOf (if constTruthy k then fb else tb) then some c7 else throwaway rec' opts (if constTruthy k then fb else tb) c7) = some c8 ∧
      popScope c8 = some c' ∧ target = slot := by
  cases hk : constTruthy k <;> cases hn : fbNilOf (if constTruthy k then fb else tb) <;>
    simp only [hk, Bool.false_eq_true, if_false, if_true] at hn <;>
    simp [cIfConstT, hk, hn, Option.bind_eq_some_iff] at h ⊢
  all_goals exact h

end JanetModel.Compile
