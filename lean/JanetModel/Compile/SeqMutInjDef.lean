/- C02: side condition `hside.2` of `compile_correct_set` for values that MAY contain `def`: building blocks.
   `MutInj` (a mutable name's register is held by no other resolvable name) across `namelocal` (the `def` step): the new name is
   immutable and lives either in a first-fit register (un-marked, hence no mutable name's register, which are all marked), or
   aliases an immutable named source. -/
import JanetModel.Compile.SeqSetSideH
namespace JanetModel.Compile
open JanetModel.Emit JanetModel.Lang JanetModel.Bytecode.Exec JanetModel.Gen.Bytecode

/-- every resolvable MUTABLE local's register is marked in `ra` -/
def MutMarked (scs : List Scope) (ra : RA) : Prop :=
  ∀ x sl u l r, lk scs x = some (sl, u, l) → sl.mutable = true → sl.k = .loc r → ra.alloc r = true

/-- every resolvable local's register is marked in `ra` -/
def NameMarked (scs : List Scope) (ra : RA) : Prop :=
  ∀ x sl u l r, lk scs x = some (sl, u, l) → sl.k = .loc r → ra.alloc r = true

/-- the entry invariant: `MutInj` + every resolvable local name's register is marked in the head scope's allocator -/
def AllocInv (scs : List Scope) : Prop :=
  MutInj scs ∧ ∀ sc rs, scs = sc :: rs → NameMarked scs sc.ra

theorem NameMarked.mut {scs : List Scope} {ra : RA} (h : NameMarked scs ra) : MutMarked scs ra :=
  fun x sl u l r h1 _ h3 => h x sl u l r h1 h3

theorem MutMarked.mono {scs : List Scope} {ra ra' : RA} (h : MutMarked scs ra) (hsub : ∀ r, ra.alloc r = true → ra'.alloc r = true) :
    MutMarked scs ra' := fun x sl u l r h1 h2 h3 => hsub r (h x sl u l r h1 h2 h3)

theorem NameMarked.mono {scs : List Scope} {ra ra' : RA} (h : NameMarked scs ra) (hsub : ∀ r, ra.alloc r = true → ra'.alloc r = true) :
    NameMarked scs ra' := fun x sl u l r h1 h3 => hsub r (h x sl u l r h1 h3)

theorem MutMarked.of_lk {scs scs' : List Scope} {ra : RA} (h : MutMarked scs ra) (hlk : ∀ x, lk scs' x = lk scs x) : MutMarked scs' ra :=
  fun x sl u l r h1 h2 h3 => h x sl u l r (by rw [← hlk]; exact h1) h2 h3

theorem NameMarked.of_lk {scs scs' : List Scope} {ra : RA} (h : NameMarked scs ra) (hlk : ∀ x, lk scs' x = lk scs x) : NameMarked scs' ra :=
  fun x sl u l r h1 h3 => h x sl u l r (by rw [← hlk]; exact h1) h3

/-- `janetc_nameslot` of an IMMUTABLE pair whose place is no mutable resolvable name's place keeps `MutInj` -/
theorem mutinj_snoc (sc : Scope) (rs : List Scope) (raT : RA) (pair : SymPair) (hv : pair.visible = true) (hmut : pair.slot.mutable = false)
    (hM : MutInj (sc :: rs))
    (hno : ∀ y sl u l, lk (sc :: rs) y = some (sl, u, l) → sl.mutable = true → sl.k ≠ pair.slot.k) :
    MutInj ({ sc with ra := raT, syms := sc.syms ++ [pair] } :: rs) := by
  intro x y slx sly ux lx uy ly h1 h2 hm hk
  rw [lk_def sc rs raT pair hv x] at h1
  rw [lk_def sc rs raT pair hv y] at h2
  cases hbx : (pair.name == x) with
  | true =>
    rw [hbx] at h1
    simp only [if_true, Option.some.injEq, Prod.mk.injEq] at h1
    rw [← h1.1, hmut] at hm
    exact absurd hm (by simp)
  | false =>
    rw [hbx] at h1
    simp only [Bool.false_eq_true, if_false] at h1
    cases hby : (pair.name == y) with
    | true =>
      rw [hby] at h2
      simp only [if_true, Option.some.injEq, Prod.mk.injEq] at h2
      rw [← h2.1] at hk
      exact absurd hk (hno x slx ux lx h1 hm)
    | false =>
      rw [hby] at h2
      simp only [Bool.false_eq_true, if_false] at h2
      exact hM x y slx sly ux lx uy ly h1 h2 hm hk

/-- `janetc_nameslot` of a pair whose register is marked keeps `NameMarked` -/
theorem namemarked_snoc (sc : Scope) (rs : List Scope) (raT : RA) (pair : SymPair) (hv : pair.visible = true)
    (hN : NameMarked (sc :: rs) raT) (hp : ∀ r, pair.slot.k = .loc r → raT.alloc r = true) :
    NameMarked ({ sc with ra := raT, syms := sc.syms ++ [pair] } :: rs) raT := by
  intro x sl u l r h1 hk
  rw [lk_def sc rs raT pair hv x] at h1
  cases hbx : (pair.name == x) with
  | true =>
    rw [hbx] at h1
    simp only [if_true, Option.some.injEq, Prod.mk.injEq] at h1
    rw [← h1.1] at hk
    exact hp r hk
  | false =>
    rw [hbx] at h1
    simp only [Bool.false_eq_true, if_false] at h1
    exact hN x sl u l r h1 hk

/-- `janetc_farslot`: first fit — the register is un-marked before, marked after, every other mark is kept -/
theorem farslot_fresh (c c1 : CState) (ls : JSlot) (sc : Scope) (rs : List Scope) (hs : c.scopes = sc :: rs) (hl : c.lim ≤ 65536)
    (h : farslot c = some (ls, c1)) :
    ∃ d ra1, ls = { k := .loc d } ∧ sc.ra.alloc d = false ∧ c1 = { c with scopes := { sc with ra := ra1 } :: rs } ∧
      ra1.alloc d = true ∧ ∀ j, sc.ra.alloc j = true → ra1.alloc j = true := by
  simp only [farslot, allocFar, hs] at h
  split at h
  · exact absurd h (by simp)
  · rename_i hlt
    simp only [Option.bind_eq_bind, Option.bind_some, Option.pure_def, Option.some.injEq, Prod.mk.injEq] at h
    refine ⟨(sc.ra.alloc1).1, (sc.ra.alloc1).2, h.1.symm, ?_, h.2.symm, ?_, ?_⟩
    · have hd : firstFit sc.ra searchFuel 0 < 0 + searchFuel := by
        have e : (sc.ra.alloc1).1 = firstFit sc.ra searchFuel 0 := rfl
        have : searchFuel = 70000 := rfl
        rw [e] at hlt
        omega
      have := firstFit_lt_free sc.ra searchFuel 0 hd
      simp only [RA.taken, Bool.or_eq_false_iff] at this
      exact this.1
    · simp [RA.alloc1, RA.mark]
    · intro j hj
      simp [RA.alloc1, RA.mark, hj]

/-- the fresh-register path of `namelocal` keeps `MutInj` (needs: mutable names' registers are marked at entry) -/
theorem namelocal_fresh_mutinj (c c2 : CState) (name : String) (r : JSlot) (sc : Scope) (rs : List Scope)
    (pool : List KConst) (ps : List (List KConst)) (hs : c.scopes = sc :: rs) (hp : c.pools = pool :: ps) (hl : c.lim ≤ 65536)
    (hM : MutInj c.scopes) (hMM : MutMarked c.scopes sc.ra)
    (h : (do let (ls, c1) ← farslot c
             let c2 ← copySlot c1 ls r
             pure (nameslot c2 name { ls with mutable := false })) = some c2) : MutInj c2.scopes := by
  simp only [Option.bind_eq_bind, Option.bind_eq_some_iff, Prod.exists, Option.pure_def, Option.some.injEq] at h
  obtain ⟨ls, c1a, h1, c1b, h2, h3⟩ := h
  obtain ⟨d, ra1, hls, hfree, hc1a, _, _⟩ := farslot_fresh c c1a ls sc rs hs hl h1
  have hs1 : c1a.scopes = { sc with ra := ra1 } :: rs := by rw [hc1a]
  have hp1 : c1a.pools = pool :: ps := by rw [hc1a]; exact hp
  obtain ⟨ra2, more, seg, segm, hc1b, _⟩ := copySlot_stepR c1a c1b ls r _ rs pool ps hs1 hp1 h2
  have hs2 : c1b.scopes = { sc with ra := ra2 } :: rs := by rw [hc1b]
  rw [← h3]
  have hsn : (nameslot c1b name { ls with mutable := false }).scopes =
      { sc with ra := ra2, syms := sc.syms ++ [{ name := name, slot := { ({ ls with mutable := false } : JSlot) with named := true } }] } :: rs := by
    simp only [nameslot, hs2]
  rw [hsn]
  rw [hs] at hM hMM
  refine mutinj_snoc sc rs ra2 _ rfl rfl hM (fun y sl u l hy hm hk => ?_)
  simp only [hls] at hk
  have := hMM y sl u l d hy hm hk
  rw [hfree] at this
  exact absurd this (by simp)

/-- **the `def` step keeps `MutInj`**: `namelocal` (immutable) after a value whose slot is a constant or a plain local; in the alias
    case (named immutable source) the source's place must be no mutable resolvable name's place -/
theorem namelocal_mutinj (c c2 : CState) (name : String) (r : JSlot) (sc : Scope) (rs : List Scope)
    (pool : List KConst) (ps : List (List KConst)) (hs : c.scopes = sc :: rs) (hp : c.pools = pool :: ps) (hl : c.lim ≤ 65536)
    (hM : MutInj c.scopes) (hMM : MutMarked c.scopes sc.ra) (hsl : SlotSh r)
    (hret : r.named = true → r.mutable = false → ∀ y sl u l, lk c.scopes y = some (sl, u, l) → sl.mutable = true → sl.k ≠ r.k)
    (h : namelocal c name false r = some c2) : MutInj c2.scopes := by
  obtain ⟨k, cf, nm, mu, ret⟩ := r
  rcases hsl with ⟨_, kc, hk⟩ | ⟨hcf, r0, hk⟩
  · simp only at hk; subst hk
    have hX : namelocal c name false { k := .const kc, cflag := cf, named := nm, mutable := mu, returned := ret } =
        (do let (ls, c1) ← farslot c
            let c2 ← copySlot c1 ls { k := .const kc, cflag := cf, named := nm, mutable := mu, returned := ret }
            pure (nameslot c2 name { ls with mutable := false })) := by
      simp [namelocal]
    rw [hX] at h
    exact namelocal_fresh_mutinj c c2 name _ sc rs pool ps hs hp hl hM hMM h
  · simp only at hk hcf; subst hk hcf
    by_cases hal : nm = true ∧ mu = false
    · obtain ⟨e1, e2⟩ := hal
      subst e1 e2
      simp [namelocal] at h
      rw [← h]
      have hsn : (nameslot c name { k := .loc r0, cflag := false, named := true, mutable := false, returned := ret }).scopes =
          { sc with ra := sc.ra, syms := sc.syms ++ [{ name := name, slot := { k := .loc r0, cflag := false, named := true, mutable := false, returned := ret } }] } :: rs := by
        simp only [nameslot, hs]
      rw [hsn]
      rw [hs] at hM hret
      exact mutinj_snoc sc rs sc.ra _ rfl rfl hM (fun y sl u l hy hm => hret rfl rfl y sl u l hy hm)
    · have hX : namelocal c name false { k := .loc r0, cflag := false, named := nm, mutable := mu, returned := ret } =
          (do let (ls, c1) ← farslot c
              let c2 ← copySlot c1 ls { k := .loc r0, cflag := false, named := nm, mutable := mu, returned := ret }
              pure (nameslot c2 name { ls with mutable := false })) := by
        cases nm <;> cases mu <;> simp_all [namelocal]
      rw [hX] at h
      exact namelocal_fresh_mutinj c c2 name _ sc rs pool ps hs hp hl hM hMM h

/-- a name's own slot (what `resolve` returns for a local): if it is immutable, no mutable resolvable name shares its place -/
theorem MutInj.sym_ret {scs : List Scope} (hM : MutInj scs) (x : String) (slx : JSlot) (ux lx : Bool) (hx : lk scs x = some (slx, ux, lx))
    (himm : slx.mutable = false) : ∀ y sl u l, lk scs y = some (sl, u, l) → sl.mutable = true → sl.k ≠ slx.k := by
  intro y sl u l hy hm hk
  have e := hM y x sl slx u l ux lx hy hx hm hk
  subst e
  rw [hy] at hx
  simp only [Option.some.injEq, Prod.mk.injEq] at hx
  rw [hx.1, himm] at hm
  exact absurd hm (by simp)

end JanetModel.Compile
