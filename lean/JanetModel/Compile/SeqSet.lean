/- C02: `(set x e)` on a local variable (`janetc_varset`, symbol case): the value compiled with the variable's slot as HINT
   (correctness of hinted compiles = the hypothesis `HintAtM`, Compile/SeqHint.lean), then `janetc_copy` of the slot onto itself
   (emits nothing).  Against `Lang/Sem`: the box of the binding of `x` visible AT the `set` form is overwritten.  The run-time invariant at the exit holds for EVERY
   name: the register written belongs to `x` alone (`MutInj`), the box written to `x` alone (`BoxInj`). -/
import JanetModel.Compile.SeqHint
namespace JanetModel.Compile
open JanetModel.Emit JanetModel.Lang JanetModel.Bytecode.Exec JanetModel.Gen.Bytecode

/-- `janetc_varset`, symbol case -/
def cSet (rec' : Fopts → Expr → CState → Option (JSlot × CState)) (name : String) (v : Expr) (c : CState) : Option (JSlot × CState) := do
  let (dest, c1) ← resolve c name
  if !dest.mutable then none else do
    let (r, c2) ← rec' { hint := some dest } v c1
    let c3 ← copySlot c2 dest r
    pure (r, c3)

theorem cValue_set_o (fuel : Nat) (opts : Fopts) (ht : opts.tail = false) (hh : opts.hint = none) (name : String) (v : Expr) (p : Pos) (c : CState) :
    cValue (fuel + 1) opts (.form [.sym "set", .sym name, v] p) c = fin c.cur (cSet (cValue fuel) name v (curAt c p)) := by
  simp only [cValue, ht, hh]
  split
  · rename_i h; exact (congrArg (fin c.cur) h).symm
  · rename_i r c1 h
    simp only [Bool.false_eq_true, if_false, Option.pure_def, Option.bind_eq_bind, Option.bind_some]
    exact (congrArg (fin c.cur) h).symm

theorem eval_set (n : Nat) (cur : Pos) (env : Env) (x : String) (ve : Expr) (p : Pos) (s : SS) :
    eval (n + 1) cur env (.form [.sym "set", .sym x, ve] p) s =
      (match eval n (posOf cur p) env ve s with
       | .ok (v, env1) s' =>
         match lookupEnv env x with
         | some a => .ok (v, env1) (writeBox s' a v)
         | none => .stop ("set of unknown variable " ++ x)
       | r => r) := by
  simp only [eval] <;> rfl

theorem eval_set_inv (n : Nat) (cur : Pos) (env env' : Env) (x : String) (ve : Expr) (p : Pos) (s s' : SS) (v : Value)
    (h : eval n cur env (.form [.sym "set", .sym x, ve] p) s = .ok (v, env') s') :
    ∃ n2 s1 a, n = n2 + 1 ∧ eval n2 (posOf cur p) env ve s = .ok (v, env') s1 ∧ lookupEnv env x = some a ∧ s' = writeBox s1 a v := by
  cases n with
  | zero => simp [eval] at h
  | succ n2 =>
    rw [eval_set] at h
    cases he : eval n2 (posOf cur p) env ve s with
    | ok r s1 =>
      obtain ⟨v1, env1⟩ := r
      rw [he] at h
      simp only at h
      cases hl : lookupEnv env x with
      | none => rw [hl] at h; exact absurd h (by simp)
      | some a =>
        rw [hl] at h
        simp only [R.ok.injEq, Prod.mk.injEq] at h
        obtain ⟨⟨hv, henv⟩, hs⟩ := h
        subst hv henv
        exact ⟨n2, s1, a, rfl, he, rfl, hs.symm⟩
    | err _ _ _ => rw [he] at h; exact absurd h (by simp)
    | brk _ _ => rw [he] at h; exact absurd h (by simp)
    | stop _ => rw [he] at h; exact absurd h (by simp)

/-- `janetc_copy` of a slot onto itself: nothing emitted, the state unchanged -/
theorem copySlot_self (c c3 : CState) (d : JSlot) (hcf : d.cflag = false) (sc : Scope) (rs : List Scope) (pool : List KConst) (ps : List (List KConst))
    (hs : c.scopes = sc :: rs) (hp : c.pools = pool :: ps) (h : copySlot c d d = some c3) : c3 = c := by
  have hsf : sameFlags d d = true := by simp [sameFlags]
  simp only [copySlot, hcf, Bool.false_eq_true, if_false, hsf, Bool.not_true, Bool.and_false, Bool.false_and] at h
  obtain ⟨_, hc3⟩ := emitW_spec c c3 _ sc rs pool ps hs hp h
  have hX : W.copy { ra := sc.ra, buf := [], consts := pool } d.k d.k = { ra := sc.ra, buf := [], consts := pool } := by
    simp only [W.copy]
    split <;> simp
  rw [hX] at hc3
  rw [hc3]
  cases c
  simp_all

section
variable (p : Program) (f0 : Frame) (rest : List Frame) (V : Array Value) (P : List KConst)

/-- what `(set x e)` delivers: compile side as `Correct2`; run side: the value in the variable's register `rx`, every OTHER
    register allocated at entry unchanged, the run-time invariant for every name at the exit -/
def SetOK (G : String → Prop) (c c' : CState) (slot : JSlot) (rx : Nat) (sc : Scope) (rs : List Scope) (pool : List KConst) (ps : List (List KConst))
    (env env' : Env) (s s' : SS) (v : Value) : Prop :=
  ∃ (ra' : RA) (nsyms : List SymPair) (more : List KConst) (seg : List CI) (segm : List Pos),
    c' = { c with scopes := { sc with ra := ra', syms := sc.syms ++ nsyms } :: rs, pools := (pool ++ more) :: ps, buf := c.buf ++ seg,
                  map := c.map ++ segm, vals := c'.vals } ∧
    PrefA c.vals c'.vals ∧ (∀ r, sc.ra.alloc r = true → ra'.alloc r = true) ∧ sc.ra.max ≤ ra'.max ∧
    slot.k = .loc rx ∧ slot.named = true ∧ sc.ra.alloc rx = true ∧ rx < 240 ∧
    s.boxes.size ≤ s'.boxes.size ∧ EnvS G c'.scopes env' s'.boxes.size ra' ∧ segm.length = seg.length ∧
    ∀ (k : Cfg), k.w = s.st.world → k.args = #[] → EnvD c.scopes env s k.regs →
      CodeAt (p.defs.getD f0.defIdx default).code k.pc seg → PrefL (pool ++ more) P → PrefA c'.vals V → ra'.max < k.regs.size →
      ∃ regs', Reach p (inj f0 rest k) (inj f0 rest { regs := regs', pc := k.pc + seg.length, args := #[], w := s'.st.world }) ∧
        regs'.size = k.regs.size ∧ (∀ r, sc.ra.alloc r = true → r ≠ rx → regs'.getD r .nil = k.regs.getD r .nil) ∧
        slotVal V regs' slot = v ∧ EnvD c'.scopes env' s' regs'

/-- `(set x e)`, after the inversion of the compile -/
theorem set_core (G : String → Prop) (b : Bool) (fuel : Nat) (HA : HintAtM p f0 rest V P G (TF G b) fuel)
    (x : String) (ve : Expr) (hTv : TF G b ve)
    (c c2 c3 : CState) (dest r : JSlot) (sc : Scope) (rs : List Scope) (pool : List KConst) (ps : List (List KConst))
    (n2 : Nat) (pos : Pos) (env env1 : Env) (s s1 : SS) (v : Value) (a : Nat)
    (hs : c.scopes = sc :: rs) (hp : c.pools = pool :: ps) (hl : c.lim ≤ 240) (htop : sc.top = false) (hm : c.map.length = c.buf.length)
    (hres : resolve c x = some (dest, c)) (hmut : dest.mutable = true)
    (hv : cValue fuel { hint := some dest } ve c = some (r, c2))
    (hcp : copySlot c2 dest r = some c3)
    (hsem : eval n2 pos env ve s = .ok (v, env1) s1) (hla : lookupEnv env x = some a) (hsame : lookupEnv env1 x = some a)
    (hE : EnvS G c.scopes env s.boxes.size sc.ra)
    (hmaxx : ∀ rx u l, lk c.scopes x = some (dest, u, l) → dest.k = .loc rx → rx ≤ sc.ra.max)
    (hx2 : ∀ u l, lk c.scopes x = some (dest, u, l) → ∃ u2 l2, lk c2.scopes x = some (dest, u2, l2))
    (hMI : MutInj c2.scopes) (hBI : BoxInj env1 s1.boxes.size) :
    ∃ rx, SetOK p f0 rest V P G c c3 r rx sc rs pool ps env env1 s (writeBox s1 a v) v := by
  -- `x` is a local of the current function
  have hlx : ∃ u l, lk c.scopes x = some (dest, u, l) := by
    cases hlk : lk c.scopes x with
    | none =>
      rw [resolve_global c x (by rw [lookupSlot_lk]; exact hlk)] at hres
      unfold globalSlot at hres
      split at hres
      · simp only [Option.some.injEq] at hres
        have hd : dest = (constSlot c (.cfun x)).1 := by rw [hres]
        rw [hd] at hmut
        exact absurd hmut (by simp [constSlot, cslot])
      · simp only [Option.some.injEq] at hres
        have hd : dest = (constSlot c (.cfun x)).1 := by rw [hres]
        rw [hd] at hmut
        exact absurd hmut (by simp [constSlot, cslot])
      · exact absurd hres (by simp)
    | some q =>
      obtain ⟨sl, u, l⟩ := q
      obtain ⟨hl1, _, hcf, _⟩ := hE.found hlk
      subst hl1
      rw [resolve_local c x sl u (by rw [lookupSlot_lk]; exact hlk) hcf] at hres
      simp only [Option.some.injEq, Prod.mk.injEq] at hres
      rw [← hres.1]
      exact ⟨u, true, rfl⟩
  obtain ⟨u, l, hlk⟩ := hlx
  obtain ⟨_, hnm, hcf, rx, a0, hk, _, _, hal, hr240⟩ := hE.found hlk
  obtain ⟨hrd, ra', nsyms, more, seg, segm, hc2, pv, mono, max', bx, es, hlen, vm⟩ :=
    HA ve { hint := some dest } c c2 r sc rs pool ps n2 pos env env1 s s1 v dest rx rfl rfl rfl hk hcf hr240 hal (hmaxx rx u l hlk hk) hs hp hl htop hm hTv hv hsem hE
  subst hrd
  have hs2 : c2.scopes = { sc with ra := ra', syms := sc.syms ++ nsyms } :: rs := by rw [hc2]
  have hp2 : c2.pools = (pool ++ more) :: ps := by rw [hc2]
  have hc3 : c3 = c2 := copySlot_self c2 c3 r hcf _ rs _ ps hs2 hp2 hcp
  subst hc3
  obtain ⟨u2, l2, hlk2⟩ := hx2 u l hlk
  have ha : a < s1.boxes.size := hBI.2 x a hsame
  have hsize : (writeBox s1 a v).boxes.size = s1.boxes.size := by simp [writeBox]
  refine ⟨rx, ra', nsyms, more, seg, segm, hc2, pv, mono, max', hk, hnm, hal, hr240, ?_, ?_, hlen, ?_⟩
  · rw [hsize]; exact bx.1
  · rw [hsize]; exact es
  · intro k hkw hka hD hcode hpre hV hsz
    obtain ⟨regs', rch, sz, pr, hval, edx⟩ := vm k hkw hka hD hcode hpre hV hsz
    refine ⟨regs', rch, sz, pr, by simp only [slotVal, hk]; exact hval, ?_⟩
    intro y slot uy ly ry ay hy hky hey
    by_cases e : ry = rx
    · subst e
      have hxy : x = y := hMI x y r slot u2 l2 uy ly hlk2 hy hmut (by rw [hk, hky])
      subst hxy
      have : ay = a := by rw [hsame] at hey; exact (Option.some.inj hey).symm
      subst this
      rw [hval]
      simp [readBox, writeBox, Array.getD, ha]
    · rw [edx y slot uy ly ry ay hy hky e hey]
      have hne : ay ≠ a := by
        intro e2
        subst e2
        have hyx : y = x := hBI.1 y x ay hey hsame
        subst hyx
        rw [hlk2] at hy
        simp only [Option.some.injEq, Prod.mk.injEq] at hy
        rw [← hy.1, hk] at hky
        injection hky with e3
        exact e e3.symm
      simp only [readBox, writeBox]
      exact (getD_set_ne _ _ _ _ hne).symm

/-- the mapping cursor does not matter -/
theorem SetOK.recur {G : String → Prop} {c c1 : CState} {q : Pos} {slot : JSlot} {rx : Nat} {sc : Scope} {rs : List Scope} {pool : List KConst}
    {ps : List (List KConst)} {env env' : Env} {s s' : SS} {v : Value}
    (h : SetOK p f0 rest V P G { c with cur := q } c1 slot rx sc rs pool ps env env' s s' v) :
    SetOK p f0 rest V P G c { c1 with cur := c.cur } slot rx sc rs pool ps env env' s s' v := by
  obtain ⟨ra', nsyms, more, seg, segm, hc, h2⟩ := h
  refine ⟨ra', nsyms, more, seg, segm, ?_, h2⟩
  conv => lhs; rw [hc]

/-- `(set x e)` on a local variable: from the compile and the run of the whole form.  Side conditions at the exit of the value
    (hypotheses): `x` still resolves to the same slot and the same box (the value does not rebind it), a mutable name's register is held by no other name (`MutInj`), distinct
    names have distinct boxes (`BoxInj`) -/
theorem set_correct (G : String → Prop) (b : Bool) (fuel : Nat) (HA : HintAtM p f0 rest V P G (TF G b) fuel)
    (x : String) (ve : Expr) (pp : Pos) (hTv : TF G b ve)
    (opts : Fopts) (c c' : CState) (slot : JSlot) (sc : Scope) (rs : List Scope) (pool : List KConst) (ps : List (List KConst))
    (n : Nat) (cur : Pos) (env env' : Env) (s s' : SS) (v : Value)
    (ht : opts.tail = false) (hh : opts.hint = none) (hs : c.scopes = sc :: rs) (hp : c.pools = pool :: ps) (hl : c.lim ≤ 240)
    (htop : sc.top = false) (hm : c.map.length = c.buf.length)
    (hc : cValue (fuel + 1) opts (.form [.sym "set", .sym x, ve] pp) c = some (slot, c'))
    (hsem : eval n cur env (.form [.sym "set", .sym x, ve] pp) s = .ok (v, env') s')
    (hE : EnvS G c.scopes env s.boxes.size sc.ra)
    (hmaxx : ∀ dest rx u l, lk c.scopes x = some (dest, u, l) → dest.k = .loc rx → rx ≤ sc.ra.max)
    (hside : ∀ (q : Pos) (dest r : JSlot) (c2 : CState), (∃ u l, lk c.scopes x = some (dest, u, l)) →
      cValue fuel { hint := some dest } ve { c with cur := q } = some (r, c2) →
      (∀ u l, lk c.scopes x = some (dest, u, l) → ∃ u2 l2, lk c2.scopes x = some (dest, u2, l2)) ∧ MutInj c2.scopes)
    (hsame : ∀ a, lookupEnv env x = some a → lookupEnv env' x = some a)
    (hBI : ∀ (n2 : Nat) (pos : Pos) (s1 : SS), eval n2 pos env ve s = .ok (v, env') s1 → BoxInj env' s1.boxes.size) :
    ∃ rx, SetOK p f0 rest V P G c c' slot rx sc rs pool ps env env' s s' v := by
  rw [cValue_set_o fuel opts ht hh x ve pp c] at hc
  obtain ⟨q, hq⟩ := curAt_eq c pp
  cases hcc : cSet (cValue fuel) x ve (curAt c pp) with
  | none => rw [hcc] at hc; simp [fin] at hc
  | some res =>
    obtain ⟨slot0, cq⟩ := res
    rw [hcc] at hc
    simp only [fin, Option.some.injEq, Prod.mk.injEq] at hc
    obtain ⟨hsl, hc'⟩ := hc
    subst hsl hc'
    rw [hq] at hcc
    obtain ⟨n2, s1, a, hn, hev, hla, hs'⟩ := eval_set_inv n cur env env' x ve pp s s' v hsem
    subst hs'
    simp only [cSet, Option.bind_eq_bind, Option.bind_eq_some_iff, Prod.exists] at hcc
    obtain ⟨dest, c1, hres, hrest⟩ := hcc
    cases hmut : dest.mutable with
    | false => simp [hmut] at hrest
    | true =>
      simp only [hmut, Bool.not_true, Bool.false_eq_true, if_false, Option.bind_eq_some_iff, Prod.exists, Option.pure_def, Option.some.injEq,
        Prod.mk.injEq] at hrest
      obtain ⟨r, c2, hv, c3, hcp, hr, hc3⟩ := hrest
      subst hr hc3
      -- `resolve` leaves the state alone (a local found without capture, or a global constant)
      have hc1 : c1 = { c with cur := q } ∧ ∃ u l, lk c.scopes x = some (dest, u, l) := by
        cases hlk : lk c.scopes x with
        | none =>
          rw [resolve_global _ x (by rw [lookupSlot_lk]; exact hlk)] at hres
          unfold globalSlot at hres
          split at hres
          · simp only [Option.some.injEq] at hres
            have hd : dest = (constSlot ({ c with cur := q } : CState) (.cfun x)).1 := by rw [hres]
            rw [hd] at hmut
            exact absurd hmut (by simp [constSlot, cslot])
          · simp only [Option.some.injEq] at hres
            have hd : dest = (constSlot ({ c with cur := q } : CState) (.cfun x)).1 := by rw [hres]
            rw [hd] at hmut
            exact absurd hmut (by simp [constSlot, cslot])
          · exact absurd hres (by simp)
        | some w =>
          obtain ⟨sl, u, l⟩ := w
          obtain ⟨hl1, _, hcf, _⟩ := hE.found hlk
          subst hl1
          rw [resolve_local _ x sl u (by rw [lookupSlot_lk]; exact hlk) hcf] at hres
          simp only [Option.some.injEq, Prod.mk.injEq] at hres
          exact ⟨hres.2.symm, u, true, by rw [← hres.1]⟩
      obtain ⟨hc1, hlkx⟩ := hc1
      subst hc1
      obtain ⟨hx2, hMI⟩ := hside q dest r c2 hlkx hv
      obtain ⟨rx, H⟩ := set_core p f0 rest V P G b fuel HA x ve hTv { c with cur := q } c2 c3 dest r sc rs pool ps n2 (posOf cur pp) env env' s s1 v a
        hs hp hl htop hm hres hmut hv hcp hev hla (hsame a hla) hE (hmaxx dest) hx2 hMI (hBI n2 (posOf cur pp) s1 hev)
      exact ⟨rx, SetOK.recur p f0 rest V P (q := q) H⟩

end

end JanetModel.Compile
