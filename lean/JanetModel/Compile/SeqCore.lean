/- C02: the compile-correctness induction for the core fragment `TF G b`
     e ::= literal | symbol | (f e ...) | (do e ...) | (upscope e ...) | (def x e) | (if e e [e])        (`if` when b = true)
   (calls of global core functions with any number of operands).  The `if` case is a parameter (`IfCase`), discharged in
   Compile/SeqIf.lean; with b = false the theorem is unconditional. -/
import JanetModel.Compile.SeqCallN
import JanetModel.Compile.SeqPush
import JanetModel.Compile.SeqShapeM
namespace JanetModel.Compile
open JanetModel.Emit JanetModel.Lang JanetModel.Bytecode.Exec JanetModel.Gen.Bytecode

/-- the source map stays as long as the code across a compiled form of the fragment (compile-only, from `tf_shapeM`) -/
theorem tf_ML (G : String → Prop) (b w : Bool) (fuel : Nat) : MLAt G (TF G b) w fuel := by
  intro _ e opts c c' slot sc rs pool ps env nb ht hh hs hp htop hT hE hc hm
  obtain ⟨⟨ra', ns, more, seg, segm, hc', _, _, hl⟩, _⟩ := tf_shapeM G b fuel e opts c c' slot sc rs pool ps ht hh hs hp htop hm hT hE.lkl hc
  rw [hc']
  simp only [List.length_append]
  omega

section
variable (p : Program) (f0 : Frame) (rest : List Frame) (V : Array Value) (P : List KConst)

/-- what the `if` case has to deliver, given the induction hypothesis at the fuel of the sub-forms -/
def IfCase (G : String → Prop) (b : Bool) (fuel : Nat) : Prop :=
  ∀ (cnd tb : Expr) (els : List Expr) (pp : Pos), CondOK cnd → els.length ≤ 1 → TF G b cnd → TF G b tb → (∀ e, e ∈ els → TF G b e) →
  ∀ (opts : Fopts) (c c' : CState) (slot : JSlot) (sc : Scope) (rs : List Scope) (pool : List KConst) (ps : List (List KConst))
    (n : Nat) (cur : Pos) (env env' : Env) (s s' : SS) (v : Value),
    opts.tail = false → opts.hint = none → c.scopes = sc :: rs → c.pools = pool :: ps → c.lim ≤ 240 → sc.top = false →
    c.map.length = c.buf.length →
    cValue (fuel + 1) opts (.form (.sym "if" :: cnd :: tb :: els) pp) c = some (slot, c') →
    eval n cur env (.form (.sym "if" :: cnd :: tb :: els) pp) s = .ok (v, env') s' → EnvS G c.scopes env s.boxes.size sc.ra →
    Correct2 p f0 rest V P G opts.drop c c' slot sc rs pool ps env env' s s' v

theorem tf_correct (hP : P.length < 65536)
    (hK : ∀ i, i < P.length → (p.defs.getD f0.defIdx default).consts.getD i .nil = litOf V (P.getD i .nil))
    (FF : FloatFacts) (G : String → Prop) (b w : Bool)
    (IFC : b = true → w = true ∧ ∀ fuel, CorrectAt p f0 rest V P G (TF G b) w fuel → IfCase p f0 rest V P G b fuel) :
    ∀ fuel, CorrectAt p f0 rest V P G (TF G b) w fuel := by
  intro fuel
  induction fuel with
  | zero =>
    intro e opts c c' slot sc rs pool ps n cur env env' s s' v _ _ _ _ _ _ _ _ hc
    simp [cValue] at hc
  | succ fuel ih =>
    intro e opts c c' slot sc rs pool ps n cur env env' s s' v ht hh hs hp hl htop hm hTS hc hsem hE
    have ML : MLAt G (TF G b) w fuel := tf_ML G b w fuel
    cases hTS with
    | lit w hw =>
      rw [cValue_lit_o fuel opts ht hh w hw c] at hc
      simp only [Option.some.injEq, Prod.mk.injEq] at hc
      obtain ⟨h1, h2⟩ := hc
      subst h1 h2
      cases n with
      | zero => simp [eval] at hsem
      | succ n =>
        rw [eval_lit] at hsem
        simp only [R.ok.injEq, Prod.mk.injEq] at hsem
        obtain ⟨⟨hv, he⟩, hss⟩ := hsem
        subst hv he hss
        exact Correct2.weaken p f0 rest V P _ (atom_const2 p f0 rest V P FF G c _ hw sc rs pool ps hs hp _ _ hE)
    | sym x =>
      rw [cValue_sym_o fuel opts ht hh] at hc
      rcases hE.2 x with ⟨hl1, hl2⟩ | ⟨sl, r, a, u, hl1, hk1, hn1, hc1, hl2, ha, hal, hr⟩
      · rw [resolve_global c x (by rw [lookupSlot_lk]; exact hl1)] at hc
        have hg : globalSlot c x = some (constSlot c (.cfun x)) := by
          unfold globalSlot at hc ⊢
          split at hc <;> simp_all [fin]
        rw [hg] at hc
        simp only [fin, Option.some.injEq, Prod.mk.injEq] at hc
        obtain ⟨h1, h2⟩ := hc
        subst h1 h2
        cases n with
        | zero => simp [eval] at hsem
        | succ n =>
          rw [eval_sym_global n cur env x s hl2] at hsem
          simp only [R.ok.injEq, Prod.mk.injEq] at hsem
          obtain ⟨⟨hv, he⟩, hss⟩ := hsem
          subst hv he hss
          exact Correct2.weaken p f0 rest V P _ (atom_const2 p f0 rest V P FF G c (.cfun x) trivial sc rs pool ps hs hp _ _ hE)
      · rw [resolve_local c x sl u (by rw [lookupSlot_lk]; exact hl1) hc1] at hc
        simp only [fin, Option.some.injEq, Prod.mk.injEq] at hc
        obtain ⟨h1, h2⟩ := hc
        subst h1 h2
        cases n with
        | zero => simp [eval] at hsem
        | succ n =>
          rw [eval_sym_local n cur env x s a hl2] at hsem
          simp only [R.ok.injEq, Prod.mk.injEq] at hsem
          obtain ⟨⟨hv, he⟩, hss⟩ := hsem
          subst hv he hss
          exact Correct2.weaken p f0 rest V P _ (atom_local2 p f0 rest V P G c x _ u sc rs pool ps hs hp _ _ a hE hl1 hl2)
    | call f args pp hf hna hG hTa =>
      rw [cValue_call_o fuel opts ht hh f args pp c hf] at hc
      obtain ⟨q, hq⟩ := curAt_eq c pp
      cases hcc : cCall (cValue fuel) {} (.sym f) args (curAt c pp) with
      | none => rw [hcc] at hc; simp [fin] at hc
      | some res =>
        obtain ⟨slot0, cq⟩ := res
        rw [hcc] at hc
        simp only [fin, Option.some.injEq, Prod.mk.injEq] at hc
        obtain ⟨hsl, hc'⟩ := hc
        subst hsl hc'
        have hgl : lookupEnv env f = none := by
          rcases hE.2 f with ⟨_, h⟩ | ⟨sl, r, a', u, h, _⟩
          · exact h
          · rw [hE.1 f hG] at h; exact absurd h (by simp)
        obtain ⟨n2, vs, s_a, hn, hsa, happ⟩ := eval_callN_inv n cur env env' f args pp s s' v hf hgl hsem
        rw [hq] at hcc
        exact Correct2.recur p f0 rest V P (q := q) (Correct2.weaken p f0 rest V P _
          (callN_core p f0 rest V P hP hK (pushN p f0 rest V P hP hK) FF G (TF G b) w fuel ih ML (fun a h => h.notSplice) f args hna hG hTa
            { c with cur := q } cq slot0 sc rs pool ps n2 (posOf cur pp) env env' s s_a s' vs v hs hp hl htop hm hcc hsa happ hE))
    | doo body pp hT =>
      rw [cValue_do_o fuel opts ht hh body pp c] at hc
      obtain ⟨q, hq⟩ := curAt_eq c pp
      cases hcc : cDo (cValue fuel) opts body (curAt c pp) with
      | none => rw [hcc] at hc; simp [fin] at hc
      | some res =>
        obtain ⟨slot0, cq⟩ := res
        rw [hcc] at hc
        simp only [fin, Option.some.injEq, Prod.mk.injEq] at hc
        obtain ⟨hsl, hc'⟩ := hc
        subst hsl hc'
        obtain ⟨n2, envb, hn, hseq, henv⟩ := eval_do_inv n cur env env' body pp s s' v hsem
        subst henv
        rw [hq] at hcc
        exact Correct2.recur p f0 rest V P (q := q)
          (do_core p f0 rest V P G (TF G b) w fuel ih ML body hT opts { c with cur := q } cq slot0 sc rs pool ps n2 (posOf cur pp) env' envb s s' v
            ht hh hs hp hl hm hcc hseq hE)
    | ups body pp hT =>
      rw [cValue_upscope_o fuel opts ht hh body pp c] at hc
      obtain ⟨q, hq⟩ := curAt_eq c pp
      cases hcc : doBody (cValue fuel) opts body (curAt c pp) with
      | none => rw [hcc] at hc; simp [fin] at hc
      | some res =>
        obtain ⟨slot0, cq⟩ := res
        rw [hcc] at hc
        simp only [fin, Option.some.injEq, Prod.mk.injEq] at hc
        obtain ⟨hsl, hc'⟩ := hc
        subst hsl hc'
        cases n with
        | zero => simp [eval] at hsem
        | succ n2 =>
          rw [eval_upscope] at hsem
          rw [hq] at hcc
          exact Correct2.recur p f0 rest V P (q := q)
            (doBody_correct p f0 rest V P G (TF G b) w fuel ih ML body hT opts { c with cur := q } cq slot0 sc rs pool ps n2 (posOf cur pp) env env' s s' v
              ht hh hs hp hl htop hm hcc hsem hE)
    | deff x ve pp hGx hTv =>
      rw [cValue_def_o fuel opts ht hh x ve pp c] at hc
      obtain ⟨q, hq⟩ := curAt_eq c pp
      cases hcc : cDef (cValue fuel) x ve (curAt c pp) with
      | none => rw [hcc] at hc; simp [fin] at hc
      | some res =>
        obtain ⟨slot0, cq⟩ := res
        rw [hcc] at hc
        simp only [fin, Option.some.injEq, Prod.mk.injEq] at hc
        obtain ⟨hsl, hc'⟩ := hc
        subst hsl hc'
        obtain ⟨n2, env1, s1, hn, hev, henv, hs'⟩ := eval_def_inv n cur env env' x ve pp s s' v hsem
        subst henv hs'
        rw [hq] at hcc
        exact Correct2.recur p f0 rest V P (q := q) (Correct2.weaken p f0 rest V P _
          (def_core p f0 rest V P hP hK G (TF G b) w fuel ih x ve hGx hTv { c with cur := q } cq slot0 sc rs pool ps n2 (posOf cur pp) env env1 s s1 v
            hs hp hl htop hm hcc hev hE))
    | iff cnd tb els pp hb hic hlen hTc hTt hTe =>
      obtain ⟨hw, H⟩ := IFC hb
      have := H fuel ih cnd tb els pp hic hlen hTc hTt hTe opts c c' slot sc rs pool ps n cur env env' s s' v ht hh hs hp hl htop (hm hw) hc hsem hE
      rw [hw, Bool.and_true]
      exact this

/-- the fragment without `if`: unconditional, and the value is in the result slot also under the drop flag -/
theorem tf_correct_calls (hP : P.length < 65536)
    (hK : ∀ i, i < P.length → (p.defs.getD f0.defIdx default).consts.getD i .nil = litOf V (P.getD i .nil))
    (FF : FloatFacts) (G : String → Prop) (fuel : Nat)
    (e : Expr) (opts : Fopts) (c c' : CState) (slot : JSlot) (sc : Scope) (rs : List Scope) (pool : List KConst) (ps : List (List KConst))
    (n : Nat) (cur : Pos) (env env' : Env) (s s' : SS) (v : Value)
    (ht : opts.tail = false) (hh : opts.hint = none) (hs : c.scopes = sc :: rs) (hp : c.pools = pool :: ps) (hl : c.lim ≤ 240) (htop : sc.top = false)
    (hT : TF G false e) (hc : cValue fuel opts e c = some (slot, c')) (hsem : eval n cur env e s = .ok (v, env') s')
    (hE : EnvS G c.scopes env s.boxes.size sc.ra) :
    Correct2 p f0 rest V P G false c c' slot sc rs pool ps env env' s s' v := by
  have h := tf_correct p f0 rest V P hP hK FF G false false (fun h => absurd h (by simp)) fuel e opts c c' slot sc rs pool ps n cur env env' s s' v
    ht hh hs hp hl htop (fun h => absurd h (by simp)) hT hc hsem hE
  rw [Bool.and_false] at h
  exact h

end

end JanetModel.Compile
