/- C02: `MutInj` at the exit of an UN-HINTED compile of a form of the fragment that MAY contain `def`.
   Invariant relative to a fixed set `P` of protected registers (think: the registers of the mutable names at entry):
   `PInv P scs ra` = `MutInj scs` ∧ (a resolvable local's register is in `P` iff the local is mutable) ∧ (`P` is marked in `ra`).
   Returned slots: `RetOK P s` = a local slot is a named mutable one or lies outside `P` (so `freeslot` never clears a mark of `P`
   and `namelocal` aliases only sources outside `P`). -/
import JanetModel.Compile.SeqMutInjDef
import JanetModel.Compile.SeqMutInjDefRA
namespace JanetModel.Compile
open JanetModel.Emit JanetModel.Lang JanetModel.Bytecode.Exec JanetModel.Gen.Bytecode

def PInv (P : Nat → Prop) (scs : List Scope) (ra : RA) : Prop :=
  MutInj scs ∧
  (∀ x sl u l r, lk scs x = some (sl, u, l) → sl.k = .loc r → (sl.mutable = true → P r) ∧ (sl.mutable = false → ¬ P r)) ∧
  (∀ r, P r → ra.alloc r = true)

def RetOK (P : Nat → Prop) (s : JSlot) : Prop := ∀ i, s.k = .loc i → (s.named = true ∧ s.mutable = true) ∨ ¬ P i

/-- the invariant holds at `c` (scopes below the head: `rs`) -/
def PAt (P : Nat → Prop) (c : CState) (rs : List Scope) : Prop := ∀ sc, c.scopes = sc :: rs → PInv P (sc :: rs) sc.ra

theorem PInv.of_lk {P : Nat → Prop} {scs scs' : List Scope} {ra ra' : RA} (h : PInv P scs ra) (hlk : ∀ x, lk scs' x = lk scs x)
    (hsub : ∀ r, P r → ra'.alloc r = true) : PInv P scs' ra' :=
  ⟨MutInj.of_lk hlk h.1, fun x sl u l r h1 h2 => h.2.1 x sl u l r (by rw [← hlk]; exact h1) h2, hsub⟩

theorem PAt.of_eq {P : Nat → Prop} {c c' : CState} {sc : Scope} {rs : List Scope} (hs : c.scopes = sc :: rs) (hI : PInv P (sc :: rs) sc.ra)
    (h : c'.scopes = c.scopes) : PAt P c' rs := by
  intro sc' b
  rw [h, hs] at b
  rw [← (List.cons.inj b).1]; exact hI

theorem PAt.cur {P : Nat → Prop} {c : CState} {rs : List Scope} (h : PAt P c rs) (q : Pos) : PAt P { c with cur := q } rs :=
  fun sc b => h sc b

/-- a step that only changes the head allocator, keeping the marks -/
theorem PAt.of_step {P : Nat → Prop} {c c' : CState} {sc : Scope} {rs : List Scope} {pool : List KConst} {ps : List (List KConst)}
    (hI : PInv P (sc :: rs) sc.ra) (hR : StepR c c' sc rs pool ps) (hK : ∃ sc', c'.scopes = sc' :: rs ∧ RSub sc.ra sc'.ra) : PAt P c' rs := by
  obtain ⟨ra', more, seg, segm, hc, _⟩ := hR
  obtain ⟨sc1, hs1, hsub⟩ := hK
  have e2 : sc1 = { sc with ra := ra' } := by
    have : c'.scopes = { sc with ra := ra' } :: rs := by rw [hc]
    rw [hs1] at this; exact (List.cons.inj this).1
  subst e2
  intro sc' b
  rw [hs1] at b
  rw [← (List.cons.inj b).1]
  exact hI.of_lk (fun x => lk_ra sc rs ra' x) (fun r hr => hsub r (hI.2.2 r hr))

theorem freeslot_pat {P : Nat → Prop} (c c' : CState) (s : JSlot) (sc : Scope) (rs : List Scope) (hs : c.scopes = sc :: rs)
    (hI : PInv P (sc :: rs) sc.ra) (hr : RetOK P s) (h : freeslot c s = some c') : PAt P c' rs := by
  unfold freeslot at h
  split at h
  · rw [← Option.some.inj h]; exact PAt.of_eq hs hI rfl
  · rename_i hcond
    split at h
    · rw [← Option.some.inj h]; exact PAt.of_eq hs hI rfl
    · rename_i i hk
      rw [hs] at h
      simp only [Option.some.injEq] at h
      rw [← h]
      intro sc' b
      simp only [List.cons.injEq, and_true] at b
      rw [← b]
      refine hI.of_lk (fun x => lk_ra sc rs _ x) (fun r hr' => ?_)
      have hnP : ¬ P i := by
        rcases hr i hk with ⟨hn, _⟩ | hn
        · simp [hn] at hcond
        · exact hn
      have hne : r ≠ i := fun e => hnP (e ▸ hr')
      simp [RA.unmark, hne, hI.2.2 r hr']
    · exact absurd h (by simp)

theorem freeslots_pat {P : Nat → Prop} : ∀ (ss : List JSlot) (c c' : CState) (sc : Scope) (rs : List Scope) (pool : List KConst) (ps : List (List KConst)),
    c.scopes = sc :: rs → c.pools = pool :: ps → PInv P (sc :: rs) sc.ra → (∀ s, s ∈ ss → RetOK P s) → freeslots c ss = some c' → PAt P c' rs
  | [], c, c', sc, rs, pool, ps, hs, hp, hI, _, h => by
    simp only [freeslots, Option.some.injEq] at h
    rw [← h]; exact PAt.of_eq hs hI rfl
  | s :: ss, c, c', sc, rs, pool, ps, hs, hp, hI, hr, h => by
    simp only [freeslots, Option.bind_eq_bind, Option.bind_eq_some_iff] at h
    obtain ⟨c1, h1, h2⟩ := h
    obtain ⟨sc1, pool1, hs1, hp1, _, _⟩ := (freeslot_stepR c c1 s sc rs pool ps hs hp h1).out
    have hI1 := freeslot_pat c c1 s sc rs hs hI (hr s (by simp)) h1 sc1 hs1
    exact freeslots_pat ss c1 c' sc1 rs pool1 ps hs1 hp1 hI1 (fun s' hs' => hr s' (by simp [hs'])) h2

theorem getTarget_none (c : CState) (opts : Fopts) (hh : opts.hint = none) : getTarget c opts = farslot c := by
  simp only [getTarget, hh, farslot]

theorem getTarget_pat {P : Nat → Prop} (c c' : CState) (opts : Fopts) (t : JSlot) (sc : Scope) (rs : List Scope) (hh : opts.hint = none)
    (hs : c.scopes = sc :: rs) (hl : c.lim ≤ 65536) (hI : PInv P (sc :: rs) sc.ra) (h : getTarget c opts = some (t, c')) :
    RetOK P t ∧ PAt P c' rs := by
  rw [getTarget_none c opts hh] at h
  obtain ⟨d, ra1, hls, hfree, hc1, _, hmono⟩ := farslot_fresh c c' t sc rs hs hl h
  refine ⟨?_, ?_⟩
  · intro i hi
    rw [hls] at hi
    simp only [Slot.loc.injEq] at hi
    subst hi
    right; intro hp
    have := hI.2.2 _ hp
    rw [hfree] at this
    exact absurd this (by simp)
  · intro sc' b
    rw [hc1] at b
    rw [← (List.cons.inj b).1]
    exact hI.of_lk (fun x => lk_ra sc rs ra1 x) (fun r hr => hmono r (hI.2.2 r hr))

theorem pinv_snoc {P : Nat → Prop} (sc : Scope) (rs : List Scope) (raT : RA) (pair : SymPair) (hv : pair.visible = true)
    (hmut : pair.slot.mutable = false) (d : Nat) (hk : pair.slot.k = .loc d) (hnp : ¬ P d) (hI : PInv P (sc :: rs) raT) :
    PInv P ({ sc with ra := raT, syms := sc.syms ++ [pair] } :: rs) raT := by
  refine ⟨mutinj_snoc sc rs raT pair hv hmut hI.1 (fun y sl u l hy hm hke => ?_), fun x sl u l r h1 h2 => ?_, hI.2.2⟩
  · rw [hk] at hke
    exact hnp ((hI.2.1 y sl u l d hy hke).1 hm)
  · rw [lk_def sc rs raT pair hv x] at h1
    cases hbx : (pair.name == x) with
    | true =>
      rw [hbx] at h1
      simp only [if_true, Option.some.injEq, Prod.mk.injEq] at h1
      rw [← h1.1] at h2 ⊢
      rw [hk] at h2
      simp only [Slot.loc.injEq] at h2
      subst h2
      exact ⟨fun hm => by rw [hmut] at hm; exact absurd hm (by simp), fun _ => hnp⟩
    | false =>
      rw [hbx] at h1
      simp only [Bool.false_eq_true, if_false] at h1
      exact hI.2.1 x sl u l r h1 h2

theorem namelocal_fresh_pat {P : Nat → Prop} (c c2 : CState) (name : String) (r : JSlot) (sc : Scope) (rs : List Scope)
    (pool : List KConst) (ps : List (List KConst)) (hs : c.scopes = sc :: rs) (hp : c.pools = pool :: ps) (hl : c.lim ≤ 65536)
    (hI : PInv P (sc :: rs) sc.ra)
    (h : (do let (ls, c1) ← farslot c
             let c2 ← copySlot c1 ls r
             pure (nameslot c2 name { ls with mutable := false })) = some c2) : PAt P c2 rs := by
  simp only [Option.bind_eq_bind, Option.bind_eq_some_iff, Prod.exists, Option.pure_def, Option.some.injEq] at h
  obtain ⟨ls, c1a, h1, c1b, h2, h3⟩ := h
  obtain ⟨d, ra1, hls, hfree, hc1a, _, hmono⟩ := farslot_fresh c c1a ls sc rs hs hl h1
  have hs1 : c1a.scopes = { sc with ra := ra1 } :: rs := by rw [hc1a]
  have hp1 : c1a.pools = pool :: ps := by rw [hc1a]; exact hp
  obtain ⟨ra2, more, seg, segm, hc1b, _⟩ := copySlot_stepR c1a c1b ls r _ rs pool ps hs1 hp1 h2
  have hs2 : c1b.scopes = { sc with ra := ra2 } :: rs := by rw [hc1b]
  obtain ⟨scx, hsx, hsubx⟩ := copySlot_marks c1a c1b ls r _ rs hs1 h2
  have ex : scx = { sc with ra := ra2 } := by rw [hs2] at hsx; exact ((List.cons.inj hsx).1).symm
  subst ex
  rw [← h3]
  have hsn : (nameslot c1b name { ls with mutable := false }).scopes =
      { sc with ra := ra2, syms := sc.syms ++ [{ name := name, slot := { ({ ls with mutable := false } : JSlot) with named := true } }] } :: rs := by
    simp only [nameslot, hs2]
  intro sc' b
  rw [hsn] at b
  rw [← (List.cons.inj b).1]
  have hnP : ¬ P d := fun hp' => by
    have := hI.2.2 d hp'
    rw [hfree] at this
    exact absurd this (by simp)
  have hI2 : PInv P (sc :: rs) ra2 := ⟨hI.1, hI.2.1, fun r hr => hsubx r (hmono r (hI.2.2 r hr))⟩
  exact pinv_snoc sc rs ra2 _ rfl rfl d (by rw [hls]) hnP hI2

/-- the `def` step keeps the invariant -/
theorem namelocal_pat {P : Nat → Prop} (c c2 : CState) (name : String) (r : JSlot) (sc : Scope) (rs : List Scope)
    (pool : List KConst) (ps : List (List KConst)) (hs : c.scopes = sc :: rs) (hp : c.pools = pool :: ps) (hl : c.lim ≤ 65536)
    (hI : PInv P (sc :: rs) sc.ra) (hsl : SlotSh r) (hret : RetOK P r)
    (h : namelocal c name false r = some c2) : PAt P c2 rs := by
  obtain ⟨k, cf, nm, mu, ret⟩ := r
  rcases hsl with ⟨_, kc, hk⟩ | ⟨hcf, r0, hk⟩
  · simp only at hk; subst hk
    have hX : namelocal c name false { k := .const kc, cflag := cf, named := nm, mutable := mu, returned := ret } =
        (do let (ls, c1) ← farslot c
            let c2 ← copySlot c1 ls { k := .const kc, cflag := cf, named := nm, mutable := mu, returned := ret }
            pure (nameslot c2 name { ls with mutable := false })) := by
      simp [namelocal]
    rw [hX] at h
    exact namelocal_fresh_pat c c2 name _ sc rs pool ps hs hp hl hI h
  · simp only at hk hcf; subst hk hcf
    by_cases hal : nm = true ∧ mu = false
    · obtain ⟨e1, e2⟩ := hal
      subst e1 e2
      simp [namelocal] at h
      rw [← h]
      have hsn : (nameslot c name { k := .loc r0, cflag := false, named := true, mutable := false, returned := ret }).scopes =
          { sc with ra := sc.ra, syms := sc.syms ++ [{ name := name, slot := { k := .loc r0, cflag := false, named := true, mutable := false, returned := ret } }] } :: rs := by
        simp only [nameslot, hs]
      intro sc' b
      rw [hsn] at b
      rw [← (List.cons.inj b).1]
      have hnP : ¬ P r0 := by
        rcases hret r0 rfl with ⟨_, hm⟩ | hn
        · simp at hm
        · exact hn
      exact pinv_snoc sc rs sc.ra _ rfl rfl r0 rfl hnP hI
    · have hX : namelocal c name false { k := .loc r0, cflag := false, named := nm, mutable := mu, returned := ret } =
          (do let (ls, c1) ← farslot c
              let c2 ← copySlot c1 ls { k := .loc r0, cflag := false, named := nm, mutable := mu, returned := ret }
              pure (nameslot c2 name { ls with mutable := false })) := by
        cases nm <;> cases mu <;> simp_all [namelocal]
      rw [hX] at h
      exact namelocal_fresh_pat c c2 name _ sc rs pool ps hs hp hl hI h

/-! ### block scopes: the exit state has the parent's names and at least the parent's marks -/

theorem block_pat {P : Nat → Prop} (G : String → Prop) (c c2 c3 : CState) (sc : Scope) (rs : List Scope) (pool : List KConst) (ps : List (List KConst))
    (hI : PInv P (sc :: rs) sc.ra)
    (h : Shp G { c with scopes := blk c sc false :: sc :: rs } c2 (blk c sc false) (sc :: rs) pool ps) (hpop : popScope c2 = some c3) :
    PAt P c3 rs := by
  obtain ⟨ra3, ns3, more, seg, segm, hc3, _, _, hinv, hmono, _⟩ := pop_shape2 G c c2 c3 sc rs pool ps h hpop
  intro sc' b
  rw [hc3] at b
  rw [← (List.cons.inj b).1]
  exact hI.of_lk (fun x => (lk_append_invisible { sc with ra := ra3 } rs ns3 hinv x).trans (lk_ra sc rs ra3 x)) (fun r hr => hmono r (hI.2.2 r hr))

theorem blockKeep_pat {P : Nat → Prop} (G : String → Prop) (c c2 c3 : CState) (r : JSlot) (sc : Scope) (rs : List Scope) (pool : List KConst)
    (ps : List (List KConst)) (hI : PInv P (sc :: rs) sc.ra)
    (h : Shp G { c with scopes := blk c sc false :: sc :: rs } c2 (blk c sc false) (sc :: rs) pool ps) (hpop : popScopeKeep c2 r = some c3) :
    PAt P c3 rs := by
  obtain ⟨ra2, ns2, more2, seg2, segm2, hc2, _, _, _⟩ := h
  have hs2 : c2.scopes = { blk c sc false with ra := ra2, syms := (blk c sc false).syms ++ ns2 } :: sc :: rs := by rw [hc2]
  obtain ⟨raX, hc3, _, hmono, _⟩ := popScopeKeep_block c2 c3 r _ sc rs hs2 rfl rfl rfl hpop
  intro sc' b
  rw [hc3] at b
  rw [← (List.cons.inj b).1]
  refine hI.of_lk (fun x => (lk_append_invisible { sc with ra := raX } rs _ (fun q hq => ?_) x).trans (lk_ra sc rs raX x))
    (fun r hr => hmono r (hI.2.2 r hr))
  obtain ⟨q0, _, hq0⟩ := List.mem_map.mp hq
  rw [← hq0]

/-- the invariant in a freshly pushed block scope -/
theorem pinv_push {P : Nat → Prop} (c : CState) (sc : Scope) (rs : List Scope) (hI : PInv P (sc :: rs) sc.ra) :
    PInv P (blk c sc false :: sc :: rs) (blk c sc false).ra :=
  hI.of_lk (fun x => lk_push (blk c sc false) (sc :: rs) rfl rfl rfl x) (fun r hr => hI.2.2 r hr)

/-! ### the induction -/

def PAtM (G : String → Prop) (fuel : Nat) : Prop :=
  ∀ (P : Nat → Prop) (b : Bool) (e : Expr) (opts : Fopts) (c c' : CState) (slot : JSlot) (sc : Scope) (rs : List Scope) (pool : List KConst)
    (ps : List (List KConst)),
    opts.tail = false → opts.hint = none → c.scopes = sc :: rs → c.pools = pool :: ps → sc.top = false → c.map.length = c.buf.length →
    c.lim ≤ 65536 → TF G b e → LkL G c.scopes → PInv P (sc :: rs) sc.ra → cValue fuel opts e c = some (slot, c') →
    RetOK P slot ∧ PAt P c' rs

theorem Shp.lim {G : String → Prop} {c c' : CState} {sc : Scope} {rs : List Scope} {pool : List KConst} {ps : List (List KConst)}
    (h : Shp G c c' sc rs pool ps) : c'.lim = c.lim := by
  obtain ⟨ra', ns, more, seg, segm, hc, _⟩ := h
  rw [hc]

theorem StepR.lim {c c' : CState} {sc : Scope} {rs : List Scope} {pool : List KConst} {ps : List (List KConst)}
    (h : StepR c c' sc rs pool ps) : c'.lim = c.lim := by
  obtain ⟨ra', more, seg, segm, hc, _⟩ := h
  rw [hc]

theorem toSlots_pat (G : String → Prop) (fuel : Nat) (IH : PAtM G fuel) (P : Nat → Prop) (b : Bool) : ∀ (args : List Expr), (∀ a, a ∈ args → TF G b a) →
    ∀ (c c' : CState) (slots : List JSlot) (sc : Scope) (rs : List Scope) (pool : List KConst) (ps : List (List KConst)),
      c.scopes = sc :: rs → c.pools = pool :: ps → sc.top = false → c.map.length = c.buf.length → c.lim ≤ 65536 → LkL G c.scopes →
      PInv P (sc :: rs) sc.ra → toSlots (cValue fuel) args c = some (slots, c') → (∀ s, s ∈ slots → RetOK P s) ∧ PAt P c' rs := by
  intro args
  induction args with
  | nil =>
    intro _ c c' slots sc rs pool ps hs _ _ _ _ _ hI h
    simp only [toSlots, Option.some.injEq, Prod.mk.injEq] at h
    rw [← h.2, ← h.1]; exact ⟨fun s hs' => by simp at hs', PAt.of_eq hs hI rfl⟩
  | cons a as ih =>
    intro hT c c' slots sc rs pool ps hs hp htop hm hl hL hI h
    simp only [toSlots, Option.bind_eq_bind, Option.bind_eq_some_iff, Prod.exists, Option.pure_def, Option.some.injEq, Prod.mk.injEq] at h
    obtain ⟨sl1, c1, hx, ss, c2, hrest, hsl, hc2⟩ := h
    rw [← hc2, ← hsl]
    have S1 := (tf_shapeM_at G fuel b a {} c c1 sl1 sc rs pool ps rfl rfl hs hp htop hm (hT a (by simp)) hL hx).1
    obtain ⟨sc1, pool1, hs1, hp1, ht1, hL1, _⟩ := S1.out
    obtain ⟨r1, M1⟩ := IH P b a {} c c1 sl1 sc rs pool ps rfl rfl hs hp htop hm hl (hT a (by simp)) hL hI hx
    obtain ⟨r2, M2⟩ := ih (fun e he => hT e (by simp [he])) c1 c2 ss sc1 rs pool1 ps hs1 hp1 (by rw [ht1]; exact htop) (S1.mapLen hm)
      (by rw [S1.lim]; exact hl) hL1 (M1 sc1 hs1) hrest
    refine ⟨fun s hs' => ?_, M2⟩
    rcases List.mem_cons.mp hs' with e | e
    · rw [e]; exact r1
    · exact r2 s e

theorem cCall_pat (G : String → Prop) (fuel : Nat) (IH : PAtM G fuel) (P : Nat → Prop) (b : Bool) (f : String) (args : List Expr)
    (hTa : ∀ a, a ∈ args → TF G b a) (c cq : CState) (slot : JSlot) (sc : Scope) (rs : List Scope) (pool : List KConst) (ps : List (List KConst))
    (hs : c.scopes = sc :: rs) (hp : c.pools = pool :: ps) (htop : sc.top = false) (hm : c.map.length = c.buf.length) (hl : c.lim ≤ 65536)
    (hL : LkL G c.scopes) (hI : PInv P (sc :: rs) sc.ra)
    (h : cCall (cValue fuel) {} (.sym f) args c = some (slot, cq)) : RetOK P slot ∧ PAt P cq rs := by
  obtain ⟨head, c1, slots, c2, c3, cT, c4, c5, h1, h2, h3, hT, hEm, hf1, hf2⟩ := cCall_steps (cValue fuel) f args c cq slot h
  have S1 := (tf_shapeM_at G fuel b (.sym f) {} c c1 head sc rs pool ps rfl rfl hs hp htop hm (.sym f) hL h1).1
  obtain ⟨sc1, pool1, hs1, hp1, ht1, hL1, _⟩ := S1.out
  have hm1 := S1.mapLen hm
  have htop1 : sc1.top = false := by rw [ht1]; exact htop
  have hl1 : c1.lim ≤ 65536 := by rw [S1.lim]; exact hl
  have S2 := toSlots_shapeM G fuel (tf_shapeM_at G fuel) b args hTa c1 c2 slots sc1 rs pool1 ps hs1 hp1 htop1 hm1 hL1 h2
  obtain ⟨sc2, pool2, hs2, hp2, _, _, _⟩ := S2.out
  have hl2 : c2.lim ≤ 65536 := by rw [S2.lim]; exact hl1
  have R3 := pushSlots_stepR slots c2 c3 sc2 rs pool2 ps hs2 hp2 h3
  obtain ⟨sc3, pool3, hs3, hp3, _, _⟩ := R3.out
  have hl3 : c3.lim ≤ 65536 := by rw [R3.lim]; exact hl2
  have R4 := getTarget_stepR c3 cT {} slot rfl sc3 rs pool3 ps hs3 hp3 hT
  obtain ⟨sc4, pool4, hs4, hp4, _, _⟩ := R4.out
  have R5 := emitSS_stepR cT c4 _ slot head true sc4 rs pool4 ps hs4 hp4 hEm
  obtain ⟨sc5, pool5, hs5, hp5, _, _⟩ := R5.out
  have R6 := freeslots_stepR slots c4 c5 sc5 rs pool5 ps hs5 hp5 hf1
  obtain ⟨sc6, pool6, hs6, hp6, _, _⟩ := R6.out
  obtain ⟨rh, M1⟩ := IH P b (.sym f) {} c c1 head sc rs pool ps rfl rfl hs hp htop hm hl (.sym f) hL hI h1
  obtain ⟨rsl, M2⟩ := toSlots_pat G fuel IH P b args hTa c1 c2 slots sc1 rs pool1 ps hs1 hp1 htop1 hm1 hl1 hL1 (M1 sc1 hs1) h2
  have M3 := PAt.of_step (M2 sc2 hs2) R3 (pushSlots_marks slots c2 c3 sc2 rs hs2 h3)
  obtain ⟨rt, M4⟩ := getTarget_pat c3 cT {} slot sc3 rs rfl hs3 hl3 (M3 sc3 hs3) hT
  have M5 := PAt.of_step (M4 sc4 hs4) R5 (emitSS_marks cT c4 _ slot head true sc4 rs hs4 hEm)
  have M6 := freeslots_pat slots c4 c5 sc5 rs pool5 ps hs5 hp5 (M5 sc5 hs5) rsl hf1
  exact ⟨rt, freeslot_pat c5 cq head sc6 rs hs6 (M6 sc6 hs6) rh hf2⟩

theorem doBody_pat (G : String → Prop) (fuel : Nat) (IH : PAtM G fuel) (P : Nat → Prop) (b : Bool) : ∀ (body : List Expr), (∀ e, e ∈ body → TF G b e) →
    ∀ (opts : Fopts) (c c' : CState) (slot : JSlot) (sc : Scope) (rs : List Scope) (pool : List KConst) (ps : List (List KConst)),
      opts.tail = false → opts.hint = none → c.scopes = sc :: rs → c.pools = pool :: ps → sc.top = false → c.map.length = c.buf.length →
      c.lim ≤ 65536 → LkL G c.scopes → PInv P (sc :: rs) sc.ra → doBody (cValue fuel) opts body c = some (slot, c') →
      RetOK P slot ∧ PAt P c' rs := by
  intro body
  induction body with
  | nil =>
    intro _ opts c c' slot sc rs pool ps _ _ hs _ _ _ _ _ hI h
    simp only [doBody, Option.some.injEq, Prod.mk.injEq] at h
    rw [← h.2, ← h.1]
    exact ⟨fun i hi => by simp [cslot] at hi, PAt.of_eq hs hI rfl⟩
  | cons x t ih =>
    intro hT opts c c' slot sc rs pool ps ht hh hs hp htop hm hl hL hI h
    cases t with
    | nil =>
      simp only [doBody] at h
      exact IH P b x opts c c' slot sc rs pool ps ht hh hs hp htop hm hl (hT x (by simp)) hL hI h
    | cons y r =>
      simp only [doBody, Option.bind_eq_bind, Option.bind_eq_some_iff, Prod.exists] at h
      obtain ⟨sl1, c1, hx, c1f, hf, hrest⟩ := h
      have S1 := (tf_shapeM_at G fuel b x { drop := true } c c1 sl1 sc rs pool ps rfl rfl hs hp htop hm (hT x (by simp)) hL hx).1
      obtain ⟨sc1, pool1, hs1, hp1, ht1, hL1, _⟩ := S1.out
      have R2 := freeslot_stepR c1 c1f sl1 sc1 rs pool1 ps hs1 hp1 hf
      have S2 := R2.shp hs1 hL1
      obtain ⟨sc2, pool2, hs2, hp2, ht2, hL2, _⟩ := S2.out
      obtain ⟨r1, M1⟩ := IH P b x { drop := true } c c1 sl1 sc rs pool ps rfl rfl hs hp htop hm hl (hT x (by simp)) hL hI hx
      have M2 := freeslot_pat c1 c1f sl1 sc1 rs hs1 (M1 sc1 hs1) r1 hf
      exact ih (fun e he => hT e (by simp [he])) opts c1f c' slot sc2 rs pool2 ps ht hh hs2 hp2
        (by rw [ht2, ht1]; exact htop) (S2.mapLen (S1.mapLen hm)) (by rw [R2.lim, S1.lim]; exact hl) hL2 (M2 sc2 hs2) hrest

theorem if_pat (G : String → Prop) (fuel : Nat) (P : Nat → Prop) (b : Bool) (cnd tb fb : Expr)
    (hTc : TF G b cnd) (hTt : TF G b tb) (hTf : TF G b fb) (opts : Fopts) (ht : opts.tail = false) (hh : opts.hint = none)
    (c c' : CState) (slot : JSlot) (sc : Scope) (rs : List Scope) (pool : List KConst) (ps : List (List KConst))
    (hs : c.scopes = sc :: rs) (hp : c.pools = pool :: ps) (hm : c.map.length = c.buf.length) (hl : c.lim ≤ 65536) (hL : LkL G c.scopes)
    (hI : PInv P (sc :: rs) sc.ra)
    (hc : cIfBody (cValue fuel) opts cnd tb fb c = some (slot, c')) : RetOK P slot ∧ PAt P c' rs := by
  have IH := tf_shapeM_at G fuel
  obtain ⟨target, c1, cond, c3, hT, hcond, hrest⟩ := cIfBody_inv _ opts cnd tb fb c c' slot hc
  have hT' : StepR c c1 sc rs pool ps ∧ RetOK P target ∧ PAt P c1 rs := by
    split at hT
    · simp only [Option.some.injEq, Prod.mk.injEq] at hT
      rw [← hT.2, ← hT.1]
      exact ⟨StepR.refl c sc rs pool ps hs hp, fun i hi => by simp [cslot] at hi, PAt.of_eq hs hI rfl⟩
    · exact ⟨getTarget_stepR c c1 opts target hh sc rs pool ps hs hp hT, getTarget_pat c c1 opts target sc rs hh hs hl hI hT⟩
  obtain ⟨R0, rT, M0⟩ := hT'
  have S0 := R0.shp hs hL
  have hm1 := R0.mapLen hm
  obtain ⟨sc1, pool1, hs1, hp1, _, hL1, _⟩ := S0.out
  have hI1 := M0 sc1 hs1
  rw [pushScope_blk c1 sc1 rs false hs1] at hcond
  have hLP : LkL G (blk c1 sc1 false :: sc1 :: rs) := by
    rw [hs1] at hL1; exact hL1.push _ rfl rfl
  obtain ⟨S1, _⟩ := IH b cnd {} { c1 with scopes := blk c1 sc1 false :: sc1 :: rs } c3 cond (blk c1 sc1 false) (sc1 :: rs) pool1 ps
    rfl rfl rfl hp1 rfl hm1 hTc hLP hcond
  have hm3 : c3.map.length = c3.buf.length := S1.mapLen hm1
  obtain ⟨sc3, pool3, hs3, hp3, _, hL3, _⟩ := S1.out
  cases hk : isConstSlot cond with
  | some k =>
    rw [hk] at hrest
    simp only at hrest
    obtain ⟨right, c5, c6, c7, c8, e1, e2, e3, e4, e5, eslot⟩ := cIfConst_inv _ _ _ _ _ _ _ _ _ hrest
    have hTl : TF G b (if constTruthy k then tb else fb) := by split <;> assumption
    have hTd : TF G b (if constTruthy k then fb else tb) := by split <;> assumption
    obtain ⟨dead, hdead⟩ : ∃ d, d = (if constTruthy k then fb else tb) := ⟨_, rfl⟩
    rw [← hdead] at e4 hTd
    have S7 := branch_shapeM G fuel IH b _ hTl opts ht hh target c3 c5 c6 c7 right sc3 (sc1 :: rs) pool3 ps hs3 hp3 hm3 hL3 e1 e2 e3
    have hm7 := S7.mapLen hm3
    obtain ⟨sc7, pool7, hs7, hp7, _, hL7, _⟩ := S7.out
    have S8 : Shp G c7 c8 sc7 (sc1 :: rs) pool7 ps := by
      split at e4
      · rw [← Option.some.inj e4]; exact Shp.refl hs7 hp7 hL7
      · refine throwaway_shape G _ opts _ c7 c8 sc7 (sc1 :: rs) pool7 ps hs7 hL7 hm7 (fun c2 sl h => ?_) e4
        have hLT : LkL G (blk c7 sc7 true :: sc7 :: sc1 :: rs) := by
          rw [hs7] at hL7; exact hL7.push _ rfl rfl
        exact (IH b _ opts { c7 with scopes := blk c7 sc7 true :: sc7 :: sc1 :: rs } c2 sl (blk c7 sc7 true) (sc7 :: sc1 :: rs) pool7 ps
          ht hh rfl hp7 rfl hm7 hTd hLT h).1
    have Sblock := S1.trans' hs3 hp3 (S7.trans' hs7 hp7 S8)
    rw [← eslot]
    exact ⟨rT, block_pat G c1 c8 c' sc1 rs pool1 ps hI1 Sblock e5⟩
  | none =>
    rw [hk] at hrest
    simp only at hrest
    obtain ⟨c4, left, c6, c7, c8, right, c11, c12, c13, c14, e1, e2, e3, e4, e5, e6, e7, e8, _, _, _, eslot, ec'⟩ :=
      cIfJump_inv _ _ _ _ _ _ _ _ _ _ hrest
    obtain ⟨R4, _⟩ := emitSI_stepR c3 c4 _ cond 0 false sc3 (sc1 :: rs) pool3 ps hs3 hp3 e1
    have S4 := R4.shp hs3 hL3
    have hm4 := R4.mapLen hm3
    obtain ⟨sc4, pool4, hs4, hp4, _, hL4, _⟩ := S4.out
    have S8 := branch_shapeM G fuel IH b tb hTt opts ht hh target c4 c6 c7 c8 left sc4 (sc1 :: rs) pool4 ps hs4 hp4 hm4 hL4 e2 e3 e4
    have hm8 := S8.mapLen hm4
    obtain ⟨sc8, pool8, hs8, hp8, _, hL8, _⟩ := S8.out
    have R9 : StepR c8 (ifJmp (opts.drop && fbNilOf fb) c8) sc8 (sc1 :: rs) pool8 ps := by
      unfold ifJmp
      split
      · exact StepR.refl c8 sc8 _ pool8 ps hs8 hp8
      · exact emitRaw_stepR c8 _ sc8 _ pool8 ps hs8 hp8
    have S9 := R9.shp hs8 hL8
    have hm9 := R9.mapLen hm8
    obtain ⟨sc9, pool9, hs9, hp9, _, hL9, _⟩ := S9.out
    have S13 := branch_shapeM G fuel IH b fb hTf opts ht hh target _ c11 c12 c13 right sc9 (sc1 :: rs) pool9 ps hs9 hp9 hm9 hL9 e5 e6 e7
    have Sblock := S1.trans' hs3 hp3 (S4.trans' hs4 hp4 (S8.trans' hs8 hp8 (S9.trans' hs9 hp9 S13)))
    have M14 := block_pat G c1 c13 c14 sc1 rs pool1 ps hI1 Sblock e8
    rw [ec', eslot]
    exact ⟨fun i hi => rT i hi, fun sc0 a => M14 sc0 a⟩

theorem tf_pat_at (G : String → Prop) : ∀ fuel, PAtM G fuel := by
  intro fuel
  induction fuel with
  | zero =>
    intro P b e opts c c' slot sc rs pool ps _ _ _ _ _ _ _ _ _ _ hc
    simp [cValue] at hc
  | succ fuel ih =>
    intro P b e opts c c' slot sc rs pool ps ht hh hs hp htop hm hl hT hL hI hc
    cases hT with
    | lit w hw =>
      rw [cValue_lit_o fuel opts ht hh w hw c] at hc
      simp only [Option.some.injEq, Prod.mk.injEq] at hc
      obtain ⟨h1, h2⟩ := hc
      rw [← h1, ← h2]
      refine ⟨fun i hi => ?_, PAt.of_eq hs hI ?_⟩
      · have : (constSlot c w).1.k = Slot.const (kOf c w).1 := rfl
        rw [this] at hi
        exact absurd hi (by simp)
      · show (kOf c w).2.scopes = _
        rw [(kOf_shape c w).1]
    | sym x =>
      rw [cValue_sym_o fuel opts ht hh] at hc
      cases hlk : lk c.scopes x with
      | none =>
        rw [resolve_global c x (by rw [lookupSlot_lk]; exact hlk)] at hc
        have hg : globalSlot c x = some (constSlot c (.cfun x)) := by
          unfold globalSlot at hc ⊢
          split at hc <;> simp_all [fin]
        rw [hg] at hc
        simp only [fin, Option.some.injEq, Prod.mk.injEq] at hc
        obtain ⟨h1, h2⟩ := hc
        rw [← h1, ← h2]
        refine ⟨fun i hi => ?_, PAt.of_eq hs hI ?_⟩
        · have : (constSlot c (.cfun x)).1.k = Slot.const (kOf c (.cfun x)).1 := rfl
          rw [this] at hi
          exact absurd hi (by simp)
        · show (kOf c (.cfun x)).2.scopes = _
          rw [(kOf_shape c (.cfun x)).1]
      | some r =>
        obtain ⟨sl, u, l⟩ := r
        obtain ⟨hl', hcf, hk, hnm⟩ := hL.2 x sl u l hlk
        subst hl'
        rw [resolve_local c x sl u (by rw [lookupSlot_lk]; exact hlk) hcf] at hc
        simp only [fin, Option.some.injEq, Prod.mk.injEq] at hc
        obtain ⟨h1, h2⟩ := hc
        rw [← h1, ← h2]
        refine ⟨fun i hi => ?_, PAt.of_eq hs hI rfl⟩
        rw [hs] at hlk
        cases hmu : sl.mutable with
        | true => exact Or.inl ⟨hnm, rfl⟩
        | false => exact Or.inr ((hI.2.1 x sl u true i hlk hi).2 hmu)
    | call f args pp hf hna hG hTa =>
      rw [cValue_call_o fuel opts ht hh f args pp c hf] at hc
      obtain ⟨q, hq⟩ := curAt_eq c pp
      cases hcc : cCall (cValue fuel) {} (.sym f) args (curAt c pp) with
      | none => rw [hcc] at hc; simp [fin] at hc
      | some res =>
        obtain ⟨slot0, cq⟩ := res
        rw [hcc] at hc
        simp only [fin, Option.some.injEq, Prod.mk.injEq] at hc
        obtain ⟨hsl, hc'⟩ := hc
        rw [← hsl, ← hc']
        rw [hq] at hcc
        obtain ⟨S, M⟩ := cCall_pat G fuel ih P b f args hTa { c with cur := q } cq slot0 sc rs pool ps hs hp htop hm hl hL hI hcc
        exact ⟨S, M.cur _⟩
    | doo body pp hTb =>
      rw [cValue_do_o fuel opts ht hh body pp c] at hc
      obtain ⟨q, hq⟩ := curAt_eq c pp
      cases hcc : cDo (cValue fuel) opts body (curAt c pp) with
      | none => rw [hcc] at hc; simp [fin] at hc
      | some res =>
        obtain ⟨slot0, cq⟩ := res
        rw [hcc] at hc
        simp only [fin, Option.some.injEq, Prod.mk.injEq] at hc
        obtain ⟨hsl, hc'⟩ := hc
        rw [← hsl, ← hc']
        rw [hq] at hcc
        simp only [cDo, Option.bind_eq_bind, Option.bind_eq_some_iff, Prod.exists, Option.pure_def, Option.some.injEq, Prod.mk.injEq] at hcc
        obtain ⟨r, c2, hbody, c3, hpop, hslot, hc3⟩ := hcc
        rw [← hslot, ← hc3]
        rw [pushScope_blk { c with cur := q } sc rs false hs] at hbody
        have hLP : LkL G (blk { c with cur := q } sc false :: sc :: rs) := by
          rw [hs] at hL; exact hL.push _ rfl rfl
        have S1 := (doBody_shapeM G fuel (tf_shapeM_at G fuel) b body hTb opts
          { ({ c with cur := q } : CState) with scopes := (blk { c with cur := q } sc false :: sc :: rs) } c2 r (blk { c with cur := q } sc false)
          (sc :: rs) pool ps ht hh rfl hp rfl hm hLP hbody).1
        obtain ⟨rr, _⟩ := doBody_pat G fuel ih P b body hTb opts
          { ({ c with cur := q } : CState) with scopes := (blk { c with cur := q } sc false :: sc :: rs) } c2 r (blk { c with cur := q } sc false)
          (sc :: rs) pool ps ht hh rfl hp rfl hm hl hLP (pinv_push { c with cur := q } sc rs hI) hbody
        exact ⟨rr, (blockKeep_pat G { c with cur := q } c2 c3 r sc rs pool ps hI S1 hpop).cur _⟩
    | ups body pp hTb =>
      rw [cValue_upscope_o fuel opts ht hh body pp c] at hc
      obtain ⟨q, hq⟩ := curAt_eq c pp
      cases hcc : doBody (cValue fuel) opts body (curAt c pp) with
      | none => rw [hcc] at hc; simp [fin] at hc
      | some res =>
        obtain ⟨slot0, cq⟩ := res
        rw [hcc] at hc
        simp only [fin, Option.some.injEq, Prod.mk.injEq] at hc
        obtain ⟨hsl, hc'⟩ := hc
        rw [← hsl, ← hc']
        rw [hq] at hcc
        obtain ⟨S, M⟩ := doBody_pat G fuel ih P b body hTb opts { c with cur := q } cq slot0 sc rs pool ps ht hh hs hp htop hm hl hL hI hcc
        exact ⟨S, M.cur _⟩
    | deff x ve pp hGx hTv =>
      rw [cValue_def_o fuel opts ht hh x ve pp c] at hc
      obtain ⟨q, hq⟩ := curAt_eq c pp
      cases hcc : cDef (cValue fuel) x ve (curAt c pp) with
      | none => rw [hcc] at hc; simp [fin] at hc
      | some res =>
        obtain ⟨slot0, cq⟩ := res
        rw [hcc] at hc
        simp only [fin, Option.some.injEq, Prod.mk.injEq] at hc
        obtain ⟨hsl, hc'⟩ := hc
        rw [← hsl, ← hc']
        rw [hq] at hcc
        have hct : curTop { c with cur := q } = false := by simp [curTop, hs, htop]
        simp only [cDef, hct, Bool.false_eq_true, if_false, Option.bind_eq_bind, Option.bind_eq_some_iff, Prod.exists, Option.pure_def,
          Option.some.injEq, Prod.mk.injEq] at hcc
        obtain ⟨r, c1, hv, c2, hnl, hslot, hc2⟩ := hcc
        rw [← hslot, ← hc2]
        obtain ⟨S1, hsh⟩ := tf_shapeM_at G fuel b ve {} { c with cur := q } c1 r sc rs pool ps rfl rfl hs hp htop hm hTv hL hv
        obtain ⟨sc1, pool1, hs1, hp1, _, _, _⟩ := S1.out
        obtain ⟨rr, M1⟩ := ih P b ve {} { c with cur := q } c1 r sc rs pool ps rfl rfl hs hp htop hm hl hTv hL hI hv
        have M2 := namelocal_pat c1 c2 x r sc1 rs pool1 ps hs1 hp1 (by rw [S1.lim]; exact hl) (M1 sc1 hs1) hsh rr hnl
        exact ⟨rr, M2.cur _⟩
    | iff cnd tb rest pp _ _ hlen hTc hTt hTe =>
      rw [cValue_if_o fuel opts ht hh cnd tb rest pp c, cIf_le1 _ _ _ _ _ _ hlen] at hc
      obtain ⟨q, hq⟩ := curAt_eq c pp
      cases hcc : cIfBody (cValue fuel) opts cnd tb (rest.headD (.lit .nil)) (curAt c pp) with
      | none => rw [hcc] at hc; simp [fin] at hc
      | some res =>
        obtain ⟨slot0, cq⟩ := res
        rw [hcc] at hc
        simp only [fin, Option.some.injEq, Prod.mk.injEq] at hc
        obtain ⟨hsl, hc'⟩ := hc
        rw [← hsl, ← hc']
        rw [hq] at hcc
        have hTf : TF G b (rest.headD (.lit .nil)) := by
          cases rest with
          | nil => exact .lit .nil trivial
          | cons e _ => exact hTe e (by simp)
        obtain ⟨S, M⟩ := if_pat G fuel P b cnd tb _ hTc hTt hTf opts ht hh { c with cur := q } cq slot0 sc rs pool ps hs hp hm hl hL hI hcc
        exact ⟨S, M.cur _⟩

end JanetModel.Compile
