/- C02: `Lang/Sem.eval` on the forms of the call fragment, unfolded once. -/
import JanetModel.Compile.Pieces
namespace JanetModel.Compile
open JanetModel.Emit JanetModel.Lang JanetModel.Bytecode.Exec JanetModel.Gen.Bytecode

theorem eval_lit (n : Nat) (cur : Pos) (env : Env) (v : Value) (s : SS) : eval (n + 1) cur env (.lit v) s = .ok (v, env) s := by
  simp only [eval]

theorem eval_sym_global (n : Nat) (cur : Pos) (env : Env) (x : String) (s : SS) (h : lookupEnv env x = none) :
    eval (n + 1) cur env (.sym x) s = .ok (.cfun x, env) s := by
  simp only [eval, h]

theorem eval_sym_local (n : Nat) (cur : Pos) (env : Env) (x : String) (s : SS) (a : Nat) (h : lookupEnv env x = some a) :
    eval (n + 1) cur env (.sym x) s = .ok (readBox s a, env) s := by
  simp only [eval, h]

/-- a form whose head symbol is not a special form is a call -/
theorem eval_call (n : Nat) (cur : Pos) (env : Env) (f : String) (args : List Expr) (p : Pos) (s : SS) (hf : specials.contains f = false) :
    eval (n + 1) cur env (.form (.sym f :: args) p) s =
      (match eval n (posOf cur p) env (.sym f) s with
       | .ok (fv, env1) s1 =>
         match evalArgs n (posOf cur p) env1 args s1 with
         | .ok (vs, env2) s2 =>
           match applyFn n (posOf cur p) fv vs s2 with
           | .ok v s3 => .ok (v, env2) s3
           | .err v p s3 => .err v p s3 | .brk v s3 => .brk v s3 | .stop w => .stop w
         | .err v p s' => .err v p s' | .brk v s' => .brk v s' | .stop w => .stop w
       | r => r) := by
  simp only [specials, List.contains_cons, List.contains_nil, Bool.or_false, Bool.or_eq_false_iff, beq_eq_false_iff_ne, ne_eq] at hf
  obtain ⟨h1, h2, h3, h4, h5, h6, h7, h8, h9, h10, h11, h12, h13⟩ := hf
  rw [eval] <;> first | (intros; simp_all; done) | rfl

end JanetModel.Compile
