/- C02: the emit-layer wrappers never clear an allocator mark that was set before the call. -/
import JanetModel.Compile.SeqShapeBase
namespace JanetModel.Compile
open JanetModel.Emit JanetModel.Lang JanetModel.Bytecode.Exec JanetModel.Gen.Bytecode

/-- every register marked in `a` is marked in `b` -/
def RSub (a b : RA) : Prop := ∀ r, a.alloc r = true → b.alloc r = true

theorem RSub.refl (a : RA) : RSub a a := fun _ h => h

theorem RSub.of_alloc {ra0 ra ra' : RA} (h : RSub ra0 ra) (e : ra'.alloc = ra.alloc) : RSub ra0 ra' :=
  fun j hj => by rw [e]; exact h j hj

theorem RSub.mark {ra0 ra : RA} (h : RSub ra0 ra) (r : Nat) : RSub ra0 (ra.mark r) := by
  intro j hj
  simp only [RA.mark]
  split
  · rfl
  · exact h j hj

theorem RSub.unmark {ra0 ra : RA} (h : RSub ra0 ra) (r : Nat) (hr : ra0.alloc r = false) : RSub ra0 (ra.unmark r) := by
  intro j hj
  simp only [RA.unmark]
  split
  · next e => subst e; rw [hr] at hj; exact absurd hj (by simp)
  · exact h j hj

theorem alloc1_rsub {ra0 ra : RA} (h : RSub ra0 ra) :
    RSub ra0 ra.alloc1.2 ∧ (ra.alloc1.1 < 0xF0 → ra0.alloc ra.alloc1.1 = false) := by
  refine ⟨(h.mark _).of_alloc rfl, ?_⟩
  intro hlt
  simp only [RA.alloc1] at hlt ⊢
  have hfree := firstFit_lt_free ra searchFuel 0 (by have : searchFuel = 70000 := rfl; omega)
  simp only [RA.taken, Bool.or_eq_false_iff] at hfree
  cases hh : ra0.alloc (firstFit ra searchFuel 0) with
  | false => rfl
  | true => have := h _ hh; rw [hfree.1] at this; exact absurd this (by simp)

theorem allocTemp_rsub {ra0 ra : RA} (h : RSub ra0 ra) (tag : Nat) :
    RSub ra0 (ra.allocTemp tag).2 ∧ ((ra.allocTemp tag).1 < 0xF0 → ra0.alloc (ra.allocTemp tag).1 = false) := by
  have h1 : RSub ra0 ({ ra with temps := fun j => if j = tag then true else ra.temps j } : RA) := h.of_alloc rfl
  obtain ⟨a, b⟩ := alloc1_rsub h1
  unfold RA.allocTemp
  simp only []
  split
  · exact ⟨a.of_alloc rfl, fun hlt => by omega⟩
  · exact ⟨a, b⟩

theorem freeTemp_rsub {ra0 ra : RA} (h : RSub ra0 ra) (t tag : Nat) (ht : t < 0xF0 → ra0.alloc t = false) :
    RSub ra0 (ra.freeTemp t tag) := by
  have h1 : RSub ra0 ({ ra with temps := fun j => if j = tag then false else ra.temps j } : RA) := h.of_alloc rfl
  unfold RA.freeTemp
  simp only []
  split
  · next hlt => exact h1.unmark t (ht hlt)
  · exact h1

/-- what `freeNear` needs of a register obtained for slot `s`: either releasing it clears no mark of `ra0`, or it is the slot's
    own local register (then `freeNear` does nothing) -/
def TOk (ra0 : RA) (s : Slot) (t : Nat) : Prop := (t < 0xF0 → ra0.alloc t = false) ∨ (s.isLocal = true ∧ t = s.index)

theorem nearTemp_rsub {ra0 ra : RA} (h : RSub ra0 ra) (s : Slot) (tag : Nat) :
    RSub ra0 (W.nearTemp ra s tag).2 ∧ TOk ra0 s (W.nearTemp ra s tag).1 := by
  unfold W.nearTemp
  split
  · exact ⟨(allocTemp_rsub h tag).1, Or.inl (allocTemp_rsub h tag).2⟩
  · next hn =>
    refine ⟨h, Or.inr ⟨?_, rfl⟩⟩
    cases s <;> simp_all [W.needTemp, Slot.nearLocal, Slot.isLocal]

theorem freeNear_rsub {ra0 ra : RA} (h : RSub ra0 ra) (s : Slot) (t tag : Nat) (ht : TOk ra0 s t) :
    RSub ra0 (W.freeNear ra s t tag) := by
  unfold W.freeNear
  split
  · exact h
  · next hn =>
    rcases ht with ht | ⟨a, b⟩
    · exact freeTemp_rsub h t tag ht
    · exact absurd (by simp [a, b]) hn

theorem farTemp_rsub {ra0 ra : RA} (h : RSub ra0 ra) (s : Slot) (tag : Nat) :
    RSub ra0 (W.farTemp ra s tag).2.2.2 ∧ TOk ra0 s (W.farTemp ra s tag).2.2.1 := by
  unfold W.farTemp
  split
  · next hl => exact ⟨h, Or.inr ⟨hl, rfl⟩⟩
  · obtain ⟨a, b⟩ := allocTemp_rsub h tag
    rcases hh : ra.allocTemp tag with ⟨t, ra1⟩
    rw [hh] at a b
    simp only at a b ⊢
    split
    · next hge =>
      obtain ⟨a2, b2⟩ := alloc1_rsub a
      rcases hh2 : ra1.alloc1 with ⟨fr, ra2⟩
      rw [hh2] at a2 b2
      simp only at a2 b2 ⊢
      exact ⟨freeTemp_rsub a2 t tag (fun hlt => by omega), Or.inl b2⟩
    · exact ⟨(freeTemp_rsub a t tag b).mark t, Or.inl b⟩

theorem backTemp_rsub {ra0 ra : RA} (h : RSub ra0 ra) (wr : Bool) (s : Slot) : RSub ra0 (W.backTemp ra wr s).2 := by
  unfold W.backTemp
  split
  · obtain ⟨a, b⟩ := allocTemp_rsub h 5
    rcases hh : ra.allocTemp 5 with ⟨t, ra1⟩
    rw [hh] at a b
    exact freeTemp_rsub a t 5 b
  · exact h

theorem W_emitS_rsub (e : Emit.C) (op : Nat) (wr : Bool) (s : Slot) : RSub e.ra (W.emitS e op wr s).ra := by
  obtain ⟨a1, b1⟩ := farTemp_rsub (RSub.refl e.ra) s 0
  unfold W.emitS
  rcases hh : W.farTemp e.ra s 0 with ⟨t0, fr, r, ra1⟩
  rw [hh] at a1 b1
  simp only at a1 b1 ⊢
  have a2 := backTemp_rsub a1 wr s
  rcases hh2 : W.backTemp ra1 wr s with ⟨t5, ra2⟩
  rw [hh2] at a2
  exact freeNear_rsub a2 s r 0 b1

theorem W_emitSI_rsub (e : Emit.C) (op : Nat) (wr : Bool) (s : Slot) (imm : Nat) : RSub e.ra (W.emitSI e op wr s imm).ra := by
  obtain ⟨a1, b1⟩ := nearTemp_rsub (RSub.refl e.ra) s 0
  unfold W.emitSI
  rcases hh : W.nearTemp e.ra s 0 with ⟨t0, ra1⟩
  rw [hh] at a1 b1
  simp only at a1 b1 ⊢
  have a2 := backTemp_rsub a1 wr s
  rcases hh2 : W.backTemp ra1 wr s with ⟨t5, ra2⟩
  rw [hh2] at a2
  exact freeNear_rsub a2 s t0 0 b1

theorem W_emitSS_rsub (e : Emit.C) (op : Nat) (wr : Bool) (s1 s2 : Slot) : RSub e.ra (W.emitSS e op wr s1 s2).ra := by
  obtain ⟨a1, b1⟩ := nearTemp_rsub (RSub.refl e.ra) s1 0
  unfold W.emitSS
  rcases hh : W.nearTemp e.ra s1 0 with ⟨t0, ra1⟩
  rw [hh] at a1 b1
  simp only at a1 b1 ⊢
  obtain ⟨a2, b2⟩ := farTemp_rsub a1 s2 1
  rcases hh2 : W.farTemp ra1 s2 1 with ⟨t1, fr, r2, ra2⟩
  rw [hh2] at a2 b2
  simp only at a2 b2 ⊢
  have a3 := freeNear_rsub a2 s2 r2 1 b2
  have a4 := backTemp_rsub a3 wr s1
  rcases hh4 : W.backTemp (W.freeNear ra2 s2 r2 1) wr s1 with ⟨t5, ra4⟩
  rw [hh4] at a4
  exact freeNear_rsub a4 s1 t0 0 b1

theorem W_emitSSS_rsub (e : Emit.C) (op : Nat) (wr : Bool) (s1 s2 s3 : Slot) : RSub e.ra (W.emitSSS e op wr s1 s2 s3).ra := by
  obtain ⟨a1, b1⟩ := nearTemp_rsub (RSub.refl e.ra) s1 0
  unfold W.emitSSS
  rcases hh : W.nearTemp e.ra s1 0 with ⟨t0, ra1⟩
  rw [hh] at a1 b1
  simp only at a1 b1 ⊢
  obtain ⟨a2, b2⟩ := nearTemp_rsub a1 s2 1
  rcases hh2 : W.nearTemp ra1 s2 1 with ⟨t1, ra2⟩
  rw [hh2] at a2 b2
  simp only at a2 b2 ⊢
  obtain ⟨a3, b3⟩ := nearTemp_rsub a2 s3 2
  rcases hh3 : W.nearTemp ra2 s3 2 with ⟨t2, ra3⟩
  rw [hh3] at a3 b3
  simp only at a3 b3 ⊢
  have a4 := freeNear_rsub a3 s2 t1 1 b2
  have a5 := freeNear_rsub a4 s3 t2 2 b3
  have a6 := backTemp_rsub a5 wr s1
  rcases hh6 : W.backTemp (W.freeNear (W.freeNear ra3 s2 t1 1) s3 t2 2) wr s1 with ⟨t5, ra6⟩
  rw [hh6] at a6
  exact freeNear_rsub a6 s1 t0 0 b1

theorem W_copy_rsub (e : Emit.C) (dest src : Slot) : RSub e.ra (W.copy e dest src).ra := by
  unfold W.copy
  split
  · exact RSub.refl _
  · split
    · exact RSub.refl _
    · split
      · exact RSub.refl _
      · split
        · have a1 := backTemp_rsub (RSub.refl e.ra) true dest
          rcases hh : W.backTemp e.ra true dest with ⟨t5, ra1⟩
          rw [hh] at a1
          exact a1
        · obtain ⟨a1, b1⟩ := allocTemp_rsub (RSub.refl e.ra) 3
          rcases hh : e.ra.allocTemp 3 with ⟨t3, ra1⟩
          rw [hh] at a1 b1
          simp only at a1 b1 ⊢
          have a2 := backTemp_rsub a1 true dest
          rcases hh2 : W.backTemp ra1 true dest with ⟨t5, ra2⟩
          rw [hh2] at a2
          exact freeTemp_rsub a2 t3 3 b1

theorem RSub.trans {a b c : RA} (h1 : RSub a b) (h2 : RSub b c) : RSub a c := fun r hr => h2 r (h1 r hr)

/-! ### lifted to compiler states: the innermost scope's allocator keeps its marks, the outer scopes are untouched -/

theorem emitW_marks (c c' : CState) (f : Emit.C → Emit.C) (sc : Scope) (rs : List Scope) (hs : c.scopes = sc :: rs)
    (hf : ∀ pool, RSub sc.ra (f { ra := sc.ra, buf := [], consts := pool }).ra) (h : emitW c f = some c') :
    ∃ sc', c'.scopes = sc' :: rs ∧ RSub sc.ra sc'.ra := by
  cases hp : c.pools with
  | nil =>
    unfold emitW at h
    rw [hs, hp] at h
    exact absurd h (by simp)
  | cons pool ps =>
    obtain ⟨_, hc'⟩ := emitW_spec c c' f sc rs pool ps hs hp h
    exact ⟨{ sc with ra := (f { ra := sc.ra, buf := [], consts := pool }).ra }, by rw [hc'], hf pool⟩

theorem emitS_marks (c c' : CState) (op : Op) (s : JSlot) (wr : Bool) (sc : Scope) (rs : List Scope) (hs : c.scopes = sc :: rs)
    (h : emitS c op s wr = some c') : ∃ sc', c'.scopes = sc' :: rs ∧ RSub sc.ra sc'.ra :=
  emitW_marks c c' _ sc rs hs (fun pool => W_emitS_rsub { ra := sc.ra, buf := [], consts := pool } op.toNat wr s.k) h

theorem emitSS_marks (c c' : CState) (op : Op) (s1 s2 : JSlot) (wr : Bool) (sc : Scope) (rs : List Scope) (hs : c.scopes = sc :: rs)
    (h : emitSS c op s1 s2 wr = some c') : ∃ sc', c'.scopes = sc' :: rs ∧ RSub sc.ra sc'.ra :=
  emitW_marks c c' _ sc rs hs (fun pool => W_emitSS_rsub { ra := sc.ra, buf := [], consts := pool } op.toNat wr s1.k s2.k) h

theorem emitSSS_marks (c c' : CState) (op : Op) (s1 s2 s3 : JSlot) (wr : Bool) (sc : Scope) (rs : List Scope) (hs : c.scopes = sc :: rs)
    (h : emitSSS c op s1 s2 s3 wr = some c') : ∃ sc', c'.scopes = sc' :: rs ∧ RSub sc.ra sc'.ra :=
  emitW_marks c c' _ sc rs hs (fun pool => W_emitSSS_rsub { ra := sc.ra, buf := [], consts := pool } op.toNat wr s1.k s2.k s3.k) h

theorem emitSI_marks (c c' : CState) (op : Op) (s : JSlot) (imm : Nat) (wr : Bool) (sc : Scope) (rs : List Scope) (hs : c.scopes = sc :: rs)
    (h : emitSI c op s imm wr = some c') : ∃ sc', c'.scopes = sc' :: rs ∧ RSub sc.ra sc'.ra :=
  emitW_marks c c' _ sc rs hs (fun pool => W_emitSI_rsub { ra := sc.ra, buf := [], consts := pool } op.toNat wr s.k imm) h

theorem copySlot_marks (c c' : CState) (dest src : JSlot) (sc : Scope) (rs : List Scope) (hs : c.scopes = sc :: rs)
    (h : copySlot c dest src = some c') : ∃ sc', c'.scopes = sc' :: rs ∧ RSub sc.ra sc'.ra := by
  unfold copySlot at h
  split at h
  · exact absurd h (by simp)
  · split at h
    · exact absurd h (by simp)
    · exact emitW_marks c c' _ sc rs hs (fun pool => W_copy_rsub { ra := sc.ra, buf := [], consts := pool } dest.k src.k) h

theorem pushSlots_marks : ∀ (l : List JSlot) (c c' : CState) (sc : Scope) (rs : List Scope), c.scopes = sc :: rs →
    pushSlots c l = some c' → ∃ sc', c'.scopes = sc' :: rs ∧ RSub sc.ra sc'.ra
  | [], c, c', sc, rs, hs, h => by
    simp only [pushSlots, Option.some.injEq] at h
    subst h
    exact ⟨sc, hs, RSub.refl _⟩
  | [a], c, c', sc, rs, hs, h => emitS_marks c c' .push a false sc rs hs h
  | [a, b], c, c', sc, rs, hs, h => emitSS_marks c c' .push2 a b false sc rs hs h
  | a :: b :: d :: rest, c, c', sc, rs, hs, h => by
    simp only [pushSlots, Option.bind_eq_bind, Option.bind_eq_some_iff] at h
    obtain ⟨c1, h1, h2⟩ := h
    obtain ⟨sc1, hs1, r1⟩ := emitSSS_marks c c1 .push3 a b d false sc rs hs h1
    obtain ⟨sc2, hs2, r2⟩ := pushSlots_marks rest c1 c' sc1 rs hs1 h2
    exact ⟨sc2, hs2, r1.trans r2⟩
