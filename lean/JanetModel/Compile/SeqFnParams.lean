/- C02: the parameter loop of `janetc_fn` (symbol parameters): on an allocator whose allocated registers are exactly `0..j-1`,
   `janetc_farslot` hands out `j, j+1, …` in order, each named in the function scope — the entry invariants `EnvS` / `EnvD` /
   `NR` of the body for the environment `Lang/Sem` builds (one fresh box per parameter, in parameter order); and the closed
   statement for `(fn [a₁ … aₖ] body…)` without captured variables (`fn_params_body_correct`). -/
import JanetModel.Compile.SeqThunk
namespace JanetModel.Compile
open JanetModel.Emit JanetModel.Lang JanetModel.Bytecode.Exec JanetModel.Gen.Bytecode

/-- first fit on an allocator whose taken registers below `j` are all of `0..j-1` and `j` is free -/
theorem firstFit_eq (ra : RA) (j : Nat) (h1 : ∀ r, r < j → ra.taken r = true) (h2 : ra.taken j = false) :
    ∀ (fuel r0 : Nat), r0 ≤ j → j < r0 + fuel → firstFit ra fuel r0 = j := by
  intro fuel
  induction fuel with
  | zero => intro r0 h3 h4; omega
  | succ n ih =>
    intro r0 h3 h4
    by_cases e : r0 = j
    · subst e; simp [firstFit, h2]
    · have : ra.taken r0 = true := h1 r0 (by omega)
      simp only [firstFit, this, if_true]
      exact ih (r0 + 1) (by omega) (by omega)

/-- the environment `Lang/Sem` builds for symbol parameters: one fresh box each, in order -/
def bindParams : List String → Nat → Env → Env
  | [], _, env => env
  | nm :: r, nb, env => bindParams r (nb + 1) ((nm, nb) :: env)

/-- the parameter loop of `janetc_fn` -/
theorem params_loop (G : String → Prop) : ∀ (names : List String) (c c3 : CState) (sc : Scope) (rs : List Scope) (env : Env) (nb j : Nat)
    (s : SS) (regs : Array Value),
    c.scopes = sc :: rs → c.lim ≤ 240 → (∀ r, sc.ra.alloc r = decide (r < j)) → (∀ nm, nm ∈ names → ¬ G nm) →
    EnvS G c.scopes env nb sc.ra → NR c.scopes → EnvD c.scopes env s regs →
    (∀ i, i < names.length → regs.getD (j + i) .nil = readBox s (nb + i)) →
    names.foldlM (fun (cc : CState) nm => do let (sl, cc') ← farslot cc; pure (nameslot cc' nm sl)) c = some c3 →
    ∃ (ra3 : RA) (ns3 : List SymPair), c3 = { c with scopes := { sc with ra := ra3, syms := sc.syms ++ ns3 } :: rs } ∧
      (∀ r, ra3.alloc r = decide (r < j + names.length)) ∧ sc.ra.max ≤ ra3.max ∧
      EnvS G c3.scopes (bindParams names nb env) (nb + names.length) ra3 ∧ NR c3.scopes ∧
      EnvD c3.scopes (bindParams names nb env) s regs := by
  intro names
  induction names with
  | nil =>
    intro c c3 sc rs env nb j s regs hs hl hal _ hE hN hD _ h
    simp only [List.foldlM_nil, Option.pure_def, Option.some.injEq] at h
    subst h
    refine ⟨sc.ra, [], ?_, by simpa using hal, Nat.le_refl _, by simpa [bindParams] using hE, hN, hD⟩
    simp only [List.append_nil]
    exact cstate_scopes_eta c sc rs hs
  | cons nm t ih =>
    intro c c3 sc rs env nb j s regs hs hl hal hG hE hN hD hregs h
    simp only [List.foldlM_cons, Option.bind_eq_bind, Option.bind_eq_some_iff, Prod.exists, Option.pure_def, Option.some.injEq] at h
    obtain ⟨c1, ⟨sl, cc', hfar, hc1⟩, hrest⟩ := h
    -- `janetc_farslot`: first fit
    have hfar' : (sc.ra.alloc1).1 < c.lim ∧ sl = { k := .loc (sc.ra.alloc1).1 } ∧ cc' = { c with scopes := { sc with ra := (sc.ra.alloc1).2 } :: rs } := by
      simp only [farslot, allocFar, hs, Option.bind_eq_bind, Option.pure_def] at hfar
      by_cases hlim : (sc.ra.alloc1).1 ≥ c.lim
      · simp [hlim] at hfar
      · simp [hlim] at hfar
        exact ⟨by omega, hfar.1.symm, hfar.2.symm⟩
    obtain ⟨hrlim, hsl, hcc'⟩ := hfar'
    have hr1 : (sc.ra.alloc1).1 = firstFit sc.ra searchFuel 0 := rfl
    have hfree := firstFit_lt_free sc.ra searchFuel 0 (by have : searchFuel = 70000 := rfl; rw [← hr1]; omega)
    have hge : j ≤ firstFit sc.ra searchFuel 0 := by
      simp only [RA.taken, Bool.or_eq_false_iff] at hfree
      have := hfree.1
      rw [hal] at this
      simpa using this
    have hj240 : j < 240 := by rw [← hr1] at hge; omega
    have hrj : (sc.ra.alloc1).1 = j := by
      rw [hr1]
      refine firstFit_eq sc.ra j (fun r hr => ?_) ?_ searchFuel 0 (Nat.zero_le _) (by have : searchFuel = 70000 := rfl; omega)
      · simp [RA.taken, hal, hr]
      · simp only [RA.taken, hal, Bool.or_eq_false_iff]
        refine ⟨by simp, ?_⟩
        simp; omega
    obtain ⟨ra', hra'⟩ : ∃ ra', ra' = (sc.ra.alloc1).2 := ⟨_, rfl⟩
    have hal' : ∀ r, ra'.alloc r = decide (r < j + 1) := by
      intro r
      rw [hra']
      show (if r = firstFit sc.ra searchFuel 0 then true else sc.ra.alloc r) = _
      rw [← hr1, hrj, hal]
      by_cases e : r = j
      · simp [e]
      · simp [e]; omega
    have hmax' : sc.ra.max ≤ ra'.max := by rw [hra']; exact alloc1_max_mono sc.ra
    rw [hrj] at hsl
    rw [← hra'] at hcc'
    subst hsl hcc'
    let pair : SymPair := { name := nm, slot := { ({ k := .loc j } : JSlot) with named := true } }
    have hs1 : c1.scopes = { sc with ra := ra', syms := sc.syms ++ [pair] } :: rs := by
      rw [← hc1]; simp only [nameslot]; rfl
    have hc1' : c1 = { c with scopes := { sc with ra := ra', syms := sc.syms ++ [pair] } :: rs } := by
      rw [← hc1]; simp only [nameslot]; rfl
    have hsup : ∀ r, sc.ra.alloc r = true → ra'.alloc r = true := by
      intro r hr; rw [hal] at hr; rw [hal']; simp at hr ⊢; omega
    have hdj : ra'.alloc j = true := by rw [hal']; simp
    rw [hs] at hE hN hD
    have hE1 : EnvS G c1.scopes ((nm, nb) :: env) (nb + 1) ra' := by
      rw [hs1]
      exact def_envS G sc rs env nb sc.ra ra' pair j hE (hG nm (by simp)) rfl rfl rfl rfl hsup hdj hj240
    have hN1 : NR c1.scopes := by
      rw [hs1]
      intro y slot u l hx
      rw [lk_def sc rs ra' pair rfl y] at hx
      cases hb : (pair.name == y) with
      | true =>
        rw [hb] at hx
        simp only [if_true, Option.some.injEq, Prod.mk.injEq] at hx
        rw [← hx.1]
      | false =>
        rw [hb] at hx
        simp only [Bool.false_eq_true, if_false] at hx
        exact hN y slot u l hx
    have hD1 : EnvD c1.scopes ((nm, nb) :: env) s regs := by
      rw [hs1]
      intro y slot u l r a hx hk he
      rw [lk_def sc rs ra' pair rfl y] at hx
      rw [lookupEnv_cons] at he
      cases hb : (pair.name == y) with
      | true =>
        have hb' : (nm == y) = true := hb
        rw [hb] at hx
        rw [hb'] at he
        simp only [if_true, Option.some.injEq, Prod.mk.injEq] at hx he
        rw [← hx.1] at hk
        have e1 : j = r := by injection hk
        rw [← e1, ← he]
        exact hregs 0 (by simp)
      | false =>
        have hb' : (nm == y) = false := hb
        rw [hb] at hx
        rw [hb'] at he
        simp only [Bool.false_eq_true, if_false] at hx he
        exact hD y slot u l r a hx hk he
    obtain ⟨ra3, ns3, hc3, hal3, hmax3, hE3, hN3, hD3⟩ := ih c1 c3 { sc with ra := ra', syms := sc.syms ++ [pair] } rs ((nm, nb) :: env) (nb + 1) (j + 1) s regs
      hs1 (by rw [hc1']; exact hl) hal' (fun x hx => hG x (by simp [hx])) hE1 hN1 hD1
      (fun i hi => by
        have := hregs (i + 1) (by simp; omega)
        have e1 : j + 1 + i = j + (i + 1) := by omega
        have e2 : nb + 1 + i = nb + (i + 1) := by omega
        rw [e1, e2]; exact this)
      hrest
    have e3 : j + 1 + t.length = j + (nm :: t).length := by simp; omega
    have e4 : nb + 1 + t.length = nb + (nm :: t).length := by simp; omega
    refine ⟨ra3, [pair] ++ ns3, ?_, by intro r; rw [hal3 r, e3], by have : ra'.max ≤ ra3.max := hmax3; omega, ?_, hN3, hD3⟩
    · rw [hc3, hc1']; simp [List.append_assoc]
    · rw [← e4]; exact hE3

/-! ### the semantic side: `bindAll` on symbol parameters -/

/-- the state after the parameters were bound: one box pushed per argument -/
def pushArgs : List Value → SS → SS
  | [], s => s
  | v :: r, s => pushArgs r { s with boxes := s.boxes.push v }

theorem pushArgs_world (vs : List Value) : ∀ (s : SS), (pushArgs vs s).st = s.st := by
  induction vs with
  | nil => intro s; rfl
  | cons v r ih => intro s; simp only [pushArgs]; rw [ih]

theorem pushArgs_size (vs : List Value) : ∀ (s : SS), (pushArgs vs s).boxes.size = s.boxes.size + vs.length := by
  induction vs with
  | nil => intro s; rfl
  | cons v r ih => intro s; simp only [pushArgs]; rw [ih]; simp; omega

theorem pushArgs_old (vs : List Value) : ∀ (s : SS) (a : Nat), a < s.boxes.size → readBox (pushArgs vs s) a = readBox s a := by
  induction vs with
  | nil => intro s a _; rfl
  | cons v r ih =>
    intro s a ha
    simp only [pushArgs]
    rw [ih _ a (by simp; omega)]
    simp [readBox, Array.getD, ha, Array.getElem_push_lt ha, Nat.lt_succ_of_lt ha]

/-- box `nb0 + i` holds argument `i` -/
theorem pushArgs_new (vs : List Value) : ∀ (s : SS) (i : Nat), i < vs.length → readBox (pushArgs vs s) (s.boxes.size + i) = vs.getD i .nil := by
  induction vs with
  | nil => intro s i hi; simp at hi
  | cons v r ih =>
    intro s i hi
    simp only [pushArgs]
    cases i with
    | zero =>
      rw [Nat.add_zero, pushArgs_old r { s with boxes := s.boxes.push v } s.boxes.size (by simp)]
      simp [readBox]
    | succ i =>
      have := ih { s with boxes := s.boxes.push v } i (by simpa using hi)
      have e : ({ s with boxes := s.boxes.push v } : SS).boxes.size + i = s.boxes.size + (i + 1) := by simp; omega
      rw [e] at this
      rw [this]; simp

/-- `Lang/Sem.bindAll` on symbol parameters: one fresh box per parameter, in order -/
theorem bindAll_syms : ∀ (names : List String) (vs : List Value) (f : Nat) (cur : Pos) (env : Env) (s : SS),
    names.length = vs.length → names.length + 1 ≤ f →
    bindAll f cur env ((names.zip vs).map (fun b => (Expr.sym b.1, b.2))) s = .ok (bindParams names s.boxes.size env) (pushArgs vs s) := by
  intro names
  induction names with
  | nil =>
    intro vs f cur env s hlen hf
    cases vs with
    | nil =>
      obtain ⟨f', rfl⟩ : ∃ f', f = f' + 1 := ⟨f - 1, by omega⟩
      simp [bindAll, bindParams, pushArgs]
    | cons _ _ => simp at hlen
  | cons nm t ih =>
    intro vs f cur env s hlen hf
    cases vs with
    | nil => simp at hlen
    | cons v r =>
      obtain ⟨f', rfl⟩ : ∃ f', f = f' + 1 := ⟨f - 1, by simp at hf; omega⟩
      obtain ⟨f'', rfl⟩ : ∃ f'', f' = f'' + 1 := ⟨f' - 1, by simp at hf; omega⟩
      simp only [List.zip_cons_cons, List.map_cons, bindAll, destructure, Lang.bind]
      have := ih r (f'' + 1) cur ((nm, s.boxes.size) :: env) { s with boxes := s.boxes.push v } (by simpa using hlen) (by simp at hf ⊢; omega)
      rw [this]
      simp [bindParams, pushArgs]

section
variable (p : Program) (f0 : Frame) (rest : List Frame) (V : Array Value)

/-- the body of `(fn [a₁ … aₖ] body...)` (symbol parameters, not names of global functions), compiled in a fresh function scope
    over scopes that bind nothing, run as the code of a funcdef whose constants are the scope's pool, on a register file with
    `slotcount` registers whose registers `0..k-1` hold the contents of the parameters' boxes: the VM reaches a configuration
    whose next step is the return of the body's value in the world `Lang/Sem.evalSeq` gives for the environment binding
    parameter `i` to box `nb0 + i` -/
theorem fn_params_body_correct (FF : FloatFacts) (G : String → Prop) (b : Bool) (fuel : Nat)
    (c c3 c5 : CState) (names : List String) (hGn : ∀ nm, nm ∈ names → ¬ G nm)
    (body : List Expr) (hT : ∀ e, e ∈ body → TF G b e) (hne : body ≠ [])
    (hm : c.map.length = c.buf.length) (hl : c.lim ≤ 240) (hclosed : ∀ x, lk c.scopes x = none)
    (hpar : names.foldlM (fun (cc : CState) nm => do let (sl, cc') ← farslot cc; pure (nameslot cc' nm sl))
      (pushScope c true false false false) = some c3)
    (hc : fnBody (cValue fuel) body c3 = some c5)
    (n : Nat) (cur : Pos) (env' : Env) (s s' : SS) (v : Value) (nb0 : Nat) (hnb : nb0 + names.length ≤ s.boxes.size)
    (hsem : evalSeq n cur (bindParams names nb0 []) body s = .ok (v, env') s')
    (hV : PrefA c5.vals V)
    (hcode : CodeAt (p.defs.getD f0.defIdx default).code 0 (c5.buf.drop c.buf.length))
    (hP : (c5.pools.headD []).length < 65536)
    (hK : ∀ i, i < (c5.pools.headD []).length →
      (p.defs.getD f0.defIdx default).consts.getD i .nil = litOf V ((c5.pools.headD []).getD i .nil))
    (regs : Array Value) (hregs : (c5.scopes.headD default).ra.max + 1 ≤ regs.size)
    (hargs : ∀ i, i < names.length → regs.getD i .nil = readBox s (nb0 + i)) :
    (∃ sc5, c5.scopes = sc5 :: c.scopes ∧ sc5.fn = true ∧ sc5.start = c.buf.length ∧ c5.pools = c5.pools.headD [] :: c.pools) ∧
    ∃ (regs' A : Array Value) (pc' : Nat) (wa : World),
      Reach p (inj f0 rest { regs := regs, pc := 0, args := #[], w := s.st.world })
        (inj f0 rest { regs := regs', pc := pc', args := A, w := wa }) ∧
      step p (inj f0 rest { regs := regs', pc := pc', args := A, w := wa }) =
        doReturn p (inj f0 rest { regs := regs', pc := pc', args := #[], w := s'.st.world }) v := by
  obtain ⟨fs, hfs⟩ : ∃ fs : Scope, fs = { fn := true, ra := { alloc := fun _ => false }, start := c.buf.length } := ⟨_, rfl⟩
  have hc2 : pushScope c true false false false = { c with scopes := fs :: c.scopes, pools := [] :: c.pools, fdefs := [] :: c.fdefs } := by
    simp [pushScope, hfs]
  rw [hc2] at hpar
  have hfsyms : fs.syms = [] := by rw [hfs]
  have hftop : fs.top = false := by rw [hfs]
  have hlk0 : ∀ x, lk (fs :: c.scopes) x = none := lk_fnscope_none fs c.scopes hfsyms hclosed
  have hE2 : EnvS G ({ c with scopes := fs :: c.scopes, pools := [] :: c.pools, fdefs := [] :: c.fdefs } : CState).scopes [] nb0 fs.ra :=
    ⟨fun f _ => hlk0 f, fun x => Or.inl ⟨hlk0 x, rfl⟩⟩
  have hN2 : NR ({ c with scopes := fs :: c.scopes, pools := [] :: c.pools, fdefs := [] :: c.fdefs } : CState).scopes := by
    intro x slot u l hx
    have : lk (fs :: c.scopes) x = some (slot, u, l) := hx
    rw [hlk0 x] at this
    exact absurd this (by simp)
  have hD2 : EnvD ({ c with scopes := fs :: c.scopes, pools := [] :: c.pools, fdefs := [] :: c.fdefs } : CState).scopes [] s regs := by
    intro x sl u l r a hx _ _
    have : lk (fs :: c.scopes) x = some (sl, u, l) := hx
    rw [hlk0 x] at this
    exact absurd this (by simp)
  obtain ⟨ra3, ns3, hc3, _, _, hE3, hN3, hD3⟩ := params_loop G names { c with scopes := fs :: c.scopes, pools := [] :: c.pools, fdefs := [] :: c.fdefs } c3 fs c.scopes [] nb0 0 s regs rfl hl
    (by intro r; rw [hfs]; simp) hGn hE2 hN2 hD2 (by intro i hi; rw [Nat.zero_add]; exact hargs i hi) hpar
  have hs3 : c3.scopes = { fs with ra := ra3, syms := fs.syms ++ ns3 } :: c.scopes := by rw [hc3]
  have hp3 : c3.pools = [] :: c.pools := by rw [hc3]
  have hl3 : c3.lim ≤ 240 := by rw [hc3]; exact hl
  have hm3 : c3.map.length = c3.buf.length := by rw [hc3]; exact hm
  have hE3' : EnvS G c3.scopes (bindParams names nb0 []) s.boxes.size ra3 :=
    hE3.of_lk (fun _ => rfl) hnb (fun _ _ _ _ _ _ _ h => h)
  obtain ⟨slot, hret, ra', nsyms, more, seg, segm, hc5, pv, mono, max', vm⟩ :=
    fnBody_tail p f0 rest V (c5.pools.headD []) G (TF G b) b fuel
      (tf_correct_b p f0 rest V (c5.pools.headD []) hP hK FF G b fuel) (tf_ML G b true fuel) (tf_NR_b G b fuel)
      (tf_tail_correct_b p f0 rest V (c5.pools.headD []) hP hK FF G b fuel)
      body hT hne c3 c5 { fs with ra := ra3, syms := fs.syms ++ ns3 } c.scopes [] c.pools
      n cur (bindParams names nb0 []) env' s s' v hs3 hp3 hl3 hftop hm3 hc hsem hE3' hN3
  have hs5 : c5.scopes = { fs with ra := ra', syms := fs.syms ++ ns3 ++ nsyms } :: c.scopes := by rw [hc5]
  have hp5 : c5.pools = ([] ++ more) :: c.pools := by rw [hc5]
  have hb5 : c5.buf = c.buf ++ seg := by rw [hc5]; show c3.buf ++ seg = _; rw [hc3]
  have hpool : c5.pools.headD [] = more := by rw [hp5]; simp
  have hdrop : c5.buf.drop c.buf.length = seg := by rw [hb5]; simp
  have hmax : (c5.scopes.headD default).ra.max = ra'.max := by rw [hs5]; rfl
  refine ⟨⟨_, hs5, by rw [hfs], by rw [hfs], by rw [hpool, hp5]; simp⟩, ?_⟩
  rw [hdrop] at hcode
  obtain ⟨regs', A, pc', wa, rch, _, st⟩ := vm { regs := regs, pc := 0, args := #[], w := s.st.world } rfl rfl hD3
    hcode (by rw [hpool]; simp; exact PrefL.refl _) hV (by show ra'.max < regs.size; omega)
  exact ⟨regs', A, pc', wa, rch, st⟩

end

end JanetModel.Compile
