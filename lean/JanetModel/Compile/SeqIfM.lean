/- C02: compile correctness, core fragment: the `if` case, GENERAL dispatcher: jump path (`if_jump_core`) when the condition's
   slot is not a constant, folding path (`if_const_core`) when it is.  The folding path needs `truthy cv = constTruthy k` (the
   constant the condition compiled to stands for its semantic value): proved here for conditions that are literals, symbols,
   calls and `if` forms (`CondOK`; the last two never compile to a constant).  `do` / `upscope` / `def` forms as conditions
   would need a constant-value induction of their own (not done). -/
import JanetModel.Compile.SeqIfConst
namespace JanetModel.Compile
open JanetModel.Emit JanetModel.Lang JanetModel.Bytecode.Exec JanetModel.Gen.Bytecode

theorem kOf_truthy (c : CState) (w : Value) (hw : SimpleLit w) : constTruthy (kOf c w).1 = truthy w := by
  cases w with
  | nil => rfl
  | bool b => cases b <;> rfl
  | num x =>
    simp only [kOf]
    split
    · rfl
    · split <;> rfl
  | str s => simp only [kOf]; split <;> rfl
  | sym s => simp only [kOf]; split <;> rfl
  | kw s => simp only [kOf]; split <;> rfl
  | cfun s => simp only [kOf]; split <;> rfl
  | tuple _ _ => exact absurd hw (by simp [SimpleLit])
  | struct _ => exact absurd hw (by simp [SimpleLit])
  | arr _ => exact absurd hw (by simp [SimpleLit])
  | tbl _ => exact absurd hw (by simp [SimpleLit])
  | buf _ => exact absurd hw (by simp [SimpleLit])
  | fn _ => exact absurd hw (by simp [SimpleLit])

/-- the constant a condition compiles to decides like its semantic value -/
def CondT (G : String → Prop) (fuel : Nat) (cnd : Expr) : Prop :=
  ∀ (c2 c3 : CState) (cond : JSlot) (k : KConst) (n2 : Nat) (pos : Pos) (env cenv : Env) (s s1 : SS) (cv : Value),
    LkL G c2.scopes → (∀ x, lk c2.scopes x = none → lookupEnv env x = none) →
    cValue fuel {} cnd c2 = some (cond, c3) → isConstSlot cond = some k → eval n2 pos env cnd s = .ok (cv, cenv) s1 →
    truthy cv = constTruthy k

theorem isConstSlot_cslot (k : KConst) : isConstSlot (cslot k) = some k := rfl

theorem condT_lit (G : String → Prop) (fuel : Nat) (w : Value) (hw : SimpleLit w) : CondT G fuel (.lit w) := by
  intro c2 c3 cond k n2 pos env cenv s s1 cv _ _ hc hk hsem
  cases fuel with
  | zero => simp [cValue] at hc
  | succ fuel =>
    rw [cValue_lit_o fuel {} rfl rfl w hw c2] at hc
    simp only [Option.some.injEq, Prod.mk.injEq] at hc
    rw [← hc.1] at hk
    have hk' : (kOf c2 w).1 = k := by
      have : isConstSlot (constSlot c2 w).1 = some (kOf c2 w).1 := rfl
      rw [this] at hk; exact Option.some.inj hk
    cases n2 with
    | zero => simp [eval] at hsem
    | succ n2 =>
      rw [eval_lit] at hsem
      simp only [R.ok.injEq, Prod.mk.injEq] at hsem
      rw [← hsem.1.1, ← hk']
      exact (kOf_truthy c2 w hw).symm

theorem condT_sym (G : String → Prop) (fuel : Nat) (x : String) : CondT G fuel (.sym x) := by
  intro c2 c3 cond k n2 pos env cenv s s1 cv hL hag hc hk hsem
  cases fuel with
  | zero => simp [cValue] at hc
  | succ fuel =>
    rw [cValue_sym_o fuel {} rfl rfl] at hc
    cases hlk : lk c2.scopes x with
    | none =>
      rw [resolve_global c2 x (by rw [lookupSlot_lk]; exact hlk)] at hc
      have hg : globalSlot c2 x = some (constSlot c2 (.cfun x)) := by
        unfold globalSlot at hc ⊢
        split at hc <;> simp_all [fin]
      rw [hg] at hc
      simp only [fin, Option.some.injEq, Prod.mk.injEq] at hc
      rw [← hc.1] at hk
      have hk' : (kOf c2 (.cfun x)).1 = k := by
        have : isConstSlot (constSlot c2 (.cfun x)).1 = some (kOf c2 (.cfun x)).1 := rfl
        rw [this] at hk; exact Option.some.inj hk
      cases n2 with
      | zero => simp [eval] at hsem
      | succ n2 =>
        rw [eval_sym_global n2 pos env x s (hag x hlk)] at hsem
        simp only [R.ok.injEq, Prod.mk.injEq] at hsem
        rw [← hsem.1.1, ← hk']
        exact (kOf_truthy c2 (.cfun x) trivial).symm
    | some r =>
      obtain ⟨sl, u, l⟩ := r
      obtain ⟨hl, hcf, _, _⟩ := hL.2 x sl u l hlk
      subst hl
      rw [resolve_local c2 x sl u (by rw [lookupSlot_lk]; exact hlk) hcf] at hc
      simp only [fin, Option.some.injEq, Prod.mk.injEq] at hc
      rw [← hc.1] at hk
      simp [isConstSlot, hcf] at hk

theorem condT_call (G : String → Prop) (fuel : Nat) (e : Expr) (hic : IsCall e) : CondT G fuel e := by
  intro c2 c3 cond k n2 pos env cenv s s1 cv _ _ hc hk _
  rw [call_isConst_none fuel {} rfl rfl e hic c2 c3 cond hc] at hk
  exact absurd hk (by simp)

/-- an `if` whose value is used compiles to its target register -/
theorem condT_if (G : String → Prop) (fuel : Nat) (a t : Expr) (r : List Expr) (q : Pos) : CondT G fuel (.form (.sym "if" :: a :: t :: r) q) := by
  intro c2 c3 cond k n2 pos env cenv s s1 cv _ _ hc hk _
  exfalso
  cases fuel with
  | zero => simp [cValue] at hc
  | succ fuel =>
    rw [cValue_if_o fuel {} rfl rfl a t r q c2] at hc
    have hlen : r.length ≤ 1 := by
      rcases r with _ | ⟨e, _ | ⟨e2, r'⟩⟩
      · simp
      · simp
      · simp [cIf, fin] at hc
    rw [cIf_le1 _ _ _ _ _ _ hlen] at hc
    cases hcc : cIfBody (cValue fuel) {} a t (r.headD (.lit .nil)) (curAt c2 q) with
    | none => rw [hcc] at hc; simp [fin] at hc
    | some res =>
      obtain ⟨slot0, cq⟩ := res
      rw [hcc] at hc
      simp only [fin, Option.some.injEq, Prod.mk.injEq] at hc
      rw [← hc.1] at hk
      obtain ⟨target, c1, cond', c3', hT, _, hrest⟩ := cIfBody_inv _ {} a t _ _ cq slot0 hcc
      simp only [Bool.false_eq_true, if_false] at hT
      obtain ⟨d, hd⟩ := getTarget_slot _ c1 {} rfl target hT
      have hst : slot0 = target := by
        cases hk' : isConstSlot cond' with
        | some k' =>
          rw [hk'] at hrest
          obtain ⟨_, _, _, _, _, _, _, _, _, _, e⟩ := cIfConst_inv _ _ _ _ _ _ _ _ _ hrest
          exact e.symm
        | none =>
          rw [hk'] at hrest
          obtain ⟨_, _, _, _, _, _, _, _, _, _, _, _, _, _, _, _, _, _, _, _, _, e, _⟩ := cIfJump_inv _ _ _ _ _ _ _ _ _ _ hrest
          exact e
      rw [hst, hd] at hk
      simp [isConstSlot] at hk

theorem condT_of_ok (G : String → Prop) (b : Bool) (fuel : Nat) (cnd : Expr) (hok : CondOK cnd) (hT : TF G b cnd) : CondT G fuel cnd := by
  rcases hok with ⟨w, rfl⟩ | ⟨x, rfl⟩ | hic | ⟨a, t, r, q, rfl⟩
  · cases hT with
    | lit _ hw => exact condT_lit G fuel w hw
  · exact condT_sym G fuel x
  · exact condT_call G fuel cnd hic
  · exact condT_if G fuel a t r q

section
variable (p : Program) (f0 : Frame) (rest : List Frame) (V : Array Value) (P : List KConst)

/-- the `if` case, both paths, for a condition with `CondT` -/
theorem if_coreT (hP : P.length < 65536)
    (hK : ∀ i, i < P.length → (p.defs.getD f0.defIdx default).consts.getD i .nil = litOf V (P.getD i .nil))
    (G : String → Prop) (b w : Bool) (fuel : Nat) (IH : CorrectAt p f0 rest V P G (TF G b) w fuel)
    (cnd tb : Expr) (els : List Expr) (pp : Pos) (hCT : CondT G fuel cnd)
    (hlen : els.length ≤ 1) (hTc : TF G b cnd) (hTt : TF G b tb) (hTe : ∀ e, e ∈ els → TF G b e)
    (opts : Fopts) (c c' : CState) (slot : JSlot) (sc : Scope) (rs : List Scope) (pool : List KConst) (ps : List (List KConst))
    (n : Nat) (cur : Pos) (env env' : Env) (s s' : SS) (v : Value)
    (ht : opts.tail = false) (hh : opts.hint = none) (hs : c.scopes = sc :: rs) (hp : c.pools = pool :: ps) (hl : c.lim ≤ 240)
    (hm : c.map.length = c.buf.length)
    (hc : cValue (fuel + 1) opts (.form (.sym "if" :: cnd :: tb :: els) pp) c = some (slot, c'))
    (hsem : eval n cur env (.form (.sym "if" :: cnd :: tb :: els) pp) s = .ok (v, env') s')
    (hE : EnvS G c.scopes env s.boxes.size sc.ra) :
    Correct2 p f0 rest V P G opts.drop c c' slot sc rs pool ps env env' s s' v := by
  rw [cValue_if_o fuel opts ht hh cnd tb els pp c, cIf_le1 _ _ _ _ _ _ hlen] at hc
  obtain ⟨q, hq⟩ := curAt_eq c pp
  cases hcc : cIfBody (cValue fuel) opts cnd tb (els.headD (.lit .nil)) (curAt c pp) with
  | none => rw [hcc] at hc; simp [fin] at hc
  | some res =>
    obtain ⟨slot0, cq⟩ := res
    rw [hcc] at hc
    simp only [fin, Option.some.injEq, Prod.mk.injEq] at hc
    obtain ⟨hsl, hc'⟩ := hc
    subst hsl hc'
    rw [hq] at hcc
    obtain ⟨n2, cv, cenv, s1, envb, hn, hsc, henv, hsb⟩ := eval_if_inv n cur env env' cnd tb els pp s s' v hsem
    subst henv
    obtain ⟨target, c1, cond, c3, hT, hcond, hrest⟩ := cIfBody_inv _ opts cnd tb _ _ cq slot0 hcc
    have hTf : TF G b (els.headD (.lit .nil)) := by
      cases els with
      | nil => exact .lit .nil trivial
      | cons e _ => exact hTe e (by simp)
    cases hk : isConstSlot cond with
    | none =>
      rw [hk] at hrest
      simp only at hrest
      exact Correct2.recur p f0 rest V P (q := q)
        (if_jump_core p f0 rest V P hP hK G b w fuel IH cnd tb _ hTc hTt hTf opts ht hh { c with cur := q } cq slot0 sc rs pool ps n2 (posOf cur pp)
          env' cenv envb s s1 s' cv v hs hp hl hm target c1 c3 cond hT hcond hk hrest hsc hsb hE)
    | some k =>
      rw [hk] at hrest
      simp only at hrest
      -- the scopes the condition is compiled in resolve names as the scopes at entry do
      have hR1 : StepR { c with cur := q } c1 sc rs pool ps := by
        split at hT
        · simp only [Option.some.injEq, Prod.mk.injEq] at hT
          rw [← hT.2]; exact StepR.refl _ sc rs pool ps hs hp
        · exact getTarget_stepR _ c1 opts target hh sc rs pool ps hs hp hT
      obtain ⟨ra1, more1, seg1, segm1, hc1, _⟩ := hR1
      have hs1 : c1.scopes = { sc with ra := ra1 } :: rs := by rw [hc1]
      have hlk2 : ∀ y, lk (pushScope c1 false false false false).scopes y = lk c.scopes y := by
        intro y
        rw [pushScope_blk c1 _ rs false hs1, hs]
        exact (lk_push _ _ rfl rfl rfl y).trans (lk_ra sc rs ra1 y)
      have hct : truthy cv = constTruthy k :=
        hCT _ c3 cond k n2 (posOf cur pp) env' cenv s s1 cv (hE.lkl.of_lk hlk2)
          (fun x hx => by
            rw [hlk2] at hx
            rcases hE.2 x with ⟨_, h2⟩ | ⟨sl, r, a, u, h1, _⟩
            · exact h2
            · rw [hx] at h1; exact absurd h1 (by simp))
          hcond hk hsc
      exact Correct2.recur p f0 rest V P (q := q)
        (if_const_core p f0 rest V P hP hK G b w fuel IH cnd tb _ hTc hTt hTf opts ht hh { c with cur := q } cq slot0 sc rs pool ps n2 (posOf cur pp)
          env' cenv envb s s1 s' cv v hs hp hl hm target c1 c3 cond k hT hcond hrest hsc hct hsb hE)

/-- the `if` case for a condition that is a literal, a symbol, a call or an `if` (shape of `IfCase` with `CondOK` for `IsCall`) -/
theorem if_coreM (hP : P.length < 65536)
    (hK : ∀ i, i < P.length → (p.defs.getD f0.defIdx default).consts.getD i .nil = litOf V (P.getD i .nil))
    (G : String → Prop) (b w : Bool) (fuel : Nat) (IH : CorrectAt p f0 rest V P G (TF G b) w fuel)
    (cnd tb : Expr) (els : List Expr) (pp : Pos) (hok : CondOK cnd)
    (hlen : els.length ≤ 1) (hTc : TF G b cnd) (hTt : TF G b tb) (hTe : ∀ e, e ∈ els → TF G b e)
    (opts : Fopts) (c c' : CState) (slot : JSlot) (sc : Scope) (rs : List Scope) (pool : List KConst) (ps : List (List KConst))
    (n : Nat) (cur : Pos) (env env' : Env) (s s' : SS) (v : Value)
    (ht : opts.tail = false) (hh : opts.hint = none) (hs : c.scopes = sc :: rs) (hp : c.pools = pool :: ps) (hl : c.lim ≤ 240)
    (_htop : sc.top = false) (hm : c.map.length = c.buf.length)
    (hc : cValue (fuel + 1) opts (.form (.sym "if" :: cnd :: tb :: els) pp) c = some (slot, c'))
    (hsem : eval n cur env (.form (.sym "if" :: cnd :: tb :: els) pp) s = .ok (v, env') s')
    (hE : EnvS G c.scopes env s.boxes.size sc.ra) :
    Correct2 p f0 rest V P G opts.drop c c' slot sc rs pool ps env env' s s' v :=
  if_coreT p f0 rest V P hP hK G b w fuel IH cnd tb els pp (condT_of_ok G b fuel cnd hok hTc)
    hlen hTc hTt hTe opts c c' slot sc rs pool ps n cur env env' s s' v ht hh hs hp hl hm hc hsem hE

end

end JanetModel.Compile
