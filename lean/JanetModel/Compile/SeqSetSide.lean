/- C02: side conditions of `set`: a form in which no `(def x …)` occurs leaves the binding of `x` alone (semantic side) -/
import JanetModel.Compile.SeqNoBrkSem
namespace JanetModel.Compile
open JanetModel.Emit JanetModel.Lang JanetModel.Bytecode.Exec JanetModel.Gen.Bytecode

/-- no form `(def x …)` occurs anywhere in the expression (literals, symbols and forms: the constructors of the fragment) -/
inductive NoBind (x : String) : Expr → Prop
  | lit (v : Value) : NoBind x (.lit v)
  | sym (y : String) : NoBind x (.sym y)
  | form (l : List Expr) (p : Pos) : (∀ e, e ∈ l → NoBind x e) → (∀ y r, l = .sym "def" :: .sym y :: r → y ≠ x) → NoBind x (.form l p)

/-- an `.ok` result's environment binds `x` as `env` does -/
def KE {α : Type} (x : String) (env : Env) (r : R (α × Env)) : Prop :=
  ∀ a env' s, r = .ok (a, env') s → lookupEnv env' x = lookupEnv env x

theorem KE.ok {α : Type} {x : String} {env : Env} (a : α) (env1 : Env) (s : SS) (h : lookupEnv env1 x = lookupEnv env x) :
    KE x env (.ok (a, env1) s : R (α × Env)) :=
  fun a' env' s' e => by simp only [R.ok.injEq, Prod.mk.injEq] at e; rw [← e.1.2]; exact h

theorem KE.err {α : Type} {x : String} {env : Env} (v : Value) (p : Pos) (s : SS) : KE x env (.err v p s : R (α × Env)) :=
  fun _ _ _ e => by simp at e

theorem KE.brk {α : Type} {x : String} {env : Env} (v : Value) (s : SS) : KE x env (.brk v s : R (α × Env)) :=
  fun _ _ _ e => by simp at e

theorem KE.stop {α : Type} {x : String} {env : Env} (w : String) : KE x env (.stop w : R (α × Env)) :=
  fun _ _ _ e => by simp at e

theorem lookupEnv_cons_ne (env : Env) (y x : String) (a : Nat) (h : y ≠ x) : lookupEnv ((y, a) :: env) x = lookupEnv env x := by
  simp only [lookupEnv]
  have : (y == x) = false := by
    cases hb : (y == x) with
    | false => rfl
    | true => exact absurd (beq_iff_eq.mp hb) h
  rw [this]; rfl

def KAll (x : String) (G : String → Prop) (b : Bool) (n : Nat) : Prop :=
  (∀ cur env e s, GFree G env → TF G b e → NoBind x e → KE x env (eval n cur env e s)) ∧
  (∀ cur env body s, GFree G env → (∀ e, e ∈ body → TF G b e) → (∀ e, e ∈ body → NoBind x e) → KE x env (evalSeq n cur env body s)) ∧
  (∀ cur env args s, GFree G env → (∀ e, e ∈ args → TF G b e) → (∀ e, e ∈ args → NoBind x e) → KE x env (evalArgs n cur env args s))

theorem nobind_all (x : String) (G : String → Prop) (b : Bool) : ∀ n, KAll x G b n := by
  intro n
  induction n with
  | zero =>
    refine ⟨fun cur env e s _ _ _ => ?_, fun cur env body s _ _ _ => ?_, fun cur env args s _ _ _ => ?_⟩
    · simp only [eval]; exact KE.stop _
    · simp only [evalSeq]; exact KE.stop _
    · simp only [evalArgs]; exact KE.stop _
  | succ n ih =>
    obtain ⟨ihE, ihS, ihA⟩ := ih
    refine ⟨fun cur env e s hg hT hN => ?_, fun cur env body s hg hT hN => ?_, fun cur env args s hg hT hN => ?_⟩
    · cases hT with
      | lit w hw => rw [eval_lit]; exact KE.ok _ _ _ rfl
      | sym y =>
        cases hl : lookupEnv env y with
        | none => rw [eval_sym_global n cur env y s hl]; exact KE.ok _ _ _ rfl
        | some a => rw [eval_sym_local n cur env y s a hl]; exact KE.ok _ _ _ rfl
      | call f args p hf hna hG hTa =>
        cases hN with
        | form _ _ hall hdef =>
        rw [eval_call n cur env f args p s hf]
        cases n with
        | zero => simp only [eval]; exact KE.stop _
        | succ n' =>
          rw [eval_sym_global n' _ env f s (hg f hG)]
          simp only
          have hA := ihA (posOf cur p) env args s hg hTa (fun e he => hall e (List.mem_cons_of_mem _ he))
          cases he : evalArgs (n' + 1) (posOf cur p) env args s with
          | ok r s2 =>
            obtain ⟨vs, env2⟩ := r
            simp only
            cases ha : applyFn (n' + 1) (posOf cur p) (.cfun f) vs s2 with
            | ok v s3 => exact KE.ok _ _ _ (hA vs env2 s2 he)
            | err v q s3 => exact KE.err _ _ _
            | brk v s3 => exact KE.brk _ _
            | stop w => exact KE.stop _
          | err v q s2 => exact KE.err _ _ _
          | brk v s2 => exact KE.brk _ _
          | stop w => exact KE.stop _
      | doo body p hTb =>
        rw [eval_do]
        cases he : evalSeq n (posOf cur p) env body s with
        | ok r s2 => obtain ⟨v, envb⟩ := r; exact KE.ok _ _ _ rfl
        | err v q s2 => exact KE.err _ _ _
        | brk v s2 => exact KE.brk _ _
        | stop w => exact KE.stop _
      | ups body p hTb =>
        cases hN with
        | form _ _ hall hdef =>
        rw [eval_upscope]
        exact ihS (posOf cur p) env body s hg hTb (fun e he => hall e (List.mem_cons_of_mem _ he))
      | deff y ve p hGx hTv =>
        cases hN with
        | form _ _ hall hdef =>
        rw [eval_def]
        have hV := ihE (posOf cur p) env ve s hg hTv (hall ve (by simp))
        cases he : eval n (posOf cur p) env ve s with
        | ok r s2 =>
          obtain ⟨v, env1⟩ := r
          simp only
          cases n with
          | zero => simp only [destructure]; exact KE.stop _
          | succ n' =>
            simp only [destructure, Lang.bind]
            exact KE.ok _ _ _ ((lookupEnv_cons_ne env1 y x _ (hdef y [ve] rfl)).trans (hV v env1 s2 he))
        | err v q s2 => exact KE.err _ _ _
        | brk v s2 => exact KE.brk _ _
        | stop w => exact KE.stop _
      | iff cnd tb rest p hb hok hlen hTc hTt hTe =>
        rw [eval_if]
        cases he : eval n (posOf cur p) env cnd s with
        | ok r s2 =>
          obtain ⟨cv, cenv⟩ := r
          simp only
          cases hsel : (if truthy cv then (tb :: rest).head? else ((tb :: rest).drop 1).head?) with
          | none => exact KE.ok _ _ _ rfl
          | some br =>
            simp only
            cases hbe : eval n (posOf cur p) cenv br s2 with
            | ok r3 s3 => obtain ⟨v, _⟩ := r3; exact KE.ok _ _ _ rfl
            | err v q s3 => exact KE.err _ _ _
            | brk v s3 => exact KE.brk _ _
            | stop w => exact KE.stop _
        | err v q s2 => exact KE.err _ _ _
        | brk v s2 => exact KE.brk _ _
        | stop w => exact KE.stop _
    · cases body with
      | nil => simp only [evalSeq]; exact KE.ok _ _ _ rfl
      | cons e t =>
        cases t with
        | nil => simp only [evalSeq]; exact ihE cur env e s hg (hT e (by simp)) (hN e (by simp))
        | cons y r =>
          simp only [evalSeq]
          have hE1 := ihE cur env e s hg (hT e (by simp)) (hN e (by simp))
          have hG1 := ((tf_nball G b n).1 cur env e s hg (hT e (by simp))).2
          cases he : eval n cur env e s with
          | ok r1 s1 =>
            obtain ⟨v1, env1⟩ := r1
            have h2 := ihS cur env1 (y :: r) s1 (hG1 v1 env1 s1 he) (fun e' he' => hT e' (by simp [he'])) (fun e' he' => hN e' (by simp [he']))
            intro a env' s' hr
            exact (h2 a env' s' hr).trans (hE1 v1 env1 s1 he)
          | err v q s1 => exact KE.err _ _ _
          | brk v s1 => exact KE.brk _ _
          | stop w => exact KE.stop _
    · cases args with
      | nil => simp only [evalArgs]; exact KE.ok _ _ _ rfl
      | cons e t =>
        simp only [evalArgs, (hT e (by simp)).notSplice]
        have hE1 := ihE cur env e s hg (hT e (by simp)) (hN e (by simp))
        have hG1 := ((tf_nball G b n).1 cur env e s hg (hT e (by simp))).2
        cases he : eval n cur env e s with
        | ok r1 s1 =>
          obtain ⟨v1, env1⟩ := r1
          simp only
          have hA := ihA cur env1 t s1 (hG1 v1 env1 s1 he) (fun e' he' => hT e' (by simp [he'])) (fun e' he' => hN e' (by simp [he']))
          cases ha : evalArgs n cur env1 t s1 with
          | ok r2 s2 => obtain ⟨vs, env2⟩ := r2; exact KE.ok _ _ _ ((hA vs env2 s2 ha).trans (hE1 v1 env1 s1 he))
          | err v q s2 => exact KE.err _ _ _
          | brk v s2 => exact KE.brk _ _
          | stop w => exact KE.stop _
        | err v q s1 => exact KE.err _ _ _
        | brk v s1 => exact KE.brk _ _
        | stop w => exact KE.stop _

/-- semantic side: the value of a form of the fragment without `(def x …)` leaves the binding of `x` alone -/
theorem nobind_env (G : String → Prop) (b : Bool) (x : String) (n : Nat) (cur : Pos) (env env' : Env) (e : Expr) (s s' : SS) (v : Value)
    (hg : ∀ f, G f → lookupEnv env f = none) (hT : TF G b e) (hN : NoBind x e)
    (h : eval n cur env e s = .ok (v, env') s') : lookupEnv env' x = lookupEnv env x :=
  (nobind_all x G b n).1 cur env e s hg hT hN v env' s' h

theorem nobind_env_seq (G : String → Prop) (b : Bool) (x : String) (n : Nat) (cur : Pos) (env env' : Env) (body : List Expr) (s s' : SS) (v : Value)
    (hg : ∀ f, G f → lookupEnv env f = none) (hT : ∀ e, e ∈ body → TF G b e) (hN : ∀ e, e ∈ body → NoBind x e)
    (h : evalSeq n cur env body s = .ok (v, env') s') : lookupEnv env' x = lookupEnv env x :=
  (nobind_all x G b n).2.1 cur env body s hg hT hN v env' s' h
