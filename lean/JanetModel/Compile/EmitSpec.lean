/- C02: what the emit-layer wrappers do to the compiler state in the near case (constant and near-local operands), in the form
   the compile-correctness induction uses: the code appended, the allocator restored (extensionally), pool only appended. -/
import JanetModel.Compile.Alloc
namespace JanetModel.Compile
open JanetModel.Emit JanetModel.Gen.Bytecode

theorem allocTemp_max_ge (ra : RA) (tag : Nat) : (ra.allocTemp tag).1 ≤ (ra.allocTemp tag).2.max := by
  simp only [RA.allocTemp, RA.alloc1]
  split
  · dsimp only; split <;> omega
  · dsimp only [RA.mark]; split <;> omega

theorem alloc1_max_mono (ra : RA) : ra.max ≤ (ra.alloc1).2.max := by
  simp only [RA.alloc1, RA.mark]; split <;> omega

theorem freeTemp_max (ra : RA) (r tag : Nat) : (ra.freeTemp r tag).max = ra.max := by
  simp only [RA.freeTemp]; split <;> rfl

theorem mark_max (ra : RA) (r : Nat) : (ra.mark r).max = ra.max := rfl
theorem unmark_max (ra : RA) (r : Nat) : (ra.unmark r).max = ra.max := rfl

/-- `emitW` unfolded -/
theorem emitW_spec (c c' : CState) (f : Emit.C → Emit.C) (sc : Scope) (rs : List Scope) (pool : List KConst) (ps : List (List KConst))
    (hs : c.scopes = sc :: rs) (hp : c.pools = pool :: ps) (h : emitW c f = some c') :
    (f { ra := sc.ra, buf := [], consts := pool }).ra.max < c.lim ∧
    c' = { c with scopes := { sc with ra := (f { ra := sc.ra, buf := [], consts := pool }).ra } :: rs,
                  pools := (f { ra := sc.ra, buf := [], consts := pool }).consts :: ps,
                  buf := c.buf ++ (f { ra := sc.ra, buf := [], consts := pool }).buf.map CI.mi,
                  map := c.map ++ (f { ra := sc.ra, buf := [], consts := pool }).buf.map (fun _ => c.cur) } := by
  unfold emitW at h
  rw [hs, hp] at h
  simp only at h
  by_cases hc : (f { ra := sc.ra, buf := [], consts := pool }).ra.max ≥ c.lim
  · rw [if_pos hc] at h; exact absurd h (by simp)
  · rw [if_neg hc] at h
    exact ⟨by omega, (Option.some.inj h).symm⟩

/-- the temporary of a constant operand obtained through `janetc_regfar` and released by `janetc_free_regnear`, near case:
    net effect on the allocator = nothing (extensionally), `max` may grow -/
theorem farTemp_const_net (ra : RA) (k : KConst) (tag : Nat) (hlt : (ra.allocTemp tag).1 < 240) (hfree : ra.alloc (ra.allocTemp tag).1 = false)
    (hall : ∀ j, (ra.allocTemp tag).2.alloc j = (if j = (ra.allocTemp tag).1 then true else ra.alloc j)) :
    W.farTemp ra (.const k) tag = ((ra.allocTemp tag).1, 0, (ra.allocTemp tag).1, (((ra.allocTemp tag).2).freeTemp (ra.allocTemp tag).1 tag).mark (ra.allocTemp tag).1) ∧
    (∀ j, (W.freeNear ((((ra.allocTemp tag).2).freeTemp (ra.allocTemp tag).1 tag).mark (ra.allocTemp tag).1) (.const k) (ra.allocTemp tag).1 tag).alloc j = ra.alloc j) ∧
    (W.freeNear ((((ra.allocTemp tag).2).freeTemp (ra.allocTemp tag).1 tag).mark (ra.allocTemp tag).1) (.const k) (ra.allocTemp tag).1 tag).max = (ra.allocTemp tag).2.max := by
  have hn : ¬ ((ra.allocTemp tag).1 ≥ 0xF0) := by omega
  refine ⟨?_, ?_, ?_⟩
  · simp only [W.farTemp, Slot.isLocal, Bool.false_eq_true, if_false, hn]
  · intro j
    simp only [W.freeNear, Slot.isLocal, Bool.false_and, Bool.false_eq_true, if_false, RA.freeTemp, hlt, if_true, RA.mark, RA.unmark]
    by_cases hj : j = (ra.allocTemp tag).1
    · simp only [hj, if_true]; exact hfree.symm
    · simp only [hj, if_false]; rw [hall j, if_neg hj]
  · simp only [W.freeNear, Slot.isLocal, Bool.false_and, Bool.false_eq_true, if_false, RA.freeTemp, hlt, if_true, RA.mark, RA.unmark]

/-- `W.emitS` on a constant operand, as a function of the temporary -/
theorem W_emitS_const (e : Emit.C) (op : Nat) (k : KConst) :
    W.emitS e op false (.const k) =
      (if (e.ra.allocTemp 0).1 ≥ 0xF0 then
        W.finish e (W.freeNear (((e.ra.allocTemp 0).2.alloc1).2.freeTemp (e.ra.allocTemp 0).1 0) (.const k) ((e.ra.allocTemp 0).2.alloc1).1 0)
          ((W.slotConst (.const k)).foldl W.intern e.consts)
          (Emit.emitS (W.poolIdx ((W.slotConst (.const k)).foldl W.intern e.consts)) op false (.const k) (e.ra.allocTemp 0).1 ((e.ra.allocTemp 0).2.alloc1).1 0)
      else
        W.finish e (W.freeNear ((((e.ra.allocTemp 0).2).freeTemp (e.ra.allocTemp 0).1 0).mark (e.ra.allocTemp 0).1) (.const k) (e.ra.allocTemp 0).1 0)
          ((W.slotConst (.const k)).foldl W.intern e.consts)
          (Emit.emitS (W.poolIdx ((W.slotConst (.const k)).foldl W.intern e.consts)) op false (.const k) (e.ra.allocTemp 0).1 0 0)) := by
  simp only [W.emitS, W.farTemp, Slot.isLocal, Bool.false_eq_true, if_false, W.backTemp]
  split <;> rfl

theorem freeNear_max (ra : RA) (s : Slot) (r tag : Nat) : (W.freeNear ra s r tag).max = ra.max := by
  simp only [W.freeNear]; split
  · rfl
  · exact freeTemp_max ra r tag

theorem slotConst_const (pool : List KConst) (k : KConst) :
    (W.slotConst (.const k)).foldl W.intern pool = (if k.pooled then W.intern pool k else pool) := by
  simp only [W.slotConst]; split <;> rfl

/-- `janetc_emit_s(c, op, constant, 0)` in the near case: one temporary that was free, a load and the payload; allocator
    restored; the constant interned -/
theorem emitS_const (c c' : CState) (op : Op) (s : JSlot) (k : KConst) (hk : s.k = .const k)
    (sc : Scope) (rs : List Scope) (pool : List KConst) (ps : List (List KConst))
    (hs : c.scopes = sc :: rs) (hp : c.pools = pool :: ps) (hl : c.lim ≤ 240) (h : emitS c op s false = some c') :
    ∃ t ra', sc.ra.alloc t = false ∧ t ≤ ra'.max ∧ t < 240 ∧ sc.ra.max ≤ ra'.max ∧ ra'.max < c.lim ∧ (∀ j, ra'.alloc j = sc.ra.alloc j) ∧
      c' = { c with scopes := { sc with ra := ra' } :: rs, pools := (if k.pooled then W.intern pool k else pool) :: ps,
                    buf := c.buf ++ [CI.mi (.ldk t k (W.poolIdx (if k.pooled then W.intern pool k else pool) k)), CI.mi (.pay op.toNat .s false [t] 0)],
                    map := c.map ++ [c.cur, c.cur] } := by
  unfold emitS at h
  rw [hk] at h
  obtain ⟨hmax, hc'⟩ := emitW_spec c c' _ sc rs pool ps hs hp h
  rw [W_emitS_const] at hmax hc'
  have hge := allocTemp_max_ge sc.ra 0
  by_cases hn : (sc.ra.allocTemp 0).1 ≥ 0xF0
  · exfalso
    rw [if_pos hn] at hmax
    simp only [W.finish, freeNear_max, freeTemp_max] at hmax
    have := alloc1_max_mono (sc.ra.allocTemp 0).2
    omega
  · rw [if_neg hn] at hmax hc'
    simp only [W.finish, freeNear_max, freeTemp_max, mark_max] at hmax
    have hnear := allocTemp_near sc.ra 0 (by omega)
    obtain ⟨a1, a2, a3, a4, a5⟩ := hnear
    obtain ⟨_, n2, n3⟩ := farTemp_const_net sc.ra k 0 a3 a1 a5
    refine ⟨(sc.ra.allocTemp 0).1, _, a1, ?_, a3, ?_, ?_, n2, ?_⟩
    · rw [n3]; exact a2
    · rw [n3]; exact a4
    · rw [n3]; exact hmax
    · rw [hc']
      simp only [W.finish, slotConst_const, Emit.emitS, regfar, Slot.isLocal, Bool.false_eq_true, if_false, hn, movenear, wb,
        List.append_nil, List.nil_append, List.map_cons, List.map_nil, List.cons_append]

/-- `janetc_emit_s(c, op, near local, 0)`: just the payload -/
theorem emitS_local (c c' : CState) (op : Op) (s : JSlot) (i : Nat) (hk : s.k = .loc i)
    (sc : Scope) (rs : List Scope) (pool : List KConst) (ps : List (List KConst))
    (hs : c.scopes = sc :: rs) (hp : c.pools = pool :: ps) (h : emitS c op s false = some c') :
    sc.ra.max < c.lim ∧
    c' = { c with scopes := sc :: rs, pools := pool :: ps, buf := c.buf ++ [CI.mi (.pay op.toNat .s false [i] 0)], map := c.map ++ [c.cur] } := by
  unfold emitS at h
  rw [hk] at h
  obtain ⟨hmax, hc'⟩ := emitW_spec c c' _ sc rs pool ps hs hp h
  have hX : W.emitS { ra := sc.ra, buf := [], consts := pool } op.toNat false (.loc i) =
      { ra := sc.ra, buf := [.pay op.toNat .s false [i] 0], consts := pool } := by
    simp [W.emitS, W.farTemp, Slot.isLocal, W.backTemp, W.freeNear, Slot.index, W.slotConst, W.finish, Emit.emitS, regfar, wb]
  rw [hX] at hmax hc'
  exact ⟨hmax, by rw [hc']; simp⟩

/-- `W.emitSS` with a near-local first operand and a constant second operand -/
theorem W_emitSS_loc_const (e : Emit.C) (op : Nat) (d : Nat) (hd : d ≤ 0xFF) (k : KConst) :
    W.emitSS e op true (.loc d) (.const k) =
      (if (e.ra.allocTemp 1).1 ≥ 0xF0 then
        W.finish e (W.freeNear (((e.ra.allocTemp 1).2.alloc1).2.freeTemp (e.ra.allocTemp 1).1 1) (.const k) ((e.ra.allocTemp 1).2.alloc1).1 1)
          ((W.slotConst (.const k)).foldl W.intern e.consts)
          (Emit.emitSS (W.poolIdx ((W.slotConst (.const k)).foldl W.intern e.consts)) op true (.loc d) (.const k) d (e.ra.allocTemp 1).1 ((e.ra.allocTemp 1).2.alloc1).1 0)
      else
        W.finish e (W.freeNear ((((e.ra.allocTemp 1).2).freeTemp (e.ra.allocTemp 1).1 1).mark (e.ra.allocTemp 1).1) (.const k) (e.ra.allocTemp 1).1 1)
          ((W.slotConst (.const k)).foldl W.intern e.consts)
          (Emit.emitSS (W.poolIdx ((W.slotConst (.const k)).foldl W.intern e.consts)) op true (.loc d) (.const k) d (e.ra.allocTemp 1).1 0 0)) := by
  have hnl : (Slot.loc d).nearLocal = true := by simp [Slot.nearLocal, hd]
  simp only [W.emitSS, W.nearTemp, W.needTemp, hnl, Bool.not_true, Bool.false_eq_true, if_false, Slot.index, W.farTemp, Slot.isLocal,
    W.backTemp, W.slotConst, List.nil_append]
  split
  · simp [W.freeNear, Slot.isLocal, Slot.index]
  · simp [W.freeNear, Slot.isLocal, Slot.index]

/-- `janetc_emit_ss(c, op, near local d, constant, 1)` (JOP_CALL with a constant callee) in the near case: a temporary that was
    free and is not `d`, a load of the constant, the payload; no write-back move; allocator restored -/
theorem emitSS_loc_const (c c' : CState) (op : Op) (s1 s2 : JSlot) (d : Nat) (k : KConst) (h1 : s1.k = .loc d) (hd : d ≤ 0xFF) (h2 : s2.k = .const k)
    (sc : Scope) (rs : List Scope) (pool : List KConst) (ps : List (List KConst))
    (hs : c.scopes = sc :: rs) (hp : c.pools = pool :: ps) (hl : c.lim ≤ 240) (h : emitSS c op s1 s2 true = some c') :
    ∃ t ra', sc.ra.alloc t = false ∧ t ≤ ra'.max ∧ t < 240 ∧ sc.ra.max ≤ ra'.max ∧ ra'.max < c.lim ∧ (∀ j, ra'.alloc j = sc.ra.alloc j) ∧
      c' = { c with scopes := { sc with ra := ra' } :: rs, pools := (if k.pooled then W.intern pool k else pool) :: ps,
                    buf := c.buf ++ [CI.mi (.ldk t k (W.poolIdx (if k.pooled then W.intern pool k else pool) k)), CI.mi (.pay op.toNat .ss true [d, t] 0)],
                    map := c.map ++ [c.cur, c.cur] } := by
  unfold emitSS at h
  rw [h1, h2] at h
  obtain ⟨hmax, hc'⟩ := emitW_spec c c' _ sc rs pool ps hs hp h
  rw [W_emitSS_loc_const _ _ _ hd] at hmax hc'
  have hge := allocTemp_max_ge sc.ra 1
  by_cases hn : (sc.ra.allocTemp 1).1 ≥ 0xF0
  · exfalso
    rw [if_pos hn] at hmax
    simp only [W.finish, freeNear_max, freeTemp_max] at hmax
    have := alloc1_max_mono (sc.ra.allocTemp 1).2
    omega
  · rw [if_neg hn] at hmax hc'
    simp only [W.finish, freeNear_max, freeTemp_max, mark_max] at hmax
    have hnear := allocTemp_near sc.ra 1 (by omega)
    obtain ⟨a1, a2, a3, a4, a5⟩ := hnear
    obtain ⟨_, n2, n3⟩ := farTemp_const_net sc.ra k 1 a3 a1 a5
    have hnl : (Slot.loc d).nearLocal = true := by simp [Slot.nearLocal, hd]
    refine ⟨(sc.ra.allocTemp 1).1, _, a1, ?_, a3, ?_, ?_, n2, ?_⟩
    · rw [n3]; exact a2
    · rw [n3]; exact a4
    · rw [n3]; exact hmax
    · rw [hc']
      simp only [W.finish, slotConst_const, Emit.emitSS, regnear, hnl, if_true, Slot.index, regfar, Slot.isLocal, Bool.false_eq_true, if_false, hn,
        movenear, wb, moveback, ne_eq, not_true_eq_false, List.append_nil, List.nil_append, List.map_cons, List.map_nil, List.cons_append]

end JanetModel.Compile
