/- C02: the SHAPE theorem of the compiler model on the core fragment `TF G b` (Compile/SeqCorrect.lean): compiling a form only
   appends to the code / map, only appends to the pool of the current function, only extends the value table, only changes the
   allocator and (by appending) the symbols of the innermost scope — proved by induction on the compile fuel WITHOUT any
   semantics or VM run (cases in Compile/SeqShapeCases.lean).  Needed for `janetc_if`, which compiles both branches while
   `Lang/Sem` evaluates one. -/
import JanetModel.Compile.SeqShapeCases
namespace JanetModel.Compile
open JanetModel.Emit JanetModel.Lang JanetModel.Bytecode.Exec JanetModel.Gen.Bytecode

theorem if_shape (G : String → Prop) (fuel : Nat) (IH : ShapeAt G fuel) (b : Bool) (cnd tb fb : Expr) (hic : IsCall cnd)
    (hTc : TF G b cnd) (hTt : TF G b tb) (hTf : TF G b fb) (opts : Fopts) (ht : opts.tail = false) (hh : opts.hint = none)
    (c c' : CState) (slot : JSlot) (sc : Scope) (rs : List Scope) (pool : List KConst) (ps : List (List KConst))
    (hs : c.scopes = sc :: rs) (hp : c.pools = pool :: ps) (hL : LkL G c.scopes)
    (hc : cIfBody (cValue fuel) opts cnd tb fb c = some (slot, c')) : Shp G c c' sc rs pool ps ∧ SlotSh slot := by
  obtain ⟨target, c1, cond, c3, hT, hcond, hrest⟩ := cIfBody_inv _ opts cnd tb fb c c' slot hc
  have hT' : StepR c c1 sc rs pool ps ∧ SlotSh target := by
    split at hT
    · simp only [Option.some.injEq, Prod.mk.injEq] at hT
      rw [← hT.1, ← hT.2]
      exact ⟨StepR.refl c sc rs pool ps hs hp, Or.inl ⟨rfl, .nil, rfl⟩⟩
    · obtain ⟨r, hr⟩ := getTarget_slot c c1 opts hh target hT
      exact ⟨getTarget_stepR c c1 opts target hh sc rs pool ps hs hp hT, by rw [hr]; exact Or.inr ⟨rfl, r, rfl⟩⟩
  obtain ⟨R0, hsT⟩ := hT'
  have S0 := R0.shp hs hL
  obtain ⟨sc1, pool1, hs1, hp1, _, hL1, hb1⟩ := S0.out
  rw [pushScope_blk c1 sc1 rs false hs1] at hcond
  have hLP : LkL G (blk c1 sc1 false :: sc1 :: rs) := by
    rw [hs1] at hL1; exact hL1.push _ rfl rfl
  obtain ⟨S1, _⟩ := IH b cnd {} { c1 with scopes := blk c1 sc1 false :: sc1 :: rs } c3 cond (blk c1 sc1 false) (sc1 :: rs) pool1 ps rfl rfl rfl hp1 rfl hTc hLP hcond
  have hnone : isConstSlot cond = none := call_isConst_none fuel {} rfl rfl cnd hic _ c3 cond hcond
  rw [hnone] at hrest
  simp only at hrest
  obtain ⟨c4, left, c6, c7, c8, right, c11, c12, c13, c14, e1, e2, e3, e4, e5, e6, e7, e8, _, _, _, eslot, ec'⟩ :=
    cIfJump_inv _ _ _ _ _ _ _ _ _ _ hrest
  obtain ⟨sc3, pool3, hs3, hp3, _, hL3, hb3⟩ := S1.out
  obtain ⟨R4, hlen4⟩ := emitSI_stepR c3 c4 _ cond 0 false sc3 (sc1 :: rs) pool3 ps hs3 hp3 e1
  have S4 := R4.shp hs3 hL3
  obtain ⟨sc4, pool4, hs4, hp4, _, hL4, _⟩ := S4.out
  have S8 := branch_shape G fuel IH b tb hTt opts ht hh target c4 c6 c7 c8 left sc4 (sc1 :: rs) pool4 ps hs4 hp4 hL4 e2 e3 e4
  obtain ⟨sc8, pool8, hs8, hp8, _, hL8, hb8⟩ := S8.out
  have R9 : StepR c8 (ifJmp (opts.drop && fbNilOf fb) c8) sc8 (sc1 :: rs) pool8 ps := by
    unfold ifJmp
    split
    · exact StepR.refl c8 sc8 _ pool8 ps hs8 hp8
    · exact emitRaw_stepR c8 _ sc8 _ pool8 ps hs8 hp8
  have S9 := R9.shp hs8 hL8
  obtain ⟨sc9, pool9, hs9, hp9, _, hL9, _⟩ := S9.out
  have S13 := branch_shape G fuel IH b fb hTf opts ht hh target _ c11 c12 c13 right sc9 (sc1 :: rs) pool9 ps hs9 hp9 hL9 e5 e6 e7
  have Sblock := S1.trans' hs3 hp3 (S4.trans' hs4 hp4 (S8.trans' hs8 hp8 (S9.trans' hs9 hp9 S13)))
  have S14 := pop_shape G c1 c13 c14 sc1 rs pool1 ps hs1 hL1 Sblock e8
  have Sall := S0.trans' hs1 hp1 S14
  have hb3' : c1.buf.length ≤ c3.buf.length := hb3
  have hi : c.buf.length ≤ lastLabel c4 := by unfold lastLabel; omega
  have hj : c.buf.length ≤ c8.buf.length := by omega
  rw [ec', eslot]
  exact ⟨Sall.patch _ _ _ _ hi hj, hsT⟩

/-! ### the theorem -/

theorem tf_shape_at (G : String → Prop) : ∀ fuel, ShapeAt G fuel := by
  intro fuel
  induction fuel with
  | zero =>
    intro b e opts c c' slot sc rs pool ps _ _ _ _ _ _ _ hc
    simp [cValue] at hc
  | succ fuel ih =>
    intro b e opts c c' slot sc rs pool ps ht hh hs hp htop hT hL hc
    cases hT with
    | lit w hw =>
      rw [cValue_lit_o fuel opts ht hh w hw c] at hc
      simp only [Option.some.injEq, Prod.mk.injEq] at hc
      obtain ⟨h1, h2⟩ := hc
      subst h1 h2
      exact ⟨Shp.recur (q := c.cur) (constSlot_shape G c w sc rs pool ps hs hp hL), Or.inl ⟨rfl, _, rfl⟩⟩
    | sym x =>
      rw [cValue_sym_o fuel opts ht hh] at hc
      cases hlk : lk c.scopes x with
      | none =>
        rw [resolve_global c x (by rw [lookupSlot_lk]; exact hlk)] at hc
        have hg : globalSlot c x = some (constSlot c (.cfun x)) := by
          unfold globalSlot at hc ⊢
          split at hc <;> simp_all [fin]
        rw [hg] at hc
        simp only [fin, Option.some.injEq, Prod.mk.injEq] at hc
        obtain ⟨h1, h2⟩ := hc
        subst h1 h2
        exact ⟨Shp.recur (q := c.cur) (constSlot_shape G c (.cfun x) sc rs pool ps hs hp hL), Or.inl ⟨rfl, _, rfl⟩⟩
      | some r =>
        obtain ⟨sl, u, l⟩ := r
        obtain ⟨hl, hcf, hk, _⟩ := hL.2 x sl u l hlk
        subst hl
        rw [resolve_local c x sl u (by rw [lookupSlot_lk]; exact hlk) hcf] at hc
        simp only [fin, Option.some.injEq, Prod.mk.injEq] at hc
        obtain ⟨h1, h2⟩ := hc
        subst h1 h2
        exact ⟨Shp.recur (q := c.cur) (Shp.refl hs hp hL), Or.inr ⟨hcf, hk⟩⟩
    | call f args pp hf hna hG hTa =>
      rw [cValue_call_o fuel opts ht hh f args pp c hf] at hc
      obtain ⟨q, hq⟩ := curAt_eq c pp
      cases hcc : cCall (cValue fuel) {} (.sym f) args (curAt c pp) with
      | none => rw [hcc] at hc; simp [fin] at hc
      | some res =>
        obtain ⟨slot0, cq⟩ := res
        rw [hcc] at hc
        simp only [fin, Option.some.injEq, Prod.mk.injEq] at hc
        obtain ⟨hsl, hc'⟩ := hc
        subst hsl hc'
        rw [hq] at hcc
        obtain ⟨S, hsl⟩ := cCall_shape G fuel ih b f args hTa { c with cur := q } cq slot0 sc rs pool ps hs hp htop hL hcc
        exact ⟨S.recur, hsl⟩
    | doo body pp hTb =>
      rw [cValue_do_o fuel opts ht hh body pp c] at hc
      obtain ⟨q, hq⟩ := curAt_eq c pp
      cases hcc : cDo (cValue fuel) opts body (curAt c pp) with
      | none => rw [hcc] at hc; simp [fin] at hc
      | some res =>
        obtain ⟨slot0, cq⟩ := res
        rw [hcc] at hc
        simp only [fin, Option.some.injEq, Prod.mk.injEq] at hc
        obtain ⟨hsl, hc'⟩ := hc
        subst hsl hc'
        rw [hq] at hcc
        obtain ⟨S, hsl⟩ := do_shape G fuel ih b body hTb opts ht hh { c with cur := q } cq slot0 sc rs pool ps hs hp hL hcc
        exact ⟨S.recur, hsl⟩
    | ups body pp hTb =>
      rw [cValue_upscope_o fuel opts ht hh body pp c] at hc
      obtain ⟨q, hq⟩ := curAt_eq c pp
      cases hcc : doBody (cValue fuel) opts body (curAt c pp) with
      | none => rw [hcc] at hc; simp [fin] at hc
      | some res =>
        obtain ⟨slot0, cq⟩ := res
        rw [hcc] at hc
        simp only [fin, Option.some.injEq, Prod.mk.injEq] at hc
        obtain ⟨hsl, hc'⟩ := hc
        subst hsl hc'
        rw [hq] at hcc
        obtain ⟨S, hsl⟩ := doBody_shape G fuel ih b body hTb opts { c with cur := q } cq slot0 sc rs pool ps ht hh hs hp htop hL hcc
        exact ⟨S.recur, hsl⟩
    | deff x ve pp hGx hTv =>
      rw [cValue_def_o fuel opts ht hh x ve pp c] at hc
      obtain ⟨q, hq⟩ := curAt_eq c pp
      cases hcc : cDef (cValue fuel) x ve (curAt c pp) with
      | none => rw [hcc] at hc; simp [fin] at hc
      | some res =>
        obtain ⟨slot0, cq⟩ := res
        rw [hcc] at hc
        simp only [fin, Option.some.injEq, Prod.mk.injEq] at hc
        obtain ⟨hsl, hc'⟩ := hc
        subst hsl hc'
        rw [hq] at hcc
        obtain ⟨S, hsl⟩ := def_shape G fuel ih b x ve hGx hTv { c with cur := q } cq slot0 sc rs pool ps hs hp htop hL hcc
        exact ⟨S.recur, hsl⟩
    | iff cnd tb rest pp _ hic hlen hTc hTt hTe =>
      rw [cValue_if_o fuel opts ht hh cnd tb rest pp c, cIf_le1 _ _ _ _ _ _ hlen] at hc
      obtain ⟨q, hq⟩ := curAt_eq c pp
      cases hcc : cIfBody (cValue fuel) opts cnd tb (rest.headD (.lit .nil)) (curAt c pp) with
      | none => rw [hcc] at hc; simp [fin] at hc
      | some res =>
        obtain ⟨slot0, cq⟩ := res
        rw [hcc] at hc
        simp only [fin, Option.some.injEq, Prod.mk.injEq] at hc
        obtain ⟨hsl, hc'⟩ := hc
        subst hsl hc'
        rw [hq] at hcc
        have hTf : TF G b (rest.headD (.lit .nil)) := by
          cases rest with
          | nil => exact .lit .nil trivial
          | cons e _ => exact hTe e (by simp)
        obtain ⟨S, hsl⟩ := if_shape G fuel ih b cnd tb _ hic hTc hTt hTf opts ht hh { c with cur := q } cq slot0 sc rs pool ps hs hp hL hcc
        exact ⟨S.recur, hsl⟩

/-- the shape theorem: compiling a form of the fragment (any `b`) only appends code / map / pool, only extends the value table,
    only changes the innermost scope's allocator and appends to its symbols; `segm.length = seg.length`; the result slot is a
    constant or a plain local -/
theorem tf_shape (G : String → Prop) (b : Bool) (fuel : Nat) (e : Expr) (opts : Fopts) (c c' : CState) (slot : JSlot) (sc : Scope) (rs : List Scope)
    (pool : List KConst) (ps : List (List KConst))
    (ht : opts.tail = false) (hh : opts.hint = none) (hs : c.scopes = sc :: rs) (hp : c.pools = pool :: ps) (htop : sc.top = false)
    (hT : TF G b e) (hL : LkL G c.scopes) (hc : cValue fuel opts e c = some (slot, c')) :
    (∃ (ra' : RA) (nsyms : List SymPair) (more : List KConst) (seg : List CI) (segm : List Pos),
      c' = { c with scopes := { sc with ra := ra', syms := sc.syms ++ nsyms } :: rs, pools := (pool ++ more) :: ps, buf := c.buf ++ seg,
                    map := c.map ++ segm, vals := c'.vals } ∧
      PrefA c.vals c'.vals ∧ LkL G c'.scopes ∧ segm.length = seg.length) ∧ SlotSh slot :=
  tf_shape_at G fuel b e opts c c' slot sc rs pool ps ht hh hs hp htop hT hL hc

end JanetModel.Compile
