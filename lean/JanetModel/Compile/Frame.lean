/- C02: the states one activation of the VM goes through while it runs straight-line / branching code of its own function:
   they differ from the state at entry only in the registers and pc of the current frame, the pending arguments and the
   world.  `inj` builds such a state; the step lemmas of Compile/Step.lean and Compile/Agree.lean are restated on them. -/
import JanetModel.Compile.Agree
namespace JanetModel.Compile
open JanetModel.Emit JanetModel.Lang JanetModel.Bytecode.Exec JanetModel.Gen.Bytecode

structure Cfg where
  regs : Array Value
  pc : Nat
  args : Array Value
  w : World

/-- the VM state with frame `f0` (registers and pc replaced) on top of `rest` -/
def inj (f0 : Frame) (rest : List Frame) (k : Cfg) : State :=
  { frames := { f0 with regs := k.regs, pc := k.pc } :: rest, heap := k.w.heap, args := k.args, trace := k.w.trace, result := k.w.result }

variable (f0 : Frame) (rest : List Frame)

theorem inj_cur (k : Cfg) : (inj f0 rest k).cur = { f0 with regs := k.regs, pc := k.pc } := rfl
theorem inj_getReg (k : Cfg) (r : Nat) : (inj f0 rest k).getReg r = k.regs.getD r .nil := rfl
theorem inj_pc (k : Cfg) : (inj f0 rest k).cur.pc = k.pc := rfl
theorem inj_world (k : Cfg) : (inj f0 rest k).world = k.w := rfl
theorem inj_args (k : Cfg) : (inj f0 rest k).args = k.args := rfl
theorem inj_curDef (p : Program) (k : Cfg) : curDef p (inj f0 rest k) = p.defs.getD f0.defIdx default := rfl
theorem inj_setAdv (k : Cfg) (r : Nat) (v : Value) :
    (inj f0 rest k).setAdv r v = inj f0 rest { k with regs := k.regs.setIfInBounds r v, pc := k.pc + 1 } := rfl
theorem inj_adv (k : Cfg) : (inj f0 rest k).adv = inj f0 rest { k with pc := k.pc + 1 } := rfl
theorem inj_jump (k : Cfg) (off : Int) : (inj f0 rest k).jump off = inj f0 rest { k with pc := (Int.ofNat k.pc + off).toNat } := rfl
theorem inj_setArgs (k : Cfg) (a : Array Value) : ({ inj f0 rest k with args := a } : State) = inj f0 rest { k with args := a } := rfl
theorem inj_withWorld (k : Cfg) (w : World) : (inj f0 rest k).withWorld w = inj f0 rest { k with w := w } := rfl
theorem inj_curPos (p : Program) (k : Cfg) :
    curPos p (inj f0 rest k) = (match (p.defs.getD f0.defIdx default).smap[k.pc]? with | some (l, c) => { line := l, col := c } | none => {}) := rfl

/-! ### running -/

/-- `n` VM steps, each of which continues -/
def stepsTo (p : Program) : Nat → State → State → Prop
  | 0, a, b => a = b
  | n + 1, a, b => ∃ m, step p a = .next m ∧ stepsTo p n m b

def Reach (p : Program) (a b : State) : Prop := ∃ n, stepsTo p n a b

theorem Reach.refl (p : Program) (a : State) : Reach p a a := ⟨0, rfl⟩

theorem Reach.head {p : Program} {a m b : State} (h : step p a = .next m) (r : Reach p m b) : Reach p a b := by
  obtain ⟨n, hn⟩ := r
  exact ⟨n + 1, m, h, hn⟩

theorem stepsTo_trans {p : Program} : ∀ {n k : Nat} {a b c : State}, stepsTo p n a b → stepsTo p k b c → stepsTo p (n + k) a c
  | 0, k, a, b, c, h1, h2 => by
    have : a = b := h1
    subst this
    simpa using h2
  | n + 1, k, a, b, c, h1, h2 => by
    obtain ⟨m, hm, hr⟩ := h1
    have := stepsTo_trans hr h2
    have e : n + 1 + k = (n + k) + 1 := by omega
    rw [e]
    exact ⟨m, hm, this⟩

theorem Reach.trans {p : Program} {a b c : State} (h1 : Reach p a b) (h2 : Reach p b c) : Reach p a c := by
  obtain ⟨n, hn⟩ := h1
  obtain ⟨k, hk⟩ := h2
  exact ⟨n + k, stepsTo_trans hn hk⟩

/-- reaching a state from which `run` finishes: `run` finishes the same way from the start (with more fuel) -/
theorem run_of_stepsTo {p : Program} : ∀ {n : Nat} {a b : State} {fuel : Nat}, stepsTo p n a b → run p (n + fuel) a = run p fuel b
  | 0, a, b, fuel, h => by
    have : a = b := h
    subst this
    simp
  | n + 1, a, b, fuel, h => by
    obtain ⟨m, hm, hr⟩ := h
    have e : n + 1 + fuel = (n + fuel) + 1 := by omega
    rw [e, run, hm]
    exact run_of_stepsTo hr

theorem run_of_reach {p : Program} {a b : State} (h : Reach p a b) (fuel : Nat) : ∃ fuel', run p fuel' a = run p fuel b := by
  obtain ⟨n, hn⟩ := h
  exact ⟨n + fuel, run_of_stepsTo hn⟩

end JanetModel.Compile
