/- C02: compile correctness, core fragment: a call of a global core function with ANY number of operands
   (`janetc_value` tuple case + `janetc_call`): head constant, operands by `janetc_toslots` (Compile/SeqArgs.lean), pushed by
   `janetc_pushslots` in groups (PUSH_3 / PUSH_2 / PUSH; specification `PushSpec`, proved as `pushN` in Compile/SeqPush.lean),
   target register, JOP_CALL, then every operand slot freed (`janetc_freeslots`). -/
import JanetModel.Compile.SeqArgs
namespace JanetModel.Compile
open JanetModel.Emit JanetModel.Lang JanetModel.Bytecode.Exec JanetModel.Gen.Bytecode

/-- `cCall` with the value used: the sequence of its steps -/
theorem cCallN_inv (rec' : Fopts → Expr → CState → Option (JSlot × CState)) (f : String) (args : List Expr) (c0 cq : CState) (slot : JSlot)
    (h : cCall rec' {} (.sym f) args c0 = some (slot, cq)) :
    ∃ head c1 slots c2 c3 cT c4 c5, rec' {} (.sym f) c0 = some (head, c1) ∧ toSlots rec' args c1 = some (slots, c2) ∧
      pushSlots c2 slots = some c3 ∧ getTarget c3 {} = some (slot, cT) ∧ emitSS cT .call slot head true = some c4 ∧
      freeslots c4 slots = some c5 ∧ freeslot c5 head = some cq := by
  unfold cCall at h
  simp only [Option.bind_eq_bind, Option.pure_def, Bool.false_and, Bool.false_eq_true, if_false, Option.bind_eq_some_iff, Prod.exists] at h
  obtain ⟨head, c1, h1, slots, c2, h2, h⟩ := h
  simp only [Option.ite_none_left_eq_some] at h
  obtain ⟨_, h⟩ := h
  simp only [Option.bind_eq_bind, Option.bind_eq_some_iff, Prod.exists, Option.some.injEq, Prod.mk.injEq, Option.pure_def] at h
  obtain ⟨c3, h3, t, cT, hT, c4, hE, t2, c42, ⟨ht, hc4⟩, c5, hf1, c6, hf2, hs, hq⟩ := h
  subst_vars
  exact ⟨head, c1, slots, c2, c3, cT, _, c5, h1, h2, h3, hT, hE, hf1, hf2⟩

/-- `Lang/Sem.eval` of a call of a global function that returned a value: the operands' evaluation and the application -/
theorem eval_callN_inv (n : Nat) (cur : Pos) (env env' : Env) (f : String) (args : List Expr) (pp : Pos) (s s' : SS) (v : Value)
    (hf : specials.contains f = false) (hg : lookupEnv env f = none)
    (h : eval n cur env (.form (.sym f :: args) pp) s = .ok (v, env') s') :
    ∃ n2 vs s_a, n = n2 + 2 ∧ evalArgs (n2 + 1) (posOf cur pp) env args s = .ok (vs, env') s_a ∧
      applyFn (n2 + 1) (posOf cur pp) (.cfun f) vs s_a = .ok v s' := by
  match n, h with
  | 0, h => simp [eval] at h
  | 1, h =>
    rw [eval_call 0 cur env f args pp s hf] at h
    simp [eval] at h
  | n2 + 2, h =>
    rw [eval_call (n2 + 1) cur env f args pp s hf, eval_sym_global n2 _ env f s hg] at h
    simp only at h
    cases he : evalArgs (n2 + 1) (posOf cur pp) env args s with
    | ok r s_a =>
      obtain ⟨vs, env_a⟩ := r
      rw [he] at h
      simp only at h
      cases ha : applyFn (n2 + 1) (posOf cur pp) (.cfun f) vs s_a with
      | ok v2 s3 =>
        rw [ha] at h
        simp only [R.ok.injEq, Prod.mk.injEq] at h
        obtain ⟨⟨hv, henv⟩, hs⟩ := h
        subst hv hs henv
        exact ⟨n2, vs, s_a, rfl, he, ha⟩
      | err _ _ _ => rw [ha] at h; exact absurd h (by simp)
      | brk _ _ => rw [ha] at h; exact absurd h (by simp)
      | stop _ => rw [ha] at h; exact absurd h (by simp)
    | err _ _ _ => rw [he] at h; exact absurd h (by simp)
    | brk _ _ => rw [he] at h; exact absurd h (by simp)
    | stop _ => rw [he] at h; exact absurd h (by simp)

/-- `janetc_freeslots`: only unnamed temporaries are released; every register in `Keep` (which contains none of them) stays
    allocated -/
theorem freeslots_keep (Keep : Nat → Prop) : ∀ (slots : List JSlot) (c cf : CState) (sc1 : Scope) (rs : List Scope), c.scopes = sc1 :: rs →
    (∀ sl, sl ∈ slots → sl.cflag = true ∨ sl.named = true ∨ (sl.cflag = false ∧ sl.named = false ∧ ∃ d, sl.k = .loc d ∧ ¬ Keep d)) →
    freeslots c slots = some cf →
    ∃ raf, cf = { c with scopes := { sc1 with ra := raf } :: rs } ∧ raf.max = sc1.ra.max ∧
      ∀ r, sc1.ra.alloc r = true → Keep r → raf.alloc r = true
  | [], c, cf, sc1, rs, hs, _, hf => by
    simp only [freeslots, Option.some.injEq] at hf
    exact ⟨sc1.ra, by rw [← hf]; exact cstate_scopes_eta c sc1 rs hs, rfl, fun _ h _ => h⟩
  | sl :: ss, c, cf, sc1, rs, hs, hok, hf => by
    simp only [freeslots, Option.bind_eq_bind, Option.bind_eq_some_iff] at hf
    obtain ⟨c1, h1, h2⟩ := hf
    have hrec := fun sl' (h : sl' ∈ ss) => hok sl' (by simp [h])
    rcases hok sl (by simp) with hcf | hnm | ⟨hcf, hnm, da, hka, hnk⟩
    · rw [freeslot_const c sl hcf] at h1
      rw [← Option.some.inj h1] at h2
      exact freeslots_keep Keep ss c cf sc1 rs hs hrec h2
    · rw [freeslot_named c sl hnm] at h1
      rw [← Option.some.inj h1] at h2
      exact freeslots_keep Keep ss c cf sc1 rs hs hrec h2
    · rw [freeslot_loc c sl da sc1 rs hs hcf hnm hka] at h1
      rw [← Option.some.inj h1] at h2
      obtain ⟨raf, e1, e2, e3⟩ := freeslots_keep Keep ss _ cf { sc1 with ra := sc1.ra.unmark da } rs rfl hrec h2
      refine ⟨raf, by rw [e1], e2, fun r hr hk => e3 r ?_ hk⟩
      have hne : r ≠ da := by intro e; rw [e] at hk; exact hnk hk
      simp only [RA.unmark, hne, if_false]; exact hr

section
variable (p : Program) (f0 : Frame) (rest : List Frame) (V : Array Value) (P : List KConst)

/-- specification of `janetc_pushslots` (proved in Compile/SeqPush.lean as `pushN`) -/
def PushSpec : Prop :=
  ∀ (slots : List JSlot) (c c3 : CState) (sc : Scope) (rs : List Scope) (pool : List KConst) (ps : List (List KConst)),
    c.scopes = sc :: rs → c.pools = pool :: ps → c.lim ≤ 240 →
    (∀ sl, sl ∈ slots → SK sl) → (∀ sl r, sl ∈ slots → sl.k = .loc r → sc.ra.alloc r = true) →
    pushSlots c slots = some c3 →
    ∃ (ra3 : RA) (more : List KConst) (seg : List CI) (segm : List Pos),
      c3 = { c with scopes := { sc with ra := ra3 } :: rs, pools := (pool ++ more) :: ps, buf := c.buf ++ seg, map := c.map ++ segm } ∧
      (∀ j, ra3.alloc j = sc.ra.alloc j) ∧ sc.ra.max ≤ ra3.max ∧
      ∀ (k : Cfg), CodeAt (p.defs.getD f0.defIdx default).code k.pc seg → PrefL (pool ++ more) P → ra3.max < k.regs.size →
        ∃ (regs' : Array Value) (A : Array Value),
          Reach p (inj f0 rest k) (inj f0 rest { regs := regs', pc := k.pc + seg.length, args := A, w := k.w }) ∧
          A.toList = k.args.toList ++ slots.map (slotVal V k.regs) ∧
          regs'.size = k.regs.size ∧ ∀ r, sc.ra.alloc r = true → regs'.getD r .nil = k.regs.getD r .nil

theorem callN_core (hP : P.length < 65536)
    (hK : ∀ i, i < P.length → (p.defs.getD f0.defIdx default).consts.getD i .nil = litOf V (P.getD i .nil))
    (PS : PushSpec p f0 rest V P)
    (FF : FloatFacts) (G : String → Prop) (T : Expr → Prop) (w : Bool) (fuel : Nat) (IH : CorrectAt p f0 rest V P G T w fuel)
    (ML : MLAt G T w fuel) (hns : ∀ a, T a → isSplice a = none)
    (f : String) (args : List Expr) (hna : f ≠ "apply") (hG : G f) (hTa : ∀ a, a ∈ args → T a)
    (c cq : CState) (slot0 : JSlot) (sc : Scope) (rs : List Scope) (pool : List KConst) (ps : List (List KConst))
    (n2 : Nat) (pos : Pos) (env env_a : Env) (s s_a s' : SS) (vs : List Value) (v : Value)
    (hs : c.scopes = sc :: rs) (hp : c.pools = pool :: ps) (hl : c.lim ≤ 240) (htop : sc.top = false)
    (hm : w = true → c.map.length = c.buf.length)
    (hcc : cCall (cValue fuel) {} (.sym f) args c = some (slot0, cq))
    (hsa : evalArgs (n2 + 1) pos env args s = .ok (vs, env_a) s_a) (happ : applyFn (n2 + 1) pos (.cfun f) vs s_a = .ok v s')
    (hE : EnvS G c.scopes env s.boxes.size sc.ra) :
    Correct2 p f0 rest V P G false c cq slot0 sc rs pool ps env env_a s s' v := by
  obtain ⟨head, c1, slots, c2, c3, cT, c4, c5, h1, h2, h3, hT, hEm, hf1, hf2⟩ := cCallN_inv (cValue fuel) f args c cq slot0 hcc
  cases fuel with
  | zero => simp [cValue] at h1
  | succ fuel' =>
  have hg0 : lookupSlot c f = none := by rw [lookupSlot_lk]; exact hE.1 f hG
  rw [cValue_sym, resolve_global _ f hg0] at h1
  have hgs : globalSlot c f = some (constSlot c (.cfun f)) := by
    unfold globalSlot at h1 ⊢
    split at h1 <;> simp_all [fin]
  rw [hgs] at h1
  simp only [fin, Option.some.injEq, Prod.mk.injEq] at h1
  obtain ⟨hh, hc1⟩ := h1
  obtain ⟨vals1, kf, k1, k2, k3, k4⟩ := kOf_spec' FF c (.cfun f) trivial
  have cs : constSlot c (.cfun f) = (cslot kf, { c with vals := vals1 }) := by
    unfold constSlot; rw [k1]
  rw [cs] at hh hc1
  have hhead : head = cslot kf := hh.symm
  have hc1eq : c1 = { c with vals := vals1 } := hc1.symm
  subst hhead hc1eq
  -- the operands
  have hs1 : ({ c with vals := vals1 } : CState).scopes = sc :: rs := hs
  have hp1 : ({ c with vals := vals1 } : CState).pools = pool :: ps := hp
  obtain ⟨ra2, ns2, more2, seg2, segm2, hc2, pv2, r1a, r3a, sok2, bx2, es2, nf2, vm2⟩ :=
    toSlots_correct p f0 rest V P G T w (fuel' + 1) IH ML hns args hTa _ c2 slots sc rs pool ps (n2 + 1) pos env env_a s s_a vs hs1 hp1 hl htop hm h2 hsa hE
  have hs2 : c2.scopes = { sc with ra := ra2, syms := sc.syms ++ ns2 } :: rs := by rw [hc2]
  have hp2 : c2.pools = (pool ++ more2) :: ps := by rw [hc2]
  have hl2 : c2.lim ≤ 240 := by rw [hc2]; exact hl
  have hsk : ∀ sl, sl ∈ slots → SK sl := fun sl h => (sok2 sl h).sk
  have hal2 : ∀ sl r, sl ∈ slots → sl.k = .loc r → ra2.alloc r = true := by
    intro sl r hsl hk
    rcases sok2 sl hsl with ⟨_, kc, hk', _⟩ | ⟨_, _, r', hk', a4, _⟩ | ⟨_, _, d', hk', _, a5, _, _⟩
    · rw [hk] at hk'; exact absurd hk' (by simp)
    · rw [hk] at hk'; injection hk' with e; subst e; exact a4
    · rw [hk] at hk'; injection hk' with e; subst e; exact a5
  obtain ⟨ra3, more3, seg3, segm3, hc3, e3, m3, vm3⟩ :=
    PS slots c2 c3 { sc with ra := ra2, syms := sc.syms ++ ns2 } rs (pool ++ more2) ps hs2 hp2 hl2 hsk hal2 h3
  have hs3 : c3.scopes = { sc with ra := ra3, syms := sc.syms ++ ns2 } :: rs := by rw [hc3]
  have hp3 : c3.pools = ((pool ++ more2) ++ more3) :: ps := by rw [hc3]
  have hl3 : c3.lim ≤ 240 := by rw [hc3]; exact hl2
  obtain ⟨d, ra4, more4, seg4, segm4, hslot, hc4, d1, d2, d3, d4, d5, vm4⟩ :=
    callEmit p f0 rest V P hP hK c3 cT c4 slot0 (cslot kf) kf f hna { sc with ra := ra3, syms := sc.syms ++ ns2 } rs ((pool ++ more2) ++ more3) ps
      hs3 hp3 hl3 rfl hT hEm
  have hs4 : c4.scopes = { sc with ra := ra4, syms := sc.syms ++ ns2 } :: rs := by rw [hc4]
  rw [freeslot_const c5 (cslot kf) rfl] at hf2
  have hcq : c5 = cq := Option.some.inj hf2
  subst hcq
  have e3' : ∀ j, ra3.alloc j = ra2.alloc j := e3
  have d1' : ra3.alloc d = false := d1
  have d2' : ∀ j, ra4.alloc j = (if j = d then true else ra3.alloc j) := d2
  have m3' : ra2.max ≤ ra3.max := m3
  have d4' : ra3.max ≤ ra4.max := d4
  have hd240 : d < 240 := by
    have : c3.lim ≤ 240 := hl3
    omega
  have hd_sc : sc.ra.alloc d = false := by
    cases hh : sc.ra.alloc d with
    | false => rfl
    | true => have := r1a d hh; rw [← e3' d, d1'] at this; exact Bool.noConfusion this
  have hlk2 : ∀ ra x, lk ({ sc with ra := ra, syms := sc.syms ++ ns2 } :: rs) x = lk c2.scopes x := by
    intro ra x; rw [hs2]; rfl
  -- the final allocator
  let Keep : Nat → Prop := fun r => sc.ra.alloc r = true ∨ r = d ∨ ∃ x slot u l, lk c2.scopes x = some (slot, u, l) ∧ slot.k = .loc r
  have hfree : ∀ sl, sl ∈ slots → sl.cflag = true ∨ sl.named = true ∨ (sl.cflag = false ∧ sl.named = false ∧ ∃ da, sl.k = .loc da ∧ ¬ Keep da) := by
    intro sl hsl
    rcases sok2 sl hsl with ⟨hcf, _⟩ | ⟨_, hnm, _⟩ | ⟨hcf, hnm, da, hka', hda1, hda2, _, hnn⟩
    · exact Or.inl hcf
    · exact Or.inr (Or.inl hnm)
    · refine Or.inr (Or.inr ⟨hcf, hnm, da, hka', ?_⟩)
      rintro (h | h | ⟨x, slot, u, l, hx, hk⟩)
      · rw [h] at hda1; exact Bool.noConfusion hda1
      · rw [h, ← e3' d, d1'] at hda2; exact Bool.noConfusion hda2
      · exact hnn x slot u l hx hk
  obtain ⟨ra5, hc5, hmax5, r15⟩ := freeslots_keep Keep slots c4 c5 { sc with ra := ra4, syms := sc.syms ++ ns2 } rs hs4 hfree hf1
  have hmax5' : ra5.max = ra4.max := hmax5
  have r15' : ∀ r, ra4.alloc r = true → Keep r → ra5.alloc r = true := r15
  have hs5 : c5.scopes = { sc with ra := ra5, syms := sc.syms ++ ns2 } :: rs := by rw [hc5]
  have h24 : ∀ r, ra2.alloc r = true → ra4.alloc r = true := by
    intro r hr; rw [d2' r]; split
    · rfl
    · rw [e3' r]; exact hr
  have hd5 : ra5.alloc d = true := r15' d (by rw [d2' d]; simp) (Or.inr (Or.inl rfl))
  have hbx : s'.boxes = s_a.boxes := applyFn_cfun_boxes n2 pos f hna vs s_a s' v happ
  have hnames : ∀ x slot u l r, lk c2.scopes x = some (slot, u, l) → slot.k = .loc r → ra2.alloc r = true → ra5.alloc r = true :=
    fun x slot u l r hx hk hr => r15' r (h24 r hr) (Or.inr (Or.inr ⟨x, slot, u, l, hx, hk⟩))
  refine ⟨ra5, ns2, more2 ++ more3 ++ more4, seg2 ++ seg3 ++ seg4, segm2 ++ segm3 ++ segm4, ?_, ?_, ?_, ?_, ?_, ?_, ?_, ?_, ?_⟩
  · rw [hc5, hc4, hc3, hc2]
    simp [List.append_assoc]
  · rw [hc5, hc4, hc3]
    exact PrefA.trans k2 pv2
  · intro r hr; exact r15' r (h24 r (r1a r hr)) (Or.inl hr)
  · rw [hmax5']; exact Nat.le_trans r3a (Nat.le_trans m3' d4')
  · refine Or.inr (Or.inr ⟨by rw [hslot], by rw [hslot], d, by rw [hslot], hd_sc, hd5, hd240, ?_⟩)
    intro x slot u l hx hk
    rw [hs5, hlk2] at hx
    obtain ⟨_, _, _, r, a', hk', _, _, hal, _⟩ := es2.found hx
    rw [hk'] at hk
    have : r = d := by injection hk
    rw [this, ← e3' d, d1'] at hal
    exact Bool.noConfusion hal
  · rw [hbx]; exact bx2
  · rw [hs5, hbx]
    exact es2.of_lk (hlk2 ra5) (Nat.le_refl _) hnames
  · refine ⟨fun d0 hd0 hno => (nf2 d0 hd0 hno).of_lk (fun x => by rw [hs5, hlk2]), fun r hnm => ?_⟩
    rw [hslot] at hnm; exact absurd hnm (by simp)
  · intro k hkw hka hD hcode hpre hV hsz
    rw [hmax5'] at hsz
    have hvals : c5.vals = c2.vals := by rw [hc5, hc4, hc3]
    rw [hvals] at hV
    have hcodeA : CodeAt (p.defs.getD f0.defIdx default).code k.pc seg2 := by
      rw [List.append_assoc] at hcode; exact hcode.left
    have hcodeB : CodeAt (p.defs.getD f0.defIdx default).code (k.pc + seg2.length) seg3 := by
      rw [List.append_assoc] at hcode; exact hcode.right.left
    have hcodeC : CodeAt (p.defs.getD f0.defIdx default).code (k.pc + seg2.length + seg3.length) seg4 := by
      rw [List.append_assoc] at hcode; exact hcode.right.right
    have hpreA : PrefL (pool ++ more2) P := by
      refine PrefL.trans ?_ hpre
      exact ⟨more3 ++ more4, by simp [List.append_assoc]⟩
    have hpreB : PrefL (pool ++ more2 ++ more3) P := by
      refine PrefL.trans ?_ hpre
      exact ⟨more4, by simp [List.append_assoc]⟩
    have hpreC : PrefL (pool ++ more2 ++ more3 ++ more4) P := by
      refine PrefL.trans ?_ hpre
      exact ⟨[], by simp [List.append_assoc]⟩
    obtain ⟨regs2, rch2, sz2, pr2, sv2, ed2⟩ := vm2 k hkw hka hD hcodeA hpreA hV (by omega)
    obtain ⟨regs3, A, rch3, hA, sz3, pr3⟩ := vm3 { regs := regs2, pc := k.pc + seg2.length, args := #[], w := s_a.st.world } hcodeB hpreB
      (by show ra3.max < regs2.size; omega)
    have sz3' : regs3.size = regs2.size := sz3
    have pr3' : ∀ r, ra2.alloc r = true → regs3.getD r .nil = regs2.getD r .nil := pr3
    have hlit : litOf V kf = .cfun f := by
      rw [litOf_pref (PrefA.trans pv2 hV) kf k3]; exact k4
    have hargs : A.toList = vs := by
      rw [hA, ← sv2]; simp
    obtain ⟨regs4, rch4, sz4, hv4, pr4⟩ := vm4
      { regs := regs3, pc := k.pc + seg2.length + seg3.length, args := A, w := s_a.st.world }
      s_a s' n2 pos v hcodeC hpreC (by show ra4.max < regs3.size; omega) rfl hlit (by rw [hargs]; exact happ)
    have sz4' : regs4.size = regs3.size := sz4
    have pr4' : ∀ r, ra3.alloc r = true → regs4.getD r .nil = regs3.getD r .nil := pr4
    refine ⟨regs4, ?_, by omega, ?_, ?_, ?_⟩
    · have e : k.pc + (seg2 ++ seg3 ++ seg4).length = k.pc + seg2.length + seg3.length + seg4.length := by
        simp [List.length_append]; omega
      rw [e]
      exact Reach.trans rch2 (Reach.trans rch3 rch4)
    · intro r hr
      have h2r : ra2.alloc r = true := r1a r hr
      have h3r : ra3.alloc r = true := by rw [e3' r]; exact h2r
      rw [pr4' r h3r, pr3' r h2r, pr2 r hr]
    · intro _; simp only [slotVal, hslot]; exact hv4
    · intro x slot u l r a' hx hk he
      rw [hs5, hlk2] at hx
      obtain ⟨_, _, _, r', _, hk', _, _, hal, _⟩ := es2.found hx
      have hrr : r' = r := by rw [hk'] at hk; injection hk
      rw [hrr] at hal
      have h3r : ra3.alloc r = true := by rw [e3' r]; exact hal
      rw [pr4' r h3r, pr3' r hal, ed2 x slot u l r a' hx hk he]
      simp only [readBox, hbx]

end

end JanetModel.Compile
