/- C02: VM runs of the instruction sequences the compiler model emits for operands and calls, on frame-local configurations. -/
import JanetModel.Compile.Frame
import JanetModel.Compile.EmitSpec
namespace JanetModel.Compile
open JanetModel.Emit JanetModel.Lang JanetModel.Bytecode.Exec JanetModel.Gen.Bytecode

/-- IEEE facts about Lean's opaque `Float` that the constant cases need (not provable inside Lean: `Float` has no
    computational content for the kernel) -/
structure FloatFacts : Prop where
  bits : ∀ x y : Float, x.toBits = y.toBits → x = y
  int16 : ∀ (x : Float) (n : Int), intLit x = some n → Float.ofInt n = x

variable (p : Program) (f0 : Frame) (rest : List Frame)

/-- `seg` sits in the code of the running function at `pc` -/
def CodeAt (code : Array Nat) (pc : Nat) (seg : List CI) : Prop := ∀ i ci, seg[i]? = some ci → code[pc + i]? = some ci.word

theorem CodeAt.head {code : Array Nat} {pc : Nat} {ci : CI} {seg : List CI} (h : CodeAt code pc (ci :: seg)) : code[pc]? = some ci.word := by
  have := h 0 ci rfl
  simpa using this

theorem CodeAt.tail {code : Array Nat} {pc : Nat} {ci : CI} {seg : List CI} (h : CodeAt code pc (ci :: seg)) : CodeAt code (pc + 1) seg := by
  intro i x hx
  have := h (i + 1) x (by simpa using hx)
  have e : pc + 1 + i = pc + (i + 1) := by omega
  rw [e]; exact this

theorem CodeAt.left {code : Array Nat} {pc : Nat} {a b : List CI} (h : CodeAt code pc (a ++ b)) : CodeAt code pc a := by
  intro i x hx
  exact h i x (by rw [List.getElem?_append_left (by exact (List.getElem?_eq_some_iff.mp hx).1)]; exact hx)

theorem CodeAt.right {code : Array Nat} {pc : Nat} {a b : List CI} (h : CodeAt code pc (a ++ b)) : CodeAt code (pc + a.length) b := by
  intro i x hx
  have := h (a.length + i) x (by rw [List.getElem?_append_right (by omega)]; simpa using hx)
  have e : pc + a.length + i = pc + (a.length + i) := by omega
  rw [e]; exact this

/-- load of a constant into register `t` -/
theorem run_ldk (k : Cfg) (t : Nat) (kc : KConst) (idx : Nat) (V : Array Value) (ht : t < 256) (hi : idx < 65536)
    (hcode : (p.defs.getD f0.defIdx default).code[k.pc]? = some (CI.mi (.ldk t kc idx)).word)
    (hconst : kc.pooled = true → (p.defs.getD f0.defIdx default).consts.getD idx .nil = litOf V kc) :
    step p (inj f0 rest k) = .next (inj f0 rest { k with regs := k.regs.setIfInBounds t (litOf V kc), pc := k.pc + 1 }) := by
  have h := step_mi p (inj f0 rest k) (.ldk t kc idx) ⟨ht, hi⟩ (by rw [inj_curDef, inj_pc]; exact hcode)
  rw [h]
  cases kc with
  | nil => simp only [vmExecMI, litOf, inj_setAdv]
  | tru => simp only [vmExecMI, litOf, inj_setAdv]
  | fls => simp only [vmExecMI, litOf, inj_setAdv]
  | int n =>
    by_cases hn : -32768 ≤ n ∧ n ≤ 32767
    · simp only [vmExecMI, hn, and_self, if_true, litOf, inj_setAdv]
    · have hp : (KConst.int n).pooled = true := by simp [KConst.pooled, hn]
      simp only [vmExecMI, hn, if_false, inj_curDef, hconst hp, inj_setAdv]
  | refarr id => simp only [vmExecMI, inj_curDef, hconst rfl, inj_setAdv]
  | other id => simp only [vmExecMI, inj_curDef, hconst rfl, inj_setAdv]

/-- JOP_PUSH of register `r` -/
theorem run_push (k : Cfg) (r : Nat) (hr : r < 256)
    (hcode : (p.defs.getD f0.defIdx default).code[k.pc]? = some (CI.mi (.pay Op.push.toNat .s false [r] 0)).word) :
    step p (inj f0 rest k) = .next (inj f0 rest { k with args := k.args.push (k.regs.getD r .nil), pc := k.pc + 1 }) := by
  have h := push_agrees p (inj f0 rest k) r (by omega) (by rw [inj_curDef, inj_pc]; exact hcode)
  rw [h]
  rfl

end JanetModel.Compile
