/- C02: compile correctness, tail position: `janetc_if` compiled in TAIL position (no target register; the condition compiled
   non-tail in its block scope; both branches compiled with the tail flag in block scopes of their own, no copy, no JUMP after
   the then-branch; only the conditional jump is patched).  The branch `Lang/Sem` evaluates is run with the tail induction
   hypothesis (`branchT_core`), the other branch's compile-side effect comes from the tail shape theorem (`tf_shapeT_at`).
   Jump path: `tail_if_jump_core`; folding path (constant condition): `tail_if_const_core` — there the model hands back the
   un-flagged constant nil, so `janetc_value` appends a RETURN_NIL the VM never reaches. -/
import JanetModel.Compile.SeqTailAll
import JanetModel.Compile.SeqTailNRb
import JanetModel.Compile.SeqShapeT
import JanetModel.Compile.SeqCoreIf
namespace JanetModel.Compile
open JanetModel.Emit JanetModel.Lang JanetModel.Bytecode.Exec JanetModel.Gen.Bytecode

/-- the steps of the jump path in tail position, with the range check of the conditional jump kept -/
theorem cIfJumpT_inv2 (rec' : Fopts → Expr → CState → Option (JSlot × CState)) (opts : Fopts) (target cond : JSlot) (tb fb : Expr) (fbNil : Bool)
    (c3 c' : CState) (slot : JSlot) (h : cIfJumpT rec' opts target cond tb fb fbNil c3 = some (slot, c')) :
    ∃ c4 left c6 c8 right c11 c13 c14,
      emitSI c3 .jumpIfNot cond 0 false = some c4 ∧
      rec' opts tb (pushScope c4 false false false false) = some (left, c6) ∧ popScope c6 = some c8 ∧
      rec' opts fb (pushScope c8 false false false false) = some (right, c11) ∧ popScope c11 = some c13 ∧ popScope c13 = some c14 ∧
      c8.buf.length ≤ 32767 + lastLabel c4 ∧ slot.returned = true ∧
      c' = { c14 with buf := modBuf c14.buf (lastLabel c4) (patchCond (c8.buf.length - lastLabel c4)) } := by
  simp [cIfJumpT, Option.bind_eq_some_iff] at h
  obtain ⟨c4, h1, left, c6, h2, c8, h4, right, c11, h5, c13, h7, c14, h8, hb, h11, h12⟩ := h
  exact ⟨c4, left, c6, c8, right, c11, c13, c14, h1, h2, h4, h5, h7, h8, hb.1, by rw [← h11], h12.symm⟩

/-- one branch of a tail-position `if`, compile side only (also for the branch not taken): block scope, the form with the tail
    flag, pop -/
theorem branchT_shape2 (G : String → Prop) (fuel : Nat) (b : Bool) (x : Expr) (hx : TF G b x)
    (opts : Fopts) (ht : opts.tail = true) (hh : opts.hint = none)
    (c c6 c8 : CState) (left : JSlot) (sc : Scope) (rs : List Scope) (pool : List KConst) (ps : List (List KConst))
    (hs : c.scopes = sc :: rs) (hp : c.pools = pool :: ps) (hm : c.map.length = c.buf.length) (hL : LkL G c.scopes)
    (h1 : cValue fuel opts x (pushScope c false false false false) = some (left, c6)) (h3 : popScope c6 = some c8) :
    ∃ (ra3 : RA) (ns3 : List SymPair) (more : List KConst) (seg : List CI) (segm : List Pos),
      c8 = { c with scopes := { sc with ra := ra3, syms := sc.syms ++ ns3 } :: rs, pools := (pool ++ more) :: ps, buf := c.buf ++ seg,
                    map := c.map ++ segm, vals := c8.vals } ∧
      PrefA c.vals c8.vals ∧ segm.length = seg.length ∧ (∀ q, q ∈ ns3 → q.visible = false) ∧
      (∀ j, sc.ra.alloc j = true → ra3.alloc j = true) ∧ sc.ra.max ≤ ra3.max := by
  rw [pushScope_blk c sc rs false hs] at h1
  have hLP : LkL G (blk c sc false :: sc :: rs) := by
    rw [hs] at hL; exact hL.push _ rfl rfl
  obtain ⟨S1, _⟩ := tf_shapeT_at G fuel b x opts { c with scopes := blk c sc false :: sc :: rs } c6 left (blk c sc false) (sc :: rs) pool ps
    ht hh rfl hp rfl hm hx hLP h1
  exact pop_shape2 G c c6 c8 sc rs pool ps S1 h3

section
variable (p : Program) (f0 : Frame) (rest : List Frame) (V : Array Value) (P : List KConst)

/-- the branch of a tail-position `if` that is taken: the VM run of its code (stated against the segment the branch appended) -/
theorem branchT_core (G : String → Prop) (b : Bool) (fuel : Nat) (IHt : TailAt p f0 rest V P G (TF G b) fuel)
    (x : Expr) (hx : TF G b x) (opts : Fopts) (ht : opts.tail = true) (hh : opts.hint = none)
    (c4 c6 c8 : CState) (left : JSlot) (sc4 : Scope) (rs4 : List Scope) (pool4 : List KConst) (ps : List (List KConst))
    (n2 : Nat) (pos : Pos) (cenv envb : Env) (s1 s' : SS) (v : Value)
    (hs4 : c4.scopes = sc4 :: rs4) (hp4 : c4.pools = pool4 :: ps) (hl : c4.lim ≤ 240) (hm4 : c4.map.length = c4.buf.length)
    (h1 : cValue fuel opts x (pushScope c4 false false false false) = some (left, c6)) (h3 : popScope c6 = some c8)
    (hsem : eval n2 pos cenv x s1 = .ok (v, envb) s')
    (hE : EnvS G c4.scopes cenv s1.boxes.size sc4.ra) (hN : NR c4.scopes) :
    ∀ (seg : List CI) (pool8 : List KConst) (sc8 : Scope), c8.buf = c4.buf ++ seg → c8.pools = pool8 :: ps → c8.scopes = sc8 :: rs4 →
      ∀ (k : Cfg), k.w = s1.st.world → k.args = #[] → EnvD c4.scopes cenv s1 k.regs →
        CodeAt (p.defs.getD f0.defIdx default).code k.pc seg → PrefL pool8 P → PrefA c8.vals V → sc8.ra.max < k.regs.size →
        ∃ (regs' A : Array Value) (pc' : Nat) (wa : World),
          Reach p (inj f0 rest k) (inj f0 rest { regs := regs', pc := pc', args := A, w := wa }) ∧ regs'.size = k.regs.size ∧
          step p (inj f0 rest { regs := regs', pc := pc', args := A, w := wa }) =
            doReturn p (inj f0 rest { regs := regs', pc := pc', args := #[], w := s'.st.world }) v := by
  rw [pushScope_blk c4 sc4 rs4 false hs4] at h1
  have hlk1 : ∀ y, lk (blk c4 sc4 false :: sc4 :: rs4) y = lk c4.scopes y := by
    intro y; rw [hs4]; exact lk_push _ _ rfl rfl rfl y
  have hE1 : EnvS G ({ c4 with scopes := blk c4 sc4 false :: sc4 :: rs4 } : CState).scopes cenv s1.boxes.size (blk c4 sc4 false).ra :=
    hE.of_lk hlk1 (Nat.le_refl _) (fun _ _ _ _ _ _ _ h => h)
  obtain ⟨_, ra6, ns6, more6, seg6, segm6, hc6, pv6, mono6, max6, vm6⟩ :=
    IHt x opts { c4 with scopes := blk c4 sc4 false :: sc4 :: rs4 } c6 left (blk c4 sc4 false) (sc4 :: rs4) pool4 ps n2 pos cenv envb s1 s' v
      ht hh rfl hp4 hl rfl hm4 hx h1 hsem hE1 (hN.of_lk hlk1)
  have hs6 : c6.scopes = { blk c4 sc4 false with ra := ra6, syms := (blk c4 sc4 false).syms ++ ns6 } :: sc4 :: rs4 := by rw [hc6]
  obtain ⟨raX, hpop, hmaxX, _⟩ := popScope_block c6 _ sc4 rs4 hs6 rfl rfl rfl
  rw [hpop] at h3
  have hc8 := (Option.some.inj h3).symm
  intro seg pool8 sc8 hbuf hpool hscope k hkw hka hD hcode hpre hV hsz
  have e_seg : seg = seg6 := by
    have : c8.buf = c4.buf ++ seg6 := by
      rw [hc8]
      show c6.buf = _
      rw [hc6]
    rw [this] at hbuf
    exact (List.append_cancel_left hbuf).symm
  have e_pool : pool8 = pool4 ++ more6 := by
    have : c8.pools = (pool4 ++ more6) :: ps := by
      rw [hc8]
      show c6.pools = _
      rw [hc6]
    rw [this] at hpool
    exact (List.cons.inj hpool).1.symm
  have e_sc : sc8.ra.max = raX.max := by
    have : c8.scopes = { sc4 with ra := raX, syms := sc4.syms ++
        ((blk c4 sc4 false).syms ++ ns6).map (fun q => { q with visible := false }) } :: rs4 := by rw [hc8]
    rw [this] at hscope
    rw [← (List.cons.inj hscope).1]
  subst e_seg e_pool
  have hvals : c8.vals = c6.vals := by rw [hc8]
  rw [hvals] at hV
  have hmaxX' : raX.max = (if sc4.ra.max < ra6.max then ra6.max else sc4.ra.max) := hmaxX
  have hsz6 : ra6.max < k.regs.size := by
    rw [e_sc, hmaxX'] at hsz
    split at hsz <;> omega
  exact vm6 k hkw hka (hD.of_lk hlk1) hcode hpre hV hsz6

/-- `janetc_if` in tail position, non-constant condition slot -/
theorem tail_if_jump_core (G : String → Prop) (b w : Bool) (fuel : Nat) (IH : CorrectAt p f0 rest V P G (TF G b) w fuel)
    (NRf : NRAt G (TF G b) fuel) (IHt : TailAt p f0 rest V P G (TF G b) fuel)
    (cnd tb fb : Expr) (hTc : TF G b cnd) (hTt : TF G b tb) (hTf : TF G b fb)
    (opts : Fopts) (ht : opts.tail = true) (hh : opts.hint = none)
    (c c' : CState) (slot : JSlot) (sc : Scope) (rs : List Scope) (pool : List KConst) (ps : List (List KConst))
    (n2 : Nat) (pos : Pos) (env cenv envb : Env) (s s1 s' : SS) (cv v : Value)
    (hs : c.scopes = sc :: rs) (hp : c.pools = pool :: ps) (hl : c.lim ≤ 240) (hm : c.map.length = c.buf.length)
    (c3 : CState) (cond : JSlot)
    (hcond : cValue fuel {} cnd (pushScope c false false false false) = some (cond, c3))
    (hnc : isConstSlot cond = none)
    (hj : cIfJumpT (cValue fuel) opts (cslot .nil) cond tb fb (fbNilOf fb) c3 = some (slot, c'))
    (hsc : eval n2 pos env cnd s = .ok (cv, cenv) s1)
    (hsb : eval n2 pos cenv (if truthy cv then tb else fb) s1 = .ok (v, envb) s')
    (hE : EnvS G c.scopes env s.boxes.size sc.ra) (hN : NR c.scopes) :
    TailOK p f0 rest V P G c c' slot sc rs pool ps env s s' v := by
  -- the condition, in its block scope
  rw [pushScope_blk c sc rs false hs] at hcond
  have hlk1 : ∀ y, lk (blk c sc false :: sc :: rs) y = lk c.scopes y := by
    intro y; rw [hs]; exact lk_push _ _ rfl rfl rfl y
  have hE1 : EnvS G ({ c with scopes := blk c sc false :: sc :: rs } : CState).scopes env s.boxes.size (blk c sc false).ra :=
    hE.of_lk hlk1 (Nat.le_refl _) (fun _ _ _ _ _ _ _ h => h)
  obtain ⟨ra3, ns3, more3, seg3, segm3, hc3, pv3, mono3, max3, sok3, bx3, es3, nf3, vm3⟩ :=
    IH cnd {} { c with scopes := blk c sc false :: sc :: rs } c3 cond (blk c sc false) (sc :: rs) pool ps n2 pos env cenv s s1 cv
      rfl rfl rfl hp hl rfl (fun _ => hm) hTc hcond hsc hE1
  have hm3 : c3.map.length = c3.buf.length :=
    (tf_shapeM_at G fuel b cnd {} { c with scopes := blk c sc false :: sc :: rs } c3 cond (blk c sc false) (sc :: rs) pool ps
      rfl rfl rfl hp rfl hm hTc hE1.lkl hcond).1.mapLen hm
  obtain ⟨_, hN3⟩ := NRf cnd {} { c with scopes := blk c sc false :: sc :: rs } c3 cond (blk c sc false) (sc :: rs) pool ps env s.boxes.size
    rfl rfl rfl hp rfl hm hTc hE1 (hN.of_lk hlk1) hcond
  have hs3 : c3.scopes = upd (blk c sc false) ra3 ns3 :: sc :: rs := by rw [hc3]
  have hp3 : c3.pools = (pool ++ more3) :: ps := by rw [hc3]
  have mono3' : ∀ r, sc.ra.alloc r = true → ra3.alloc r = true := mono3
  have max3' : sc.ra.max ≤ ra3.max := max3
  obtain ⟨rc, hrc, hrc240, hrcal⟩ : ∃ rc, cond.k = .loc rc ∧ rc < 240 ∧ ra3.alloc rc = true := by
    rcases sok3 with ⟨hcf, kc, hk, _⟩ | ⟨_, _, r, hk, hal, hr⟩ | ⟨_, _, d, hk, _, hal, hd, _⟩
    · simp [isConstSlot, hcf, hk] at hnc
    · exact ⟨r, hk, hr, hal⟩
    · exact ⟨d, hk, hd, hal⟩
  -- the steps of the jump path
  obtain ⟨c4, left, c6, c8, right, c11, c13, c14, e1, e2, e4, e5, e7, e8, r1, hslot, ec'⟩ :=
    cIfJumpT_inv2 _ _ _ _ _ _ _ _ _ _ hj
  obtain ⟨_, hc4⟩ := emitSI_local c3 c4 .jumpIfNot cond rc 0 hrc (by omega) _ (sc :: rs) (pool ++ more3) ps hs3 hp3 e1
  have hs4 : c4.scopes = upd (blk c sc false) ra3 ns3 :: sc :: rs := by rw [hc4]
  have hp4 : c4.pools = (pool ++ more3) :: ps := by rw [hc4]
  have hl4 : c4.lim ≤ 240 := by rw [hc4]; show c3.lim ≤ 240; rw [hc3]; exact hl
  have hm4 : c4.map.length = c4.buf.length := by rw [hc4]; simp [hm3]
  have hL4 : LkL G c4.scopes := by rw [hs4, ← hs3]; exact es3.lkl
  have hlk4 : ∀ y, lk c4.scopes y = lk c3.scopes y := by intro y; rw [hs4, hs3]
  -- the then-branch, compile side
  obtain ⟨ra8, ns8, more8, seg8, segm8, hc8, pv8, hl8, inv8, mono8, max8⟩ :=
    branchT_shape2 G fuel b tb hTt opts ht hh c4 c6 c8 left _ (sc :: rs) (pool ++ more3) ps hs4 hp4 hm4 hL4 e2 e4
  have mono8' : ∀ r, ra3.alloc r = true → ra8.alloc r = true := mono8
  have max8' : ra3.max ≤ ra8.max := max8
  have hs8 : c8.scopes = upd (upd (blk c sc false) ra3 ns3) ra8 ns8 :: sc :: rs := by rw [hc8]
  have hp8 : c8.pools = (pool ++ more3 ++ more8) :: ps := by rw [hc8]
  have hl8' : c8.lim ≤ 240 := by rw [hc8]; exact hl4
  have hm8 : c8.map.length = c8.buf.length := by rw [hc8]; simp [hm4, hl8]
  have hlk8 : ∀ y, lk c8.scopes y = lk c3.scopes y := by
    intro y; rw [hs8, hs3]; exact lk_upd _ _ _ _ inv8 y
  have hL8 : LkL G c8.scopes := es3.lkl.of_lk hlk8
  -- the else-branch, compile side
  obtain ⟨ra13, ns13, more13, seg13, segm13, hc13, pv13, hl13, inv13, mono13, max13⟩ :=
    branchT_shape2 G fuel b fb hTf opts ht hh c8 c11 c13 right _ (sc :: rs) (pool ++ more3 ++ more8) ps hs8 hp8 hm8 hL8 e5 e7
  have max13' : ra8.max ≤ ra13.max := max13
  have hs13 : c13.scopes = upd (upd (upd (blk c sc false) ra3 ns3) ra8 ns8) ra13 ns13 :: sc :: rs := by rw [hc13]
  have hp13 : c13.pools = (pool ++ more3 ++ more8 ++ more13) :: ps := by rw [hc13]
  -- the final pop
  obtain ⟨raX, hpop, hmaxX, hmonoX⟩ := popScope_block c13 _ sc rs hs13 rfl rfl rfl
  rw [hpop] at e8
  have hc14 := (Option.some.inj e8).symm
  have hmaxX' : raX.max = (if sc.ra.max < ra13.max then ra13.max else sc.ra.max) := hmaxX
  -- the code
  have hb3 : c3.buf = c.buf ++ seg3 := by rw [hc3]
  have hb4 : c4.buf = c.buf ++ seg3 ++ [CI.mi (.pay Op.jumpIfNot.toNat .si false [rc] 0)] := by rw [hc4]; show c3.buf ++ _ = _; rw [hb3]
  have hb8 : c8.buf = c4.buf ++ seg8 := by rw [hc8]
  have hb13 : c13.buf = c8.buf ++ seg13 := by rw [hc13]
  have hb14 : c14.buf = c13.buf := by rw [hc14]
  have hbuf14 : c14.buf = (c.buf ++ seg3) ++ CI.mi (.pay Op.jumpIfNot.toNat .si false [rc] 0) :: (seg8 ++ seg13) := by
    rw [hb14, hb13, hb8, hb4]; simp
  have hll : lastLabel c4 = (c.buf ++ seg3).length := by unfold lastLabel; rw [hb4]; simp
  obtain ⟨offr, hoffr⟩ : ∃ offr, offr = c8.buf.length - lastLabel c4 := ⟨_, rfl⟩
  have hoffr' : offr = 1 + seg8.length := by
    rw [hoffr, hll, hb8, hb4]; simp <;> omega
  have hoffr_lt : offr < 32768 := by
    rw [hoffr]; omega
  have hpatch : modBuf c14.buf (lastLabel c4) (patchCond (c8.buf.length - lastLabel c4)) =
      c.buf ++ (seg3 ++ CI.mi (.pay Op.jumpIfNot.toNat .si false [rc] offr) :: (seg8 ++ seg13)) := by
    rw [← hoffr, hbuf14, hll, modBuf_at]
    simp [patchCond]
  -- the invariants at the two branch entries
  have hE4 : EnvS G c4.scopes cenv s1.boxes.size (upd (blk c sc false) ra3 ns3).ra :=
    es3.of_lk hlk4 (Nat.le_refl _) (fun _ _ _ _ _ _ _ h => h)
  have hE8 : EnvS G c8.scopes cenv s1.boxes.size (upd (upd (blk c sc false) ra3 ns3) ra8 ns8).ra :=
    es3.of_lk hlk8 (Nat.le_refl _) (fun _ _ _ _ r _ _ h => mono8' r h)
  have hN4 : NR c4.scopes := hN3.of_lk hlk4
  have hN8 : NR c8.scopes := hN3.of_lk hlk8
  have hv8 : PrefA c8.vals c13.vals := pv13
  have hv3 : PrefA c3.vals c13.vals := by
    have : c4.vals = c3.vals := by rw [hc4]
    rw [← this]; exact PrefA.trans pv8 hv8
  have hv' : c'.vals = c13.vals := by rw [ec']; show c14.vals = _; rw [hc14]
  have pv3' : PrefA c.vals c3.vals := pv3
  refine ⟨hslot, raX, (upd (upd (upd (blk c sc false) ra3 ns3) ra8 ns8) ra13 ns13).syms.map (fun q => { q with visible := false }),
    more3 ++ more8 ++ more13, seg3 ++ CI.mi (.pay Op.jumpIfNot.toNat .si false [rc] offr) :: (seg8 ++ seg13),
    segm3 ++ [c3.cur] ++ segm8 ++ segm13, ?_, ?_, hmonoX, ?_, ?_⟩
  · rw [ec', hpatch, hc14, hc13, hc8, hc4, hc3]
    simp [List.append_assoc]
  · rw [hv']; exact PrefA.trans pv3' hv3
  · rw [hmaxX']; split <;> omega
  · intro k hkw hka hD hcode hpre hV hsz
    rw [hv'] at hV
    have hsz13 : ra13.max < k.regs.size := by
      rw [hmaxX'] at hsz; split at hsz <;> omega
    have hpre' : PrefL (pool ++ more3 ++ more8 ++ more13) P := by simpa [List.append_assoc] using hpre
    obtain ⟨regs3, rch3, sz3, pr3, sv3, ed3⟩ := vm3 k hkw hka (hD.of_lk hlk1) hcode.left
      (PrefL.trans ⟨more8 ++ more13, by simp [List.append_assoc]⟩ hpre') (PrefA.trans hv3 hV) (by show ra3.max < _; omega)
    have hcv3 : regs3.getD rc .nil = cv := by
      have := sv3 rfl
      simpa [slotVal, hrc] using this
    have hcJ : (p.defs.getD f0.defIdx default).code[k.pc + seg3.length]? = some (MI.pay Op.jumpIfNot.toNat .si false [rc] offr).word :=
      hcode.right.head
    have jstep := jumpIfNot_agrees p (inj f0 rest { regs := regs3, pc := k.pc + seg3.length, args := #[], w := s1.st.world }) rc offr
      (by omega) hoffr_lt (by rw [inj_curDef, inj_pc]; exact hcJ)
    rw [inj_getReg] at jstep
    have hreg : ({ regs := regs3, pc := k.pc + seg3.length, args := #[], w := s1.st.world } : Cfg).regs.getD rc .nil = cv := hcv3
    rw [hreg] at jstep
    cases htr : truthy cv with
    | true =>
      have hsb' : eval n2 pos cenv tb s1 = .ok (v, envb) s' := by simpa [htr] using hsb
      simp only [htr, if_true, inj_adv] at jstep
      obtain ⟨regsF, A, pcF, wa, rchF, szF, stF⟩ := branchT_core p f0 rest V P G b fuel IHt tb hTt opts ht hh c4 c6 c8 left _ (sc :: rs)
        (pool ++ more3) ps n2 pos cenv envb s1 s' v hs4 hp4 hl4 hm4 e2 e4 hsb' hE4 hN4 seg8 _ _ hb8 hp8 hs8
        { regs := regs3, pc := k.pc + seg3.length + 1, args := #[], w := s1.st.world } rfl rfl (ed3.of_lk hlk4) hcode.right.tail.left
        (PrefL.trans ⟨more13, rfl⟩ hpre') (PrefA.trans hv8 hV) (by show ra8.max < regs3.size; omega)
      have szF' : regsF.size = regs3.size := szF
      exact ⟨regsF, A, pcF, wa, Reach.trans rch3 (Reach.head jstep rchF), by omega, stF⟩
    | false =>
      have hsb' : eval n2 pos cenv fb s1 = .ok (v, envb) s' := by simpa [htr] using hsb
      simp only [htr, Bool.false_eq_true, if_false, inj_jump] at jstep
      have e1' : (Int.ofNat (k.pc + seg3.length) + (offr : Int)).toNat = k.pc + seg3.length + 1 + seg8.length := by
        simp only [Int.ofNat_eq_natCast]; omega
      simp only [e1'] at jstep
      obtain ⟨regsF, A, pcF, wa, rchF, szF, stF⟩ := branchT_core p f0 rest V P G b fuel IHt fb hTf opts ht hh c8 c11 c13 right _ (sc :: rs)
        (pool ++ more3 ++ more8) ps n2 pos cenv envb s1 s' v hs8 hp8 hl8' hm8 e5 e7 hsb' hE8 hN8 seg13 _ _ hb13 hp13 hs13
        { regs := regs3, pc := k.pc + seg3.length + 1 + seg8.length, args := #[], w := s1.st.world } rfl rfl (ed3.of_lk hlk8)
        hcode.right.tail.right hpre' hV (by show ra13.max < regs3.size; omega)
      have szF' : regsF.size = regs3.size := szF
      exact ⟨regsF, A, pcF, wa, Reach.trans rch3 (Reach.head jstep rchF), by omega, stF⟩

/-- `janetc_if` in tail position, constant condition slot (folding): the live branch returns; the dead one is thrown away; the
    result slot is the un-flagged constant nil, so `janetc_return` appends a RETURN_NIL (never reached) -/
theorem tail_if_const_core (G : String → Prop) (b w : Bool) (fuel : Nat) (IH : CorrectAt p f0 rest V P G (TF G b) w fuel)
    (NRf : NRAt G (TF G b) fuel) (IHt : TailAt p f0 rest V P G (TF G b) fuel)
    (cnd tb fb : Expr) (hTc : TF G b cnd) (hTt : TF G b tb) (hTf : TF G b fb)
    (opts : Fopts) (ht : opts.tail = true) (hh : opts.hint = none)
    (c cq c2 : CState) (ret slot : JSlot) (sc : Scope) (rs : List Scope) (pool : List KConst) (ps : List (List KConst))
    (n2 : Nat) (pos : Pos) (env cenv envb : Env) (s s1 s' : SS) (cv v : Value)
    (hs : c.scopes = sc :: rs) (hp : c.pools = pool :: ps) (hl : c.lim ≤ 240) (hm : c.map.length = c.buf.length)
    (c3 : CState) (cond : JSlot) (k : KConst)
    (hcond : cValue fuel {} cnd (pushScope c false false false false) = some (cond, c3))
    (hj : cIfConstT (cValue fuel) opts (cslot .nil) tb fb k c3 = some (ret, cq))
    (hcr : cReturn cq ret = some (slot, c2))
    (hsc : eval n2 pos env cnd s = .ok (cv, cenv) s1)
    (hct : truthy cv = constTruthy k)
    (hsb : eval n2 pos cenv (if truthy cv then tb else fb) s1 = .ok (v, envb) s')
    (hE : EnvS G c.scopes env s.boxes.size sc.ra) (hN : NR c.scopes) :
    TailOK p f0 rest V P G c c2 slot sc rs pool ps env s s' v := by
  -- the condition, in its block scope
  rw [pushScope_blk c sc rs false hs] at hcond
  have hlk1 : ∀ y, lk (blk c sc false :: sc :: rs) y = lk c.scopes y := by
    intro y; rw [hs]; exact lk_push _ _ rfl rfl rfl y
  have hE1 : EnvS G ({ c with scopes := blk c sc false :: sc :: rs } : CState).scopes env s.boxes.size (blk c sc false).ra :=
    hE.of_lk hlk1 (Nat.le_refl _) (fun _ _ _ _ _ _ _ h => h)
  obtain ⟨ra3, ns3, more3, seg3, segm3, hc3, pv3, mono3, max3, sok3, bx3, es3, nf3, vm3⟩ :=
    IH cnd {} { c with scopes := blk c sc false :: sc :: rs } c3 cond (blk c sc false) (sc :: rs) pool ps n2 pos env cenv s s1 cv
      rfl rfl rfl hp hl rfl (fun _ => hm) hTc hcond hsc hE1
  have hm3 : c3.map.length = c3.buf.length :=
    (tf_shapeM_at G fuel b cnd {} { c with scopes := blk c sc false :: sc :: rs } c3 cond (blk c sc false) (sc :: rs) pool ps
      rfl rfl rfl hp rfl hm hTc hE1.lkl hcond).1.mapLen hm
  obtain ⟨_, hN3⟩ := NRf cnd {} { c with scopes := blk c sc false :: sc :: rs } c3 cond (blk c sc false) (sc :: rs) pool ps env s.boxes.size
    rfl rfl rfl hp rfl hm hTc hE1 (hN.of_lk hlk1) hcond
  have hs3 : c3.scopes = upd (blk c sc false) ra3 ns3 :: sc :: rs := by rw [hc3]
  have hp3 : c3.pools = (pool ++ more3) :: ps := by rw [hc3]
  have max3' : sc.ra.max ≤ ra3.max := max3
  have hl3 : c3.lim ≤ 240 := by rw [hc3]; exact hl
  -- the steps of the folding path
  obtain ⟨right, c5, c7, c8, e1, e3, e4, e5, eslot⟩ := cIfConstT_inv _ _ _ _ _ _ _ _ _ hj
  obtain ⟨live, hlive⟩ : ∃ x, x = (if constTruthy k then tb else fb) := ⟨_, rfl⟩
  obtain ⟨dead, hdead⟩ : ∃ x, x = (if constTruthy k then fb else tb) := ⟨_, rfl⟩
  rw [← hlive] at e1
  rw [← hdead] at e4
  have hTl : TF G b live := by rw [hlive]; split <;> assumption
  have hTd : TF G b dead := by rw [hdead]; split <;> assumption
  have hsb' : eval n2 pos cenv live s1 = .ok (v, envb) s' := by
    rw [hct] at hsb; rw [hlive]; exact hsb
  have hL3 : LkL G c3.scopes := es3.lkl
  -- the live branch
  obtain ⟨ra7, ns7, more7, seg7, segm7, hc7, pv7, hl7, inv7, mono7, max7⟩ :=
    branchT_shape2 G fuel b live hTl opts ht hh c3 c5 c7 right _ (sc :: rs) (pool ++ more3) ps hs3 hp3 hm3 hL3 e1 e3
  have max7' : ra3.max ≤ ra7.max := max7
  have hs7 : c7.scopes = upd (upd (blk c sc false) ra3 ns3) ra7 ns7 :: sc :: rs := by rw [hc7]
  have hp7 : c7.pools = (pool ++ more3 ++ more7) :: ps := by rw [hc7]
  have hm7 : c7.map.length = c7.buf.length := by rw [hc7]; simp [hm3, hl7]
  have hlk7 : ∀ y, lk c7.scopes y = lk c3.scopes y := by
    intro y; rw [hs7, hs3]; exact lk_upd _ _ _ _ inv7 y
  have hL7 : LkL G c7.scopes := es3.lkl.of_lk hlk7
  -- the dead branch
  obtain ⟨more8, hc8, pv8⟩ : ∃ more8, c8 = { c7 with pools := (pool ++ more3 ++ more7 ++ more8) :: ps, vals := c8.vals } ∧ PrefA c7.vals c8.vals := by
    split at e4
    · refine ⟨[], ?_, ?_⟩
      · rw [← Option.some.inj e4, List.append_nil, ← hp7]
      · rw [← Option.some.inj e4]; exact PrefA.refl _
    · refine throwaway_eq G _ opts dead c7 c8 _ (sc :: rs) (pool ++ more3 ++ more7) ps hs7 hm7 (fun c2 sl h => ?_) e4
      have hLT : LkL G (blk c7 (upd (upd (blk c sc false) ra3 ns3) ra7 ns7) true ::
          upd (upd (blk c sc false) ra3 ns3) ra7 ns7 :: sc :: rs) := by
        rw [hs7] at hL7; exact hL7.push _ rfl rfl
      exact (tf_shapeT_at G fuel b dead opts
        { c7 with scopes := (blk c7 (upd (upd (blk c sc false) ra3 ns3) ra7 ns7) true ::
          upd (upd (blk c sc false) ra3 ns3) ra7 ns7 :: sc :: rs) } c2 sl _ _
        (pool ++ more3 ++ more7) ps ht hh rfl hp7 rfl hm7 hTd hLT h).1
  have hs8 : c8.scopes = upd (upd (blk c sc false) ra3 ns3) ra7 ns7 :: sc :: rs := by rw [hc8]; exact hs7
  -- the final pop
  obtain ⟨raX, hpop, hmaxX, hmonoX⟩ := popScope_block c8 _ sc rs hs8 rfl rfl rfl
  rw [hpop] at e5
  have hcq := (Option.some.inj e5).symm
  have hmaxX' : raX.max = (if sc.ra.max < ra7.max then ra7.max else sc.ra.max) := hmaxX
  have hb7 : c7.buf = c3.buf ++ seg7 := by rw [hc7]
  -- `janetc_return` on the constant nil
  rw [← eslot, cReturn_unret cq (cslot .nil) rfl] at hcr
  have hcond' : ((cslot KConst.nil).cflag && (cslot KConst.nil).k == Slot.const KConst.nil) = true := by decide
  rw [if_pos hcond'] at hcr
  simp only [Option.bind_some, Option.some.injEq, Prod.mk.injEq] at hcr
  obtain ⟨hslot, hc2⟩ := hcr
  have hret : slot.returned = true := by rw [← hslot]
  have hv' : c2.vals = c8.vals := by rw [← hc2]; show cq.vals = _; rw [hcq]
  have pv3' : PrefA c.vals c3.vals := pv3
  refine ⟨hret, raX, (upd (upd (blk c sc false) ra3 ns3) ra7 ns7).syms.map (fun q => { q with visible := false }),
    more3 ++ more7 ++ more8, seg3 ++ seg7 ++ [CI.retNil], segm3 ++ segm7 ++ [cq.cur], ?_, ?_, hmonoX, ?_, ?_⟩
  · rw [← hc2]
    simp only [emitRaw]
    rw [hcq, hc8, hc7, hc3]
    simp [List.append_assoc]
  · rw [hv']; exact PrefA.trans pv3' (PrefA.trans pv7 pv8)
  · rw [hmaxX']; split <;> omega
  · intro k0 hkw hka hD hcode hpre hV hsz
    rw [hv'] at hV
    have hsz7 : ra7.max < k0.regs.size := by
      rw [hmaxX'] at hsz; split at hsz <;> omega
    have hV7 : PrefA c7.vals V := PrefA.trans pv8 hV
    have hpre' : PrefL (pool ++ more3 ++ more7 ++ more8) P := by simpa [List.append_assoc] using hpre
    obtain ⟨regs3, rch3, sz3, pr3, sv3, ed3⟩ := vm3 k0 hkw hka (hD.of_lk hlk1) hcode.left.left
      (PrefL.trans ⟨more7 ++ more8, by simp [List.append_assoc]⟩ hpre') (PrefA.trans pv7 hV7) (by show ra3.max < _; omega)
    obtain ⟨regsF, A, pcF, wa, rchF, szF, stF⟩ := branchT_core p f0 rest V P G b fuel IHt live hTl opts ht hh c3 c5 c7 right _ (sc :: rs)
      (pool ++ more3) ps n2 pos cenv envb s1 s' v hs3 hp3 hl3 hm3 e1 e3 hsb' es3 hN3 seg7 _ _ hb7 hp7 hs7
      { regs := regs3, pc := k0.pc + seg3.length, args := #[], w := s1.st.world } rfl rfl ed3 hcode.left.right
      (PrefL.trans ⟨more8, by simp [List.append_assoc]⟩ hpre') hV7 (by show ra7.max < regs3.size; omega)
    have szF' : regsF.size = regs3.size := szF
    exact ⟨regsF, A, pcF, wa, Reach.trans rch3 rchF, by omega, stF⟩

/-- the `if` case of the tail induction: both paths -/
theorem tail_if_case (G : String → Prop) (b w : Bool) (fuel : Nat) (IH : CorrectAt p f0 rest V P G (TF G b) w fuel)
    (NRf : NRAt G (TF G b) fuel) (IHt : TailAt p f0 rest V P G (TF G b) fuel) : TailIfCase p f0 rest V P G b fuel := by
  intro cnd tb els pp hok hlen hTc hTt hTe opts c c' slot sc rs pool ps n cur env env' s s' v ht hh hs hp hl _htop hm hc hsem hE hN
  rw [cValue_if_t fuel opts ht hh cnd tb els pp c, cIfT_le1 _ _ _ _ _ _ hlen] at hc
  obtain ⟨q, hq⟩ := curAt_eq c pp
  cases hcc : cIfBodyT (cValue fuel) opts cnd tb (els.headD (.lit .nil)) (curAt c pp) with
  | none => rw [hcc] at hc; simp [finT] at hc
  | some res =>
    obtain ⟨ret, cq⟩ := res
    rw [hcc] at hc
    obtain ⟨c2, hcr, hc'⟩ := finT_some_inv c.cur ret slot cq c' hc
    subst hc'
    rw [hq] at hcc
    obtain ⟨n2, cv, cenv, s1, envb, hn, hsc, henv, hsb⟩ := eval_if_inv n cur env env' cnd tb els pp s s' v hsem
    subst henv
    obtain ⟨cond, c3, hcond, hrest⟩ := cIfBodyT_inv _ opts cnd tb _ _ cq ret hcc
    have hTf : TF G b (els.headD (.lit .nil)) := by
      cases els with
      | nil => exact .lit .nil trivial
      | cons e _ => exact hTe e (by simp)
    cases hk : isConstSlot cond with
    | none =>
      rw [hk] at hrest
      simp only at hrest
      have H := tail_if_jump_core p f0 rest V P G b w fuel IH NRf IHt cnd tb _ hTc hTt hTf opts ht hh { c with cur := q } cq ret sc rs pool ps
        n2 (posOf cur pp) env' cenv envb s s1 s' cv v hs hp hl hm c3 cond hcond hk hrest hsc hsb hE hN
      rw [cReturn_returned cq ret H.1] at hcr
      simp only [Option.some.injEq, Prod.mk.injEq] at hcr
      obtain ⟨e1, e2⟩ := hcr
      subst e1 e2
      exact TailOK.recur p f0 rest V P (q := q) H
    | some k =>
      rw [hk] at hrest
      simp only at hrest
      have hlk2 : ∀ y, lk (pushScope ({ c with cur := q } : CState) false false false false).scopes y = lk c.scopes y := by
        intro y
        rw [pushScope_blk ({ c with cur := q } : CState) sc rs false hs, hs]
        exact lk_push _ _ rfl rfl rfl y
      have hct : truthy cv = constTruthy k :=
        condT_of_ok G b fuel cnd hok hTc _ c3 cond k n2 (posOf cur pp) env' cenv s s1 cv (hE.lkl.of_lk hlk2)
          (fun x hx => by
            rw [hlk2] at hx
            rcases hE.2 x with ⟨_, h2⟩ | ⟨sl, r, a, u, h1, _⟩
            · exact h2
            · rw [hx] at h1; exact absurd h1 (by simp))
          hcond hk hsc
      exact TailOK.recur p f0 rest V P (q := q)
        (tail_if_const_core p f0 rest V P G b w fuel IH NRf IHt cnd tb _ hTc hTt hTf opts ht hh { c with cur := q } cq c2 ret slot sc rs pool ps
          n2 (posOf cur pp) env' cenv envb s s1 s' cv v hs hp hl hm c3 cond k hcond hrest hcr hsc hct hsb hE hN)

/-- compile correctness in tail position for both fragments (`TF G b`: with `if` when `b = true`): whatever the form, the VM
    started at its code reaches a configuration whose next step is the return of the value `Lang/Sem` gives, in the world
    `Lang/Sem` gives -/
theorem tf_tail_correct_b (hP : P.length < 65536)
    (hK : ∀ i, i < P.length → (p.defs.getD f0.defIdx default).consts.getD i .nil = litOf V (P.getD i .nil))
    (FF : FloatFacts) (G : String → Prop) (b : Bool) : ∀ fuel, TailAt p f0 rest V P G (TF G b) fuel :=
  tf_tail_correct_gen p f0 rest V P hP hK FF G b b (tf_correct_b p f0 rest V P hP hK FF G b) (tf_NR_b G b)
    (fun _ fuel IHt => tail_if_case p f0 rest V P G b b fuel (tf_correct_b p f0 rest V P hP hK FF G b fuel) (tf_NR_b G b fuel) IHt)

/-- the fragment with `if` -/
theorem tf_tail_correct_if (hP : P.length < 65536)
    (hK : ∀ i, i < P.length → (p.defs.getD f0.defIdx default).consts.getD i .nil = litOf V (P.getD i .nil))
    (FF : FloatFacts) (G : String → Prop) : ∀ fuel, TailAt p f0 rest V P G (TF G true) fuel :=
  tf_tail_correct_b p f0 rest V P hP hK FF G true

end

end JanetModel.Compile
