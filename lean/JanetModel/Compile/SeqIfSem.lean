/- C02: `if`: the reference semantics unfolded and inverted, `janetc_emit_si` on a near local, the patch at a known position. -/
import JanetModel.Compile.SeqShapeM
namespace JanetModel.Compile
open JanetModel.Emit JanetModel.Lang JanetModel.Bytecode.Exec JanetModel.Gen.Bytecode

theorem eval_if (n : Nat) (cur : Pos) (env : Env) (c : Expr) (rest : List Expr) (p : Pos) (s : SS) :
    eval (n + 1) cur env (.form (.sym "if" :: c :: rest) p) s =
      (match eval n (posOf cur p) env c s with
       | .ok (cv, cenv) s' =>
         match (if truthy cv then rest.head? else (rest.drop 1).head?) with
         | none => .ok (.nil, env) s'
         | some b =>
           match eval n (posOf cur p) cenv b s' with
           | .ok (v, _) s'' => .ok (v, env) s''
           | r => r
       | r => r) := by
  simp only [eval] <;> rfl

/-- `Lang/Sem.eval` of an `if` that returned a value: the condition's run, then the run of the branch `truthy` selects (the
    missing else branch = the literal nil) -/
theorem eval_if_inv (n : Nat) (cur : Pos) (env env' : Env) (cnd tb : Expr) (els : List Expr) (pp : Pos) (s s' : SS) (v : Value)
    (h : eval n cur env (.form (.sym "if" :: cnd :: tb :: els) pp) s = .ok (v, env') s') :
    ∃ n2 cv cenv s1 envb, n = n2 + 1 ∧ eval n2 (posOf cur pp) env cnd s = .ok (cv, cenv) s1 ∧ env' = env ∧
      eval n2 (posOf cur pp) cenv (if truthy cv then tb else els.headD (.lit .nil)) s1 = .ok (v, envb) s' := by
  cases n with
  | zero => simp [eval] at h
  | succ n2 =>
    rw [eval_if] at h
    cases hc : eval n2 (posOf cur pp) env cnd s with
    | ok r s1 =>
      obtain ⟨cv, cenv⟩ := r
      rw [hc] at h
      have hn2 : n2 ≠ 0 := by intro e; subst e; simp [eval] at hc
      obtain ⟨n3, rfl⟩ := Nat.exists_eq_succ_of_ne_zero hn2
      cases ht : truthy cv with
      | true =>
        simp only [ht, if_true, List.head?_cons] at h
        cases hb : eval (n3 + 1) (posOf cur pp) cenv tb s1 with
        | ok r2 s2 =>
          obtain ⟨v2, envb⟩ := r2
          rw [hb] at h
          simp only [R.ok.injEq, Prod.mk.injEq] at h
          obtain ⟨⟨hv, henv⟩, hs⟩ := h
          subst hv hs
          exact ⟨n3 + 1, cv, cenv, s1, envb, rfl, hc, henv.symm, by simp only [ht, if_true]; exact hb⟩
        | err _ _ _ => rw [hb] at h; exact absurd h (by simp)
        | brk _ _ => rw [hb] at h; exact absurd h (by simp)
        | stop _ => rw [hb] at h; exact absurd h (by simp)
      | false =>
        simp only [ht, Bool.false_eq_true, if_false, List.drop_succ_cons, List.drop_zero] at h
        cases els with
        | nil =>
          simp only [List.head?_nil, R.ok.injEq, Prod.mk.injEq] at h
          obtain ⟨⟨hv, henv⟩, hs⟩ := h
          subst hv hs
          exact ⟨n3 + 1, cv, cenv, s1, cenv, rfl, hc, henv.symm, by simp [ht, eval]⟩
        | cons e es =>
          simp only [List.head?_cons] at h
          cases hb : eval (n3 + 1) (posOf cur pp) cenv e s1 with
          | ok r2 s2 =>
            obtain ⟨v2, envb⟩ := r2
            rw [hb] at h
            simp only [R.ok.injEq, Prod.mk.injEq] at h
            obtain ⟨⟨hv, henv⟩, hs⟩ := h
            subst hv hs
            exact ⟨n3 + 1, cv, cenv, s1, envb, rfl, hc, henv.symm, by simp only [ht, Bool.false_eq_true, if_false, List.headD_cons]; exact hb⟩
          | err _ _ _ => rw [hb] at h; exact absurd h (by simp)
          | brk _ _ => rw [hb] at h; exact absurd h (by simp)
          | stop _ => rw [hb] at h; exact absurd h (by simp)
    | err _ _ _ => rw [hc] at h; exact absurd h (by simp)
    | brk _ _ => rw [hc] at h; exact absurd h (by simp)
    | stop _ => rw [hc] at h; exact absurd h (by simp)

/-- `janetc_emit_si(c, op, near local, imm, 0)`: just the payload -/
theorem emitSI_local (c c' : CState) (op : Op) (s : JSlot) (i imm : Nat) (hk : s.k = .loc i) (hi : i ≤ 0xFF)
    (sc : Scope) (rs : List Scope) (pool : List KConst) (ps : List (List KConst))
    (hs : c.scopes = sc :: rs) (hp : c.pools = pool :: ps) (h : emitSI c op s imm false = some c') :
    sc.ra.max < c.lim ∧
    c' = { c with scopes := sc :: rs, pools := pool :: ps, buf := c.buf ++ [CI.mi (.pay op.toNat .si false [i] imm)], map := c.map ++ [c.cur] } := by
  unfold emitSI at h
  rw [hk] at h
  obtain ⟨hmax, hc'⟩ := emitW_spec c c' _ sc rs pool ps hs hp h
  have hX : W.emitSI { ra := sc.ra, buf := [], consts := pool } op.toNat false (.loc i) imm =
      { ra := sc.ra, buf := [.pay op.toNat .si false [i] imm], consts := pool } := by
    simp [W.emitSI, W.nearTemp, W.needTemp, Slot.nearLocal, hi, W.backTemp, W.freeNear, Slot.isLocal, Slot.index, W.slotConst, W.finish,
      Emit.emitSI, regnear, wb]
  rw [hX] at hmax hc'
  exact ⟨hmax, by rw [hc']; simp⟩

theorem modBuf_at (f : CI → CI) (x : CI) : ∀ (a b : List CI), modBuf (a ++ x :: b) a.length f = a ++ f x :: b
  | [], b => by simp [modBuf]
  | y :: a, b => by
    have := modBuf_at f x a b
    simp only [modBuf] at this ⊢
    simp [List.modify_succ_cons, this]


theorem getTarget_hint_none (c : CState) (opts : Fopts) (hh : opts.hint = none) : getTarget c opts = getTarget c {} := by
  simp only [getTarget, hh]

/-- the unconditional jump `janetc_if` emits after the then-branch (none when the value is dropped and the else branch is nil) -/
def jmp0 (nj : Bool) : List CI := if nj then [] else [CI.jump 0]

theorem ifJmp_eq (nj : Bool) (c8 : CState) :
    ifJmp nj c8 = { c8 with buf := c8.buf ++ jmp0 nj, map := c8.map ++ (jmp0 nj).map (fun _ => c8.cur) } := by
  cases nj
  · simp [ifJmp, jmp0, emitRaw]
  · simp [ifJmp, jmp0]

/-- the patched code of an `if` -/
theorem ifPatch_eq (nj : Bool) (a seg3 seg8 seg13 : List CI) (jin0 : CI) (offr : Nat) :
    ifPatch nj (a ++ (seg3 ++ jin0 :: (seg8 ++ (jmp0 nj ++ seg13)))) (a ++ seg3).length offr (a ++ seg3 ++ jin0 :: seg8).length =
      a ++ (seg3 ++ patchCond offr jin0 :: (seg8 ++ ((if nj then [] else
        [CI.jump (Int.ofNat ((a ++ (seg3 ++ jin0 :: (seg8 ++ (jmp0 nj ++ seg13)))).length - (a ++ seg3 ++ jin0 :: seg8).length))]) ++ seg13))) := by
  cases nj
  · simp only [ifPatch, jmp0, Bool.false_eq_true, if_false]
    have e1 : a ++ (seg3 ++ jin0 :: (seg8 ++ ([CI.jump 0] ++ seg13))) = (a ++ seg3) ++ jin0 :: (seg8 ++ CI.jump 0 :: seg13) := by simp
    rw [e1, modBuf_at]
    have e2 : (a ++ seg3) ++ patchCond offr jin0 :: (seg8 ++ CI.jump 0 :: seg13) = (a ++ seg3 ++ patchCond offr jin0 :: seg8) ++ CI.jump 0 :: seg13 := by simp
    have e3 : (a ++ seg3 ++ jin0 :: seg8).length = (a ++ seg3 ++ patchCond offr jin0 :: seg8).length := by simp
    rw [e2, e3, modBuf_at]
    simp
  · simp only [ifPatch, jmp0, if_true]
    have e1 : a ++ (seg3 ++ jin0 :: (seg8 ++ ([] ++ seg13))) = (a ++ seg3) ++ jin0 :: (seg8 ++ seg13) := by simp
    rw [e1, modBuf_at]
    simp

/-- `janetc_popscope` of a used block scope after a shaped body, with the facts about the parent scope -/
theorem pop_shape2 (G : String → Prop) (c c2 c3 : CState) (sc : Scope) (rs : List Scope) (pool : List KConst) (ps : List (List KConst))
    (h : Shp G { c with scopes := blk c sc false :: sc :: rs } c2 (blk c sc false) (sc :: rs) pool ps) (hpop : popScope c2 = some c3) :
    ∃ (ra3 : RA) (ns3 : List SymPair) (more : List KConst) (seg : List CI) (segm : List Pos),
      c3 = { c with scopes := { sc with ra := ra3, syms := sc.syms ++ ns3 } :: rs, pools := (pool ++ more) :: ps, buf := c.buf ++ seg,
                    map := c.map ++ segm, vals := c3.vals } ∧
      PrefA c.vals c3.vals ∧ segm.length = seg.length ∧ (∀ q, q ∈ ns3 → q.visible = false) ∧
      (∀ j, sc.ra.alloc j = true → ra3.alloc j = true) ∧ sc.ra.max ≤ ra3.max := by
  obtain ⟨ra2, ns2, more2, seg2, segm2, hc2, pv2, _, hl2⟩ := h
  have hs2 : c2.scopes = { blk c sc false with ra := ra2, syms := (blk c sc false).syms ++ ns2 } :: sc :: rs := by rw [hc2]
  obtain ⟨raX, hpop', hmaxX, hmonoX⟩ := popScope_block c2 _ sc rs hs2 rfl rfl rfl
  rw [hpop'] at hpop
  have hc3 := (Option.some.inj hpop).symm
  refine ⟨raX, ((blk c sc false).syms ++ ns2).map (fun q => { q with visible := false }), more2, seg2, segm2, ?_, ?_, hl2, ?_, hmonoX, ?_⟩
  · rw [hc3, hc2]
  · rw [hc3]; exact pv2
  · intro q hq
    simp only [List.mem_map] at hq
    obtain ⟨q0, _, rfl⟩ := hq
    rfl
  · have : raX.max = (if sc.ra.max < ra2.max then ra2.max else sc.ra.max) := hmaxX
    rw [this]; split <;> omega


/-- one branch, compile side only (also for the branch not taken): block scope, the form, the optional copy, pop -/
theorem branch_shape2 (G : String → Prop) (fuel : Nat) (b : Bool) (x : Expr) (hx : TF G b x)
    (opts : Fopts) (ht : opts.tail = false) (hh : opts.hint = none) (target : JSlot)
    (c c6 c7 c8 : CState) (left : JSlot) (sc : Scope) (rs : List Scope) (pool : List KConst) (ps : List (List KConst))
    (hs : c.scopes = sc :: rs) (hp : c.pools = pool :: ps) (hm : c.map.length = c.buf.length) (hL : LkL G c.scopes)
    (h1 : cValue fuel opts x (pushScope c false false false false) = some (left, c6))
    (h2 : ifCopy opts.drop c6 target left = some c7) (h3 : popScope c7 = some c8) :
    ∃ (ra3 : RA) (ns3 : List SymPair) (more : List KConst) (seg : List CI) (segm : List Pos),
      c8 = { c with scopes := { sc with ra := ra3, syms := sc.syms ++ ns3 } :: rs, pools := (pool ++ more) :: ps, buf := c.buf ++ seg,
                    map := c.map ++ segm, vals := c8.vals } ∧
      PrefA c.vals c8.vals ∧ segm.length = seg.length ∧ (∀ q, q ∈ ns3 → q.visible = false) ∧
      (∀ j, sc.ra.alloc j = true → ra3.alloc j = true) ∧ sc.ra.max ≤ ra3.max := by
  rw [pushScope_blk c sc rs false hs] at h1
  have hLP : LkL G (blk c sc false :: sc :: rs) := by
    rw [hs] at hL; exact hL.push _ rfl rfl
  obtain ⟨S1, _⟩ := tf_shapeM_at G fuel b x opts { c with scopes := blk c sc false :: sc :: rs } c6 left (blk c sc false) (sc :: rs) pool ps
    ht hh rfl hp rfl hm hx hLP h1
  obtain ⟨sc6, pool6, hs6, hp6, _, hL6, _⟩ := S1.out
  have R2 : StepR c6 c7 sc6 (sc :: rs) pool6 ps := by
    unfold ifCopy at h2
    split at h2
    · rw [← Option.some.inj h2]; exact StepR.refl c6 sc6 _ pool6 ps hs6 hp6
    · exact copySlot_stepR c6 c7 target left sc6 _ pool6 ps hs6 hp6 h2
  exact pop_shape2 G c c7 c8 sc rs pool ps (S1.trans' hs6 hp6 (R2.shp hs6 hL6)) h3

end JanetModel.Compile
