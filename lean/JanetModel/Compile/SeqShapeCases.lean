/- C02: (cases of) the SHAPE theorem of the compiler model on the core fragment `TF G b` (Compile/SeqCorrect.lean): compiling a form only
   appends to the code / map, only appends to the pool of the current function, only extends the value table, only changes the
   allocator and (by appending) the symbols of the innermost scope — proved by induction on the compile fuel WITHOUT any
   semantics or VM run.  Needed for `janetc_if`, which compiles both branches while `Lang/Sem` evaluates one. -/
import JanetModel.Compile.SeqShapeBase
import JanetModel.Compile.SeqIfDef
namespace JanetModel.Compile
open JanetModel.Emit JanetModel.Lang JanetModel.Bytecode.Exec JanetModel.Gen.Bytecode

/-- result slots of the fragment: a constant or a plain local -/
def SlotSh (s : JSlot) : Prop := (s.cflag = true ∧ ∃ kc, s.k = .const kc) ∨ (s.cflag = false ∧ ∃ r, s.k = .loc r)

theorem StepR.out {c c1 : CState} {sc : Scope} {rs : List Scope} {pool : List KConst} {ps : List (List KConst)} (h : StepR c c1 sc rs pool ps) :
    ∃ sc1 pool1, c1.scopes = sc1 :: rs ∧ c1.pools = pool1 :: ps ∧ sc1.top = sc.top ∧ c.buf.length ≤ c1.buf.length := by
  obtain ⟨ra1, more1, seg1, segm1, hc1, _⟩ := h
  exact ⟨{ sc with ra := ra1 }, pool ++ more1, by rw [hc1], by rw [hc1], rfl, by rw [hc1]; simp⟩

theorem Shp.out {G : String → Prop} {c c1 : CState} {sc : Scope} {rs : List Scope} {pool : List KConst} {ps : List (List KConst)}
    (h : Shp G c c1 sc rs pool ps) :
    ∃ sc1 pool1, c1.scopes = sc1 :: rs ∧ c1.pools = pool1 :: ps ∧ sc1.top = sc.top ∧ LkL G c1.scopes ∧ c.buf.length ≤ c1.buf.length := by
  obtain ⟨ra1, ns1, more1, seg1, segm1, hc1, _, lk1, _⟩ := h
  exact ⟨{ sc with ra := ra1, syms := sc.syms ++ ns1 }, pool ++ more1, by rw [hc1], by rw [hc1], rfl, lk1, by rw [hc1]; simp⟩

theorem Shp.trans' {G : String → Prop} {c c1 c2 : CState} {sc sc1 : Scope} {rs : List Scope} {pool pool1 : List KConst} {ps : List (List KConst)}
    (h1 : Shp G c c1 sc rs pool ps) (hs1 : c1.scopes = sc1 :: rs) (hp1 : c1.pools = pool1 :: ps) (h2 : Shp G c1 c2 sc1 rs pool1 ps) :
    Shp G c c2 sc rs pool ps :=
  h1.trans (fun sc1' pool1' hs' hp' _ _ => by
    rw [hs1] at hs'
    rw [hp1] at hp'
    have e1 : sc1 = sc1' := (List.cons.inj hs').1
    have e2 : pool1 = pool1' := (List.cons.inj hp').1
    subst e1 e2
    exact h2)

theorem StepR.trans' {c c1 c2 : CState} {sc sc1 : Scope} {rs : List Scope} {pool pool1 : List KConst} {ps : List (List KConst)}
    (h1 : StepR c c1 sc rs pool ps) (hs1 : c1.scopes = sc1 :: rs) (hp1 : c1.pools = pool1 :: ps) (h2 : StepR c1 c2 sc1 rs pool1 ps) :
    StepR c c2 sc rs pool ps :=
  h1.trans (fun sc1' pool1' hs' hp' => by
    rw [hs1] at hs'
    rw [hp1] at hp'
    have e1 : sc1 = sc1' := (List.cons.inj hs').1
    have e2 : pool1 = pool1' := (List.cons.inj hp').1
    subst e1 e2
    exact h2)

/-- the two patches of `janetc_if` hit instructions of the appended segment -/
theorem Shp.patch {G : String → Prop} {c c14 : CState} {sc : Scope} {rs : List Scope} {pool : List KConst} {ps : List (List KConst)}
    (h : Shp G c c14 sc rs pool ps) (nj : Bool) (i off j : Nat) (hi : c.buf.length ≤ i) (hj : c.buf.length ≤ j) :
    Shp G c { c14 with buf := ifPatch nj c14.buf i off j } sc rs pool ps := by
  obtain ⟨ra', ns, more, seg, segm, hc, pv, lkl, hl⟩ := h
  have hbuf : c14.buf = c.buf ++ seg := by rw [hc]
  have : ∃ seg', ifPatch nj c14.buf i off j = c.buf ++ seg' ∧ seg'.length = seg.length := by
    rw [hbuf]; unfold ifPatch; split
    · exact ⟨_, modBuf_append _ _ _ _ hi, modBuf_length _ _ _⟩
    · rw [modBuf_append _ _ _ _ hi, modBuf_append _ _ _ _ hj]
      exact ⟨_, rfl, by simp [modBuf_length]⟩
  obtain ⟨seg', e1, e2⟩ := this
  refine ⟨ra', ns, more, seg', segm, ?_, pv, lkl, by omega⟩
  rw [e1]
  conv => lhs; rw [hc]

/-- the shape statement at compile fuel `fuel` -/
def ShapeAt (G : String → Prop) (fuel : Nat) : Prop :=
  ∀ (b : Bool) (e : Expr) (opts : Fopts) (c c' : CState) (slot : JSlot) (sc : Scope) (rs : List Scope) (pool : List KConst) (ps : List (List KConst)),
    opts.tail = false → opts.hint = none → c.scopes = sc :: rs → c.pools = pool :: ps → sc.top = false → TF G b e → LkL G c.scopes →
    cValue fuel opts e c = some (slot, c') → Shp G c c' sc rs pool ps ∧ SlotSh slot

/-! ### calls -/

/-- `cCall` with the value used: the sequence of its steps (as `cCallN_inv` in Compile/SeqCallN.lean) -/
theorem cCall_steps (rec' : Fopts → Expr → CState → Option (JSlot × CState)) (f : String) (args : List Expr) (c0 cq : CState) (slot : JSlot)
    (h : cCall rec' {} (.sym f) args c0 = some (slot, cq)) :
    ∃ head c1 slots c2 c3 cT c4 c5, rec' {} (.sym f) c0 = some (head, c1) ∧ toSlots rec' args c1 = some (slots, c2) ∧
      pushSlots c2 slots = some c3 ∧ getTarget c3 {} = some (slot, cT) ∧ emitSS cT .call slot head true = some c4 ∧
      freeslots c4 slots = some c5 ∧ freeslot c5 head = some cq := by
  unfold cCall at h
  simp only [Option.bind_eq_bind, Option.pure_def, Bool.false_and, Bool.false_eq_true, if_false, Option.bind_eq_some_iff, Prod.exists] at h
  obtain ⟨head, c1, h1, slots, c2, h2, h⟩ := h
  simp only [Option.ite_none_left_eq_some] at h
  obtain ⟨_, h⟩ := h
  simp only [Option.bind_eq_bind, Option.bind_eq_some_iff, Prod.exists, Option.some.injEq, Prod.mk.injEq, Option.pure_def] at h
  obtain ⟨c3, h3, t, cT, hT, c4, hE, t2, c42, ⟨ht, hc4⟩, c5, hf1, c6, hf2, hs, hq⟩ := h
  subst_vars
  exact ⟨head, c1, slots, c2, c3, cT, _, c5, h1, h2, h3, hT, hE, hf1, hf2⟩

theorem getTarget_slot (c c' : CState) (opts : Fopts) (hh : opts.hint = none) (t : JSlot) (h : getTarget c opts = some (t, c')) :
    ∃ r, t = { k := .loc r } := by
  simp only [getTarget, hh] at h
  cases ha : allocFar c with
  | none => rw [ha] at h; simp at h
  | some rc =>
    rw [ha] at h
    simp only [Option.bind_eq_bind, Option.bind_some, Option.pure_def, Option.some.injEq, Prod.mk.injEq] at h
    exact ⟨rc.1, h.1.symm⟩

/-- a call compiles to a fresh (non-constant) target register -/
theorem call_slot_loc (fuel : Nat) (opts : Fopts) (ht : opts.tail = false) (hh : opts.hint = none) (e : Expr) (hic : IsCall e)
    (c c' : CState) (slot : JSlot) (h : cValue fuel opts e c = some (slot, c')) : ∃ r, slot = { k := .loc r } := by
  obtain ⟨f, args, q, rfl, hf⟩ := hic
  cases fuel with
  | zero => simp [cValue] at h
  | succ fuel =>
    rw [cValue_call_o fuel opts ht hh f args q c hf] at h
    cases hcc : cCall (cValue fuel) {} (.sym f) args (curAt c q) with
    | none => rw [hcc] at h; simp [fin] at h
    | some res =>
      obtain ⟨s0, cq⟩ := res
      rw [hcc] at h
      simp only [fin, Option.some.injEq, Prod.mk.injEq] at h
      rw [← h.1]
      obtain ⟨head, c1, slots, c2, c3, cT, c4, c5, _, _, _, hT, _⟩ := cCall_steps (cValue fuel) f args _ cq s0 hcc
      exact getTarget_slot c3 cT {} rfl s0 hT

theorem call_isConst_none (fuel : Nat) (opts : Fopts) (ht : opts.tail = false) (hh : opts.hint = none) (e : Expr) (hic : IsCall e)
    (c c' : CState) (slot : JSlot) (h : cValue fuel opts e c = some (slot, c')) : isConstSlot slot = none := by
  obtain ⟨r, hr⟩ := call_slot_loc fuel opts ht hh e hic c c' slot h
  rw [hr]; rfl

theorem toSlots_shape (G : String → Prop) (fuel : Nat) (IH : ShapeAt G fuel) (b : Bool) : ∀ (args : List Expr), (∀ a, a ∈ args → TF G b a) →
    ∀ (c c' : CState) (slots : List JSlot) (sc : Scope) (rs : List Scope) (pool : List KConst) (ps : List (List KConst)),
      c.scopes = sc :: rs → c.pools = pool :: ps → sc.top = false → LkL G c.scopes →
      toSlots (cValue fuel) args c = some (slots, c') → Shp G c c' sc rs pool ps := by
  intro args
  induction args with
  | nil =>
    intro _ c c' slots sc rs pool ps hs hp _ hL h
    simp only [toSlots, Option.some.injEq, Prod.mk.injEq] at h
    rw [← h.2]; exact Shp.refl hs hp hL
  | cons a as ih =>
    intro hT c c' slots sc rs pool ps hs hp htop hL h
    simp only [toSlots, Option.bind_eq_bind, Option.bind_eq_some_iff, Prod.exists, Option.pure_def, Option.some.injEq, Prod.mk.injEq] at h
    obtain ⟨sl1, c1, hx, ss, c2, hrest, _, hc2⟩ := h
    rw [← hc2]
    exact (IH b a {} c c1 sl1 sc rs pool ps rfl rfl hs hp htop (hT a (by simp)) hL hx).1.trans
      (fun sc1 pool1 hs1 hp1 ht1 hL1 =>
        ih (fun e he => hT e (by simp [he])) c1 c2 ss sc1 rs pool1 ps hs1 hp1 (by rw [ht1]; exact htop) hL1 hrest)

theorem cCall_shape (G : String → Prop) (fuel : Nat) (IH : ShapeAt G fuel) (b : Bool) (f : String) (args : List Expr)
    (hTa : ∀ a, a ∈ args → TF G b a) (c cq : CState) (slot : JSlot) (sc : Scope) (rs : List Scope) (pool : List KConst) (ps : List (List KConst))
    (hs : c.scopes = sc :: rs) (hp : c.pools = pool :: ps) (htop : sc.top = false) (hL : LkL G c.scopes)
    (h : cCall (cValue fuel) {} (.sym f) args c = some (slot, cq)) : Shp G c cq sc rs pool ps ∧ SlotSh slot := by
  obtain ⟨head, c1, slots, c2, c3, cT, c4, c5, h1, h2, h3, hT, hEm, hf1, hf2⟩ := cCall_steps (cValue fuel) f args c cq slot h
  refine ⟨?_, ?_⟩
  · refine (IH b (.sym f) {} c c1 head sc rs pool ps rfl rfl hs hp htop (.sym f) hL h1).1.trans (fun sc1 pool1 hs1 hp1 ht1 hL1 => ?_)
    refine (toSlots_shape G fuel IH b args hTa c1 c2 slots sc1 rs pool1 ps hs1 hp1 (by rw [ht1]; exact htop) hL1 h2).thenR
      (fun sc2 pool2 hs2 hp2 => ?_)
    refine (pushSlots_stepR slots c2 c3 sc2 rs pool2 ps hs2 hp2 h3).trans (fun sc3 pool3 hs3 hp3 => ?_)
    refine (getTarget_stepR c3 cT {} slot rfl sc3 rs pool3 ps hs3 hp3 hT).trans (fun sc4 pool4 hs4 hp4 => ?_)
    refine (emitSS_stepR cT c4 _ slot head true sc4 rs pool4 ps hs4 hp4 hEm).trans (fun sc5 pool5 hs5 hp5 => ?_)
    refine (freeslots_stepR slots c4 c5 sc5 rs pool5 ps hs5 hp5 hf1).trans (fun sc6 pool6 hs6 hp6 => ?_)
    exact freeslot_stepR c5 cq head sc6 rs pool6 ps hs6 hp6 hf2
  · obtain ⟨r, hr⟩ := getTarget_slot c3 cT {} rfl slot hT
    rw [hr]; exact Or.inr ⟨rfl, r, rfl⟩

/-! ### `do` / `upscope` -/

theorem doBody_shape (G : String → Prop) (fuel : Nat) (IH : ShapeAt G fuel) (b : Bool) : ∀ (body : List Expr), (∀ e, e ∈ body → TF G b e) →
    ∀ (opts : Fopts) (c c' : CState) (slot : JSlot) (sc : Scope) (rs : List Scope) (pool : List KConst) (ps : List (List KConst)),
      opts.tail = false → opts.hint = none → c.scopes = sc :: rs → c.pools = pool :: ps → sc.top = false → LkL G c.scopes →
      doBody (cValue fuel) opts body c = some (slot, c') → Shp G c c' sc rs pool ps ∧ SlotSh slot := by
  intro body
  induction body with
  | nil =>
    intro _ opts c c' slot sc rs pool ps _ _ hs hp _ hL h
    simp only [doBody, Option.some.injEq, Prod.mk.injEq] at h
    rw [← h.1, ← h.2]
    exact ⟨Shp.refl hs hp hL, Or.inl ⟨rfl, .nil, rfl⟩⟩
  | cons x t ih =>
    intro hT opts c c' slot sc rs pool ps ht hh hs hp htop hL h
    cases t with
    | nil =>
      simp only [doBody] at h
      exact IH b x opts c c' slot sc rs pool ps ht hh hs hp htop (hT x (by simp)) hL h
    | cons y r =>
      simp only [doBody, Option.bind_eq_bind, Option.bind_eq_some_iff, Prod.exists] at h
      obtain ⟨sl1, c1, hx, c1f, hf, hrest⟩ := h
      have S1 := (IH b x { drop := true } c c1 sl1 sc rs pool ps rfl rfl hs hp htop (hT x (by simp)) hL hx).1
      obtain ⟨sc1, pool1, hs1, hp1, ht1, hL1, _⟩ := S1.out
      have S2 := (freeslot_stepR c1 c1f sl1 sc1 rs pool1 ps hs1 hp1 hf).shp hs1 hL1
      obtain ⟨sc2, pool2, hs2, hp2, ht2, hL2, _⟩ := S2.out
      obtain ⟨S3, hsl⟩ := ih (fun e he => hT e (by simp [he])) opts c1f c' slot sc2 rs pool2 ps ht hh hs2 hp2
        (by rw [ht2, ht1]; exact htop) hL2 hrest
      exact ⟨S1.trans' hs1 hp1 (S2.trans' hs2 hp2 S3), hsl⟩

theorem do_shape (G : String → Prop) (fuel : Nat) (IH : ShapeAt G fuel) (b : Bool) (body : List Expr) (hT : ∀ e, e ∈ body → TF G b e)
    (opts : Fopts) (ht : opts.tail = false) (hh : opts.hint = none)
    (c c' : CState) (slot : JSlot) (sc : Scope) (rs : List Scope) (pool : List KConst) (ps : List (List KConst))
    (hs : c.scopes = sc :: rs) (hp : c.pools = pool :: ps) (hL : LkL G c.scopes)
    (h : cDo (cValue fuel) opts body c = some (slot, c')) : Shp G c c' sc rs pool ps ∧ SlotSh slot := by
  simp only [cDo, Option.bind_eq_bind, Option.bind_eq_some_iff, Prod.exists, Option.pure_def, Option.some.injEq, Prod.mk.injEq] at h
  obtain ⟨r, c2, hbody, c3, hpop, hslot, hc3⟩ := h
  subst hslot hc3
  rw [pushScope_blk c sc rs false hs] at hbody
  have hLP : LkL G (blk c sc false :: sc :: rs) := by
    rw [hs] at hL; exact hL.push _ rfl rfl
  obtain ⟨S1, hsl⟩ := doBody_shape G fuel IH b body hT opts { c with scopes := blk c sc false :: sc :: rs } c2 r (blk c sc false) (sc :: rs) pool ps ht hh rfl hp rfl hLP hbody
  exact ⟨popKeep_shape G c c2 c3 r sc rs pool ps hs hL S1 hpop, hsl⟩

/-! ### `def` -/

theorem nameslot_shape (G : String → Prop) (c : CState) (name : String) (s : JSlot) (sc : Scope) (rs : List Scope) (pool : List KConst)
    (ps : List (List KConst)) (hs : c.scopes = sc :: rs) (hp : c.pools = pool :: ps) (hL : LkL G c.scopes) (hG : ¬ G name)
    (hcf : s.cflag = false) (hk : ∃ r, s.k = .loc r) : Shp G c (nameslot c name s) sc rs pool ps := by
  let pair : SymPair := { name := name, slot := { s with named := true } }
  have hsn : (nameslot c name s).scopes = { sc with syms := sc.syms ++ [pair] } :: rs := by
    simp only [nameslot, hs]
    rfl
  refine ⟨sc.ra, [pair], [], [], [], ?_, ?_, ?_, rfl⟩
  · simp only [nameslot, hs, List.append_nil, ← hp]
    rfl
  · simp only [nameslot, hs]; exact PrefA.refl _
  · rw [hsn]
    rw [hs] at hL
    refine ⟨fun f hf => ?_, fun x slot u l hx => ?_⟩
    · rw [lk_snoc sc rs pair rfl f]
      have hne : (pair.name == f) = false := by
        cases hb : (pair.name == f) with
        | false => rfl
        | true =>
          have : name = f := beq_iff_eq.mp hb
          exact absurd (this ▸ hf) hG
      simp only [hne, Bool.false_eq_true, if_false]
      exact hL.1 f hf
    · rw [lk_snoc sc rs pair rfl x] at hx
      cases hb : (pair.name == x) with
      | true =>
        rw [hb] at hx
        simp only [if_true, Option.some.injEq, Prod.mk.injEq] at hx
        obtain ⟨e1, _, e3⟩ := hx
        subst e1 e3
        exact ⟨rfl, hcf, hk, rfl⟩
      | false =>
        rw [hb] at hx
        simp only [Bool.false_eq_true, if_false] at hx
        exact hL.2 x slot u l hx

theorem namelocal_fresh_shape (G : String → Prop) (c c2 : CState) (name : String) (r : JSlot) (mf : Bool) (sc : Scope) (rs : List Scope)
    (pool : List KConst) (ps : List (List KConst)) (hs : c.scopes = sc :: rs) (hp : c.pools = pool :: ps) (hL : LkL G c.scopes) (hG : ¬ G name)
    (h : (do let (ls, c1) ← farslot c
             let c2 ← copySlot c1 ls r
             pure (nameslot c2 name { ls with mutable := mf })) = some c2) : Shp G c c2 sc rs pool ps := by
  simp only [Option.bind_eq_bind, Option.bind_eq_some_iff, Prod.exists, Option.pure_def, Option.some.injEq] at h
  obtain ⟨ls, c1a, h1, c1b, h2, h3⟩ := h
  rw [farslot_eq] at h1
  obtain ⟨d, hd⟩ := getTarget_slot c c1a {} rfl ls h1
  have R1 := getTarget_stepR c c1a {} ls rfl sc rs pool ps hs hp h1
  obtain ⟨sc1, pool1, hs1, hp1, _, _⟩ := R1.out
  have R2 := copySlot_stepR c1a c1b ls r sc1 rs pool1 ps hs1 hp1 h2
  have S12 := (R1.trans' hs1 hp1 R2).shp hs hL
  obtain ⟨sc2, pool2, hs2, hp2, _, hL2, _⟩ := S12.out
  rw [← h3]
  exact S12.trans' hs2 hp2 (nameslot_shape G c1b name _ sc2 rs pool2 ps hs2 hp2 hL2 hG (by rw [hd]) ⟨d, by rw [hd]⟩)

theorem namelocal_shape (G : String → Prop) (c c2 : CState) (name : String) (r : JSlot) (sc : Scope) (rs : List Scope)
    (pool : List KConst) (ps : List (List KConst)) (hs : c.scopes = sc :: rs) (hp : c.pools = pool :: ps) (hL : LkL G c.scopes) (hG : ¬ G name)
    (hsl : SlotSh r) (h : namelocal c name false r = some c2) : Shp G c c2 sc rs pool ps := by
  obtain ⟨k, cf, nm, mu, ret⟩ := r
  rcases hsl with ⟨_, kc, hk⟩ | ⟨hcf, r0, hk⟩
  · simp only at hk; subst hk
    have hX : namelocal c name false { k := .const kc, cflag := cf, named := nm, mutable := mu, returned := ret } =
        (do let (ls, c1) ← farslot c
            let c2 ← copySlot c1 ls { k := .const kc, cflag := cf, named := nm, mutable := mu, returned := ret }
            pure (nameslot c2 name { ls with mutable := false })) := by
      simp [namelocal]
    rw [hX] at h
    exact namelocal_fresh_shape G c c2 name _ false sc rs pool ps hs hp hL hG h
  · simp only at hk hcf; subst hk hcf
    by_cases hal : nm = true ∧ mu = false
    · obtain ⟨e1, e2⟩ := hal
      subst e1 e2
      simp [namelocal] at h
      rw [← h]
      exact nameslot_shape G c name _ sc rs pool ps hs hp hL hG rfl ⟨r0, rfl⟩
    · have hX : namelocal c name false { k := .loc r0, cflag := false, named := nm, mutable := mu, returned := ret } =
          (do let (ls, c1) ← farslot c
              let c2 ← copySlot c1 ls { k := .loc r0, cflag := false, named := nm, mutable := mu, returned := ret }
              pure (nameslot c2 name { ls with mutable := false })) := by
        cases nm <;> cases mu <;> simp_all [namelocal]
      rw [hX] at h
      exact namelocal_fresh_shape G c c2 name _ false sc rs pool ps hs hp hL hG h

theorem def_shape (G : String → Prop) (fuel : Nat) (IH : ShapeAt G fuel) (b : Bool) (x : String) (ve : Expr) (hGx : ¬ G x) (hTv : TF G b ve)
    (c c' : CState) (slot : JSlot) (sc : Scope) (rs : List Scope) (pool : List KConst) (ps : List (List KConst))
    (hs : c.scopes = sc :: rs) (hp : c.pools = pool :: ps) (htop : sc.top = false) (hL : LkL G c.scopes)
    (h : cDef (cValue fuel) x ve c = some (slot, c')) : Shp G c c' sc rs pool ps ∧ SlotSh slot := by
  have hct : curTop c = false := by simp [curTop, hs, htop]
  simp only [cDef, hct, Bool.false_eq_true, if_false, Option.bind_eq_bind, Option.bind_eq_some_iff, Prod.exists, Option.pure_def,
    Option.some.injEq, Prod.mk.injEq] at h
  obtain ⟨r, c1, hv, c2, hnl, hslot, hc2⟩ := h
  subst hslot hc2
  obtain ⟨S1, hsl⟩ := IH b ve {} c c1 r sc rs pool ps rfl rfl hs hp htop hTv hL hv
  obtain ⟨sc1, pool1, hs1, hp1, _, hL1, _⟩ := S1.out
  exact ⟨S1.trans' hs1 hp1 (namelocal_shape G c1 c2 x r sc1 rs pool1 ps hs1 hp1 hL1 hGx hsl hnl), hsl⟩

/-! ### `if` (condition a call: jump path) -/

/-- one branch: block scope, the form, the optional copy into the target, pop -/
theorem branch_shape (G : String → Prop) (fuel : Nat) (IH : ShapeAt G fuel) (b : Bool) (x : Expr) (hx : TF G b x)
    (opts : Fopts) (ht : opts.tail = false) (hh : opts.hint = none) (target : JSlot)
    (c c6 c7 c8 : CState) (left : JSlot) (sc : Scope) (rs : List Scope) (pool : List KConst) (ps : List (List KConst))
    (hs : c.scopes = sc :: rs) (hp : c.pools = pool :: ps) (hL : LkL G c.scopes)
    (h1 : cValue fuel opts x (pushScope c false false false false) = some (left, c6))
    (h2 : ifCopy opts.drop c6 target left = some c7) (h3 : popScope c7 = some c8) : Shp G c c8 sc rs pool ps := by
  rw [pushScope_blk c sc rs false hs] at h1
  have hLP : LkL G (blk c sc false :: sc :: rs) := by
    rw [hs] at hL; exact hL.push _ rfl rfl
  obtain ⟨S1, _⟩ := IH b x opts { c with scopes := blk c sc false :: sc :: rs } c6 left (blk c sc false) (sc :: rs) pool ps ht hh rfl hp rfl hx hLP h1
  obtain ⟨sc6, pool6, hs6, hp6, _, hL6, _⟩ := S1.out
  have R2 : StepR c6 c7 sc6 (sc :: rs) pool6 ps := by
    unfold ifCopy at h2
    split at h2
    · rw [← Option.some.inj h2]; exact StepR.refl c6 sc6 _ pool6 ps hs6 hp6
    · exact copySlot_stepR c6 c7 target left sc6 _ pool6 ps hs6 hp6 h2
  exact pop_shape G c c7 c8 sc rs pool ps hs hL (S1.trans' hs6 hp6 (R2.shp hs6 hL6)) h3

end JanetModel.Compile
