/- C02: `while_jump_core` (Compile/SeqWhile.lean) generalized: the body statements satisfy any predicate `T` that extends the
   fragment `TF G b`, with the induction hypothesis `CorrectAt` / `MLAt` for `T` and the three compile-only body facts (shape,
   `max` monotonicity; placeholder-freeness is `hNB`) taken as hypotheses. -/
import JanetModel.Compile.SeqWhile
namespace JanetModel.Compile
open JanetModel.Emit JanetModel.Lang JanetModel.Bytecode.Exec JanetModel.Gen.Bytecode

/-- compile-only shape of the `while` body statements, as a hypothesis -/
def BodyShp (G : String → Prop) (fuel : Nat) (body : List Expr) : Prop :=
  ∀ (c c' : CState) (sc : Scope) (rs : List Scope) (pool : List KConst) (ps : List (List KConst)),
    c.scopes = sc :: rs → c.pools = pool :: ps → sc.top = false → c.map.length = c.buf.length →
    LkL G c.scopes → whileBody (cValue fuel) body c = some c' → Shp G c c' sc rs pool ps

/-- the `while` body statements never decrease the `max` of the innermost allocator, as a hypothesis -/
def BodyMax (G : String → Prop) (fuel : Nat) (body : List Expr) : Prop :=
  ∀ (c c' : CState) (sc sc' : Scope) (rs : List Scope) (pool : List KConst) (ps : List (List KConst)),
    c.scopes = sc :: rs → c.pools = pool :: ps → sc.top = false → c.map.length = c.buf.length →
    LkL G c.scopes → whileBody (cValue fuel) body c = some c' → c'.scopes = sc' :: rs → sc.ra.max ≤ sc'.ra.max

section
variable (p : Program) (f0 : Frame) (rest : List Frame) (V : Array Value) (P : List KConst)

/-- `janetc_while`, non-constant condition slot, no closure created in the loop -/
theorem while_jump_gen (G : String → Prop) (T : Expr → Prop) (b w : Bool) (fuel : Nat) (IH : CorrectAt p f0 rest V P G T w fuel)
    (ML : MLAt G T true fuel) (hTT : ∀ e, TF G b e → T e)
    (cnd : Expr) (body : List Expr) (hTc : TF G b cnd) (hTb : ∀ e, e ∈ body → T e)
    (HSH : BodyShp G fuel body) (HMX : BodyMax G fuel body)
    (c c' : CState) (slot : JSlot) (sc : Scope) (rs : List Scope) (pool : List KConst) (ps : List (List KConst))
    (f : Nat) (pos : Pos) (env : Env) (s s' : SS)
    (hs : c.scopes = sc :: rs) (hp : c.pools = pool :: ps) (hl : c.lim ≤ 240) (hm : c.map.length = c.buf.length)
    (c3 c3j c4 : CState) (cond : JSlot)
    (hcond : cValue fuel {} cnd (pushScope c false true false false) = some (cond, c3))
    (hnc : isConstSlot cond = none)
    (hem : emitSI c3 .jumpIfNot cond 0 false = some c3j)
    (hbody : whileBody (cValue fuel) body c3j = some c4)
    (hfin : (if (c4.scopes.headD default).closure = true then cWhileFn (cValue fuel) cnd body c.buf.length c4
            else
              if (decide ((emitRaw c4 (CI.jump 0)).buf.length - lastLabel c3j > 32767) || decide (c4.buf.length - c.buf.length > 8388607)) = true then none
              else
                (popScope { emitRaw c4 (CI.jump 0) with
                    buf := brkRewrite (modBuf (modBuf (emitRaw c4 (CI.jump 0)).buf (lastLabel c3j)
                              (patchCond ((emitRaw c4 (CI.jump 0)).buf.length - lastLabel c3j)))
                            c4.buf.length fun _ => CI.jump (Int.ofNat c.buf.length - Int.ofNat c4.buf.length))
                          c.buf.length (emitRaw c4 (CI.jump 0)).buf.length }).bind
                  fun c6 => pure (cslot KConst.nil, c6)) = some (slot, c'))
    (hNB : ∀ ci, ci ∈ c4.buf.drop c.buf.length → ci ≠ CI.brk)
    (hnbB : ∀ n cur env0 s0 v0 s1, (∀ f, G f → lookupEnv env0 f = none) → evalSeq n cur env0 body s0 ≠ .brk v0 s1)
    (hw : whileLoop f pos env cnd body s = .ok () s')
    (hE : EnvS G c.scopes env s.boxes.size sc.ra) :
    Correct2 p f0 rest V P G false c c' slot sc rs pool ps env env s s' .nil := by
  -- the loop's block scope
  obtain ⟨wb, hwb⟩ : ∃ wb : Scope, wb = { whl := true, ra := { alloc := sc.ra.alloc, max := sc.ra.max }, start := c.buf.length } := ⟨_, rfl⟩
  have hc1 : pushScope c false true false false = { c with scopes := wb :: sc :: rs } := by
    simp [pushScope, hs, hwb]
  rw [hc1] at hcond
  have hwsyms : wb.syms = [] := by rw [hwb]
  have hwun : wb.unused = false := by rw [hwb]
  have hwfn : wb.fn = false := by rw [hwb]
  have hwcl : wb.closure = false := by rw [hwb]
  have hwtop : wb.top = false := by rw [hwb]
  have hwal : wb.ra.alloc = sc.ra.alloc := by rw [hwb]
  have hwmax : wb.ra.max = sc.ra.max := by rw [hwb]
  have hlk1 : ∀ y, lk (wb :: sc :: rs) y = lk c.scopes y := by
    intro y; rw [hs]; exact lk_push wb (sc :: rs) hwsyms hwun hwfn y
  have hE1 : ∀ nb, s.boxes.size ≤ nb → EnvS G ({ c with scopes := wb :: sc :: rs } : CState).scopes env nb wb.ra :=
    fun nb hnb => hE.of_lk hlk1 hnb (fun _ _ _ _ r _ _ h => by rw [hwal]; exact h)
  -- the first turn evaluates the condition: its compile-side facts
  obtain ⟨f2, cv0, cenv0, s10, hf, hsc0, _⟩ := whileLoop_inv f pos env cnd body s s' hw
  obtain ⟨ra3, ns3, more3, seg3, segm3, hc3, pv3, mono3, max3, sok3, _, es30, _, _⟩ :=
    IH cnd {} { c with scopes := wb :: sc :: rs } c3 cond wb (sc :: rs) pool ps f2 pos env cenv0 s s10 cv0
      rfl rfl rfl hp hl hwtop (fun _ => hm) (hTT cnd hTc) hcond hsc0 (hE1 _ (Nat.le_refl _))
  have S3 := (tf_shapeM_at G fuel b cnd {} { c with scopes := wb :: sc :: rs } c3 cond wb (sc :: rs) pool ps
      rfl rfl rfl hp hwtop hm hTc (hE1 _ (Nat.le_refl _)).lkl hcond).1
  have hm3 : c3.map.length = c3.buf.length := S3.mapLen hm
  have hs3 : c3.scopes = upd wb ra3 ns3 :: sc :: rs := by rw [hc3]
  have hp3 : c3.pools = (pool ++ more3) :: ps := by rw [hc3]
  have hb3 : c3.buf = c.buf ++ seg3 := by rw [hc3]
  have hl3 : c3.lim ≤ 240 := by rw [hc3]; exact hl
  have max3' : sc.ra.max ≤ ra3.max := by rw [← hwmax]; exact max3
  obtain ⟨rc, hrc, hrc240⟩ : ∃ rc, cond.k = .loc rc ∧ rc < 240 := by
    rcases sok3 with ⟨hcf, kc, hk, _⟩ | ⟨_, _, r, hk, _, hr⟩ | ⟨_, _, d, hk, _, _, hd, _⟩
    · simp [isConstSlot, hcf, hk] at hnc
    · exact ⟨r, hk, hr⟩
    · exact ⟨d, hk, hd⟩
  obtain ⟨_, hc3j⟩ := emitSI_local c3 c3j .jumpIfNot cond rc 0 hrc (by omega) _ (sc :: rs) (pool ++ more3) ps hs3 hp3 hem
  have hs3j : c3j.scopes = upd wb ra3 ns3 :: sc :: rs := by rw [hc3j]
  have hp3j : c3j.pools = (pool ++ more3) :: ps := by rw [hc3j]
  have hl3j : c3j.lim ≤ 240 := by rw [hc3j]; exact hl3
  have hm3j : c3j.map.length = c3j.buf.length := by rw [hc3j]; simp [hm3]
  have hlk3j : ∀ y, lk c3j.scopes y = lk c3.scopes y := by intro y; rw [hs3j, hs3]
  have hL3j : LkL G c3j.scopes := es30.lkl.of_lk hlk3j
  have hb3j : c3j.buf = c.buf ++ seg3 ++ [CI.mi (.pay Op.jumpIfNot.toNat .si false [rc] 0)] := by rw [hc3j]; show c3.buf ++ _ = _; rw [hb3]
  -- the body, compile side
  obtain ⟨ra4, ns4, more4, segB, segmB, hc4, pv4, hL4, hlB⟩ :=
    HSH c3j c4 (upd wb ra3 ns3) (sc :: rs) (pool ++ more3) ps hs3j hp3j hwtop hm3j hL3j hbody
  have hs4 : c4.scopes = upd (upd wb ra3 ns3) ra4 ns4 :: sc :: rs := by rw [hc4]
  have hp4 : c4.pools = (pool ++ more3 ++ more4) :: ps := by rw [hc4]
  have hb4 : c4.buf = c3j.buf ++ segB := by rw [hc4]
  have max4 : ra3.max ≤ ra4.max :=
    HMX c3j c4 (upd wb ra3 ns3) (upd (upd wb ra3 ns3) ra4 ns4) (sc :: rs) (pool ++ more3) ps hs3j hp3j hwtop hm3j hL3j hbody hs4
  -- the end of `janetc_while`
  have hcl4 : ¬ ((c4.scopes.headD default).closure = true) := by rw [hs4]; simp [hwcl]
  rw [if_neg hcl4] at hfin
  by_cases hrange : (decide ((emitRaw c4 (CI.jump 0)).buf.length - lastLabel c3j > 32767) || decide (c4.buf.length - c.buf.length > 8388607)) = true
  · rw [if_pos hrange] at hfin; exact absurd hfin (by simp)
  rw [if_neg hrange] at hfin
  simp only [Bool.or_eq_true, decide_eq_true_eq, not_or, Nat.not_lt] at hrange
  obtain ⟨hr1, hr2⟩ := hrange
  simp only [Option.bind_eq_some_iff, Option.pure_def, Option.some.injEq, Prod.mk.injEq] at hfin
  obtain ⟨c6, hpop, hslot, hc6⟩ := hfin
  subst hc6
  -- the code
  have hb5 : (emitRaw c4 (CI.jump 0)).buf = (c.buf ++ seg3) ++ CI.mi (.pay Op.jumpIfNot.toNat .si false [rc] 0) :: (segB ++ [CI.jump 0]) := by
    simp only [emitRaw]; rw [hb4, hb3j]; simp
  have hll : lastLabel c3j = (c.buf ++ seg3).length := by unfold lastLabel; rw [hb3j]; simp
  have hl4len : c4.buf.length = (c.buf ++ seg3 ++ CI.mi (.pay Op.jumpIfNot.toNat .si false [rc] 0) :: segB).length := by rw [hb4, hb3j]; simp
  have hlen4 : c4.buf.length = c.buf.length + seg3.length + 1 + segB.length := by rw [hl4len]; simp <;> omega
  obtain ⟨offc, hoffc⟩ : ∃ offc, offc = (emitRaw c4 (CI.jump 0)).buf.length - lastLabel c3j := ⟨_, rfl⟩
  obtain ⟨offb, hoffb⟩ : ∃ offb : Int, offb = Int.ofNat c.buf.length - Int.ofNat c4.buf.length := ⟨_, rfl⟩
  have hoffc' : offc = 1 + segB.length + 1 := by
    rw [hoffc, hll, hb5]; simp <;> omega
  have hoffb' : offb = - ((seg3.length + 1 + segB.length : Nat) : Int) := by
    rw [hoffb, hl4len]; simp <;> omega
  have hoffc_lt : offc < 32768 := by rw [hoffc]; omega
  have hbuf2 : modBuf (modBuf (emitRaw c4 (CI.jump 0)).buf (lastLabel c3j) (patchCond ((emitRaw c4 (CI.jump 0)).buf.length - lastLabel c3j)))
      c4.buf.length (fun _ => CI.jump (Int.ofNat c.buf.length - Int.ofNat c4.buf.length)) =
      c.buf ++ (seg3 ++ CI.mi (.pay Op.jumpIfNot.toNat .si false [rc] offc) :: (segB ++ [CI.jump offb])) := by
    rw [← hoffc, ← hoffb, hb5, hll, modBuf_at]
    have e2 : (c.buf ++ seg3) ++ patchCond offc (CI.mi (.pay Op.jumpIfNot.toNat .si false [rc] 0)) :: (segB ++ [CI.jump 0]) =
        (c.buf ++ seg3 ++ CI.mi (.pay Op.jumpIfNot.toNat .si false [rc] offc) :: segB) ++ CI.jump 0 :: [] := by simp [patchCond]
    have e3 : c4.buf.length = (c.buf ++ seg3 ++ CI.mi (.pay Op.jumpIfNot.toNat .si false [rc] offc) :: segB).length := by rw [hl4len]; simp
    rw [e2, e3, modBuf_at]
    simp
  have hnew : ∀ ci, ci ∈ (seg3 ++ CI.mi (.pay Op.jumpIfNot.toNat .si false [rc] offc) :: (segB ++ [CI.jump offb])) → ci ≠ CI.brk := by
    intro ci hci
    have hd : c4.buf.drop c.buf.length = seg3 ++ CI.mi (.pay Op.jumpIfNot.toNat .si false [rc] 0) :: segB := by
      rw [hb4, hb3j]; simp
    rw [hd] at hNB
    simp only [List.mem_append, List.mem_cons, List.not_mem_nil, or_false] at hci hNB
    rcases hci with h | h | h | h
    · exact hNB ci (Or.inl h)
    · rw [h]; exact fun e => CI.noConfusion e
    · exact hNB ci (Or.inr (Or.inr h))
    · rw [h]; exact fun e => CI.noConfusion e
  have hbuf3 : brkRewrite (modBuf (modBuf (emitRaw c4 (CI.jump 0)).buf (lastLabel c3j) (patchCond ((emitRaw c4 (CI.jump 0)).buf.length - lastLabel c3j)))
      c4.buf.length (fun _ => CI.jump (Int.ofNat c.buf.length - Int.ofNat c4.buf.length))) c.buf.length (emitRaw c4 (CI.jump 0)).buf.length =
      c.buf ++ (seg3 ++ CI.mi (.pay Op.jumpIfNot.toNat .si false [rc] offc) :: (segB ++ [CI.jump offb])) := by
    rw [hbuf2]
    apply brkRewrite_id
    intro i h1 h2
    refine hnew _ (getD_append_mem _ _ i h1 ?_)
    rw [hb5] at h2
    simp at h2 ⊢
    omega
  rw [hbuf3] at hpop
  -- the pop
  have hs5 : ({ emitRaw c4 (CI.jump 0) with buf := c.buf ++ (seg3 ++ CI.mi (.pay Op.jumpIfNot.toNat .si false [rc] offc) :: (segB ++ [CI.jump offb])) } : CState).scopes =
      upd (upd wb ra3 ns3) ra4 ns4 :: sc :: rs := hs4
  obtain ⟨raX, hpop', hmaxX, hmonoX⟩ := popScope_block _ _ sc rs hs5 hwfn hwun hwcl
  rw [hpop'] at hpop
  have hc6 := (Option.some.inj hpop).symm
  have hmaxX' : raX.max = (if sc.ra.max < ra4.max then ra4.max else sc.ra.max) := hmaxX
  have hlk' : ∀ x, lk c6.scopes x = lk c.scopes x := by
    intro x
    rw [hc6, hs]
    have hinv : ∀ q, q ∈ (upd (upd wb ra3 ns3) ra4 ns4).syms.map (fun q : SymPair => { q with visible := false }) → q.visible = false := by
      intro q hq
      simp only [List.mem_map] at hq
      obtain ⟨q0, _, rfl⟩ := hq
      rfl
    exact (lk_append_invisible { sc with ra := raX } rs _ hinv x).trans (lk_ra sc rs raX x)
  have hv6 : c6.vals = c4.vals := by rw [hc6]; rfl
  have pv3' : PrefA c.vals c3.vals := pv3
  have pv4' : PrefA c3.vals c4.vals := by
    have : c3j.vals = c3.vals := by rw [hc3j]
    rw [← this]; exact pv4
  -- boxes only grow
  have boxes : ∀ (fl : Nat) (si : SS), whileLoop fl pos env cnd body si = .ok () s' → PrefA s.boxes si.boxes → PrefA si.boxes s'.boxes := by
    intro fl
    induction fl with
    | zero => intro si hwl; simp [whileLoop] at hwl
    | succ fl ihl =>
      intro si hwl hbx
      obtain ⟨f2', cv, cenv, s1, hfe, hsc, hrest⟩ := whileLoop_inv (fl + 1) pos env cnd body si s' hwl
      have hfe' : f2' = fl := by omega
      subst hfe'
      have C3 := IH cnd {} { c with scopes := wb :: sc :: rs } c3 cond wb (sc :: rs) pool ps f2' pos env cenv si s1 cv
        rfl rfl rfl hp hl hwtop (fun _ => hm) (hTT cnd hTc) hcond hsc (hE1 _ hbx.1)
      obtain ⟨bx3, es3, _, _, _⟩ := Correct2.use p f0 rest V P C3 seg3 (pool ++ more3) (upd wb ra3 ns3) hb3 hp3 hs3
      rcases hrest with ⟨_, hs'⟩ | ⟨_, hgo⟩
      · subst hs'; exact bx3
      · rcases hgo with ⟨bv, benv, s2, hsb, hwl2⟩ | ⟨bv, hbrk⟩
        · have hE3j : EnvS G c3j.scopes cenv s1.boxes.size (upd wb ra3 ns3).ra :=
            es3.of_lk hlk3j (Nat.le_refl _) (fun _ _ _ _ _ _ _ h => h)
          have CB := whileBody_correct p f0 rest V P G T w fuel IH ML body hTb c3j c4 (upd wb ra3 ns3) (sc :: rs) (pool ++ more3) ps
            f2' pos cenv benv s1 s2 bv hs3j hp3j hl3j hwtop hm3j hbody hsb hE3j
          obtain ⟨bx4, _, _, _, _⟩ := Correct2.use p f0 rest V P CB segB (pool ++ more3 ++ more4) (upd (upd wb ra3 ns3) ra4 ns4) hb4 hp4 hs4
          have hbx12 : PrefA si.boxes s2.boxes := PrefA.trans bx3 bx4
          exact PrefA.trans hbx12 (ihl s2 hwl2 (PrefA.trans hbx hbx12))
        · refine absurd hbrk (hnbB _ _ _ _ _ _ (fun g hg => ?_))
          rcases es3.2 g with ⟨_, h⟩ | ⟨sl, r, a, u, h, _⟩
          · exact h
          · rw [es3.1 g hg] at h; exact absurd h (by simp)
  have hbxAll : PrefA s.boxes s'.boxes := boxes f s hw (PrefA.refl _)
  -- the loop on the VM, by induction on the fuel of `whileLoop`
  have loop : ∀ (k : Cfg), CodeAt (p.defs.getD f0.defIdx default).code k.pc
        (seg3 ++ CI.mi (.pay Op.jumpIfNot.toNat .si false [rc] offc) :: (segB ++ [CI.jump offb])) →
      PrefL (pool ++ more3 ++ more4) P → PrefA c4.vals V → ra4.max < k.regs.size →
      ∀ (fl : Nat) (si : SS) (regsi : Array Value), whileLoop fl pos env cnd body si = .ok () s' →
        PrefA s.boxes si.boxes → EnvD c.scopes env si regsi → regsi.size = k.regs.size →
        ∃ regs', Reach p (inj f0 rest { regs := regsi, pc := k.pc, args := #[], w := si.st.world })
            (inj f0 rest { regs := regs', pc := k.pc + (seg3.length + 1 + segB.length + 1), args := #[], w := s'.st.world }) ∧
          regs'.size = k.regs.size ∧ (∀ r, sc.ra.alloc r = true → regs'.getD r .nil = regsi.getD r .nil) ∧ PrefA si.boxes s'.boxes := by
    intro k hcode hpre hV hsz fl
    induction fl with
    | zero => intro si regsi hwl; simp [whileLoop] at hwl
    | succ fl ihl =>
      intro si regsi hwl hbx hD hszi
      obtain ⟨f2', cv, cenv, s1, hfe, hsc, hrest⟩ := whileLoop_inv (fl + 1) pos env cnd body si s' hwl
      have hfe' : f2' = fl := by omega
      subst hfe'
      -- the condition
      have C3 := IH cnd {} { c with scopes := wb :: sc :: rs } c3 cond wb (sc :: rs) pool ps f2' pos env cenv si s1 cv
        rfl rfl rfl hp hl hwtop (fun _ => hm) (hTT cnd hTc) hcond hsc (hE1 _ hbx.1)
      obtain ⟨bx3, es3, _, _, vm3⟩ := Correct2.use p f0 rest V P C3 seg3 (pool ++ more3) (upd wb ra3 ns3) hb3 hp3 hs3
      obtain ⟨regs3, rch3, sz3, pr3, sv3, ed3⟩ := vm3 { regs := regsi, pc := k.pc, args := #[], w := si.st.world } rfl rfl (hD.of_lk hlk1)
        hcode.left (PrefL.trans ⟨more4, rfl⟩ hpre) (PrefA.trans pv4' hV) (by show ra3.max < regsi.size; omega)
      have sz3' : regs3.size = regsi.size := sz3
      have pr3' : ∀ r, sc.ra.alloc r = true → regs3.getD r .nil = regsi.getD r .nil := by
        intro r hr; exact pr3 r (by rw [hwal]; exact hr)
      have hcv3 : regs3.getD rc .nil = cv := by
        have := sv3 (by simp)
        simpa [slotVal, hrc] using this
      have hcJ : (p.defs.getD f0.defIdx default).code[k.pc + seg3.length]? = some (MI.pay Op.jumpIfNot.toNat .si false [rc] offc).word :=
        hcode.right.head
      have jstep := jumpIfNot_agrees p (inj f0 rest { regs := regs3, pc := k.pc + seg3.length, args := #[], w := s1.st.world }) rc offc
        (by omega) hoffc_lt (by rw [inj_curDef, inj_pc]; exact hcJ)
      rw [inj_getReg] at jstep
      have hreg : ({ regs := regs3, pc := k.pc + seg3.length, args := #[], w := s1.st.world } : Cfg).regs.getD rc .nil = cv := hcv3
      rw [hreg] at jstep
      rcases hrest with ⟨htr, hs'⟩ | ⟨htr, hgo⟩
      · -- falsy: out of the loop
        subst hs'
        simp only [htr, Bool.false_eq_true, if_false, inj_jump] at jstep
        have e1' : (Int.ofNat (k.pc + seg3.length) + (offc : Int)).toNat = k.pc + (seg3.length + 1 + segB.length + 1) := by
          simp only [Int.ofNat_eq_natCast]; omega
        simp only [e1'] at jstep
        exact ⟨regs3, Reach.trans rch3 (Reach.head jstep (Reach.refl _ _)), by omega, pr3', bx3⟩
      · -- truthy: the body, the jump back, the loop again
        simp only [htr, if_true, inj_adv] at jstep
        rcases hgo with ⟨bv, benv, s2, hsb, hwl2⟩ | ⟨bv, hbrk⟩
        · have hE3j : EnvS G c3j.scopes cenv s1.boxes.size (upd wb ra3 ns3).ra :=
            es3.of_lk hlk3j (Nat.le_refl _) (fun _ _ _ _ _ _ _ h => h)
          have CB := whileBody_correct p f0 rest V P G T w fuel IH ML body hTb c3j c4 (upd wb ra3 ns3) (sc :: rs) (pool ++ more3) ps
            f2' pos cenv benv s1 s2 bv hs3j hp3j hl3j hwtop hm3j hbody hsb hE3j
          obtain ⟨bx4, _, _, mono4, vm4⟩ := Correct2.use p f0 rest V P CB segB (pool ++ more3 ++ more4) (upd (upd wb ra3 ns3) ra4 ns4) hb4 hp4 hs4
          obtain ⟨regs4, rch4, sz4, pr4, _, _⟩ := vm4 { regs := regs3, pc := k.pc + seg3.length + 1, args := #[], w := s1.st.world } rfl rfl
            (ed3.of_lk hlk3j) hcode.right.tail.left hpre hV (by show ra4.max < regs3.size; omega)
          have sz4' : regs4.size = regs3.size := sz4
          have pr4' : ∀ r, ra3.alloc r = true → regs4.getD r .nil = regs3.getD r .nil := pr4
          have mono3' : ∀ r, sc.ra.alloc r = true → ra3.alloc r = true := by
            intro r hr; exact mono3 r (by rw [hwal]; exact hr)
          have hcB : (p.defs.getD f0.defIdx default).code[k.pc + seg3.length + 1 + segB.length]? = some (CI.jump offb).word :=
            hcode.right.tail.right.head
          have jst := step_jump p (inj f0 rest { regs := regs4, pc := k.pc + seg3.length + 1 + segB.length, args := #[], w := s2.st.world })
            offb (by rw [hoffb']; omega) (by rw [hoffb']; omega) (by rw [inj_curDef, inj_pc]; exact hcB)
          rw [inj_jump] at jst
          have e2' : (Int.ofNat (k.pc + seg3.length + 1 + segB.length) + offb).toNat = k.pc := by
            rw [hoffb']; simp only [Int.ofNat_eq_natCast]; omega
          simp only [e2'] at jst
          have hframe : ∀ r, sc.ra.alloc r = true → regs4.getD r .nil = regsi.getD r .nil := by
            intro r hr; rw [pr4' r (mono3' r hr), pr3' r hr]
          have hbx12 : PrefA si.boxes s2.boxes := PrefA.trans bx3 bx4
          have hD2 : EnvD c.scopes env s2 regs4 := by
            intro x sl u l r a hx hk he
            obtain ⟨_, _, _, r'', a'', hk', he', ha, hal, _⟩ := hE.found hx
            have e1 : r'' = r := by rw [hk'] at hk; injection hk
            have e2 : a'' = a := by rw [he] at he'; exact (Option.some.inj he').symm
            subst e1 e2
            rw [hframe r'' hal, hD x sl u l r'' a'' hx hk he]
            exact (readBox_pref hbx12 a'' (by have := hbx.1; omega)).symm
          obtain ⟨regsF, rchF, szF, prF, bxF⟩ := ihl s2 regs4 hwl2 (PrefA.trans hbx hbx12) hD2 (by omega)
          refine ⟨regsF, Reach.trans rch3 (Reach.head jstep (Reach.trans rch4 (Reach.head jst rchF))), szF, ?_, PrefA.trans hbx12 bxF⟩
          intro r hr; rw [prF r hr, hframe r hr]
        · refine absurd hbrk (hnbB _ _ _ _ _ _ (fun g hg => ?_))
          rcases es3.2 g with ⟨_, h⟩ | ⟨sl, r, a, u, h, _⟩
          · exact h
          · rw [es3.1 g hg] at h; exact absurd h (by simp)
  -- assembling
  refine ⟨raX, (upd (upd wb ra3 ns3) ra4 ns4).syms.map (fun q => { q with visible := false }), more3 ++ more4,
    seg3 ++ CI.mi (.pay Op.jumpIfNot.toNat .si false [rc] offc) :: (segB ++ [CI.jump offb]),
    segm3 ++ [c3.cur] ++ segmB ++ [c4.cur], ?_, ?_, hmonoX, ?_, ?_, ?_, ?_, ?_, ?_⟩
  · rw [hc6]
    simp only [emitRaw]
    rw [hc4, hc3j, hc3]
    simp [List.append_assoc]
  · rw [hv6]; exact PrefA.trans pv3' pv4'
  · rw [hmaxX']; split <;> omega
  · rw [← hslot]; exact Or.inl ⟨rfl, .nil, rfl, trivial⟩
  · exact hbxAll
  · exact hE.of_lk hlk' hbxAll.1 (fun _ _ _ _ r _ _ h => hmonoX r h)
  · exact NameFrame.of_lk hlk' (by rw [← hslot]; rfl)
  · intro k hkw hka hD hcode hpre hV hsz
    rw [hv6] at hV
    have hsz4 : ra4.max < k.regs.size := by
      rw [hmaxX'] at hsz; split at hsz <;> omega
    have hpre' : PrefL (pool ++ more3 ++ more4) P := by simpa [List.append_assoc] using hpre
    obtain ⟨regs', rch, sz, pr, _⟩ := loop k hcode hpre' hV hsz4 f s k.regs hw (PrefA.refl _) hD rfl
    have hk0 : ({ regs := k.regs, pc := k.pc, args := #[], w := s.st.world } : Cfg) = k := by
      obtain ⟨regs, pc, args, w0⟩ := k
      simp only at hkw hka
      subst hkw hka
      rfl
    rw [hk0] at rch
    refine ⟨regs', ?_, sz, pr, fun _ => by rw [← hslot]; rfl, ?_⟩
    · have e : k.pc + (seg3 ++ CI.mi (.pay Op.jumpIfNot.toNat .si false [rc] offc) :: (segB ++ [CI.jump offb])).length =
          k.pc + (seg3.length + 1 + segB.length + 1) := by
        simp only [List.length_append, List.length_cons, List.length_nil]; omega
      rw [e]; exact rch
    · intro x sl u l r a hx hk he
      rw [hlk'] at hx
      obtain ⟨_, _, _, r'', a'', hk', he', ha, hal, _⟩ := hE.found hx
      have e1 : r'' = r := by rw [hk'] at hk; injection hk
      have e2 : a'' = a := by rw [he] at he'; exact (Option.some.inj he').symm
      subst e1 e2
      rw [pr r'' hal, hD x sl u l r'' a'' hx hk he]
      exact (readBox_pref hbxAll a'' ha).symm

end

end JanetModel.Compile
