/- C02: `Lang/Sem` never gives a form of the fragment `TF G b` the outcome `.brk` (there is no `break` in the fragment, and a call
   of the fragment applies a core function — in an environment where the names used as call heads are unbound).  Needed by the
   `while` case: a loop of the fragment can only end through its condition. -/
import JanetModel.Compile.SeqIfSem
namespace JanetModel.Compile
open JanetModel.Emit JanetModel.Lang JanetModel.Bytecode.Exec JanetModel.Gen.Bytecode

/-- the names used as call heads are unbound -/
def GFree (G : String → Prop) (env : Env) : Prop := ∀ f, G f → lookupEnv env f = none

theorem EnvS.gfree {G : String → Prop} {scs : List Scope} {env : Env} {nb : Nat} {ra : RA} (h : EnvS G scs env nb ra) : GFree G env := by
  intro f hf
  rcases h.2 f with ⟨_, h2⟩ | ⟨sl, r, a, u, h1, _⟩
  · exact h2
  · rw [h.1 f hf] at h1; exact absurd h1 (by simp)

/-- no `.brk`, and an `.ok` result's environment keeps the call heads unbound -/
def NBG {α : Type} (G : String → Prop) (r : R (α × Env)) : Prop :=
  (∀ v s, r ≠ .brk v s) ∧ (∀ a env' s, r = .ok (a, env') s → GFree G env')

theorem NBG.ok {α : Type} {G : String → Prop} (a : α) (env : Env) (s : SS) (h : GFree G env) : NBG G (.ok (a, env) s : R (α × Env)) :=
  ⟨fun _ _ => by simp, fun a' env' s' e => by simp only [R.ok.injEq, Prod.mk.injEq] at e; rw [← e.1.2]; exact h⟩

theorem NBG.err {α : Type} {G : String → Prop} (v : Value) (p : Pos) (s : SS) : NBG G (.err v p s : R (α × Env)) :=
  ⟨fun _ _ => by simp, fun _ _ _ e => by simp at e⟩

theorem NBG.stop {α : Type} {G : String → Prop} (w : String) : NBG G (.stop w : R (α × Env)) :=
  ⟨fun _ _ => by simp, fun _ _ _ e => by simp at e⟩

theorem applyFn_cfun_nb (n : Nat) (pos : Pos) (f : String) (hna : f ≠ "apply") (vs : List Value) (s : SS) (v : Value) (s' : SS) :
    applyFn n pos (.cfun f) vs s ≠ .brk v s' := by
  cases n with
  | zero => simp [applyFn]
  | succ n =>
    rw [applyFn_cfun n pos f hna]
    cases callPrimW f vs s.st.world with
    | ok a => obtain ⟨v', w'⟩ := a; simp
    | rt => simp
    | user e => simp
    | unsup w => simp

theorem gfree_cons {G : String → Prop} {env : Env} (x : String) (a : Nat) (hx : ¬ G x) (h : GFree G env) : GFree G ((x, a) :: env) := by
  intro f hf
  simp only [lookupEnv]
  have : (x == f) = false := by
    cases hb : (x == f) with
    | false => rfl
    | true => exact absurd (by rw [← beq_iff_eq.mp hb] at hf; exact hf) hx
  rw [this]
  exact h f hf

/-- the three evaluators of `Lang/Sem` on the fragment, at a given fuel -/
def NBAll (G : String → Prop) (b : Bool) (n : Nat) : Prop :=
  (∀ cur env e s, GFree G env → TF G b e → NBG G (eval n cur env e s)) ∧
  (∀ cur env body s, GFree G env → (∀ e, e ∈ body → TF G b e) → NBG G (evalSeq n cur env body s)) ∧
  (∀ cur env args s, GFree G env → (∀ e, e ∈ args → TF G b e) → NBG G (evalArgs n cur env args s))

theorem tf_nball (G : String → Prop) (b : Bool) : ∀ n, NBAll G b n := by
  intro n
  induction n with
  | zero =>
    refine ⟨fun cur env e s _ _ => ?_, fun cur env body s _ _ => ?_, fun cur env args s _ _ => ?_⟩
    · simp only [eval]; exact NBG.stop _
    · simp only [evalSeq]; exact NBG.stop _
    · simp only [evalArgs]; exact NBG.stop _
  | succ n ih =>
    obtain ⟨ihE, ihS, ihA⟩ := ih
    refine ⟨fun cur env e s hg hT => ?_, fun cur env body s hg hT => ?_, fun cur env args s hg hT => ?_⟩
    · cases hT with
      | lit w hw => rw [eval_lit]; exact NBG.ok _ _ _ hg
      | sym x =>
        cases hl : lookupEnv env x with
        | none => rw [eval_sym_global n cur env x s hl]; exact NBG.ok _ _ _ hg
        | some a => rw [eval_sym_local n cur env x s a hl]; exact NBG.ok _ _ _ hg
      | call f args p hf hna hG hTa =>
        rw [eval_call n cur env f args p s hf]
        cases n with
        | zero => simp only [eval]; exact NBG.stop _
        | succ n' =>
          rw [eval_sym_global n' _ env f s (hg f hG)]
          simp only
          have hA := ihA (posOf cur p) env args s hg hTa
          cases he : evalArgs (n' + 1) (posOf cur p) env args s with
          | ok r s2 =>
            obtain ⟨vs, env2⟩ := r
            simp only
            have hg2 : GFree G env2 := hA.2 vs env2 s2 he
            cases ha : applyFn (n' + 1) (posOf cur p) (.cfun f) vs s2 with
            | ok v s3 => exact NBG.ok _ _ _ hg2
            | err v q s3 => exact NBG.err _ _ _
            | brk v s3 => exact absurd ha (applyFn_cfun_nb _ _ f hna vs s2 v s3)
            | stop w => exact NBG.stop _
          | err v q s2 => exact NBG.err _ _ _
          | brk v s2 => exact absurd he (hA.1 v s2)
          | stop w => exact NBG.stop _
      | doo body p hTb =>
        rw [eval_do]
        have hS := ihS (posOf cur p) env body s hg hTb
        cases he : evalSeq n (posOf cur p) env body s with
        | ok r s2 => obtain ⟨v, envb⟩ := r; exact NBG.ok _ _ _ hg
        | err v q s2 => exact NBG.err _ _ _
        | brk v s2 => exact absurd he (hS.1 v s2)
        | stop w => exact NBG.stop _
      | ups body p hTb =>
        rw [eval_upscope]
        exact ihS (posOf cur p) env body s hg hTb
      | deff x ve p hGx hTv =>
        rw [eval_def]
        have hV := ihE (posOf cur p) env ve s hg hTv
        cases he : eval n (posOf cur p) env ve s with
        | ok r s2 =>
          obtain ⟨v, env1⟩ := r
          simp only
          have hg1 : GFree G env1 := hV.2 v env1 s2 he
          cases n with
          | zero => simp only [destructure]; exact NBG.stop _
          | succ n' =>
            simp only [destructure, Lang.bind]
            exact NBG.ok _ _ _ (gfree_cons x _ hGx hg1)
        | err v q s2 => exact NBG.err _ _ _
        | brk v s2 => exact absurd he (hV.1 v s2)
        | stop w => exact NBG.stop _
      | iff cnd tb rest p hb hok hlen hTc hTt hTe =>
        rw [eval_if]
        have hC := ihE (posOf cur p) env cnd s hg hTc
        cases he : eval n (posOf cur p) env cnd s with
        | ok r s2 =>
          obtain ⟨cv, cenv⟩ := r
          simp only
          have hgc : GFree G cenv := hC.2 cv cenv s2 he
          have hbr : ∀ br, (if truthy cv then (tb :: rest).head? else ((tb :: rest).drop 1).head?) = some br → TF G b br := by
            intro br hbr
            by_cases ht : truthy cv = true
            · rw [if_pos ht] at hbr
              simp only [List.head?_cons, Option.some.injEq] at hbr
              rw [← hbr]; exact hTt
            · rw [if_neg ht] at hbr
              simp only [List.drop_succ_cons, List.drop_zero] at hbr
              exact hTe br (List.mem_of_mem_head? hbr)
          cases hsel : (if truthy cv then (tb :: rest).head? else ((tb :: rest).drop 1).head?) with
          | none => exact NBG.ok _ _ _ hg
          | some br =>
            simp only
            have hB := ihE (posOf cur p) cenv br s2 hgc (hbr br hsel)
            cases hbe : eval n (posOf cur p) cenv br s2 with
            | ok r3 s3 => obtain ⟨v, _⟩ := r3; exact NBG.ok _ _ _ hg
            | err v q s3 => exact NBG.err _ _ _
            | brk v s3 => exact absurd hbe (hB.1 v s3)
            | stop w => exact NBG.stop _
        | err v q s2 => exact NBG.err _ _ _
        | brk v s2 => exact absurd he (hC.1 v s2)
        | stop w => exact NBG.stop _
    · cases body with
      | nil => simp only [evalSeq]; exact NBG.ok _ _ _ hg
      | cons e t =>
        cases t with
        | nil => simp only [evalSeq]; exact ihE cur env e s hg (hT e (by simp))
        | cons y r =>
          simp only [evalSeq]
          have hE1 := ihE cur env e s hg (hT e (by simp))
          cases he : eval n cur env e s with
          | ok r1 s1 =>
            obtain ⟨v1, env1⟩ := r1
            exact ihS cur env1 (y :: r) s1 (hE1.2 v1 env1 s1 he) (fun e' he' => hT e' (by simp [he']))
          | err v q s1 => exact NBG.err _ _ _
          | brk v s1 => exact absurd he (hE1.1 v s1)
          | stop w => exact NBG.stop _
    · cases args with
      | nil => simp only [evalArgs]; exact NBG.ok _ _ _ hg
      | cons e t =>
        simp only [evalArgs, (hT e (by simp)).notSplice]
        have hE1 := ihE cur env e s hg (hT e (by simp))
        cases he : eval n cur env e s with
        | ok r1 s1 =>
          obtain ⟨v1, env1⟩ := r1
          simp only
          have hA := ihA cur env1 t s1 (hE1.2 v1 env1 s1 he) (fun e' he' => hT e' (by simp [he']))
          cases ha : evalArgs n cur env1 t s1 with
          | ok r2 s2 => obtain ⟨vs, env2⟩ := r2; exact NBG.ok _ _ _ (hA.2 vs env2 s2 ha)
          | err v q s2 => exact NBG.err _ _ _
          | brk v s2 => exact absurd ha (hA.1 v s2)
          | stop w => exact NBG.stop _
        | err v q s1 => exact NBG.err _ _ _
        | brk v s1 => exact absurd he (hE1.1 v s1)
        | stop w => exact NBG.stop _

theorem tf_eval_nobrk (G : String → Prop) (b : Bool) (n : Nat) (cur : Pos) (env : Env) (e : Expr) (s : SS) (v : Value) (s' : SS)
    (hg : ∀ f, G f → lookupEnv env f = none) (hT : TF G b e) : eval n cur env e s ≠ .brk v s' :=
  ((tf_nball G b n).1 cur env e s hg hT).1 v s'

theorem tf_evalSeq_nobrk (G : String → Prop) (b : Bool) (n : Nat) (cur : Pos) (env : Env) (body : List Expr) (s : SS) (v : Value) (s' : SS)
    (hg : ∀ f, G f → lookupEnv env f = none) (hT : ∀ e, e ∈ body → TF G b e) : evalSeq n cur env body s ≠ .brk v s' :=
  ((tf_nball G b n).2.1 cur env body s hg hT).1 v s'

end JanetModel.Compile
