/- C02: `while` WITH `break`, building blocks: `(break)` in a non-function `while` scope compiles to the placeholder `.brk`
   (`cValue_break_o`); `whileBody` over an appended list; the `break`-placeholder rewrite on code with EXACTLY ONE placeholder
   (`brkRewrite_one`); the semantics of a statement list `pre ++ (break) :: post` (`evalSeq_break_inv`). -/
import JanetModel.Compile.SeqNest
namespace JanetModel.Compile
open JanetModel.Emit JanetModel.Lang JanetModel.Bytecode.Exec JanetModel.Gen.Bytecode

/-! ### compile side -/

/-- `(break)` when the innermost function-or-while scope is a `while` scope that is not a function scope: the placeholder -/
theorem cValue_break_o (fuel : Nat) (opts : Fopts) (ht : opts.tail = false) (hh : opts.hint = none) (p : Pos) (c : CState) (sc0 : Scope)
    (hf : c.scopes.find? (fun s => s.fn || s.whl) = some sc0) (hfn : sc0.fn = false) :
    cValue (fuel + 1) opts (.form [.sym "break"] p) c = fin c.cur (some (cslot .nil, emitRaw (curAt c p) .brk)) := by
  have hf2 : (if p.line ≥ 0 then { c with cur := p } else c).scopes.find? (fun s => s.fn || s.whl) = some sc0 := by
    split <;> exact hf
  simp only [cValue, ht, hh]
  split
  · rename_i h
    simp [hf2, hfn] at h
  · rename_i r c1 h
    simp [hf2, hfn] at h
    obtain ⟨h1, h2⟩ := h
    subst h1 h2
    simp [fin, curAt]

theorem whileBody_append (rec' : Fopts → Expr → CState → Option (JSlot × CState)) :
    ∀ (a b : List Expr) (c c' : CState), whileBody rec' (a ++ b) c = some c' ↔
      ∃ c1, whileBody rec' a c = some c1 ∧ whileBody rec' b c1 = some c'
  | [], b, c, c' => by simp [whileBody]
  | x :: a, b, c, c' => by
    simp only [List.cons_append, whileBody, Option.bind_eq_bind, Option.bind_eq_some_iff, Prod.exists]
    constructor
    · rintro ⟨sl, c1, h1, c2, h2, h3⟩
      obtain ⟨c3, h4, h5⟩ := (whileBody_append rec' a b c2 c').mp h3
      exact ⟨c3, ⟨sl, c1, h1, c2, h2, h4⟩, h5⟩
    · rintro ⟨c3, ⟨sl, c1, h1, c2, h2, h4⟩, h5⟩
      exact ⟨sl, c1, h1, c2, h2, (whileBody_append rec' a b c2 c').mpr ⟨c3, h4, h5⟩⟩

/-! ### the rewrite on exactly one placeholder -/

theorem getElem_cons_ne_zero (x y : CI) (B : List CI) : ∀ (j : Nat) (h1 : j < (x :: B).length) (h2 : j < (y :: B).length), j ≠ 0 →
    (x :: B)[j] = (y :: B)[j] ∧ (x :: B)[j] ∈ B
  | 0, _, _, h => absurd rfl h
  | j + 1, h1, h2, _ => by
    simp only [List.getElem_cons_succ, true_and]
    exact List.getElem_mem _

theorem brkRewrite_one (A B : List CI) (lo hi : Nat) (hlo : lo ≤ A.length) (hhi : A.length < hi)
    (hA : ∀ i, lo ≤ i → i < A.length → A.getD i default ≠ .brk) (hB : ∀ ci, ci ∈ B → ci ≠ .brk) :
    brkRewrite (A ++ CI.brk :: B) lo hi = A ++ CI.jump (Int.ofNat (hi - A.length)) :: B := by
  apply List.ext_getElem
  · simp [brkRewrite]
  · intro i h1 h2
    have h3 : i < (A ++ CI.brk :: B).length := by simpa using h2
    simp only [brkRewrite, List.getElem_map, List.getElem_range]
    have hg : (A ++ CI.brk :: B).getD i default = (A ++ CI.brk :: B)[i] := by
      simp only [List.getD, List.getElem?_eq_getElem h3, Option.getD_some]
    rw [hg]
    by_cases hlt : i < A.length
    · rw [List.getElem_append_left hlt, List.getElem_append_left hlt]
      have hgA : A.getD i default = A[i] := by simp only [List.getD, List.getElem?_eq_getElem hlt, Option.getD_some]
      cases hb : A[i] with
      | brk =>
        by_cases hin : lo ≤ i
        · exact absurd (hgA.trans hb) (hA i hin hlt)
        · simp [hin]
      | _ => rfl
    · have hge : A.length ≤ i := by omega
      rw [List.getElem_append_right hge, List.getElem_append_right hge]
      by_cases heq : i = A.length
      · subst heq
        have : lo ≤ A.length ∧ A.length < hi := ⟨hlo, hhi⟩
        simp [this]
      · obtain ⟨e, hmem⟩ := getElem_cons_ne_zero CI.brk (CI.jump (Int.ofNat (hi - A.length))) B (i - A.length)
          (by rw [List.length_cons]; simp at h3; omega) (by rw [List.length_cons]; simp at h3; omega) (by omega)
        rw [← e]
        have hne := hB _ hmem
        generalize (CI.brk :: B)[i - A.length]'_ = z at hne ⊢
        cases z with
        | brk => exact absurd rfl hne
        | _ => rfl

/-! ### semantics -/

theorem eval_break (n : Nat) (cur : Pos) (env : Env) (p : Pos) (s : SS) :
    eval (n + 1) cur env (.form [.sym "break"] p) s = .brk .nil s := by
  simp only [eval] <;> rfl

/-- `(break) :: post` breaks at once (or runs out of fuel) -/
theorem evalSeq_break_head (f : Nat) (cur : Pos) (env : Env) (p : Pos) (post : List Expr) (s : SS) :
    (1 ≤ f ∧ evalSeq f cur env (.form [.sym "break"] p :: post) s = .brk .nil s) ∨
    evalSeq f cur env (.form [.sym "break"] p :: post) s = .stop "fuel" := by
  cases f with
  | zero => right; simp [evalSeq]
  | succ f =>
    cases f with
    | zero =>
      right
      cases post <;> simp [evalSeq, eval]
    | succ f =>
      left
      refine ⟨by omega, ?_⟩
      cases post <;> simp [evalSeq, eval_break]

/-- a statement list `pre ++ (break) :: post` never ends normally, and when it breaks, either `pre` ran to its end (and the
    break carries nil from `pre`'s final state) or `pre` itself broke -/
theorem evalSeq_break_inv (cur : Pos) (p : Pos) (post : List Expr) :
    ∀ (pre : List Expr) (f : Nat) (env : Env) (s : SS),
      (∀ r s', evalSeq f cur env (pre ++ .form [.sym "break"] p :: post) s ≠ .ok r s') ∧
      (∀ bv s', evalSeq f cur env (pre ++ .form [.sym "break"] p :: post) s = .brk bv s' →
        (∃ v envA, evalSeq f cur env pre s = .ok (v, envA) s') ∨ evalSeq f cur env pre s = .brk bv s')
  | [], f, env, s => by
    simp only [List.nil_append]
    rcases evalSeq_break_head f cur env p post s with ⟨hf1, h⟩ | h
    · rw [h]
      refine ⟨fun _ _ e => by simp at e, fun bv s' e => ?_⟩
      simp only [R.brk.injEq] at e
      obtain ⟨_, e2⟩ := e
      subst e2
      obtain ⟨f0, rfl⟩ : ∃ f0, f = f0 + 1 := ⟨f - 1, by omega⟩
      exact Or.inl ⟨.nil, env, by simp [evalSeq]⟩
    · rw [h]
      exact ⟨fun _ _ e => by simp at e, fun _ _ e => by simp at e⟩
  | [e], f, env, s => by
    cases f with
    | zero => simp [evalSeq]
    | succ f =>
      simp only [List.cons_append, List.nil_append, evalSeq]
      cases he : eval f cur env e s with
      | ok r1 s1 =>
        obtain ⟨v1, env1⟩ := r1
        simp only
        rcases evalSeq_break_head f cur env1 p post s1 with ⟨_, h⟩ | h
        · rw [h]
          refine ⟨fun _ _ e => by simp at e, fun bv s' e => ?_⟩
          simp only [R.brk.injEq] at e
          obtain ⟨_, e2⟩ := e
          subst e2
          exact Or.inl ⟨v1, env1, by simp [evalSeq, he]⟩
        · rw [h]
          exact ⟨fun _ _ e => by simp at e, fun _ _ e => by simp at e⟩
      | err a b c => exact ⟨fun _ _ e => by simp at e, fun _ _ e => by simp at e⟩
      | stop w => exact ⟨fun _ _ e => by simp at e, fun _ _ e => by simp at e⟩
      | brk bv0 s0 =>
        refine ⟨fun _ _ e => by simp at e, fun bv s' e => ?_⟩
        simp only [R.brk.injEq] at e
        obtain ⟨e1, e2⟩ := e
        subst e1 e2
        exact Or.inr (by simp [evalSeq, he])
  | e :: y :: r, f, env, s => by
    cases f with
    | zero => simp [evalSeq]
    | succ f =>
      simp only [List.cons_append, evalSeq]
      cases he : eval f cur env e s with
      | ok r1 s1 =>
        obtain ⟨v1, env1⟩ := r1
        simp only
        obtain ⟨h1, h2⟩ := evalSeq_break_inv cur p post (y :: r) f env1 s1
        simp only [List.cons_append] at h1 h2
        refine ⟨h1, fun bv s' hb => ?_⟩
        rcases h2 bv s' hb with ⟨v, envA, h⟩ | h
        · exact Or.inl ⟨v, envA, h⟩
        · exact Or.inr h
      | err a b c => exact ⟨fun _ _ e => by simp at e, fun _ _ e => by simp at e⟩
      | stop w => exact ⟨fun _ _ e => by simp at e, fun _ _ e => by simp at e⟩
      | brk bv0 s0 =>
        refine ⟨fun _ _ e => by simp at e, fun bv s' e => ?_⟩
        simp only [R.brk.injEq] at e
        obtain ⟨e1, e2⟩ := e
        subst e1 e2
        exact Or.inr (by simp [evalSeq, he])

end JanetModel.Compile
