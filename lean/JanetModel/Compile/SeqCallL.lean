/- C02: compile correctness, calls THROUGH A LOCAL: `(x e ...)` where `x` is a local whose box holds a core function
   (`(def pr print) (pr 1 2)`): the head resolves to the local's register, no constant is loaded — `CALL d r_x` — and the callee
   is read from the register when the call is made, after the operands ran (they leave it untouched: it is allocated).
   The callee being a core function is a hypothesis on the state (a closure as callee is the `fn` case, not covered). -/
import JanetModel.Compile.SeqCore
namespace JanetModel.Compile
open JanetModel.Emit JanetModel.Lang JanetModel.Bytecode.Exec JanetModel.Gen.Bytecode

/-- `janetc_emit_ss(c, op, near local d, near local r, 1)`: just the payload, no write-back move -/
theorem emitSS_loc_loc (c c' : CState) (op : Op) (s1 s2 : JSlot) (d r : Nat) (h1 : s1.k = .loc d) (hd : d ≤ 0xFF) (h2 : s2.k = .loc r)
    (sc : Scope) (rs : List Scope) (pool : List KConst) (ps : List (List KConst))
    (hs : c.scopes = sc :: rs) (hp : c.pools = pool :: ps) (h : emitSS c op s1 s2 true = some c') :
    sc.ra.max < c.lim ∧
    c' = { c with scopes := sc :: rs, pools := pool :: ps, buf := c.buf ++ [CI.mi (.pay op.toNat .ss true [d, r] 0)], map := c.map ++ [c.cur] } := by
  unfold emitSS at h
  rw [h1, h2] at h
  obtain ⟨hmax, hc'⟩ := emitW_spec c c' _ sc rs pool ps hs hp h
  have hnl : (Slot.loc d).nearLocal = true := by simp [Slot.nearLocal, hd]
  have hX : W.emitSS { ra := sc.ra, buf := [], consts := pool } op.toNat true (.loc d) (.loc r) =
      { ra := sc.ra, buf := [.pay op.toNat .ss true [d, r] 0], consts := pool } := by
    simp [W.emitSS, W.nearTemp, W.needTemp, hnl, W.farTemp, Slot.isLocal, W.backTemp, W.freeNear, Slot.index, W.slotConst, W.finish,
      Emit.emitSS, regnear, regfar, wb, moveback]
  rw [hX] at hmax hc'
  exact ⟨hmax, by rw [hc']; simp⟩

/-- `Lang/Sem.eval` of a call whose head is a local name -/
theorem eval_callL_inv (n : Nat) (cur : Pos) (env env' : Env) (x : String) (a : Nat) (args : List Expr) (pp : Pos) (s s' : SS) (v : Value)
    (hf : specials.contains x = false) (hx : lookupEnv env x = some a)
    (h : eval n cur env (.form (.sym x :: args) pp) s = .ok (v, env') s') :
    ∃ n2 vs s_a, n = n2 + 2 ∧ evalArgs (n2 + 1) (posOf cur pp) env args s = .ok (vs, env') s_a ∧
      applyFn (n2 + 1) (posOf cur pp) (readBox s a) vs s_a = .ok v s' := by
  match n, h with
  | 0, h => simp [eval] at h
  | 1, h =>
    rw [eval_call 0 cur env x args pp s hf] at h
    simp [eval] at h
  | n2 + 2, h =>
    rw [eval_call (n2 + 1) cur env x args pp s hf, eval_sym_local n2 _ env x s a hx] at h
    simp only at h
    cases he : evalArgs (n2 + 1) (posOf cur pp) env args s with
    | ok r s_a =>
      obtain ⟨vs, env_a⟩ := r
      rw [he] at h
      simp only at h
      cases ha : applyFn (n2 + 1) (posOf cur pp) (readBox s a) vs s_a with
      | ok v2 s3 =>
        rw [ha] at h
        simp only [R.ok.injEq, Prod.mk.injEq] at h
        obtain ⟨⟨hv, henv⟩, hs⟩ := h
        subst hv hs henv
        exact ⟨n2, vs, s_a, rfl, he, ha⟩
      | err _ _ _ => rw [ha] at h; exact absurd h (by simp)
      | brk _ _ => rw [ha] at h; exact absurd h (by simp)
      | stop _ => rw [ha] at h; exact absurd h (by simp)
    | err _ _ _ => rw [he] at h; exact absurd h (by simp)
    | brk _ _ => rw [he] at h; exact absurd h (by simp)
    | stop _ => rw [he] at h; exact absurd h (by simp)

section
variable (p : Program) (f0 : Frame) (rest : List Frame) (V : Array Value) (P : List KConst)

/-- target allocation + `JOP_CALL` with the callee in a near local: compile-side effect, VM run, agreement with `applyFn` -/
theorem callEmitL (c cT c4 : CState) (t head : JSlot) (r : Nat) (f : String) (hna : f ≠ "apply")
    (sc : Scope) (rs : List Scope) (pool : List KConst) (ps : List (List KConst))
    (hs : c.scopes = sc :: rs) (hp : c.pools = pool :: ps) (hl : c.lim ≤ 240)
    (hhead : head.k = .loc r) (hr : r < 240) (hra : sc.ra.alloc r = true)
    (hT : getTarget c {} = some (t, cT)) (hE : emitSS cT .call t head true = some c4) :
    ∃ (d : Nat) (ra4 : RA) (seg : List CI) (segm : List Pos),
      t = { k := .loc d } ∧
      c4 = { c with scopes := { sc with ra := ra4 } :: rs, pools := pool :: ps, buf := c.buf ++ seg, map := c.map ++ segm } ∧
      sc.ra.alloc d = false ∧ (∀ j, ra4.alloc j = (if j = d then true else sc.ra.alloc j)) ∧ d ≤ ra4.max ∧ sc.ra.max ≤ ra4.max ∧ ra4.max < c.lim ∧
      ∀ (k : Cfg) (s s' : SS) (n : Nat) (pos : Pos) (v : Value),
        CodeAt (p.defs.getD f0.defIdx default).code k.pc seg → ra4.max < k.regs.size → k.w = s.st.world →
        k.regs.getD r .nil = .cfun f →
        applyFn (n + 1) pos (.cfun f) k.args.toList s = .ok v s' →
        ∃ regs', Reach p (inj f0 rest k) (inj f0 rest { regs := regs', pc := k.pc + seg.length, args := #[], w := s'.st.world }) ∧
          regs'.size = k.regs.size ∧ regs'.getD d .nil = v ∧ ∀ r', sc.ra.alloc r' = true → regs'.getD r' .nil = k.regs.getD r' .nil := by
  obtain ⟨d, raT, ht, b1, b2, b3, b4, b5, hcT⟩ := getTarget_spec c cT t sc rs hs hl hT
  have hsT : cT.scopes = { sc with ra := raT } :: rs := by rw [hcT]
  have hpT : cT.pools = pool :: ps := by rw [hcT]; exact hp
  have hlimT : cT.lim = c.lim := by rw [hcT]
  have hd : d ≤ 0xFF := by omega
  obtain ⟨hmax, hc4⟩ := emitSS_loc_loc cT c4 .call t head d r (by rw [ht]) hd hhead { sc with ra := raT } rs pool ps hsT hpT hE
  refine ⟨d, raT, [CI.mi (MI.pay Op.call.toNat Shape.ss true [d, r] 0)], [cT.cur], ht, ?_, b1, b5, b2, b4, by rw [← hlimT]; exact hmax, ?_⟩
  · rw [hc4, hcT]
  · intro k s s' n pos v hcode hsz hw hreg happ
    have hcode2 : (p.defs.getD f0.defIdx default).code[k.pc]? = some (CI.call d r).word := by
      rw [← call_word]; exact hcode.head
    rw [applyFn_cfun n pos f hna k.args.toList s] at happ
    cases hcp : callPrimW f k.args.toList s.st.world with
    | rt => rw [hcp] at happ; exact absurd happ (by simp)
    | user e => rw [hcp] at happ; exact absurd happ (by simp)
    | unsup why => rw [hcp] at happ; exact absurd happ (by simp)
    | ok a =>
      obtain ⟨v', w'⟩ := a
      rw [hcp] at happ
      simp only [R.ok.injEq] at happ
      obtain ⟨hv, hs'⟩ := happ
      subst hv
      have hreg' : (inj f0 rest k).getReg r = .cfun f := by rw [inj_getReg]; exact hreg
      have s2 := step_call p (inj f0 rest k) d r (by omega) (by omega) (by rw [inj_curDef, inj_pc]; exact hcode2)
      rw [hreg', doCall_cfun] at s2
      have hw1 : (inj f0 rest k).world = s.st.world := by rw [inj_world]; exact hw
      have ha1 : (inj f0 rest k).args = k.args := rfl
      rw [hw1, ha1, hcp] at s2
      refine ⟨k.regs.setIfInBounds d v', ?_, by simp, ?_, ?_⟩
      · refine Reach.head s2 ?_
        have : s'.st.world = w' := by rw [← hs']; rfl
        rw [this]
        exact Reach.refl _ _
      · exact getD_set_eq _ _ _ (by omega)
      · intro r' hr'
        exact getD_set_ne _ _ _ _ (by intro e; rw [e] at hr'; rw [hr'] at b1; exact Bool.noConfusion b1)

/-- a call through a local that holds a core function -/
theorem callL_core (hP : P.length < 65536)
    (hK : ∀ i, i < P.length → (p.defs.getD f0.defIdx default).consts.getD i .nil = litOf V (P.getD i .nil))
    (G : String → Prop) (T : Expr → Prop) (w : Bool) (fuel : Nat) (IH : CorrectAt p f0 rest V P G T w fuel)
    (ML : MLAt G T w fuel) (hns : ∀ a, T a → isSplice a = none)
    (x : String) (args : List Expr) (f : String) (hna : f ≠ "apply") (hTa : ∀ a, a ∈ args → T a)
    (c cq : CState) (slot0 : JSlot) (sc : Scope) (rs : List Scope) (pool : List KConst) (ps : List (List KConst))
    (n2 : Nat) (pos : Pos) (env env_a : Env) (s s_a s' : SS) (vs : List Value) (v : Value) (a : Nat)
    (hs : c.scopes = sc :: rs) (hp : c.pools = pool :: ps) (hl : c.lim ≤ 240) (htop : sc.top = false)
    (hm : w = true → c.map.length = c.buf.length)
    (hx : lookupEnv env x = some a) (hbox : readBox s a = .cfun f)
    (hcc : cCall (cValue fuel) {} (.sym x) args c = some (slot0, cq))
    (hsa : evalArgs (n2 + 1) pos env args s = .ok (vs, env_a) s_a) (happ : applyFn (n2 + 1) pos (.cfun f) vs s_a = .ok v s')
    (hE : EnvS G c.scopes env s.boxes.size sc.ra) :
    Correct2 p f0 rest V P G false c cq slot0 sc rs pool ps env env_a s s' v := by
  obtain ⟨head, c1, slots, c2, c3, cT, c4, c5, h1, h2, h3, hT, hEm, hf1, hf2⟩ := cCallN_inv (cValue fuel) x args c cq slot0 hcc
  cases fuel with
  | zero => simp [cValue] at h1
  | succ fuel' =>
  -- the head: the local's slot
  obtain ⟨sl, r, a', u, hl1, hk1, hn1, hc1, hl2, ha, hal, hr⟩ : ∃ slot r a' u, lk c.scopes x = some (slot, u, true) ∧ slot.k = .loc r ∧
      slot.named = true ∧ slot.cflag = false ∧ lookupEnv env x = some a' ∧ a' < s.boxes.size ∧ sc.ra.alloc r = true ∧ r < 240 := by
    rcases hE.2 x with ⟨_, h⟩ | h
    · rw [hx] at h; exact absurd h (by simp)
    · exact h
  have haa : a' = a := by rw [hx] at hl2; exact (Option.some.inj hl2).symm
  subst haa
  rw [cValue_sym, resolve_local c x sl u (by rw [lookupSlot_lk]; exact hl1) hc1] at h1
  simp only [fin, Option.some.injEq, Prod.mk.injEq] at h1
  obtain ⟨hh, hc1eq⟩ := h1
  subst hh
  have hc1' : c1 = c := hc1eq.symm
  subst hc1'
  -- the operands
  obtain ⟨ra2, ns2, more2, seg2, segm2, hc2, pv2, r1a, r3a, sok2, bx2, es2, nf2, vm2⟩ :=
    toSlots_correct p f0 rest V P G T w (fuel' + 1) IH ML hns args hTa _ c2 slots sc rs pool ps (n2 + 1) pos env env_a s s_a vs hs hp hl htop hm h2 hsa hE
  have hs2 : c2.scopes = { sc with ra := ra2, syms := sc.syms ++ ns2 } :: rs := by rw [hc2]
  have hp2 : c2.pools = (pool ++ more2) :: ps := by rw [hc2]
  have hl2' : c2.lim ≤ 240 := by rw [hc2]; exact hl
  have hsk : ∀ sl', sl' ∈ slots → SK sl' := fun sl' h => (sok2 sl' h).sk
  have hal2 : ∀ sl' r', sl' ∈ slots → sl'.k = .loc r' → ra2.alloc r' = true := by
    intro sl' r' hsl hk
    rcases sok2 sl' hsl with ⟨_, kc, hk', _⟩ | ⟨_, _, r'', hk', a4, _⟩ | ⟨_, _, d', hk', _, a5, _, _⟩
    · rw [hk] at hk'; exact absurd hk' (by simp)
    · rw [hk] at hk'; injection hk' with e; subst e; exact a4
    · rw [hk] at hk'; injection hk' with e; subst e; exact a5
  obtain ⟨ra3, more3, seg3, segm3, hc3, e3, m3, vm3⟩ :=
    pushN p f0 rest V P hP hK slots c2 c3 { sc with ra := ra2, syms := sc.syms ++ ns2 } rs (pool ++ more2) ps hs2 hp2 hl2' hsk hal2 h3
  have hs3 : c3.scopes = { sc with ra := ra3, syms := sc.syms ++ ns2 } :: rs := by rw [hc3]
  have hp3 : c3.pools = ((pool ++ more2) ++ more3) :: ps := by rw [hc3]
  have hl3 : c3.lim ≤ 240 := by rw [hc3]; exact hl2'
  have e3' : ∀ j, ra3.alloc j = ra2.alloc j := e3
  have hr3 : ra3.alloc r = true := by rw [e3' r]; exact r1a r hal
  obtain ⟨d, ra4, seg4, segm4, hslot, hc4, d1, d2, d3, d4, d5, vm4⟩ :=
    callEmitL p f0 rest c3 cT c4 slot0 sl r f hna { sc with ra := ra3, syms := sc.syms ++ ns2 } rs ((pool ++ more2) ++ more3) ps
      hs3 hp3 hl3 hk1 hr hr3 hT hEm
  have hs4 : c4.scopes = { sc with ra := ra4, syms := sc.syms ++ ns2 } :: rs := by rw [hc4]
  rw [freeslot_named c5 sl hn1] at hf2
  have hcq : c5 = cq := Option.some.inj hf2
  subst hcq
  have d1' : ra3.alloc d = false := d1
  have d2' : ∀ j, ra4.alloc j = (if j = d then true else ra3.alloc j) := d2
  have m3' : ra2.max ≤ ra3.max := m3
  have d4' : ra3.max ≤ ra4.max := d4
  have hd240 : d < 240 := by
    have : c3.lim ≤ 240 := hl3
    omega
  have hd_sc : sc.ra.alloc d = false := by
    cases hh : sc.ra.alloc d with
    | false => rfl
    | true => have := r1a d hh; rw [← e3' d, d1'] at this; exact Bool.noConfusion this
  have hlk2 : ∀ ra y, lk ({ sc with ra := ra, syms := sc.syms ++ ns2 } :: rs) y = lk c2.scopes y := by
    intro ra y; rw [hs2]; rfl
  let Keep : Nat → Prop := fun r' => sc.ra.alloc r' = true ∨ r' = d ∨ ∃ y slot u' l, lk c2.scopes y = some (slot, u', l) ∧ slot.k = .loc r'
  have hfree : ∀ sl', sl' ∈ slots → sl'.cflag = true ∨ sl'.named = true ∨ (sl'.cflag = false ∧ sl'.named = false ∧ ∃ da, sl'.k = .loc da ∧ ¬ Keep da) := by
    intro sl' hsl
    rcases sok2 sl' hsl with ⟨hcf, _⟩ | ⟨_, hnm, _⟩ | ⟨hcf, hnm, da, hka', hda1, hda2, _, hnn⟩
    · exact Or.inl hcf
    · exact Or.inr (Or.inl hnm)
    · refine Or.inr (Or.inr ⟨hcf, hnm, da, hka', ?_⟩)
      rintro (h | h | ⟨y, slot, u', l, hy, hk⟩)
      · rw [h] at hda1; exact Bool.noConfusion hda1
      · rw [h, ← e3' d, d1'] at hda2; exact Bool.noConfusion hda2
      · exact hnn y slot u' l hy hk
  obtain ⟨ra5, hc5, hmax5, r15⟩ := freeslots_keep Keep slots c4 c5 { sc with ra := ra4, syms := sc.syms ++ ns2 } rs hs4 hfree hf1
  have hmax5' : ra5.max = ra4.max := hmax5
  have r15' : ∀ r', ra4.alloc r' = true → Keep r' → ra5.alloc r' = true := r15
  have hs5 : c5.scopes = { sc with ra := ra5, syms := sc.syms ++ ns2 } :: rs := by rw [hc5]
  have h24 : ∀ r', ra2.alloc r' = true → ra4.alloc r' = true := by
    intro r' hr'; rw [d2' r']; split
    · rfl
    · rw [e3' r']; exact hr'
  have hd5 : ra5.alloc d = true := r15' d (by rw [d2' d]; simp) (Or.inr (Or.inl rfl))
  have hbx : s'.boxes = s_a.boxes := applyFn_cfun_boxes n2 pos f hna vs s_a s' v happ
  have hnames : ∀ y slot u' l r', lk c2.scopes y = some (slot, u', l) → slot.k = .loc r' → ra2.alloc r' = true → ra5.alloc r' = true :=
    fun y slot u' l r' hy hk hr' => r15' r' (h24 r' hr') (Or.inr (Or.inr ⟨y, slot, u', l, hy, hk⟩))
  refine ⟨ra5, ns2, more2 ++ more3, seg2 ++ seg3 ++ seg4, segm2 ++ segm3 ++ segm4, ?_, ?_, ?_, ?_, ?_, ?_, ?_, ?_, ?_⟩
  · rw [hc5, hc4, hc3, hc2]
    simp [List.append_assoc]
  · rw [hc5, hc4, hc3]
    exact pv2
  · intro r' hr'; exact r15' r' (h24 r' (r1a r' hr')) (Or.inl hr')
  · rw [hmax5']; exact Nat.le_trans r3a (Nat.le_trans m3' d4')
  · refine Or.inr (Or.inr ⟨by rw [hslot], by rw [hslot], d, by rw [hslot], hd_sc, hd5, hd240, ?_⟩)
    intro y slot u' l hy hk
    rw [hs5, hlk2] at hy
    obtain ⟨_, _, _, r', a'', hk', _, _, hal', _⟩ := es2.found hy
    rw [hk'] at hk
    have : r' = d := by injection hk
    rw [this, ← e3' d, d1'] at hal'
    exact Bool.noConfusion hal'
  · rw [hbx]; exact bx2
  · rw [hs5, hbx]
    exact es2.of_lk (hlk2 ra5) (Nat.le_refl _) hnames
  · refine ⟨fun d0 hd0 hno => (nf2 d0 hd0 hno).of_lk (fun y => by rw [hs5, hlk2]), fun r' hnm => ?_⟩
    rw [hslot] at hnm; exact absurd hnm (by simp)
  · intro k hkw hka hD hcode hpre hV hsz
    rw [hmax5'] at hsz
    have hvals : c5.vals = c2.vals := by rw [hc5, hc4, hc3]
    rw [hvals] at hV
    have hcodeA : CodeAt (p.defs.getD f0.defIdx default).code k.pc seg2 := by
      rw [List.append_assoc] at hcode; exact hcode.left
    have hcodeB : CodeAt (p.defs.getD f0.defIdx default).code (k.pc + seg2.length) seg3 := by
      rw [List.append_assoc] at hcode; exact hcode.right.left
    have hcodeC : CodeAt (p.defs.getD f0.defIdx default).code (k.pc + seg2.length + seg3.length) seg4 := by
      rw [List.append_assoc] at hcode; exact hcode.right.right
    have hpreA : PrefL (pool ++ more2) P := PrefL.trans ⟨more3, by simp [List.append_assoc]⟩ hpre
    have hpreB : PrefL (pool ++ more2 ++ more3) P := PrefL.trans ⟨[], by simp [List.append_assoc]⟩ hpre
    obtain ⟨regs2, rch2, sz2, pr2, sv2, ed2⟩ := vm2 k hkw hka hD hcodeA hpreA hV (by omega)
    obtain ⟨regs3, A, rch3, hA, sz3, pr3⟩ := vm3 { regs := regs2, pc := k.pc + seg2.length, args := #[], w := s_a.st.world } hcodeB hpreB
      (by show ra3.max < regs2.size; omega)
    have sz3' : regs3.size = regs2.size := sz3
    have pr3' : ∀ r', ra2.alloc r' = true → regs3.getD r' .nil = regs2.getD r' .nil := pr3
    have hargs : A.toList = vs := by
      rw [hA, ← sv2]; simp
    have hcallee : regs3.getD r .nil = .cfun f := by
      rw [pr3' r (r1a r hal), pr2 r hal, hD x sl u true r a' hl1 hk1 hx, hbox]
    obtain ⟨regs4, rch4, sz4, hv4, pr4⟩ := vm4
      { regs := regs3, pc := k.pc + seg2.length + seg3.length, args := A, w := s_a.st.world }
      s_a s' n2 pos v hcodeC (by show ra4.max < regs3.size; omega) rfl hcallee (by rw [hargs]; exact happ)
    have sz4' : regs4.size = regs3.size := sz4
    have pr4' : ∀ r', ra3.alloc r' = true → regs4.getD r' .nil = regs3.getD r' .nil := pr4
    refine ⟨regs4, ?_, by omega, ?_, ?_, ?_⟩
    · have e : k.pc + (seg2 ++ seg3 ++ seg4).length = k.pc + seg2.length + seg3.length + seg4.length := by
        simp [List.length_append]; omega
      rw [e]
      exact Reach.trans rch2 (Reach.trans rch3 rch4)
    · intro r' hr'
      have h2r : ra2.alloc r' = true := r1a r' hr'
      have h3r : ra3.alloc r' = true := by rw [e3' r']; exact h2r
      rw [pr4' r' h3r, pr3' r' h2r, pr2 r' hr']
    · intro _; simp only [slotVal, hslot]; exact hv4
    · intro y slot u' l r' a'' hy hk he
      rw [hs5, hlk2] at hy
      obtain ⟨_, _, _, r'', _, hk', _, _, hal', _⟩ := es2.found hy
      have hrr : r'' = r' := by rw [hk'] at hk; injection hk
      rw [hrr] at hal'
      have h3r : ra3.alloc r' = true := by rw [e3' r']; exact hal'
      rw [pr4' r' h3r, pr3' r' hal', ed2 y slot u' l r' a'' hy hk he]
      simp only [readBox, hbx]

end

end JanetModel.Compile
